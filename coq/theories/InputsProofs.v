(* InputsProofs.v — proofs about the input-selection model Inputs.v (property C09). stdlib + lia, no axioms. *)
From Coq Require Import NArith Ascii String List Bool Lia Permutation Sorted.
From PyC Require Import Base Inputs.
Import ListNotations.
Open Scope N_scope.

(* ================= equality and membership ================= *)
Lemma utxo_eqb_eq a b : utxo_eqb a b = true <-> a = b.
Proof.
  destruct a as [t i p], b as [t' i' p']; unfold utxo_eqb; cbn.
  rewrite !andb_true_iff, bytes_eqb_eq, !N.eqb_eq. split.
  - intros [[-> ->] ->]. reflexivity.
  - intros H. inversion H. auto.
Qed.

Lemma utxo_eq_dec (a b : utxo) : {a = b} + {a <> b}.
Proof.
  destruct (utxo_eqb a b) eqn:E; [left; now apply utxo_eqb_eq|].
  right. intros H. apply utxo_eqb_eq in H. congruence.
Qed.

Lemma mem_In u l : mem u l = true <-> In u l.
Proof.
  unfold mem. rewrite existsb_exists. split.
  - intros [x [Hx E]]. apply utxo_eqb_eq in E. now subst.
  - intros H. exists u. split; [exact H | now apply utxo_eqb_eq].
Qed.
Lemma mem_false u l : mem u l = false <-> ~ In u l.
Proof.
  rewrite <- mem_In. destruct (mem u l); intuition congruence.
Qed.

Lemma ref_eqb_eq a b : ref_eqb a b = true <-> a = b.
Proof.
  destruct a as [t i], b as [t' i']; unfold ref_eqb; cbn.
  rewrite andb_true_iff, bytes_eqb_eq, N.eqb_eq. split.
  - intros [-> ->]. reflexivity.
  - intros H. inversion H. auto.
Qed.
Lemma ref_eq_dec (a b : ref) : {a = b} + {a <> b}.
Proof.
  destruct (ref_eqb a b) eqn:E; [left; now apply ref_eqb_eq|].
  right. intros H. apply ref_eqb_eq in H. congruence.
Qed.
Lemma memr_In r l : memr r l = true <-> In r l.
Proof.
  unfold memr. rewrite existsb_exists. split.
  - intros [x [Hx E]]. apply ref_eqb_eq in E. now subst.
  - intros H. exists r. split; [exact H | now apply ref_eqb_eq].
Qed.
Lemma memr_false r l : memr r l = false <-> ~ In r l.
Proof.
  rewrite <- memr_In. destruct (memr r l); intuition congruence.
Qed.

(* ================= pre-selection: first occurrences, each once ================= *)
Lemma dedup_from_In l : forall seen x, In x (dedup_from seen l) <-> In x l /\ ~ In x seen.
Proof.
  induction l as [|u r IH]; intros seen x; cbn [dedup_from].
  - cbn. tauto.
  - destruct (mem u seen) eqn:E.
    + rewrite IH. apply mem_In in E. cbn. split.
      * intros [H1 H2]. auto.
      * intros [[->|H1] H2]; [contradiction | auto].
    + apply mem_false in E. cbn [In]. rewrite IH. cbn [In]. split.
      * intros [->|[H1 H2]]; [auto | split; auto].
      * intros [[->|H1] H2]; [auto|].
        destruct (utxo_eq_dec u x) as [->|N]; [auto|]. right. split; [exact H1|]. intros [A|A]; auto.
Qed.

Lemma dedup_from_NoDup l : forall seen, NoDup (dedup_from seen l).
Proof.
  induction l as [|u r IH]; intros seen; cbn [dedup_from]; [constructor|].
  destruct (mem u seen); [apply IH|]. constructor; [|apply IH].
  rewrite dedup_from_In. intros [_ H]. apply H. now left.
Qed.

Lemma preselect_In l x : In x (preselect l) <-> In x l.
Proof. unfold preselect. rewrite dedup_from_In. cbn. tauto. Qed.
Lemma preselect_NoDup l : NoDup (preselect l).
Proof. apply dedup_from_NoDup. Qed.

(* ================= additional pool ================= *)
Lemma gather_In excl cands : forall seen x,
  In x (gather seen excl cands) <-> In x cands /\ ~ In x seen /\ ~ In x excl.
Proof.
  induction cands as [|u r IH]; intros seen x; cbn [gather].
  - cbn. tauto.
  - destruct (mem u seen || mem u excl) eqn:E.
    + rewrite IH. apply orb_true_iff in E. rewrite !mem_In in E. cbn [In]. split.
      * intros [H1 H2]. auto.
      * intros [[->|H1] [H2 H3]]; [tauto | auto].
    + apply orb_false_iff in E. rewrite !mem_false in E. destruct E as [E1 E2].
      cbn [In]. rewrite IH. cbn [In]. split.
      * intros [->|[H1 [H2 H3]]]; [auto | split; auto].
      * intros [[->|H1] [H2 H3]]; [auto|].
        destruct (utxo_eq_dec u x) as [->|N]; [auto|]. right. split; [exact H1|]. split; [|exact H3].
        intros [A|A]; auto.
Qed.

Lemma gather_NoDup excl cands : forall seen, NoDup (gather seen excl cands).
Proof.
  induction cands as [|u r IH]; intros seen; cbn [gather]; [constructor|].
  destruct (mem u seen || mem u excl); [apply IH|]. constructor; [|apply IH].
  rewrite gather_In. intros [_ [H _]]. apply H. now left.
Qed.

(* ================= selectors ================= *)
(* what a selector may return: a sub-multiset of the pool it was given (distinct pool positions) *)
Definition sel_sound (s : selector) : Prop :=
  forall pool r, s pool = SelOk r -> exists rest, Permutation pool (r ++ rest).

Lemma chain_sound sels : Forall sel_sound sels ->
  forall pool r, chain sels pool = SelOk r -> exists rest, Permutation pool (r ++ rest).
Proof.
  induction 1 as [|s sels Hs _ IH]; intros pool r; cbn [chain]; [discriminate|].
  destruct (s pool) as [r'| |] eqn:E; try discriminate.
  - intros H. inversion H; subst. now apply Hs.
  - apply IH.
Qed.

Lemma run_selectors_sound sels : Forall sel_sound sels ->
  forall pool r, run_selectors sels pool = SelOk r -> exists rest, Permutation pool (r ++ rest).
Proof.
  intros Hs pool r. unfold run_selectors. destruct sels as [|s sels].
  - intros H. inversion H; subst. exists pool. apply Permutation_refl.
  - now apply chain_sound.
Qed.

Lemma NoDup_app_l {A} (a b : list A) : NoDup (a ++ b) -> NoDup a.
Proof.
  induction a as [|x a IH]; cbn; intros H; [constructor|]. inversion H as [|? ? Hx Hr]; subst.
  constructor; [|auto]. intros X. apply Hx. apply in_or_app. now left.
Qed.
Lemma NoDup_app_intro {A} (a b : list A) :
  NoDup a -> NoDup b -> (forall x, In x a -> In x b -> False) -> NoDup (a ++ b).
Proof.
  induction 1 as [|x a Hx Ha IH]; cbn; intros Hb D; [exact Hb|]. constructor.
  - intros X. apply in_app_or in X. destruct X as [X|X]; [contradiction|]. apply (D x); [now left | exact X].
  - apply IH; [exact Hb|]. intros y Hy. apply D. now right.
Qed.

Lemma submulti_incl {A} (pool r rest : list A) : Permutation pool (r ++ rest) -> incl r pool.
Proof.
  intros P x Hx. apply Permutation_sym in P. eapply Permutation_in; [exact P|]. apply in_or_app. now left.
Qed.
Lemma submulti_NoDup {A} (pool r rest : list A) : Permutation pool (r ++ rest) -> NoDup pool -> NoDup r.
Proof.
  intros P N. eapply Permutation_NoDup in N; [|exact P]. now apply NoDup_app_l in N.
Qed.

(* ================= the order: hex strings versus bytes ================= *)
Definition hexcode (n : N) : N := if n <? 10 then 48 + n else 87 + n.

Lemma hexdig_code n : n < 16 -> N_of_ascii (hexdig n) = hexcode n.
Proof.
  intros H. unfold hexdig, hexcode. apply N_ascii_embedding. destruct (n <? 10) eqn:E.
  - apply N.ltb_lt in E. lia.
  - lia.
Qed.

Lemma hexcode_ltb n m : n < 16 -> m < 16 -> (hexcode n <? hexcode m) = (n <? m).
Proof.
  intros Hn Hm. unfold hexcode.
  destruct (n <? 10) eqn:E1, (m <? 10) eqn:E2;
    rewrite ?N.ltb_lt, ?N.ltb_ge in *;
    destruct (N.ltb_spec n m); rewrite ?N.ltb_lt, ?N.ltb_ge; lia.
Qed.

(* ordering lower-case hex strings = ordering the bytes, for ALL byte strings *)
Lemma hex_order a : forall b, str_ltb (tohex a) (tohex b) = bytes_ltb a b.
Proof.
  induction a as [|x a IH]; intros [|y b]; cbn [tohex str_ltb bytes_ltb]; try reflexivity.
  pose proof (b2n_lt x) as Hx. pose proof (b2n_lt y) as Hy.
  assert (Hxh : b2n x / 16 < 16) by (apply N.div_lt_upper_bound; lia).
  assert (Hyh : b2n y / 16 < 16) by (apply N.div_lt_upper_bound; lia).
  assert (Hxl : b2n x mod 16 < 16) by (apply N.mod_lt; lia).
  assert (Hyl : b2n y mod 16 < 16) by (apply N.mod_lt; lia).
  rewrite !hexdig_code by assumption.
  rewrite !hexcode_ltb by assumption.
  rewrite IH.
  pose proof (N.div_mod (b2n x) 16) as Dx. pose proof (N.div_mod (b2n y) 16) as Dy.
  set (p := b2n x) in *. set (q := b2n y) in *.
  set (ph := p / 16) in *. set (pl := p mod 16) in *. set (qh := q / 16) in *. set (ql := q mod 16) in *.
  destruct (N.ltb_spec ph qh), (N.ltb_spec qh ph), (N.ltb_spec pl ql), (N.ltb_spec ql pl),
           (N.ltb_spec p q), (N.ltb_spec q p); try reflexivity; lia.
Qed.

(* the order on body inputs: transaction id bytes, then index *)
Definition ref_ltb (a b : ref) : bool :=
  if bytes_ltb (fst a) (fst b) then true
  else if bytes_ltb (fst b) (fst a) then false
  else snd a <? snd b.

Lemma key_ltb_ref a b : key_ltb a b = ref_ltb (ref_of a) (ref_of b).
Proof. unfold key_ltb, ref_ltb, ref_of. cbn [fst snd]. now rewrite !hex_order. Qed.

Lemma bytes_ltb_antisym_eq a b : bytes_ltb a b = false -> bytes_ltb b a = false -> a = b.
Proof.
  intros H1 H2. destruct (bytes_eq_dec a b) as [E|E]; [exact E|].
  destruct (bytes_ltb_total a b E); congruence.
Qed.

Lemma ref_ltb_spec a b :
  ref_ltb a b = true <-> bytes_ltb (fst a) (fst b) = true \/ (fst a = fst b /\ snd a < snd b).
Proof.
  unfold ref_ltb. destruct (bytes_ltb (fst a) (fst b)) eqn:E1.
  - split; auto.
  - destruct (bytes_ltb (fst b) (fst a)) eqn:E2.
    + split; [discriminate|]. intros [H|[H _]]; [discriminate|].
      rewrite H, bytes_ltb_irrefl in E2. discriminate.
    + rewrite N.ltb_lt. split.
      * intros H. right. split; [now apply bytes_ltb_antisym_eq | exact H].
      * intros [H|[_ H]]; [discriminate | exact H].
Qed.

Lemma ref_ltb_irrefl a : ref_ltb a a = false.
Proof. unfold ref_ltb. now rewrite bytes_ltb_irrefl, N.ltb_irrefl. Qed.

Lemma ref_ltb_trans a b c : ref_ltb a b = true -> ref_ltb b c = true -> ref_ltb a c = true.
Proof.
  rewrite !ref_ltb_spec. intros [H1|[E1 L1]] [H2|[E2 L2]].
  - left. eapply bytes_ltb_trans; eauto.
  - left. now rewrite <- E2.
  - left. now rewrite E1.
  - right. split; [congruence | lia].
Qed.

Lemma ref_ltb_total a b : a <> b -> ref_ltb a b = true \/ ref_ltb b a = true.
Proof.
  intros N. rewrite !ref_ltb_spec. destruct a as [t i], b as [t' i']. cbn [fst snd].
  destruct (bytes_eq_dec t t') as [->|E].
  - assert (i <> i') by congruence. destruct (N.lt_total i i') as [H'|[H'|H']]; [left|contradiction|right]; right; auto.
  - destruct (bytes_ltb_total t t' E); auto.
Qed.

Lemma ref_ltb_asym a b : ref_ltb a b = true -> ref_ltb b a = false.
Proof.
  intros H. destruct (ref_ltb b a) eqn:E; [|reflexivity].
  pose proof (ref_ltb_trans _ _ _ H E) as T. now rewrite ref_ltb_irrefl in T.
Qed.

(* "not greater": b < a is false *)
Definition ref_le (a b : ref) : Prop := ref_ltb b a = false.
Lemma ref_le_trans a b c : ref_le a b -> ref_le b c -> ref_le a c.
Proof.
  unfold ref_le. intros H1 H2. destruct (ref_ltb c a) eqn:E; [|reflexivity]. exfalso.
  destruct (ref_eq_dec a b) as [->|N]; [congruence|].
  destruct (ref_ltb_total a b N) as [T|T]; [|congruence].
  pose proof (ref_ltb_trans _ _ _ E T). congruence.
Qed.

(* ================= the sort ================= *)
Definition key_le (a b : utxo) : Prop := key_ltb b a = false.

Lemma key_le_ref a b : key_le a b <-> ref_le (ref_of a) (ref_of b).
Proof. unfold key_le, ref_le. now rewrite key_ltb_ref. Qed.

Lemma insert_perm x l : Permutation (insert x l) (x :: l).
Proof.
  induction l as [|y r IH]; cbn [insert]; [apply Permutation_refl|].
  destruct (key_ltb y x); [|apply Permutation_refl].
  eapply Permutation_trans; [apply perm_skip, IH | apply perm_swap].
Qed.

Lemma sort_perm l : Permutation (sort_inputs l) l.
Proof.
  induction l as [|x r IH]; cbn [sort_inputs]; [apply Permutation_refl|].
  eapply Permutation_trans; [apply insert_perm | now apply perm_skip].
Qed.

Lemma sort_In l x : In x (sort_inputs l) <-> In x l.
Proof.
  split; intros H.
  - eapply Permutation_in; [apply sort_perm | exact H].
  - eapply Permutation_in; [apply Permutation_sym, sort_perm | exact H].
Qed.

Lemma insert_sorted x l : StronglySorted key_le l -> StronglySorted key_le (insert x l).
Proof.
  induction 1 as [|y r Hs IH Hf]; cbn [insert]; [repeat constructor|].
  destruct (key_ltb y x) eqn:E.
  - constructor; [exact IH|].
    eapply Permutation_Forall; [apply Permutation_sym, insert_perm|].
    constructor; [|exact Hf]. unfold key_le. rewrite key_ltb_ref in *. now apply ref_ltb_asym.
  - constructor; [now constructor|]. constructor; [exact E|].
    rewrite Forall_forall in *. intros z Hz. specialize (Hf z Hz).
    apply key_le_ref. eapply ref_le_trans; apply key_le_ref; [exact E | exact Hf].
Qed.

Lemma sort_sorted l : StronglySorted key_le (sort_inputs l).
Proof. induction l as [|x r IH]; cbn [sort_inputs]; [constructor | now apply insert_sorted]. Qed.

Lemma sorted_map_ref l : StronglySorted key_le l -> StronglySorted ref_le (map ref_of l).
Proof.
  induction 1 as [|y r Hs IH Hf]; cbn [map]; constructor; [exact IH|].
  rewrite Forall_map. rewrite Forall_forall in *. intros z Hz. apply key_le_ref. auto.
Qed.

(* ================= the body's input set ================= *)
Lemma dedupr_from_In l : forall seen x, In x (dedupr_from seen l) <-> In x l /\ ~ In x seen.
Proof.
  induction l as [|u r IH]; intros seen x; cbn [dedupr_from].
  - cbn. tauto.
  - destruct (memr u seen) eqn:E.
    + rewrite IH. apply memr_In in E. cbn. split.
      * intros [H1 H2]. auto.
      * intros [[->|H1] H2]; [contradiction | auto].
    + apply memr_false in E. cbn [In]. rewrite IH. cbn [In]. split.
      * intros [->|[H1 H2]]; [auto | split; auto].
      * intros [[->|H1] H2]; [auto|].
        destruct (ref_eq_dec u x) as [->|N]; [auto|]. right. split; [exact H1|]. intros [A|A]; auto.
Qed.

Lemma dedupr_from_NoDup l : forall seen, NoDup (dedupr_from seen l).
Proof.
  induction l as [|u r IH]; intros seen; cbn [dedupr_from]; [constructor|].
  destruct (memr u seen); [apply IH|]. constructor; [|apply IH].
  rewrite dedupr_from_In. intros [_ H]. apply H. now left.
Qed.

Lemma dedupr_from_id l : forall seen, NoDup l -> (forall x, In x l -> ~ In x seen) -> dedupr_from seen l = l.
Proof.
  induction l as [|u r IH]; intros seen N D; cbn [dedupr_from]; [reflexivity|].
  inversion N as [|? ? Hu Nr]; subst.
  assert (E : memr u seen = false) by (apply memr_false, D; now left). rewrite E. f_equal.
  apply IH; [exact Nr|]. intros x Hx [A|A]; [subst; contradiction|]. apply (D x); [now right | exact A].
Qed.

Definition ref_lt (a b : ref) : Prop :=
  bytes_ltb (fst a) (fst b) = true \/ (fst a = fst b /\ snd a < snd b).

Lemma dedupr_from_sorted l : StronglySorted ref_le l -> forall seen, StronglySorted ref_lt (dedupr_from seen l).
Proof.
  induction 1 as [|u r Hs IH Hf]; intros seen; cbn [dedupr_from]; [constructor|].
  destruct (memr u seen); [apply IH|]. constructor; [apply IH|].
  rewrite Forall_forall in *. intros x Hx. apply dedupr_from_In in Hx. destruct Hx as [Hx Hn].
  specialize (Hf x Hx). apply ref_ltb_spec.
  assert (N : u <> x) by (intros ->; apply Hn; now left).
  destruct (ref_ltb_total u x N) as [T|T]; [exact T|]. unfold ref_le in Hf. congruence.
Qed.

Lemma body_inputs_In sel r : In r (body_inputs sel) <-> exists u, In u sel /\ ref_of u = r.
Proof.
  unfold body_inputs. rewrite dedupr_from_In, in_map_iff. cbn. split.
  - intros [[u [E H]] _]. eauto.
  - intros [u [H E]]. split; [eauto | tauto].
Qed.

Lemma body_inputs_NoDup sel : NoDup (body_inputs sel).
Proof. apply dedupr_from_NoDup. Qed.

(* a reference stands for one UTxO: no two different UTxOs of the list share (transaction id, index) *)
Definition ref_coherent (l : list utxo) : Prop :=
  forall u v, In u l -> In v l -> ref_of u = ref_of v -> u = v.

Lemma NoDup_map_ref l : NoDup l -> ref_coherent l -> NoDup (map ref_of l).
Proof.
  induction 1 as [|u r Hu Nr IH]; intros C; cbn [map]; constructor.
  - rewrite in_map_iff. intros [v [E Hv]]. assert (v = u) by (apply C; [now right | now left | exact E]).
    subst. contradiction.
  - apply IH. intros a b Ha Hb. apply C; now right.
Qed.

Lemma body_inputs_exact sel : NoDup (map ref_of sel) -> body_inputs sel = map ref_of sel.
Proof. intros N. unfold body_inputs. apply dedupr_from_id; [exact N | intros x _ []]. Qed.

(* ================= build ================= *)
Definition permitted (c : ctx) (st : bstate) : list utxo :=
  explicit st ++ potential st ++ flat_map (ctx_utxos c) (addrs st).

Lemma conflict_spec st : conflict st = true <-> exists u, In u (explicit st) /\ In u (excluded st).
Proof.
  unfold conflict. rewrite existsb_exists. split; intros [u [H1 H2]]; exists u; split; auto; now apply mem_In.
Qed.

(* what a successful build selected, decomposed *)
Lemma build_ok_inv c sels need st sel : build c sels need st = BOk sel ->
  conflict st = false /\
  exists r, sel = sort_inputs (preselect (explicit st) ++ r) /\
            (r = [] \/ run_selectors sels (pool_of c st) = SelOk r).
Proof.
  unfold build. destruct (conflict st); [discriminate|]. intros H. split; [reflexivity|].
  destruct need.
  - destruct (run_selectors sels (pool_of c st)) as [r| |] eqn:E; try discriminate.
    inversion H; subst. exists r. auto.
  - inversion H; subst. exists []. rewrite app_nil_r. auto.
Qed.

Section Build.
  Variable c : ctx.
  Variable sels : list selector.
  Hypothesis sels_sound : Forall sel_sound sels.
  Variable need : bool.
  Variable st : bstate.
  Variable sel : list utxo.
  Hypothesis Hb : build c sels need st = BOk sel.

  Lemma build_parts : conflict st = false /\ exists r rest,
    sel = sort_inputs (preselect (explicit st) ++ r) /\ Permutation (pool_of c st) (r ++ rest).
  Proof.
    destruct (build_ok_inv _ _ _ _ _ Hb) as [Hc [r [E [->|R]]]]; split; auto.
    - exists [], (pool_of c st). split; [exact E | apply Permutation_refl].
    - destruct (run_selectors_sound _ sels_sound _ _ R) as [rest P]. eauto.
  Qed.

  (* 1. every selected UTxO is selected once *)
  Lemma build_NoDup : NoDup sel.
  Proof.
    destruct build_parts as [_ [r [rest [-> P]]]].
    eapply Permutation_NoDup; [apply Permutation_sym, sort_perm|].
    apply NoDup_app_intro.
    - apply preselect_NoDup.
    - eapply submulti_NoDup; [exact P | apply gather_NoDup].
    - intros x H1 H2. apply (submulti_incl _ _ _ P) in H2. unfold pool_of in H2.
      rewrite gather_In in H2. tauto.
  Qed.

  (* 2. provenance *)
  Lemma build_incl_permitted : incl sel (permitted c st).
  Proof.
    destruct build_parts as [_ [r [rest [-> P]]]]. intros x Hx. rewrite sort_In in Hx.
    unfold permitted. apply in_app_or in Hx. destruct Hx as [Hx|Hx].
    - rewrite preselect_In in Hx. apply in_or_app. now left.
    - apply (submulti_incl _ _ _ P) in Hx. unfold pool_of in Hx. rewrite gather_In in Hx.
      apply in_or_app. right. apply Hx.
  Qed.

  (* 4. exclusion *)
  Lemma build_no_excluded : forall u, In u (excluded st) -> ~ In u sel.
  Proof.
    destruct build_parts as [Hc [r [rest [-> P]]]]. intros u He Hx. rewrite sort_In in Hx.
    apply in_app_or in Hx. destruct Hx as [Hx|Hx].
    - rewrite preselect_In in Hx. assert (conflict st = true) by (apply conflict_spec; eauto). congruence.
    - apply (submulti_incl _ _ _ P) in Hx. unfold pool_of in Hx. rewrite gather_In in Hx. tauto.
  Qed.
End Build.

(* 3. explicit inputs are present — for ANY selectors *)
Lemma build_explicit_present c sels need st sel : build c sels need st = BOk sel ->
  forall u, In u (explicit st) -> In u sel.
Proof.
  intros Hb u Hu. destruct (build_ok_inv _ _ _ _ _ Hb) as [_ [r [-> _]]].
  rewrite sort_In. apply in_or_app. left. now rewrite preselect_In.
Qed.

(* 5. conflict: refused, whatever the selectors *)
Lemma build_conflict c sels need st :
  (exists u, In u (explicit st) /\ In u (excluded st)) <-> build c sels need st = BErr EConflict.
Proof.
  rewrite <- conflict_spec. unfold build. destruct (conflict st).
  - tauto.
  - split; [discriminate|]. destruct need; [destruct (run_selectors sels (pool_of c st))|]; discriminate.
Qed.

(* 6. order — for ANY selectors *)
Lemma build_sorted c sels need st sel : build c sels need st = BOk sel ->
  StronglySorted ref_lt (body_inputs sel).
Proof.
  intros Hb. destruct (build_ok_inv _ _ _ _ _ Hb) as [_ [r [-> _]]].
  unfold body_inputs. apply dedupr_from_sorted, sorted_map_ref, sort_sorted.
Qed.

(* ================= histories ================= *)
Definition reg_item (c : ctx) (it : item) : list utxo :=
  match it with
  | Op (AddInput u) | Op (AddScriptInput u) | Op (AddPotential u) => [u]
  | Op (AddAddress a) => ctx_utxos c a
  | _ => []
  end.
Definition registered (c : ctx) (its : list item) : list utxo := flat_map (reg_item c) its.

Definition item_sound (it : item) : Prop :=
  match it with Build _ sels => Forall sel_sound sels | _ => True end.
(* a history during which the chain does not move *)
Definition static (it : item) : Prop := match it with SetCtx _ => False | _ => True end.

Lemma permitted_step c st o R : incl (permitted c st) R ->
  incl (permitted c (bstep st o)) (R ++ reg_item c (Op o)).
Proof.
  intros H x Hx. unfold permitted in *. destruct o; cbn [bstep explicit potential excluded addrs reg_item] in *;
    rewrite ?flat_map_app in Hx; cbn [flat_map] in Hx; rewrite ?app_nil_r in Hx;
    repeat (apply in_app_or in Hx; destruct Hx as [Hx|Hx]);
    try (apply in_or_app; right; exact Hx);
    try (apply in_or_app; left; apply H; repeat (apply in_or_app; (left; assumption) || right); assumption).
Qed.

Lemma run_provenance c its : forall st R, incl (permitted c st) R -> Forall item_sound its -> Forall static its ->
  forall sel, In (BOk sel) (snd (run c st its)) -> incl sel (R ++ registered c its).
Proof.
  induction its as [|it r IH]; intros st R HR Hs Hst sel Hin; cbn [run] in Hin.
  - destruct Hin.
  - inversion Hs as [|? ? Hit Hr]; subst. inversion Hst as [|? ? Hst1 Hstr]; subst.
    destruct it as [o|need sels|c']; [| |destruct Hst1].
    + unfold registered. cbn [flat_map]. rewrite app_assoc. apply (IH (bstep st o)); auto.
      now apply permitted_step.
    + cbn [item_sound] in Hit.
      destruct (run c (state_after st (build c sels need st)) r) as [st' outs] eqn:E. cbn [snd] in Hin.
      unfold registered. cbn [flat_map reg_item app]. destruct Hin as [Hin|Hin].
      * intros x Hx. apply in_or_app. left. apply HR.
        eapply build_incl_permitted; eauto.
      * apply (IH (state_after st (build c sels need st)) R); auto; [|rewrite E; exact Hin].
        destruct (build c sels need st) as [s0|e] eqn:B; cbn [state_after]; [|exact HR].
        intros x Hx. apply HR. unfold permitted in *. cbn [explicit potential addrs] in Hx.
        apply in_app_or in Hx. destruct Hx as [Hx|Hx]; [|apply in_or_app; now right].
        eapply build_incl_permitted; eauto.
Qed.

(* ================= histories on a chain that moves ================= *)
(* what the caller handed over, the addresses registered, what earlier builds selected, the context in force *)
Definition caller_utxos (its : list item) : list utxo :=
  flat_map (fun it => match it with
                      | Op (AddInput u) | Op (AddScriptInput u) | Op (AddPotential u) => [u]
                      | _ => [] end) its.
Definition addr_ops (its : list item) : list N :=
  flat_map (fun it => match it with Op (AddAddress a) => [a] | _ => [] end) its.
Definition earlier_selected (c : ctx) (st : bstate) (its : list item) : list utxo :=
  flat_map (fun b => match b with BOk sel => sel | BErr _ => [] end) (snd (run c st its)).
Fixpoint last_ctx (c : ctx) (its : list item) : ctx :=
  match its with [] => c | SetCtx c' :: r => last_ctx c' r | _ :: r => last_ctx c r end.

Lemma run_build_snd c st need sels r :
  snd (run c st (Build need sels :: r))
  = build c sels need st :: snd (run c (state_after st (build c sels need st)) r).
Proof. cbn [run]. destruct (run c (state_after st (build c sels need st)) r). reflexivity. Qed.

Lemma reach_ctx its : forall c st, fst (reach c st its) = last_ctx c its.
Proof. induction its as [|[o|need sels|c'] r IH]; intros c st; cbn [reach last_ctx]; auto. Qed.

Lemma state_after_addrs st b : addrs (state_after st b) = addrs st.
Proof. destruct b; reflexivity. Qed.

Lemma reach_addrs its : forall c st, addrs (snd (reach c st its)) = addrs st ++ addr_ops its.
Proof.
  induction its as [|[o|need sels|c'] r IH]; intros c st; cbn [reach addr_ops flat_map].
  - now rewrite app_nil_r.
  - rewrite IH. destruct o; cbn [bstep addrs app]; try reflexivity. now rewrite <- app_assoc.
  - rewrite IH, state_after_addrs. reflexivity.
  - apply IH.
Qed.

Lemma run_app_build pre : forall c0 st need sels post,
  snd (run c0 st (pre ++ Build need sels :: post))
  = snd (run c0 st pre)
    ++ build (fst (reach c0 st pre)) sels need (snd (reach c0 st pre))
       :: snd (run (fst (reach c0 st pre)) (state_after (snd (reach c0 st pre))
                     (build (fst (reach c0 st pre)) sels need (snd (reach c0 st pre)))) post).
Proof.
  induction pre as [|[o|n0 s0|c'] r IH]; intros c0 st need sels post.
  - cbn [app reach fst snd]. rewrite run_build_snd. reflexivity.
  - cbn [app run reach]. apply IH.
  - rewrite <- app_comm_cons. rewrite !run_build_snd. cbn [reach]. rewrite IH. reflexivity.
  - cbn [app run reach]. apply IH.
Qed.

(* the explicit and potential lists of the reached state hold only what the caller handed over and what
   earlier builds of this builder selected *)
Lemma reach_lists its : forall c st R, incl (explicit st ++ potential st) R ->
  incl (explicit (snd (reach c st its)) ++ potential (snd (reach c st its)))
       (R ++ caller_utxos its ++ earlier_selected c st its).
Proof.
  induction its as [|[o|need sels|c'] r IH]; intros c st R HR; cbn [reach].
  - intros x Hx. apply in_or_app. left. now apply HR.
  - intros x Hx. apply (IH c (bstep st o) (R ++ caller_utxos [Op o])) in Hx.
    + unfold caller_utxos, earlier_selected in *. cbn [flat_map run] in *. rewrite app_nil_r in Hx.
      rewrite !in_app_iff in *. tauto.
    + intros y Hy. unfold caller_utxos. cbn [flat_map]. rewrite app_nil_r.
      destruct o; cbn [bstep explicit potential] in Hy; rewrite !in_app_iff in *; cbn [In] in *;
        try (left; apply HR; rewrite in_app_iff; tauto);
        try (destruct Hy as [[Hy|[Hy|[]]]|Hy]; [left; apply HR; rewrite in_app_iff; tauto | right; now left | left; apply HR; rewrite in_app_iff; tauto]);
        try (destruct Hy as [Hy|[Hy|[Hy|[]]]]; [left; apply HR; rewrite in_app_iff; tauto | left; apply HR; rewrite in_app_iff; tauto | right; now left]).
  - intros x Hx. unfold earlier_selected. rewrite run_build_snd. cbn [flat_map].
    destruct (build c sels need st) as [s0|e] eqn:B; cbn [state_after] in *.
    + apply (IH c (mkB s0 (potential st) (excluded st) (addrs st)) (R ++ s0)) in Hx.
      * unfold caller_utxos, earlier_selected in *. cbn [flat_map]. rewrite !in_app_iff in *. tauto.
      * intros y Hy. cbn [explicit potential] in Hy. rewrite !in_app_iff in *.
        destruct Hy as [Hy|Hy]; [now right|]. left. apply HR. rewrite in_app_iff. now right.
    + apply (IH c st R HR) in Hx. unfold caller_utxos, earlier_selected in *. cbn [flat_map app].
      rewrite !in_app_iff in *. tauto.
  - intros x Hx. apply (IH c' st R HR) in Hx. unfold caller_utxos, earlier_selected in *. cbn [flat_map run app] in *.
    exact Hx.
Qed.

(* freshness: in a build after any history, a UTxO that the caller did not hand over and that no earlier build of
   this builder selected is reported by the context IN FORCE AT THAT BUILD at an address registered so far *)
Lemma history_live c0 pre need sels sel : Forall sel_sound sels ->
  build (last_ctx c0 pre) sels need (snd (reach c0 empty_state pre)) = BOk sel ->
  incl sel (caller_utxos pre ++ earlier_selected c0 empty_state pre
            ++ flat_map (ctx_utxos (last_ctx c0 pre)) (addr_ops pre)).
Proof.
  intros Hs Hb x Hx. assert (I : incl sel (permitted (last_ctx c0 pre) (snd (reach c0 empty_state pre)))) by (eapply build_incl_permitted; eauto).
  apply I in Hx. unfold permitted in Hx.
  rewrite reach_addrs in Hx. cbn [empty_state addrs app] in Hx.
  rewrite app_assoc in Hx. apply in_app_or in Hx. destruct Hx as [Hx|Hx].
  - apply (reach_lists pre c0 empty_state []) in Hx; [|intros y []]. cbn [app] in Hx.
    rewrite !in_app_iff in *. tauto.
  - rewrite !in_app_iff. right. now right.
Qed.

(* ================= body-level corollaries under reference coherence ================= *)
Lemma ref_coherent_incl l l' : incl l l' -> ref_coherent l' -> ref_coherent l.
Proof. intros I C u v Hu Hv. apply C; now apply I. Qed.

Lemma build_body_exact c sels need st sel : Forall sel_sound sels -> build c sels need st = BOk sel ->
  ref_coherent (permitted c st) -> body_inputs sel = map ref_of sel.
Proof.
  intros Hs Hb C. apply body_inputs_exact, NoDup_map_ref.
  - eapply build_NoDup; eauto.
  - eapply ref_coherent_incl; [|exact C]. eapply build_incl_permitted; eauto.
Qed.

Lemma build_no_excluded_ref c sels need st sel : Forall sel_sound sels -> build c sels need st = BOk sel ->
  ref_coherent (permitted c st ++ excluded st) ->
  forall u, In u (excluded st) -> ~ In (ref_of u) (body_inputs sel).
Proof.
  intros Hs Hb C u Hu. rewrite body_inputs_In. intros [v [Hv E]].
  assert (v = u).
  { apply C; [apply in_or_app; left; eapply build_incl_permitted; eauto | apply in_or_app; now right | exact E]. }
  subst. eapply build_no_excluded; eauto.
Qed.

Lemma build_frame c sels need st :
  let st' := state_after st (build c sels need st) in
  potential st' = potential st /\ excluded st' = excluded st /\ addrs st' = addrs st.
Proof. cbn. destruct (build c sels need st); cbn; auto. Qed.

(* all clauses at once, for a family of selector lists indexed by a random seed / stream *)
Lemma build_all (seed : Type) (mk : seed -> list selector) :
  (forall s, Forall sel_sound (mk s)) ->
  forall s c need st sel, build c (mk s) need st = BOk sel ->
    NoDup sel /\ NoDup (body_inputs sel)
    /\ incl sel (permitted c st)
    /\ (forall u, In u (explicit st) -> In u sel /\ In (ref_of u) (body_inputs sel))
    /\ (forall u, In u (excluded st) -> ~ In u sel)
    /\ StronglySorted ref_lt (body_inputs sel).
Proof.
  intros Hs s c need st sel Hb. specialize (Hs s).
  split; [eapply build_NoDup; eauto|]. split; [apply body_inputs_NoDup|].
  split; [eapply build_incl_permitted; eauto|].
  split.
  - intros u Hu. assert (In u sel) by (eapply build_explicit_present; eauto). split; [assumption|].
    apply body_inputs_In. eauto.
  - split; [eapply build_no_excluded; eauto | eapply build_sorted; eauto].
Qed.

(* ================= non-vacuity: the hypotheses are satisfiable, every outcome occurs ================= *)
Module Examples.
  Definition A := mkU (hx "0a00") 1 1.     (* explicit, registered twice *)
  Definition B := mkU (hx "0a00") 0 2.     (* potential and at address 7 *)
  Definition C := mkU (hx "9f") 10 3.      (* at address 7, excluded *)
  Definition D := mkU (hx "a0") 2 4.       (* at address 7 *)
  Definition cx : ctx := [(7, [B; C; D])].
  Definition st := mkB [A; A] [B] [C] [7].
  (* a selector that takes everything it is offered; one that always fails *)
  Definition take_all : selector := fun pool => SelOk pool.
  Definition failing : selector := fun _ => SelFail.

  Example take_all_sound : sel_sound take_all.
  Proof. intros pool r H. inversion H; subst. exists []. rewrite app_nil_r. apply Permutation_refl. Qed.
  Example failing_sound : sel_sound failing.
  Proof. intros pool r H. discriminate. Qed.
  Example sels_sound : Forall sel_sound [failing; take_all].
  Proof. repeat constructor; [apply failing_sound | apply take_all_sound]. Qed.

  (* fallback to the second selector; A once, C excluded, '9f' < 'a0' and index 0 before 1 *)
  Example build_ok : build cx [failing; take_all] true st = BOk [B; A; D].
  Proof. vm_compute. reflexivity. Qed.
  Example body_ok : body_inputs [B; A; D] = [(hx "0a00", 0); (hx "0a00", 1); (hx "a0", 2)].
  Proof. vm_compute. reflexivity. Qed.
  Example build_noneed : build cx [failing; take_all] false st = BOk [A].
  Proof. vm_compute. reflexivity. Qed.
  Example build_all_fail : build cx [failing; failing] true st = BErr ESelection.
  Proof. vm_compute. reflexivity. Qed.
  Example build_conflict_ex : build cx [take_all] true (bstep st (AddExcluded A)) = BErr EConflict.
  Proof. vm_compute. reflexivity. Qed.
  Example coherent_ex : ref_coherent (permitted cx st ++ excluded st).
  Proof.
    intros u v Hu Hv E. cbn in Hu, Hv.
    repeat (destruct Hu as [<-|Hu]; [repeat (destruct Hv as [<-|Hv]; [try reflexivity; try (vm_compute in E; discriminate)|]); try contradiction|]);
    contradiction.
  Qed.
  (* numeric index order, not string order: 10 after 2; hex order = byte order across the 9/a boundary *)
  Example order_ex : sort_inputs [mkU (hx "a0") 10 0; mkU (hx "a0") 2 0; mkU (hx "9f") 300 0]
                     = [mkU (hx "9f") 300 0; mkU (hx "a0") 2 0; mkU (hx "a0") 10 0].
  Proof. vm_compute. reflexivity. Qed.
  (* a history: build, register more, exclude what was spent -> refused; lift the exclusion -> built *)
  Example history_ex :
    snd (run cx empty_state [Op (AddInput A); Op (AddAddress 7); Build true [take_all];
                             Op (AddExcluded D); Build true [take_all]; Op (SetExcluded []); Build false []])
    = [BOk [B; A; C; D]; BErr EConflict; BOk [B; A; C; D]].
  Proof. vm_compute. reflexivity. Qed.
  Example history_sound : Forall item_sound [Op (AddInput A); Op (AddAddress 7); Build true [take_all]].
  Proof. repeat constructor. apply take_all_sound. Qed.
  (* the chain moves between two builds of one builder: B and C are spent elsewhere, E arrives.  The second build
     keeps what the first one wrote back (B, A, C, D are now the builder's own inputs) and may add only what the
     context reports NOW (E) *)
  Definition E := mkU (hx "b1") 0 5.
  Definition cx2 : ctx := [(7, [D; E])].
  Definition pre_live := [Op (AddInput A); Op (AddAddress 7); Build true [take_all]; SetCtx cx2].
  Example live_ctx : last_ctx cx pre_live = cx2.
  Proof. reflexivity. Qed.
  Example live_ex :
    snd (run cx empty_state (pre_live ++ [Build true [take_all]])) = [BOk [B; A; C; D]; BOk [B; A; C; D; E]].
  Proof. vm_compute. reflexivity. Qed.
  Example live_premise : build (last_ctx cx pre_live) [take_all] true (snd (reach cx empty_state pre_live)) = BOk [B; A; C; D; E].
  Proof. vm_compute. reflexivity. Qed.
End Examples.
