(* PlutusProofs.v — C18 proofs: tag bijection, raw / JSON / typed routes against plutus_ref. *)
From Coq Require Import NArith ZArith Ascii String List Bool Lia ZifyBool ZifyN ZifyNat.
From Coq Require Import Init.Byte.
From PyC Require Import Base Cbor CborProofs Plutus PlutusOracle.
Import ListNotations.
Open Scope string_scope.
Open Scope list_scope.
Open Scope N_scope.

(* ================================================================== generic helpers *)
Lemma mapM_map {A B} (f : A -> res B) (g : A -> B) l :
  Forall (fun x => f x = Ok (g x)) l -> mapM f l = Ok (map g l).
Proof. induction 1 as [|x l H _ IH]; cbn; [reflexivity|]. now rewrite H, IH. Qed.

Lemma Forall_mp {A} (P Q : A -> Prop) l : Forall (fun x => P x -> Q x) l -> Forall P l -> Forall Q l.
Proof. induction 1; intros F; inversion F; subst; constructor; auto. Qed.

Lemma forallb_Forall {A} (p : A -> bool) l : forallb p l = true <-> Forall (fun x => p x = true) l.
Proof. rewrite forallb_forall, Forall_forall. reflexivity. Qed.

Lemma map_ext_Forall {A B} (f g : A -> B) l : Forall (fun x => f x = g x) l -> map f l = map g l.
Proof. induction 1; cbn; congruence. Qed.

Lemma map_id_Forall {A} (f : A -> A) l : Forall (fun x => f x = x) l -> map f l = l.
Proof. induction 1; cbn; congruence. Qed.

Ltac bconv := repeat match goal with
  | H : N.ltb _ _ = true |- _ => apply N.ltb_lt in H
  | H : N.ltb _ _ = false |- _ => apply N.ltb_ge in H
  | H : N.leb _ _ = true |- _ => apply N.leb_le in H
  | H : N.leb _ _ = false |- _ => apply N.leb_gt in H
  | H : N.eqb _ _ = true |- _ => apply N.eqb_eq in H
  | H : N.eqb _ _ = false |- _ => apply N.eqb_neq in H
  | H : Z.ltb _ _ = true |- _ => apply Z.ltb_lt in H
  | H : Z.ltb _ _ = false |- _ => apply Z.ltb_ge in H
  | H : Z.leb _ _ = true |- _ => apply Z.leb_le in H
  | H : Z.leb _ _ = false |- _ => apply Z.leb_gt in H
  | H : Z.eqb _ _ = true |- _ => apply Z.eqb_eq in H
  | H : Z.eqb _ _ = false |- _ => apply Z.eqb_neq in H
  | H : Nat.ltb _ _ = true |- _ => apply Nat.ltb_lt in H
  | H : Nat.ltb _ _ = false |- _ => apply Nat.ltb_ge in H
  | H : Nat.leb _ _ = true |- _ => apply Nat.leb_le in H
  | H : Nat.leb _ _ = false |- _ => apply Nat.leb_gt in H
  | H : andb _ _ = true |- _ => apply andb_true_iff in H; destruct H
  | H : andb _ _ = false |- _ => apply andb_false_iff in H
  | H : negb _ = true |- _ => apply negb_true_iff in H
  | H : negb _ = false |- _ => apply negb_false_iff in H
  end.
Ltac blia := bconv; lia.

(* ================================================================== tags *)
Lemma get_tag_spec i : get_tag i = tag_spec i.
Proof. reflexivity. Qed.

Lemma tag_spec_some i t : tag_spec i = Some t ->
  (i < 7 /\ t = 121 + i) \/ (7 <= i < 128 /\ t = 1280 + (i - 7)).
Proof.
  unfold tag_spec. destruct (i <? 7) eqn:A.
  { intros H. assert (121 + i = t) by congruence. clear H. blia. }
  destruct (i <? 128) eqn:B; [|discriminate].
  intros H. assert (1280 + (i - 7) = t) by congruence. clear H. blia.
Qed.

Lemma tag_spec_none i : tag_spec i = None <-> 128 <= i.
Proof.
  unfold tag_spec. destruct (i <? 7) eqn:A; [split; [discriminate | blia]|].
  destruct (i <? 128) eqn:B; split; try discriminate; try blia; reflexivity.
Qed.

Lemma tag_spec_ranges i t : tag_spec i = Some t -> (121 <= t <= 127 \/ 1280 <= t <= 1400) /\ t <> 102.
Proof. intros H. apply tag_spec_some in H. blia. Qed.

Lemma tag_spec_inj i j t : tag_spec i = Some t -> tag_spec j = Some t -> i = j.
Proof. intros H1 H2. apply tag_spec_some in H1, H2. blia. Qed.

Lemma tag_spec_onto t : 121 <= t <= 127 \/ 1280 <= t <= 1400 -> exists i, tag_spec i = Some t.
Proof.
  intros [H|H].
  - exists (t - 121). unfold tag_spec. destruct (t - 121 <? 7) eqn:A; [f_equal ; blia | blia].
  - exists (t - 1280 + 7). unfold tag_spec.
    destruct (t - 1280 + 7 <? 7) eqn:A; [blia|]. destruct (t - 1280 + 7 <? 128) eqn:B; [f_equal ; blia | blia].
Qed.

Lemma untag_tag i t len : tag_spec i = Some t -> untag t len = UWhole i.
Proof.
  intros H. apply tag_spec_some in H. unfold untag.
  destruct (t =? 102) eqn:A; [blia|].
  destruct ((121 <=? t) && (t <? 128)) eqn:B; [f_equal ; blia|].
  destruct ((1280 <=? t) && (t <? 1536)) eqn:D; [f_equal ; blia | blia].
Qed.

Lemma untag_id_tag i t : tag_spec i = Some t -> untag_id t = i.
Proof.
  intros H. apply tag_spec_some in H. unfold untag_id.
  destruct ((121 <=? t) && (t <? 128)) eqn:B ; blia.
Qed.

Lemma untag_spec_tag i t len : tag_spec i = Some t -> untag_spec t len = UWhole i.
Proof.
  intros H. apply tag_spec_some in H. unfold untag_spec.
  destruct (t =? 102) eqn:A; [blia|].
  destruct ((121 <=? t) && (t <=? 127)) eqn:B; [f_equal ; blia|].
  destruct ((1280 <=? t) && (t <=? 1400)) eqn:D; [f_equal ; blia | blia].
Qed.

(* the ledger's decoder accepts exactly the image of tag_spec (and 102 with two items) *)
Lemma untag_spec_accepts t len i : untag_spec t len = UWhole i -> tag_spec i = Some t.
Proof.
  unfold untag_spec. destruct (t =? 102) eqn:A; [destruct (len =? 2); discriminate|].
  destruct ((121 <=? t) && (t <=? 127)) eqn:B.
  { intros H. assert (E : t - 121 = i) by congruence. clear H. subst i.
    unfold tag_spec. destruct (t - 121 <? 7) eqn:E; [f_equal; blia | blia]. }
  destruct ((1280 <=? t) && (t <=? 1400)) eqn:D; [|discriminate].
  intros H. assert (E : t - 1280 + 7 = i) by congruence. clear H. subst i.
  unfold tag_spec. destruct (t - 1280 + 7 <? 7) eqn:E; [blia|].
  destruct (t - 1280 + 7 <? 128) eqn:F; [f_equal; blia | blia].
Qed.

(* the pinned get_constructor_id_and_fields agrees with the ledger's on every tag up to 1400 and beyond 1535 *)
Lemma untag_sound t len : t <= 1400 \/ 1536 <= t -> untag t len = untag_spec t len.
Proof.
  intros H. unfold untag, untag_spec.
  destruct (t =? 102); [destruct (len =? 2); reflexivity|].
  destruct ((121 <=? t) && (t <? 128)) eqn:B, ((121 <=? t) && (t <=? 127)) eqn:B'; try blia; [reflexivity|].
  destruct ((1280 <=? t) && (t <? 1536)) eqn:D, ((1280 <=? t) && (t <=? 1400)) eqn:D'; try blia; reflexivity.
Qed.

(* ================================================================== all_nodes *)
Lemma all_nodes_and p q d : all_nodes (fun x => p x && q x) d = all_nodes p d && all_nodes q d.
Proof.
  induction d as [i fs IH|kvs IH|xs IH|z|b] using data_ind'; cbn [all_nodes].
  - assert (E : forallb (all_nodes (fun x => p x && q x)) fs = forallb (all_nodes p) fs && forallb (all_nodes q) fs).
    { induction IH as [|f fs Hf _ IHf]; cbn; [reflexivity|]. rewrite Hf, IHf. ring. }
    rewrite E. ring.
  - assert (E : forallb (fun kv => all_nodes (fun x => p x && q x) (fst kv) && all_nodes (fun x => p x && q x) (snd kv)) kvs
               = forallb (fun kv => all_nodes p (fst kv) && all_nodes p (snd kv)) kvs
                 && forallb (fun kv => all_nodes q (fst kv) && all_nodes q (snd kv)) kvs).
    { induction IH as [|f fs [Hk Hv] _ IHf]; cbn; [reflexivity|]. rewrite Hk, Hv, IHf. ring. }
    rewrite E. ring.
  - assert (E : forallb (all_nodes (fun x => p x && q x)) xs = forallb (all_nodes p) xs && forallb (all_nodes q) xs).
    { induction IH as [|f fs Hf _ IHf]; cbn; [reflexivity|]. rewrite Hf, IHf. ring. }
    rewrite E. ring.
  - ring.
  - ring.
Qed.

Lemma all_nodes_constr p i fs : all_nodes p (Constr i fs) = true ->
  p (Constr i fs) = true /\ Forall (fun f => all_nodes p f = true) fs.
Proof. cbn [all_nodes]. intros H. apply andb_true_iff in H as [H1 H2]. split; [assumption|]. now apply forallb_Forall. Qed.
Lemma all_nodes_list p xs : all_nodes p (List xs) = true ->
  p (List xs) = true /\ Forall (fun f => all_nodes p f = true) xs.
Proof. cbn [all_nodes]. intros H. apply andb_true_iff in H as [H1 H2]. split; [assumption|]. now apply forallb_Forall. Qed.
Lemma all_nodes_map p kvs : all_nodes p (Map kvs) = true ->
  p (Map kvs) = true /\ Forall (fun kv => all_nodes p (fst kv) = true /\ all_nodes p (snd kv) = true) kvs.
Proof.
  cbn [all_nodes]. intros H. apply andb_true_iff in H as [H1 H2]. split; [assumption|].
  apply forallb_Forall in H2. eapply Forall_impl; [|exact H2]. cbn. intros kv E. now apply andb_true_iff in E.
Qed.

(* ================================================================== bytes / integers *)
Lemma be_min_fuel_length f : forall n k, n < 256 ^ N.of_nat k -> (length (be_min_fuel f n) <= k)%nat.
Proof.
  induction f as [|f IH]; intros n k H; cbn [be_min_fuel]; [cbn; lia|].
  destruct (n =? 0) eqn:E; [cbn; lia|]. bconv.
  rewrite app_length. cbn [length].
  destruct k as [|k]; [cbn in H; lia|].
  rewrite Nnat.Nat2N.inj_succ, N.pow_succ_r' in H.
  assert (n / 256 < 256 ^ N.of_nat k) by (apply N.div_lt_upper_bound; lia).
  specialize (IH _ _ H0). lia.
Qed.

Lemma unbe_be_min_fuel f : forall n, n < 256 ^ N.of_nat f -> unbe (be_min_fuel f n) = n.
Proof.
  induction f as [|f IH]; intros n H; cbn [be_min_fuel].
  - cbn in H. cbn. lia.
  - destruct (n =? 0) eqn:E; bconv; [subst; reflexivity|].
    rewrite unbe_app. cbn. rewrite b2n_n2b.
    rewrite Nnat.Nat2N.inj_succ, N.pow_succ_r' in H.
    rewrite IH by (apply N.div_lt_upper_bound; lia).
    pose proof (N.div_mod n 256). lia.
Qed.

Lemma lt_pow256_log2 n : n < 256 ^ N.of_nat (S (N.to_nat (N.log2 n))).
Proof.
  destruct (N.eq_dec n 0) as [->|Hn]; [cbn; lia|].
  assert (Hp : 0 < n) by lia.
  destruct (N.log2_spec n Hp) as [_ H].
  eapply N.lt_le_trans; [exact H|].
  rewrite Nnat.Nat2N.inj_succ, Nnat.N2Nat.id.
  change 256 with (2 ^ 8). rewrite <- N.pow_mul_r.
  apply N.pow_le_mono_r; lia.
Qed.

Lemma unbe_be_min n : unbe (be_min n) = n.
Proof. unfold be_min. apply unbe_be_min_fuel, lt_pow256_log2. Qed.

Lemma be_min_length n k : n < 256 ^ N.of_nat k -> (length (be_min n) <= k)%nat.
Proof. unfold be_min. apply be_min_fuel_length. Qed.

Lemma concat_chunks_fuel k : (0 < k)%nat -> forall f b, (length b < f)%nat -> concat (chunks_fuel f k b) = b.
Proof.
  intros Hk. induction f as [|f IH]; intros b H; [lia|].
  cbn [chunks_fuel]. destruct b as [|x b]; [reflexivity|].
  cbn [concat]. rewrite IH.
  - apply firstn_skipn.
  - rewrite skipn_length. cbn [length] in *. lia.
Qed.

Lemma concat_chunks b : concat (chunks 64 b) = b.
Proof. unfold chunks. apply concat_chunks_fuel; lia. Qed.

Lemma py_int_ref z : (- two512Z <= z < two512Z)%Z -> py_int z = ref_int z.
Proof.
  intros H. unfold py_int, ref_int.
  destruct (0 <=? z)%Z eqn:A.
  - destruct (z <? two64Z)%Z eqn:B; [reflexivity|]. f_equal. unfold ref_bytes.
    assert (L : (length (be_min (Z.to_N z)) <= 64)%nat).
    { apply be_min_length. bconv. unfold two512Z in H.
      change (256 ^ N.of_nat 64) with (Z.to_N (2 ^ 512)). lia. }
    destruct (length (be_min (Z.to_N z)) <=? 64)%nat eqn:E; [reflexivity | bconv; lia].
  - destruct (- two64Z <=? z)%Z eqn:B; [reflexivity|]. f_equal. unfold ref_bytes.
    assert (L : (length (be_min (Z.to_N (-1 - z))) <= 64)%nat).
    { apply be_min_length. bconv. unfold two512Z in H.
      change (256 ^ N.of_nat 64) with (Z.to_N (2 ^ 512)). lia. }
    destruct (length (be_min (Z.to_N (-1 - z))) <=? 64)%nat eqn:E; [reflexivity | bconv; lia].
Qed.

Lemma py_int_small (i : N) : i < two64 -> py_int (Z.of_N i) = CU i.
Proof.
  intros H. unfold py_int. destruct (0 <=? Z.of_N i)%Z eqn:A; [|bconv; lia].
  destruct (Z.of_N i <? two64Z)%Z eqn:B; [now rewrite N2Z.id|].
  bconv. unfold two64Z, two64 in *. lia.
Qed.

(* loads inverts the reference integer / byte-string encodings *)
Lemma loads_ref_bytes b : loads (ref_bytes b) = Ok (PBytes b).
Proof. unfold ref_bytes. destruct (length b <=? 64)%nat; cbn [loads]; [reflexivity|]. now rewrite concat_chunks. Qed.

Lemma loads_ref_int z : loads (ref_int z) = Ok (PInt z).
Proof.
  unfold ref_int. destruct (0 <=? z)%Z eqn:A.
  - destruct (z <? two64Z)%Z eqn:B; cbn [loads].
    + f_equal. f_equal. bconv. lia.
    + change (2 =? 2) with true. cbv iota. unfold ref_bytes.
      destruct (length (be_min (Z.to_N z)) <=? 64)%nat; rewrite ?concat_chunks, unbe_be_min; f_equal; f_equal; bconv; lia.
  - destruct (- two64Z <=? z)%Z eqn:B; cbn [loads].
    + f_equal. f_equal. bconv. lia.
    + change (3 =? 2) with false. change (3 =? 3) with true. cbv iota. unfold ref_bytes.
      destruct (length (be_min (Z.to_N (-1 - z))) <=? 64)%nat; rewrite ?concat_chunks, unbe_be_min; f_equal; f_equal; bconv; lia.
Qed.

(* ================================================================== induction principles, equality *)
Section TyInd.
  Variable P : ty -> Prop.
  Hypothesis HInt : P TInt. Hypothesis HBytes : P TBytes. Hypothesis HBStr : P TBStr.
  Hypothesis HList : forall t, P t -> P (TList t).
  Hypothesis HDict : forall k v, P k -> P v -> P (TDict k v).
  Hypothesis HCls : forall id fts, Forall P fts -> P (TCls id fts).
  Hypothesis HUnion : forall ts, Forall P ts -> P (TUnion ts).
  Hypothesis HIList : P TIList. Hypothesis HDatum : P TDatum.
  Fixpoint ty_ind' (t : ty) : P t :=
    match t with
    | TInt => HInt | TBytes => HBytes | TBStr => HBStr
    | TList t' => HList t' (ty_ind' t')
    | TDict k v => HDict k v (ty_ind' k) (ty_ind' v)
    | TCls id fts => HCls id fts ((fix go (l : list ty) : Forall P l :=
                        match l with [] => Forall_nil _ | y :: r => Forall_cons _ (ty_ind' y) (go r) end) fts)
    | TUnion ts => HUnion ts ((fix go (l : list ty) : Forall P l :=
                        match l with [] => Forall_nil _ | y :: r => Forall_cons _ (ty_ind' y) (go r) end) ts)
    | TIList => HIList | TDatum => HDatum
    end.
End TyInd.

Section PvInd.
  Variable P : pv -> Prop.
  Hypothesis HInt : forall z, P (PInt z).
  Hypothesis HBytes : forall b, P (PBytes b).
  Hypothesis HBStr : forall b, P (PBStr b).
  Hypothesis HList : forall xs, Forall P xs -> P (PList xs).
  Hypothesis HIList : forall xs, Forall P xs -> P (PIList xs).
  Hypothesis HDict : forall kvs, Forall (fun kv => P (fst kv) /\ P (snd kv)) kvs -> P (PDict kvs).
  Hypothesis HTag : forall t v, P v -> P (PTag t v).
  Hypothesis HObj : forall id fts fs, Forall P fs -> P (PObj id fts fs).
  Hypothesis HRaw : forall v, P v -> P (PRaw v).
  Fixpoint pv_ind' (v : pv) : P v :=
    match v with
    | PInt z => HInt z | PBytes b => HBytes b | PBStr b => HBStr b
    | PList xs => HList xs ((fix go (l : list pv) : Forall P l :=
                     match l with [] => Forall_nil _ | y :: r => Forall_cons _ (pv_ind' y) (go r) end) xs)
    | PIList xs => HIList xs ((fix go (l : list pv) : Forall P l :=
                     match l with [] => Forall_nil _ | y :: r => Forall_cons _ (pv_ind' y) (go r) end) xs)
    | PDict kvs => HDict kvs ((fix go (l : list (pv * pv)) : Forall (fun kv => P (fst kv) /\ P (snd kv)) l :=
                     match l with
                     | [] => Forall_nil _
                     | kv :: r => Forall_cons _ (conj (pv_ind' (fst kv)) (pv_ind' (snd kv))) (go r)
                     end) kvs)
    | PTag t x => HTag t x (pv_ind' x)
    | PObj id fts fs => HObj id fts fs ((fix go (l : list pv) : Forall P l :=
                     match l with [] => Forall_nil _ | y :: r => Forall_cons _ (pv_ind' y) (go r) end) fs)
    | PRaw w => HRaw w (pv_ind' w)
    end.
End PvInd.

Lemma list_eqb_sound {A} (f : A -> A -> bool) l :
  Forall (fun x => forall y, f x y = true -> x = y) l -> forall l', list_eqb f l l' = true -> l = l'.
Proof.
  induction 1 as [|x l Hx _ IH]; intros [|y l'] E; cbn in E; try discriminate; [reflexivity|].
  apply andb_true_iff in E as [E1 E2]. f_equal; auto.
Qed.

Lemma list_eqb_refl {A} (f : A -> A -> bool) l : Forall (fun x => f x x = true) l -> list_eqb f l l = true.
Proof. induction 1; cbn; [reflexivity|]. now rewrite H, IHForall. Qed.

Lemma ty_eqb_sound : forall a b, ty_eqb a b = true -> a = b.
Proof.
  induction a as [| | |t IH|k v IHk IHv|id fts IH|ts IH| |] using ty_ind'; intros [| | |t'|k' v'|id' fts'|ts'| |] E;
    cbn in E; try discriminate; try reflexivity.
  - f_equal; auto.
  - apply andb_true_iff in E as [E1 E2]. f_equal; auto.
  - apply andb_true_iff in E as [E1 E2]. bconv. subst. f_equal. eapply list_eqb_sound; eauto.
  - f_equal. eapply list_eqb_sound; eauto.
Qed.

Lemma pv_eqb_sound : forall a b, pv_eqb a b = true -> a = b.
Proof.
  induction a as [z|b|b|xs IH|xs IH|kvs IH|t v IH|id fts fs IH|v IH] using pv_ind';
    intros [z'|b'|b'|xs'|xs'|kvs'|t' v'|id' fts' fs'|v'] E; cbn in E; try discriminate.
  - bconv. now subst.
  - apply bytes_eqb_eq in E. now subst.
  - apply bytes_eqb_eq in E. now subst.
  - f_equal. eapply list_eqb_sound; eauto.
  - f_equal. eapply list_eqb_sound; eauto.
  - f_equal. eapply list_eqb_sound; [|exact E].
    eapply Forall_impl; [|exact IH]. cbn. intros [k w] [Hk Hw] [k' w'] F. cbn in *.
    apply andb_true_iff in F as [F1 F2]. f_equal; auto.
  - apply andb_true_iff in E as [E1 E2]. bconv. subst. f_equal; auto.
  - apply andb_true_iff in E as [E1 E3]. apply andb_true_iff in E1 as [E1 E2]. bconv. subst.
    f_equal.
    + eapply list_eqb_sound; [|exact E2]. apply Forall_forall. intros x _ y. apply ty_eqb_sound.
    + eapply list_eqb_sound; eauto.
  - f_equal; auto.
Qed.

Lemma data_eqb_refl : forall d, data_eqb d d = true.
Proof.
  induction d as [i fs IH|kvs IH|xs IH|z|b] using data_ind'; cbn.
  - rewrite N.eqb_refl. cbn. now apply list_eqb_refl.
  - apply list_eqb_refl. eapply Forall_impl; [|exact IH]. cbn. intros kv [H1 H2]. now rewrite H1, H2.
  - now apply list_eqb_refl.
  - apply Z.eqb_refl.
  - apply bytes_eqb_refl.
Qed.

(* ================================================================== Python dicts *)
Fixpoint kdistinct (l : list (pv * pv)) : Prop :=
  match l with
  | [] => True
  | kv :: r => Forall (fun x => pv_eqb (fst kv) (fst x) = false) r /\ kdistinct r
  end.

Lemma dict_set_fresh d k v : Forall (fun kv => pv_eqb (fst kv) k = false) d -> dict_set d k v = d ++ [(k, v)].
Proof. induction 1 as [|kv d H _ IH]; cbn; [reflexivity|]. now rewrite H, IH. Qed.

Lemma dict_fold_distinct l : forall acc,
  (forall a b, In a acc -> In b l -> pv_eqb (fst a) (fst b) = false) -> kdistinct l ->
  fold_left (fun d kv => dict_set d (fst kv) (snd kv)) l acc = acc ++ l.
Proof.
  induction l as [|[k v] l IH]; intros acc H D; cbn [fold_left fst snd]; [now rewrite app_nil_r|].
  destruct D as [D1 D2].
  rewrite dict_set_fresh.
  - rewrite IH; [now rewrite <- app_assoc| |assumption].
    intros a b Ha Hb. apply in_app_or in Ha as [Ha|[<-|[]]].
    + apply H; [assumption | now right].
    + cbn. rewrite Forall_forall in D1. now apply D1.
  - apply Forall_forall. intros a Ha. apply (H a (k, v)); [assumption | now left].
Qed.

Lemma dict_of_list_distinct l : kdistinct l -> dict_of_list l = l.
Proof. intros D. unfold dict_of_list. rewrite dict_fold_distinct; [reflexivity| intros a b [] | assumption]. Qed.

Lemma kdistinct_map (F G : data -> pv) kvs :
  (forall a b, pv_eqb (F a) (F b) = true -> a = b) ->
  nodupb data_eqb (map fst kvs) = true ->
  kdistinct (map (fun kv => (F (fst kv), G (snd kv))) kvs).
Proof.
  intros Inj. induction kvs as [|[k v] kvs IH]; cbn [map nodupb kdistinct fst snd]; [trivial|].
  intros H. apply andb_true_iff in H as [H1 H2]. split; [|auto].
  apply Forall_forall. intros x Hx. apply in_map_iff in Hx as ([k' v'] & <- & Hin). cbn [fst snd].
  destruct (pv_eqb (F k) (F k')) eqn:E; [|reflexivity].
  apply Inj in E. subst k'. apply negb_true_iff in H1.
  assert (X : existsb (data_eqb k) (map fst kvs) = true).
  { apply existsb_exists. exists k. split; [|apply data_eqb_refl]. apply in_map_iff. now exists (k, v'). }
  congruence.
Qed.

(* ================================================================== abstraction inverts the canonical shapes *)
Lemma unlist_seqv xs : unlist (abs (seqv xs)) = map abs xs.
Proof. destruct xs; reflexivity. Qed.

Lemma abs_seqv xs : abs (seqv xs) = List (map abs xs).
Proof. destruct xs; reflexivity. Qed.

Lemma abs_tagged i (v : pv) :
  abs (match tag_spec i with Some t => PTag t v | None => PTag 102 (PList [PInt (Z.of_N i); v]) end)
  = Constr i (unlist (abs v)).
Proof.
  destruct (tag_spec i) as [t|] eqn:E; cbn [abs].
  - destruct (tag_spec_ranges _ _ E) as [_ Hne]. destruct (t =? 102) eqn:Q; [bconv; contradiction|].
    now rewrite (untag_id_tag _ _ E).
  - change (102 =? 102) with true. cbv iota. now rewrite N2Z.id.
Qed.

Lemma abs_raw_canon : forall d, abs (raw_canon d) = d.
Proof.
  induction d as [i fs IH|kvs IH|xs IH|z|b] using data_ind'; cbn [raw_canon].
  - rewrite abs_tagged, unlist_seqv, map_map. f_equal. now apply map_id_Forall.
  - cbn [abs]. rewrite map_map. cbn [fst snd]. f_equal. apply map_id_Forall.
    eapply Forall_impl; [|exact IH]. cbn. intros [k v] [H1 H2]. cbn in *. now rewrite H1, H2.
  - rewrite abs_seqv, map_map. f_equal. now apply map_id_Forall.
  - reflexivity.
  - destruct (length b <=? 64)%nat; reflexivity.
Qed.

Lemma abs_raw_dec : forall d, abs (raw_dec d) = d.
Proof.
  induction d as [i fs IH|kvs IH|xs IH|z|b] using data_ind'; cbn [raw_dec].
  - rewrite abs_tagged, unlist_seqv, map_map. f_equal. now apply map_id_Forall.
  - cbn [abs]. rewrite map_map. cbn [fst snd]. f_equal. apply map_id_Forall.
    eapply Forall_impl; [|exact IH]. cbn. intros [k v] [H1 H2]. cbn in *. now rewrite H1, H2.
  - rewrite abs_seqv, map_map. f_equal. now apply map_id_Forall.
  - reflexivity.
  - reflexivity.
Qed.

Lemma abs_raw_json : forall d, abs (raw_json d) = d.
Proof.
  induction d as [i fs IH|kvs IH|xs IH|z|b] using data_ind'; cbn [raw_json].
  - destruct (tag_spec i) as [t|] eqn:E; cbn [abs].
    + destruct (tag_spec_ranges _ _ E) as [_ Hne]. destruct (t =? 102) eqn:Q; [bconv; contradiction|].
      rewrite (untag_id_tag _ _ E). cbn [unlist]. rewrite map_map. f_equal. now apply map_id_Forall.
    + change (102 =? 102) with true. cbv iota. rewrite N2Z.id. cbn [abs unlist]. rewrite map_map. f_equal.
      now apply map_id_Forall.
  - cbn [abs]. rewrite map_map. cbn [fst snd]. f_equal. apply map_id_Forall.
    eapply Forall_impl; [|exact IH]. cbn. intros [k v] [H1 H2]. cbn in *. now rewrite H1, H2.
  - cbn [abs]. rewrite map_map. f_equal. now apply map_id_Forall.
  - reflexivity.
  - destruct (32 <? length b)%nat; reflexivity.
Qed.

Lemma inj_of_abs (F : data -> pv) : (forall d, abs (F d) = d) -> forall a b, pv_eqb (F a) (F b) = true -> a = b.
Proof. intros H a b E. apply pv_eqb_sound in E. rewrite <- (H a), <- (H b). now rewrite E. Qed.

(* ================================================================== decode after encode *)
Lemma head_len_pos m n : (1 <= length (head m n))%nat.
Proof.
  unfold head. destruct (n <? 24); [cbn; lia|]. destruct (n <? 256); [cbn; lia|].
  destruct (n <? 65536); [cbn; lia|]. destruct (n <? 4294967296); cbn; lia.
Qed.

Lemma sz_bound : forall x, (sz x + 1 <= 3 * length (enc x))%nat.
Proof.
  assert (SEQ : forall xs, Forall (fun x => (sz x + 1 <= 3 * length (enc x))%nat) xs ->
                (list_sum (map sz xs) + length xs <= 3 * length (concat (map enc xs)))%nat).
  { induction 1 as [|x xs H _ IH]; cbn [map list_sum fold_right concat length]; [lia|]. rewrite app_length. unfold list_sum in *. lia. }
  induction x as [n|n|b|cs|b|xs IH|xs IH|kvs IH|t y IH|v] using cbor_ind'; cbn [sz enc].
  - pose proof (head_len_pos 0 n). lia.
  - pose proof (head_len_pos 1 n). lia.
  - rewrite app_length. pose proof (head_len_pos 2 (lenN b)). lia.
  - cbn [length]. rewrite app_length. cbn [length].
    assert (length cs <= length (concat (map enc_chunk cs)))%nat.
    { induction cs as [|c cs IHc]; cbn [map concat length]; [lia|]. rewrite app_length. unfold enc_chunk at 1.
      rewrite app_length. pose proof (head_len_pos 2 (lenN c)). lia. }
    lia.
  - rewrite app_length. pose proof (head_len_pos 3 (lenN b)). lia.
  - rewrite app_length. pose proof (head_len_pos 4 (lenN xs)). specialize (SEQ _ IH). lia.
  - cbn [length]. rewrite app_length. cbn [length]. specialize (SEQ _ IH). lia.
  - rewrite app_length.
    assert (list_sum (map (fun kv => (sz (fst kv) + sz (snd kv))%nat) kvs) + length kvs
            <= 3 * length (concat (map (fun kv => enc (fst kv) ++ enc (snd kv)) kvs)))%nat.
    { induction IH as [|kv kvs [Hk Hv] _ IHk]; cbn [map list_sum fold_right concat length]; [lia|]. rewrite !app_length. unfold list_sum in *. cbn [fst snd] in *. lia. }
    pose proof (head_len_pos 5 (lenN kvs)). lia.
  - rewrite app_length. pose proof (head_len_pos 6 t). lia.
  - cbn. lia.
Qed.

Lemma decode_enc x : wf x -> decode_res (enc x) = Ok x.
Proof.
  intros W. unfold decode_res.
  pose proof (dec_enc x W (3 * length (enc x))%nat [] ltac:(pose proof (sz_bound x); lia)) as H.
  rewrite app_nil_r in H. now rewrite H.
Qed.

(* ================================================================== raw data: canonical shape encodes to plutus_ref *)
Lemma mapM_map2 {A B C} (f : B -> res C) (F : A -> B) (G : A -> C) l :
  Forall (fun a => f (F a) = Ok (G a)) l -> mapM f (map F l) = Ok (map G l).
Proof. induction 1 as [|x l H _ IH]; cbn; [reflexivity|]. now rewrite H, IH. Qed.

Lemma dumps_seqv_map {A} (F : A -> pv) (G : A -> cbor) l :
  Forall (fun a => dumps (F a) = Ok (G a)) l -> dumps (seqv (map F l)) = Ok (ref_seq (map G l)).
Proof.
  intros H. destruct l as [|a l]; [reflexivity|].
  change (seqv (map F (a :: l))) with (PIList (map F (a :: l))). cbn [dumps].
  rewrite (mapM_map2 _ _ G) by assumption. reflexivity.
Qed.

Lemma dumps_pairs {A} (F1 F2 : A -> pv) (G1 G2 : A -> cbor) l :
  Forall (fun a => dumps (F1 a) = Ok (G1 a) /\ dumps (F2 a) = Ok (G2 a)) l ->
  mapM (fun kv => do k <- dumps (fst kv); do w <- dumps (snd kv); Ok (k, w)) (map (fun a => (F1 a, F2 a)) l)
  = Ok (map (fun a => (G1 a, G2 a)) l).
Proof.
  intros H. apply mapM_map2. eapply Forall_impl; [|exact H]. cbn. intros a [H1 H2]. now rewrite H1, H2.
Qed.

Lemma dumps_tagged i v c : i < two64 -> dumps v = Ok c ->
  dumps (match tag_spec i with Some t => PTag t v | None => PTag 102 (PList [PInt (Z.of_N i); v]) end)
  = Ok (match tag_spec i with Some t => CTag t c | None => CTag 102 (CA [CU i; c]) end).
Proof.
  intros Hi H. destruct (tag_spec i); cbn [dumps mapM bind]; rewrite H; cbn [bind]; [reflexivity|].
  now rewrite py_int_small.
Qed.

Lemma dumps_bytes_canon b : dumps (if (length b <=? 64)%nat then PBytes b else PBStr b) = Ok (ref_bytes b).
Proof.
  unfold ref_bytes. destruct (length b <=? 64)%nat eqn:E; cbn [dumps]; [reflexivity|].
  destruct (64 <? length b)%nat eqn:F; [reflexivity | bconv; lia].
Qed.

Lemma dumps_canon : forall d, ints_ok d = true -> dumps (raw_canon d) = Ok (plutus_ref d).
Proof.
  unfold ints_ok.
  induction d as [i fs IH|kvs IH|xs IH|z|b] using data_ind'; intros H.
  - apply all_nodes_constr in H as [Hn Hf]. cbn [n_int_ok] in Hn. bconv.
    cbn [raw_canon plutus_ref]. apply dumps_tagged; [assumption|].
    apply dumps_seqv_map. exact (Forall_mp _ _ _ IH Hf).
  - apply all_nodes_map in H as [_ Hf]. cbn [raw_canon plutus_ref dumps].
    rewrite (dumps_pairs _ _ (fun kv => plutus_ref (fst kv)) (fun kv => plutus_ref (snd kv))); [reflexivity|].
    clear -IH Hf. induction IH as [|kv kvs [H1 H2] _ IHk]; inversion Hf as [|? ? [G1 G2] Hf']; subst; constructor; auto.
  - apply all_nodes_list in H as [_ Hf]. cbn [raw_canon plutus_ref].
    apply dumps_seqv_map. exact (Forall_mp _ _ _ IH Hf).
  - cbn [all_nodes n_int_ok] in H. cbn [raw_canon plutus_ref dumps]. f_equal. apply py_int_ref. bconv. lia.
  - cbn [raw_canon plutus_ref]. apply dumps_bytes_canon.
Qed.

(* Python-side normalisers are the identity on the canonical shape (given distinct keys) *)
Lemma seqv_map_id (f : pv -> pv) xs : Forall (fun x => f x = x) xs -> map f xs = xs.
Proof. apply map_id_Forall. Qed.

Section IdOnCanon.
  (* any f that maps over lists/dicts/tags the way pynorm, to_prim and r_to_prim do on canonical shapes *)
  Variable f : pv -> pv.
  Hypothesis f_int : forall z, f (PInt z) = PInt z.
  Hypothesis f_bytes : forall b, f (PBytes b) = PBytes b.
  Hypothesis f_bstr : forall b, f (PBStr b) = PBStr b.
  Hypothesis f_nil : f (PList []) = PList [].
  Hypothesis f_ilist : forall xs, Forall (fun x => f x = x) xs -> f (PIList xs) = PIList xs.
  Hypothesis f_dict : forall kvs, Forall (fun kv => f (fst kv) = fst kv /\ f (snd kv) = snd kv) kvs ->
                                  kdistinct kvs -> f (PDict kvs) = PDict kvs.
  Hypothesis f_tag : forall t v, t <> 102 -> f v = v -> (forall x r, v <> PList (x :: r)) -> f (PTag t v) = PTag t v.
  Hypothesis f_tag102 : forall i v, f v = v -> f (PTag 102 (PList [PInt i; v])) = PTag 102 (PList [PInt i; v]).

  Lemma f_seqv xs : Forall (fun x => f x = x) xs -> f (seqv xs) = seqv xs.
  Proof. intros H. destruct xs; [exact f_nil | now apply f_ilist]. Qed.

  Lemma id_on_canon : forall d, nodup_keys d = true -> f (raw_canon d) = raw_canon d.
  Proof.
    unfold nodup_keys.
    induction d as [i fs IH|kvs IH|xs IH|z|b] using data_ind'; intros H.
    - apply all_nodes_constr in H as [_ Hf]. cbn [raw_canon].
      assert (E : f (seqv (map raw_canon fs)) = seqv (map raw_canon fs)).
      { apply f_seqv. apply Forall_map. exact (Forall_mp _ _ _ IH Hf). }
      destruct (tag_spec i) as [t|] eqn:T.
      + apply f_tag; [apply (tag_spec_ranges _ _ T) | exact E|]. intros x r. destruct fs; discriminate.
      + now apply f_tag102.
    - apply all_nodes_map in H as [Hn Hf]. cbn [raw_canon]. apply f_dict.
      + apply Forall_map. cbn [fst snd]. clear -IH Hf.
        induction IH as [|kv kvs [H1 H2] _ IHk]; inversion Hf as [|? ? [G1 G2] Hf']; subst; constructor; auto.
      + apply kdistinct_map; [apply inj_of_abs, abs_raw_canon | exact Hn].
    - apply all_nodes_list in H as [_ Hf]. cbn [raw_canon]. apply f_seqv. apply Forall_map. exact (Forall_mp _ _ _ IH Hf).
    - apply f_int.
    - cbn [raw_canon]. destruct (length b <=? 64)%nat; [apply f_bytes | apply f_bstr].
  Qed.
End IdOnCanon.

Lemma pynorm_canon d : nodup_keys d = true -> pynorm (raw_canon d) = raw_canon d.
Proof.
  apply id_on_canon; try reflexivity.
  - intros xs H. cbn [pynorm]. now rewrite map_id_Forall.
  - intros kvs H D. cbn [pynorm]. rewrite (map_id_Forall (fun kv => (pynorm (fst kv), pynorm (snd kv)))).
    + now rewrite dict_of_list_distinct.
    + eapply Forall_impl; [|exact H]. cbn. intros [k v] [H1 H2]. cbn in *. now rewrite H1, H2.
  - intros t v _ E _. cbn [pynorm]. now rewrite E.
  - intros i v E. cbn [pynorm map]. now rewrite E.
Qed.

Lemma to_prim_canon d : nodup_keys d = true -> to_prim (raw_canon d) = raw_canon d.
Proof.
  apply id_on_canon; try reflexivity.
  - intros xs H. cbn [to_prim]. now rewrite map_id_Forall.
  - intros kvs H D. cbn [to_prim]. rewrite (map_id_Forall (fun kv => (to_prim (fst kv), to_prim (snd kv)))).
    + now rewrite dict_of_list_distinct.
    + eapply Forall_impl; [|exact H]. cbn. intros [k v] [H1 H2]. cbn in *. now rewrite H1, H2.
  - intros t v _ E _. cbn [to_prim]. now rewrite E.
  - intros i v E. cbn [to_prim map]. now rewrite E.
Qed.

Lemma r_to_prim_canon d : nodup_keys d = true -> r_to_prim (raw_canon d) = raw_canon d.
Proof.
  apply id_on_canon; try reflexivity.
  - intros kvs H D. cbn [r_to_prim]. rewrite (map_id_Forall (fun kv => (r_to_prim (fst kv), r_to_prim (snd kv)))).
    + now rewrite dict_of_list_distinct.
    + eapply Forall_impl; [|exact H]. cbn. intros [k v] [H1 H2]. cbn in *. now rewrite H1, H2.
  - intros t v _ E N. cbn [r_to_prim]. destruct v as [| | |[|x r]| | | | |]; try reflexivity. exfalso. eapply N. reflexivity.
  - intros i v E. cbn [r_to_prim]. change (102 =? 102) with true. cbv iota. cbn [map r_to_prim]. now rewrite E.
Qed.

(* C18 (raw build): RawPlutusData over the canonical Python shape encodes to the reference bytes *)
Lemma raw_build_canon d :
  ints_ok d = true -> nodup_keys d = true -> atom_keys d = true ->
  top_bytes_le 64 d = true -> top_not_empty_list d = true ->
  to_cbor (PRaw (pynorm (raw_canon d))) = Ok (plutus_bytes d).
Proof.
  intros Hi Hn _ Hb Hl. rewrite pynorm_canon by assumption. unfold to_cbor.
  assert (V : validate (PRaw (raw_canon d)) = true).
  { cbn [validate]. destruct d as [i fs|kvs|[|x xs]|z|b]; cbn [raw_canon]; try reflexivity; try discriminate.
    - destruct (tag_spec i); reflexivity.
    - cbn in Hb. now rewrite Hb. }
  rewrite V. cbn [to_prim]. rewrite r_to_prim_canon, dumps_canon by assumption. reflexivity.
Qed.

(* ================================================================== raw data: decode *)
Lemma loads_seqv_map {A} (F : A -> pv) (G : A -> cbor) l :
  Forall (fun a => loads (G a) = Ok (F a)) l -> loads (ref_seq (map G l)) = Ok (seqv (map F l)).
Proof.
  intros H. destruct l as [|a l]; [reflexivity|].
  change (ref_seq (map G (a :: l))) with (CAi (map G (a :: l))). cbn [loads].
  rewrite (mapM_map2 _ _ F) by assumption. reflexivity.
Qed.

Lemma hollow_hashable k : hollow k = true -> hashable true (raw_dec k) = true.
Proof.
  destruct k as [i [|f fs]|kvs|[|x xs]|z|b]; cbn; try discriminate; try reflexivity.
  intros _. destruct (tag_spec i); reflexivity.
Qed.

Lemma loads_ref : forall d, hollow_keys d = true -> nodup_keys d = true -> loads (plutus_ref d) = Ok (raw_dec d).
Proof.
  unfold hollow_keys, nodup_keys.
  induction d as [i fs IH|kvs IH|xs IH|z|b] using data_ind'; intros Hh Hn.
  - apply all_nodes_constr in Hh as [_ Hf]. apply all_nodes_constr in Hn as [_ Hg].
    assert (E : loads (ref_seq (map plutus_ref fs)) = Ok (seqv (map raw_dec fs))).
    { apply loads_seqv_map. exact (Forall_mp _ _ _ (Forall_mp _ _ _ IH Hf) Hg). }
    cbn [plutus_ref raw_dec]. destruct (tag_spec i) as [t|] eqn:T.
    + cbn [loads]. pose proof (tag_spec_ranges _ _ T) as [R _].
      destruct (t =? 2) eqn:Q2; [bconv; lia|]. destruct (t =? 3) eqn:Q3; [bconv; lia|].
      now rewrite E.
    + cbn [loads mapM]. change (102 =? 2) with false. change (102 =? 3) with false. cbv iota.
      cbn [loads mapM bind]. now rewrite E.
  - apply all_nodes_map in Hh as [Hk Hf]. apply all_nodes_map in Hn as [Hd Hg].
    cbn [plutus_ref raw_dec loads].
    rewrite (mapM_map2 _ _ (fun kv => (raw_dec (fst kv), raw_dec (snd kv)))).
    + cbn [bind]. rewrite dict_of_list_distinct; [reflexivity|].
      apply kdistinct_map; [apply inj_of_abs, abs_raw_dec | exact Hd].
    + cbn [n_hollow_keys] in Hk. rewrite forallb_Forall in Hk. clear Hd.
      induction IH as [|kv kvs [H1 H2] _ IHk]; inversion Hf as [|? ? [F1 F2] Hf']; inversion Hg as [|? ? [G1 G2] Hg'];
        inversion Hk as [|? ? K1 Hk']; subst; constructor; auto.
      cbn [fst snd]. rewrite H1, H2 by assumption. cbn [bind]. now rewrite hollow_hashable.
  - apply all_nodes_list in Hh as [_ Hf]. apply all_nodes_list in Hn as [_ Hg].
    cbn [plutus_ref raw_dec]. apply loads_seqv_map. exact (Forall_mp _ _ _ (Forall_mp _ _ _ IH Hf) Hg).
  - apply loads_ref_int.
  - apply loads_ref_bytes.
Qed.

Lemma raw_dec_canon : forall d, no_long_bytes d = true -> raw_dec d = raw_canon d.
Proof.
  unfold no_long_bytes.
  induction d as [i fs IH|kvs IH|xs IH|z|b] using data_ind'; intros H.
  - apply all_nodes_constr in H as [_ Hf]. cbn [raw_dec raw_canon].
    now rewrite (map_ext_Forall raw_dec raw_canon fs (Forall_mp _ _ _ IH Hf)).
  - apply all_nodes_map in H as [_ Hf]. cbn [raw_dec raw_canon]. f_equal. apply map_ext_Forall.
    clear -IH Hf. induction IH as [|kv kvs [H1 H2] _ IHk]; inversion Hf as [|? ? [G1 G2] Hf']; subst; constructor; auto.
    now rewrite H1, H2.
  - apply all_nodes_list in H as [_ Hf]. cbn [raw_dec raw_canon].
    now rewrite (map_ext_Forall raw_dec raw_canon xs (Forall_mp _ _ _ IH Hf)).
  - reflexivity.
  - cbn [all_nodes n_short_bytes] in H. cbn [raw_dec raw_canon]. rewrite andb_true_r in H. now rewrite H.
Qed.

Lemma raw_datum_ok_dec d : top_not_empty_list d = true -> raw_datum_ok (raw_dec d) = true.
Proof.
  destruct d as [i fs|kvs|[|x xs]|z|b]; cbn; try reflexivity; try discriminate.
  intros _. destruct (tag_spec i); reflexivity.
Qed.

Lemma raw_from_cbor_ref d :
  wf (plutus_ref d) -> top_not_empty_list d = true -> hollow_keys d = true -> nodup_keys d = true ->
  raw_from_cbor (plutus_bytes d) = Ok (PRaw (raw_dec d)).
Proof.
  intros W Ht Hh Hn. unfold raw_from_cbor, plutus_bytes. rewrite decode_enc by assumption. cbn [bind].
  rewrite loads_ref by assumption. cbn [bind]. unfold raw_from_prim. now rewrite raw_datum_ok_dec.
Qed.

(* C18_raw_reenc: decode the canonical bytes, encode again *)
Lemma raw_reenc d :
  wf (plutus_ref d) -> top_not_empty_list d = true -> hollow_keys d = true -> nodup_keys d = true ->
  ints_ok d = true -> no_long_bytes d = true ->
  m_dec d = Ok (plutus_bytes d).
Proof.
  intros W Ht Hh Hn Hi Hl. unfold m_dec. rewrite raw_from_cbor_ref by assumption. cbn [bind].
  unfold to_cbor. cbn [validate]. rewrite raw_datum_ok_dec by assumption.
  cbn [to_prim]. rewrite raw_dec_canon, r_to_prim_canon, dumps_canon by assumption. reflexivity.
Qed.

(* ================================================================== JSON form *)
Lemma r_dict_tag_seq t i xs js :
  untag t (lenN xs) = UWhole i -> mapM r_dict xs = Ok js -> r_dict (PTag t (seqv xs)) = Ok (JCon i js).
Proof. intros U M. destruct xs; cbn [seqv r_dict]; rewrite U, M; reflexivity. Qed.

Lemma r_dict_dec : forall d, no_list_keys d = true -> r_dict (raw_dec d) = Ok (json_of d).
Proof.
  unfold no_list_keys.
  induction d as [i fs IH|kvs IH|xs IH|z|b] using data_ind'; intros H.
  - apply all_nodes_constr in H as [_ Hf].
    assert (M : mapM r_dict (map raw_dec fs) = Ok (map json_of fs)).
    { apply mapM_map2. exact (Forall_mp _ _ _ IH Hf). }
    cbn [raw_dec json_of]. destruct (tag_spec i) as [t|] eqn:T.
    + apply r_dict_tag_seq; [now apply untag_tag | exact M].
    + cbn [r_dict]. change (untag 102 (lenN [PInt (Z.of_N i); seqv (map raw_dec fs)])) with UPair. cbv iota.
      destruct fs as [|f fs]; cbn [map seqv]; cbn [map] in M.
      * destruct (Z.of_N i <? 0)%Z eqn:Q; [bconv; lia|]. cbn [mapM bind]. now rewrite N2Z.id.
      * destruct (Z.of_N i <? 0)%Z eqn:Q; [bconv; lia|]. rewrite M. cbn [bind]. now rewrite N2Z.id.
  - apply all_nodes_map in H as [Hk Hf]. cbn [raw_dec json_of r_dict].
    rewrite (mapM_map2 _ _ (fun kv => (json_of (fst kv), json_of (snd kv)))); [reflexivity|].
    cbn [n_no_list_keys] in Hk. rewrite forallb_Forall in Hk.
    induction IH as [|kv kvs [H1 H2] _ IHk]; inversion Hf as [|? ? [F1 F2] Hf']; inversion Hk as [|? ? K1 Hk'];
      subst; constructor; auto.
    cbn [fst snd]. rewrite H2 by assumption. cbn [bind].
    assert (E : match raw_dec (fst kv) with PList _ => Err E_Type | _ => r_dict (raw_dec (fst kv)) end
                = r_dict (raw_dec (fst kv))).
    { destruct (fst kv) as [i fs|kvs'|xs|z|b]; cbn [raw_dec]; try reflexivity; [|discriminate].
      destruct (tag_spec i); reflexivity. }
    rewrite E, H1 by assumption. reflexivity.
  - apply all_nodes_list in H as [_ Hf]. cbn [raw_dec json_of].
    assert (M : mapM r_dict (map raw_dec xs) = Ok (map json_of xs)).
    { apply mapM_map2. exact (Forall_mp _ _ _ IH Hf). }
    destruct xs as [|x xs]; [reflexivity|]. cbn [seqv map]. cbn [map] in M. cbn [r_dict]. now rewrite M.
  - reflexivity.
  - reflexivity.
Qed.

Lemma r_to_prim_dec d : nodup_keys d = true -> no_long_bytes d = true -> r_to_prim (raw_dec d) = raw_dec d.
Proof. intros Hn Hl. rewrite raw_dec_canon by assumption. now apply r_to_prim_canon. Qed.

(* r_to_prim is the identity on decoded shapes also when long byte strings are present *)
Lemma r_to_prim_dec' : forall d, nodup_keys d = true -> r_to_prim (raw_dec d) = raw_dec d.
Proof.
  unfold nodup_keys.
  induction d as [i fs IH|kvs IH|xs IH|z|b] using data_ind'; intros H.
  - cbn [raw_dec]. destruct (tag_spec i) as [t|] eqn:T.
    + destruct fs; reflexivity.
    + cbn [r_to_prim]. change (102 =? 102) with true. cbv iota. cbn [map r_to_prim]. destruct fs; reflexivity.
  - apply all_nodes_map in H as [Hn Hf]. cbn [raw_dec r_to_prim]. rewrite map_map. cbn [fst snd].
    rewrite (map_ext_Forall _ (fun kv => (raw_dec (fst kv), raw_dec (snd kv)))).
    + rewrite dict_of_list_distinct; [reflexivity|]. apply kdistinct_map; [apply inj_of_abs, abs_raw_dec | exact Hn].
    + clear -IH Hf. induction IH as [|kv kvs [H1 H2] _ IHk]; inversion Hf as [|? ? [G1 G2] Hf']; subst; constructor; auto.
      now rewrite H1, H2.
  - cbn [raw_dec]. destruct xs; reflexivity.
  - reflexivity.
  - reflexivity.
Qed.

(* to_dict of the decoded object is the reference JSON *)
Lemma raw_todict d :
  wf (plutus_ref d) -> top_not_empty_list d = true -> hollow_keys d = true -> nodup_keys d = true ->
  no_list_keys d = true ->
  m_todict d = Ok (json_of d).
Proof.
  intros W Ht Hh Hn Hk. unfold m_todict. rewrite raw_from_cbor_ref by assumption. cbn [bind].
  rewrite r_to_prim_dec' by assumption. now apply r_dict_dec.
Qed.

Lemma atom_hashable k : atom k = true -> hashable false (raw_json k) = true.
Proof.
  destruct k as [| | |z|b]; cbn [atom raw_json]; try discriminate; intros _; [reflexivity|].
  destruct (32 <? length b)%nat; reflexivity.
Qed.

Lemma r_undict_json : forall d, atom_keys d = true -> nodup_keys d = true -> r_undict (json_of d) = Ok (raw_json d).
Proof.
  unfold atom_keys, nodup_keys.
  induction d as [i fs IH|kvs IH|xs IH|z|b] using data_ind'; intros Ha Hn.
  - apply all_nodes_constr in Ha as [_ Hf]. apply all_nodes_constr in Hn as [_ Hg].
    cbn [json_of r_undict raw_json]. rewrite (mapM_map2 _ _ raw_json) by exact (Forall_mp _ _ _ (Forall_mp _ _ _ IH Hf) Hg).
    cbn [bind]. rewrite get_tag_spec. destruct (tag_spec i); reflexivity.
  - apply all_nodes_map in Ha as [Hk Hf]. apply all_nodes_map in Hn as [Hd Hg].
    cbn [json_of r_undict raw_json].
    rewrite (mapM_map2 _ _ (fun kv => (raw_json (fst kv), raw_json (snd kv)))).
    + cbn [bind]. rewrite dict_of_list_distinct; [reflexivity|].
      apply kdistinct_map; [apply inj_of_abs, abs_raw_json | exact Hd].
    + cbn [n_atom_keys] in Hk. rewrite forallb_Forall in Hk. clear Hd.
      induction IH as [|kv kvs [H1 H2] _ IHk]; inversion Hf as [|? ? [F1 F2] Hf']; inversion Hg as [|? ? [G1 G2] Hg'];
        inversion Hk as [|? ? K1 Hk']; subst; constructor; auto.
      cbn [fst snd]. rewrite H1, H2 by assumption. cbn [bind]. now rewrite atom_hashable.
  - apply all_nodes_list in Ha as [_ Hf]. apply all_nodes_list in Hn as [_ Hg].
    cbn [json_of r_undict raw_json]. rewrite (mapM_map2 _ _ raw_json) by exact (Forall_mp _ _ _ (Forall_mp _ _ _ IH Hf) Hg).
    reflexivity.
  - reflexivity.
  - reflexivity.
Qed.

Lemma dumps_bytes_json b : dumps (if (32 <? length b)%nat then PBStr b else PBytes b) = Ok (ref_bytes b).
Proof.
  unfold ref_bytes. destruct (32 <? length b)%nat eqn:E; cbn [dumps].
  - destruct (64 <? length b)%nat eqn:F, (length b <=? 64)%nat eqn:G; try reflexivity; bconv; lia.
  - destruct (length b <=? 64)%nat eqn:G; [reflexivity | bconv; lia].
Qed.

(* the object built from the JSON is already canonical *)
Lemma dumps_jcanon : forall d, jcanon d = true -> ints_ok d = true -> dumps (raw_json d) = Ok (plutus_ref d).
Proof.
  unfold ints_ok.
  induction d as [i fs IH|kvs IH|xs IH|z|b] using data_ind'; intros Hj Hi.
  - apply all_nodes_constr in Hi as [Hn Hf]. cbn [n_int_ok] in Hn. bconv.
    cbn [jcanon] in Hj. cbn [raw_json plutus_ref]. destruct (tag_spec i) as [t|].
    + destruct fs; [reflexivity | discriminate].
    + destruct fs as [|f fs]; [discriminate|]. rewrite forallb_Forall in Hj.
      cbn [dumps mapM bind]. rewrite py_int_small by assumption.
      rewrite (mapM_map2 _ _ plutus_ref) by exact (Forall_mp _ _ _ (Forall_mp _ _ _ IH Hj) Hf). reflexivity.
  - apply all_nodes_map in Hi as [_ Hf]. cbn [jcanon] in Hj. rewrite forallb_Forall in Hj.
    cbn [raw_json plutus_ref dumps].
    rewrite (dumps_pairs _ _ (fun kv => plutus_ref (fst kv)) (fun kv => plutus_ref (snd kv))); [reflexivity|].
    clear -IH Hf Hj. induction IH as [|kv kvs [H1 H2] _ IHk]; inversion Hf as [|? ? [G1 G2] Hf'];
      inversion Hj as [|? ? J1 Hj']; subst; constructor; auto.
    apply andb_true_iff in J1 as [J1 J2]. auto.
  - apply all_nodes_list in Hi as [_ Hf]. cbn [jcanon] in Hj. destruct xs as [|x xs]; [discriminate|].
    rewrite forallb_Forall in Hj. cbn [raw_json plutus_ref dumps].
    rewrite (mapM_map2 _ _ plutus_ref) by exact (Forall_mp _ _ _ (Forall_mp _ _ _ IH Hj) Hf). reflexivity.
  - cbn [all_nodes n_int_ok] in Hi. cbn [raw_json plutus_ref dumps]. f_equal. apply py_int_ref. bconv. lia.
  - cbn [raw_json plutus_ref]. apply dumps_bytes_json.
Qed.

Lemma atom_jcanon k : atom k = true -> jcanon k = true.
Proof. destruct k; cbn; try discriminate; reflexivity. Qed.
Lemma atom_r_to_prim_json k : atom k = true -> r_to_prim (raw_json k) = raw_json k.
Proof.
  destruct k as [| | |z|b]; cbn [atom raw_json]; try discriminate; intros _; [reflexivity|].
  destruct (32 <? length b)%nat; reflexivity.
Qed.

(* ... or to_primitive repairs it *)
Lemma dumps_jsound : forall d, jsound d = true -> ints_ok d = true -> atom_keys d = true -> nodup_keys d = true ->
  dumps (r_to_prim (raw_json d)) = Ok (plutus_ref d).
Proof.
  unfold atom_keys, nodup_keys.
  induction d as [i fs IH|kvs IH|xs IH|z|b] using data_ind'; intros Hj Hi Ha Hn.
  - pose proof Hi as Hi0. unfold ints_ok in Hi. apply all_nodes_constr in Hi as [Hb Hf]. cbn [n_int_ok] in Hb. bconv.
    apply all_nodes_constr in Ha as [_ Hg]. apply all_nodes_constr in Hn as [_ Hh].
    cbn [jsound] in Hj. cbn [raw_json plutus_ref]. destruct (tag_spec i) as [t|] eqn:T.
    + destruct fs as [|f fs]; [reflexivity|]. rewrite forallb_Forall in Hj.
      assert (M : mapM dumps (map r_to_prim (map raw_json (f :: fs))) = Ok (map plutus_ref (f :: fs))).
      { rewrite map_map. apply mapM_map2.
        exact (Forall_mp _ _ _ (Forall_mp _ _ _ (Forall_mp _ _ _ (Forall_mp _ _ _ IH Hj) Hf) Hg) Hh). }
      remember (f :: fs) as l eqn:El.
      assert (Hl : exists y r, map raw_json l = y :: r) by (subst l; cbn [map]; eauto).
      destruct Hl as (y & r & Er). rewrite Er in *. cbn [r_to_prim].
      destruct (tag_spec_ranges _ _ T) as [_ Hne]. destruct (t =? 102) eqn:Q; [bconv; contradiction|].
      cbn [dumps]. rewrite M. cbn [bind]. subst l. reflexivity.
    + destruct fs as [|f fs]; [discriminate|]. rewrite forallb_Forall in Hj.
      assert (M : mapM dumps (map raw_json (f :: fs)) = Ok (map plutus_ref (f :: fs))).
      { apply mapM_map2. eapply Forall_impl; [|exact (Forall_and Hj Hf)]. cbn. intros a [J1 J2]. now apply dumps_jcanon. }
      remember (map raw_json (f :: fs)) as l eqn:El.
      cbn [r_to_prim]. change (102 =? 102) with true. cbv iota. cbn [map r_to_prim].
      cbn [dumps mapM bind]. rewrite M, py_int_small by assumption. reflexivity.
  - pose proof Hi as Hi0. unfold ints_ok in Hi. apply all_nodes_map in Hi as [_ Hf].
    apply all_nodes_map in Ha as [Hk Hg]. apply all_nodes_map in Hn as [Hd Hh].
    cbn [jsound] in Hj. rewrite forallb_Forall in Hj. cbn [n_atom_keys] in Hk. rewrite forallb_Forall in Hk.
    cbn [raw_json plutus_ref r_to_prim]. rewrite map_map. cbn [fst snd].
    rewrite (map_ext_Forall _ (fun kv => (raw_json (fst kv), r_to_prim (raw_json (snd kv))))).
    2:{ eapply Forall_impl; [|exact Hk]. cbn. intros kv K. now rewrite atom_r_to_prim_json. }
    rewrite dict_of_list_distinct.
    2:{ apply (kdistinct_map raw_json (fun v => r_to_prim (raw_json v))); [apply inj_of_abs, abs_raw_json | exact Hd]. }
    cbn [dumps].
    rewrite (dumps_pairs _ _ (fun kv => plutus_ref (fst kv)) (fun kv => plutus_ref (snd kv))); [reflexivity|].
    clear Hd Hi0. induction IH as [|kv kvs [H1 H2] _ IHk]; inversion Hf as [|? ? [F1 F2] Hf']; inversion Hg as [|? ? [G1 G2] Hg'];
      inversion Hh as [|? ? [N1 N2] Hh']; inversion Hj as [|? ? J1 Hj']; inversion Hk as [|? ? K1 Hk']; subst; constructor; auto.
    apply andb_true_iff in J1 as [J1 J2]. split; [|auto].
    apply dumps_jcanon; [now apply atom_jcanon | exact F1].
  - unfold ints_ok in Hi. apply all_nodes_list in Hi as [_ Hf]. cbn [jsound] in Hj. destruct xs as [|x xs]; [discriminate|].
    rewrite forallb_Forall in Hj. cbn [raw_json plutus_ref r_to_prim dumps].
    rewrite (mapM_map2 _ _ plutus_ref); [reflexivity|].
    eapply Forall_impl; [|exact (Forall_and Hj Hf)]. cbn. intros a [J1 J2]. now apply dumps_jcanon.
  - unfold ints_ok in Hi. cbn [all_nodes n_int_ok] in Hi. cbn [raw_json plutus_ref r_to_prim dumps]. f_equal. apply py_int_ref. bconv. lia.
  - cbn [raw_json plutus_ref].
    replace (r_to_prim (if (32 <? length b)%nat then PBStr b else PBytes b)) with (if (32 <? length b)%nat then PBStr b else PBytes b)
      by (destruct (32 <? length b)%nat; reflexivity).
    apply dumps_bytes_json.
Qed.

Lemma raw_datum_ok_json d : top_bytes_le 32 d = true -> raw_datum_ok (raw_json d) = true.
Proof.
  destruct d as [i fs|kvs|xs|z|b]; cbn [top_bytes_le raw_json]; try reflexivity.
  - intros _. destruct (tag_spec i); reflexivity.
  - intros H. destruct (32 <? length b)%nat eqn:E; [bconv; lia | reflexivity].
Qed.

(* C18_json: RawPlutusData.from_dict of the reference JSON, encoded *)
Lemma raw_fromdict d :
  jsound d = true -> ints_ok d = true -> atom_keys d = true -> nodup_keys d = true -> top_bytes_le 32 d = true ->
  m_fromdict d = Ok (plutus_bytes d).
Proof.
  intros Hj Hi Ha Hn Hb. unfold m_fromdict, raw_from_dict. rewrite r_undict_json by assumption. cbn [bind].
  unfold to_cbor. cbn [validate]. rewrite raw_datum_ok_json by assumption. cbn [to_prim].
  rewrite dumps_jsound by assumption. reflexivity.
Qed.

(* the full JSON route: decode, to_dict, (to_json, from_json,) from_dict, encode *)
Lemma raw_json_route d :
  wf (plutus_ref d) -> top_not_empty_list d = true -> nodup_keys d = true -> atom_keys d = true ->
  ints_ok d = true -> top_bytes_le 32 d = true -> jsound d = true ->
  m_json_rt d = OB (Ok (plutus_bytes d)).
Proof.
  intros W Ht Hn Ha Hi Hb Hj.
  assert (Hh : hollow_keys d = true /\ no_list_keys d = true).
  { unfold hollow_keys, no_list_keys, atom_keys in *. clear -Ha.
    induction d as [i fs IH|kvs IH|xs IH|z|b] using data_ind'.
    - apply all_nodes_constr in Ha as [_ Hf]. pose proof (Forall_mp _ _ _ IH Hf) as F. cbn [all_nodes n_hollow_keys n_no_list_keys].
      split; apply forallb_Forall; (eapply Forall_impl; [|exact F]); cbn; intros a [A1 A2]; assumption.
    - apply all_nodes_map in Ha as [Hk Hf]. cbn [all_nodes n_hollow_keys n_no_list_keys n_atom_keys] in *.
      rewrite forallb_Forall in Hk.
      assert (K1 : forallb (fun kv => hollow (fst kv)) kvs = true).
      { apply forallb_Forall. eapply Forall_impl; [|exact Hk]. cbn. intros [[]]; cbn; try discriminate; reflexivity. }
      assert (K2 : forallb (fun kv => match fst kv with List _ => false | _ => true end) kvs = true).
      { apply forallb_Forall. eapply Forall_impl; [|exact Hk]. cbn. intros [[]]; cbn; try discriminate; reflexivity. }
      rewrite K1, K2. cbn [andb].
      assert (F : Forall (fun kv => (all_nodes n_hollow_keys (fst kv) = true /\ all_nodes n_no_list_keys (fst kv) = true)
                                  /\ (all_nodes n_hollow_keys (snd kv) = true /\ all_nodes n_no_list_keys (snd kv) = true)) kvs).
      { clear -IH Hf. induction IH as [|kv kvs [H1 H2] _ IHk]; inversion Hf as [|? ? [G1 G2] Hf']; subst; constructor; auto. }
      split; apply forallb_Forall; (eapply Forall_impl; [|exact F]); cbn; intros a [[A1 A2] [A3 A4]]; rewrite ?A1, ?A2, ?A3, ?A4; reflexivity.
    - apply all_nodes_list in Ha as [_ Hf]. pose proof (Forall_mp _ _ _ IH Hf) as F. cbn [all_nodes n_hollow_keys n_no_list_keys].
      split; apply forallb_Forall; (eapply Forall_impl; [|exact F]); cbn; intros a [A1 A2]; assumption.
    - split; reflexivity.
    - split; reflexivity. }
  destruct Hh as [Hh Hk].
  unfold m_json_rt. rewrite raw_todict by assumption.
  f_equal. now apply raw_fromdict.
Qed.

(* ================================================================== typed PlutusData: encode *)
Lemma kdistinct_of_nodupb (g : pv -> pv) kvs :
  nodupb pv_eqb (map fst kvs) = true -> kdistinct (map (fun kv => (fst kv, g (snd kv))) kvs).
Proof.
  induction kvs as [|[k v] kvs IH]; cbn [map nodupb kdistinct fst snd]; [trivial|].
  intros H. apply andb_true_iff in H as [H1 H2]. split; [|auto].
  apply Forall_forall. intros x Hx. apply in_map_iff in Hx as ([k' v'] & <- & Hin). cbn [fst snd].
  destruct (pv_eqb k k') eqn:E; [|reflexivity]. apply negb_true_iff in H1.
  assert (X : existsb (pv_eqb k) (map fst kvs) = true).
  { apply existsb_exists. exists k'. split; [|exact E]. apply in_map_iff. now exists (k', v'). }
  congruence.
Qed.

Lemma dumps_bstr b : dumps (PBStr b) = Ok (ref_bytes b).
Proof.
  unfold ref_bytes. cbn [dumps].
  destruct (64 <? length b)%nat eqn:F, (length b <=? 64)%nat eqn:G; try reflexivity; bconv; lia.
Qed.

(* keys that are class instances: the converted key has the content of the key, hence keys that differ in content
   stay different after conversion *)
Lemma hkey_abs_to_prim : forall k, hkey k = true -> abs (to_prim k) = abs k.
Proof.
  induction k as [z|b|b|xs IH|xs IH|kvs IH|t v IH|id fts fs IH|w IH] using pv_ind'; intros H; try discriminate;
    try reflexivity.
  cbn [hkey] in H. rewrite forallb_Forall in H. cbn [to_prim]. rewrite get_tag_spec.
  change (match map to_prim fs with [] => PList [] | _ :: _ => PIList (map to_prim fs) end) with (seqv (map to_prim fs)).
  rewrite abs_tagged, unlist_seqv, map_map. cbn [abs]. f_equal.
  apply map_ext_Forall. exact (Forall_mp _ _ _ IH H).
Qed.

Lemma kdistinct_of_absnodup (f g : pv -> pv) kvs :
  (forall kv kv', In kv kvs -> In kv' kvs -> pv_eqb (f (fst kv)) (f (fst kv')) = true -> abs (fst kv) = abs (fst kv')) ->
  nodupb data_eqb (map (fun kv => abs (fst kv)) kvs) = true ->
  kdistinct (map (fun kv => (f (fst kv), g (snd kv))) kvs).
Proof.
  induction kvs as [|[k v] kvs IH]; cbn [map nodupb kdistinct fst snd]; [trivial|].
  intros Inj H. apply andb_true_iff in H as [H1 H2]. split.
  - apply Forall_forall. intros x Hx. apply in_map_iff in Hx as ([k' v'] & <- & Hin). cbn [fst snd].
    destruct (pv_eqb (f k) (f k')) eqn:E; [|reflexivity]. apply negb_true_iff in H1.
    apply (Inj (k, v) (k', v')) in E; [|now left|now right]. cbn [fst] in E.
    assert (X : existsb (data_eqb (abs k)) (map (fun kv => abs (fst kv)) kvs) = true).
    { apply existsb_exists. exists (abs k'). split; [|rewrite E; apply data_eqb_refl].
      apply in_map_iff. now exists (k', v'). }
    congruence.
  - apply IH; [|assumption]. intros kv kv' Hi Hi'. apply Inj; now right.
Qed.

Lemma kdistinct_id_of_absnodup kvs :
  nodupb data_eqb (map (fun kv => abs (fst kv)) kvs) = true -> kdistinct kvs.
Proof.
  intros H. pose proof (kdistinct_of_absnodup (fun x => x) (fun x => x) kvs) as D.
  rewrite (map_ext_Forall _ (fun kv => kv)) in D by (apply Forall_forall; intros [] _; reflexivity).
  rewrite map_id in D. apply D; [|assumption].
  intros kv kv' _ _ E. apply pv_eqb_sound in E. now rewrite E.
Qed.

Lemma rawc_elim w : rawc w = true -> w = raw_canon (abs w) /\ ints_ok (abs w) = true /\ nodup_keys (abs w) = true.
Proof.
  unfold rawc. intros H. apply andb_true_iff in H as [H H3]. apply andb_true_iff in H as [H1 H2].
  apply pv_eqb_sound in H1. auto.
Qed.

Lemma typed_dumps : forall v, canon_typed v = true -> dumps (to_prim v) = Ok (plutus_ref (abs v)).
Proof.
  unfold canon_typed.
  induction v as [z|b|b|xs IH|xs IH|kvs IH|t v IH|id fts fs IH|w IH] using pv_ind'; cbn [vshape]; intros H;
    apply andb_true_iff in H as [Hn Hc]; unfold n_typed in Hn; repeat (apply andb_true_iff in Hn as [Hn ?]).
  - cbn [to_prim abs plutus_ref dumps]. f_equal. apply py_int_ref. cbn [v_int_ok] in Hn. bconv. lia.
  - cbn [to_prim abs plutus_ref dumps]. unfold ref_bytes. cbn [v_short_bytes] in *.
    match goal with Hs : (length b <=? 64)%nat = true |- _ => now rewrite Hs end.
  - cbn [to_prim abs plutus_ref]. apply dumps_bstr.
  - destruct xs as [|x xs]; [reflexivity|]. cbn [v_no_pylist] in *. discriminate.
  - destruct xs as [|x xs]; [cbn [v_no_empty_ilist] in *; discriminate|].
    rewrite forallb_Forall in Hc. cbn [to_prim abs plutus_ref dumps].
    rewrite (mapM_map2 _ _ (fun y => plutus_ref (abs y))) by exact (Forall_mp _ _ _ IH Hc).
    cbn [bind map ref_seq]. now rewrite map_map.
  - rewrite forallb_Forall in Hc. cbn [v_nodup v_hkeys] in *.
    match goal with Ha : forallb _ kvs = true |- _ => rewrite forallb_Forall in Ha; rename Ha into Hk end.
    cbn [to_prim abs plutus_ref].
    (* the keys -- class instances included -- are converted like values; converted keys stay pairwise different *)
    rewrite dict_of_list_distinct.
    2:{ apply kdistinct_of_absnodup; [|assumption]. intros kv kv' Hi Hi' E. apply pv_eqb_sound in E.
        rewrite Forall_forall in Hk.
        rewrite <- (hkey_abs_to_prim (fst kv)), <- (hkey_abs_to_prim (fst kv')) by (apply Hk; assumption).
        now rewrite E. }
    cbn [dumps].
    rewrite (mapM_map2 _ _ (fun kv => (plutus_ref (abs (fst kv)), plutus_ref (abs (snd kv))))).
    + cbn [bind]. now rewrite map_map.
    + clear -IH Hc. induction IH as [|kv kvs [H1 H2] _ IHk]; inversion Hc as [|? ? C1 Hc'];
        subst; constructor; auto.
      apply andb_true_iff in C1 as [C1 C2]. cbn [fst snd].
      rewrite H1, H2 by assumption. reflexivity.
  - (* bare CBORTag inside an IndefiniteList / Datum field: canonical raw data *)
    match goal with Hr : v_rawc (PTag t v) = true |- _ => cbn [v_rawc] in Hr; apply rawc_elim in Hr as (E & Hi & Hd) end.
    rewrite E at 1. rewrite to_prim_canon, dumps_canon by assumption. reflexivity.
  - rewrite forallb_Forall in Hc. cbn [v_int_ok] in Hn. bconv.
    cbn [to_prim abs plutus_ref]. rewrite get_tag_spec.
    change (match map to_prim fs with [] => PList [] | _ :: _ => PIList (map to_prim fs) end) with (seqv (map to_prim fs)).
    rewrite (dumps_tagged id _ (ref_seq (map (fun y => plutus_ref (abs y)) fs))); [now rewrite map_map|assumption|].
    apply dumps_seqv_map. exact (Forall_mp _ _ _ IH Hc).
  - match goal with Hr : v_rawc (PRaw w) = true |- _ => cbn [v_rawc] in Hr; apply rawc_elim in Hr as (E & Hi & Hd) end.
    cbn [to_prim abs]. rewrite E at 1. rewrite r_to_prim_canon, dumps_canon by assumption. reflexivity.
Qed.

(* C18_typed: a canonically shaped typed object encodes to the reference bytes of its content *)
Lemma typed_enc x : canon_typed x = true -> validate x = true -> to_cbor x = Ok (plutus_bytes (abs x)).
Proof. intros Hc Hv. unfold to_cbor. rewrite Hv, typed_dumps by assumption. reflexivity. Qed.

(* ================================================================== typed PlutusData: from_cbor *)
Definition arr_of (id : N) (fts : list ty) (w : pv) : res pv :=
  match w with
  | PList xs | PIList xs => do vals <- zipM restore fts xs; mk_obj id fts vals
  | _ => Err E_Deser
  end.

Lemma restore_cls_tag id fts tg val : tg <> 102 ->
  restore (TCls id fts) (PTag tg val)
  = match get_tag id with Some t' => if t' =? tg then arr_of id fts val else Err E_Deser | None => Err E_Deser end.
Proof. intros H. cbn [restore]. destruct (tg =? 102) eqn:Q; [bconv; contradiction|]. reflexivity. Qed.

Lemma restore_cls_102 id fts c w :
  restore (TCls id fts) (PTag 102 (PList [c; w]))
  = if negb (pv_eqb c (PInt (Z.of_N id))) then Err E_Deser else arr_of id fts w.
Proof. reflexivity. Qed.

Lemma arr_of_seqv id fts xs : arr_of id fts (seqv xs) = do vals <- zipM restore fts xs; mk_obj id fts vals.
Proof. destruct xs; reflexivity. Qed.

Lemma restore_cls_mismatch idk ftsk id ds : idk <> id ->
  restore (TCls idk ftsk) (raw_dec (Constr id ds)) = Err E_Deser.
Proof.
  intros Hne. cbn [raw_dec]. destruct (tag_spec id) as [t|] eqn:T.
  - rewrite restore_cls_tag by apply (tag_spec_ranges _ _ T). rewrite get_tag_spec.
    destruct (tag_spec idk) as [t'|] eqn:T'; [|reflexivity].
    destruct (t' =? t) eqn:Q; [|reflexivity]. bconv. subst t'. exfalso. apply Hne. eapply tag_spec_inj; eauto.
  - rewrite restore_cls_102. cbn [pv_eqb]. destruct (Z.of_N id =? Z.of_N idk)%Z eqn:Q; [bconv; lia | reflexivity].
Qed.

Lemma rt_exact_bytes t b : rt_exact t (PBytes b) = true -> (length b <=? 64)%nat = true.
Proof. destruct t; cbn; try discriminate; auto. Qed.

Lemma forall2b_length {A B} (f : A -> B -> bool) a : forall b, forall2b f a b = true -> length a = length b.
Proof.
  induction a as [|x a IH]; intros [|y b] H; cbn in H; try discriminate; [reflexivity|].
  apply andb_true_iff in H as [_ H]. cbn. f_equal. auto.
Qed.

Lemma zipM_exact fts :
  Forall (fun t => forall v, rt_exact t v = true -> restore t (raw_dec (abs v)) = Ok v) fts ->
  forall fs, forall2b rt_exact fts fs = true ->
  zipM restore fts (map (fun x => raw_dec (abs x)) fs) = Ok fs.
Proof.
  induction 1 as [|t fts Ht _ IH]; intros [|f fs] H; cbn in H; try discriminate; [reflexivity|].
  apply andb_true_iff in H as [H1 H2]. cbn [map zipM]. rewrite Ht, IH by assumption. reflexivity.
Qed.

Lemma mk_obj_exact id fts fs : forall2b rt_exact fts fs = true -> mk_obj id fts fs = Ok (PObj id fts fs).
Proof.
  intros H. unfold mk_obj. rewrite <- (forall2b_length _ _ _ H).
  destruct (length fts <? length fts)%nat eqn:Q; [bconv; lia|].
  assert (E : existsb (fun v => match v with PBytes b => (64 <? length b)%nat | _ => false end) fs = false).
  { clear Q. revert fs H. induction fts as [|t fts IH]; intros [|f fs] H; cbn in H; try discriminate; [reflexivity|].
    apply andb_true_iff in H as [H1 H2]. cbn [existsb]. rewrite (IH _ H2), orb_false_r.
    destruct f; try reflexivity. apply rt_exact_bytes in H1. bconv.
    match goal with |- (64 <? ?n)%nat = false => destruct (64 <? n)%nat eqn:Q; [bconv; lia | reflexivity] end. }
  now rewrite E.
Qed.

Lemma dec_exact_elim w : dec_exact w = true -> raw_dec (abs w) = w.
Proof. apply pv_eqb_sound. Qed.

Lemma restore_exact : forall t v, rt_exact t v = true -> restore t (raw_dec (abs v)) = Ok v.
Proof.
  induction t as [| | |t IH|kt vt IHk IHv|id fts IH|ts IH| |] using ty_ind'; intros v H.
  - destruct v; try discriminate. reflexivity.
  - destruct v; try discriminate. reflexivity.
  - destruct v; try discriminate. reflexivity.
  - destruct v as [| | |[|x xs]| | | | |]; try discriminate. reflexivity.
  - destruct v as [| | | | |kvs| | |]; try discriminate. cbn [rt_exact] in H.
    apply andb_true_iff in H as [H1 H2]. rewrite forallb_Forall in H1.
    cbn [abs raw_dec restore]. rewrite map_map. cbn [fst snd].
    rewrite (mapM_map2 _ _ (fun kv => (fst kv, snd kv))).
    + cbn [bind]. rewrite (map_ext_Forall _ (fun kv => kv)) by (apply Forall_forall; intros [] _; reflexivity).
      rewrite map_id. rewrite dict_of_list_distinct; [reflexivity|].
      pose proof (kdistinct_of_nodupb (fun x => x) kvs H2) as D.
      rewrite (map_ext_Forall _ (fun kv => kv)) in D by (apply Forall_forall; intros [] _; reflexivity).
      now rewrite map_id in D.
    + eapply Forall_impl; [|exact H1]. cbn. intros [k w] E. cbn [fst snd] in *.
      apply andb_true_iff in E as [E1 E2]. rewrite IHk, IHv by assumption. reflexivity.
  - destruct v as [| | | | | | |id' fts' fs|]; try discriminate. cbn [rt_exact] in H.
    apply andb_true_iff in H as [H H3]. apply andb_true_iff in H as [H1 H2]. bconv. subst id'.
    assert (fts = fts').
    { eapply list_eqb_sound; [|exact H2]. apply Forall_forall. intros x _ y. apply ty_eqb_sound. }
    subst fts'.
    assert (A : arr_of id fts (seqv (map raw_dec (map abs fs))) = Ok (PObj id fts fs)).
    { rewrite arr_of_seqv, map_map, zipM_exact by assumption. cbn [bind]. now apply mk_obj_exact. }
    cbn [abs raw_dec]. destruct (tag_spec id) as [t|] eqn:T.
    + rewrite restore_cls_tag by apply (tag_spec_ranges _ _ T). rewrite get_tag_spec, T, N.eqb_refl. exact A.
    + rewrite restore_cls_102. cbn [pv_eqb]. rewrite Z.eqb_refl. exact A.
  - destruct v as [| | | | | | |id' fts' fs|]; try discriminate. cbn [rt_exact] in H. cbn [restore].
    remember (PObj id' fts' fs) as v eqn:Ev.
    assert (Ab : exists ds, abs v = Constr id' ds) by (subst v; cbn [abs]; eauto).
    destruct Ab as (ds & Ab).
    induction IH as [|a ts Ha _ IHts]; [discriminate|].
    destruct a as [| | | | |idk ftsk| | |]; try discriminate.
    cbn [firstM]. destruct (idk =? id') eqn:Q.
    + now rewrite Ha.
    + bconv. rewrite Ab, restore_cls_mismatch by assumption.
      change (String.eqb E_Deser E_Deser) with true. cbv iota. rewrite <- Ab. now apply IHts.
  - destruct v as [| | | |[|x xs]| | | |]; try discriminate. cbn [rt_exact] in H. rewrite forallb_Forall in H.
    cbn [abs raw_dec]. rewrite map_map.
    rewrite (map_id_Forall (fun y => raw_dec (abs y))) by (eapply Forall_impl; [|exact H]; apply dec_exact_elim).
    reflexivity.
  - destruct v as [z|b| | |xs|kvs| | |w]; try discriminate; cbn [rt_exact] in H.
    + reflexivity.
    + reflexivity.
    + apply dec_exact_elim in H. rewrite H. reflexivity.
    + apply dec_exact_elim in H. rewrite H. reflexivity.
    + destruct w as [| | | | | |t w| |]; try discriminate. apply dec_exact_elim in H. cbn [abs]. cbn [abs] in H.
      rewrite H. reflexivity.
Qed.

(* C18_typed_rt: decoding the reference bytes of a typed object returns the object, and encoding it gives the bytes back *)
Lemma typed_rt id fts fs :
  let x := PObj id fts fs in
  rt_exact (TCls id fts) x = true -> canon_typed x = true -> validate x = true ->
  wf (plutus_ref (abs x)) -> hollow_keys (abs x) = true -> nodup_keys (abs x) = true ->
  typed_from_cbor id fts (plutus_bytes (abs x)) = Ok x /\ to_cbor x = Ok (plutus_bytes (abs x)).
Proof.
  intros x He Hc Hv W Hh Hn. split; [|now apply typed_enc].
  unfold typed_from_cbor, plutus_bytes. rewrite decode_enc by assumption. cbn [bind].
  rewrite loads_ref by assumption. cbn [bind]. now apply restore_exact.
Qed.

(* ================================================================== raw data: Python-list build *)
Lemma abs_raw_py : forall d, abs (raw_py d) = d.
Proof.
  induction d as [i fs IH|kvs IH|xs IH|z|b] using data_ind'; cbn [raw_py].
  - rewrite abs_tagged. cbn [abs unlist]. rewrite map_map. f_equal. now apply map_id_Forall.
  - cbn [abs]. rewrite map_map. cbn [fst snd]. f_equal. apply map_id_Forall.
    eapply Forall_impl; [|exact IH]. cbn. intros [k v] [H1 H2]. cbn in *. now rewrite H1, H2.
  - cbn [abs]. rewrite map_map. f_equal. now apply map_id_Forall.
  - reflexivity.
  - destruct (length b <=? 64)%nat; reflexivity.
Qed.

Lemma pynorm_py : forall d, nodup_keys d = true -> pynorm (raw_py d) = raw_py d.
Proof.
  unfold nodup_keys.
  induction d as [i fs IH|kvs IH|xs IH|z|b] using data_ind'; intros H.
  - apply all_nodes_constr in H as [_ Hf]. cbn [raw_py].
    assert (E : map pynorm (map raw_py fs) = map raw_py fs).
    { rewrite map_map. apply map_ext_Forall. exact (Forall_mp _ _ _ IH Hf). }
    destruct (tag_spec i); cbn [pynorm map]; now rewrite E.
  - apply all_nodes_map in H as [Hn Hf]. cbn [raw_py pynorm]. rewrite map_map. cbn [fst snd].
    rewrite (map_ext_Forall _ (fun kv => (raw_py (fst kv), raw_py (snd kv)))).
    + rewrite dict_of_list_distinct; [reflexivity|]. apply kdistinct_map; [apply inj_of_abs, abs_raw_py | exact Hn].
    + clear -IH Hf. induction IH as [|kv kvs [H1 H2] _ IHk]; inversion Hf as [|? ? [G1 G2] Hf']; subst; constructor; auto.
      now rewrite H1, H2.
  - apply all_nodes_list in H as [_ Hf]. cbn [raw_py pynorm]. rewrite map_map. f_equal.
    apply map_ext_Forall. exact (Forall_mp _ _ _ IH Hf).
  - reflexivity.
  - cbn [raw_py]. destruct (length b <=? 64)%nat; reflexivity.
Qed.

(* RawPlutusData.to_primitive turns the Python-list build into the canonical shape *)
Lemma r_to_prim_py : forall d, nodup_keys d = true -> r_to_prim (raw_py d) = raw_canon d.
Proof.
  unfold nodup_keys.
  induction d as [i fs IH|kvs IH|xs IH|z|b] using data_ind'; intros H.
  - apply all_nodes_constr in H as [_ Hf]. cbn [raw_py raw_canon].
    assert (E : map r_to_prim (map raw_py fs) = map raw_canon fs).
    { rewrite map_map. apply map_ext_Forall. exact (Forall_mp _ _ _ IH Hf). }
    destruct (tag_spec i) as [t|] eqn:T.
    + destruct fs as [|f fs]; [reflexivity|]. remember (f :: fs) as l.
      assert (Hl : exists y r, map raw_py l = y :: r) by (subst l; cbn [map]; eauto).
      destruct Hl as (y & r & Er). rewrite Er in *. cbn [r_to_prim].
      destruct (tag_spec_ranges _ _ T) as [_ Hne]. destruct (t =? 102) eqn:Q; [bconv; contradiction|].
      rewrite E. subst l. reflexivity.
    + cbn [r_to_prim]. change (102 =? 102) with true. cbv iota. cbn [map r_to_prim].
      destruct fs as [|f fs]; [reflexivity|]. remember (f :: fs) as l.
      assert (Hl : exists y r, map raw_py l = y :: r) by (subst l; cbn [map]; eauto).
      destruct Hl as (y & r & Er). rewrite Er in *. cbv iota.
      change (r_to_prim y :: map r_to_prim r) with (map r_to_prim (y :: r)). rewrite E. subst l. reflexivity.
  - apply all_nodes_map in H as [Hn Hf]. cbn [raw_py raw_canon r_to_prim]. rewrite map_map. cbn [fst snd].
    rewrite (map_ext_Forall _ (fun kv => (raw_canon (fst kv), raw_canon (snd kv)))).
    + rewrite dict_of_list_distinct; [reflexivity|]. apply kdistinct_map; [apply inj_of_abs, abs_raw_canon | exact Hn].
    + clear -IH Hf. induction IH as [|kv kvs [H1 H2] _ IHk]; inversion Hf as [|? ? [G1 G2] Hf']; subst; constructor; auto.
      now rewrite H1, H2.
  - apply all_nodes_list in H as [_ Hf]. cbn [raw_py raw_canon].
    assert (E : map r_to_prim (map raw_py xs) = map raw_canon xs).
    { rewrite map_map. apply map_ext_Forall. exact (Forall_mp _ _ _ IH Hf). }
    destruct xs as [|x xs]; [reflexivity|]. remember (x :: xs) as l.
    assert (Hl : exists y r, map raw_py l = y :: r) by (subst l; cbn [map]; eauto).
    destruct Hl as (y & r & Er). rewrite Er in *. cbn [r_to_prim]. rewrite E. subst l. reflexivity.
  - reflexivity.
  - cbn [raw_py raw_canon]. destruct (length b <=? 64)%nat; reflexivity.
Qed.

Lemma raw_py_canon : forall d, pycanon d = true -> raw_py d = raw_canon d.
Proof.
  induction d as [i fs IH|kvs IH|xs IH|z|b] using data_ind'; cbn [pycanon]; intros H.
  - destruct fs; [reflexivity | discriminate].
  - rewrite forallb_Forall in H. cbn [raw_py raw_canon]. f_equal. apply map_ext_Forall.
    clear -IH H. induction IH as [|kv kvs [H1 H2] _ IHk]; inversion H as [|? ? J Hj]; subst; constructor; auto.
    apply andb_true_iff in J as [J1 J2]. now rewrite H1, H2.
  - destruct xs; [reflexivity | discriminate].
  - reflexivity.
  - reflexivity.
Qed.

Lemma raw_build_py d :
  ints_ok d = true -> nodup_keys d = true -> top_bytes_le 64 d = true -> top_not_empty_list d = true ->
  pysound d = true ->
  to_cbor (PRaw (pynorm (raw_py_top d))) = Ok (plutus_bytes d).
Proof.
  intros Hi Hn Hb Hl Hp.
  destruct d as [i fs|kvs|xs|z|b].
  1,2,4,5: cbn [raw_py_top]; rewrite pynorm_py by assumption; unfold to_cbor.
  - assert (V : validate (PRaw (raw_py (Constr i fs))) = true) by (cbn [raw_py validate]; destruct (tag_spec i); reflexivity).
    rewrite V. cbn [to_prim]. rewrite r_to_prim_py, dumps_canon by assumption. reflexivity.
  - assert (V : validate (PRaw (raw_py (Map kvs))) = true) by reflexivity.
    rewrite V. cbn [to_prim]. rewrite r_to_prim_py, dumps_canon by assumption. reflexivity.
  - assert (V : validate (PRaw (raw_py (I z))) = true) by reflexivity.
    rewrite V. cbn [to_prim]. rewrite r_to_prim_py, dumps_canon by assumption. reflexivity.
  - assert (V : validate (PRaw (raw_py (Bs b))) = true) by (cbn in Hb; cbn [raw_py]; rewrite Hb; reflexivity).
    rewrite V. cbn [to_prim]. rewrite r_to_prim_py, dumps_canon by assumption. reflexivity.
  - destruct xs as [|x xs]; [discriminate|]. cbn [pysound] in Hp. rewrite forallb_Forall in Hp.
    unfold nodup_keys in Hn. apply all_nodes_list in Hn as [_ Hn]. unfold ints_ok in Hi. apply all_nodes_list in Hi as [_ Hi].
    cbn [raw_py_top]. remember (x :: xs) as l.
    assert (E : pynorm (PIList (map raw_py l)) = PIList (map raw_canon l)).
    { cbn [pynorm]. rewrite map_map. f_equal. apply map_ext_Forall.
      eapply Forall_impl; [|exact (Forall_and Hp Hn)]. cbn. intros a [A1 A2]. rewrite pynorm_py by assumption.
      now apply raw_py_canon. }
    rewrite E. unfold to_cbor. cbn [validate raw_datum_ok to_prim r_to_prim dumps].
    rewrite (mapM_map2 _ _ plutus_ref).
    + subst l. reflexivity.
    + eapply Forall_impl; [|exact Hi]. cbn. intros a A. now apply dumps_canon.
Qed.

Lemma atom_keys_ok (F : data -> pv) :
  (forall k, atom k = true -> hashable false (F k) = true) ->
  (forall i fs, dict_keys_ok false (F (Constr i fs)) = forallb (fun f => dict_keys_ok false (F f)) fs) ->
  (forall xs, dict_keys_ok false (F (List xs)) = forallb (fun f => dict_keys_ok false (F f)) xs) ->
  (forall kvs, F (Map kvs) = PDict (map (fun kv => (F (fst kv), F (snd kv))) kvs)) ->
  (forall z, dict_keys_ok false (F (I z)) = true) -> (forall b, dict_keys_ok false (F (Bs b)) = true) ->
  forall d, atom_keys d = true -> dict_keys_ok false (F d) = true.
Proof.
  intros Hat Hc Hl Hm Hi Hb. unfold atom_keys.
  induction d as [i fs IH|kvs IH|xs IH|z|b] using data_ind'; intros H.
  - apply all_nodes_constr in H as [_ Hf]. rewrite Hc. apply forallb_Forall. exact (Forall_mp _ _ _ IH Hf).
  - apply all_nodes_map in H as [Hk Hf]. rewrite Hm. cbn [dict_keys_ok]. rewrite forallb_Forall. apply Forall_map.
    cbn [n_atom_keys] in Hk. rewrite forallb_Forall in Hk. cbn [fst snd].
    clear -IH Hf Hk Hat. induction IH as [|kv kvs [H1 H2] _ IHk]; inversion Hf as [|? ? [G1 G2] Hf']; inversion Hk as [|? ? K Hk'];
      subst; constructor; auto.
    now rewrite Hat, H1, H2.
  - apply all_nodes_list in H as [_ Hf]. rewrite Hl. apply forallb_Forall. exact (Forall_mp _ _ _ IH Hf).
  - apply Hi.
  - apply Hb.
Qed.

Lemma forallb_map {A B} (p : B -> bool) (g : A -> B) l : forallb p (map g l) = forallb (fun x => p (g x)) l.
Proof. induction l; cbn; congruence. Qed.

Lemma dict_keys_ok_seqv xs : dict_keys_ok false (seqv xs) = forallb (dict_keys_ok false) xs.
Proof. destruct xs; reflexivity. Qed.

Lemma dict_keys_ok_canon d : atom_keys d = true -> dict_keys_ok false (raw_canon d) = true.
Proof.
  apply atom_keys_ok; try reflexivity.
  - intros [| | |z|b]; cbn [atom raw_canon]; try discriminate; intros _; [reflexivity|]. destruct (length b <=? 64)%nat; reflexivity.
  - intros i fs. cbn [raw_canon]. destruct (tag_spec i); cbn [dict_keys_ok forallb]; rewrite dict_keys_ok_seqv, forallb_map, ?andb_true_r; reflexivity.
  - intros xs. cbn [raw_canon]. now rewrite dict_keys_ok_seqv, forallb_map.
  - intros b. cbn [raw_canon]. destruct (length b <=? 64)%nat; reflexivity.
Qed.

Lemma dict_keys_ok_py d : atom_keys d = true -> dict_keys_ok false (raw_py d) = true.
Proof.
  apply atom_keys_ok; try reflexivity.
  - intros [| | |z|b]; cbn [atom raw_py]; try discriminate; intros _; [reflexivity|]. destruct (length b <=? 64)%nat; reflexivity.
  - intros i fs. cbn [raw_py]. destruct (tag_spec i); cbn [dict_keys_ok forallb]; rewrite forallb_map, ?andb_true_r; reflexivity.
  - intros xs. cbn [raw_py dict_keys_ok]. now rewrite forallb_map.
  - intros b. cbn [raw_py]. destruct (length b <=? 64)%nat; reflexivity.
Qed.

Lemma dict_keys_ok_py_top d : atom_keys d = true -> dict_keys_ok false (raw_py_top d) = true.
Proof.
  intros H. destruct d as [i fs|kvs|xs|z|b]; try (now apply dict_keys_ok_py).
  cbn [raw_py_top dict_keys_ok]. rewrite forallb_map. unfold atom_keys in H. apply all_nodes_list in H as [_ Hf].
  apply forallb_Forall. eapply Forall_impl; [|exact Hf]. cbn. intros a A. now apply dict_keys_ok_py.
Qed.

(* ================================================================== regions are sound: outside every known region the model
   (hence, by correspondence, the implementation) gives exactly what the property demands *)
Ltac fr H :=
  unfold first_region in H; cbn [find fst snd negb app] in H;
  repeat match type of H with
         | context [if negb ?b then _ else _] =>
             let E := fresh "P" in destruct b eqn:E; cbn [find fst snd negb] in H; [|exfalso; discriminate H]
         end.

Theorem raw_region_sound route d :
  wf (plutus_ref d) -> (route <= 8)%nat -> raw_region route d = RG_none -> raw_model route d = raw_expect route d.
Proof.
  intros W Hr H.
  destruct route as [|[|[|[|[|[|[|[|[|]]]]]]]]]; try lia; cbn [raw_region] in H; fr H; cbn [raw_model raw_expect].
  - unfold build_raw. rewrite dict_keys_ok_canon, raw_build_canon by assumption. reflexivity.
  - unfold build_raw. rewrite dict_keys_ok_py_top, raw_build_py by assumption. reflexivity.
  - now rewrite raw_reenc.
  - now rewrite raw_reenc.
  - now rewrite raw_todict.
  - now apply raw_json_route.
  - now apply raw_json_route.
  - now rewrite raw_fromdict.
  - now rewrite raw_reenc.
Qed.

Lemma pynorm_typed : forall v, canon_typed v = true -> pynorm v = v.
Proof.
  unfold canon_typed.
  induction v as [z|b|b|xs IH|xs IH|kvs IH|t v IH|id fts fs IH|w IH] using pv_ind'; cbn [vshape]; intros H;
    apply andb_true_iff in H as [Hn Hc]; unfold n_typed in Hn; repeat (apply andb_true_iff in Hn as [Hn ?]);
    try reflexivity.
  - rewrite forallb_Forall in Hc. cbn [pynorm]. f_equal. apply map_id_Forall. exact (Forall_mp _ _ _ IH Hc).
  - rewrite forallb_Forall in Hc. cbn [pynorm]. f_equal. apply map_id_Forall. exact (Forall_mp _ _ _ IH Hc).
  - rewrite forallb_Forall in Hc. cbn [v_nodup] in *. cbn [pynorm].
    rewrite (map_id_Forall (fun kv => (pynorm (fst kv), pynorm (snd kv)))).
    + rewrite dict_of_list_distinct; [reflexivity|]. now apply kdistinct_id_of_absnodup.
    + clear -IH Hc. induction IH as [|kv kvs [H1 H2] _ IHk]; inversion Hc as [|? ? C1 Hc']; subst; constructor; auto.
      apply andb_true_iff in C1 as [C1 C2]. destruct kv. cbn [fst snd] in *. now rewrite H1, H2.
  - match goal with Hr : v_rawc (PTag t v) = true |- _ => cbn [v_rawc] in Hr; apply rawc_elim in Hr as (E & Hi & Hd) end.
    rewrite E. now apply pynorm_canon.
  - rewrite forallb_Forall in Hc. cbn [pynorm]. f_equal. apply map_id_Forall. exact (Forall_mp _ _ _ IH Hc).
  - match goal with Hr : v_rawc (PRaw w) = true |- _ => cbn [v_rawc] in Hr; apply rawc_elim in Hr as (E & Hi & Hd) end.
    cbn [pynorm]. f_equal. rewrite E. now apply pynorm_canon.
Qed.

Lemma vshape_and p q v : vshape (fun x => p x && q x) v = vshape p v && vshape q v.
Proof.
  induction v as [z|b|b|xs IH|xs IH|kvs IH|t v IH|id fts fs IH|w IH] using pv_ind'; cbn [vshape]; try ring.
  - assert (E : forallb (vshape (fun x => p x && q x)) xs = forallb (vshape p) xs && forallb (vshape q) xs).
    { induction IH as [|f fs Hf _ IHf]; cbn; [reflexivity|]. rewrite Hf, IHf. ring. }
    rewrite E. ring.
  - assert (E : forallb (vshape (fun x => p x && q x)) xs = forallb (vshape p) xs && forallb (vshape q) xs).
    { induction IH as [|f fs Hf _ IHf]; cbn; [reflexivity|]. rewrite Hf, IHf. ring. }
    rewrite E. ring.
  - assert (E : forallb (fun kv => vshape (fun x => p x && q x) (fst kv) && vshape (fun x => p x && q x) (snd kv)) kvs
               = forallb (fun kv => vshape p (fst kv) && vshape p (snd kv)) kvs
                 && forallb (fun kv => vshape q (fst kv) && vshape q (snd kv)) kvs).
    { induction IH as [|f fs [Hk Hv] _ IHf]; cbn; [reflexivity|]. rewrite Hk, Hv, IHf. ring. }
    rewrite E. ring.
  - assert (E : forallb (vshape (fun x => p x && q x)) fs = forallb (vshape p) fs && forallb (vshape q) fs).
    { induction IH as [|f fs' Hf _ IHf]; cbn; [reflexivity|]. rewrite Hf, IHf. ring. }
    rewrite E. ring.
Qed.

Lemma typed_region_canon route pp t x : (route <= 1)%nat -> typed_region route pp t x = RG_none -> canon_typed x = true.
Proof.
  intros Hr H. unfold canon_typed, n_typed. rewrite !vshape_and.
  destruct route as [|[|]]; try lia; cbn [typed_region] in H; fr H;
    repeat match goal with E : _ = true |- _ => rewrite E; clear E end; reflexivity.
Qed.

Theorem typed_region_sound route pp t x :
  (route <= 1)%nat -> validate x = true -> typed_region route pp t x = RG_none ->
  typed_model route pp t x = typed_expect route x.
Proof.
  intros Hr Hv H. pose proof (typed_region_canon _ _ _ _ Hr H) as Hc.
  unfold typed_model. destruct (cls_of t) as [id fts].
  destruct route as [|[|]]; try lia; cbn [typed_expect]; rewrite pynorm_typed, typed_enc by assumption; reflexivity.
Qed.

(* ================================================================== long-bytes guard *)
Lemma long_guard id fts vals b :
  (length fts <= length vals)%nat -> In (PBytes b) vals -> (64 < length b)%nat -> mk_obj id fts vals = Err E_InvArg.
Proof.
  intros Hl Hin Hb. unfold mk_obj. destruct (length vals <? length fts)%nat eqn:Q; [bconv; lia|].
  assert (E : existsb (fun v => match v with PBytes b => (64 <? length b)%nat | _ => false end) vals = true).
  { apply existsb_exists. exists (PBytes b). split; [assumption|]. destruct (64 <? length b)%nat eqn:F; [reflexivity | bconv; lia]. }
  now rewrite E.
Qed.

(* ================================================================== anchor, non-vacuity, witnesses *)
(* the Haskell-generated fixture of /repo/test/resources/haskell/PlutusData (PlutusTx.toData, cborg) *)
Definition fix_d : data :=
  Constr 1 [Bs (hx "c2ff616e11299d9094ce0a7eb5b7284b705147a822f4ffbd471f971a"); I 1643235300000;
            Constr 8 [Constr 130 [I 123; Bs (hx "31323334"); List [I 4; I 5; I 6];
                                  Map [(I 1, Bs (hx "31")); (I 2, Bs (hx "32"))]]];
            Constr 9 []].
Example fixture_bytes :
  plutus_bytes fix_d = hx "d87a9f581cc2ff616e11299d9094ce0a7eb5b7284b705147a822f4ffbd471f971a1b0000017e9874d2a0d905019fd8668218829f187b44313233349f040506ffa2014131024132ffffd9050280ff".
Proof. vm_compute. reflexivity. Qed.

Lemma fix_wf : wf (plutus_ref fix_d).
Proof. cbv. repeat split; try reflexivity; try discriminate. Qed.

Example ex_raw_build : to_cbor (PRaw (pynorm (raw_canon fix_d))) = Ok (plutus_bytes fix_d).
Proof. apply raw_build_canon; reflexivity. Qed.
Example ex_raw_reenc : m_dec fix_d = Ok (plutus_bytes fix_d).
Proof. apply raw_reenc; try reflexivity. apply fix_wf. Qed.
Example ex_raw_todict : m_todict fix_d = Ok (json_of fix_d).
Proof. apply raw_todict; try reflexivity. apply fix_wf. Qed.
Example ex_raw_json : m_json_rt fix_d = OB (Ok (plutus_bytes fix_d)).
Proof. apply raw_json_route; try reflexivity. apply fix_wf. Qed.

(* the same content as typed dataclasses: VestingParam(beneficiary, deadline, testa: Union[BigTest, LargestTest], testb) *)
Definition T_test := TCls 130 [TInt; TBytes; TList TInt; TDict TInt TBytes].
Definition T_big := TCls 8 [T_test].
Definition T_largest := TCls 9 [].
Definition T_vest := [TBytes; TInt; TUnion [T_big; T_largest]; TUnion [T_big; T_largest]].
Definition fix_x (lst : pv) : pv :=
  PObj 1 T_vest
    [PBytes (hx "c2ff616e11299d9094ce0a7eb5b7284b705147a822f4ffbd471f971a"); PInt 1643235300000;
     PObj 8 [T_test] [PObj 130 [TInt; TBytes; TList TInt; TDict TInt TBytes]
                        [PInt 123; PBytes (hx "31323334"); lst;
                         PDict [(PInt 1, PBytes (hx "31")); (PInt 2, PBytes (hx "32"))]]];
     PObj 9 [] []].
Example ex_typed_abs : abs (fix_x (PIList [PInt 4; PInt 5; PInt 6])) = fix_d.
Proof. reflexivity. Qed.
Example ex_typed_enc : to_cbor (fix_x (PIList [PInt 4; PInt 5; PInt 6])) = Ok (plutus_bytes fix_d).
Proof. apply (typed_enc (fix_x (PIList [PInt 4; PInt 5; PInt 6]))); reflexivity. Qed.
Example ex_typed_rt :
  let x := fix_x (PList []) in
  typed_from_cbor 1 T_vest (plutus_bytes (abs x)) = Ok x /\ to_cbor x = Ok (plutus_bytes (abs x)).
Proof. apply typed_rt; try reflexivity. cbv. repeat split; try reflexivity; try discriminate. Qed.

(* ----- witnesses: the property fails on the pinned tree in each known region (model evaluated by vm_compute;
   the same inputs are replayed on the implementation by the correspondence run) ----- *)
Definition differs (r : res bytes) (d : data) : Prop := exists bs, r = Ok bs /\ bs <> plutus_bytes d.
Ltac witness := eexists; split; [vm_compute; reflexivity | vm_compute; discriminate].

Definition b65 : bytes := repeat x01 65.
Lemma chunk_refuted : differs (m_dec (List [Bs b65])) (List [Bs b65]).
Proof. witness. Qed.
Lemma json_nested_refuted : differs (m_fromdict (List [Constr 0 [I 1]])) (List [Constr 0 [I 1]]).
Proof. witness. Qed.
Lemma json_empty_list_refuted : differs (m_fromdict (Constr 0 [List []])) (Constr 0 [List []]).
Proof. witness. Qed.
Lemma json_empty_102_refuted : differs (m_fromdict (Constr 200 [])) (Constr 200 []).
Proof. witness. Qed.
Lemma untag_refuted : untag 1500 0 = UWhole 227 /\ untag_spec 1500 0 = URaise /\ tag_spec 227 = None.
Proof. vm_compute. auto. Qed.
Lemma top_empty_list_refuted : raw_from_cbor (plutus_bytes (List [])) = Err E_Deser.
Proof. vm_compute. reflexivity. Qed.
Lemma top_bytestring_refuted : m_fromdict (Bs (repeat x01 33)) = Err E_Type.
Proof. vm_compute. reflexivity. Qed.
Lemma key_decode_refuted : m_dec (Map [(Constr 0 [I 1], I 1)]) = Err E_Type.
Proof. vm_compute. reflexivity. Qed.
Lemma key_build_refuted : m_fromdict (Map [(Constr 0 [], I 1)]) = Err E_Type.
Proof. vm_compute. reflexivity. Qed.
Lemma key_list_to_dict_refuted : m_todict (Map [(List [], I 1)]) = Err E_Type.
Proof. vm_compute. reflexivity. Qed.
Lemma dup_keys_refuted : differs (m_dec (Map [(I 1, I 2); (I 1, I 3)])) (Map [(I 1, I 2); (I 1, I 3)]).
Proof. witness. Qed.
Lemma bigint_refuted : differs (m_dec (List [I (2 ^ 512)])) (List [I (2 ^ 512)]).
Proof. witness. Qed.
Lemma norecurse_build_refuted : differs (to_cbor (PRaw (raw_py_top (List [List [I 1]])))) (List [List [I 1]]).
Proof. witness. Qed.

Definition x_pylist := PObj 1 [TList TInt] [PList [PInt 1; PInt 2]].
Definition x_ilist := PObj 1 [TList TInt] [PIList [PInt 1; PInt 2]].
Lemma typed_pylist_refuted : differs (to_cbor x_pylist) (abs x_pylist).
Proof. witness. Qed.
Lemma typed_empty_ilist_refuted : differs (to_cbor (PObj 1 [TList TInt] [PIList []])) (Constr 1 [List []]).
Proof. witness. Qed.
Lemma typed_list_rt_refuted :
  to_cbor x_ilist = Ok (plutus_bytes (abs x_ilist)) /\
  differs (do y <- typed_from_cbor 1 [TList TInt] (plutus_bytes (abs x_ilist)); to_cbor y) (abs x_ilist).
Proof. split; [vm_compute; reflexivity | witness]. Qed.
Lemma typed_json_bytes_refuted :
  let x := PObj 0 [TBStr] [PBStr [x61]] in
  to_cbor x = Ok (plutus_bytes (abs x)) /\
  (do j <- t_dict x; do y <- t_undict false 0 [TBStr] j; to_cbor y) = Err E_Type.
Proof. split; vm_compute; reflexivity. Qed.
Lemma typed_json_nested_refuted :
  let x := PObj 5 [TList (TList (TCls 2 [TInt]))] [PIList [PIList [PObj 2 [TInt] [PInt 3]]]] in
  to_cbor x = Ok (plutus_bytes (abs x)) /\
  (do j <- t_dict x; do y <- t_undict false 5 [TList (TList (TCls 2 [TInt]))] j; to_cbor y) = Err E_Deser.
Proof. split; vm_compute; reflexivity. Qed.
Lemma typed_long_in_container_refuted :
  let x := PObj 1 [TList TBytes] [PIList [PBytes b65]] in validate x = true /\ differs (to_cbor x) (abs x).
Proof. split; [vm_compute; reflexivity | witness]. Qed.
Lemma typed_to_dict_tag_refuted : t_dict (PObj 3 [TIList] [PIList [PTag 121 (PList [])]]) = Err E_Type.
Proof. vm_compute. reflexivity. Qed.
Lemma typed_datum_chunk_refuted :
  let x := PObj 3 [TIList] [PIList [PBStr b65]] in
  to_cbor x = Ok (plutus_bytes (abs x)) /\
  differs (do y <- typed_from_cbor 3 [TIList] (plutus_bytes (abs x)); to_cbor y) (abs x).
Proof. split; [vm_compute; reflexivity | witness]. Qed.

(* corollaries stated in props/C18.v *)
Lemma hash_preserved (H : bytes -> bytes) d :
  wf (plutus_ref d) -> top_not_empty_list d = true -> hollow_keys d = true -> nodup_keys d = true ->
  ints_ok d = true -> no_long_bytes d = true ->
  (do b <- m_dec d; Ok (H b)) = Ok (H (plutus_bytes d)).
Proof. intros W Ht Hh Hn Hi Hl. now rewrite raw_reenc. Qed.

Lemma json_partial d :
  jsound d = true -> ints_ok d = true -> atom_keys d = true -> nodup_keys d = true -> top_bytes_le 32 d = true ->
  m_fromdict d = Ok (plutus_bytes d)
  /\ (wf (plutus_ref d) -> top_not_empty_list d = true -> m_json_rt d = OB (Ok (plutus_bytes d))).
Proof.
  intros Hj Hi Ha Hn Hb. split; [now apply raw_fromdict|]. intros W Ht. now apply raw_json_route.
Qed.

(* ================================================================== to_dict of typed objects *)
Lemma r_dict_canon : forall d, no_list_keys d = true -> r_dict (raw_canon d) = Ok (json_of d).
Proof.
  unfold no_list_keys.
  induction d as [i fs IH|kvs IH|xs IH|z|b] using data_ind'; intros H.
  - apply all_nodes_constr in H as [_ Hf].
    assert (M : mapM r_dict (map raw_canon fs) = Ok (map json_of fs)).
    { apply mapM_map2. exact (Forall_mp _ _ _ IH Hf). }
    cbn [raw_canon json_of]. destruct (tag_spec i) as [t|] eqn:T.
    + apply r_dict_tag_seq; [now apply untag_tag | exact M].
    + cbn [r_dict]. change (untag 102 (lenN [PInt (Z.of_N i); seqv (map raw_canon fs)])) with UPair. cbv iota.
      destruct fs as [|f fs]; cbn [map seqv]; cbn [map] in M.
      * destruct (Z.of_N i <? 0)%Z eqn:Q; [bconv; lia|]. cbn [mapM bind]. now rewrite N2Z.id.
      * destruct (Z.of_N i <? 0)%Z eqn:Q; [bconv; lia|]. rewrite M. cbn [bind]. now rewrite N2Z.id.
  - apply all_nodes_map in H as [Hk Hf]. cbn [raw_canon json_of r_dict].
    rewrite (mapM_map2 _ _ (fun kv => (json_of (fst kv), json_of (snd kv)))); [reflexivity|].
    cbn [n_no_list_keys] in Hk. rewrite forallb_Forall in Hk.
    induction IH as [|kv kvs [H1 H2] _ IHk]; inversion Hf as [|? ? [F1 F2] Hf']; inversion Hk as [|? ? K1 Hk'];
      subst; constructor; auto.
    cbn [fst snd]. rewrite H2 by assumption. cbn [bind].
    assert (E : match raw_canon (fst kv) with PList _ => Err E_Type | _ => r_dict (raw_canon (fst kv)) end
                = r_dict (raw_canon (fst kv))).
    { destruct (fst kv) as [i fs|kvs'|xs|z|b]; cbn [raw_canon]; try reflexivity; [| discriminate |].
      - destruct (tag_spec i); reflexivity.
      - destruct (length b <=? 64)%nat; reflexivity. }
    rewrite E, H1 by assumption. reflexivity.
  - apply all_nodes_list in H as [_ Hf]. cbn [raw_canon json_of].
    assert (M : mapM r_dict (map raw_canon xs) = Ok (map json_of xs)).
    { apply mapM_map2. exact (Forall_mp _ _ _ IH Hf). }
    destruct xs as [|x xs]; [reflexivity|]. cbn [seqv map]. cbn [map] in M. cbn [r_dict]. now rewrite M.
  - reflexivity.
  - cbn [raw_canon json_of]. destruct (length b <=? 64)%nat; reflexivity.
Qed.

Lemma typed_todict : forall v,
  canon_typed v = true -> no_tag_outside_raw v = true -> vshape v_raw_nolistkeys v = true ->
  t_dict v = Ok (json_of (abs v)).
Proof.
  unfold canon_typed, no_tag_outside_raw.
  induction v as [z|b|b|xs IH|xs IH|kvs IH|t v IH|id fts fs IH|w IH] using pv_ind'; cbn [vshape]; intros H Ht Hk;
    apply andb_true_iff in H as [Hn Hc]; apply andb_true_iff in Ht as [Ht Htc]; apply andb_true_iff in Hk as [Hk Hkc];
    try reflexivity; try discriminate.
  - rewrite forallb_Forall in Hc, Htc, Hkc. cbn [t_dict abs json_of].
    rewrite (mapM_map _ (fun y => json_of (abs y))) by exact (Forall_mp _ _ _ (Forall_mp _ _ _ (Forall_mp _ _ _ IH Hc) Htc) Hkc).
    cbn [bind]. now rewrite map_map.
  - rewrite forallb_Forall in Hc, Htc, Hkc. cbn [t_dict abs json_of].
    rewrite (mapM_map _ (fun y => json_of (abs y))) by exact (Forall_mp _ _ _ (Forall_mp _ _ _ (Forall_mp _ _ _ IH Hc) Htc) Hkc).
    cbn [bind]. now rewrite map_map.
  - rewrite forallb_Forall in Hc, Htc, Hkc. cbn [t_dict abs json_of].
    rewrite (mapM_map _ (fun kv => (json_of (abs (fst kv)), json_of (abs (snd kv))))).
    + cbn [bind]. now rewrite map_map.
    + clear -IH Hc Htc Hkc.
      induction IH as [|kv kvs [H1 H2] _ IHk]; inversion Hc as [|? ? C1 Hc']; inversion Htc as [|? ? T1 Htc'];
        inversion Hkc as [|? ? K1 Hkc']; subst; constructor; auto.
      apply andb_true_iff in C1 as [C1 C2]. apply andb_true_iff in T1 as [T1 T2]. apply andb_true_iff in K1 as [K1 K2].
      cbn [fst snd]. rewrite H1, H2 by assumption. reflexivity.
  - rewrite forallb_Forall in Hc, Htc, Hkc. cbn [t_dict abs json_of].
    rewrite (mapM_map _ (fun y => json_of (abs y))) by exact (Forall_mp _ _ _ (Forall_mp _ _ _ (Forall_mp _ _ _ IH Hc) Htc) Hkc).
    cbn [bind]. now rewrite map_map.
  - unfold n_typed in Hn. repeat (apply andb_true_iff in Hn as [Hn ?]).
    match goal with Hr : v_rawc (PRaw w) = true |- _ => cbn [v_rawc] in Hr; apply rawc_elim in Hr as (E & Hi & Hd) end.
    cbn [v_raw_nolistkeys] in Hk. cbn [t_dict abs]. rewrite E at 1. rewrite r_to_prim_canon by assumption.
    now apply r_dict_canon.
Qed.

(* ----- more non-vacuity examples ----- *)
Example ex_raw_build_py : to_cbor (PRaw (pynorm (raw_py_top fix_d))) = Ok (plutus_bytes fix_d).
Proof. apply raw_build_py; reflexivity. Qed.
Example ex_long_guard : mk_obj 1 [TBytes] [PBytes b65] = Err E_InvArg.
Proof. apply (long_guard 1 [TBytes] [PBytes b65] b65); cbn; auto; lia. Qed.
Example ex_raw_region_sound : forall route, (route <= 8)%nat -> raw_model route fix_d = raw_expect route fix_d.
Proof.
  intros route H. apply raw_region_sound; [apply fix_wf | exact H |].
  destruct route as [|[|[|[|[|[|[|[|[|]]]]]]]]]; try lia; reflexivity.
Qed.
Example ex_typed_region_sound :
  typed_model 0 false (TCls 1 T_vest) (fix_x (PIList [PInt 4; PInt 5; PInt 6]))
  = typed_expect 0 (fix_x (PIList [PInt 4; PInt 5; PInt 6])).
Proof. apply typed_region_sound; [lia | reflexivity | reflexivity]. Qed.
Example ex_typed_todict : t_dict (fix_x (PIList [PInt 4; PInt 5; PInt 6])) = Ok (json_of fix_d).
Proof. apply (typed_todict (fix_x (PIList [PInt 4; PInt 5; PInt 6]))); reflexivity. Qed.

(* ----- map keys that are class instances (shapes of the Plutus script context: Map Credential Integer,
   a map keyed by a general-form constructor).  The expected bytes were produced by an independent encoder
   (PlutusCore.Data.encodeData transcribed to Python): the field list of a constructor used as a KEY is written
   with indefinite length like anywhere else ----- *)
Definition T_slot := TCls 1000 [TInt; TInt].
Definition T_cred := TCls 0 [TBytes].
Definition x_objkey : pv :=
  PObj 9 [TDict T_slot TIList; TDict T_cred TInt]
    [PDict [(PObj 1000 [TInt; TInt] [PInt 400; PInt 7], PIList [PInt 1; PInt 2]);
            (PObj 1000 [TInt; TInt] [PInt 3; PInt 4294967296], PIList [PBytes (hx "78")])];
     PDict [(PObj 0 [TBytes] [PBytes (repeat x03 28)], PInt (-1));
            (PObj 0 [TBytes] [PBytes (repeat x11 28)], PInt 3)]].
Definition objkey_bytes : bytes :=
  hx "d905029fa2d866821903e89f19019007ff9f0102ffd866821903e89f031b0000000100000000ff9f4178ffa2d8799f581c03030303030303030303030303030303030303030303030303030303ff20d8799f581c11111111111111111111111111111111111111111111111111111111ff03ff".
Example objkey_anchor :
  canon_typed x_objkey = true /\ validate x_objkey = true
  /\ plutus_bytes (abs x_objkey) = objkey_bytes /\ to_cbor x_objkey = Ok objkey_bytes.
Proof.
  assert (C : canon_typed x_objkey = true) by reflexivity.
  assert (V : validate x_objkey = true) by reflexivity.
  assert (B : plutus_bytes (abs x_objkey) = objkey_bytes) by (vm_compute; reflexivity).
  split; [exact C|]. split; [exact V|]. split; [exact B|]. rewrite <- B. now apply typed_enc.
Qed.
(* the JSON route of the same object, and a key without fields through from_cbor *)
Example ex_objkey_json :
  (do j <- t_dict x_objkey; do y <- t_undict false 9 [TDict T_slot TIList; TDict T_cred TInt] j; to_cbor y) = Ok objkey_bytes.
Proof. vm_compute. reflexivity. Qed.
Example ex_objkey_hollow_rt :
  let x := PObj 5 [TDict (TCls 2 []) TInt] [PDict [(PObj 2 [] [], PInt 1)]] in
  typed_from_cbor 5 [TDict (TCls 2 []) TInt] (plutus_bytes (abs x)) = Ok x /\ to_cbor x = Ok (plutus_bytes (abs x)).
Proof. apply typed_rt; try reflexivity. vm_compute. auto 10. Qed.
(* a key with fields cannot be read back (known region map-key-unhashable-decode): the decoder cannot hash it *)
Example ex_objkey_decode_refuted :
  typed_from_cbor 9 [TDict T_slot TIList; TDict T_cred TInt] objkey_bytes = Err E_Type.
Proof. vm_compute. reflexivity. Qed.

(* ================================================================== long-bytes guard, whatever the declared type *)
Definition long_bytes (v : pv) : bool := match v with PBytes b => (64 <? length b)%nat | _ => false end.

Lemma long_bytes_exists vals :
  existsb long_bytes vals = true <-> exists b, In (PBytes b) vals /\ (64 < length b)%nat.
Proof.
  rewrite existsb_exists. split.
  - intros (v & Hin & Hl). destruct v; try discriminate. exists b. split; [assumption|]. unfold long_bytes in Hl. bconv. lia.
  - intros (b & Hin & Hl). exists (PBytes b). split; [assumption|]. unfold long_bytes. destruct (64 <? length b)%nat eqn:F; [reflexivity | bconv; lia].
Qed.

Lemma guard_iff id fts vals :
  (length fts <= length vals)%nat ->
  (mk_obj id fts vals = Err E_InvArg <-> exists b, In (PBytes b) vals /\ (64 < length b)%nat)
  /\ (mk_obj id fts vals = Ok (PObj id fts vals) <-> ~ exists b, In (PBytes b) vals /\ (64 < length b)%nat).
Proof.
  intros Hl. rewrite <- long_bytes_exists. unfold mk_obj.
  destruct (length vals <? length fts)%nat eqn:Q; [bconv; lia|].
  change (fun v => match v with PBytes b => (64 <? length b)%nat | _ => false end) with long_bytes.
  destruct (existsb long_bytes vals); split; split; intros H; try reflexivity; try discriminate; try congruence.
Qed.

(* guard_ok (the oracle's premise) is the constructor's answer at every object node *)
Lemma guard_ok_obj id fts fs :
  (length fts <= length fs)%nat ->
  guard_ok (PObj id fts fs) = negb (existsb long_bytes fs) && forallb guard_ok fs
  /\ (existsb long_bytes fs = true -> mk_obj id fts fs = Err E_InvArg)
  /\ (existsb long_bytes fs = false -> mk_obj id fts fs = Ok (PObj id fts fs)).
Proof.
  intros Hl. split; [reflexivity|]. unfold mk_obj.
  destruct (length fs <? length fts)%nat eqn:Q; [bconv; lia|].
  change (fun v => match v with PBytes b => (64 <? length b)%nat | _ => false end) with long_bytes.
  split; intros ->; reflexivity.
Qed.

(* why the guard is needed: an object holding plain bytes over 64 bytes in a field -- of whatever declared type --
   cannot encode to the reference bytes of its content: cbor2 writes the value as ONE definite string where the
   ledger codec writes 64-byte chunks *)
Lemma mapM_pointwise {A B} (f : A -> res B) (g : A -> B) l :
  mapM f l = Ok (map g l) -> forall x, In x l -> f x = Ok (g x).
Proof.
  induction l as [|a l IH]; cbn [mapM map]; intros H x Hin; [destruct Hin|].
  destruct (f a) as [y|] eqn:Fa; [|discriminate]. destruct (mapM f l) as [ys|] eqn:Fl; [|discriminate].
  injection H as E1 E2. subst y ys. destruct Hin as [<-|Hin]; [assumption|]. now apply IH.
Qed.

Lemma mapM_length {A B} (f : A -> res B) l ys : mapM f l = Ok ys -> length ys = length l.
Proof.
  revert ys. induction l as [|a l IH]; cbn [mapM]; intros ys H; [injection H as <-; reflexivity|].
  destruct (f a); [|discriminate]. destruct (mapM f l) as [zs|] eqn:Fl; [|discriminate].
  injection H as <-. cbn. f_equal. now apply IH.
Qed.

Lemma guard_needed id fts fs b c :
  In (PBytes b) fs -> (64 < length b)%nat ->
  dumps (to_prim (PObj id fts fs)) = Ok c -> wf c -> wf (plutus_ref (abs (PObj id fts fs))) ->
  enc c <> plutus_bytes (abs (PObj id fts fs)).
Proof.
  intros Hin Hb Hd Wc Wr E. unfold plutus_bytes in E. apply enc_inj in E; [|assumption|assumption]. subst c.
  assert (Hne : fs <> []) by (intros ->; destruct Hin).
  assert (K : mapM dumps (map to_prim fs) = Ok (map plutus_ref (map abs fs))).
  { cbn [to_prim abs plutus_ref] in Hd. rewrite get_tag_spec in Hd.
    destruct fs as [|f0 fr]; [congruence|]. cbn [map] in Hd. cbn [map].
    destruct (tag_spec id) as [t|].
    - cbn [dumps] in Hd. revert Hd. destruct (mapM dumps (to_prim f0 :: map to_prim fr)) as [ys|] eqn:M;
        cbn [bind ref_seq]; intros Hd; [|discriminate]. congruence.
    - cbn [dumps] in Hd. cbn [mapM] in Hd. cbn [dumps] in Hd. revert Hd.
      destruct (mapM dumps (to_prim f0 :: map to_prim fr)) as [ys|] eqn:M; cbn [bind ref_seq]; intros Hd; [|discriminate].
      congruence. }
  rewrite !map_map in K.
  assert (K' : mapM (fun v => dumps (to_prim v)) fs = Ok (map (fun v => plutus_ref (abs v)) fs)).
  { clear -K. revert K. generalize (map (fun v => plutus_ref (abs v)) fs) as out. induction fs as [|a l IH]; cbn [map mapM]; intros out K; [assumption|].
    destruct (dumps (to_prim a)); [|assumption]. destruct (mapM dumps (map to_prim l)) as [ys|] eqn:Fl.
    - rewrite (IH ys eq_refl). assumption.
    - discriminate. }
  pose proof (mapM_pointwise _ _ _ K' _ Hin) as P. cbn [to_prim dumps abs plutus_ref] in P.
  unfold ref_bytes in P. destruct (length b <=? 64)%nat eqn:L; [bconv; lia|]. discriminate.
Qed.

(* ================================================================== postponed annotations and from_dict *)
Section JsonInd.
  Variable P : json -> Prop.
  Hypothesis HI : forall z, P (JInt z).
  Hypothesis HB : forall b, P (JBytes b).
  Hypothesis HL : forall xs, Forall P xs -> P (JList xs).
  Hypothesis HM : forall kvs, Forall (fun kv => P (fst kv) /\ P (snd kv)) kvs -> P (JMap kvs).
  Hypothesis HC : forall i fs, Forall P fs -> P (JCon i fs).
  Fixpoint json_ind' (j : json) : P j :=
    match j with
    | JInt z => HI z
    | JBytes b => HB b
    | JList xs => HL xs ((fix go (l : list json) : Forall P l :=
                     match l with [] => Forall_nil _ | y :: r => Forall_cons _ (json_ind' y) (go r) end) xs)
    | JMap kvs => HM kvs ((fix go (l : list (json * json)) : Forall (fun kv => P (fst kv) /\ P (snd kv)) l :=
                     match l with
                     | [] => Forall_nil _
                     | kv :: r => Forall_cons _ (conj (json_ind' (fst kv)) (json_ind' (snd kv))) (go r)
                     end) kvs)
    | JCon i fs => HC i fs ((fix go (l : list json) : Forall P l :=
                     match l with [] => Forall_nil _ | y :: r => Forall_cons _ (json_ind' y) (go r) end) fs)
    end.
End JsonInd.

Lemma mapM_ext_Forall {A B} (f g : A -> res B) l : Forall (fun x => f x = g x) l -> mapM f l = mapM g l.
Proof. induction 1 as [|x l E _ IH]; cbn [mapM]; [reflexivity|]. now rewrite E, IH. Qed.

Lemma erase_atomic fts : forallb atomic_ty fts = true -> map erase_ty fts = fts.
Proof.
  induction fts as [|t r IH]; cbn [forallb map]; intros H; [reflexivity|]. apply andb_true_iff in H as [Ht Hr].
  unfold erase_ty at 1. rewrite Ht. f_equal. now apply IH.
Qed.

(* a class whose fields are all declared int / bytes / ByteString / IndefiniteList: from_dict does not depend on
   whether the annotations are strings *)
Lemma t_undict_pp_atomic : forall j id fts,
  forallb atomic_ty fts = true -> t_undict true id fts j = t_undict false id fts j.
Proof.
  induction j as [z|b|xs IH|kvs IH|i fs IH] using json_ind'; intros id fts Ha; cbn [t_undict]; try reflexivity.
  - f_equal. apply mapM_ext_Forall. eapply Forall_impl; [|exact IH]. intros x Hx. now apply Hx.
  - f_equal. apply mapM_ext_Forall. eapply Forall_impl; [|exact IH]. intros [k v] [Hk Hv]. cbn [fst snd] in *.
    now rewrite (Hk id fts Ha), (Hv id fts Ha).
  - destruct (negb (i =? id)); [reflexivity|]. f_equal.
    match goal with |- ?F fs fts = ?F' fs fts =>
      assert (G : forall ts, forallb atomic_ty ts = true -> F fs ts = F' fs ts) end.
    { induction IH as [|f fr Hf _ IHr]; intros ts Hts; [reflexivity|]. destruct ts as [|t tr]; [reflexivity|].
      cbn [forallb] in Hts. apply andb_true_iff in Hts as [Ht Htr]. rewrite (IHr tr Htr).
      cbv iota. unfold erase_ty. rewrite Ht. destruct t; try discriminate Ht; now rewrite (Hf id fts Ha). }
    now rewrite (G fts Ha).
Qed.

Lemma typed_model_pp_atomic route id fts x :
  forallb atomic_ty fts = true -> typed_model route true (TCls id fts) x = typed_model route false (TCls id fts) x.
Proof.
  intros Ha. unfold typed_model. cbn [cls_of].
  destruct route as [|[|[|[|[|[|[|[|[|[|]]]]]]]]]]; try reflexivity;
    (destruct (t_dict (pynorm x)) as [j|]; [|reflexivity]); now rewrite t_undict_pp_atomic.
Qed.

(* ----- witnesses: the guard refuses long bytes in a Union / Datum / Dict[..] field exactly as in a bytes field; were
   the object to exist it would pass validate() and write other bytes than the ledger codec; decoding the
   reference bytes of that content with the class is refused as well ----- *)
Definition T_in := TCls 1 [TInt].
Definition guard_witness (ft : ty) : Prop :=
  mk_obj 0 [ft] [PBytes b65] = Err E_InvArg
  /\ validate (PObj 0 [ft] [PBytes b65]) = true
  /\ differs (to_cbor (PObj 0 [ft] [PBytes b65])) (Constr 0 [Bs b65]).
Lemma guard_witnesses :
  guard_witness TBytes /\ guard_witness TDatum /\ guard_witness (TUnion [TBytes; T_in])
  /\ guard_witness (TUnion [T_in; TBytes]) /\ guard_witness (TDict TInt TInt).
Proof. repeat split; try (vm_compute; reflexivity); witness. Qed.
Lemma guard_decode_witnesses :
  typed_from_cbor 0 [TBytes] (plutus_bytes (Constr 0 [Bs b65])) = Err E_InvArg
  /\ typed_from_cbor 0 [TDatum] (plutus_bytes (Constr 0 [Bs b65])) = Err E_InvArg
  /\ typed_from_cbor 0 [TUnion [T_in; TBytes]] (plutus_bytes (Constr 0 [Bs b65])) = Err E_InvArg
  /\ typed_from_cbor 0 [TUnion [TBStr; T_in]] (plutus_bytes (Constr 0 [Bs b65])) = Ok (PObj 0 [TUnion [TBStr; T_in]] [PBStr b65]).
Proof. repeat split; vm_compute; reflexivity. Qed.
Example ex_guard_iff : mk_obj 0 [TDatum; TInt] [PBytes b65; PInt 1] = Err E_InvArg
                       /\ mk_obj 0 [TDatum; TInt] [PBytes [x61]; PInt 1] = Ok (PObj 0 [TDatum; TInt] [PBytes [x61]; PInt 1]).
Proof.
  split.
  - apply (guard_iff 0 [TDatum; TInt] [PBytes b65; PInt 1]); [cbn; lia|]. exists b65. split; [now left | cbn; lia].
  - apply (guard_iff 0 [TDatum; TInt] [PBytes [x61]; PInt 1]); [cbn; lia|].
    intros (b & [E|[E|[]]] & Hl); [injection E as <-; cbn in Hl; lia | discriminate E].
Qed.
Lemma wf_guard_c : wf (CTag 121 (CAi [CB b65])).
Proof. vm_compute. repeat split; reflexivity. Qed.
Lemma chunks_b65 : chunks 64 b65 = [repeat x01 64; [x01]].
Proof. vm_compute. reflexivity. Qed.
Lemma wf_guard_ref : wf (plutus_ref (abs (PObj 0 [TDatum] [PBytes b65]))).
Proof.
  change (wf (CTag 121 (CAi [CBi (chunks 64 b65)]))). rewrite chunks_b65.
  split; [reflexivity|]. split; [|exact Logic.I]. cbn [wf].
  constructor; [vm_compute; reflexivity|]. constructor; [vm_compute; reflexivity|]. constructor.
Qed.
Example ex_guard_needed :
  let x := PObj 0 [TDatum] [PBytes b65] in
  exists c, dumps (to_prim x) = Ok c /\ wf c /\ wf (plutus_ref (abs x)) /\ enc c <> plutus_bytes (abs x).
Proof.
  exists (CTag 121 (CAi [CB b65])). split; [vm_compute; reflexivity|].
  split; [exact wf_guard_c|]. split; [exact wf_guard_ref|].
  apply (guard_needed 0 [TDatum] [PBytes b65] b65); [now left | cbn; lia | vm_compute; reflexivity | exact wf_guard_c | exact wf_guard_ref].
Qed.

(* ----- refuted on the pinned tree: the JSON route of a Union field holding a primitive, and of a class declared
   under postponed annotations with a class-typed field (before any from_cbor call) ----- *)
Lemma typed_json_union_prim_refuted :
  let x := PObj 0 [TUnion [TBytes; T_in]] [PBytes [x61]] in
  let y := PObj 0 [TUnion [TBytes; TInt]] [PBytes [x61]] in
  to_cbor x = Ok (plutus_bytes (abs x))
  /\ (do j <- t_dict x; do z <- t_undict false 0 [TUnion [TBytes; T_in]] j; to_cbor z) = Err E_Key
  /\ to_cbor y = Ok (plutus_bytes (abs y))
  /\ (do j <- t_dict y; do z <- t_undict false 0 [TUnion [TBytes; TInt]] j; to_cbor z) = Err E_Deser.
Proof. repeat split; vm_compute; reflexivity. Qed.
Lemma typed_json_postponed_refuted :
  let x := PObj 0 [T_in] [PObj 1 [TInt] [PInt 1]] in
  to_cbor x = Ok (plutus_bytes (abs x))
  /\ (do j <- t_dict x; do z <- t_undict false 0 [T_in] j; to_cbor z) = Ok (plutus_bytes (abs x))
  /\ (do j <- t_dict x; do z <- t_undict true 0 [T_in] j; to_cbor z) = Err E_Deser.
Proof. repeat split; vm_compute; reflexivity. Qed.
Example ex_pp_atomic :
  let x := PObj 7 [TInt; TBStr; TIList] [PInt 1; PBStr b65; PIList [PInt 2]] in
  typed_model 5 true (TCls 7 [TInt; TBStr; TIList]) x = OB (Ok (plutus_bytes (abs x))).
Proof. cbv zeta. rewrite typed_model_pp_atomic by reflexivity. vm_compute. reflexivity. Qed.
