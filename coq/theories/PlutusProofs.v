(* PlutusProofs.v — C18 proofs: tag bijection, raw / JSON / typed routes against plutus_ref. *)
From Coq Require Import NArith ZArith Ascii String List Bool Lia ZifyBool ZifyN ZifyNat.
From Coq Require Import Init.Byte.
From PyC Require Import Base Cbor CborProofs Plutus PlutusOracle.
Import ListNotations.
Open Scope string_scope.
Open Scope list_scope.
Open Scope N_scope.

(* ================================================================== generic helpers *)
Lemma mapM_map {A B} (f : A -> res B) (g : A -> B) l :
  Forall (fun x => f x = Ok (g x)) l -> mapM f l = Ok (map g l).
Proof. induction 1 as [|x l H _ IH]; cbn; [reflexivity|]. now rewrite H, IH. Qed.

Lemma Forall_mp {A} (P Q : A -> Prop) l : Forall (fun x => P x -> Q x) l -> Forall P l -> Forall Q l.
Proof. induction 1; intros F; inversion F; subst; constructor; auto. Qed.

Lemma forallb_Forall {A} (p : A -> bool) l : forallb p l = true <-> Forall (fun x => p x = true) l.
Proof. rewrite forallb_forall, Forall_forall. reflexivity. Qed.

Lemma map_ext_Forall {A B} (f g : A -> B) l : Forall (fun x => f x = g x) l -> map f l = map g l.
Proof. induction 1; cbn; congruence. Qed.

Lemma map_id_Forall {A} (f : A -> A) l : Forall (fun x => f x = x) l -> map f l = l.
Proof. induction 1; cbn; congruence. Qed.

Ltac bconv := repeat match goal with
  | H : N.ltb _ _ = true |- _ => apply N.ltb_lt in H
  | H : N.ltb _ _ = false |- _ => apply N.ltb_ge in H
  | H : N.leb _ _ = true |- _ => apply N.leb_le in H
  | H : N.leb _ _ = false |- _ => apply N.leb_gt in H
  | H : N.eqb _ _ = true |- _ => apply N.eqb_eq in H
  | H : N.eqb _ _ = false |- _ => apply N.eqb_neq in H
  | H : Z.ltb _ _ = true |- _ => apply Z.ltb_lt in H
  | H : Z.ltb _ _ = false |- _ => apply Z.ltb_ge in H
  | H : Z.leb _ _ = true |- _ => apply Z.leb_le in H
  | H : Z.leb _ _ = false |- _ => apply Z.leb_gt in H
  | H : Z.eqb _ _ = true |- _ => apply Z.eqb_eq in H
  | H : Z.eqb _ _ = false |- _ => apply Z.eqb_neq in H
  | H : Nat.ltb _ _ = true |- _ => apply Nat.ltb_lt in H
  | H : Nat.ltb _ _ = false |- _ => apply Nat.ltb_ge in H
  | H : Nat.leb _ _ = true |- _ => apply Nat.leb_le in H
  | H : Nat.leb _ _ = false |- _ => apply Nat.leb_gt in H
  | H : andb _ _ = true |- _ => apply andb_true_iff in H; destruct H
  | H : andb _ _ = false |- _ => apply andb_false_iff in H
  | H : negb _ = true |- _ => apply negb_true_iff in H
  | H : negb _ = false |- _ => apply negb_false_iff in H
  end.
Ltac blia := bconv ; blia.

(* ================================================================== tags *)
Lemma get_tag_spec i : get_tag i = tag_spec i.
Proof. reflexivity. Qed.

Lemma tag_spec_some i t : tag_spec i = Some t ->
  (i < 7 /\ t = 121 + i) \/ (7 <= i < 128 /\ t = 1280 + (i - 7)).
Proof.
  unfold tag_spec. destruct (i <? 7) eqn:A.
  { intros H. assert (121 + i = t) by congruence. clear H. blia. }
  destruct (i <? 128) eqn:B; [|discriminate].
  intros H. assert (1280 + (i - 7) = t) by congruence. clear H. blia.
Qed.

Lemma tag_spec_none i : tag_spec i = None <-> 128 <= i.
Proof.
  unfold tag_spec. destruct (i <? 7) eqn:A; [split; [discriminate | blia]|].
  destruct (i <? 128) eqn:B; split; try discriminate; try blia; reflexivity.
Qed.

Lemma tag_spec_ranges i t : tag_spec i = Some t -> (121 <= t <= 127 \/ 1280 <= t <= 1400) /\ t <> 102.
Proof. intros H. apply tag_spec_some in H. blia. Qed.

Lemma tag_spec_inj i j t : tag_spec i = Some t -> tag_spec j = Some t -> i = j.
Proof. intros H1 H2. apply tag_spec_some in H1, H2. blia. Qed.

Lemma tag_spec_onto t : 121 <= t <= 127 \/ 1280 <= t <= 1400 -> exists i, tag_spec i = Some t.
Proof.
  intros [H|H].
  - exists (t - 121). unfold tag_spec. destruct (t - 121 <? 7) eqn:A; [f_equal ; blia | blia].
  - exists (t - 1280 + 7). unfold tag_spec.
    destruct (t - 1280 + 7 <? 7) eqn:A; [blia|]. destruct (t - 1280 + 7 <? 128) eqn:B; [f_equal ; blia | blia].
Qed.

Lemma untag_tag i t len : tag_spec i = Some t -> untag t len = UWhole i.
Proof.
  intros H. apply tag_spec_some in H. unfold untag.
  destruct (t =? 102) eqn:A; [blia|].
  destruct ((121 <=? t) && (t <? 128)) eqn:B; [f_equal ; blia|].
  destruct ((1280 <=? t) && (t <? 1536)) eqn:D; [f_equal ; blia | blia].
Qed.

Lemma untag_id_tag i t : tag_spec i = Some t -> untag_id t = i.
Proof.
  intros H. apply tag_spec_some in H. unfold untag_id.
  destruct ((121 <=? t) && (t <? 128)) eqn:B ; blia.
Qed.

Lemma untag_spec_tag i t len : tag_spec i = Some t -> untag_spec t len = UWhole i.
Proof.
  intros H. apply tag_spec_some in H. unfold untag_spec.
  destruct (t =? 102) eqn:A; [blia|].
  destruct ((121 <=? t) && (t <=? 127)) eqn:B; [f_equal ; blia|].
  destruct ((1280 <=? t) && (t <=? 1400)) eqn:D; [f_equal ; blia | blia].
Qed.

(* the ledger's decoder accepts exactly the image of tag_spec (and 102 with two items) *)
Lemma untag_spec_accepts t len i : untag_spec t len = UWhole i -> tag_spec i = Some t.
Proof.
  unfold untag_spec. destruct (t =? 102) eqn:A; [destruct (len =? 2); discriminate|].
  destruct ((121 <=? t) && (t <=? 127)) eqn:B.
  { intros H. assert (E : t - 121 = i) by congruence. clear H. subst i.
    unfold tag_spec. destruct (t - 121 <? 7) eqn:E; [f_equal; blia | blia]. }
  destruct ((1280 <=? t) && (t <=? 1400)) eqn:D; [|discriminate].
  intros H. assert (E : t - 1280 + 7 = i) by congruence. clear H. subst i.
  unfold tag_spec. destruct (t - 1280 + 7 <? 7) eqn:E; [blia|].
  destruct (t - 1280 + 7 <? 128) eqn:F; [f_equal; blia | blia].
Qed.

(* the pinned get_constructor_id_and_fields agrees with the ledger's on every tag up to 1400 and beyond 1535 *)
Lemma untag_sound t len : t <= 1400 \/ 1536 <= t -> untag t len = untag_spec t len.
Proof.
  intros H. unfold untag, untag_spec.
  destruct (t =? 102); [destruct (len =? 2); reflexivity|].
  destruct ((121 <=? t) && (t <? 128)) eqn:B, ((121 <=? t) && (t <=? 127)) eqn:B'; try blia; [reflexivity|].
  destruct ((1280 <=? t) && (t <? 1536)) eqn:D, ((1280 <=? t) && (t <=? 1400)) eqn:D'; try blia; reflexivity.
Qed.

(* ================================================================== all_nodes *)
Lemma all_nodes_and p q d : all_nodes (fun x => p x && q x) d = all_nodes p d && all_nodes q d.
Proof.
  induction d as [i fs IH|kvs IH|xs IH|z|b] using data_ind'; cbn [all_nodes].
  - assert (E : forallb (all_nodes (fun x => p x && q x)) fs = forallb (all_nodes p) fs && forallb (all_nodes q) fs).
    { induction IH as [|f fs Hf _ IHf]; cbn; [reflexivity|]. rewrite Hf, IHf. ring. }
    rewrite E. ring.
  - assert (E : forallb (fun kv => all_nodes (fun x => p x && q x) (fst kv) && all_nodes (fun x => p x && q x) (snd kv)) kvs
               = forallb (fun kv => all_nodes p (fst kv) && all_nodes p (snd kv)) kvs
                 && forallb (fun kv => all_nodes q (fst kv) && all_nodes q (snd kv)) kvs).
    { induction IH as [|f fs [Hk Hv] _ IHf]; cbn; [reflexivity|]. rewrite Hk, Hv, IHf. ring. }
    rewrite E. ring.
  - assert (E : forallb (all_nodes (fun x => p x && q x)) xs = forallb (all_nodes p) xs && forallb (all_nodes q) xs).
    { induction IH as [|f fs Hf _ IHf]; cbn; [reflexivity|]. rewrite Hf, IHf. ring. }
    rewrite E. ring.
  - ring.
  - ring.
Qed.

Lemma all_nodes_constr p i fs : all_nodes p (Constr i fs) = true ->
  p (Constr i fs) = true /\ Forall (fun f => all_nodes p f = true) fs.
Proof. cbn [all_nodes]. intros H. apply andb_true_iff in H as [H1 H2]. split; [assumption|]. now apply forallb_Forall. Qed.
Lemma all_nodes_list p xs : all_nodes p (List xs) = true ->
  p (List xs) = true /\ Forall (fun f => all_nodes p f = true) xs.
Proof. cbn [all_nodes]. intros H. apply andb_true_iff in H as [H1 H2]. split; [assumption|]. now apply forallb_Forall. Qed.
Lemma all_nodes_map p kvs : all_nodes p (Map kvs) = true ->
  p (Map kvs) = true /\ Forall (fun kv => all_nodes p (fst kv) = true /\ all_nodes p (snd kv) = true) kvs.
Proof.
  cbn [all_nodes]. intros H. apply andb_true_iff in H as [H1 H2]. split; [assumption|].
  apply forallb_Forall in H2. eapply Forall_impl; [|exact H2]. cbn. intros kv E. now apply andb_true_iff in E.
Qed.
