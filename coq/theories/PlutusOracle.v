(* PlutusOracle.v — C18: the routes of one generated case evaluated in the model, the property's decision
   procedure on the IMPLEMENTATION's outputs (bytes = enc (plutus_ref d), JSON = json_of d), the decidable
   premises of the theorems and the region (known defect) a failing route falls into. *)
From Coq Require Import NArith ZArith Ascii String List Bool Lia.
From Coq Require Import Init.Byte.
From PyC Require Import Base Cbor Plutus.
Import ListNotations.
Open Scope string_scope.
Open Scope list_scope.
Open Scope N_scope.

(* ---------- observations ---------- *)
Inductive out :=
| OB (r : res bytes)        (* bytes or exception kind *)
| OJ (r : res json)         (* to_dict result *)
| OF (b : bool)             (* a yes/no observation *)
| OT (r : res (option N))   (* get_tag *)
| OU (u : ures)             (* get_constructor_id_and_fields *)
| OSkip.                    (* route not run because an earlier step failed *)

Fixpoint json_eqb (a b : json) : bool :=
  match a, b with
  | JInt x, JInt y => (x =? y)%Z
  | JBytes x, JBytes y => bytes_eqb x y
  | JList xs, JList ys => list_eqb json_eqb xs ys
  | JMap xs, JMap ys => list_eqb (fun p q => json_eqb (fst p) (fst q) && json_eqb (snd p) (snd q)) xs ys
  | JCon i xs, JCon j ys => (i =? j) && list_eqb json_eqb xs ys
  | _, _ => false
  end.

Definition res_eqb {A} (f : A -> A -> bool) (a b : res A) : bool :=
  match a, b with
  | Ok x, Ok y => f x y
  | Err j, Err k => String.eqb j k
  | _, _ => false
  end.

Definition optN_eqb (a b : option N) : bool :=
  match a, b with Some x, Some y => x =? y | None, None => true | _, _ => false end.

Definition ures_eqb (a b : ures) : bool :=
  match a, b with
  | UPair, UPair | URaise, URaise | UBad, UBad => true
  | UWhole i, UWhole j => i =? j
  | _, _ => false
  end.

Definition out_eqb (a b : out) : bool :=
  match a, b with
  | OB x, OB y => res_eqb bytes_eqb x y
  | OJ x, OJ y => res_eqb json_eqb x y
  | OF x, OF y => Bool.eqb x y
  | OT x, OT y => res_eqb optN_eqb x y
  | OU x, OU y => ures_eqb x y
  | OSkip, OSkip => true
  | _, _ => false
  end.

(* ---------- decidable predicates on data ---------- *)
Fixpoint data_eqb (a b : data) : bool :=
  match a, b with
  | Constr i xs, Constr j ys => (i =? j) && list_eqb data_eqb xs ys
  | Map xs, Map ys => list_eqb (fun p q => data_eqb (fst p) (fst q) && data_eqb (snd p) (snd q)) xs ys
  | List xs, List ys => list_eqb data_eqb xs ys
  | I x, I y => (x =? y)%Z
  | Bs x, Bs y => bytes_eqb x y
  | _, _ => false
  end.

(* every node of d satisfies p *)
Fixpoint all_nodes (p : data -> bool) (d : data) : bool :=
  p d &&
  match d with
  | Constr _ fs => forallb (all_nodes p) fs
  | Map kvs => forallb (fun kv => all_nodes p (fst kv) && all_nodes p (snd kv)) kvs
  | List xs => forallb (all_nodes p) xs
  | _ => true
  end.

Fixpoint nodupb {A} (eqb : A -> A -> bool) (l : list A) : bool :=
  match l with [] => true | x :: r => negb (existsb (eqb x) r) && nodupb eqb r end.

Definition two512Z : Z := (2 ^ 512)%Z.

(* node-local conditions *)
Definition n_short_bytes (d : data) : bool := match d with Bs b => (length b <=? 64)%nat | _ => true end.
(* integers whose bignum payload fits one 64-byte string; constructor ids that fit a 64-bit head *)
Definition n_int_ok (d : data) : bool :=
  match d with
  | I z => (- two512Z <=? z)%Z && (z <? two512Z)%Z
  | Constr i _ => i <? two64
  | _ => true
  end.
Definition n_nodup (d : data) : bool := match d with Map kvs => nodupb data_eqb (map fst kvs) | _ => true end.
Definition n_nonempty_list (d : data) : bool := match d with List [] => false | _ => true end.
Definition n_no_empty_102 (d : data) : bool :=
  match d with Constr i [] => match tag_spec i with None => false | Some _ => true end | _ => true end.
(* keys pycardano can hold in a dict *)
Definition atom (d : data) : bool := match d with I _ | Bs _ => true | _ => false end.
Definition n_atom_keys (d : data) : bool := match d with Map kvs => forallb (fun kv => atom (fst kv)) kvs | _ => true end.
(* after immutable decoding: a key is hashable unless it holds an IndefiniteList, i.e. a non-empty list or
   non-empty constructor fields (maps as keys are outside the model) *)
Definition hollow (d : data) : bool :=
  match d with
  | I _ | Bs _ => true
  | List [] => true
  | Constr i [] => true
  | _ => false
  end.
Definition n_no_list_keys (d : data) : bool :=
  match d with Map kvs => forallb (fun kv => match fst kv with List _ => false | _ => true end) kvs | _ => true end.
Definition n_hollow_keys (d : data) : bool := match d with Map kvs => forallb (fun kv => hollow (fst kv)) kvs | _ => true end.

Definition no_long_bytes := all_nodes n_short_bytes.
Definition ints_ok := all_nodes n_int_ok.
Definition nodup_keys := all_nodes n_nodup.
Definition no_empty_list := all_nodes n_nonempty_list.
Definition no_empty_102 := all_nodes n_no_empty_102.
Definition atom_keys := all_nodes n_atom_keys.
Definition hollow_keys := all_nodes n_hollow_keys.
Definition no_list_keys := all_nodes n_no_list_keys.

(* JSON route: RawPlutusData.from_dict builds IndefiniteList for every JSON list and for the fields of a
   tag-102 constructor, and to_primitive does not look inside an IndefiniteList.  jcanon d: the object built
   from the JSON of d is already canonical; jsound d: to_primitive repairs what is not. *)
Fixpoint jcanon (d : data) : bool :=
  match d with
  | Constr i fs =>
      match tag_spec i with
      | Some _ => match fs with [] => true | _ => false end
      | None => match fs with [] => false | _ => forallb jcanon fs end
      end
  | Map kvs => forallb (fun kv => jcanon (fst kv) && jcanon (snd kv)) kvs
  | List xs => match xs with [] => false | _ => forallb jcanon xs end
  | I _ | Bs _ => true
  end.
Fixpoint jsound (d : data) : bool :=
  match d with
  | Constr i fs =>
      match tag_spec i with
      | Some _ => forallb jsound fs
      | None => match fs with [] => false | _ => forallb jcanon fs end
      end
  | Map kvs => forallb (fun kv => jsound (fst kv) && jsound (snd kv)) kvs
  | List xs => match xs with [] => false | _ => forallb jcanon xs end
  | I _ | Bs _ => true
  end.
(* same question for the Python-list build with an IndefiniteList on top *)
Fixpoint pycanon (d : data) : bool :=      (* raw_py d is already canonical *)
  match d with
  | Constr i fs => match fs with [] => true | _ => false end
  | Map kvs => forallb (fun kv => pycanon (fst kv) && pycanon (snd kv)) kvs
  | List xs => match xs with [] => true | _ => false end
  | I _ | Bs _ => true
  end.
Definition pysound (d : data) : bool := match d with List xs => forallb pycanon xs | _ => true end.

Definition top_bytes_le (n : nat) (d : data) : bool := match d with Bs b => (length b <=? n)%nat | _ => true end.
Definition top_not_empty_list (d : data) : bool := match d with List [] => false | _ => true end.

(* ---------- regions (known defects of the pinned tree); 0 = inside every premise ---------- *)
Definition RG_none := 0%nat.
Definition RG_chunk := 1%nat.          (* chunk-flatten-on-decode *)
Definition RG_norecurse := 2%nat.      (* raw-indefinite-not-recursed *)
Definition RG_json_empty_list := 3%nat.
Definition RG_json_empty_102 := 4%nat.
Definition RG_untag_1400 := 5%nat.
Definition RG_top_empty_list := 6%nat. (* raw-top-empty-list *)
Definition RG_top_bytestring := 7%nat. (* raw-top-bytestring *)
Definition RG_key_decode := 8%nat.     (* map-key-unhashable-decode *)
Definition RG_key_build := 9%nat.      (* map-key-unhashable-build *)
Definition RG_dup_keys := 10%nat.      (* map-dup-keys *)
Definition RG_bigint := 11%nat.        (* int-over-64-bytes-unchunked *)
Definition RG_typed_pylist := 12%nat.  (* typed-pylist-definite *)
Definition RG_typed_empty_ilist := 13%nat.
Definition RG_typed_list_rt := 14%nat. (* typed-list-field-decoded-definite *)
Definition RG_typed_json_bytes := 15%nat.
Definition RG_typed_json_nested := 16%nat.
Definition RG_typed_long_in_container := 17%nat.
Definition RG_typed_datum := 18%nat.   (* typed-datum-field-shape *)
Definition RG_key_list_to_dict := 19%nat.   (* map-key-list-to-dict *)
Definition RG_typed_to_dict_tag := 20%nat.  (* typed-to-dict-cbortag *)
(* NOT a defect of the pinned tree: inputs the long-bytes guard must refuse (plain bytes over 64 bytes as the value of
   a field of a typed class).  On the pinned tree no such object exists, so no route can fail here; a failing
   route in this region means that the guard let the value through and wrong bytes were written. *)
Definition RG_guard := 21%nat.              (* long-bytes-guard-bypassed *)
Definition RG_json_union_prim := 22%nat.    (* typed-json-union-primitive *)
Definition RG_json_postponed := 23%nat.     (* typed-json-postponed-annotations *)

Definition first_region (l : list (bool * nat)) : nat :=
  match find (fun p => negb (fst p)) l with Some p => snd p | None => RG_none end.

(* ---------- raw routes ---------- *)
Definition raw_py_top (d : data) : pv := match d with List xs => PIList (map raw_py xs) | _ => raw_py d end.

(* every dict inside v has hashable keys (what building the Python object requires) *)
Fixpoint dict_keys_ok (tup : bool) (v : pv) : bool :=
  match v with
  | PList xs | PIList xs => forallb (dict_keys_ok tup) xs
  | PDict kvs => forallb (fun kv => hashable tup (fst kv) && dict_keys_ok tup (fst kv) && dict_keys_ok tup (snd kv)) kvs
  | PTag _ x => dict_keys_ok tup x
  | PObj _ _ fs => forallb (dict_keys_ok tup) fs
  | PRaw w => dict_keys_ok tup w
  | _ => true
  end.

Definition build_raw (v : pv) : res bytes := if dict_keys_ok false v then to_cbor (PRaw (pynorm v)) else Err E_Type.

Definition m_dec (d : data) : res bytes := do r <- raw_from_cbor (plutus_bytes d); to_cbor r.
Definition m_todict (d : data) : res json :=
  do r <- raw_from_cbor (plutus_bytes d);
  match r with PRaw v => r_dict (r_to_prim v) | _ => Err E_OOM end.
Definition m_json_rt (d : data) : out :=
  match m_todict d with
  | Ok j => OB (do r <- raw_from_dict j; to_cbor r)
  | Err _ => OSkip
  end.
Definition m_fromdict (d : data) : res bytes := do r <- raw_from_dict (json_of d); to_cbor r.

Definition is_ok {A} (r : res A) : bool := match r with Ok _ => true | Err _ => false end.

(* routes: 0 canon build, 1 python-list build, 2 decode+encode, 3 datum_hash of the decoded object is the hash of
   those bytes, 4 to_dict of the decoded object, 5 from_dict(to_dict), 6 from_json(to_json), 7 from_dict(json_of d),
   8 datum_hash of a fresh decode *)
Definition raw_model (route : nat) (d : data) : out :=
  match route with
  | 0 => OB (build_raw (raw_canon d))
  | 1 => OB (build_raw (raw_py_top d))
  | 2 => OB (m_dec d)
  | 3 | 8 => if is_ok (m_dec d) then OF true else OSkip
  | 4 => OJ (m_todict d)
  | 5 | 6 => m_json_rt d
  | 7 => OB (m_fromdict d)
  | _ => OSkip
  end%nat.

(* the property on one observed output *)
Definition raw_expect (route : nat) (d : data) : out :=
  match route with
  | 3 | 8 => OF true
  | 4 => OJ (Ok (json_of d))
  | _ => OB (Ok (plutus_bytes d))
  end%nat.

Definition raw_region (route : nat) (d : data) : nat :=
  match route with
  | 0 => first_region [(ints_ok d, RG_bigint); (atom_keys d, RG_key_build); (nodup_keys d, RG_dup_keys);
                       (top_bytes_le 64 d, RG_top_bytestring); (top_not_empty_list d, RG_top_empty_list)]
  | 1 => first_region [(ints_ok d, RG_bigint); (atom_keys d, RG_key_build); (nodup_keys d, RG_dup_keys);
                       (top_bytes_le 64 d, RG_top_bytestring); (top_not_empty_list d, RG_top_empty_list);
                       (pysound d, RG_norecurse)]
  | 2 | 3 | 8 => first_region [(top_not_empty_list d, RG_top_empty_list); (hollow_keys d, RG_key_decode);
                       (nodup_keys d, RG_dup_keys); (ints_ok d, RG_bigint); (no_long_bytes d, RG_chunk)]
  | 4 => first_region [(top_not_empty_list d, RG_top_empty_list); (hollow_keys d, RG_key_decode);
                       (nodup_keys d, RG_dup_keys); (no_list_keys d, RG_key_list_to_dict)]
  | 5 | 6 | 7 => first_region [(top_not_empty_list d, RG_top_empty_list);
                       (match route with 7%nat => true | _ => hollow_keys d end, RG_key_decode);
                       (atom_keys d, RG_key_build); (nodup_keys d, RG_dup_keys); (ints_ok d, RG_bigint);
                       (top_bytes_le 32 d, RG_top_bytestring);
                       (no_empty_list d, RG_json_empty_list); (no_empty_102 d, RG_json_empty_102);
                       (jsound d, RG_norecurse)]
  | _ => RG_none
  end%nat.

(* one raw case: data, the reference bytes the harness fed to the decode routes, observed outputs per route *)
Definition raw_obs := list (nat * out).
Definition raw_corr (d : data) (ref : bytes) (obs : raw_obs) : list nat :=
  (if bytes_eqb ref (plutus_bytes d) then [] else [99%nat]) ++
  flat_map (fun ro => if out_eqb (raw_model (fst ro) d) (snd ro) then [] else [fst ro]) obs.
(* failing routes with their region *)
Definition raw_oracle (d : data) (obs : raw_obs) : list (nat * nat) :=
  flat_map (fun ro => match snd ro with
                      | OSkip => []       (* the failure is reported at the route that raised *)
                      | o => if out_eqb (raw_expect (fst ro) d) o then [] else [(fst ro, raw_region (fst ro) d)]
                      end) obs.

(* ---------- tag cases ---------- *)
Definition untag_spec (t len : N) : ures :=
  if t =? 102 then (if len =? 2 then UPair else URaise)
  else if (121 <=? t) && (t <=? 127) then UWhole (t - 121)
  else if (1280 <=? t) && (t <=? 1400) then UWhole (t - 1280 + 7)
  else URaise.

(* ---------- typed routes ---------- *)
(* the driver can build the object: long-bytes guard of every dataclass, hashable dict keys *)
Fixpoint guard_ok (v : pv) : bool :=
  match v with
  | PObj _ _ fs => negb (existsb (fun f => match f with PBytes b => (64 <? length b)%nat | _ => false end) fs)
                   && forallb guard_ok fs
  | PList xs | PIList xs => forallb guard_ok xs
  | PDict kvs => forallb (fun kv => guard_ok (fst kv) && guard_ok (snd kv)) kvs
  | PTag _ x => guard_ok x
  | PRaw w => guard_ok w
  | _ => true
  end.
Definition constructible (v : pv) : bool := guard_ok v && dict_keys_ok false v.

Definition cls_of (t : ty) : N * list ty := match t with TCls id fts => (id, fts) | _ => (0, []) end.

(* building the object in the driver (bottom-up through the dataclass constructors): the long-bytes guard of
   every class met on the way, hashable dict keys.  Both failing at once depends on Python's evaluation order and
   is outside the model (never generated). *)
Definition construct_model (x : pv) : out :=
  if dict_keys_ok false x then (if guard_ok x then OF true else OB (Err E_InvArg))
  else if guard_ok x then OB (Err E_Type) else OB (Err E_OOM).

(* routes: 0 to_cbor, 1 datum_hash consistent, 2 from_cbor(to_cbor x).to_cbor, 3 from_cbor(reference bytes).to_cbor
   (observed whether or not x could be built: it needs the class and the reference bytes only),
   4 to_dict, 5 from_dict(to_dict), 6 from_json(to_json) -- both BEFORE any from_cbor call on the class, which is what
   `pp` (postponed annotations, see Plutus.t_undict) is sensitive to --, 7 the object as the data of a Redeemer: the
   redeemer's bytes are the 4-array  tag, index, <the bytes of route 0>, ex_units;
   9 construction: OF true, or the exception kind *)
Definition typed_model (route : nat) (pp : bool) (t : ty) (x : pv) : out :=
  let '(id, fts) := cls_of t in
  match route with
  | 0 => OB (to_cbor (pynorm x))
  | 1 | 7 => if is_ok (to_cbor (pynorm x)) then OF true else OSkip
  | 2 => match to_cbor (pynorm x) with
         | Ok b => OB (do y <- typed_from_cbor id fts b; to_cbor y)
         | Err _ => OSkip
         end
  | 3 => OB (do y <- typed_from_cbor id fts (plutus_bytes (abs x)); to_cbor y)
  | 4 => OJ (t_dict (pynorm x))
  | 5 | 6 => match t_dict (pynorm x) with
             | Ok j => OB (do y <- t_undict pp id fts j; to_cbor y)
             | Err _ => OSkip
             end
  | 9 => construct_model x
  | _ => OSkip
  end%nat.

Definition typed_expect (route : nat) (x : pv) : out :=
  match route with
  | 1 | 7 | 9 => OF true
  | 4 => OJ (Ok (json_of (abs x)))
  | _ => OB (Ok (plutus_bytes (abs x)))
  end%nat.

(* the property on one observed output of a typed case.  A value with plain bytes over 64 bytes in a field of a
   typed class (guard_ok x = false) is not a legal typed object: pycardano's answer to it is the long-bytes guard.
   The property holds on such a value when the constructor REFUSES it (route 9: InvalidArgumentException) or,
   should an object come into being, when every route still yields the reference bytes (refuse or canonical);
   decoding the reference bytes of its content with the class (route 3) may likewise refuse -- what it may never
   do is return other bytes. *)
Definition is_refusal (o : out) : bool :=
  match o with OB (Err k) => String.eqb k E_InvArg | _ => false end.
Definition typed_ok (route : nat) (x : pv) (o : out) : bool :=
  out_eqb (typed_expect route x) o
  || (negb (guard_ok x) && match route with 3%nat | 9%nat => is_refusal o | _ => false end).

(* ----- decidable premises on typed values ----- *)
(* typed part of a value: everything reachable through objects, lists and dicts; CBORTag / RawPlutusData
   nodes (raw data held in Datum / IndefiniteList fields) are leaves of the typed part *)
Fixpoint vshape (p : pv -> bool) (v : pv) : bool :=
  p v &&
  match v with
  | PList xs | PIList xs => forallb (vshape p) xs
  | PDict kvs => forallb (fun kv => vshape p (fst kv) && vshape p (snd kv)) kvs
  | PObj _ _ fs => forallb (vshape p) fs
  | _ => true
  end.
(* every node, raw parts included *)
Fixpoint deep (p : pv -> bool) (v : pv) : bool :=
  p v &&
  match v with
  | PList xs | PIList xs => forallb (deep p) xs
  | PDict kvs => forallb (fun kv => deep p (fst kv) && deep p (snd kv)) kvs
  | PTag _ x => deep p x
  | PObj _ _ fs => forallb (deep p) fs
  | PRaw w => deep p w
  | _ => true
  end.
(* canonical Python shape: IndefiniteList exactly for the non-empty lists, plain bytes at most 64 long *)
Definition v_no_pylist (v : pv) : bool := match v with PList (_ :: _) => false | _ => true end.
Definition v_no_empty_ilist (v : pv) : bool := match v with PIList [] => false | _ => true end.
Definition v_short_bytes (v : pv) : bool := match v with PBytes b => (length b <=? 64)%nat | _ => true end.
(* the elements of a list / the keys and values of a dict are not plain bytes over 64 bytes *)
Definition v_cont_short (v : pv) : bool :=
  match v with
  | PList xs | PIList xs => forallb v_short_bytes xs
  | PDict kvs => forallb (fun kv => v_short_bytes (fst kv) && v_short_bytes (snd kv)) kvs
  | _ => true
  end.
Definition v_int_ok (v : pv) : bool :=
  match v with
  | PInt z => (- two512Z <=? z)%Z && (z <? two512Z)%Z
  | PObj id _ _ => id <? two64
  | _ => true
  end.
(* the keys of a dict differ pairwise in content (keys equal in content are equal for Python or collapse when
   converted: either way the reference map would have an entry more) *)
Definition v_nodup (v : pv) : bool :=
  match v with PDict kvs => nodupb data_eqb (map (fun kv => abs (fst kv)) kvs) | _ => true end.
(* raw data inside a Datum / IndefiniteList field is in the canonical shape of its own content *)
Definition rawc (w : pv) : bool := pv_eqb (raw_canon (abs w)) w && ints_ok (abs w) && nodup_keys (abs w).
Definition v_rawc (v : pv) : bool := match v with PRaw w => rawc w | PTag _ _ => rawc v | _ => true end.

(* dict keys of the typed part are what a Python dict of a dataclass field can hold: int / bytes / ByteString, or
   an instance of a typed class all of whose field values are such keys again (Map StakingCredential Integer,
   Dict[Slot, ...]: constructors -- compact tag or tag 102, with or without fields, nested -- as map keys) *)
Fixpoint hkey (v : pv) : bool :=
  match v with
  | PInt _ | PBytes _ | PBStr _ => true
  | PObj _ _ fs => forallb hkey fs
  | _ => false
  end.
Definition v_hkeys (v : pv) : bool :=
  match v with PDict kvs => forallb (fun kv => hkey (fst kv)) kvs | _ => true end.
Definition n_typed (w : pv) : bool :=
  v_int_ok w && v_no_pylist w && v_no_empty_ilist w && v_short_bytes w && v_nodup w && v_hkeys w && v_rawc w.
Definition canon_typed (x : pv) : bool := vshape n_typed x.

(* type-directed conditions: q t v at every typed position *)
Fixpoint tshape (q : ty -> pv -> bool) (t : ty) (v : pv) {struct v} : bool :=
  q t v &&
  match v with
  | PList xs | PIList xs =>
      match t with TList t' => forallb (tshape q t') xs | _ => true end
  | PDict kvs =>
      match t with
      | TDict kt vt => forallb (fun kv => tshape q kt (fst kv) && tshape q vt (snd kv)) kvs
      | _ => true
      end
  | PObj _ fts fs =>
      (fix go (ts : list ty) (xs : list pv) {struct xs} : bool :=
         match ts, xs with
         | t' :: tr, x :: xr => tshape q t' x && go tr xr
         | _, _ => true
         end) fts fs
  | _ => true
  end.
(* List[...] annotated positions hold no element (from_primitive rebuilds them as Python lists) *)
Definition q_list_empty (t : ty) (v : pv) : bool :=
  match t, v with TList _, PList (_ :: _) | TList _, PIList (_ :: _) => false | _, _ => true end.
(* from_dict picks bytes / ByteString by length (hex longer than 64 characters), not by the annotation *)
Definition q_json_bytes (t : ty) (v : pv) : bool :=
  match t, v with
  | TBStr, PBStr b => (32 <? length b)%nat
  | TBytes, PBytes b => (length b <=? 32)%nat
  | _, _ => true
  end.
(* from_dict converts the content of List[non-class] / Dict[non-class] / IndefiniteList fields with the
   OUTER class's generic _dfs, which rejects (or mis-types) any constructor it meets *)
Definition plain (v : pv) : bool :=
  deep (fun w => match w with PObj _ _ _ | PTag _ _ | PRaw _ => false | _ => true end) v.
Definition q_json_generic (t : ty) (v : pv) : bool :=
  match t with
  | TList t' => is_cls t' || plain v
  | TDict kt vt =>
      match v with
      | PDict kvs => forallb (fun kv => (is_cls kt || plain (fst kv)) && (is_cls vt || plain (snd kv))) kvs
      | _ => true
      end
  | TIList => plain v
  | _ => true
  end.
(* Datum / IndefiniteList fields: chunked byte strings inside come back flattened *)
Definition q_no_flatten (t : ty) (v : pv) : bool :=
  match t with
  | TIList | TDatum => deep (fun w => match w with PBStr _ => false | _ => true end) v
  | _ => true
  end.
(* Datum fields go through RawPlutusData.from_dict: the raw JSON premises on their content *)
Definition q_json_datum (t : ty) (v : pv) : bool :=
  match t with
  | TDatum => jsound (abs v) && no_empty_102 (abs v) && atom_keys (abs v)
              && match v with PBytes b | PBStr b => (length b <=? 32)%nat | _ => true end
  | _ => true
  end.
(* Datum / IndefiniteList fields come back from from_cbor as raw data: long plain bytes BELOW such a position (in a
   class instance, list or map held there) stand behind no constructor's guard once decoded -- this is the
   flattening of chunk-flatten-on-decode.  The field value itself being long plain bytes is the guard's business. *)
Definition q_raw_long (t : ty) (v : pv) : bool :=
  match t with
  | TIList | TDatum => match v with PBytes _ => true | _ => deep v_short_bytes v end
  | _ => true
  end.
Definition no_tag_outside_raw (x : pv) : bool := vshape (fun w => match w with PTag _ _ => false | _ => true end) x.
(* from_dict resolves a Union-typed field through f["constructor"]: an int / bytes / ByteString value there (its JSON
   is {"int": ..} / {"bytes": ..}) raises KeyError, or DeserializeException when no alternative is a class *)
Definition q_json_union (t : ty) (v : pv) : bool :=
  match t, v with TUnion _, PObj _ _ _ => true | TUnion _, _ => false | _, _ => true end.

Definition typed_region (route : nat) (pp : bool) (t : ty) (x : pv) : nat :=
  let enc_prem := [(guard_ok x, RG_guard); (deep v_int_ok x, RG_bigint); (vshape v_int_ok x, RG_bigint); (vshape v_no_pylist x, RG_typed_pylist);
                   (vshape v_no_empty_ilist x, RG_typed_empty_ilist);
                   (vshape v_short_bytes x, RG_typed_long_in_container);
                   (vshape v_nodup x, RG_dup_keys); (vshape v_hkeys x, RG_key_build);
                   (vshape v_rawc x, RG_typed_datum)] in
  match route with
  | 0 | 1 | 7 => first_region enc_prem
  | 2 => first_region (enc_prem ++ [(hollow_keys (abs x), RG_key_decode);
                                    (tshape q_list_empty t x, RG_typed_list_rt);
                                    (tshape q_no_flatten t x, RG_chunk)])
  (* route 3 is observed also for a value the constructor refused.  Such a value may sit in any other region as
     well (and from_cbor then fails the way that region says), so the guard premise comes LAST: the region is
     long-bytes-guard-bypassed only when nothing but the guard stands between the reference bytes and their
     re-encoding.  For the same reason `plain bytes of at most 64 bytes` is asked of the elements of lists and
     dicts only (v_cont_short); a long FIELD value is the guard's business *)
  | 3 => first_region [(tshape q_raw_long t x, RG_chunk);
                       (deep v_int_ok x, RG_bigint); (vshape v_int_ok x, RG_bigint); (vshape v_no_pylist x, RG_typed_pylist);
                       (vshape v_no_empty_ilist x, RG_typed_empty_ilist);
                       (vshape v_cont_short x, RG_typed_long_in_container);
                       (vshape v_nodup x, RG_dup_keys); (vshape v_hkeys x, RG_key_build);
                       (vshape v_rawc x, RG_typed_datum);
                       (hollow_keys (abs x), RG_key_decode);
                       (tshape q_list_empty t x, RG_typed_list_rt);
                       (tshape q_no_flatten t x, RG_chunk);
                       (guard_ok x, RG_guard)]
  | 4 => first_region [(no_tag_outside_raw x, RG_typed_to_dict_tag)]
  | 5 | 6 => first_region (enc_prem ++ [(tshape q_json_bytes t x, RG_typed_json_bytes);
                                        (tshape q_json_generic t x, RG_typed_json_nested);
                                        (no_empty_list (abs x), RG_json_empty_list);
                                        (tshape q_json_datum t x, RG_norecurse);
                                        (tshape q_json_union t x, RG_json_union_prim);
                                        (* string annotations change what from_dict does with this value *)
                                        (if pp then out_eqb (typed_model route true t x) (typed_model route false t x) else true,
                                         RG_json_postponed)])
  | _ => RG_none
  end%nat.

Definition typed_corr (pp : bool) (t : ty) (x : pv) (ref : bytes) (obs : raw_obs) : list nat :=
  (if bytes_eqb ref (plutus_bytes (abs x)) then [] else [99%nat]) ++
  flat_map (fun ro => if out_eqb (typed_model (fst ro) pp t x) (snd ro) then [] else [fst ro]) obs.
Definition typed_oracle (pp : bool) (t : ty) (x : pv) (obs : raw_obs) : list (nat * nat) :=
  flat_map (fun ro => match snd ro with
                      | OSkip => []
                      | o => if typed_ok (fst ro) x o then [] else [(fst ro, typed_region (fst ro) pp t x)]
                      end) obs.

(* ---------- one case of any kind ---------- *)
Inductive ccase :=
| CRaw (d : data) (ref : bytes) (obs : raw_obs)
| CTyped (pp : bool) (t : ty) (x : pv) (ref : bytes) (obs : raw_obs)
| CGetTag (i : N) (o : out)
| CUntag (t len : N) (o : out)
| CGuard (id : N) (n : nat) (o : out).

Definition guard_model (id : N) (n : nat) : out :=
  OB (do o <- mk_obj id [TBytes] [PBytes (repeat x00 n)]; to_cbor o).
Definition guard_expect (id : N) (n : nat) : out :=
  if (n <=? 64)%nat then OB (Ok (plutus_bytes (Constr id [Bs (repeat x00 n)]))) else OB (Err E_InvArg).

(* model <> implementation: flat list  idx, route, idx, route, ... *)
Definition corr_case (c : ccase) : list nat :=
  match c with
  | CRaw d ref obs => raw_corr d ref obs
  | CTyped pp t x ref obs => typed_corr pp t x ref obs
  | CGetTag i o => if out_eqb (OT (Ok (get_tag i))) o then [] else [0%nat]
  | CUntag t len o => if out_eqb (OU (untag t len)) o then [] else [0%nat]
  | CGuard id n o => if out_eqb (guard_model id n) o then [] else [0%nat]
  end.
(* property fails on the implementation's output: flat list  idx, route, region, ... *)
Definition oracle_case (c : ccase) : list (nat * nat) :=
  match c with
  | CRaw d _ obs => raw_oracle d obs
  | CTyped pp t x _ obs => typed_oracle pp t x obs
  | CGetTag i o => if out_eqb (OT (Ok (tag_spec i))) o then [] else [(0%nat, RG_none)]
  | CUntag t len o =>
      if out_eqb (OU (untag_spec t len)) o then []
      else [(0%nat, if (1400 <? t) && (t <? 1536) then RG_untag_1400 else RG_none)]
  | CGuard id n o => if out_eqb (guard_expect id n) o then [] else [(0%nat, RG_none)]
  end.

Definition run_corr (cases : list (nat * ccase)) : list nat :=
  flat_map (fun ic => flat_map (fun r => [fst ic; r]) (corr_case (snd ic))) cases.
Definition run_oracle (cases : list (nat * ccase)) : list nat :=
  flat_map (fun ic => flat_map (fun rr => [fst ic; fst rr; snd rr]) (oracle_case (snd ic))) cases.

(* ---------- typed round trip: values that from_primitive rebuilds exactly ---------- *)
(* raw data in the shape the decoder produces (plain bytes, never ByteString) *)
Definition dec_exact (w : pv) : bool := pv_eqb (raw_dec (abs w)) w.

Fixpoint rt_exact (t : ty) (v : pv) {struct t} : bool :=
  match t with
  | TInt => match v with PInt _ => true | _ => false end
  | TBytes => match v with PBytes b => (length b <=? 64)%nat | _ => false end
  | TBStr => match v with PBStr _ => true | _ => false end
  | TList _ => match v with PList [] => true | _ => false end          (* List[...] fields come back as Python lists *)
  | TDict kt vt =>
      match v with
      | PDict kvs => forallb (fun kv => rt_exact kt (fst kv) && rt_exact vt (snd kv)) kvs && nodupb pv_eqb (map fst kvs)
      | _ => false
      end
  | TCls id fts =>
      match v with
      | PObj id' fts' fs => (id =? id') && list_eqb ty_eqb fts fts' && forall2b rt_exact fts fs
      | _ => false
      end
  | TUnion ts =>
      match v with
      | PObj id' _ _ =>
          (fix pick (l : list ty) : bool :=
             match l with
             | [] => false
             | a :: r => match a with
                         | TCls idk _ => if idk =? id' then rt_exact a v else pick r
                         | _ => false
                         end
             end) ts
      | _ => false
      end
  | TIList => match v with PIList (x :: xs) => forallb dec_exact (x :: xs) | _ => false end
  | TDatum =>
      match v with
      | PRaw (PTag _ _ as w) => dec_exact w
      | PInt _ | PDict _ | PIList _ => dec_exact v
      | PBytes b => (length b <=? 64)%nat
      | _ => false
      end
  end.

(* how many observed routes of a shard lie inside the sound region (premises of the theorems hold) *)
Definition sound_count (c : ccase) : nat * nat :=
  match c with
  | CRaw d _ obs =>
      (length obs, length (filter (fun ro => match snd ro with OSkip => false | _ => Nat.eqb (raw_region (fst ro) d) 0 end) obs))
  | CTyped pp t x _ obs =>
      (length obs, length (filter (fun ro => match snd ro with OSkip => false | _ => Nat.eqb (typed_region (fst ro) pp t x) 0 end) obs))
  | _ => (1, 1)%nat
  end.
Definition run_stats (cases : list (nat * ccase)) : list nat :=
  let l := map (fun ic => sound_count (snd ic)) cases in [list_sum (map fst l); list_sum (map snd l)].

(* raw data held in Datum fields has no list-shaped map keys (to_dict cannot render them) *)
Definition v_raw_nolistkeys (v : pv) : bool := match v with PRaw w => no_list_keys (abs w) | _ => true end.
