(* AddressOracle.v — executable decision procedures of property C15 applied to the IMPLEMENTATION's
   outputs (reference = CIP-19 table, base-128 digits by division, BIP-173 as GF(32) polynomial remainder,
   bit-string regrouping), and the glue comparing model and implementation on generated cases. *)
From Coq Require Import NArith Ascii String List Bool PeanoNat.
From PyC Require Import Base Bech32 Bech32Proofs Address AddressProofs.
Import ListNotations.
Open Scope N_scope.

(* ---------- what the implementation returned ---------- *)
Inductive ires := IOk (a : address) | IErr (e : errkind).

Definition cred_eqb (a b : cred) : bool :=
  match a, b with
  | VKH x, VKH y => bytes_eqb x y
  | SH x, SH y => bytes_eqb x y
  | _, _ => false
  end.
Definition staking_eqb (a b : staking) : bool :=
  match a, b with
  | SCred x, SCred y => cred_eqb x y
  | SPtr a1 a2 a3, SPtr b1 b2 b3 => (a1 =? b1) && (a2 =? b2) && (a3 =? b3)
  | _, _ => false
  end.
Definition opt_eqb {A} (f : A -> A -> bool) (a b : option A) : bool :=
  match a, b with Some x, Some y => f x y | None, None => true | _, _ => false end.
Definition network_eqb (a b : network) : bool := net_value a =? net_value b.
(* equality INCLUDING the credential classes (Python's Address.__eq__ ignores VerificationKeyHash vs ScriptHash) *)
Definition address_eqb (a b : address) : bool :=
  opt_eqb cred_eqb (pay a) (pay b) && opt_eqb staking_eqb (stk a) (stk b) && network_eqb (net a) (net b).
Definition errkind_eqb (a b : errkind) : bool :=
  match a, b with
  | EIndex, EIndex | EValue, EValue | EAssert, EAssert | EDecoding, EDecoding | EDeserialize, EDeserialize
  | EType, EType | EInvalidAddress, EInvalidAddress | EFuel, EFuel => true
  | _, _ => false
  end.
(* coarse: accept with the same address / reject *)
Definition same_coarse (m : res address) (i : ires) : bool :=
  match m, i with Ok a, IOk b => address_eqb a b | Err _, IErr _ => true | _, _ => false end.
Definition same_exact (m : res address) (i : ires) : bool :=
  match m, i with Ok a, IOk b => address_eqb a b | Err e, IErr f => errkind_eqb e f | _, _ => false end.
Definition ires_eqb (a b : ires) : bool :=
  match a, b with IOk x, IOk y => address_eqb x y | IErr _, IErr _ => true | _, _ => false end.

(* ---------- reference (specification) side ---------- *)
(* CIP-19 variable-length number: base-128 digits by division, most significant first *)
Fixpoint digits128 (fuel : nat) (n : N) : list N :=
  match fuel with
  | O => []
  | S f => if n =? 0 then [] else digits128 f (n / 128) ++ [n mod 128]
  end.
Definition varint_ref (n : N) : list N :=
  let ds := if n =? 0 then [0] else digits128 (S (N.to_nat (N.size n))) n in
  map (fun d => 128 + d) (removelast ds) ++ [last ds 0].

Definition bytes_ref (p : option cred) (s : option staking) (n : network) : option bytes :=
  match cip19_nibble p s with
  | None => None
  | Some nib =>
    Some (n2b (16 * nib + net_value n)
          :: match p with Some c => cred_bytes c | None => [] end
          ++ match s with
             | None => []
             | Some (SCred c) => cred_bytes c
             | Some (SPtr a b c) => map n2b (varint_ref a ++ varint_ref b ++ varint_ref c)
             end)
  end.

Fixpoint strip_prefix (pre s : str) : option str :=
  match pre, s with
  | [], _ => Some s
  | x :: pre', y :: s' => if x =? y then strip_prefix pre' s' else None
  | _ :: _, [] => None
  end.
Fixpoint bools_eqb (a b : list bool) : bool :=
  match a, b with
  | [], [] => true
  | x :: a', y :: b' => Bool.eqb x y && bools_eqb a' b'
  | _, _ => false
  end.
(* t is the Bech32 (constant 1) text of byte values b under prefix hrp *)
Definition text_ref_ok (hrp : str) (b : list N) (t : str) : bool :=
  match strip_prefix (hrp ++ [49]) t with
  | None => false
  | Some chars =>
    forallb (fun x => mem x CHARSET) chars &&
    let data := map (fun x => find x CHARSET) chars in
    Nat.leb 6 (length data) &&
    str_eqb (gf_polymod (hrp_expand hrp ++ data)) [0; 0; 0; 0; 0; 1] &&
    let pb := flatbits 5 (firstn (length data - 6) data) in
    let bb := flatbits 8 b in
    Nat.ltb (length pb) (length bb + 5) &&
    bools_eqb (firstn (length bb) pb) bb && forallb negb (skipn (length bb) pb)
  end.
Definition text_ref_length (hrp : str) (nbytes : nat) : nat := (length hrp + 7 + (8 * nbytes + 4) / 5)%nat.

(* ---------- cases ---------- *)
Inductive case :=
(* Address(p, s, n): impl bytes, impl encode() (None = returned None), from_primitive(bytes), from_primitive(text) *)
| KAddr (p : option cred) (s : option staking) (n : network)
        (ibytes : bytes) (itext : option string) (ifromb : ires) (ifromt : option ires)
(* the constructor raised *)
| KAddrBad (p : option cred) (s : option staking) (n : network)
(* every substitution of one character of s by one of chars (other than the character already there):
   accepted = those the implementation did NOT reject, with what they decoded to *)
| KSubst (s : string) (chars : list N) (ibase : ires) (accepted : list (nat * N * ires))
(* from_primitive(text); expect = what the property demands, if it demands something *)
| KText (s : str) (expect : option ires) (i : ires)
(* from_primitive(bytes) *)
| KBytes (b : bytes) (i : ires).

Definition model_of_parts (p : option cred) (s : option staking) (n : network) : address := mkAddr p s n.

Fixpoint lookup (i : nat) (c : N) (l : list (nat * N * ires)) : option ires :=
  match l with
  | [] => None
  | (j, d, r) :: l' => if Nat.eqb i j && (c =? d) then Some r else lookup i c l'
  end.

Definition subst_all (f : nat -> N -> N -> bool) (s : str) (chars : list N) : bool :=
  forallb (fun i => let old := nth i s 0 in
                    forallb (fun c => if c =? old then true else f i c old) chars)
          (seq 0 (length s)).

(* model result of one substitution WITHOUT re-running the decoder where theorem from_text_single_subst
   (C15_single_subst_address) already determines it: base accepted, position after the separator, c <> "1",
   not a case-only change  ==>  Err EType.  Everything else is evaluated.  Proved equal to the plain
   evaluation below (from_text_subst_fast_ok), so using it in the correspondence run loses nothing. *)
Definition from_text_subst_fast (s : str) (base : res address) (sep : option nat) (i : nat) (c old : N) : res address :=
  match base, sep with
  | Ok _, Some p =>
    if Nat.ltb p i && negb (c =? 49) && negb (lowerc c =? lowerc old) then Err EType else from_text (subst i c s)
  | _, _ => from_text (subst i c s)
  end.

Definition corr_with (same : res address -> ires -> bool) (k : case) : bool :=
  match k with
  | KAddr p s n ib it ifb ift =>
    let a := mkAddr p s n in
    match construct p s n with Ok _ => true | Err _ => false end &&
    match addr_bytes a with Ok b => bytes_eqb b ib | Err _ => false end &&
    match addr_text a, it with
    | Ok (Some t), Some t' => str_eqb t (codes t')
    | Ok None, None => true
    | _, _ => false
    end &&
    same (from_bytes ib) ifb &&
    match it, ift with
    | Some t, Some r => same (from_text (codes t)) r
    | None, None => true
    | _, _ => false
    end
  | KAddrBad p s n => match construct p s n with Err _ => true | Ok _ => false end
  | KSubst s chars ibase acc =>
    let s := codes s in
    let base := from_text s in
    let sep := rfind 49 s in
    same base ibase &&
    subst_all (fun i c old => same (from_text_subst_fast s base sep i c old)
                                   (match lookup i c acc with Some r => r | None => IErr EType end)) s chars
  | KText s _ i => same (from_text s) i
  | KBytes b i => same (from_bytes b) i
  end.
Definition c15_corr := corr_with same_coarse.
(* informational (exception kinds compared exactly); the substitution sweep is not repeated for it *)
Definition c15_corr_exact (k : case) : bool :=
  match k with KSubst s _ ibase _ => same_exact (from_text (codes s)) ibase | _ => corr_with same_exact k end.

(* reference semantics of the comparison (every substituted string decoded by the model) ... *)
Definition corr_plain (same : res address -> ires -> bool) (k : case) : bool :=
  match k with
  | KSubst s chars ibase acc =>
    let s := codes s in
    same (from_text s) ibase &&
    subst_all (fun i c _ => same (from_text (subst i c s))
                                 (match lookup i c acc with Some r => r | None => IErr EType end)) s chars
  | _ => corr_with same k
  end.

(* the property, decided on the implementation's outputs *)
Definition c15_oracle (k : case) : bool :=
  match k with
  | KAddr p s n ib it ifb ift =>
    let a := mkAddr p s n in
    match bytes_ref p s n with
    | None => false                       (* no such address kind in CIP-19, yet the constructor accepted it *)
    | Some rb =>
      bytes_eqb ib rb &&
      ires_eqb ifb (IOk a) &&
      let hrp := cip5_hrp p n in
      if Nat.leb (text_ref_length hrp (length rb)) MAXLEN then
        match it, ift with
        | Some t, Some r => text_ref_ok hrp (map b2n rb) (codes t) && ires_eqb r (IOk a)
        | _, _ => false
        end
      else true     (* beyond the decoder's 108-character limit: no claim (see C15_text_over_limit_refuted) *)
    end
  | KAddrBad p s n => match cip19_nibble p s with None => true | Some _ => false end
  | KSubst s chars ibase acc =>
    let s := codes s in
    forallb (fun icr => match icr with (i, c, r) =>
                          (lowerc c =? lowerc (nth i s 0)) && ires_eqb r ibase end) acc
  | KText _ expect i => match expect with Some e => ires_eqb i e | None => true end
  | KBytes _ _ => true
  end.

(* ---------- what the translator (tools/props/c15.py -> coq/gen/AddressGen.v) must find in the source ----------
   written in terms of the constants the model and the proofs use *)
Definition type_name (t : addr_type) : string :=
  match t with
  | BYRON => "BYRON" | KEY_KEY => "KEY_KEY" | SCRIPT_KEY => "SCRIPT_KEY" | KEY_SCRIPT => "KEY_SCRIPT"
  | SCRIPT_SCRIPT => "SCRIPT_SCRIPT" | KEY_POINTER => "KEY_POINTER" | SCRIPT_POINTER => "SCRIPT_POINTER"
  | KEY_NONE => "KEY_NONE" | SCRIPT_NONE => "SCRIPT_NONE" | NONE_KEY => "NONE_KEY" | NONE_SCRIPT => "NONE_SCRIPT"
  end.
Definition net_name (n : network) : string := match n with TESTNET => "TESTNET" | MAINNET => "MAINNET" end.
Definition expected_address_types : list (string * N) := map (fun t => (type_name t, type_value t)) all_types.
Definition expected_networks : list (string * N) := map (fun n => (net_name n, net_value n)) all_networks.
Local Open Scope string_scope.
Definition expected_literals : list (string * list N * list string) := [
  ("Encoding", [1; 2], []);
  ("bech32_polymod", app generator [1; 25; 0x1FFFFFF; 5; 5; 1; 0], []);
  ("bech32_hrp_expand", [5; 0; 31], []);
  ("bech32_verify_checksum", [BECH32_CONST], []);
  ("bech32_create_checksum", [BECH32_CONST; 0; 0; 0; 0; 0; 0; 5; 5; 31; 6], []);
  ("bech32_encode", [], ["1"; ""]);
  ("bech32_decode", [33; 126; 1; 7; N.of_nat MAXLEN; 1; 1; 6], ["1"]);
  ("convertbits", [0; 0; 1; 1; 1; 1; 1; 0], []);
  ("decode", [5; 8; 2; 108], []);
  ("encode", [8; 5; 0], []);
  ("PointerAddress.__init__", [], []);
  ("PointerAddress.encode", [0x7F; 7; 0; 0x80; 0x7F; 7], []);
  ("PointerAddress.decode", [0; 0x7F; 0x80; 0; 7; 3], []);
  ("PointerAddress.__eq__", [], []);
  ("Address.__init__", [], []);
  ("Address._infer_address_type", [], []);
  ("Address._compute_header_byte", [4; 1], ["big"]);
  ("Address._compute_hrp", [], ["stake"; "addr"; ""; "_test"]);
  ("Address.__bytes__", [], []);
  ("Address.encode", [], []);
  ("Address.decode", [], []);
  ("Address.to_primitive", [], []);
  ("Address.from_primitive", [0; 1; 0xF0; 4; 0x0F], []);
  ("Address.__eq__", [], []);
  ("ConstrainedBytes.__init__", [], []);
  ("ConstrainedBytes.__eq__", [], []);
  ("VerificationKeyHash", [], []);
  ("ScriptHash", [], [])].

(* ---------- ... and the accelerated comparison is the same function ---------- *)
From Coq Require Import Lia.
Lemma from_text_subst_fast_ok s i c : (i < length s)%nat -> c <> nth i s 0 ->
  from_text_subst_fast s (from_text s) (rfind 49 s) i c (nth i s 0) = from_text (subst i c s).
Proof.
  intros Hi Hne. unfold from_text_subst_fast.
  destruct (from_text s) as [a|e] eqn:B; [|reflexivity].
  destruct (rfind 49 s) as [p|] eqn:P; [|reflexivity].
  destruct (Nat.ltb p i) eqn:L; [|reflexivity]. apply Nat.ltb_lt in L.
  destruct (N.eqb_spec c 49) as [|Hc]; [reflexivity|].
  destruct (N.eqb_spec (lowerc c) (lowerc (nth i s 0))) as [|Hl]; [reflexivity|]. cbn [negb andb].
  destruct (from_text_single_subst s a p i c B P ltac:(lia) Hc Hne) as [E|[E _]]; [now rewrite E | contradiction].
Qed.

Lemma forallb_ext_in {A} (f g : A -> bool) l : (forall x, In x l -> f x = g x) -> forallb f l = forallb g l.
Proof.
  induction l as [|x l IH]; intros H; cbn; [reflexivity|].
  rewrite (H x (or_introl eq_refl)), IH; [reflexivity|]. intros y Hy. apply H. now right.
Qed.

Theorem corr_with_plain same k : corr_with same k = corr_plain same k.
Proof.
  destruct k as [| |s chars ibase acc| |]; try reflexivity. cbn [corr_with corr_plain]. cbv zeta.
  f_equal. unfold subst_all. apply forallb_ext_in. intros i Hi. apply in_seq in Hi.
  apply forallb_ext_in. intros c _. destruct (N.eqb_spec c (nth i (codes s) 0)) as [|Hne]; [reflexivity|].
  rewrite from_text_subst_fast_ok by (assumption || lia). reflexivity.
Qed.
