(* ValueCanon.v — C04: the emitted map depends only on content.
   (1) ksort is a function of the multiset of entries when key encodings are pairwise distinct,
       and its output is strictly ascending in (length of encoded key, encoded key);
   (2) a multi-asset / value primitive depends only on `content`. *)
From Coq Require Import NArith ZArith Ascii String List Bool Lia Permutation Sorted.
From PyC Require Import Base Cbor CborProofs Dict Value ValueProofs.
Import ListNotations.

(* ---------- the key order ---------- *)
Lemma key_ltb_irrefl a : key_ltb a a = false.
Proof. unfold key_ltb. rewrite N.ltb_irrefl, N.eqb_refl, bytes_ltb_irrefl. reflexivity. Qed.

Lemma key_ltb_trans a b c : key_ltb a b = true -> key_ltb b c = true -> key_ltb a c = true.
Proof.
  unfold key_ltb. intros H1 H2.
  apply orb_true_iff in H1. apply orb_true_iff in H2. apply orb_true_iff.
  destruct H1 as [H1|H1], H2 as [H2|H2];
    rewrite ?andb_true_iff, ?N.ltb_lt, ?N.eqb_eq in *.
  - left. lia.
  - left. lia.
  - left. lia.
  - right. destruct H1 as [E1 L1], H2 as [E2 L2]. split; [lia|]. eapply bytes_ltb_trans; eauto.
Qed.

Lemma key_ltb_total a b : enc a <> enc b -> key_ltb a b = true \/ key_ltb b a = true.
Proof.
  unfold key_ltb. intros H.
  destruct (N.lt_trichotomy (lenN (enc a)) (lenN (enc b))) as [L|[L|L]].
  - left. apply orb_true_iff. left. now apply N.ltb_lt.
  - destruct (bytes_ltb_total _ _ H) as [T|T].
    + left. apply orb_true_iff. right. rewrite andb_true_iff, N.eqb_eq. auto.
    + right. apply orb_true_iff. right. rewrite andb_true_iff, N.eqb_eq. auto.
  - right. apply orb_true_iff. left. now apply N.ltb_lt.
Qed.

Section Sort.
  Context {V : Type}.
  Definition klt (x y : cbor * V) : Prop := key_ltb (fst x) (fst y) = true.
  Definition ekeys (l : list (cbor * V)) : list bytes := map (fun kv => enc (fst kv)) l.

  Lemma kinsert_perm (kv : cbor * V) l : Permutation (kinsert kv l) (kv :: l).
  Proof.
    induction l as [|h r IH]; cbn; [reflexivity|].
    destruct (key_ltb (fst kv) (fst h)); [reflexivity|].
    rewrite IH. apply perm_swap.
  Qed.

  Lemma ksort_perm (l : list (cbor * V)) : Permutation (ksort l) l.
  Proof.
    induction l as [|kv l IH]; cbn; [reflexivity|]. rewrite kinsert_perm. now constructor.
  Qed.

  Lemma kinsert_sorted (kv : cbor * V) l :
    ~ In (enc (fst kv)) (ekeys l) -> StronglySorted klt l -> StronglySorted klt (kinsert kv l).
  Proof.
    induction l as [|h r IH]; cbn; intros Hn S.
    - constructor; constructor.
    - inversion S as [|? ? Sr Fh]; subst.
      destruct (key_ltb (fst kv) (fst h)) eqn:E.
      + constructor; [exact S|]. constructor; [exact E|].
        rewrite Forall_forall in *. intros y Hy. unfold klt. eapply key_ltb_trans; [exact E|]. now apply Fh.
      + constructor.
        * apply IH; [intros X; apply Hn; now right | exact Sr].
        * assert (T : key_ltb (fst h) (fst kv) = true).
          { destruct (key_ltb_total (fst kv) (fst h)) as [T|T]; [intros X; apply Hn; left; now rewrite X | congruence | exact T]. }
          rewrite Forall_forall in *. intros y Hy.
          apply (Permutation_in _ (kinsert_perm kv r)) in Hy. destruct Hy as [<-|Hy]; [exact T | now apply Fh].
  Qed.

  Lemma ekeys_perm (l l' : list (cbor * V)) : Permutation l l' -> Permutation (ekeys l) (ekeys l').
  Proof. apply Permutation_map. Qed.

  Lemma ksort_sorted (l : list (cbor * V)) : NoDup (ekeys l) -> StronglySorted klt (ksort l).
  Proof.
    induction l as [|kv l IH]; cbn; intros H; [constructor|].
    inversion H as [|? ? Hn Hr]; subst. apply kinsert_sorted; [|now apply IH].
    intros X. apply Hn. eapply Permutation_in; [apply ekeys_perm, ksort_perm | exact X].
  Qed.

  Lemma klt_irrefl (x : cbor * V) : ~ klt x x.
  Proof. unfold klt. rewrite key_ltb_irrefl. discriminate. Qed.

  Lemma sorted_perm_eq : forall l1 l2 : list (cbor * V),
    StronglySorted klt l1 -> StronglySorted klt l2 -> Permutation l1 l2 -> l1 = l2.
  Proof.
    induction l1 as [|a r1 IH]; intros l2 S1 S2 P.
    - apply Permutation_nil in P. now subst.
    - destruct l2 as [|b r2]; [apply Permutation_sym, Permutation_nil in P; discriminate|].
      inversion S1 as [|? ? S1r F1]; subst. inversion S2 as [|? ? S2r F2]; subst.
      rewrite Forall_forall in F1, F2.
      assert (a = b).
      { assert (Ia : In a (b :: r2)) by (eapply Permutation_in; [exact P | now left]).
        assert (Ib : In b (a :: r1)) by (eapply Permutation_in; [apply Permutation_sym, P | now left]).
        destruct Ia as [->|Ia]; [reflexivity|]. destruct Ib as [->|Ib]; [reflexivity|].
        exfalso. apply (klt_irrefl a). unfold klt. eapply key_ltb_trans; [apply F1, Ib | apply F2, Ia]. }
      subst b. f_equal. apply IH; auto. eapply Permutation_cons_inv; exact P.
  Qed.

  (* C04, dictionary half: any two insertion orders of the same entries give the same emitted map,
     and the emitted keys are strictly ascending (hence each key once) *)
  Theorem ksort_canonical (l1 l2 : list (cbor * V)) :
    NoDup (ekeys l1) -> Permutation l1 l2 ->
    ksort l1 = ksort l2 /\ StronglySorted klt (ksort l1).
  Proof.
    intros N P. assert (N2 : NoDup (ekeys l2)) by (eapply Permutation_NoDup; [apply ekeys_perm, P | exact N]).
    split; [|now apply ksort_sorted].
    apply sorted_perm_eq; try now apply ksort_sorted.
    rewrite !ksort_perm. exact P.
  Qed.
End Sort.

(* ---------- byte-string keys have pairwise distinct encodings ---------- *)
Lemma lenN_app {A} (a b : list A) : lenN (a ++ b) = (lenN a + lenN b)%N.
Proof. rewrite !lenN_length, app_length. lia. Qed.

Lemma enc_CB_inj a b : enc (CB a) = enc (CB b) -> a = b.
Proof.
  cbn [enc]. intros H.
  assert (L : lenN a = lenN b).
  { assert (E : lenN (head 2 (lenN a) ++ a) = lenN (head 2 (lenN b) ++ b)) by now rewrite H.
    rewrite !lenN_app, !head_length in E.
    destruct (N.lt_trichotomy (lenN a) (lenN b)) as [T|[T|T]]; [|exact T|].
    - pose proof (width_mono (lenN a) (lenN b) ltac:(lia)). lia.
    - pose proof (width_mono (lenN b) (lenN a) ltac:(lia)). lia. }
  rewrite L in H. now apply app_inv_head in H.
Qed.

Lemma NoDup_map_inj {A B} (f : A -> B) l : (forall x y, f x = f y -> x = y) -> NoDup l -> NoDup (map f l).
Proof.
  intros I. induction 1 as [|x l Hn Hl IH]; cbn; constructor; [|exact IH].
  intros X. apply in_map_iff in X as (y & E & Hy). apply I in E. now subst.
Qed.

(* ---------- assets and multi-assets ---------- *)
Lemma NoDup_keys_pairs {V} (d : dict V) : wfd d -> NoDup d.
Proof.
  unfold wfd, keys. induction d as [|kv d IH]; cbn; intros H; constructor; inversion H; subst.
  - intros X. apply H2. now apply in_map.
  - now apply IH.
Qed.

Lemma In_a_norm a n q : wfd a -> (In (n, q) (a_norm a) <-> aget a n = q /\ q <> 0%Z).
Proof.
  intros W. unfold a_norm. rewrite filter_In. cbn. rewrite negb_true_iff, Z.eqb_neq. split.
  - intros [I Hz]. split; [|exact Hz]. unfold aget. now rewrite (In_dget _ _ _ W I).
  - intros [G Hz]. split; [|exact Hz]. unfold aget in G. destruct (dget a n) as [q'|] eqn:E; [|congruence].
    subst. now apply dget_In.
Qed.

Lemma a_norm_perm a1 a2 : wfd a1 -> wfd a2 -> (forall n, aget a1 n = aget a2 n) ->
  Permutation (a_norm a1) (a_norm a2).
Proof.
  intros W1 W2 H. apply NoDup_Permutation.
  - apply NoDup_keys_pairs, wfd_a_norm, W1.
  - apply NoDup_keys_pairs, wfd_a_norm, W2.
  - intros [n q]. rewrite !In_a_norm by assumption. now rewrite H.
Qed.

Definition aentry (kv : bytes * Z) : cbor * cbor := (CB (fst kv), cint (snd kv)).

Lemma ekeys_map_CB {V W} (f : bytes * V -> cbor * W) (d : dict V) :
  (forall kv, fst (f kv) = CB (fst kv)) -> wfd d -> NoDup (ekeys (map f d)).
Proof.
  intros Hf Wd. unfold ekeys. rewrite map_map.
  rewrite (map_ext _ (fun kv => enc (CB (fst kv)))) by (intros; now rewrite Hf).
  rewrite <- (map_map fst (fun k => enc (CB k))). apply NoDup_map_inj; [apply enc_CB_inj | exact Wd].
Qed.

Theorem asset_prim_canonical a1 a2 : wfd a1 -> wfd a2 -> (forall n, aget a1 n = aget a2 n) ->
  asset_prim a1 = asset_prim a2.
Proof.
  intros W1 W2 H. unfold asset_prim. f_equal.
  apply ksort_canonical.
  - apply (ekeys_map_CB (fun kv => (CB (fst kv), cint (snd kv)))); [reflexivity | apply wfd_a_norm, W1].
  - apply Permutation_map. now apply a_norm_perm.
Qed.

Lemma a_norm_nil_iff a : wfd a -> (a_norm a = [] <-> forall n, aget a n = 0%Z).
Proof.
  intros W. split.
  - intros E n. rewrite <- (aget_a_norm a n W), E. reflexivity.
  - intros H. destruct (a_norm a) as [|[n q] r] eqn:E; [reflexivity|].
    assert (I : In (n, q) (a_norm a)) by (rewrite E; now left).
    apply In_a_norm in I as [G Hz]; [|exact W]. rewrite H in G. congruence.
Qed.

Lemma In_m_norm m p x : wfm m -> (In (p, x) (m_norm m) <-> x = a_norm (mget m p) /\ x <> [] /\ In p (keys m)).
Proof.
  intros [W F]. unfold m_norm. rewrite filter_In. cbn [snd]. rewrite in_map_iff. split.
  - intros [((k, a) & E & I) Hz]. cbn [fst snd] in E. inversion E; subst k x. unfold mget. rewrite (In_dget _ _ _ W I).
    repeat split.
    + destruct (a_norm a); [discriminate|discriminate].
    + change p with (fst (p, a)). now apply in_map.
  - intros (-> & Hz & I). unfold mget in *. destruct (dget m p) as [a|] eqn:E.
    + split; [|destruct (a_norm a); [congruence|reflexivity]].
      exists (p, a). split; [reflexivity | now apply dget_In].
    + cbn in Hz. congruence.
Qed.

Definition mentry (kv : bytes * asset) : cbor * cbor := (CB (fst kv), asset_prim (snd kv)).

Lemma a_norm_idem a : a_norm (a_norm a) = a_norm a.
Proof.
  unfold a_norm. induction a as [|kv a IH]; cbn; [reflexivity|].
  destruct (snd kv =? 0)%Z eqn:E; cbn; [exact IH | rewrite E; cbn; now rewrite IH].
Qed.

Lemma mget_nonnil_in (m : masset) p : a_norm (mget m p) <> [] -> In p (keys m).
Proof.
  intros H. destruct (in_dec bytes_eq_dec p (keys m)) as [I|I]; [exact I|].
  rewrite (mget_notin m p I) in H. cbn in H. congruence.
Qed.

Theorem masset_entries_perm m1 m2 : wfm m1 -> wfm m2 ->
  (forall p n, content m1 p n = content m2 p n) ->
  Permutation (map mentry (m_norm m1)) (map mentry (m_norm m2)).
Proof.
  intros W1 W2 H.
  assert (K : forall m, wfm m -> NoDup (map mentry (m_norm m))).
  { intros m Wm. pose proof (m_norm_wfm m Wm) as [Wn _].
    apply (NoDup_map_inv fst). rewrite map_map. cbn.
    rewrite <- (map_map fst CB). apply NoDup_map_inj; [now intros x y [=] | exact Wn]. }
  assert (Hp : forall p, asset_prim (a_norm (mget m1 p)) = asset_prim (a_norm (mget m2 p))).
  { intros p. apply asset_prim_canonical; try (apply wfd_a_norm; now apply mget_wfd).
    intros n. rewrite !aget_a_norm by now apply mget_wfd. apply H. }
  assert (Hn : forall p, a_norm (mget m1 p) = [] <-> a_norm (mget m2 p) = []).
  { intros p. rewrite !a_norm_nil_iff by now apply mget_wfd. split; intros X n; [change (content m2 p n = 0%Z); rewrite <- H | change (content m1 p n = 0%Z); rewrite H]; apply X. }
  apply NoDup_Permutation; [now apply K | now apply K |].
  intros [k x]. unfold mentry. rewrite !in_map_iff. split.
  - intros ((p, a) & E & I). cbn in E. inversion E; subst.
    apply In_m_norm in I as (-> & Hz & Ik); [|exact W1].
    exists (p, a_norm (mget m2 p)). cbn. split; [now rewrite Hp|].
    apply In_m_norm; [exact W2|]. repeat split; [now rewrite <- Hn | apply mget_nonnil_in; now rewrite <- Hn].
  - intros ((p, a) & E & I). cbn in E. inversion E; subst.
    apply In_m_norm in I as (-> & Hz & Ik); [|exact W2].
    exists (p, a_norm (mget m1 p)). cbn. split; [now rewrite Hp|].
    apply In_m_norm; [exact W1|]. repeat split; [now rewrite Hn | apply mget_nonnil_in; now rewrite Hn].
Qed.

Theorem masset_prim_canonical m1 m2 : wfm m1 -> wfm m2 ->
  (forall p n, content m1 p n = content m2 p n) -> masset_prim m1 = masset_prim m2.
Proof.
  intros W1 W2 H. unfold masset_prim. f_equal. apply ksort_canonical.
  - apply (ekeys_map_CB mentry); [reflexivity | apply m_norm_wfm, W1].
  - now apply masset_entries_perm.
Qed.

Lemma m_norm_nil_iff m1 m2 : wfm m1 -> wfm m2 ->
  (forall p n, content m1 p n = content m2 p n) -> is_nil (m_norm m1) = is_nil (m_norm m2).
Proof.
  intros W1 W2 H. pose proof (masset_entries_perm m1 m2 W1 W2 H) as P.
  apply Permutation_length in P. rewrite !map_length in P.
  destruct (m_norm m1), (m_norm m2); cbn in *; congruence.
Qed.

(* C04, value half: the bytes of a Value depend only on (coin, content) *)
Theorem value_cbor_canonical v1 v2 : wfv v1 -> wfv v2 ->
  coin v1 = coin v2 -> (forall p n, content (massets v1) p n = content (massets v2) p n) ->
  value_cbor v1 = value_cbor v2.
Proof.
  intros W1 W2 C H. unfold value_cbor, value_prim.
  rewrite (m_norm_nil_iff _ _ W1 W2 H), C, (masset_prim_canonical _ _ W1 W2 H). reflexivity.
Qed.

(* emitted maps carry no zero quantity and no empty policy; a value without assets is a bare integer *)
Theorem emitted_no_zero m : Forall (fun kv => snd kv <> [] /\ Forall (fun nq => snd nq <> 0%Z) (snd kv)) (m_norm m).
Proof. apply m_norm_normalized. Qed.

Theorem bare_int v : wfv v -> (forall p n, content (massets v) p n = 0%Z) -> value_prim v = cint (coin v).
Proof.
  intros W H. unfold value_prim.
  assert (E : is_nil (m_norm (massets v)) = is_nil (m_norm [])).
  { apply m_norm_nil_iff; [exact W | split; constructor | intros p n; rewrite H; reflexivity]. }
  rewrite E. reflexivity.
Qed.

(* ---------- histories ---------- *)
Inductive vop :=
| OAdd (w : value) | OSub (w : value) | ORSub (w : value)      (* v + w, v - w, w - v *)
| OSetItem (p n : bytes) (q : Z)                               (* v.multi_asset[p][n] = q  (creating the policy if absent) *)
| OSetCoin (c : Z)
| OFilterPos                                                   (* multi_asset.filter(lambda p, n, v: v > 0) *)
| ONormalize.
Definition vstep (v : value) (o : vop) : value :=
  match o with
  | OAdd w => v_add v w
  | OSub w => v_sub v w
  | ORSub w => v_sub w v
  | OSetItem p n q => mkValue (coin v) (dset (massets v) p (dset (mget (massets v) p) n q))
  | OSetCoin c => mkValue c (massets v)
  | OFilterPos => mkValue (coin v) (m_filter (fun _ _ q => (0 <? q)%Z) (massets v))
  | ONormalize => mkValue (coin v) (m_norm (massets v))
  end.
Definition wf_op (o : vop) : Prop :=
  match o with OAdd w | OSub w | ORSub w => wfv w | _ => True end.

Lemma m_filter_wfm c m : wfm m -> wfm (m_filter c m).
Proof.
  intros [W F]. unfold m_filter. split.
  - apply wfd_filter. unfold wfd.
    rewrite (keys_map_val (fun kv => filter (fun nq => c (fst kv) (fst nq) (snd nq)) (snd kv))). exact W.
  - apply Forall_forall. intros kv H. apply filter_In in H as [H _].
    apply in_map_iff in H as (x & <- & Hx). cbn. apply wfd_filter.
    rewrite Forall_forall in F. apply (F _ Hx).
Qed.

Lemma vstep_wfv v o : wfv v -> wf_op o -> wfv (vstep v o).
Proof.
  unfold wfv. destruct o as [w|w|w|p n q|c| |]; cbn; intros W Wo.
  - now apply m_add_wfm.
  - now apply m_sub_wfm.
  - now apply m_sub_wfm.
  - pose proof W as [W1 F]. split; [now apply wfd_dset|].
    apply Forall_forall. intros x H. apply In_dset in H as [H| ->].
    + rewrite Forall_forall in F. now apply F.
    + cbn. apply wfd_dset. now apply mget_wfd.
  - exact W.
  - now apply m_filter_wfm.
  - now apply m_norm_wfm.
Qed.

Lemma run_wfv ops : forall v, wfv v -> Forall wf_op ops -> wfv (fold_left vstep ops v).
Proof.
  induction ops as [|o ops IH]; intros v W F; cbn; [exact W|].
  inversion F; subst. apply IH; [now apply vstep_wfv | assumption].
Qed.

(* C04, history form: whatever two operation histories were used, equal content gives equal bytes *)
Theorem history_canonical h1 h2 v1 v2 :
  wfv v1 -> wfv v2 -> Forall wf_op h1 -> Forall wf_op h2 ->
  let r1 := fold_left vstep h1 v1 in let r2 := fold_left vstep h2 v2 in
  coin r1 = coin r2 -> (forall p n, content (massets r1) p n = content (massets r2) p n) ->
  value_cbor r1 = value_cbor r2.
Proof.
  intros W1 W2 F1 F2 r1 r2 C H. apply value_cbor_canonical; auto; now apply run_wfv.
Qed.

Example history_example :
  let v := mkValue 5 [(hx "aa", [(hx "01", 3)])] in
  let h1 := [OSetItem (hx "bb") (hx "") 0; OAdd (mkValue 1 [(hx "cc", [(hx "", 2)])])] in
  let h2 := [OAdd (mkValue 1 [(hx "cc", [(hx "", 2)]); (hx "aa", [(hx "02", 1)])]); OSetItem (hx "aa") (hx "02") 0] in
  value_cbor (fold_left vstep h1 v) = value_cbor (fold_left vstep h2 v)
  /\ massets (fold_left vstep h1 v) <> massets (fold_left vstep h2 v).
Proof. cbn. split; [vm_compute; reflexivity | discriminate]. Qed.
