(* CodecBytes.v — bytes-level corollaries: from_cbor (to_cbor v) = v, re-encoding reproduces the bytes,
   and the body of a transaction is a slice of the transaction bytes (C03). *)
From Coq Require Import NArith ZArith Ascii String List Bool Lia.
From PyC Require Import Base Cbor CborProofs Value Codec CodecProofs.
Import ListNotations.
Open Scope string_scope.
Open Scope list_scope.

Lemma head_nonempty m n : (1 <= length (head m n))%nat.
Proof.
  unfold head. destruct (n <? 24)%N; [cbn; lia|]. destruct (n <? 256)%N; [cbn; lia|].
  destruct (n <? 65536)%N; [cbn; lia|]. destruct (n <? 4294967296)%N; cbn; lia.
Qed.

Lemma enc_nonempty x : (1 <= length (enc x))%nat.
Proof.
  destruct x; cbn [enc]; rewrite ?app_length; try (pose proof (head_nonempty 0 n)); try (pose proof (head_nonempty 1 n));
    try (pose proof (head_nonempty 2 (lenN b))); try (pose proof (head_nonempty 3 (lenN b)));
    try (pose proof (head_nonempty 4 (lenN xs))); try (pose proof (head_nonempty 5 (lenN kvs)));
    try (pose proof (head_nonempty 6 t)); cbn [length]; lia.
Qed.

Lemma list_sum_cons a l : list_sum (a :: l) = (a + list_sum l)%nat.
Proof. reflexivity. Qed.

Lemma concat_length_sum {A} (f : A -> bytes) l : length (concat (map f l)) = list_sum (map (fun x => length (f x)) l).
Proof. induction l as [|x l IH]; [reflexivity|]. cbn [map concat]. rewrite app_length, IH, list_sum_cons. reflexivity. Qed.

(* every node costs at least one byte: sz x <= 3 * |enc x| - 1 *)
Lemma sz_bound : forall x, (sz x + 1 <= 3 * length (enc x))%nat.
Proof.
  induction x as [n|n|b|cs|b|xs IH|xs IH|kvs IH|t y IH|v] using cbor_ind'; cbn [sz enc].
  - pose proof (head_nonempty 0 n). lia.
  - pose proof (head_nonempty 1 n). lia.
  - rewrite app_length. pose proof (head_nonempty 2 (lenN b)). lia.
  - cbn [length]. rewrite app_length, concat_length_sum. cbn [length].
    assert (length cs <= list_sum (map (fun x => length (enc_chunk x)) cs))%nat.
    { induction cs as [|c cs IHc]; [cbn; lia|]. cbn [map length]. rewrite list_sum_cons. unfold enc_chunk at 1. rewrite app_length.
      pose proof (head_nonempty 2 (lenN c)). lia. }
    lia.
  - rewrite app_length. pose proof (head_nonempty 3 (lenN b)). lia.
  - rewrite app_length, concat_length_sum.
    assert (length xs + list_sum (map sz xs) <= 3 * list_sum (map (fun x => length (enc x)) xs))%nat.
    { induction IH as [|x xs Hx Hr IHr]; [cbn; lia|]. cbn [map length]. rewrite !list_sum_cons. lia. }
    pose proof (head_nonempty 4 (lenN xs)). lia.
  - cbn [length]. rewrite app_length, concat_length_sum. cbn [length].
    assert (length xs + list_sum (map sz xs) <= 3 * list_sum (map (fun x => length (enc x)) xs))%nat.
    { induction IH as [|x xs Hx Hr IHr]; [cbn; lia|]. cbn [map length]. rewrite !list_sum_cons. lia. }
    lia.
  - rewrite app_length, concat_length_sum.
    assert (length kvs + list_sum (map (fun kv => (sz (fst kv) + sz (snd kv))%nat) kvs)
            <= 3 * list_sum (map (fun kv => length (enc (fst kv) ++ enc (snd kv))) kvs))%nat.
    { induction IH as [|kv kvs [Hk Hv] Hr IHr]; [cbn; lia|]. cbn [map length]. rewrite !list_sum_cons, app_length. lia. }
    pose proof (head_nonempty 5 (lenN kvs)). lia.
  - rewrite app_length. pose proof (head_nonempty 6 t). lia.
  - cbn. lia.
Qed.

Lemma decode3_enc p : wf p -> decode3 (enc p) = Some p.
Proof.
  intros W. unfold decode3.
  pose proof (dec_enc p W (3 * length (enc p))%nat []) as D. rewrite app_nil_r in D.
  pose proof (sz_bound p). rewrite D by lia. reflexivity.
Qed.

(* object -> bytes -> object, and the re-encoding of the result is byte-identical *)
Theorem from_cbor_to_cbor S k c v bs p :
  ht S k (TCls c) v -> (k <= fuel)%nat ->
  to_prim S fuel v = Ok p -> wf p -> flatten p = p -> bs = enc p ->
  to_cbor S v = Ok bs /\ from_cbor S c bs = Ok v
  /\ (forall v', from_cbor S c bs = Ok v' -> to_cbor S v' = Ok bs).
Proof.
  intros Hht Hk Ep Wp Fp ->.
  assert (T : to_cbor S v = Ok (enc p)) by (unfold to_cbor; rewrite Ep; reflexivity).
  assert (F : from_cbor S c (enc p) = Ok v).
  { unfold from_cbor, loads. rewrite (decode3_enc p Wp). cbn [option_map]. rewrite Fp.
    exact (roundtrip S k (TCls c) v fuel p Hht Ep fuel Hk). }
  repeat split; auto. intros v' E. rewrite F in E. inversion E; subst. exact T.
Qed.

(* the body is a contiguous slice of the transaction bytes: the primitive of an array-encoded object
   starts with the array head followed by the encoding of its first element *)
Lemma enc_array_first x r : enc (CA (x :: r)) = head 4 (lenN (x :: r)) ++ enc x ++ concat (map enc r).
Proof. reflexivity. Qed.

Definition body_slice (tx_bytes : bytes) (pbody : cbor) (rest : list cbor) : Prop :=
  tx_bytes = head 4 (lenN (pbody :: rest)) ++ enc pbody ++ concat (map enc rest).

(* identifier: the id computed from the decoded transaction is the hash of the body bytes as received *)
Section TxId.
  Variable H : nat -> bytes -> bytes.       (* BLAKE2b with digest size; abstract *)
  Definition tx_id_of (S : schema) (body : pv) : res bytes := do bs <- to_cbor S body; Ok (H 32 bs).

  Theorem tx_id_survives S k body pbody rest :
    ht S k (TCls "TransactionBody") body -> (k <= fuel)%nat ->
    to_prim S fuel body = Ok pbody -> wf pbody -> flatten pbody = pbody ->
    forall tx_bytes, body_slice tx_bytes pbody rest ->
    forall body', from_cbor S "TransactionBody" (enc pbody) = Ok body' ->
    tx_id_of S body' = Ok (H 32 (enc pbody)).
  Proof.
    intros Hht Hk Ep Wp Fp tx_bytes _ body' E.
    destruct (from_cbor_to_cbor S k "TransactionBody" body (enc pbody) pbody Hht Hk Ep Wp Fp eq_refl) as (_ & _ & R).
    unfold tx_id_of. rewrite (R body' E). reflexivity.
  Qed.
End TxId.
