(* AdaptersOracle.v — glue for the C20 cases files: serialisation of the rendered service documents (the JSON
   text served to the real adapters comes from here), boolean equality model = implementation, and the property's
   decision procedure `faithfulb` (sound for `faithful_any`, see AdaptersProofs.faithfulb_sound) that is evaluated
   on the IMPLEMENTATION's outputs. *)
From Coq Require Import NArith ZArith Ascii String List Bool Lia.
From Coq Require Import Init.Byte.
From PyC Require Import Base Cbor Dict Value Json Adapters.
Import ListNotations.
Open Scope string_scope.
Open Scope list_scope.

(* blake2b-224 restricted to the preimages of one case: (preimage, digest) pairs computed by hashlib *)
Fixpoint hash_tbl (t : list (bytes * bytes)) (x : bytes) : bytes :=
  match t with
  | [] => []
  | (pre, d) :: r => if bytes_eqb pre x then d else hash_tbl r x
  end.

(* ---------- documents as text ---------- *)
Definition service_docs (sv : service) : list (string * string) :=
  ("main", json_to_string (sv_main sv))
  :: map (fun kd => (("script:" ++ fst kd)%string, json_to_string (snd kd))) (sv_script sv)
  ++ map (fun kd => (("script_cbor:" ++ fst kd)%string, json_to_string (snd kd))) (sv_script_cbor sv)
  ++ map (fun kd => (("script_json:" ++ fst kd)%string, json_to_string (snd kd))) (sv_script_json sv)
  ++ map (fun kd => (("datum:" ++ fst kd)%string, json_to_string (snd kd))) (sv_datum sv).
Definition service_ok (sv : service) : bool :=
  json_ok (sv_main sv) &&
  forallb (fun kd => json_ok (snd kd)) (sv_script sv ++ sv_script_cbor sv ++ sv_script_json sv ++ sv_datum sv).

(* a case: service, queried address, the UTxO models of the response, and per UTxO the two blake2b-224 digests
   (of version||body and of version||cbor-wrapped body) computed by hashlib for its Plutus reference script *)
Definition case := (svc * string * list utxo_model * list (bytes * bytes))%type.
Definition case_hash (us : list utxo_model) (ds : list (bytes * bytes)) : bytes -> bytes :=
  hash_tbl (flat_map (fun ud => match u_script (fst ud) with
                                | Some (SPlutus v b) => [(n2b v :: b, fst (snd ud)); (n2b v :: enc (CB b), snd (snd ud))]
                                | _ => []
                                end) (combine us ds)).
(* documents as [key; text; key; text; ...], every string as its list of bytes (cheap to print and to parse) *)
Definition case_docs (c : case) : list (list byte) :=
  let '(x, addr, us, _) := c in
  flat_map (fun kt => [list_byte_of_string (fst kt); list_byte_of_string (snd kt)]) (service_docs (render x addr us)).

(* ---------- boolean equalities ---------- *)
Definition opt_eqb {A} (e : A -> A -> bool) (a b : option A) : bool :=
  match a, b with Some x, Some y => e x y | None, None => true | _, _ => false end.
Fixpoint list_eqb {A} (e : A -> A -> bool) (a b : list A) : bool :=
  match a, b with
  | [], [] => true
  | x :: a', y :: b' => e x y && list_eqb e a' b'
  | _, _ => false
  end.

Fixpoint nscript_eqb (a b : nscript) : bool :=
  let all := fix all (l m : list nscript) : bool :=
    match l, m with
    | [], [] => true
    | x :: l', y :: m' => nscript_eqb x y && all l' m'
    | _, _ => false
    end in
  match a, b with
  | NSig x, NSig y => bytes_eqb x y
  | NAll l, NAll m | NAny l, NAny m => all l m
  | NAtLeast n l, NAtLeast k m => Z.eqb n k && all l m
  | NAfter s, NAfter t | NBefore s, NBefore t => Z.eqb s t
  | _, _ => false
  end.
Definition script_eqb (a b : script_m) : bool :=
  match a, b with
  | SPlutus v x, SPlutus w y => N.eqb v w && bytes_eqb x y
  | SNative x, SNative y => nscript_eqb x y
  | _, _ => false
  end.

Fixpoint pyd_eqb (a b : pyd) : bool :=
  let all := fix all (l m : list pyd) : bool :=
    match l, m with
    | [], [] => true
    | x :: l', y :: m' => pyd_eqb x y && all l' m'
    | _, _ => false
    end in
  match a, b with
  | YTag t l, YTag u m | YTag102 t l, YTag102 u m => Z.eqb t u && all l m
  | YDict l, YDict m =>
      (fix allp (l m : list (pyd * pyd)) : bool :=
         match l, m with
         | [], [] => true
         | x :: l', y :: m' => pyd_eqb (fst x) (fst y) && pyd_eqb (snd x) (snd y) && allp l' m'
         | _, _ => false
         end) l m
  | YInt x, YInt y => Z.eqb x y
  | YBytes x, YBytes y | YByteString x, YByteString y => bytes_eqb x y
  | YIList l, YIList m => all l m
  | _, _ => false
  end.
Definition adatum_eqb (a b : adatum) : bool :=
  match a, b with
  | ARaw x, ARaw y => bytes_eqb x y
  | AData x, AData y => pyd_eqb x y
  | _, _ => false
  end.

(* raw structure, insertion order included *)
Definition asset_same (a b : asset) : bool :=
  list_eqb (fun x y => bytes_eqb (fst x) (fst y) && Z.eqb (snd x) (snd y)) a b.
Definition masset_same (a b : masset) : bool :=
  list_eqb (fun x y => bytes_eqb (fst x) (fst y) && asset_same (snd x) (snd y)) a b.

Definition autxo_eqb (a b : autxo) : bool :=
  bytes_eqb (a_txid a) (a_txid b) && Z.eqb (a_index a) (a_index b) && String.eqb (a_addr a) (a_addr b) &&
  Z.eqb (a_lovelace a) (a_lovelace b) && masset_same (a_assets a) (a_assets b) &&
  opt_eqb bytes_eqb (a_datum_hash a) (a_datum_hash b) && opt_eqb adatum_eqb (a_datum a) (a_datum b) &&
  opt_eqb script_eqb (a_script a) (a_script b).

Definition result_eqb (a b : result (list autxo)) : bool :=
  match a, b with
  | Ok x, Ok y => list_eqb autxo_eqb x y
  | Err j, Err k => String.eqb j k
  | _, _ => false
  end.

(* ---------- correspondence: model = implementation (exact, error kind included) ---------- *)
Definition model_out (c : case) : result (list autxo) :=
  let '(x, addr, us, ds) := c in parse (case_hash us ds) x addr (render x addr us).
Definition c20_corr (c : case) (impl : result (list autxo)) : bool :=
  let '(x, addr, us, _) := c in
  service_ok (render x addr us) && result_eqb (model_out c) impl.

(* ---------- the property's decision procedure on an adapter output ---------- *)
Fixpoint bytes_nodup (l : list bytes) : bool :=
  match l with
  | [] => true
  | x :: r => negb (existsb (bytes_eqb x) r) && bytes_nodup r
  end.
Definition datum_okb (d : datum_m) (r : option bytes * option adatum) : bool :=
  match d with
  | DNone => match r with (None, None) => true | _ => false end
  | DHash h known =>
      opt_eqb bytes_eqb (fst r) (Some h) &&
      match snd r with
      | None => true
      | Some (ARaw b) => match known with Some pre => bytes_eqb pre b | None => false end
      | Some _ => false
      end
  | DInline h raw pd =>
      match fst r with None => true | Some h' => bytes_eqb h' h end &&
      match snd r with
      | Some (ARaw b) => bytes_eqb b raw
      | Some (AData y) => match pdata_of_pyd y with Some pd' => pyd_eqb (pyd_of_pdata pd') (pyd_of_pdata pd) | None => false end
      | None => false
      end
  end.

Definition faithfulb (addr : string) (u : utxo_model) (o : autxo) : bool :=
  bytes_eqb (a_txid o) (u_txid u) && Z.eqb (a_index o) (Z.of_N (u_index u)) && String.eqb (a_addr o) addr &&
  Z.eqb (a_lovelace o) (Z.of_N (u_lovelace u)) &&
  (* every modelled (policy, name) is present with exactly its quantity *)
  forallb (fun e => match dget (mget (a_assets o) (fst (fst e))) (snd (fst e)) with
                    | Some q => Z.eqb q (Z.of_N (snd e))
                    | None => false
                    end) (flatten (u_assets u)) &&
  (* nothing else is present *)
  forallb (fun pa => forallb (fun nq => match flookup (flatten (u_assets u)) (fst pa) (fst nq) with
                                        | Some _ => true | None => false end) (snd pa)) (a_assets o) &&
  (* dicts are well formed, no empty policy *)
  bytes_nodup (keys (a_assets o)) &&
  forallb (fun pa => bytes_nodup (keys (snd pa)) && negb (is_nil (snd pa))) (a_assets o) &&
  datum_okb (u_datum u) (a_datum_hash o, a_datum o) &&
  opt_eqb script_eqb (a_script o) (u_script u).

Fixpoint forallb2 {A B} (f : A -> B -> bool) (l : list A) (m : list B) : bool :=
  match l, m with
  | [], [] => true
  | x :: l', y :: m' => f x y && forallb2 f l' m'
  | _, _ => false
  end.

(* every modelled UTxO is returned, in order, faithfully; nothing else is returned *)
Definition c20_oracle (c : case) (impl : result (list autxo)) : bool :=
  let '(x, addr, us, _) := c in
  match impl with
  | Ok outs => forallb2 (faithfulb addr) us outs
  | Err _ => false
  end.

Definition case_supported (c : case) : bool :=
  let '(x, _, us, _) := c in forallb (fun u => script_supported x (u_script u)) us.
