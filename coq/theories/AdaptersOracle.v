(* AdaptersOracle.v — glue for the C20 cases files: serialisation of the rendered service documents (the JSON
   text served to the real adapters comes from here), boolean equality model = implementation, and the property's
   decision procedure `faithfulb` (sound for `faithful_any`, see AdaptersProofs.faithfulb_sound) that is evaluated
   on the IMPLEMENTATION's outputs. *)
From Coq Require Import Uint63.
From Coq Require Import NArith ZArith Ascii String List Bool Lia Permutation.
From Coq Require Import Init.Byte.
From PyC Require Import Base Cbor Dict Value Json Adapters AdaptersProofs.
Import ListNotations.
Open Scope string_scope.
Open Scope list_scope.

(* blake2b-224 restricted to the preimages of one case: (preimage, digest) pairs computed by hashlib *)
Fixpoint hash_tbl (t : list (bytes * bytes)) (x : bytes) : bytes :=
  match t with
  | [] => []
  | (pre, d) :: r => if bytes_eqb pre x then d else hash_tbl r x
  end.

(* ---------- documents as text ---------- *)
Definition service_docs (sv : service) : list (string * string) :=
  ("main", json_to_string (sv_main sv))
  :: map (fun kd => (("script:" ++ fst kd)%string, json_to_string (snd kd))) (sv_script sv)
  ++ map (fun kd => (("script_cbor:" ++ fst kd)%string, json_to_string (snd kd))) (sv_script_cbor sv)
  ++ map (fun kd => (("script_json:" ++ fst kd)%string, json_to_string (snd kd))) (sv_script_json sv)
  ++ map (fun kd => (("datum:" ++ fst kd)%string, json_to_string (snd kd))) (sv_datum sv).
Definition service_ok (sv : service) : bool :=
  json_ok (sv_main sv) &&
  forallb (fun kd => json_ok (snd kd)) (sv_script sv ++ sv_script_cbor sv ++ sv_script_json sv ++ sv_datum sv).

(* a case: service, queried address, the UTxO models of the response, and per UTxO the two blake2b-224 digests
   (of version||body and of version||cbor-wrapped body) computed by hashlib for its Plutus reference script *)
Definition case := (svc * string * list utxo_model * list (bytes * bytes))%type.
Definition case_hash (us : list utxo_model) (ds : list (bytes * bytes)) : bytes -> bytes :=
  hash_tbl (flat_map (fun ud => match u_script (fst ud) with
                                | Some (SPlutus v b) => [(n2b v :: b, fst (snd ud)); (n2b v :: enc (CB b), snd (snd ud))]
                                | _ => []
                                end) (combine us ds)).
(* ---------- cheap literals / printing for the cases files (glue only; no theorem depends on it) ----------
   string and list-of-constructor literals cost coqc 40-50 us per character, primitive 63-bit integers are
   parsed and printed natively: byte strings travel as big-endian groups of 7 bytes *)
Definition byte_of_int (i : Uint63.int) : byte := n2b (Z.to_N (Uint63.to_Z i)).
Fixpoint bytes_of_int (k : nat) (i : Uint63.int) : bytes :=       (* the k low-order bytes, most significant first *)
  match k with
  | O => []
  | S k' => bytes_of_int k' (Uint63.lsr i 8%uint63) ++ [byte_of_int (Uint63.land i 255%uint63)]
  end.
(* ub n groups : the n bytes packed in groups of 7 (the last group holds the remaining 1..7 bytes) *)
Fixpoint ub (n : nat) (l : list Uint63.int) : bytes :=
  match l with
  | [] => []
  | i :: r => if Nat.leb n 7 then bytes_of_int n i else bytes_of_int 7 i ++ ub (n - 7) r
  end.
Definition int_of_byte (b : byte) : Uint63.int := Uint63.of_Z (Z.of_N (b2n b)).
Fixpoint pack_go (l : list byte) (acc : Uint63.int) (k : nat) : list Uint63.int :=
  match l with
  | [] => match k with O => [] | _ => [acc] end
  | b :: r => let acc' := Uint63.add (Uint63.mul acc 256%uint63) (int_of_byte b) in
              match k with
              | 6%nat => acc' :: pack_go r 0%uint63 0
              | _ => pack_go r acc' (S k)
              end
  end.
(* length, then the groups *)
Definition pack (s : string) : list Uint63.int :=
  let l := list_byte_of_string s in Uint63.of_Z (Z.of_nat (length l)) :: pack_go l 0%uint63 0.

(* the flat listing order as a permutation of the grouped listing, given by indices *)
Definition perm_flat (a : uassets) (idx : list nat) : flat_assets :=
  map (fun i => nth i (flatten a) ([], [], 0%N)) idx.

(* documents as [key; text; key; text; ...], every string packed *)
Definition case_docs (c : case) : list (list Uint63.int) :=
  let '(x, addr, us, _) := c in
  flat_map (fun kt => [pack (fst kt); pack (snd kt)]) (service_docs (render x addr us)).

(* ---------- boolean equalities ---------- *)
Definition opt_eqb {A} (e : A -> A -> bool) (a b : option A) : bool :=
  match a, b with Some x, Some y => e x y | None, None => true | _, _ => false end.
Section ListEq.
  Context {A : Type} (e : A -> A -> bool).
  Fixpoint list_eqb (a b : list A) : bool :=
    match a, b with
    | [], [] => true
    | x :: a', y :: b' => e x y && list_eqb a' b'
    | _, _ => false
    end.
End ListEq.

Fixpoint nscript_eqb (a b : nscript) : bool :=
  match a, b with
  | NSig x, NSig y => bytes_eqb x y
  | NAll l, NAll m | NAny l, NAny m => list_eqb nscript_eqb l m
  | NAtLeast n l, NAtLeast k m => Z.eqb n k && list_eqb nscript_eqb l m
  | NAfter s, NAfter t | NBefore s, NBefore t => Z.eqb s t
  | _, _ => false
  end.
Definition script_eqb (a b : script_m) : bool :=
  match a, b with
  | SPlutus v x, SPlutus w y => N.eqb v w && bytes_eqb x y
  | SNative x, SNative y => nscript_eqb x y
  | _, _ => false
  end.

Fixpoint pyd_eqb (a b : pyd) : bool :=
  match a, b with
  | YTag t l, YTag u m | YTag102 t l, YTag102 u m => Z.eqb t u && list_eqb pyd_eqb l m
  | YDict l, YDict m => list_eqb (fun x y => pyd_eqb (fst x) (fst y) && pyd_eqb (snd x) (snd y)) l m
  | YInt x, YInt y => Z.eqb x y
  | YBytes x, YBytes y | YByteString x, YByteString y => bytes_eqb x y
  | YIList l, YIList m => list_eqb pyd_eqb l m
  | _, _ => false
  end.
Fixpoint pdata_eqb (a b : pdata) : bool :=
  match a, b with
  | PConstr c l, PConstr d m => Z.eqb c d && list_eqb pdata_eqb l m
  | PMap l, PMap m => list_eqb (fun x y => pdata_eqb (fst x) (fst y) && pdata_eqb (snd x) (snd y)) l m
  | PList l, PList m => list_eqb pdata_eqb l m
  | PInt x, PInt y => Z.eqb x y
  | PBytes x, PBytes y => bytes_eqb x y
  | _, _ => false
  end.
Definition adatum_eqb (a b : adatum) : bool :=
  match a, b with
  | ARaw x, ARaw y => bytes_eqb x y
  | AData x, AData y => pyd_eqb x y
  | _, _ => false
  end.

(* raw structure, insertion order included *)
Definition asset_same (a b : asset) : bool :=
  list_eqb (fun x y => bytes_eqb (fst x) (fst y) && Z.eqb (snd x) (snd y)) a b.
Definition masset_same (a b : masset) : bool :=
  list_eqb (fun x y => bytes_eqb (fst x) (fst y) && asset_same (snd x) (snd y)) a b.

Definition autxo_eqb (a b : autxo) : bool :=
  bytes_eqb (a_txid a) (a_txid b) && Z.eqb (a_index a) (a_index b) && String.eqb (a_addr a) (a_addr b) &&
  Z.eqb (a_lovelace a) (a_lovelace b) && masset_same (a_assets a) (a_assets b) &&
  opt_eqb bytes_eqb (a_datum_hash a) (a_datum_hash b) && opt_eqb adatum_eqb (a_datum a) (a_datum b) &&
  opt_eqb script_eqb (a_script a) (a_script b).

Definition result_eqb (a b : result (list autxo)) : bool :=
  match a, b with
  | Ok x, Ok y => list_eqb autxo_eqb x y
  | Err j, Err k => String.eqb j k
  | _, _ => false
  end.

(* ---------- correspondence: model = implementation (exact, error kind included) ---------- *)
Definition model_out (c : case) : result (list autxo) :=
  let '(x, addr, us, ds) := c in parse (case_hash us ds) x addr (render x addr us).
Definition c20_corr (c : case) (impl : result (list autxo)) : bool :=
  let '(x, addr, us, _) := c in
  service_ok (render x addr us) && result_eqb (model_out c) impl.

(* ---------- the property's decision procedure on an adapter output ---------- *)
Fixpoint bytes_nodup (l : list bytes) : bool :=
  match l with
  | [] => true
  | x :: r => negb (existsb (bytes_eqb x) r) && bytes_nodup r
  end.
Definition datum_okb (d : datum_m) (r : option bytes * option adatum) : bool :=
  match d with
  | DNone => match r with (None, None) => true | _ => false end
  | DHash h known =>
      opt_eqb bytes_eqb (fst r) (Some h) &&
      match snd r with
      | None => true
      | Some (ARaw b) => match known with Some pre => bytes_eqb pre b | None => false end
      | Some _ => false
      end
  | DInline h raw pd =>
      match fst r with None => true | Some h' => bytes_eqb h' h end &&
      match snd r with
      | Some (ARaw b) => bytes_eqb b raw
      | Some (AData y) => match pdata_of_pyd y with Some pd' => pdata_eqb pd' pd | None => false end
      | None => false
      end
  end.

Definition faithfulb (addr : string) (u : utxo_model) (o : autxo) : bool :=
  bytes_eqb (a_txid o) (u_txid u) && Z.eqb (a_index o) (Z.of_N (u_index u)) && String.eqb (a_addr o) addr &&
  Z.eqb (a_lovelace o) (Z.of_N (u_lovelace u)) &&
  (* every modelled (policy, name) is present with exactly its quantity *)
  forallb (fun e => match dget (mget (a_assets o) (fst (fst e))) (snd (fst e)) with
                    | Some q => Z.eqb q (Z.of_N (snd e))
                    | None => false
                    end) (flatten (u_assets u)) &&
  (* nothing else is present *)
  forallb (fun pa => forallb (fun nq => match flookup (flatten (u_assets u)) (fst pa) (fst nq) with
                                        | Some _ => true | None => false end) (snd pa)) (a_assets o) &&
  (* dicts are well formed, no empty policy *)
  bytes_nodup (keys (a_assets o)) &&
  forallb (fun pa => bytes_nodup (keys (snd pa)) && negb (is_nil (snd pa))) (a_assets o) &&
  datum_okb (u_datum u) (a_datum_hash o, a_datum o) &&
  opt_eqb script_eqb (a_script o) (u_script u).

Fixpoint forallb2 {A B} (f : A -> B -> bool) (l : list A) (m : list B) : bool :=
  match l, m with
  | [], [] => true
  | x :: l', y :: m' => f x y && forallb2 f l' m'
  | _, _ => false
  end.

(* every modelled UTxO is returned, in order, faithfully; nothing else is returned *)
Definition c20_oracle (c : case) (impl : result (list autxo)) : bool :=
  let '(x, addr, us, _) := c in
  match impl with
  | Ok outs => forallb2 (faithfulb addr) us outs
  | Err _ => false
  end.

Definition case_supported (c : case) : bool :=
  let '(x, _, us, _) := c in forallb (fun u => script_supported x (u_script u)) us.


(* ================================================================ soundness of the decision procedure *)
Lemma list_eqb_eq {A} (e : A -> A -> bool) l : Forall (fun x => forall y, e x y = true -> x = y) l ->
  forall m, list_eqb e l m = true -> l = m.
Proof.
  induction 1 as [|x r Hx Hr IH]; intros [|y m]; cbn; try discriminate; [reflexivity|].
  intros E. apply andb_true_iff in E as [E1 E2]. f_equal; [now apply Hx | now apply IH].
Qed.

Lemma nscript_eqb_eq : forall a b, nscript_eqb a b = true -> a = b.
Proof.
  induction a as [kh|l IH|l IH|n l IH|s|s] using nscript_ind'; intros [kh'|l'|l'|n' l'|s'|s']; cbn [nscript_eqb]; try discriminate; intros E.
  - f_equal. now apply bytes_eqb_eq.
  - f_equal. now apply (list_eqb_eq nscript_eqb).
  - f_equal. now apply (list_eqb_eq nscript_eqb).
  - apply andb_true_iff in E as [E1 E2]. apply Z.eqb_eq in E1. subst. f_equal. now apply (list_eqb_eq nscript_eqb).
  - f_equal. now apply Z.eqb_eq.
  - f_equal. now apply Z.eqb_eq.
Qed.

Lemma pdata_eqb_eq : forall a b, pdata_eqb a b = true -> a = b.
Proof.
  induction a as [c fs IH|kvs IH|l IH|z|b0] using pdata_ind'; intros [c' fs'|kvs'|l'|z'|b']; cbn [pdata_eqb]; try discriminate; intros E.
  - apply andb_true_iff in E as [E1 E2]. apply Z.eqb_eq in E1. subst. f_equal. now apply (list_eqb_eq pdata_eqb).
  - f_equal. revert E. apply list_eqb_eq. eapply Forall_impl; [|exact IH].
    intros [k v] [Hk Hv] [k' v'] E. cbn [fst snd] in *. apply andb_true_iff in E as [E1 E2]. f_equal; auto.
  - f_equal. now apply (list_eqb_eq pdata_eqb).
  - f_equal. now apply Z.eqb_eq.
  - f_equal. now apply bytes_eqb_eq.
Qed.

Lemma script_eqb_eq a b : script_eqb a b = true -> a = b.
Proof.
  destruct a, b; cbn; try discriminate; intros E.
  - apply andb_true_iff in E as [E1 E2]. apply N.eqb_eq in E1. apply bytes_eqb_eq in E2. now subst.
  - f_equal. now apply nscript_eqb_eq.
Qed.

Lemma opt_eqb_eq {A} (e : A -> A -> bool) a b : (forall x y, e x y = true -> x = y) -> opt_eqb e a b = true -> a = b.
Proof. intros He. destruct a, b; cbn; try discriminate; [|reflexivity]. intros E. f_equal. now apply He. Qed.

Lemma bytes_nodup_sound l : bytes_nodup l = true -> NoDup l.
Proof.
  induction l as [|x r IH]; cbn; [constructor|]. intros E. apply andb_true_iff in E as [E1 E2].
  constructor; [|now apply IH]. intros Hin. apply negb_true_iff in E1.
  assert (existsb (bytes_eqb x) r = true) by (apply existsb_exists; exists x; split; [assumption | apply bytes_eqb_refl]).
  congruence.
Qed.

Lemma datum_okb_sound d r : datum_okb d r = true -> datum_ok d r.
Proof.
  destruct d as [|h known|h raw pd], r as [dh da]; cbn [datum_okb datum_ok fst snd].
  - destruct dh, da; try discriminate. reflexivity.
  - intros E. apply andb_true_iff in E as [E1 E2]. split.
    + destruct dh as [h'|]; cbn in E1; [|discriminate]. apply bytes_eqb_eq in E1. now subst.
    + destruct da as [[b|y]|]; [| discriminate | now left].
      destruct known as [pre|]; [|discriminate]. apply bytes_eqb_eq in E2. subst. right. now exists b.
  - intros E. apply andb_true_iff in E as [E1 E2]. split.
    + destruct dh as [h'|]; [right; apply bytes_eqb_eq in E1; now subst | now left].
    + destruct da as [[b|y]|]; [| | discriminate].
      * apply bytes_eqb_eq in E2. subst. now left.
      * right. exists y. split; [reflexivity|]. destruct (pdata_of_pyd y) as [pd'|]; [|discriminate].
        apply pdata_eqb_eq in E2. now subst.
Qed.

Lemma flookup_in_some l p n q : In (p, n, q) l -> exists q', flookup l p n = Some q'.
Proof.
  induction l as [|[[p' n'] q'] r IH]; [intros []|]. cbn [flookup]. intros [E|Hin].
  - inversion E; subst. rewrite !bytes_eqb_refl. now exists q.
  - destruct (bytes_eqb p' p && bytes_eqb n' n); [now exists q' | now apply IH].
Qed.

Theorem faithfulb_sound addr u o : wf_assets (u_assets u) -> faithfulb addr u o = true -> faithful_any addr u o.
Proof.
  intros Hwa E. unfold faithfulb in E.
  repeat (apply andb_true_iff in E as [E ?]).
  rename H into Hscript, H0 into Hdatum, H1 into Hgroups, H2 into Hkeys, H3 into Hextra, H4 into Hall, H5 into Hlov, H6 into Haddr, H7 into Hix.
  apply bytes_eqb_eq in E. apply Z.eqb_eq in Hix, Hlov. apply String.eqb_eq in Haddr.
  rewrite forallb_forall in Hall, Hextra, Hgroups.
  pose proof (nodup_fkeys_flatten _ Hwa) as Hnd.
  (* every modelled entry is there with its quantity *)
  assert (A1 : forall p n q, In (p, n, q) (flatten (u_assets u)) -> dget (mget (a_assets o) p) n = Some (Z.of_N q)).
  { intros p n q Hin. specialize (Hall _ Hin). cbn [fst snd] in Hall.
    destruct (dget (mget (a_assets o) p) n) as [q'|]; [|discriminate]. apply Z.eqb_eq in Hall. now subst. }
  (* nothing else is there *)
  assert (A2 : forall p n, In n (keys (mget (a_assets o) p)) -> exists q, flookup (flatten (u_assets u)) p n = Some q).
  { intros p n Hin. unfold mget in Hin. destruct (dget (a_assets o) p) as [a|] eqn:Ea; [|contradiction].
    apply dget_In in Ea. specialize (Hextra _ Ea). cbn [fst snd] in Hextra. rewrite forallb_forall in Hextra.
    apply in_map_iff in Hin as ([n' q'] & En & Hin). cbn in En. subst n'. specialize (Hextra _ Hin). cbn [fst] in Hextra.
    destruct (flookup (flatten (u_assets u)) p n) as [q|]; [now exists q | discriminate]. }
  unfold faithful_any.
  refine (conj E (conj Hix (conj Haddr (conj Hlov (conj _ (conj _ (conj _ (conj _ _)))))))).
  - intros p n. unfold content, aget, ucontent. destruct (flookup (flatten (u_assets u)) p n) as [q|] eqn:Ef.
    + apply flookup_some in Ef. now rewrite (A1 _ _ _ Ef).
    + destruct (dget (mget (a_assets o) p) n) as [q'|] eqn:Ed; [|reflexivity].
      assert (Hin : In n (keys (mget (a_assets o) p))).
      { destruct (in_dec bytes_eq_dec n (keys (mget (a_assets o) p))) as [Hi|Hi]; [assumption|].
        apply dget_None_notin in Hi. congruence. }
      destruct (A2 _ _ Hin) as [q Hq]. congruence.
  - intros p n. unfold present, upresent. split.
    + intros Hin. destruct (A2 _ _ Hin) as [q Hq]. apply flookup_some in Hq.
      change (p, n) with (fkey (p, n, q)). now apply in_map.
    + intros Hin. apply in_map_iff in Hin as ([[p' n'] q] & Ek & Hin). unfold fkey in Ek. cbn in Ek. inversion Ek; subst.
      pose proof (A1 _ _ _ Hin) as Hd.
      destruct (in_dec bytes_eq_dec n (keys (mget (a_assets o) p))) as [Hi|Hi]; [assumption|].
      apply dget_None_notin in Hi. congruence.
  - split.
    + now apply bytes_nodup_sound.
    + intros p a Hin. specialize (Hgroups _ Hin). cbn [snd] in Hgroups. apply andb_true_iff in Hgroups as [G1 G2].
      split; [now apply bytes_nodup_sound|]. destruct a; [discriminate | discriminate].
  - now apply datum_okb_sound.
  - apply (opt_eqb_eq script_eqb); [apply script_eqb_eq | assumption].
Qed.

Theorem c20_oracle_sound x addr us ds impl :
  Forall (fun u => wf_assets (u_assets u)) us -> c20_oracle (x, addr, us, ds) impl = true ->
  exists outs, impl = Ok outs /\ Forall2 (faithful_any addr) us outs.
Proof.
  intros Hw. unfold c20_oracle. destruct impl as [outs|k]; [|discriminate]. intros E. exists outs. split; [reflexivity|].
  revert outs E. induction Hw as [|u r Hu Hr IH]; intros [|o outs]; cbn [forallb2]; try discriminate; [constructor|].
  intros E. apply andb_true_iff in E as [E1 E2]. constructor; [now apply faithfulb_sound | now apply IH].
Qed.

(* the per-service datum convention is an instance of the service-independent reading *)
Lemma datum_report_ok x d : datum_ok d (datum_report x d).
Proof.
  destruct d as [|h known|h raw pd]; cbn [datum_report datum_ok].
  - reflexivity.
  - destruct x, known as [pre|]; cbn; split; try reflexivity; try (now left); right; now exists pre.
  - destruct x; cbn; split; try (now left); try (right; reflexivity).
    right. exists (pyd_of_pdata pd). split; [reflexivity | apply pdata_of_pyd_rt].
Qed.

Lemma faithful_is_faithful_any x addr u o : faithful x addr u o -> faithful_any addr u o.
Proof.
  intros (A & B & C & D & E & F & G & Hd & I). unfold faithful_any.
  refine (conj A (conj B (conj C (conj D (conj E (conj F (conj G (conj _ I)))))))).
  rewrite Hd. apply datum_report_ok.
Qed.
