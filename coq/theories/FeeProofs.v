(* FeeProofs.v — proofs about the C07 models of Fee.v (statements are collected in props/C07.v). *)
From Coq Require Import ZArith QArith Qround String List Bool Lia.
From Coq Require Import PrimFloat.
From PyC Require Import Base Cbor CborProofs Fee.
Import ListNotations.
Open Scope Z_scope.

(* ---------------------------------------------------------------- ceilings and floors of rationals *)
Lemma Qceiling_add_le x y : Qceiling (x + y) <= Qceiling x + Qceiling y.
Proof.
  rewrite <- (Qceiling_Z (Qceiling x + Qceiling y)).
  apply Qceiling_resp_le. rewrite inject_Z_plus.
  apply Qplus_le_compat; apply Qle_ceiling.
Qed.

Lemma Qceiling_add_ge x y : Qceiling x + Qceiling y <= Qceiling (x + y) + 1.
Proof.
  assert (H : (inject_Z (Qceiling x + Qceiling y - 2) < inject_Z (Qceiling (x + y)))%Q).
  { eapply Qlt_le_trans; [|apply Qle_ceiling].
    replace (Qceiling x + Qceiling y - 2) with ((Qceiling x - 1) + (Qceiling y - 1)) by lia.
    rewrite inject_Z_plus. apply Qplus_lt_le_compat; [apply Qceiling_lt | apply Qlt_le_weak, Qceiling_lt]. }
  rewrite <- Zlt_Qlt in H. lia.
Qed.

Lemma Qfloor_le_ceiling x : Qfloor x <= Qceiling x.
Proof.
  assert (H : (inject_Z (Qfloor x) <= inject_Z (Qceiling x))%Q) by (eapply Qle_trans; [apply Qfloor_le | apply Qle_ceiling]).
  now rewrite <- Zle_Qle in H.
Qed.
Lemma Qceiling_le_floor1 x : Qceiling x <= Qfloor x + 1.
Proof.
  assert (H : (inject_Z (Qceiling x - 1) < inject_Z (Qfloor x + 1))%Q) by (eapply Qlt_trans; [apply Qceiling_lt | apply Qlt_floor]).
  rewrite <- Zlt_Qlt in H. lia.
Qed.

(* ---------------------------------------------------------------- typed reading of the fee function *)
Definition int_or_err (v : pyval) : Prop := (exists t, v = VInt t) \/ (exists e, v = VErr e).

Lemma py_ceil_shape v : int_or_err (py_ceil v).
Proof.
  destruct v; cbn; try (right; eexists; reflexivity); try (left; eexists; reflexivity).
  destruct (f_ceil f); [left|right]; eexists; reflexivity.
Qed.

Lemma py_cond_shape c a b : int_or_err a -> int_or_err b -> int_or_err (py_cond c a b).
Proof. unfold py_cond. destruct (truth c) as [[|]|e]; auto. intros; right; eexists; reflexivity. Qed.
Lemma py_let_shape v k : (forall x, int_or_err (k x)) -> int_or_err (py_let v k).
Proof. unfold py_let. intros H. destruct v; auto. right; eexists; reflexivity. Qed.
Lemma py_block_shape {S} (r : res S) k : (forall x, int_or_err (k x)) -> int_or_err (py_block r k).
Proof. unfold py_block. intros H. destruct r; auto. right; eexists; reflexivity. Qed.

Lemma tiered_shape fuel c n : int_or_err (tiered_model fuel c n).
Proof.
  unfold tiered_model.
  apply py_cond_shape; [left; eexists; reflexivity|].
  apply py_let_shape; intros ms.
  apply py_cond_shape; [right; eexists; reflexivity|].
  apply py_let_shape; intros tot.
  apply py_block_shape. intros [a b]. apply py_ceil_shape.
Qed.

Definition typed_ctx (c : context) (a b : Z) (ps pm : Q) : Prop :=
  min_fee_coefficient (protocol_param c) = VInt a /\ min_fee_constant (protocol_param c) = VInt b /\
  price_step (protocol_param c) = VFrac ps /\ price_mem (protocol_param c) = VFrac pm.

Lemma fee_model_typed fuel c a b ps pm l s m r : typed_ctx c a b ps pm ->
  fee_model fuel c (VInt l) (VInt s) (VInt m) (VInt r) =
  match tiered_model fuel c (VInt r) with
  | VInt T => VInt (fee_typed a b ps pm T l s m)
  | v => v
  end.
Proof.
  intros (Ha & Hb & Hs & Hm). unfold fee_model. rewrite Ha, Hb, Hs, Hm. cbn [py_let].
  destruct (tiered_shape fuel c (VInt r)) as [[T E]|[e E]]; rewrite E; cbn; [|reflexivity].
  unfold fee_typed. f_equal. lia.
Qed.

(* ---------------------------------------------------------------- bounds against the ledger rule *)
Import Ledger.
Lemma fee_typed_bounds p T l s m r :
  Qfloor (tier p r) <= T <= Qfloor (tier p r) + 1 ->
  min_fee p l s m r <= fee_typed (la p) (lb p) (lps p) (lpm p) T l s m <= min_fee p l s m r + 2.
Proof.
  intros HT. unfold min_fee, fee_typed.
  assert (E : Qceiling (lpm p * inject_Z m + lps p * inject_Z s) = Qceiling (inject_Z s * lps p + inject_Z m * lpm p)).
  { apply Qceiling_comp. ring. }
  rewrite E.
  pose proof (Qceiling_add_le (inject_Z s * lps p) (inject_Z m * lpm p)).
  pose proof (Qceiling_add_ge (inject_Z s * lps p) (inject_Z m * lpm p)).
  lia.
Qed.

(* the code's own exact reading: ceil of the exact tier value is within [floor, floor+1] *)
Lemma ceil_tier_in_range p r : Qfloor (tier p r) <= Qceiling (tier p r) <= Qfloor (tier p r) + 1.
Proof. split; [apply Qfloor_le_ceiling | apply Qceiling_le_floor1]. Qed.

Lemma fee_typed_mono a b ps pm T l s m l' s' m' :
  0 <= a -> (0 <= ps)%Q -> (0 <= pm)%Q -> l <= l' -> s <= s' -> m <= m' ->
  fee_typed a b ps pm T l s m <= fee_typed a b ps pm T l' s' m'.
Proof.
  intros Ha Hs Hm Hl Hs' Hm'. unfold fee_typed.
  assert (Qceiling (inject_Z s * ps) <= Qceiling (inject_Z s' * ps)).
  { apply Qceiling_resp_le. apply Qmult_le_compat_r; [now rewrite <- Zle_Qle | assumption]. }
  assert (Qceiling (inject_Z m * pm) <= Qceiling (inject_Z m' * pm)).
  { apply Qceiling_resp_le. apply Qmult_le_compat_r; [now rewrite <- Zle_Qle | assumption]. }
  nia.
Qed.

Lemma max_tx_fee_model_eq fuel c r ms st mm : 
  max_tx_size (protocol_param c) = VInt ms -> max_tx_ex_steps (protocol_param c) = VInt st ->
  max_tx_ex_mem (protocol_param c) = VInt mm ->
  max_tx_fee_model fuel c (VInt r) = fee_model fuel c (VInt ms) (VInt st) (VInt mm) (VInt r).
Proof. intros H1 H2 H3. unfold max_tx_fee_model. rewrite H1, H2, H3. reflexivity. Qed.

(* ---------------------------------------------------------------- fuel of the tier loop *)
Definition nofuel (v : pyval) : Prop := v <> VErr EFuel.

Lemma arith_nofuel oz oq ofl a b : nofuel a -> nofuel b -> nofuel (arith oz oq ofl a b).
Proof.
  unfold nofuel, arith, int_to_float. intros Ha Hb.
  destruct a, b; try congruence; try discriminate;
    repeat match goal with |- context [if ?x then _ else _] => destruct x end; discriminate.
Qed.

Lemma tier_loop_fuel : forall fuel m r tot n b, 0 < r -> nofuel tot -> nofuel b -> nofuel m ->
  (Z.to_nat (n / r) < fuel)%nat ->
  tier_loop fuel m (VInt r) (tot, VInt n, b) <> Err EFuel.
Proof.
  induction fuel as [|fuel IH]; intros m r tot n b Hr Ht Hb Hm Hf; [lia|].
  cbn [tier_loop]. unfold blk_cond. cbn [py_gt truth].
  destruct (r <? n) eqn:E; [|discriminate].
  apply Z.ltb_lt in E.
  pose proof (arith_nofuel Z.add Qplus PrimFloat.add tot (py_mul b (VInt r)) Ht
                (arith_nofuel Z.mul Qmult PrimFloat.mul b (VInt r) Hb ltac:(discriminate))) as H1.
  pose proof (arith_nofuel Z.mul Qmult PrimFloat.mul b m Hb Hm) as H2.
  fold py_mul py_add in H1, H2.
  unfold blk_bind, blk_let at 1.
  destruct (py_add tot (py_mul b (VInt r))) eqn:E1; try (cbn; unfold nofuel in *; congruence);
  cbn [py_sub arith blk_let];
  destruct (py_mul b m) eqn:E2; try (cbn; unfold nofuel in *; congruence);
  try (apply IH; try assumption; try discriminate;
       replace (n - r) with (n + (-1) * r) by lia; rewrite Z.div_add by lia;
       assert (1 <= n / r) by (apply Z.div_le_lower_bound; lia); lia).
Qed.

(* ---------------------------------------------------------------- tier_go = tier *)
Lemma tier_go_prefix : forall k rng mult acc price n fuel, 0 < rng ->
  Z.of_nat k * rng <= n < (Z.of_nat k + 1) * rng -> (k < fuel)%nat ->
  tier_go fuel rng mult acc price n = tier_last (tier_prefix k rng mult acc price) (n - Z.of_nat k * rng).
Proof.
  induction k as [|k IH]; intros rng mult acc price n fuel Hr Hn Hf; (destruct fuel as [|fuel]; [lia|]).
  - cbn [tier_go tier_prefix]. replace (n <? rng) with true by (symmetry; apply Z.ltb_lt; lia).
    unfold tier_last; cbn [fst snd]. now replace (n - Z.of_nat 0 * rng) with n by lia.
  - cbn [tier_go tier_prefix]. replace (n <? rng) with false by (symmetry; apply Z.ltb_ge; lia).
    rewrite IH by lia. f_equal. lia.
Qed.

Lemma tier_go_tier p n : 0 < lrange p -> 0 <= n ->
  tier_go (tier_fuel (lrange p) n) (lrange p) (lmult p) 0%Q (lbase p) n = tier p n.
Proof.
  intros Hr Hn. unfold tier, tier_fuel.
  assert (E : Z.of_nat (Z.to_nat (n / lrange p)) = n / lrange p) by (apply Z2Nat.id, Z.div_pos; lia).
  apply tier_go_prefix; [assumption| |lia].
  rewrite E. pose proof (Z.mul_div_le n (lrange p) Hr). pose proof (Z.mul_succ_div_gt n (lrange p) Hr). lia.
Qed.

(* ---------------------------------------------------------------- exhaustive sweeps over a finite range *)
Fixpoint range_all (k : nat) (f : Z -> bool) (lo : Z) : bool :=
  match k with O => f lo | S k' => range_all k' f lo && range_all k' f (lo + 2 ^ Z.of_nat k') end.

Lemma range_all_spec : forall k f lo, range_all k f lo = true -> forall i, lo <= i < lo + 2 ^ Z.of_nat k -> f i = true.
Proof.
  induction k as [|k IH]; intros f lo H i Hi.
  - cbn in *. now replace i with lo by lia.
  - cbn [range_all] in H. apply andb_true_iff in H as [H1 H2].
    rewrite Nat2Z.inj_succ, Z.pow_succ_r in Hi by lia.
    destruct (Z_lt_le_dec i (lo + 2 ^ Z.of_nat k)); [apply (IH f lo H1) | apply (IH f _ H2)]; lia.
Qed.

Definition tier_check (c : context) (n : Z) (expect : Z) : bool :=
  match tiered_model 16 c (VInt n) with VInt t => t =? expect | _ => false end.

Definition sweep_tier (c : context) (p : lparams) (maxn : Z) (k : nat) : bool :=
  let ap := tier_prefix k (lrange p) (lmult p) 0%Q (lbase p) in
  range_all 15 (fun j => let n := Z.of_nat k * lrange p + j in
      if (j <? lrange p) && (n <=? maxn) then tier_check c n (Qceiling (tier_last ap j)) else true) 0.

Definition sweep (c : context) (p : lparams) (maxn : Z) (tiers : nat) : bool :=
  forallb (sweep_tier c p maxn) (seq 0 tiers).

Lemma sweep_sound c p maxn tiers : 0 < lrange p <= 32768 -> sweep c p maxn tiers = true ->
  forall n, 0 <= n <= maxn -> n / lrange p < Z.of_nat tiers ->
  tiered_model 16 c (VInt n) = VInt (Qceiling (tier p n)).
Proof.
  intros Hr H n Hn Hk. unfold sweep in H. rewrite forallb_forall in H.
  set (k := Z.to_nat (n / lrange p)).
  assert (E : Z.of_nat k = n / lrange p) by (apply Z2Nat.id, Z.div_pos; lia).
  specialize (H k ltac:(apply in_seq; lia)). unfold sweep_tier in H.
  pose proof (Z.mul_div_le n (lrange p) ltac:(lia)). pose proof (Z.mul_succ_div_gt n (lrange p) ltac:(lia)).
  pose proof (range_all_spec _ _ _ H (n - Z.of_nat k * lrange p) ltac:(cbn; lia)) as Hj.
  cbv beta zeta in Hj.
  replace (Z.of_nat k * lrange p + (n - Z.of_nat k * lrange p)) with n in Hj by lia.
  replace (n - Z.of_nat k * lrange p <? lrange p) with true in Hj by (symmetry; apply Z.ltb_lt; lia).
  replace (n <=? maxn) with true in Hj by (symmetry; apply Z.leb_le; lia).
  cbn [andb] in Hj. unfold tier_check in Hj. unfold tier. fold k.
  destruct (tiered_model 16 c (VInt n)); try discriminate.
  apply Z.eqb_eq in Hj. now subst.
Qed.

(* the tier function reads only the two reference-script parameters *)
Definition ref_ctx (mrs mfr : pyval) : context :=
  {| protocol_param := {| min_fee_constant := VNone; min_fee_coefficient := VNone; max_tx_size := VNone;
       price_mem := VNone; price_step := VNone; max_tx_ex_mem := VNone; max_tx_ex_steps := VNone;
       maximum_reference_scripts_size := mrs; min_fee_reference_scripts := mfr |} |}.
Lemma tiered_model_ext fuel c n :
  tiered_model fuel c n = tiered_model fuel (ref_ctx (maximum_reference_scripts_size (protocol_param c))
                                                    (min_fee_reference_scripts (protocol_param c))) n.
Proof. reflexivity. Qed.

Definition ref_params (base : pyval) (rng : Z) (mult : pyval) : pyval :=
  VDict [("base"%string, base); ("range"%string, VInt rng); ("multiplier"%string, mult)].
Definition ref_max (n : Z) : pyval := VDict [("bytes"%string, VInt n)].

Definition mainnet_lp : lparams :=
  {| la := 44; lb := 155381; lpm := 577 # 10000; lps := 721 # 10000000; lbase := 15; lrange := 25600; lmult := 6 # 5 |}.
Definition fixture_lp : lparams :=
  {| la := 44; lb := 155381; lpm := 577 # 10000; lps := 721 # 10000000; lbase := 44; lrange := 25600; lmult := 6 # 5 |}.
(* 15.0 and 1.2 as binary64 *)
Definition mainnet_ref := ref_params (VFloat 0x1.ep+3) 25600 (VFloat 0x1.3333333333333p+0).
Definition fixture_ref := ref_params (VInt 44) 25600 (VFloat 0x1.3333333333333p+0).


(* ---------------------------------------------------------------- the two estimate passes *)
Lemma widthZ_mono a b : a <= b -> widthZ a <= widthZ b.
Proof.
  intros H. unfold widthZ. apply N2Z.inj_le. apply width_mono. lia.
Qed.
Lemma widthZ_range a : 1 <= widthZ a <= 9.
Proof.
  unfold widthZ, width.
  destruct (Z.to_N a <? 24)%N; [lia|]. destruct (Z.to_N a <? 256)%N; [lia|].
  destruct (Z.to_N a <? 65536)%N; [lia|]. destruct (Z.to_N a <? 4294967296)%N; lia.
Qed.
Lemma widthZ_max0 a b : widthZ (Z.max 0 b) <= widthZ (Z.max a b).
Proof.
  unfold widthZ. apply N2Z.inj_le. apply width_mono. lia.
Qed.

Section TwoPassProofs.
  Variables (est lo : Z -> Z) (t : twopass) (maxsize : Z).
  Hypothesis est_mono : forall s s', s <= s' -> est s <= est s'.
  Hypothesis lo_mono : forall s s', s <= s' -> lo s <= lo s'.
  Hypothesis lo_est : forall s, lo s <= est s.
  Hypothesis est_max : forall s, s <= maxsize -> est s <= tp_M t.
  Hypothesis size_ok : tp_size2 est t <= maxsize.
  Hypothesis superset : 0 <= tp_kc t + widthZ (tp_coin1 est t).

  Lemma tp_sizes : tp_size1 t <= tp_size2 est t.
  Proof using superset.
    clear - superset.
    unfold tp_size1, tp_size2. pose proof (widthZ_max0 (tp_fee1 est t) (tp_M t)). lia.
  Qed.
  Lemma tp_fees : tp_fee1 est t <= tp_fee2 est t.
  Proof using est_mono superset. apply est_mono, tp_sizes. Qed.
  Lemma tp_final_le : tp_final est t <= tp_size2 est t.
  Proof using est_mono est_max size_ok superset.
    unfold tp_final, tp_size2.
    assert (H1 : widthZ (tp_fee2 est t) <= widthZ (Z.max (tp_fee1 est t) (tp_M t))).
    { apply widthZ_mono. pose proof (est_max _ size_ok) as H. unfold tp_fee2. clear - H. lia. }
    assert (H2 : widthZ (tp_coin2 est t) <= widthZ (tp_coin1 est t)).
    { apply widthZ_mono. unfold tp_coin2, tp_coin1. pose proof tp_fees as H. clear - H. lia. }
    clear - H1 H2. lia.
  Qed.
  Theorem two_pass_sufficient : lo (tp_final est t) <= tp_fee2 est t.
  Proof.
    eapply Z.le_trans; [apply lo_mono, tp_final_le|]. apply lo_est.
  Qed.
  Lemma tp_slack : tp_size2 est t - tp_final est t <= 16.
  Proof using.
    clear. unfold tp_size2, tp_final.
    pose proof (widthZ_range (tp_fee2 est t)). pose proof (widthZ_range (Z.max (tp_fee1 est t) (tp_M t))).
    pose proof (widthZ_range (tp_coin2 est t)). pose proof (widthZ_range (tp_coin1 est t)). lia.
  Qed.
End TwoPassProofs.


(* instantiated with the typed fee function and the ledger rule *)
Section Builder.
  Variables (p : lparams) (T buffer s m r maxsize maxsteps maxmem : Z) (t : twopass).
  Definition est_fn (size : Z) : Z := fee_typed (la p) (lb p) (lps p) (lpm p) T size s m + buffer.
  Hypothesis Ha : 0 <= la p.
  Hypothesis Hps : (0 <= lps p)%Q.
  Hypothesis Hpm : (0 <= lpm p)%Q.
  Hypothesis Hbuf : 0 <= buffer.
  Hypothesis HT : Qfloor (tier p r) <= T <= Qfloor (tier p r) + 1.
  Hypothesis Hs : s <= maxsteps.
  Hypothesis Hm : m <= maxmem.
  Hypothesis HM : tp_M t = fee_typed (la p) (lb p) (lps p) (lpm p) T maxsize maxsteps maxmem + buffer.
  Hypothesis size_ok : tp_size2 est_fn t <= maxsize.
  Hypothesis superset : 0 <= tp_kc t + widthZ (tp_coin1 est_fn t).

  Lemma est_fn_mono x y : x <= y -> est_fn x <= est_fn y.
  Proof. intros H. unfold est_fn. pose proof (fee_typed_mono (la p) (lb p) (lps p) (lpm p) T x s m y s m Ha Hps Hpm H). lia. Qed.
  Lemma min_fee_mono x y : x <= y -> min_fee p x s m r <= min_fee p y s m r.
  Proof. intros H. unfold min_fee. nia. Qed.
  Lemma min_fee_le_est x : min_fee p x s m r <= est_fn x.
  Proof. unfold est_fn. pose proof (fee_typed_bounds p T x s m r HT). lia. Qed.
  Lemma est_fn_max x : x <= maxsize -> est_fn x <= tp_M t.
  Proof.
    intros H. rewrite HM. unfold est_fn.
    pose proof (fee_typed_mono (la p) (lb p) (lps p) (lpm p) T x s m maxsize maxsteps maxmem Ha Hps Hpm H Hs Hm). lia.
  Qed.

  Theorem builder_sufficient : min_fee p (tp_final est_fn t) s m r <= tp_fee2 est_fn t.
  Proof.
    apply (two_pass_sufficient est_fn (fun x => min_fee p x s m r) t maxsize);
      [exact est_fn_mono | exact min_fee_mono | exact min_fee_le_est | exact est_fn_max | exact size_ok | exact superset].
  Qed.

  Theorem builder_tight : tp_fee2 est_fn t <= min_fee p (tp_final est_fn t) s m r + la p * 16 + 2 + buffer.
  Proof.
    pose proof (tp_slack est_fn t) as Hsl.
    pose proof (tp_final_le est_fn t maxsize est_fn_mono est_fn_max size_ok superset) as Hle.
    pose proof (fee_typed_bounds p T (tp_final est_fn t) s m r HT) as Hb.
    assert (E : tp_fee2 est_fn t = est_fn (tp_final est_fn t) + la p * (tp_size2 est_fn t - tp_final est_fn t)).
    { unfold tp_fee2 at 1. unfold est_fn at 1 3, fee_typed. lia. }
    rewrite E. unfold est_fn at 1. nia.
  Qed.
End Builder.

(* Why the max-width placeholder is needed: the scheme before the fix (pass 2 sized with the fee of pass 1)
   under-pays.  Concrete instance = the one-input payment observed on the real builder with
   min_fee_constant 55328, coefficient 44: fee 65536 for a 234-byte transaction whose minimum is 65624. *)
Definition old_witness : twopass := {| tp_k0 := 192; tp_kc := 32; tp_M := 2074224; tp_avail := 8000000; tp_c0 := 0 |}.
Definition old_est (size : Z) : Z := 44 * size + 55328.
Lemma old_scheme_refuted :
  old_fee2 old_est old_witness = 65536 /\ old_final old_est old_witness = 234 /\
  old_fee2 old_est old_witness < old_est (old_final old_est old_witness).
Proof. vm_compute. repeat split. Qed.
(* the same instance under the present scheme is priced at its final size *)
Example new_scheme_witness :
  tp_fee2 old_est old_witness = 65624 /\ tp_final old_est old_witness = 234 /\
  old_est (tp_final old_est old_witness) <= tp_fee2 old_est old_witness.
Proof. vm_compute. repeat split; discriminate. Qed.

(* ---------------------------------------------------------------- non-vacuity / tightness examples *)
(* both ends of the bound of fee_typed_bounds are attained: +0 ... *)
Example fee_bound_attained_0 :
  let p := mainnet_lp in
  fee_typed (la p) (lb p) (lps p) (lpm p) (Qceiling (tier p 0)) 300 0 0 = min_fee p 300 0 0 0.
Proof. vm_compute. reflexivity. Qed.
(* ... and +2 (both price terms fractional with sum below 1, tier value not integral) *)
Example fee_bound_attained_2 :
  let p := mainnet_lp in
  fee_typed (la p) (lb p) (lps p) (lpm p) (Qceiling (tier p 51201)) 300 1 1 = min_fee p 300 1 1 51201 + 2.
Proof. vm_compute. reflexivity. Qed.

(* the hypotheses of builder_sufficient are satisfiable (mainnet parameters, a one-input payment) *)
Example builder_hyps_sat :
  let p := mainnet_lp in
  let t := {| tp_k0 := 192; tp_kc := 32; tp_M := 44 * 16384 + 155381 + 721000 + 577000; tp_avail := 8000000; tp_c0 := 0 |} in
  tp_M t = fee_typed (la p) (lb p) (lps p) (lpm p) 0 16384 10000000000 10000000 + 0 /\
  tp_size2 (est_fn p 0 0 0 0) t <= 16384 /\ 0 <= tp_kc t + widthZ (tp_coin1 (est_fn p 0 0 0 0) t) /\
  tp_fee2 (est_fn p 0 0 0 0) t = 165677.
Proof. vm_compute. repeat split; discriminate. Qed.

(* the fast float conversions agree with the specification-level ones on sample values *)
Example f_of_Z_samples :
  forallb (fun z => PrimFloat.eqb (f_of_Z z) (f_of_Z_ref z))
    [0; 1; -1; 15; 44; 25600; 200000; 1126400; 9007199254740991; -9007199254740991; 9007199254740993; 2 ^ 70 + 1] = true.
Proof. vm_compute. reflexivity. Qed.
Example f_ceil_samples :
  map f_ceil [0x1.3333333333333p+0; (-0x1.8p+1); 0x1p-1074; (-0x1p-1074); 0x1.0p+60; 0x1.72d0e5604189p+22]%float
  = [Ok 2; Ok (-3); Ok 1; Ok 0; Ok (2 ^ 60); Ok 6075450].
Proof. vm_compute. reflexivity. Qed.
(* float prices (not the declared type): the product is rounded before the ceiling, so a price with a large
   numerator can under-estimate by one lovelace; mainnet-size numerators cannot (needs steps*numerator >= 2^52) *)

(* ------------------------------------------------------------------ the UTxOs a transaction touches *)
Import Touched.

Lemma oref_eqb_eq a b : oref_eqb a b = true <-> a = b.
Proof.
  destruct a as [i n], b as [j m]. unfold oref_eqb. cbn [fst snd]. rewrite andb_true_iff, bytes_eqb_eq, N.eqb_eq.
  split; [intros [-> ->]; reflexivity | intros E; inversion E; auto].
Qed.
Lemma oref_eqb_refl a : oref_eqb a a = true.
Proof. now apply oref_eqb_eq. Qed.
Lemma oref_eqb_sym a b : oref_eqb a b = oref_eqb b a.
Proof.
  destruct (oref_eqb a b) eqn:E, (oref_eqb b a) eqn:F; try reflexivity.
  - apply oref_eqb_eq in E. subst. now rewrite oref_eqb_refl in F.
  - apply oref_eqb_eq in F. subst. now rewrite oref_eqb_refl in E.
Qed.
Lemma futxo_eqb_refl u : futxo_eqb u u = true.
Proof.
  unfold futxo_eqb. rewrite oref_eqb_refl. cbn [andb].
  destruct (fu_script u), (fu_key u); cbn [optZ_eqb optB_eqb andb]; rewrite ?Z.eqb_refl, ?bytes_eqb_refl; reflexivity.
Qed.

Lemma resolve_ref tbl : forall r u, resolve tbl r = Some u -> fu_ref u = r.
Proof.
  induction tbl as [|x t IH]; cbn [resolve]; intros r u H; [discriminate|].
  destruct (oref_eqb (fu_ref x) r) eqn:E.
  - inversion H; subst. now apply oref_eqb_eq.
  - now apply IH.
Qed.

(* two UTxOs taken from one UTxO set are equal (UTxO.__eq__) exactly when their references are *)
Lemma futxo_eqb_resolved tbl r1 r2 u1 u2 :
  resolve tbl r1 = Some u1 -> resolve tbl r2 = Some u2 -> futxo_eqb u1 u2 = oref_eqb r1 r2.
Proof.
  intros H1 H2. destruct (oref_eqb r1 r2) eqn:E.
  - apply oref_eqb_eq in E. subst. rewrite H1 in H2. inversion H2; subst. apply futxo_eqb_refl.
  - unfold futxo_eqb. rewrite (resolve_ref _ _ _ H1), (resolve_ref _ _ _ H2), E. reflexivity.
Qed.

Lemma fu_mem_resolved tbl r u : resolve tbl r = Some u ->
  forall seenR seen, resolve_all tbl seenR = Some seen -> fu_mem u seen = omem r seenR.
Proof.
  intros Hr. induction seenR as [|s t IH]; cbn [resolve_all]; intros seen H.
  - inversion H. reflexivity.
  - destruct (resolve tbl s) as [us|] eqn:Es; [|discriminate].
    destruct (resolve_all tbl t) as [ut|] eqn:Et; [|discriminate]. inversion H; subst.
    unfold fu_mem, omem. cbn [existsb]. rewrite (futxo_eqb_resolved _ _ _ _ _ Hr Es).
    f_equal. apply (IH _ eq_refl).
Qed.

Lemma resolve_all_app tbl : forall a b ua ub, resolve_all tbl a = Some ua -> resolve_all tbl b = Some ub ->
  resolve_all tbl (a ++ b) = Some (ua ++ ub).
Proof.
  induction a as [|r t IH]; cbn [resolve_all app]; intros b ua ub Ha Hb.
  - inversion Ha. exact Hb.
  - destruct (resolve tbl r) as [u|]; [|discriminate].
    destruct (resolve_all tbl t) as [ut|] eqn:Et; [|discriminate]. inversion Ha; subst.
    rewrite (IH _ _ _ eq_refl Hb). reflexivity.
Qed.

Lemma ref_size_loop_spec tbl : forall rs us seenR seen acc,
  resolve_all tbl rs = Some us -> resolve_all tbl seenR = Some seen ->
  ref_size_loop seen us acc = acc + fold_right Z.add 0 (map (script_bytes_at tbl) (distinct_from seenR rs)).
Proof.
  induction rs as [|r t IH]; cbn [resolve_all]; intros us seenR seen acc Hu Hs.
  - inversion Hu. cbn. lia.
  - destruct (resolve tbl r) as [u|] eqn:Er; [|discriminate].
    destruct (resolve_all tbl t) as [ut|] eqn:Et; [|discriminate]. inversion Hu; subst.
    cbn [ref_size_loop distinct_from]. rewrite (fu_mem_resolved _ _ _ Er _ _ Hs).
    destruct (omem r seenR) eqn:Em.
    + apply IH; [reflexivity | assumption].
    + rewrite (IH ut (r :: seenR) (u :: seen)); [| reflexivity | cbn [resolve_all]; rewrite Er, Hs; reflexivity].
      cbn [map fold_right]. unfold script_bytes_at at 2. rewrite Er. destruct (fu_script u); lia.
Qed.

(* `_ref_script_size` on the UTxO objects the builder holds = the ledger's non-distinct reference-script bytes of the
   transaction that spends / references them, whatever scripts they carry and however often a UTxO is listed *)
Theorem ref_size_ledger tbl ins refs uins urefs :
  resolve_all tbl ins = Some uins -> resolve_all tbl refs = Some urefs ->
  builder_ref_size uins urefs = ref_script_bytes tbl ins refs.
Proof.
  intros Hi Hr. unfold builder_ref_size, ref_script_bytes, distinct.
  rewrite (ref_size_loop_spec tbl (ins ++ refs) (uins ++ urefs) [] [] 0 (resolve_all_app _ _ _ _ _ Hi Hr) eq_refl). lia.
Qed.

(* the specification sums over a SET: [distinct] has no repetition and the same members *)
Lemma distinct_from_In : forall l seen x, In x (distinct_from seen l) <-> (In x l /\ omem x seen = false).
Proof.
  induction l as [|r t IH]; cbn [distinct_from]; intros seen x.
  - cbn. tauto.
  - destruct (omem r seen) eqn:Em.
    + rewrite IH. cbn [In]. split; [tauto|]. intros [[->|H] Hx]; [congruence | tauto].
    + cbn [In]. rewrite IH. unfold omem at 1. cbn [existsb]. fold (omem x seen). rewrite orb_false_iff. split.
      * intros [->|[H [_ Hx]]]; [split; [now left | exact Em] | tauto].
      * intros [[->|H] Hx]; [now left|]. destruct (oref_eqb x r) eqn:E; [apply oref_eqb_eq in E; subst; now left | tauto].
Qed.
Lemma distinct_from_NoDup : forall l seen, NoDup (distinct_from seen l).
Proof.
  induction l as [|r t IH]; cbn [distinct_from]; intros seen; [constructor|].
  destruct (omem r seen); [apply IH|]. constructor; [|apply IH].
  rewrite distinct_from_In. intros [_ H]. unfold omem in H. cbn [existsb] in H. now rewrite oref_eqb_refl in H.
Qed.
Theorem distinct_is_set l : NoDup (distinct l) /\ forall x, In x (distinct l) <-> In x l.
Proof.
  split; [apply distinct_from_NoDup|]. intros x. unfold distinct. rewrite distinct_from_In. cbn. tauto.
Qed.

Lemma flat_map_keys_resolved tbl : forall rs us, resolve_all tbl rs = Some us ->
  flat_map fu_keys us = flat_map (keys_at tbl) rs.
Proof.
  induction rs as [|r t IH]; cbn [resolve_all]; intros us H.
  - inversion H. reflexivity.
  - destruct (resolve tbl r) as [u|] eqn:Er; [|discriminate].
    destruct (resolve_all tbl t) as [ut|] eqn:Et; [|discriminate]. inversion H; subst.
    cbn [flat_map]. unfold keys_at at 1. rewrite Er. f_equal. now apply IH.
Qed.

(* one placeholder witness per key the ledger asks a witness for, when the count is taken on the inputs and
   collateral inputs of the final body *)
Theorem witness_count_ledger tbl ins coll uins ucoll req skeys :
  resolve_all tbl ins = Some uins -> resolve_all tbl coll = Some ucoll ->
  builder_witness_count uins ucoll req skeys = Z.of_nat (List.length (needed_keys tbl ins coll req skeys)).
Proof.
  intros Hi Hc. unfold builder_witness_count, needed_keys.
  now rewrite (flat_map_keys_resolved tbl _ _ (resolve_all_app _ _ _ _ _ Hi Hc)).
Qed.

(* Why a count taken BEFORE the builder appended the collateral it chose is not enough: the final transaction
   carries one more witness than the estimate had placeholders for. *)
Definition ex_tbl : list futxo :=
  [ {| fu_id := hx "11"; fu_ix := 0; fu_script := None; fu_key := None |};                 (* script-locked, pays *)
    {| fu_id := hx "22"; fu_ix := 1; fu_script := None; fu_key := Some (hx "09") |};       (* the collateral *)
    {| fu_id := hx "33"; fu_ix := 0; fu_script := Some 3000; fu_key := Some (hx "07") |};  (* carries a script *)
    {| fu_id := hx "44"; fu_ix := 0; fu_script := Some 3000; fu_key := Some (hx "07") |} ].
Example stale_witness_count :
  builder_witness_count [ {| fu_id := hx "11"; fu_ix := 0; fu_script := None; fu_key := None |} ] [] [] [] = 0 /\
  List.length (needed_keys ex_tbl [(hx "11", 0%N)] [(hx "22", 1%N)] [] []) = 1%nat.
Proof. vm_compute. split; reflexivity. Qed.
(* non-vacuity of ref_size_ledger, and the point of "non-distinct": the same 3000-byte script on two spent UTxOs and
   a UTxO listed twice *)
Example ref_size_two_copies :
  resolve_all ex_tbl [(hx "33", 0%N); (hx "44", 0%N)] <> None /\
  ref_script_bytes ex_tbl [(hx "33", 0%N); (hx "44", 0%N)] [(hx "33", 0%N)] = 6000.
Proof. vm_compute. split; [discriminate | reflexivity]. Qed.
