(* ValueProofs.v — C05: the operators of Value.v are exact component-wise integer arithmetic on
   content; results are normalised; == and <= are the component-wise relations. *)
From Coq Require Import NArith ZArith Ascii String List Bool Lia Permutation.
From PyC Require Import Base Cbor Dict Value.
Import ListNotations.
Open Scope Z_scope.

(* ---------- assets ---------- *)
Lemma aget_nil n : aget [] n = 0.
Proof. reflexivity. Qed.

Lemma wfd_a_norm a : wfd a -> wfd (a_norm a).
Proof. apply wfd_filter. Qed.

Lemma aget_a_norm a n : wfd a -> aget (a_norm a) n = aget a n.
Proof.
  intros W. unfold aget, a_norm. rewrite dget_filter by assumption.
  destruct (dget a n) as [q|]; [|reflexivity]. cbn.
  destruct (q =? 0) eqn:E; cbn; [apply Z.eqb_eq in E; lia | reflexivity].
Qed.

Definition normalized_a (a : asset) : Prop := Forall (fun kv => snd kv <> 0) a.
Lemma a_norm_normalized a : normalized_a (a_norm a).
Proof.
  unfold normalized_a, a_norm. apply Forall_forall. intros kv H.
  apply filter_In in H as [_ H]. apply negb_true_iff, Z.eqb_neq in H. exact H.
Qed.

Lemma aget_cons k q (b : asset) n : aget ((k, q) :: b) n = if bytes_eqb k n then q else aget b n.
Proof. unfold aget. cbn. destruct (bytes_eqb k n); reflexivity. Qed.
Lemma aget_dset (a : asset) k v n : aget (dset a k v) n = if bytes_eqb k n then v else aget a n.
Proof.
  unfold aget. destruct (bytes_eqb k n) eqn:E.
  - apply bytes_eqb_eq in E. subst. now rewrite dget_dset_same.
  - apply bytes_eqb_neq in E. now rewrite dget_dset_other.
Qed.
Lemma aget_notin (a : asset) n : ~ In n (keys a) -> aget a n = 0.
Proof. intros H. unfold aget. apply dget_None_notin in H. now rewrite H. Qed.

Section Fold.
  Variable op : Z -> Z -> Z.
  Hypothesis op0 : forall x, op x 0 = x.
  Definition astep (acc : asset) (kv : bytes * Z) : asset := dset acc (fst kv) (op (aget acc (fst kv)) (snd kv)).

  Lemma afold_wfd b : forall acc, wfd acc -> wfd (fold_left astep b acc).
  Proof. induction b as [|kv b IH]; intros acc W; cbn; [exact W|]. apply IH, wfd_dset, W. Qed.

  Lemma afold_get b : forall acc n, wfd b -> aget (fold_left astep b acc) n = op (aget acc n) (aget b n).
  Proof.
    induction b as [|[k q] b IH]; intros acc n W; cbn [fold_left].
    - now rewrite aget_nil, op0.
    - inversion W as [|? ? Hn Hr]; subst. rewrite IH by exact Hr.
      unfold astep; cbn [fst snd]. rewrite aget_dset, aget_cons.
      destruct (bytes_eqb k n) eqn:E; [|reflexivity].
      apply bytes_eqb_eq in E. subst n. rewrite (aget_notin b k Hn). now rewrite op0.
  Qed.
End Fold.

Lemma a_add_wfd a b : wfd a -> wfd (a_add a b).
Proof. intros W. apply wfd_a_norm. apply (afold_wfd Z.add). exact W. Qed.
Lemma a_sub_wfd a b : wfd a -> wfd (a_sub a b).
Proof. intros W. apply wfd_a_norm. apply (afold_wfd Z.sub). exact W. Qed.

Lemma a_add_get a b n : wfd a -> wfd b -> aget (a_add a b) n = aget a n + aget b n.
Proof.
  intros Wa Wb. unfold a_add. rewrite aget_a_norm by (apply (afold_wfd Z.add); exact Wa).
  apply (afold_get Z.add); [intros; lia | exact Wb].
Qed.
Lemma a_sub_get a b n : wfd a -> wfd b -> aget (a_sub a b) n = aget a n - aget b n.
Proof.
  intros Wa Wb. unfold a_sub. rewrite aget_a_norm by (apply (afold_wfd Z.sub); exact Wa).
  apply (afold_get Z.sub); [intros; lia | exact Wb].
Qed.

Lemma a_eq_spec a b : a_eq a b = true <-> forall n, aget a n = aget b n.
Proof.
  unfold a_eq. rewrite forallb_forall. split.
  - intros H n. destruct (in_dec bytes_eq_dec n (keys a ++ keys b)) as [I|I].
    + apply H in I. now apply Z.eqb_eq.
    + rewrite !aget_notin; [reflexivity| |]; intros X; apply I, in_or_app; auto.
  - intros H n _. apply Z.eqb_eq, H.
Qed.

Lemma a_le_spec a b : a_le a b = true <-> forall n, aget a n <= aget b n.
Proof.
  unfold a_le. rewrite forallb_forall. split.
  - intros H n. destruct (in_dec bytes_eq_dec n (keys a ++ keys b)) as [I|I].
    + apply H in I. apply negb_true_iff, Z.ltb_ge in I. exact I.
    + rewrite !aget_notin; [lia| |]; intros X; apply I, in_or_app; auto.
  - intros H n _. apply negb_true_iff, Z.ltb_ge, H.
Qed.

(* ---------- multi-assets ---------- *)
Definition wfm (m : masset) : Prop := wfd m /\ Forall (fun kv => wfd (snd kv)) m.
Definition normalized_m (m : masset) : Prop := Forall (fun kv => snd kv <> [] /\ normalized_a (snd kv)) m.

Lemma wfd_nil {V} : wfd (@nil (bytes * V)).
Proof. constructor. Qed.

Lemma mget_wfd m p : wfm m -> wfd (mget m p).
Proof.
  intros [W F]. unfold mget. destruct (dget m p) as [a|] eqn:E; [|apply wfd_nil].
  apply dget_In in E. rewrite Forall_forall in F. apply (F _ E).
Qed.

Lemma keys_map_val {V W} (f : bytes * V -> W) (m : dict V) : keys (map (fun kv => (fst kv, f kv)) m) = keys m.
Proof. unfold keys. rewrite map_map. reflexivity. Qed.

Lemma dget_map_val {V W} (f : V -> W) (m : dict V) p :
  dget (map (fun kv => (fst kv, f (snd kv))) m) p = option_map f (dget m p).
Proof.
  induction m as [|[k v] m IH]; cbn; [reflexivity|]. destruct (bytes_eqb k p); [reflexivity | exact IH].
Qed.

Lemma m_norm_wfm m : wfm m -> wfm (m_norm m).
Proof.
  intros [W F]. unfold m_norm. split.
  - apply wfd_filter. unfold wfd. rewrite (keys_map_val (fun kv => a_norm (snd kv))). exact W.
  - apply Forall_forall. intros kv H. apply filter_In in H as [H _].
    apply in_map_iff in H as (x & <- & Hx). cbn. apply wfd_a_norm.
    rewrite Forall_forall in F. apply (F _ Hx).
Qed.

Lemma m_norm_normalized m : normalized_m (m_norm m).
Proof.
  unfold normalized_m, m_norm. apply Forall_forall. intros kv H.
  apply filter_In in H as [H1 H2]. apply in_map_iff in H1 as (x & <- & Hx). cbn in *.
  split; [|apply a_norm_normalized].
  destruct (a_norm (snd x)); [discriminate | discriminate].
Qed.

Lemma content_m_norm m p n : wfm m -> content (m_norm m) p n = content m p n.
Proof.
  intros [W F]. unfold content, mget, m_norm.
  rewrite dget_filter by (unfold wfd; rewrite (keys_map_val (fun kv => a_norm (snd kv))); exact W).
  rewrite (dget_map_val a_norm).
  destruct (dget m p) as [a|] eqn:E; cbn; [|reflexivity].
  assert (Wa : wfd a) by (apply dget_In in E; rewrite Forall_forall in F; apply (F _ E)).
  destruct (a_norm a) as [|x r] eqn:N; cbn.
  - rewrite <- (aget_a_norm a n Wa), N. reflexivity.
  - rewrite <- N. now apply aget_a_norm.
Qed.

Lemma In_dset {V} (d : dict V) k v x : In x (dset d k v) -> In x d \/ x = (k, v).
Proof.
  induction d as [|[k' v'] r IH]; cbn.
  - intros [H|[]]; auto.
  - destruct (bytes_eqb k' k) eqn:E; cbn.
    + apply bytes_eqb_eq in E. subst. intros [H|H]; auto.
    + intros [H|H]; auto. destruct (IH H); auto.
Qed.

Lemma mget_cons k a (b : masset) p : mget ((k, a) :: b) p = if bytes_eqb k p then a else mget b p.
Proof. unfold mget. cbn. destruct (bytes_eqb k p); reflexivity. Qed.
Lemma mget_dset (m : masset) k v p : mget (dset m k v) p = if bytes_eqb k p then v else mget m p.
Proof.
  unfold mget. destruct (bytes_eqb k p) eqn:E.
  - apply bytes_eqb_eq in E. subst. now rewrite dget_dset_same.
  - apply bytes_eqb_neq in E. now rewrite dget_dset_other.
Qed.
Lemma mget_notin (m : masset) p : ~ In p (keys m) -> mget m p = [].
Proof. intros H. unfold mget. apply dget_None_notin in H. now rewrite H. Qed.

Section MFold.
  Variable opA : asset -> asset -> asset.
  Variable op : Z -> Z -> Z.
  Hypothesis op0 : forall x, op x 0 = x.
  Hypothesis opA_wfd : forall x a, wfd x -> wfd (opA x a).
  Hypothesis opA_get : forall x a n, wfd x -> wfd a -> aget (opA x a) n = op (aget x n) (aget a n).
  Definition mstep (acc : masset) (kv : bytes * asset) : masset :=
    dset acc (fst kv) (opA (mget acc (fst kv)) (snd kv)).

  Lemma mstep_wfm acc kv : wfm acc -> wfm (mstep acc kv).
  Proof.
    intros W. pose proof W as [W1 F]. unfold mstep. split; [now apply wfd_dset|].
    apply Forall_forall. intros x H. apply In_dset in H as [H| ->].
    - rewrite Forall_forall in F. now apply F.
    - cbn. apply opA_wfd, mget_wfd, W.
  Qed.

  Lemma mfold_wfm b : forall acc, wfm acc -> wfm (fold_left mstep b acc).
  Proof. induction b as [|kv b IH]; intros acc W; cbn; [exact W|]. apply IH, mstep_wfm, W. Qed.

  Lemma mfold_content b : forall acc p n, wfm acc -> wfm b ->
    content (fold_left mstep b acc) p n = op (content acc p n) (content b p n).
  Proof.
    induction b as [|[k a] b IH]; intros acc p n Wacc Wb; cbn [fold_left].
    - unfold content at 3. unfold mget. cbn. now rewrite op0.
    - destruct Wb as [Wb Fb]. inversion Wb as [|? ? Hn Hr]; subst.
      inversion Fb as [|? ? Wa Fr]; subst. cbn in Wa.
      rewrite IH; [|now apply mstep_wfm|now split].
      unfold mstep; cbn [fst snd]. unfold content. rewrite mget_dset, mget_cons.
      destruct (bytes_eqb k p) eqn:E; [|reflexivity].
      apply bytes_eqb_eq in E. subst p.
      rewrite opA_get; [|now apply mget_wfd|exact Wa].
      rewrite (mget_notin b k Hn). cbn. now rewrite op0.
  Qed.
End MFold.

Lemma m_add_wfm a b : wfm a -> wfm (m_add a b).
Proof. intros W. apply m_norm_wfm. apply mfold_wfm; [intros; now apply a_add_wfd | exact W]. Qed.
Lemma m_sub_wfm a b : wfm a -> wfm (m_sub a b).
Proof. intros W. apply m_norm_wfm. apply mfold_wfm; [intros; now apply a_sub_wfd | exact W]. Qed.

Lemma m_add_content a b p n : wfm a -> wfm b -> content (m_add a b) p n = content a p n + content b p n.
Proof.
  intros Wa Wb. unfold m_add.
  rewrite content_m_norm by (apply mfold_wfm; [intros; now apply a_add_wfd | exact Wa]).
  apply (mfold_content a_add Z.add); auto; intros; try lia; [now apply a_add_wfd | now apply a_add_get].
Qed.
Lemma m_sub_content a b p n : wfm a -> wfm b -> content (m_sub a b) p n = content a p n - content b p n.
Proof.
  intros Wa Wb. unfold m_sub.
  rewrite content_m_norm by (apply mfold_wfm; [intros; now apply a_sub_wfd | exact Wa]).
  apply (mfold_content a_sub Z.sub); auto; intros; try lia; [now apply a_sub_wfd | now apply a_sub_get].
Qed.

Lemma m_eq_spec a b : m_eq a b = true <-> forall p n, content a p n = content b p n.
Proof.
  unfold m_eq. rewrite forallb_forall. split.
  - intros H p n. unfold content. destruct (in_dec bytes_eq_dec p (keys a ++ keys b)) as [I|I].
    + apply H in I. now apply a_eq_spec.
    + rewrite !mget_notin; [reflexivity| |]; intros X; apply I, in_or_app; auto.
  - intros H p _. apply a_eq_spec. intros n. apply H.
Qed.

Lemma m_le_spec a b : m_le a b = true <-> forall p n, content a p n <= content b p n.
Proof.
  unfold m_le. rewrite forallb_forall. split.
  - intros H p n. unfold content. destruct (in_dec bytes_eq_dec p (keys a ++ keys b)) as [I|I].
    + apply H in I. now apply a_le_spec.
    + rewrite !mget_notin; [cbn; lia| |]; intros X; apply I, in_or_app; auto.
  - intros H p _. apply a_le_spec. intros n. apply H.
Qed.

(* filter keeps exactly the entries satisfying the criterion *)
Lemma m_filter_content c m p n : wfm m ->
  content (m_filter c m) p n = if c p n (content m p n) then content m p n else
                               match dget (mget m p) n with Some _ => 0 | None => content m p n end.
Proof.
  intros [W F]. unfold content, mget, m_filter.
  rewrite dget_filter.
  2:{ unfold wfd. rewrite (keys_map_val (fun kv => filter (fun nq => c (fst kv) (fst nq) (snd nq)) (snd kv))). exact W. }
  assert (M : forall m0 : masset, dget (map (fun kv => (fst kv, filter (fun nq => c (fst kv) (fst nq) (snd nq)) (snd kv))) m0) p
              = option_map (fun a => filter (fun nq => c p (fst nq) (snd nq)) a) (dget m0 p)).
  { induction m0 as [|[k v] m0 IH]; cbn; [reflexivity|].
    destruct (bytes_eqb k p) eqn:E; [apply bytes_eqb_eq in E; now subst | exact IH]. }
  rewrite M. destruct (dget m p) as [a|] eqn:E; cbn.
  2:{ destruct (c p n 0); reflexivity. }
  assert (Wa : wfd a) by (apply dget_In in E; rewrite Forall_forall in F; apply (F _ E)).
  assert (G : aget (filter (fun nq => c p (fst nq) (snd nq)) a) n
              = match dget a n with Some q => if c p n q then q else 0 | None => 0 end).
  { unfold aget. rewrite dget_filter by exact Wa. destruct (dget a n) as [q|]; cbn; [|reflexivity].
    destruct (c p n q); reflexivity. }
  destruct (filter (fun nq => c p (fst nq) (snd nq)) a) as [|x r] eqn:Fl; cbn [is_nil negb].
  - rewrite aget_nil in *. unfold aget. destruct (dget a n) as [q|]; [|destruct (c p n 0); reflexivity].
    destruct (c p n q); [now rewrite <- G | reflexivity].
  - rewrite G. unfold aget. destruct (dget a n) as [q|]; [|destruct (c p n 0); reflexivity].
    destruct (c p n q); reflexivity.
Qed.

(* ---------- values ---------- *)
Definition wfv (v : value) : Prop := wfm (massets v).
Definition vcontent (v : value) : Z * (bytes -> bytes -> Z) := (coin v, content (massets v)).

Theorem v_add_spec a b : wfv a -> wfv b ->
  coin (v_add a b) = coin a + coin b
  /\ (forall p n, content (massets (v_add a b)) p n = content (massets a) p n + content (massets b) p n)
  /\ normalized_m (massets (v_add a b)) /\ wfv (v_add a b).
Proof.
  intros Wa Wb. repeat split; cbn.
  - intros; now apply m_add_content.
  - apply m_norm_normalized.
  - apply m_add_wfm, Wa.
  - apply m_add_wfm, Wa.
Qed.

Theorem v_sub_spec a b : wfv a -> wfv b ->
  coin (v_sub a b) = coin a - coin b
  /\ (forall p n, content (massets (v_sub a b)) p n = content (massets a) p n - content (massets b) p n)
  /\ normalized_m (massets (v_sub a b)) /\ wfv (v_sub a b).
Proof.
  intros Wa Wb. repeat split; cbn.
  - intros; now apply m_sub_content.
  - apply m_norm_normalized.
  - apply m_sub_wfm, Wa.
  - apply m_sub_wfm, Wa.
Qed.

Theorem v_eq_spec a b :
  v_eq a b = true <-> coin a = coin b /\ forall p n, content (massets a) p n = content (massets b) p n.
Proof. unfold v_eq. rewrite andb_true_iff, Z.eqb_eq, m_eq_spec. reflexivity. Qed.

Theorem v_le_spec a b :
  v_le a b = true <-> coin a <= coin b /\ forall p n, content (massets a) p n <= content (massets b) p n.
Proof. unfold v_le. rewrite andb_true_iff, Z.leb_le, m_le_spec. reflexivity. Qed.

Theorem v_lt_spec a b :
  v_lt a b = true <->
  (coin a <= coin b /\ forall p n, content (massets a) p n <= content (massets b) p n)
  /\ ~ (coin a = coin b /\ forall p n, content (massets a) p n = content (massets b) p n).
Proof.
  unfold v_lt. rewrite andb_true_iff, negb_true_iff, v_le_spec.
  split; intros [H1 H2]; split; auto.
  - intros X. apply v_eq_spec in X. congruence.
  - destruct (v_eq a b) eqn:E; [|reflexivity]. apply v_eq_spec in E. contradiction.
Qed.

(* algebraic consequences, on content *)
Corollary v_add_comm a b p n : wfv a -> wfv b ->
  content (massets (v_add a b)) p n = content (massets (v_add b a)) p n /\ coin (v_add a b) = coin (v_add b a).
Proof.
  intros Wa Wb. destruct (v_add_spec a b Wa Wb) as (C1 & M1 & _). destruct (v_add_spec b a Wb Wa) as (C2 & M2 & _).
  rewrite M1, M2, C1, C2. lia.
Qed.

Corollary v_add_sub_cancel a b p n : wfv a -> wfv b ->
  content (massets (v_sub (v_add a b) b)) p n = content (massets a) p n /\ coin (v_sub (v_add a b) b) = coin a.
Proof.
  intros Wa Wb. destruct (v_add_spec a b Wa Wb) as (C1 & M1 & _ & W1).
  destruct (v_sub_spec (v_add a b) b W1 Wb) as (C2 & M2 & _).
  rewrite M2, M1, C2, C1. lia.
Qed.

Corollary v_add_assoc a b c p n : wfv a -> wfv b -> wfv c ->
  content (massets (v_add (v_add a b) c)) p n = content (massets (v_add a (v_add b c))) p n.
Proof.
  intros Wa Wb Wc.
  destruct (v_add_spec a b Wa Wb) as (_ & M1 & _ & W1). destruct (v_add_spec b c Wb Wc) as (_ & M2 & _ & W2).
  destruct (v_add_spec (v_add a b) c W1 Wc) as (_ & M3 & _). destruct (v_add_spec a (v_add b c) Wa W2) as (_ & M4 & _).
  rewrite M3, M4, M1, M2. lia.
Qed.

(* non-vacuity: a concrete non-trivial well-formed pair *)
Example wfv_example :
  let a := mkValue 5 [(hx "aa", [(hx "01", 3); (hx "", -2)])] in
  let b := mkValue 7 [(hx "bb", [(hx "01", 1)]); (hx "aa", [(hx "", 2)])] in
  wfv a /\ wfv b /\ massets (v_add a b) = [(hx "aa", [(hx "01", 3)]); (hx "bb", [(hx "01", 1)])].
Proof.
  cbn. repeat split; repeat constructor; cbn; intuition discriminate.
Qed.
