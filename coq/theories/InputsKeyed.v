(* InputsKeyed.v — C09: the body's input set is an OrderedSet keyed by str(TransactionInput) (KeyedSet.v), the model
   Inputs.body_inputs de-duplicates the references by equality.  The two are the same function when the key is injective on
   the references in play; the implementation's own keys are reported with every case and the hypothesis is decided on them
   (InputsOracle.keys_ok). *)
From Coq Require Import NArith Ascii String List Bool Lia.
From PyC Require Import Base Inputs InputsProofs KeyedSet.
Import ListNotations.
Open Scope N_scope.

Definition N_eqb_eq : forall a b : N, N.eqb a b = true <-> a = b := N.eqb_eq.

(* the key function read off a table (reference, key) — first row wins, 0 for an unknown reference *)
Definition key_of (kt : list (ref * N)) (r : ref) : N :=
  match find (fun p => ref_eqb (fst p) r) kt with Some p => snd p | None => 0 end.

Definition body_inputs_k (key : ref -> N) (selected : list utxo) : list ref :=
  kbuild ref N key N.eqb (map ref_of selected).

(* the fold that appends at the end (OrderedSet) and the recursion that conses (Inputs.dedupr_from) *)
Lemma efold_dedupr l : forall s seen, (forall x, memr x seen = emem ref ref_eqb x s) ->
  fold_left (eappend ref ref_eqb) l s = s ++ dedupr_from seen l.
Proof.
  induction l as [|a l IH]; intros s seen Hm; cbn [fold_left dedupr_from]; [now rewrite app_nil_r|].
  unfold eappend at 2. rewrite <- Hm. destruct (memr a seen) eqn:M.
  - now apply IH.
  - rewrite (IH (s ++ [a]) (a :: seen)); [now rewrite <- app_assoc|].
    intros x. unfold memr, emem. cbn [existsb]. rewrite existsb_app. cbn [existsb].
    rewrite orb_false_r. fold (memr x seen). fold (emem ref ref_eqb x s). rewrite Hm.
    rewrite orb_comm. f_equal.
    destruct (ref_eqb x a) eqn:E1, (ref_eqb a x) eqn:E2; auto.
    + apply ref_eqb_eq in E1. subst. assert (ref_eqb a a = true) by now apply ref_eqb_eq. congruence.
    + apply ref_eqb_eq in E2. subst. assert (ref_eqb x x = true) by now apply ref_eqb_eq. congruence.
Qed.

Lemma ebuild_body_inputs sel : ebuild ref ref_eqb (map ref_of sel) = body_inputs sel.
Proof.
  unfold ebuild, body_inputs. rewrite (efold_dedupr _ [] []); [reflexivity|].
  intros x. reflexivity.
Qed.

Theorem body_inputs_keyed key sel :
  injective_on ref N key (map ref_of sel) -> body_inputs_k key sel = body_inputs sel.
Proof.
  intros Inj. unfold body_inputs_k.
  rewrite (kbuild_ebuild ref N key N.eqb N_eqb_eq ref_eqb ref_eqb_eq _ Inj).
  apply ebuild_body_inputs.
Qed.

(* decided on the implementation's keys: the table lists every reference of the case with the key the library computes *)
Definition keys_injectiveb (kt : list (ref * N)) : bool :=
  injectiveb ref N (key_of kt) N.eqb ref_eqb (map fst kt)
  && forallb (fun p => key_of kt (fst p) =? snd p) kt.      (* the key is a function of the reference *)

Theorem body_inputs_keyed_table kt sel :
  keys_injectiveb kt = true -> incl (map ref_of sel) (map fst kt) ->
  body_inputs_k (key_of kt) sel = body_inputs sel.
Proof.
  intros H I. apply andb_true_iff in H as [H _].
  apply body_inputs_keyed.
  pose proof (injectiveb_sound ref N (key_of kt) N.eqb N_eqb_eq ref_eqb ref_eqb_eq _ H) as Inj.
  intros x y Hx Hy. apply Inj; now apply I.
Qed.

(* every explicitly added input is in the body — through the keyed set *)
Corollary explicit_present_keyed kt sel u :
  keys_injectiveb kt = true -> incl (map ref_of sel) (map fst kt) ->
  In u sel -> In (ref_of u) (body_inputs_k (key_of kt) sel).
Proof.
  intros H I Hu. apply andb_true_iff in H as [H _].
  pose proof (injectiveb_sound ref N (key_of kt) N.eqb N_eqb_eq ref_eqb ref_eqb_eq _ H) as Inj.
  apply kbuild_complete with (keqb := N.eqb) (1 := N_eqb_eq).
  - intros x y Hx Hy. apply Inj; now apply I.
  - now apply in_map.
Qed.

Lemma combine_fst_map_ok {A B} (l : list A) (m : list B) : length l = length m -> map fst (combine l m) = l.
Proof.
  revert m. induction l as [|a l IH]; intros [|b m] H; cbn in *; try discriminate; auto.
  f_equal. apply IH. now inversion H.
Qed.

(* the look of the failure: two references whose printed form is abbreviated to the first and the last byte of the id *)
Definition abbrev_key (r : ref) : N :=
  match fst r with
  | [] => snd r
  | b :: t => 65536 * b2n b + 256 * b2n (last t b) + snd r
  end.
Example keyed_set_drops_an_explicit_input :
  let a := mkU (hx "a1220b"%string) 0 1 in
  let b := mkU (hx "a1330b"%string) 0 2 in
  In (ref_of b) (body_inputs [a; b]) /\ ~ In (ref_of b) (body_inputs_k abbrev_key [a; b]).
Proof.
  cbn zeta. split.
  - vm_compute. right. now left.
  - vm_compute. intros [H|[]]. discriminate.
Qed.
