(* Cip8Proofs.v — proofs about the model Cip8.v of pycardano/cip/cip8.py:
     verify_sign_complete   verify (sign m k) = verified, m, address of k
     verify_sound           success => Ed25519 check passed on Sig_structure(received protected bytes, received payload)
                            under the key used, whose BLAKE2b-224 is the credential of the reported address
     verify_tamper          under pointwise unforgeability nothing altered is reported verified
   stdlib + lia only, no axioms. *)
From Coq Require Import NArith ZArith Ascii String List Bool Lia ZifyBool ZifyN ZifyNat.
From Coq Require Import Init.Byte.
From PyC Require Import Base Cbor CborProofs Cip8.
Import ListNotations.
Open Scope N_scope.

(* ------------------------------------------------------------------ small facts *)
Lemma lenN_app {A} (a b : list A) : lenN (a ++ b) = lenN a + lenN b.
Proof. rewrite !lenN_length, app_length. lia. Qed.

Lemma dec_enc_top x f : wf x -> (sz x <= f)%nat -> dec f (enc x) = Some (x, []).
Proof.
  intros W S. pose proof (dec_enc x W f [] S) as H. now rewrite app_nil_r in H.
Qed.

Lemma firstn_all_lenN {A} (l : list A) n : lenN l = N.of_nat n -> firstn n l = l.
Proof. intros H. rewrite lenN_length in H. apply firstn_all2. lia. Qed.

Ltac sz_tac :=
  unfold fuel;
  match goal with |- (?a <= _)%nat => let v := eval vm_compute in a in change a with v end; lia.

(* ------------------------------------------------------------------ loading a canonical header *)
Lemma load_hdr_enc kvs :
  wf (CM kvs) -> (sz (CM kvs) <= fuel (enc (CM kvs)))%nat -> load_hdr (enc (CM kvs)) = parse_map kvs.
Proof.
  intros W S.
  assert (F : exists h t, enc (CM kvs) = h :: t /\ b2n h <> 191).
  { cbn [enc]. destruct W as [Wl _].
    destruct (head_dec 5 (lenN kvs) [] ltac:(lia) Wl) as (h & a & E & Hm & Hai & _).
    rewrite E. cbn [app]. eexists _, _. split; [reflexivity|].
    intros Q. rewrite Q in Hai. apply Hai. reflexivity. }
  destruct F as (h & t & E & Hh).
  pose proof (dec_enc_top (CM kvs) (fuel (enc (CM kvs))) W S) as D.
  unfold load_hdr. rewrite E in *.
  destruct (b2n h =? 191) eqn:Q; [apply N.eqb_eq in Q; contradiction|].
  rewrite D. reflexivity.
Qed.

(* ------------------------------------------------------------------ decoding what sign produces *)
Lemma cose_decode_signed prot payload sg h :
  lenN prot < two64 -> lenN payload < two64 -> lenN sg < two64 ->
  load_hdr prot = HOk h ->
  cose_decode (enc (CA [CB prot; sign_uhdr; CB payload; CB sg])) =
  Ok {| c_prot := prot; c_phdr := h; c_uhdr := [(HR (CT (sb "hashed")), CS 20)];
        c_payload := payload; c_sig := CB sg |}.
Proof.
  intros Hp Hm Hs Hl. unfold cose_decode.
  rewrite dec_enc_top.
  - cbn -[load_hdr]. rewrite Hl. reflexivity.
  - cbn. repeat split; try lia; reflexivity.
  - sz_tac.
Qed.

Lemma cosekey_decode_signed vk :
  lenN vk = 32 ->
  cosekey_decode (cose_key_bytes vk) = Ok {| k_x := vk; k_alg := Some EDDSA; k_ops := []; k_crv := 6%Z |}.
Proof.
  intros Hv. unfold cosekey_decode, cose_key_bytes.
  rewrite dec_enc_top.
  - cbn. rewrite Hv. reflexivity.
  - cbn. rewrite Hv. repeat split; reflexivity.
  - sz_tac.
Qed.

(* ------------------------------------------------------------------ the protected header sign builds *)
Definition parsed_phdr (ab vk : bytes) (attach : bool) : hdr :=
  [(HA 1%Z, CN 7); (addr_key, CB ab)] ++ (if attach then [] else [(HA 4%Z, CB vk)]).
Definition phdr_pairs (ab vk : bytes) (attach : bool) : list (cbor * cbor) :=
  [(CU 1, CN 7); (CT (sb "address"), CB ab)] ++ (if attach then [] else [(CU 4, CB vk)]).

Lemma parse_map_phdr ab vk attach : parse_map (phdr_pairs ab vk attach) = HOk (parsed_phdr ab vk attach).
Proof. destruct attach; vm_compute; reflexivity. Qed.

Lemma hdr_map_parsed ab vk attach : hdr_map (parsed_phdr ab vk attach) = phdr_pairs ab vk attach.
Proof. destruct attach; reflexivity. Qed.

Lemma reenc_parsed ab vk attach : reenc_hdr (parsed_phdr ab vk attach) = enc (CM (phdr_pairs ab vk attach)).
Proof. unfold reenc_hdr. rewrite hdr_map_parsed. destruct attach; reflexivity. Qed.

Lemma load_phdr ab vk attach :
  lenN ab < two64 -> lenN vk < two64 ->
  load_hdr (enc (CM (phdr_pairs ab vk attach))) = HOk (parsed_phdr ab vk attach).
Proof.
  intros Ha Hv. rewrite load_hdr_enc.
  - apply parse_map_phdr.
  - destruct attach; cbn; repeat split; try assumption; reflexivity.
  - destruct attach; sz_tac.
Qed.

Lemma lenN_enc_phdr ab vk attach :
  lenN ab = 29 -> lenN vk = 32 -> lenN (enc (CM (phdr_pairs ab vk attach))) < two64.
Proof.
  intros Ha Hv. destruct attach; cbn [enc phdr_pairs app map concat fst snd lenN];
  rewrite ?lenN_app, ?Ha, ?Hv; cbn; rewrite ?Ha, ?Hv; reflexivity.
Qed.

(* ------------------------------------------------------------------ completeness *)
Section Complete.
  Variable ed_verify : bytes -> bytes -> bytes -> bool.
  Variable ed_pub : bytes -> bytes.
  Variable ed_sign : bytes -> bytes -> bytes.
  Variable xed_sign : bytes -> bytes -> bytes.
  Variable xed_pub : bytes -> bytes.
  Variable H28 : bytes -> bytes.
  Variable bech32_dec : bytes -> option bytes.

  (* the single law of the signature scheme, for both signing paths *)
  Hypothesis ed_law : forall s m, ed_verify (ed_pub s) m (ed_sign s m) = true.
  Hypothesis xed_law : forall x m, ed_verify (xed_pub x) m (xed_sign x m) = true.
  (* sizes of the primitives' outputs *)
  Hypothesis H28_len : forall b, lenN (H28 b) = 28.
  Hypothesis ed_sign_len : forall s m, lenN (ed_sign s m) = 64.
  Hypothesis xed_sign_len : forall x m, lenN (xed_sign x m) = 64.

  (* the verification key is 32 bytes; an extended key stores the public key of its own scalar *)
  Definition wf_key (k : skey) : Prop :=
    lenN (vk_of ed_pub k) = 32 /\
    (sk_ext k = true -> vk_of ed_pub k = xed_pub (firstn 64 (sk_payload k))).

  Lemma key_sign_verifies k m : wf_key k ->
    ed_verify (vk_of ed_pub k) m (key_sign ed_sign xed_sign k m) = true.
  Proof.
    intros [_ Hx]. unfold key_sign. destruct (sk_ext k) eqn:E.
    - rewrite (Hx eq_refl). apply xed_law.
    - unfold vk_of. rewrite E. apply ed_law.
  Qed.

  Lemma key_sign_len k m : lenN (key_sign ed_sign xed_sign k m) = 64.
  Proof. unfold key_sign. destruct (sk_ext k); auto. Qed.

  Lemma addr_bytes_len k net : lenN (addr_bytes_of_key ed_pub H28 k net) = 29.
  Proof. unfold addr_bytes_of_key. cbn [lenN]. rewrite H28_len. reflexivity. Qed.

  Lemma parse_addr_of_key k net :
    parse_addr (addr_bytes_of_key ed_pub H28 k net) = Ok (addr_of_key ed_pub H28 k net).
  Proof.
    unfold addr_bytes_of_key, addr_of_key.
    destruct (sk_kind k), net; cbn -[firstn skipn]; unfold hash28; rewrite H28_len; reflexivity.
  Qed.

  (* verify accepts any canonical CIP-8 structure whose signature checks and whose address is bound to the key *)
  Lemma verify_accepts ab vk sg m attach a :
    lenN ab = 29 -> lenN vk = 32 -> lenN sg < two64 -> lenN m < two64 -> utf8_valid m = true ->
    ed_verify vk (sig_structure (enc (CM (phdr_pairs ab vk attach))) m) sg = true ->
    parse_addr ab = Ok a ->
    match a_pay a with
    | Some pp => bytes_eqb pp (H28 vk)
    | None => match a_stk a with SHash s => bytes_eqb s (H28 vk) | _ => false end
    end = true ->
    cip8_verify ed_verify H28 bech32_dec
      (enc (CA [CB (enc (CM (phdr_pairs ab vk attach))); sign_uhdr; CB m; CB sg]))
      (if attach then Some (cose_key_bytes vk) else None)
    = Ok {| verified := true; message := m; address := a |}.
  Proof.
    intros Hab Hvk Hsg Hm Hu Hver Hpa Hmatch.
    remember (enc (CM (phdr_pairs ab vk attach))) as prot eqn:Eprot.
    assert (Hprot : lenN prot < two64) by (subst prot; apply lenN_enc_phdr; assumption).
    assert (Hload : load_hdr prot = HOk (parsed_phdr ab vk attach))
      by (subst prot; apply load_phdr; unfold two64; lia).
    pose proof (cose_decode_signed prot m sg _ Hprot Hm Hsg Hload) as Hdec.
    assert (Hre : reenc_hdr (parsed_phdr ab vk attach) = prot) by (subst prot; apply reenc_parsed).
    assert (Hlong : (32 <? lenN vk) = false) by (rewrite Hvk; reflexivity).
    assert (Hlen32 : (lenN vk =? 32) = true) by (rewrite Hvk; reflexivity).
    assert (Hlen0 : (lenN vk =? 0) = false) by (rewrite Hvk; reflexivity).
    assert (Haddr : lookup hkey_eqb addr_key (parsed_phdr ab vk attach) = Some (CB ab))
      by (destruct attach; reflexivity).
    assert (Halg : lookup hkey_eqb (HA 1%Z) (parsed_phdr ab vk attach) = Some (CN 7))
      by (destruct attach; reflexivity).
    unfold cip8_verify, cip8_pre. rewrite Hdec. cbn [bind c_phdr c_payload].
    rewrite Hre.
    assert (Hkey : exists ck,
      acquire_key {| c_prot := prot; c_phdr := parsed_phdr ab vk attach;
                     c_uhdr := [(HR (CT (sb "hashed")), CS 20)]; c_payload := m; c_sig := CB sg |}
                  (if attach then Some (cose_key_bytes vk) else None) = Ok ck /\ k_x ck = vk /\ k_crv ck = 6%Z
      /\ (k_alg ck = None \/ k_alg ck = Some EDDSA) /\ (k_ops ck = [] \/ k_ops ck = [1; 2]%Z)).
    { unfold acquire_key. cbn [c_phdr]. destruct attach.
      - rewrite cosekey_decode_signed by exact Hvk. eexists. repeat split; auto.
      - cbn. unfold key_of_kid. rewrite Hlen0. eexists. repeat split; auto. }
    destruct Hkey as (ck & Ek & Hx & Hcrv & Halgk & Hops).
    rewrite Ek. cbn [bind].
    unfold sig_step, sig_query, long_key. cbn [p_key p_cose p_tbs]. rewrite Hx, Hlong.
    unfold short_checks, get_alg. cbn [p_key p_cose c_phdr c_uhdr c_sig].
    rewrite Halg. cbn [lookup hkey_eqb bind int_of].
    assert (Ekalg : alg_check (k_alg ck) (Some (-1 - Z.of_N 7)%Z) = Ok tt)
      by (destruct Halgk as [-> | ->]; reflexivity).
    rewrite Ekalg. cbn [bind].
    assert (Ekops : ops_check (k_ops ck) = Ok tt) by (destruct Hops as [-> | ->]; reflexivity).
    rewrite Ekops. cbn [bind].
    change (negb (-1 - Z.of_N 7 =? EDDSA)%Z) with false. cbv iota.
    rewrite Hcrv, Hx, Hlen32. cbn [Z.eqb Pos.eqb negb bind]. rewrite Hver.
    unfold cip8_post. cbn [p_cose p_key c_payload c_phdr c_prot]. rewrite Hu. cbn [negb].
    rewrite Haddr. cbn [addr_value_bytes bind]. rewrite Hpa. cbn [bind]. rewrite Hx, Hmatch, Hre, bytes_eqb_refl. reflexivity.
  Qed.

  Theorem verify_sign_complete : forall m k attach net,
    wf_key k -> utf8_valid m = true -> lenN m < two64 ->
    let '(sm, key) := cip8_sign ed_pub ed_sign xed_sign H28 m k attach net in
    cip8_verify ed_verify H28 bech32_dec sm key =
    Ok {| verified := true; message := m; address := addr_of_key ed_pub H28 k net |}.
  Proof.
    intros m k attach net Wk Hu Hm.
    pose proof Wk as [Hvk _].
    unfold cip8_sign.
    apply verify_accepts; try assumption.
    - apply addr_bytes_len.
    - unfold sign_sig. rewrite key_sign_len. reflexivity.
    - unfold sign_sig. apply key_sign_verifies. exact Wk.
    - apply parse_addr_of_key.
    - unfold addr_of_key. destruct (sk_kind k); cbn [a_pay a_stk]; apply bytes_eqb_refl.
  Qed.
End Complete.

(* ------------------------------------------------------------------ soundness *)
Section Sound.
  Variable ed_verify : bytes -> bytes -> bytes -> bool.
  Variable H28 : bytes -> bytes.
  Variable bech32_dec : bytes -> option bytes.

  Lemma bind_ok {A B} (r : res A) (f : A -> res B) b :
    bind r f = Ok b -> exists a, r = Ok a /\ f a = Ok b.
  Proof. destruct r; cbn; [eauto | discriminate]. Qed.

  Lemma short_checks_inv p s :
    short_checks p = Ok s -> c_sig (p_cose p) = CB s /\ lenN (k_x (p_key p)) = 32.
  Proof.
    unfold short_checks. intros H.
    apply bind_ok in H as (alg & _ & H).
    apply bind_ok in H as (u1 & _ & H).
    apply bind_ok in H as (u2 & _ & H).
    destruct (match alg with Some a => int_of a | None => None end) as [a|]; [|discriminate].
    destruct (negb (a =? EDDSA)%Z); [discriminate|].
    destruct (k_crv (p_key p) =? 6)%Z.
    - destruct (lenN (k_x (p_key p)) =? 32) eqn:L; cbn [negb] in H; [|discriminate].
      apply N.eqb_eq in L. destruct (c_sig (p_cose p)); try discriminate.
      inversion H; subst. auto.
    - destruct (k_crv (p_key p) =? 7)%Z; discriminate.
  Qed.

  Lemma long_checks_inv p s :
    long_checks p = Ok s -> c_sig (p_cose p) = CB s /\ lenN s = 64.
  Proof.
    unfold long_checks. intros H.
    destruct (c_sig (p_cose p)) as [| |b| | |xs| | | |]; try discriminate.
    - destruct (lenN b =? 64) eqn:L; [|discriminate]. inversion H; subst.
      apply N.eqb_eq in L. auto.
    - destruct (lenN xs =? 64); discriminate.
  Qed.

  (* the signature check, whichever branch: an Ed25519 verification of the to-be-signed bytes succeeded
     under the first 32 bytes of the key (= the key, on the ordinary branch), with a byte-string signature
     that is 64 bytes long whenever the key is longer than 32 bytes *)
  Lemma sig_step_true p :
    sig_step ed_verify p = Ok true ->
    exists s, c_sig (p_cose p) = CB s
              /\ ed_verify (firstn 32 (k_x (p_key p))) (p_tbs p) s = true
              /\ (lenN (k_x (p_key p)) = 32 \/ (32 < lenN (k_x (p_key p)) /\ lenN s = 64)).
  Proof.
    unfold sig_step, sig_query. intros H.
    remember (firstn 32 (k_x (p_key p))) as v32 eqn:Ev.
    apply bind_ok in H as (q & Hq & H).
    unfold long_key in *.
    destruct (32 <? lenN (k_x (p_key p))) eqn:L.
    - apply bind_ok in Hq as (s & Hs & Hq).
      assert (Eq : q = (v32, p_tbs p, s)) by congruence. rewrite Eq in H. cbv beta iota in H.
      apply long_checks_inv in Hs as [Hs Hl]. exists s. split; [exact Hs|].
      destruct (ed_verify v32 (p_tbs p) s) eqn:V; [|discriminate].
      split; [reflexivity|]. right. apply N.ltb_lt in L. auto.
    - apply bind_ok in Hq as (s & Hs & Hq).
      assert (Eq : q = (k_x (p_key p), p_tbs p, s)) by congruence. rewrite Eq in H. cbv beta iota in H.
      apply short_checks_inv in Hs as [Hs Hl]. exists s. split; [exact Hs|].
      assert (V : ed_verify (k_x (p_key p)) (p_tbs p) s = true) by congruence.
      assert (E32 : v32 = k_x (p_key p))
        by (subst v32; apply (firstn_all_lenN (k_x (p_key p)) 32); rewrite Hl; reflexivity).
      rewrite E32. split; [exact V|]. left. exact Hl.
  Qed.

  Lemma cip8_post_true p sv r :
    cip8_post H28 bech32_dec p sv = Ok r -> verified r = true ->
    sv = true
    /\ utf8_valid (c_payload (p_cose p)) = true
    /\ message r = c_payload (p_cose p)
    /\ reenc_hdr (c_phdr (p_cose p)) = c_prot (p_cose p)
    /\ credential (address r) = Some (H28 (k_x (p_key p)))
    /\ exists av ab, lookup hkey_eqb addr_key (c_phdr (p_cose p)) = Some av
                     /\ addr_value_bytes bech32_dec av = Ok ab
                     /\ parse_addr ab = Ok (address r).
  Proof.
    unfold cip8_post. intros H V.
    destruct (utf8_valid (c_payload (p_cose p))) eqn:U; cbn [negb] in H; [|discriminate].
    destruct (lookup hkey_eqb addr_key (c_phdr (p_cose p))) as [av|] eqn:La; [|discriminate].
    apply bind_ok in H as (a & Ha & H).
    apply bind_ok in Ha as (ab & Hab & Hpa).
    inversion H; subst r; clear H. cbn [verified message address] in *.
    apply andb_true_iff in V as [V Hi]. apply andb_true_iff in V as [Hsv Hm].
    apply bytes_eqb_eq in Hi.
    repeat split; auto.
    - unfold credential. destruct (a_pay a) as [pp|].
      + apply bytes_eqb_eq in Hm. now subst.
      + destruct (a_stk a); try discriminate. apply bytes_eqb_eq in Hm. now subst.
    - eauto.
  Qed.

  Theorem verify_sound : forall sm key r,
    cip8_verify ed_verify H28 bech32_dec sm key = Ok r -> verified r = true ->
    exists c ck s av ab,
      cose_decode sm = Ok c                                   (* the received structure *)
      /\ acquire_key c key = Ok ck                            (* the key that was used *)
      /\ c_sig c = CB s
      /\ ed_verify (firstn 32 (k_x ck)) (sig_structure (c_prot c) (c_payload c)) s = true
      /\ (lenN (k_x ck) = 32 \/ (32 < lenN (k_x ck) /\ lenN s = 64))
      /\ reenc_hdr (c_phdr c) = c_prot c
      /\ lookup hkey_eqb addr_key (c_phdr c) = Some av
      /\ addr_value_bytes bech32_dec av = Ok ab /\ parse_addr ab = Ok (address r)
      /\ credential (address r) = Some (H28 (k_x ck))
      /\ message r = c_payload c /\ utf8_valid (c_payload c) = true.
  Proof.
    intros sm key r H V. unfold cip8_verify in H.
    apply bind_ok in H as (p & Hp & H).
    apply bind_ok in H as (sv & Hsv & H).
    destruct (cip8_post_true p sv r H V) as (-> & U & Hmsg & Hre & Hcred & av & ab & La & Hab & Hpa).
    apply sig_step_true in Hsv as (s & Hs & Hv & Hl).
    unfold cip8_pre in Hp.
    apply bind_ok in Hp as (c & Hc & Hp).
    apply bind_ok in Hp as (ck & Hk & Hp).
    inversion Hp; subst p; clear Hp. cbn [p_cose p_key p_tbs] in *.
    rewrite Hre in Hv.
    exists c, ck, s, av, ab. repeat split; auto.
  Qed.
End Sound.

(* ------------------------------------------------------------------ what cose_decode returns, in terms of the shared CBOR decoder *)
Definition bstr_of (x : cbor) : option bytes :=
  match x with CB b => Some b | CBi cs => Some (concat cs) | _ => None end.

Ltac dm H :=
  match type of H with
  | context [match ?x with _ => _ end] => destruct x eqn:?; try discriminate
  end.

Lemma seq_n_CB rs b : seq_n rs <> NOk (CB b).
Proof.
  destruct rs as [|r rest]; cbn; [discriminate|].
  destruct r as [c0| |]; destruct (seq_n rest) as [c1| |]; try discriminate; destruct c1; discriminate.
Qed.

Lemma norm_CB x b : norm x = NOk (CB b) -> bstr_of x = Some b.
Proof.
  destruct x; cbn; intros H; try discriminate; try (inversion H; reflexivity).
  - destruct (utf8_valid b0); discriminate.
  - exfalso. eapply seq_n_CB. exact H.
Qed.

Lemma norm_items_nth : forall xs idx ys,
  norm_items idx xs = Some (Some ys) ->
  length ys = length xs /\
  forall i, (i < length xs)%nat -> norm_item (idx + i) (nth i xs (CU 0)) = NOk (nth i ys (CU 0)).
Proof.
  induction xs as [|x xs IH]; intros idx ys H.
  - cbn in H. inversion H. split; [reflexivity|]. cbn. intros i Hi. lia.
  - cbn [norm_items] in H.
    destruct (norm_item idx x) as [c| |] eqn:E; try discriminate;
    destruct (norm_items (S idx) xs) as [[l|]|] eqn:E2; try discriminate.
    inversion H; subst ys. destruct (IH _ _ E2) as [Hl Hn].
    split; [cbn; lia|].
    intros [|i] Hi.
    + rewrite Nat.add_0_r. exact E.
    + cbn [nth]. replace (idx + S i)%nat with (S idx + i)%nat by lia. apply Hn. cbn in Hi. lia.
Qed.

Lemma norm_item_not1 idx x : idx <> 1%nat -> norm_item idx x = norm x.
Proof. intros H. destruct idx as [|[|idx]]; try reflexivity. contradiction. Qed.

Lemma cose_decode_fields sm c :
  cose_decode sm = Ok c ->
  exists items rest,
    dec (fuel sm) sm = Some (CA items, rest)
    /\ bstr_of (nth 0 items (CU 0)) = Some (c_prot c)
    /\ bstr_of (nth 2 items (CU 0)) = Some (c_payload c)
    /\ norm (nth 3 items (CU 0)) = NOk (c_sig c)
    /\ (load_hdr (c_prot c) = HOk (c_phdr c) \/ c_phdr c = []).
Proof.
  unfold cose_decode. intros H.
  destruct (dec (fuel sm) sm) as [[x rest]|] eqn:D; [|discriminate].
  destruct x as [| | | | |items| | | |]; try discriminate;
    try (destruct (norm _) in H; discriminate).
  destruct (norm_items 0 items) as [[its|]|] eqn:NI; try discriminate.
  destruct (norm_items_nth _ _ _ NI) as [Hlen Hnth].
  destruct its as [|p [|u [|pl [|sg its']]]]; try discriminate;
    destruct p as [| |prot| | | | | | |]; try discriminate;
    try (destruct (load_hdr prot); discriminate).
  - destruct (load_hdr prot); try discriminate; dm H; try discriminate; dm H; try discriminate; dm H; discriminate.
  - repeat dm H.
  - assert (L : (3 < length items)%nat) by (rewrite <- Hlen; cbn; lia).
    pose proof (Hnth 0%nat ltac:(lia)) as N0. pose proof (Hnth 2%nat ltac:(lia)) as N2.
    pose proof (Hnth 3%nat ltac:(lia)) as N3.
    rewrite norm_item_not1 in N0, N2, N3 by (cbn; lia). cbn [nth Nat.add] in N0, N2, N3.
    exists items, rest. split; [reflexivity|].
    destruct (load_hdr prot) as [hp| |e] eqn:LH; try discriminate.
    + repeat dm H; inversion H; subst c; cbn [c_prot c_phdr c_payload c_sig];
        (repeat split; [apply norm_CB; assumption | apply norm_CB; assumption | assumption | auto]).
    + repeat dm H; inversion H; subst c; cbn [c_prot c_phdr c_payload c_sig];
        (repeat split; [apply norm_CB; assumption | apply norm_CB; assumption | assumption | auto]).
Qed.

(* ------------------------------------------------------------------ the to-be-signed bytes determine header and payload *)
Lemma sig_structure_inj p q p' q' :
  lenN p < two64 -> lenN q < two64 -> lenN p' < two64 -> lenN q' < two64 ->
  sig_structure p q = sig_structure p' q' -> p = p' /\ q = q'.
Proof.
  intros Hp Hq Hp' Hq' E. unfold sig_structure in E.
  apply enc_inj in E.
  - inversion E. auto.
  - cbn. repeat split; try assumption; reflexivity.
  - cbn. repeat split; try assumption; reflexivity.
Qed.

(* ------------------------------------------------------------------ tampering *)
Section Tamper.
  Variable ed_verify : bytes -> bytes -> bytes -> bool.
  Variable ed_pub : bytes -> bytes.
  Variable ed_sign : bytes -> bytes -> bytes.
  Variable xed_sign : bytes -> bytes -> bytes.
  Variable H28 : bytes -> bytes.
  Variable bech32_dec : bytes -> option bytes.
  Hypothesis H28_len : forall b, lenN (H28 b) = 28.

  (* pointwise unforgeability: under vk the only valid (message, signature) pair is the signed one *)
  Definition unforgeable_at (vk tbs sg : bytes) : Prop :=
    forall m' s', ed_verify vk m' s' = true -> m' = tbs /\ s' = sg.
  (* pointwise collision-freeness of the key hash *)
  Definition hash_binds (vk : bytes) : Prop := forall v', H28 v' = H28 vk -> v' = vk.

  Theorem verify_tamper : forall m k attach net,
    let vk := vk_of ed_pub k in
    let prot0 := sign_prot ed_pub H28 k attach net in
    let sg0 := sign_sig ed_pub ed_sign xed_sign H28 m k attach net in
    lenN vk = 32 -> lenN m < two64 ->
    unforgeable_at vk (sig_structure prot0 m) sg0 -> hash_binds vk ->
    forall sm' key' r c',
      cip8_verify ed_verify H28 bech32_dec sm' key' = Ok r -> verified r = true ->
      credential (address r) = Some (H28 vk) ->                 (* the result names the signer's credential *)
      cose_decode sm' = Ok c' -> lenN (c_prot c') < two64 -> lenN (c_payload c') < two64 ->
      c_prot c' = prot0 /\ c_payload c' = m /\ c_sig c' = CB sg0
      /\ message r = m /\ address r = addr_of_key ed_pub H28 k net.
  Proof.
    intros m k attach net vk prot0 sg0 Hvk Hm Hunf Hbind sm' key' r c' Hv Vr Hcred Hc Lp Lq.
    destruct (verify_sound _ _ _ _ _ _ Hv Vr)
      as (c & ck & s & av & ab & Hc2 & Hk & Hs & Hver & Hl & Hre & La & Hab & Hpa & Hcr & Hmsg & Hu).
    rewrite Hc in Hc2. inversion Hc2; subst c; clear Hc2.
    rewrite Hcred in Hcr. inversion Hcr as [Eh]. symmetry in Eh. apply Hbind in Eh.
    rewrite Eh in Hver.
    rewrite (firstn_all_lenN vk 32) in Hver by (rewrite Hvk; reflexivity).
    apply Hunf in Hver as [Etbs Es]. subst s.
    set (ab0 := addr_bytes_of_key ed_pub H28 k net) in *.
    assert (Hab0 : lenN ab0 = 29) by (unfold ab0, addr_bytes_of_key; cbn [lenN]; rewrite H28_len; reflexivity).
    assert (Eprot : prot0 = enc (CM (phdr_pairs ab0 vk attach))) by reflexivity.
    assert (Lp0 : lenN prot0 < two64) by (rewrite Eprot; apply lenN_enc_phdr; assumption).
    apply sig_structure_inj in Etbs as [Ep Eq]; try assumption.
    repeat split; try assumption; try congruence.
    (* the reported address: the parsed header is the one sign built *)
    destruct (cose_decode_fields _ _ Hc) as (items & rest & _ & _ & _ & _ & Hld).
    assert (Hload : load_hdr prot0 = HOk (parsed_phdr ab0 vk attach))
      by (rewrite Eprot; apply load_phdr; unfold two64; lia).
    assert (Eph : c_phdr c' = parsed_phdr ab0 vk attach).
    { destruct Hld as [Hld | Hnil].
      - rewrite Ep, Hload in Hld. now inversion Hld.
      - exfalso. rewrite Hnil in Hre. cbn in Hre. rewrite Ep, Eprot in Hre.
        destruct attach; discriminate Hre. }
    rewrite Eph in La.
    assert (Eav : av = CB ab0) by (destruct attach; cbn in La; congruence).
    subst av. cbn in Hab. inversion Hab; subst ab.
    assert (Hpa0 : parse_addr ab0 = Ok (addr_of_key ed_pub H28 k net)).
    { unfold ab0, addr_bytes_of_key, addr_of_key.
      destruct (sk_kind k), net; cbn -[firstn skipn]; unfold hash28; rewrite H28_len; reflexivity. }
    congruence.
  Qed.
End Tamper.

(* ------------------------------------------------------------------ soundness stated on the received bytes *)
Lemma acquire_key_kid c ck :
  acquire_key c None = Ok ck -> lookup hkey_eqb (HA 4%Z) (c_phdr c) = Some (CB (k_x ck)).
Proof.
  unfold acquire_key. destruct (lookup hkey_eqb (HA 4%Z) (c_phdr c)) as [v|]; [|discriminate].
  destruct v; try discriminate. unfold key_of_kid. destruct (lenN b =? 0); [discriminate|].
  intros H. inversion H. reflexivity.
Qed.

Theorem verify_sound_raw :
  forall (ed_verify : bytes -> bytes -> bytes -> bool) (H28 : bytes -> bytes) (bech32_dec : bytes -> option bytes)
         sm key r,
  cip8_verify ed_verify H28 bech32_dec sm key = Ok r -> verified r = true ->
  exists items rest prot payload s vk c ck av ab,
    (* the received COSE_Sign1 array and its protected, payload and signature byte strings *)
    dec (fuel sm) sm = Some (CA items, rest)
    /\ bstr_of (nth 0 items (CU 0)) = Some prot
    /\ bstr_of (nth 2 items (CU 0)) = Some payload
    /\ bstr_of (nth 3 items (CU 0)) = Some s
    (* a valid Ed25519 signature over Sig_structure(exactly these protected bytes, exactly this payload) *)
    /\ ed_verify (firstn 32 vk) (sig_structure prot payload) s = true
    /\ (lenN vk = 32 \/ (32 < lenN vk /\ lenN s = 64))
    (* vk is the key that was used: the protected header's KID, or the x of the attached COSE key *)
    /\ cose_decode sm = Ok c /\ acquire_key c key = Ok ck /\ vk = k_x ck
    /\ (key = None -> lookup hkey_eqb (HA 4%Z) (c_phdr c) = Some (CB vk))
    (* the protected bytes are the canonical serialisation of the parsed header, whose "address" entry is reported *)
    /\ prot = reenc_hdr (c_phdr c)
    /\ lookup hkey_eqb addr_key (c_phdr c) = Some av
    /\ addr_value_bytes bech32_dec av = Ok ab /\ parse_addr ab = Ok (address r)
    (* key / address binding, message *)
    /\ credential (address r) = Some (H28 vk)
    /\ message r = payload /\ utf8_valid payload = true.
Proof.
  intros ed_verify H28 bech32_dec sm key r Hv Vr.
  destruct (verify_sound _ _ _ _ _ _ Hv Vr)
    as (c & ck & s & av & ab & Hc & Hk & Hs & Hver & Hl & Hre & La & Hab & Hpa & Hcr & Hmsg & Hu).
  destruct (cose_decode_fields _ _ Hc) as (items & rest & D & Bp & Bq & Ns & _).
  exists items, rest, (c_prot c), (c_payload c), s, (k_x ck), c, ck, av, ab.
  rewrite Hs in Ns. apply norm_CB in Ns.
  repeat split; auto.
  intros ->. now apply acquire_key_kid.
Qed.

(* ------------------------------------------------------------------ non-vacuity: the hypotheses are satisfiable *)
Module Toy.
  Definition pad (n : nat) (b : bytes) : bytes := firstn n (b ++ repeat x00 n).
  Lemma pad_len n b : lenN (pad n b) = N.of_nat n.
  Proof.
    unfold pad. rewrite lenN_length, firstn_length, app_length, repeat_length. lia.
  Qed.

  Definition pub (s : bytes) : bytes := pad 32 s.
  Definition xpub (x : bytes) : bytes := pad 32 (skipn 32 x).
  Definition sgn (s m : bytes) : bytes := repeat x07 64.
  Definition H (b : bytes) : bytes := pad 28 b.
  Definition ver (vk m s : bytes) : bool := bytes_eqb s (repeat x07 64).
  Definition nobech (t : bytes) : option bytes := None.

  Definition k_pay : skey := {| sk_kind := KPay; sk_ext := false; sk_payload := repeat x01 32 |}.
  Definition k_xstake : skey :=
    {| sk_kind := KStake; sk_ext := true;
       sk_payload := repeat x02 32 ++ repeat x03 32 ++ pad 32 (repeat x03 32) ++ repeat x04 32 |}.
  Definition msg : bytes := hx "68c3a9f09f9880".                      (* "hé" + U+1F600 *)

  Example complete_hypotheses :
    (forall s m, ver (pub s) m (sgn s m) = true) /\ (forall x m, ver (xpub x) m (sgn x m) = true)
    /\ (forall b, lenN (H b) = 28) /\ (forall s m, lenN (sgn s m) = 64)
    /\ wf_key pub xpub k_pay /\ wf_key pub xpub k_xstake
    /\ utf8_valid msg = true /\ lenN msg < two64.
  Proof.
    repeat split; try reflexivity; intros; try apply pad_len; try discriminate.
  Qed.

  Example complete_instance :
    let '(sm, key) := cip8_sign pub sgn sgn H msg k_xstake false Mainnet in
    cip8_verify ver H nobech sm key
    = Ok {| verified := true; message := msg; address := addr_of_key pub H k_xstake Mainnet |}.
  Proof. vm_compute. reflexivity. Qed.

  (* regression witnesses of the two defects fixed in cip8.verify (e3a6d93, 2f54ab3), with a signature check
     that accepts everything: only the header_intact / signature-length clauses can reject *)
  Definition yes (vk m s : bytes) : bool := true.
  Definition vkp : bytes := pub (sk_payload k_pay).
  Definition abp : bytes := addr_bytes_of_key pub H k_pay Testnet.
  Definition noncanonical_prot : bytes :=                                (* label 1 written as 18 01 *)
    hx "a31801" ++ skipn 2 (enc (CM (phdr_pairs abp vkp false))).
  Example reencoded_header_not_verified :
    match cip8_verify yes H nobech (enc (CA [CB noncanonical_prot; sign_uhdr; CB msg; CB (repeat x07 64)])) None with
    | Ok r => verified r = false /\ message r = msg
    | Err _ => False
    end.
  Proof. vm_compute. split; reflexivity. Qed.

  Example long_key_needs_64_byte_signature :
    cip8_verify yes H nobech
      (enc (CA [CB (enc (CM (phdr_pairs abp vkp true))); sign_uhdr; CB msg; CB (repeat x07 65)]))
      (Some (cose_key_bytes (vkp ++ repeat x00 32)))
    = Err EValueError.
  Proof. vm_compute. reflexivity. Qed.

  (* tamper: a scheme in which exactly one (message, signature) pair verifies, and a hash that binds vk *)
  Definition prot0 : bytes := sign_prot pub H k_pay false Testnet.
  Definition tbs0 : bytes := sig_structure prot0 msg.
  Definition sg0 : bytes := sign_sig pub sgn sgn H msg k_pay false Testnet.
  Definition ver1 (vk m s : bytes) : bool := bytes_eqb m tbs0 && bytes_eqb s sg0.
  Definition H1 (b : bytes) : bytes := if bytes_eqb b vkp then repeat x01 28 else repeat x00 28.

  Example tamper_hypotheses :
    (forall b, lenN (H1 b) = 28) /\ unforgeable_at ver1 (vk_of pub k_pay) tbs0 sg0 /\ hash_binds H1 (vk_of pub k_pay)
    /\ lenN (vk_of pub k_pay) = 32.
  Proof.
    repeat split.
    - intros b. unfold H1. destruct (bytes_eqb b vkp); reflexivity.
    - unfold ver1 in H0. apply andb_true_iff in H0 as [A _]. now apply bytes_eqb_eq in A.
    - unfold ver1 in H0. apply andb_true_iff in H0 as [_ B]. now apply bytes_eqb_eq in B.
    - intros v' E. unfold H1 in E. change (vk_of pub k_pay) with vkp in *.
      rewrite bytes_eqb_refl in E. destruct (bytes_eqb v' vkp) eqn:Q.
      + now apply bytes_eqb_eq in Q.
      + discriminate E.
  Qed.
End Toy.
