(* CborProofs.v — dec (enc x ++ rest) = Some (x, rest); injectivity and prefix-freeness of enc. *)
From Coq Require Import NArith ZArith Ascii String List Bool Lia ZifyBool ZifyN.
From Coq Require Import Init.Byte.
From PyC Require Import Base Cbor.
Import ListNotations.
Open Scope N_scope.
Ltac Zify.zify_post_hook ::= Z.to_euclidean_division_equations.

Lemma take_app n a rest : lenN a = n -> take n (a ++ rest) = Some (a, rest).
Proof.
  intros H. unfold take. rewrite lenN_length in *. rewrite app_length.
  assert (E : N.to_nat n = length a) by lia.
  destruct (n <=? N.of_nat (length a + length rest)%nat) eqn:L.
  - rewrite E, firstn_app, skipn_app, Nat.sub_diag, firstn_all, skipn_all. cbn. now rewrite app_nil_r.
  - rewrite N.leb_gt in L. lia.
Qed.

Lemma be_lenN k n : lenN (be k n) = N.of_nat k.
Proof. rewrite lenN_length, be_length. reflexivity. Qed.

Lemma b2n_n2b_small n : n < 256 -> b2n (n2b n) = n.
Proof. intros H. rewrite b2n_n2b. now apply N.mod_small. Qed.

Lemma head_dec m n rest :
  m < 7 -> n < two64 ->
  exists h a, head m n = h :: a /\ b2n h / 32 = m /\ b2n h mod 32 <> 31 /\ b2n h <> 255
              /\ dec_arg (b2n h mod 32) (a ++ rest) = Some (n, rest).
Proof.
  intros Hm Hn. unfold head.
  destruct (n <? 24) eqn:E1.
  { rewrite N.ltb_lt in E1. eexists _, []. split; [reflexivity|].
    rewrite b2n_n2b_small by lia.
    assert ((m * 32 + n) / 32 = m) by lia. assert ((m * 32 + n) mod 32 = n) by lia.
    repeat split; try lia. rewrite H0. unfold dec_arg.
    destruct (n <? 24) eqn:E; [reflexivity | rewrite N.ltb_ge in E; lia]. }
  rewrite N.ltb_ge in E1.
  destruct (n <? 256) eqn:E2.
  { rewrite N.ltb_lt in E2. eexists _, [_]. split; [reflexivity|].
    rewrite b2n_n2b_small by lia.
    assert ((m * 32 + 24) / 32 = m) by lia. assert ((m * 32 + 24) mod 32 = 24) by lia.
    repeat split; try lia. rewrite H0. unfold dec_arg.
    change (24 <? 24) with false. change (24 =? 24) with true. cbv iota.
    rewrite (take_app 1 [n2b n] rest) by reflexivity.
    unfold unbe. cbn. rewrite b2n_n2b_small by lia. reflexivity. }
  rewrite N.ltb_ge in E2.
  destruct (n <? 65536) eqn:E3.
  { rewrite N.ltb_lt in E3. eexists _, (be 2 n). split; [reflexivity|].
    rewrite b2n_n2b_small by lia.
    assert ((m * 32 + 25) / 32 = m) by lia. assert ((m * 32 + 25) mod 32 = 25) by lia.
    repeat split; try lia. rewrite H0. unfold dec_arg.
    change (25 <? 24) with false. change (25 =? 24) with false. change (25 =? 25) with true. cbv iota.
    rewrite (take_app 2 (be 2 n) rest) by apply be_lenN.
    rewrite unbe_be; [reflexivity|]. change (256 ^ N.of_nat 2) with 65536. lia. }
  rewrite N.ltb_ge in E3.
  destruct (n <? 4294967296) eqn:E4.
  { rewrite N.ltb_lt in E4. eexists _, (be 4 n). split; [reflexivity|].
    rewrite b2n_n2b_small by lia.
    assert ((m * 32 + 26) / 32 = m) by lia. assert ((m * 32 + 26) mod 32 = 26) by lia.
    repeat split; try lia. rewrite H0. unfold dec_arg.
    change (26 <? 24) with false. change (26 =? 24) with false. change (26 =? 25) with false.
    change (26 =? 26) with true. cbv iota.
    rewrite (take_app 4 (be 4 n) rest) by apply be_lenN.
    rewrite unbe_be; [reflexivity|]. change (256 ^ N.of_nat 4) with 4294967296. lia. }
  rewrite N.ltb_ge in E4.
  { eexists _, (be 8 n). split; [reflexivity|].
    rewrite b2n_n2b_small by lia.
    assert ((m * 32 + 27) / 32 = m) by lia. assert ((m * 32 + 27) mod 32 = 27) by lia.
    repeat split; try lia. rewrite H0. unfold dec_arg.
    change (27 <? 24) with false. change (27 =? 24) with false. change (27 =? 25) with false.
    change (27 =? 26) with false. change (27 =? 27) with true. cbv iota.
    rewrite (take_app 8 (be 8 n) rest) by apply be_lenN.
    rewrite unbe_be; [reflexivity|]. change (256 ^ N.of_nat 8) with two64. exact Hn. }
Qed.

(* the first byte of any encoding is never the break byte 0xff *)
Lemma enc_first x : wf x -> exists h r, enc x = h :: r /\ b2n h <> 255.
Proof.
  destruct x as [n|n|b|cs|b|xs|xs|kvs|t y|v]; cbn [enc wf]; intros W.
  - destruct (head_dec 0 n [] ltac:(lia) W) as (h & a & E & _ & _ & H & _). rewrite E. eauto.
  - destruct (head_dec 1 n [] ltac:(lia) W) as (h & a & E & _ & _ & H & _). rewrite E. eauto.
  - destruct (head_dec 2 (lenN b) [] ltac:(lia) W) as (h & a & E & _ & _ & H & _). rewrite E. cbn. eauto.
  - eexists _, _. split; [reflexivity|]. cbv. discriminate.
  - destruct (head_dec 3 (lenN b) [] ltac:(lia) W) as (h & a & E & _ & _ & H & _). rewrite E. cbn. eauto.
  - destruct W as [W _]. destruct (head_dec 4 (lenN xs) [] ltac:(lia) W) as (h & a & E & _ & _ & H & _).
    rewrite E. cbn. eauto.
  - eexists _, _. split; [reflexivity|]. cbv. discriminate.
  - destruct W as [W _]. destruct (head_dec 5 (lenN kvs) [] ltac:(lia) W) as (h & a & E & _ & _ & H & _).
    rewrite E. cbn. eauto.
  - destruct W as [W _]. destruct (head_dec 6 t [] ltac:(lia) W) as (h & a & E & _ & _ & H & _).
    rewrite E. cbn. eauto.
  - eexists _, _. split; [reflexivity|]. rewrite b2n_n2b_small by lia. lia.
Qed.

Definition wf_all (l : list cbor) : Prop :=
  (fix all (l : list cbor) : Prop := match l with [] => True | y :: r => wf y /\ all r end) l.
Definition wf_allp (l : list (cbor * cbor)) : Prop :=
  (fix all (l : list (cbor * cbor)) : Prop :=
     match l with [] => True | kv :: r => (wf (fst kv) /\ wf (snd kv)) /\ all r end) l.

Definition RT (x : cbor) : Prop :=
  wf x -> forall f rest, (sz x <= f)%nat -> dec f (enc x ++ rest) = Some (x, rest).

Lemma dec_n_rt (f : nat) : forall xs k rest,
  Forall RT xs -> wf_all xs -> (list_sum (map sz xs) <= f)%nat -> (length xs < k)%nat ->
  dec_n (dec f) k (lenN xs) (concat (map enc xs) ++ rest) = Some (xs, rest).
Proof.
  induction xs as [|x xs IH]; intros k rest HF HW Hs Hk.
  - destruct k; [cbn in Hk; lia|]. reflexivity.
  - destruct k as [|k]; [cbn in Hk; lia|].
    inversion HF as [|? ? Hx Hxs]; subst. destruct HW as [Wx Wxs].
    cbn [dec_n lenN]. destruct (1 + lenN xs =? 0) eqn:Z; [rewrite N.eqb_eq in Z; lia|].
    cbn [map concat]. rewrite <- app_assoc.
    change (list_sum (map sz (x :: xs))) with (sz x + list_sum (map sz xs))%nat in Hs.
    rewrite (Hx Wx f _ ltac:(lia)).
    replace (1 + lenN xs - 1) with (lenN xs) by lia.
    rewrite IH; [reflexivity|assumption|assumption|lia|cbn in Hk; lia].
Qed.

Lemma dec_pairs_rt (f : nat) : forall kvs k rest,
  Forall (fun kv => RT (fst kv) /\ RT (snd kv)) kvs -> wf_allp kvs ->
  (list_sum (map (fun kv => (sz (fst kv) + sz (snd kv))%nat) kvs) <= f)%nat -> (length kvs < k)%nat ->
  dec_pairs (dec f) k (lenN kvs) (concat (map (fun kv => enc (fst kv) ++ enc (snd kv)) kvs) ++ rest)
  = Some (kvs, rest).
Proof.
  induction kvs as [|[a b] kvs IH]; intros k rest HF HW Hs Hk.
  - destruct k; [cbn in Hk; lia|]. reflexivity.
  - destruct k as [|k]; [cbn in Hk; lia|].
    inversion HF as [|? ? [Ha Hb] Hxs]; subst. destruct HW as [[Wa Wb] Wxs]. cbn [fst snd] in *.
    cbn [dec_pairs lenN]. destruct (1 + lenN kvs =? 0) eqn:Z; [rewrite N.eqb_eq in Z; lia|].
    cbn [map concat fst snd]. rewrite <- !app_assoc.
    change (list_sum (map (fun kv => (sz (fst kv) + sz (snd kv))%nat) ((a, b) :: kvs))) with ((sz a + sz b) + list_sum (map (fun kv => (sz (fst kv) + sz (snd kv))%nat) kvs))%nat in Hs.
    rewrite (Ha Wa f _ ltac:(lia)). rewrite (Hb Wb f _ ltac:(lia)).
    replace (1 + lenN kvs - 1) with (lenN kvs) by lia.
    rewrite IH; [reflexivity|assumption|assumption|lia|cbn in Hk; lia].
Qed.

Lemma dec_break_rt (f : nat) : forall xs k rest,
  Forall RT xs -> wf_all xs -> (list_sum (map sz xs) <= f)%nat -> (length xs < k)%nat ->
  dec_break (dec f) k (concat (map enc xs) ++ xff :: rest) = Some (xs, rest).
Proof.
  induction xs as [|x xs IH]; intros k rest HF HW Hs Hk.
  - destruct k; [cbn in Hk; lia|]. reflexivity.
  - destruct k as [|k]; [cbn in Hk; lia|].
    inversion HF as [|? ? Hx Hxs]; subst. destruct HW as [Wx Wxs].
    cbn [map concat]. rewrite <- app_assoc.
    destruct (enc_first x Wx) as (h & r & E & Hne).
    cbn [dec_break]. rewrite E. cbn [app].
    destruct (b2n h =? 255) eqn:Q; [rewrite N.eqb_eq in Q; contradiction|].
    change (h :: r ++ concat (map enc xs) ++ xff :: rest) with ((h :: r) ++ concat (map enc xs) ++ xff :: rest).
    rewrite <- E. change (list_sum (map sz (x :: xs))) with (sz x + list_sum (map sz xs))%nat in Hs.
    rewrite (Hx Wx f _ ltac:(lia)).
    rewrite IH; [reflexivity|assumption|assumption|lia|cbn in Hk; lia].
Qed.

Lemma dec_chunks_rt : forall cs k rest,
  Forall (fun c => lenN c < two64) cs -> (length cs < k)%nat ->
  dec_chunks k (concat (map enc_chunk cs) ++ xff :: rest) = Some (cs, rest).
Proof.
  induction cs as [|c cs IH]; intros k rest HW Hk.
  - destruct k; [cbn in Hk; lia|]. reflexivity.
  - destruct k as [|k]; [cbn in Hk; lia|].
    inversion HW as [|? ? Hc Hcs]; subst.
    cbn [map concat]. unfold enc_chunk at 1. rewrite <- !app_assoc.
    destruct (head_dec 2 (lenN c) (c ++ concat (map enc_chunk cs) ++ xff :: rest) ltac:(lia) Hc)
      as (h & a & E & Hm & _ & Hne & Hd).
    rewrite E. cbn [app dec_chunks].
    destruct (b2n h =? 255) eqn:Q; [rewrite N.eqb_eq in Q; contradiction|].
    rewrite Hm. cbn [N.eqb Pos.eqb]. rewrite Hd.
    rewrite take_app by reflexivity.
    rewrite IH; [reflexivity|assumption|cbn in Hk; lia].
Qed.

Theorem dec_enc : forall x, RT x.
Proof.
  induction x as [n|n|b|cs|b|xs IH|xs IH|kvs IH|t y IH|v] using cbor_ind'; unfold RT; intros W f rest Hf.
  - (* CU *) destruct f as [|f]; [cbn in Hf; lia|]. cbn [enc wf] in *.
    destruct (head_dec 0 n rest ltac:(lia) W) as (h & a & E & Hm & Hai & _ & Hd).
    rewrite E. cbn [app dec]. rewrite Hm. cbn [N.eqb].
    destruct (b2n h mod 32 =? 31) eqn:Q; [rewrite N.eqb_eq in Q; contradiction|].
    now rewrite Hd.
  - (* CN *) destruct f as [|f]; [cbn in Hf; lia|]. cbn [enc wf] in *.
    destruct (head_dec 1 n rest ltac:(lia) W) as (h & a & E & Hm & Hai & _ & Hd).
    rewrite E. cbn [app dec]. rewrite Hm. cbn [N.eqb Pos.eqb].
    destruct (b2n h mod 32 =? 31) eqn:Q; [rewrite N.eqb_eq in Q; contradiction|].
    now rewrite Hd.
  - (* CB *) destruct f as [|f]; [cbn in Hf; lia|]. cbn [enc wf] in *. rewrite <- app_assoc.
    destruct (head_dec 2 (lenN b) (b ++ rest) ltac:(lia) W) as (h & a & E & Hm & Hai & _ & Hd).
    rewrite E. cbn [app dec]. rewrite Hm. cbn [N.eqb Pos.eqb].
    destruct (b2n h mod 32 =? 31) eqn:Q; [rewrite N.eqb_eq in Q; contradiction|].
    rewrite Hd. now rewrite take_app.
  - (* CBi *) destruct f as [|f]; [cbn in Hf; lia|]. cbn [enc wf sz] in *.
    cbn [app dec]. change (b2n x5f / 32) with 2. change (b2n x5f mod 32) with 31. cbn [N.eqb Pos.eqb].
    rewrite <- app_assoc. cbn [app]. rewrite dec_chunks_rt; [reflexivity|assumption|unfold bytes in *; lia].
  - (* CT *) destruct f as [|f]; [cbn in Hf; lia|]. cbn [enc wf] in *. rewrite <- app_assoc.
    destruct (head_dec 3 (lenN b) (b ++ rest) ltac:(lia) W) as (h & a & E & Hm & Hai & _ & Hd).
    rewrite E. cbn [app dec]. rewrite Hm. cbn [N.eqb Pos.eqb].
    destruct (b2n h mod 32 =? 31) eqn:Q; [rewrite N.eqb_eq in Q; contradiction|].
    rewrite Hd. now rewrite take_app.
  - (* CA *) destruct f as [|f]; [cbn in Hf; lia|]. cbn [enc wf sz] in *. destruct W as [Wl Wx].
    rewrite <- app_assoc.
    destruct (head_dec 4 (lenN xs) (concat (map enc xs) ++ rest) ltac:(lia) Wl) as (h & a & E & Hm & Hai & _ & Hd).
    rewrite E. cbn [app dec]. rewrite Hm. cbn [N.eqb Pos.eqb].
    destruct (b2n h mod 32 =? 31) eqn:Q; [rewrite N.eqb_eq in Q; contradiction|].
    rewrite Hd. rewrite dec_n_rt; [reflexivity|assumption|exact Wx|lia|lia].
  - (* CAi *) destruct f as [|f]; [cbn in Hf; lia|]. cbn [enc wf sz] in *.
    cbn [app dec]. change (b2n x9f / 32) with 4. change (b2n x9f mod 32) with 31. cbn [N.eqb Pos.eqb].
    rewrite <- app_assoc. cbn [app]. rewrite dec_break_rt; [reflexivity|assumption|exact W|lia|lia].
  - (* CM *) destruct f as [|f]; [cbn in Hf; lia|]. cbn [enc wf sz] in *. destruct W as [Wl Wx].
    rewrite <- app_assoc.
    destruct (head_dec 5 (lenN kvs) (concat (map (fun kv => enc (fst kv) ++ enc (snd kv)) kvs) ++ rest) ltac:(lia) Wl)
      as (h & a & E & Hm & Hai & _ & Hd).
    rewrite E. cbn [app dec]. rewrite Hm. cbn [N.eqb Pos.eqb].
    destruct (b2n h mod 32 =? 31) eqn:Q; [rewrite N.eqb_eq in Q; contradiction|].
    rewrite Hd. rewrite dec_pairs_rt; [reflexivity|assumption|exact Wx|lia|lia].
  - (* CTag *) destruct f as [|f]; [cbn in Hf; lia|]. cbn [enc wf sz] in *. destruct W as [Wt Wy].
    rewrite <- app_assoc.
    destruct (head_dec 6 t (enc y ++ rest) ltac:(lia) Wt) as (h & a & E & Hm & Hai & _ & Hd).
    rewrite E. cbn [app dec]. rewrite Hm. cbn [N.eqb Pos.eqb].
    destruct (b2n h mod 32 =? 31) eqn:Q; [rewrite N.eqb_eq in Q; contradiction|].
    rewrite Hd. rewrite (IH Wy f rest ltac:(lia)). reflexivity.
  - (* CS *) destruct f as [|f]; [cbn in Hf; lia|]. cbn [enc wf] in *.
    cbn [app dec]. rewrite b2n_n2b_small by lia.
    assert ((224 + v) / 32 = 7) by lia. assert ((224 + v) mod 32 = v) by lia.
    rewrite H, H0. cbn [N.eqb Pos.eqb].
    destruct (20 <=? v) eqn:A; [|rewrite N.leb_gt in A; lia].
    destruct (v <? 24) eqn:B; [|rewrite N.ltb_ge in B; lia]. reflexivity.
Qed.

Corollary enc_prefix_free x y r1 r2 : wf x -> wf y -> enc x ++ r1 = enc y ++ r2 -> x = y /\ r1 = r2.
Proof.
  intros Wx Wy E.
  pose proof (dec_enc x Wx (max (sz x) (sz y)) r1 ltac:(lia)) as H1.
  pose proof (dec_enc y Wy (max (sz x) (sz y)) r2 ltac:(lia)) as H2.
  rewrite E in H1. rewrite H1 in H2. inversion H2. auto.
Qed.

Corollary enc_inj x y : wf x -> wf y -> enc x = enc y -> x = y.
Proof.
  intros Wx Wy E. apply (enc_prefix_free x y [] [] Wx Wy). now rewrite !app_nil_r.
Qed.
