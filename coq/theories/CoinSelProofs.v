(* CoinSelProofs.v — C14: whatever the selectors of CoinSel.v return is a covering, distinct, limit-respecting
   subset of the pool with change = selected - requested; largest-first is complete; random-improve is
   sound for every stream of random choices and total.  All by induction (work list / stream), no bounds. *)
From Coq Require Import NArith ZArith Ascii String List Bool Lia Permutation.
From PyC Require Import Base Dict Value ValueProofs CoinSel.
Import ListNotations.
Open Scope Z_scope.

(* ================= lists ================= *)
Lemma NoDup_app_iff {A} (a b : list A) :
  NoDup (a ++ b) <-> NoDup a /\ NoDup b /\ (forall x, In x a -> ~ In x b).
Proof.
  induction a as [|x a IH]; cbn.
  - split; [intros H; repeat split; [constructor | exact H | intros ? []] | intros (_ & H & _); exact H].
  - split.
    + intros H. inversion H as [|? ? Hn Hr]; subst. apply IH in Hr as (Ha & Hb & Hd).
      repeat split; [constructor; [intros X; apply Hn, in_or_app; now left | exact Ha] | exact Hb |].
      intros y [<-|Hy] Hyb; [apply Hn, in_or_app; now right | exact (Hd y Hy Hyb)].
    + intros (Ha & Hb & Hd). inversion Ha as [|? ? Hn Hr]; subst. constructor.
      * intros X. apply in_app_or in X as [X|X]; [contradiction | exact (Hd x (or_introl eq_refl) X)].
      * apply IH. repeat split; [exact Hr | exact Hb | intros y Hy; apply Hd; now right].
Qed.

Lemma pop_at_perm {A} (d : A) : forall k (l : list A), (k < length l)%nat -> Permutation (nth k l d :: pop_at k l) l.
Proof.
  induction k as [|k IH]; intros [|a l] H; cbn in H; try lia.
  - reflexivity.
  - unfold pop_at in *. cbn. etransitivity; [apply perm_swap|]. apply perm_skip. apply IH. lia.
Qed.

Lemma pop_at_length {A} : forall k (l : list A), (k < length l)%nat -> length (pop_at k l) = (length l - 1)%nat.
Proof.
  intros k l H. pose proof (Permutation_length (pop_at_perm (hd_error l) k (map Some l) ltac:(now rewrite map_length))) as P.
  unfold pop_at in *. rewrite app_length, firstn_length, skipn_length. lia.
Qed.

Lemma skipn_app_exact {A} (a b : list A) : skipn (length a) (a ++ b) = b.
Proof. induction a as [|x a IH]; cbn; [reflexivity | exact IH]. Qed.

(* ================= values ================= *)
Definition uwf (u : utxo) : Prop := wfv (uval u).
Definition unonneg (u : utxo) : Prop := v_nonneg (uval u).
Definition vle (a b : value) : Prop := coin a <= coin b /\ forall p n, content (massets a) p n <= content (massets b) p n.

Lemma wfv_zero : wfv v_zero.
Proof. split; constructor. Qed.
Lemma wfv_coin c : wfv (mkValue c []).
Proof. split; constructor. Qed.
Lemma content_nil p n : content [] p n = 0.
Proof. reflexivity. Qed.

Lemma coin_sum_cons v l : coin_sum (v :: l) = coin v + coin_sum l.
Proof. reflexivity. Qed.
Lemma content_sum_cons v l p n : content_sum (v :: l) p n = content (massets v) p n + content_sum l p n.
Proof. reflexivity. Qed.
Lemma coin_sum_app a b : coin_sum (a ++ b) = coin_sum a + coin_sum b.
Proof. induction a as [|x a IH]; [reflexivity|]. cbn [app]. rewrite !coin_sum_cons, IH. lia. Qed.
Lemma content_sum_app a b p n : content_sum (a ++ b) p n = content_sum a p n + content_sum b p n.
Proof. induction a as [|x a IH]; [reflexivity|]. cbn [app]. rewrite !content_sum_cons, IH. lia. Qed.
Lemma coin_sum_perm a b : Permutation a b -> coin_sum a = coin_sum b.
Proof. induction 1; rewrite ?coin_sum_cons; lia. Qed.
Lemma content_sum_perm a b p n : Permutation a b -> content_sum a p n = content_sum b p n.
Proof. induction 1; rewrite ?content_sum_cons; lia. Qed.

Lemma vfold_cons acc u l : vfold acc (u :: l) = vfold (v_add acc (uval u)) l.
Proof. reflexivity. Qed.
Lemma vfold_app acc a b : vfold acc (a ++ b) = vfold (vfold acc a) b.
Proof. unfold vfold. apply fold_left_app. Qed.

Lemma vfold_spec l : forall acc, wfv acc -> Forall uwf l ->
  wfv (vfold acc l)
  /\ coin (vfold acc l) = coin acc + coin_sum (map uval l)
  /\ forall p n, content (massets (vfold acc l)) p n = content (massets acc) p n + content_sum (map uval l) p n.
Proof.
  induction l as [|u l IH]; intros acc W F.
  - cbn. split; [|split]; [exact W | unfold coin_sum; cbn; lia | intros; unfold content_sum; cbn; lia].
  - inversion F as [|? ? Wu Fl]; subst. rewrite vfold_cons.
    destruct (v_add_spec acc (uval u) W Wu) as (C & M & _ & W').
    destruct (IH _ W' Fl) as (W2 & C2 & M2). split; [|split]; [exact W2 | |].
    + rewrite C2, C. cbn [map]. rewrite coin_sum_cons. lia.
    + intros p n. rewrite M2, M. cbn [map]. rewrite content_sum_cons. lia.
Qed.

Lemma vsum_spec l : Forall uwf l ->
  wfv (vsum l) /\ coin (vsum l) = coin_sum (map uval l)
  /\ forall p n, content (massets (vsum l)) p n = content_sum (map uval l) p n.
Proof.
  intros F. destruct (vfold_spec l v_zero wfv_zero F) as (W & C & M). unfold vsum. split; [|split]; [exact W | rewrite C; cbn; lia |].
  intros p n. rewrite M. cbn. lia.
Qed.

Lemma req_fold_spec outs : forall acc, wfv acc -> Forall wfv outs ->
  wfv (fold_left v_add outs acc)
  /\ coin (fold_left v_add outs acc) = coin acc + coin_sum outs
  /\ forall p n, content (massets (fold_left v_add outs acc)) p n = content (massets acc) p n + content_sum outs p n.
Proof.
  induction outs as [|o outs IH]; intros acc W F.
  - cbn. split; [|split]; [exact W | unfold coin_sum; cbn; lia | intros; unfold content_sum; cbn; lia].
  - inversion F as [|? ? Wo Fo]; subst. cbn [fold_left].
    destruct (v_add_spec acc o W Wo) as (C & M & _ & W').
    destruct (IH _ W' Fo) as (W2 & C2 & M2). split; [|split]; [exact W2 | |].
    + rewrite C2, C, coin_sum_cons. lia.
    + intros p n. rewrite M2, M, content_sum_cons. lia.
Qed.

Lemma req_total_spec fee outs : Forall wfv outs ->
  wfv (req_total fee outs) /\ coin (req_total fee outs) = fee + coin_sum outs
  /\ forall p n, content (massets (req_total fee outs)) p n = content_sum outs p n.
Proof.
  intros F. destruct (req_fold_spec outs (mkValue fee []) (wfv_coin fee) F) as (W & C & M).
  split; [|split]; [exact W | exact C | intros p n; rewrite M; cbn; lia].
Qed.

Lemma req_total_coin_only x : req_total 0 [mkValue x []] = mkValue x [].
Proof. reflexivity. Qed.

Lemma nonneg_sums l : Forall unonneg l -> 0 <= coin_sum (map uval l) /\ forall p n, 0 <= content_sum (map uval l) p n.
Proof.
  induction 1 as [|u l [Hc Hm] _ [IHc IHm]]; [split; [reflexivity | intros; reflexivity]|].
  cbn [map]. split; [rewrite coin_sum_cons; lia | intros p n; rewrite content_sum_cons; specialize (Hm p n); specialize (IHm p n); lia].
Qed.

(* adding non-negative amounts keeps a lower bound *)
Lemma v_le_vfold_mono a b l : wfv b -> Forall uwf l -> Forall unonneg l -> v_le a b = true -> v_le a (vfold b l) = true.
Proof.
  intros W F N H. apply v_le_spec in H as [Hc Hm]. apply v_le_spec.
  destruct (vfold_spec l b W F) as (_ & C & M). destruct (nonneg_sums l N) as [Nc Nm].
  split; [rewrite C; lia | intros p n; rewrite M; specialize (Hm p n); specialize (Nm p n); lia].
Qed.

Lemma Forall_perm {A} (P : A -> Prop) a b : Permutation a b -> Forall P a -> Forall P b.
Proof. intros Pm F. apply Forall_forall. intros x Hx. rewrite Forall_forall in F. apply F. eapply Permutation_in; [symmetry; exact Pm | exact Hx]. Qed.
Lemma Forall_incl {A} (P : A -> Prop) a b : incl a b -> Forall P b -> Forall P a.
Proof. intros I F. apply Forall_forall. intros x Hx. rewrite Forall_forall in F. apply F, I, Hx. Qed.
Lemma Forall_app_l {A} (P : A -> Prop) a b : Forall P (a ++ b) -> Forall P a.
Proof. intros F. apply Forall_app in F. tauto. Qed.
Lemma Forall_app_r {A} (P : A -> Prop) a b : Forall P (a ++ b) -> Forall P b.
Proof. intros F. apply Forall_app in F. tauto. Qed.

(* TransactionOutput.validate's test is false on a well-formed value with non-negative content *)
Lemma m_count_pos (c : bytes -> bytes -> Z -> bool) (m : masset) :
  0 < m_count c m -> exists p a n q, In (p, a) m /\ In (n, q) a /\ c p n q = true.
Proof.
  unfold m_count, Zsum. induction m as [|[p a] m IH]; cbn; [lia|]. intros H.
  destruct (filter (fun nq : bytes * Z => c p (fst nq) (snd nq)) a) as [|[n q] f] eqn:Fl.
  - cbn in H. destruct (IH H) as (p' & a' & n' & q' & I1 & I2 & I3). exists p', a', n', q'. tauto.
  - assert (I : In (n, q) (filter (fun nq : bytes * Z => c p (fst nq) (snd nq)) a)) by (rewrite Fl; now left).
    apply filter_In in I as [I1 I2]. exists p, a, n, q. cbn in I2. tauto.
Qed.

Lemma nonneg_no_neg_count (v : value) : wfv v -> (forall p n, 0 <= content (massets v) p n) ->
  m_count (fun _ _ q => q <? 0) (massets v) <= 0 /\ (0 <= coin v -> v_has_neg v = false).
Proof.
  intros [Wd Fa] Hc.
  assert (A : m_count (fun _ _ q => q <? 0) (massets v) <= 0).
  { destruct (Z_lt_le_dec 0 (m_count (fun _ _ q => q <? 0) (massets v))) as [L|G]; [|exact G]. exfalso.
    apply m_count_pos in L as (p & a & n & q & I1 & I2 & I3). apply Z.ltb_lt in I3.
    assert (Ga : dget (massets v) p = Some a) by (apply In_dget; assumption).
    assert (Wa : wfd a) by (rewrite Forall_forall in Fa; apply (Fa _ I1)).
    assert (Gq : dget a n = Some q) by (apply In_dget; assumption).
    specialize (Hc p n). unfold content, mget, aget in Hc. rewrite Ga, Gq in Hc. lia. }
  split; [exact A|]. intros C. unfold v_has_neg. apply orb_false_iff. split; [apply Z.ltb_ge; exact C | apply Z.ltb_ge; exact A].
Qed.

(* ================= the result predicate (on identified UTxOs) ================= *)
Definition sel_ok (utxos : list utxo) (req : value) (lim : option Z) (sel : list utxo) (chg : value) : Prop :=
  NoDup (map uid sel) /\ incl sel utxos
  /\ v_le req (vsum sel) = true
  /\ chg = v_sub (vsum sel) req
  /\ (forall n, lim = Some n -> 0 < n -> Z.of_nat (length sel) <= n).

(* ================= largest first ================= *)
Lemma insert_asc_perm u l : Permutation (insert_asc u l) (u :: l).
Proof.
  induction l as [|h r IH]; cbn; [reflexivity|].
  destruct (coin (uval u) <=? coin (uval h)); [reflexivity|].
  etransitivity; [apply perm_skip, IH | apply perm_swap].
Qed.
Lemma sort_asc_perm l : Permutation (sort_asc l) l.
Proof. induction l as [|u l IH]; cbn; [reflexivity|]. etransitivity; [apply insert_asc_perm | now apply perm_skip]. Qed.
Lemma lf_order_perm l : Permutation (rev (sort_asc l)) l.
Proof. etransitivity; [symmetry; apply Permutation_rev | apply sort_asc_perm]. Qed.

Lemma lf_loop_ok : forall avail req lim sel amt sel' amt' avail',
  lf_loop avail req lim sel amt = Ok (sel', amt', avail') ->
  exists add, sel' = sel ++ add /\ avail = add ++ avail' /\ amt' = vfold amt add /\ v_le req amt' = true
              /\ (add <> [] -> lim_exceeded lim (length sel') = false).
Proof.
  induction avail as [|u rest IH]; intros req lim sel amt sel' amt' avail' H; cbn in H.
  - destruct (v_le req amt) eqn:E; [|discriminate]. inversion H; subst.
    exists []. rewrite app_nil_r. repeat split; auto. congruence.
  - destruct (v_le req amt) eqn:E.
    + inversion H; subst. exists []. rewrite app_nil_r. repeat split; auto. congruence.
    + destruct (lim_exceeded lim (length (sel ++ [u]))) eqn:L; [discriminate|].
      apply IH in H as (add & -> & -> & -> & Hle & Hl).
      exists (u :: add). repeat split; auto; [now rewrite <- app_assoc|].
      intros _. destruct add as [|x add]; [now rewrite app_nil_r in * | apply Hl; congruence].
Qed.

Lemma lf_loop_err : forall avail req lim sel amt e,
  lf_loop avail req lim sel amt = Err e ->
  (e = EInsufficient /\ v_le req (vfold amt avail) = false) \/ (e = EMaxInput /\ exists n, lim = Some n /\ n <> 0).
Proof.
  induction avail as [|u rest IH]; intros req lim sel amt e H; cbn in H.
  - destruct (v_le req amt) eqn:E; [discriminate|]. inversion H; subst. left. split; [reflexivity | exact E].
  - destruct (v_le req amt) eqn:E; [discriminate|].
    destruct (lim_exceeded lim (length (sel ++ [u]))) eqn:L.
    + inversion H; subst. right. split; [reflexivity|]. destruct lim as [n|]; [|discriminate].
      exists n. split; [reflexivity|]. cbn in L. apply andb_true_iff in L as [L _]. apply negb_true_iff, Z.eqb_neq in L. exact L.
    + apply IH in H. rewrite vfold_cons. exact H.
Qed.

Lemma lf_core_ok utxos req lim sel amt avail :
  lf_core utxos req lim = Ok (sel, amt, avail) ->
  Permutation (sel ++ avail) utxos /\ amt = vsum sel /\ v_le req amt = true
  /\ (sel <> [] -> lim_exceeded lim (length sel) = false).
Proof.
  unfold lf_core. intros H. apply lf_loop_ok in H as (add & -> & E & -> & Hle & Hl). cbn [app] in *.
  repeat split; auto. rewrite <- E. apply lf_order_perm.
Qed.

Lemma lim_exceeded_le n len : 0 < n -> lim_exceeded (Some n) len = false -> Z.of_nat len <= n.
Proof. intros P H. cbn in H. apply andb_false_iff in H as [H|H]; [apply negb_false_iff, Z.eqb_eq in H; lia | apply Z.ltb_ge in H; exact H]. Qed.
Lemma lim_reached_lt n len : 0 < n -> lim_reached (Some n) len = false -> Z.of_nat len < n.
Proof. intros P H. cbn in H. apply andb_false_iff in H as [H|H]; [apply negb_false_iff, Z.eqb_eq in H; lia | apply Z.leb_gt in H; exact H]. Qed.

Lemma perm_nodup_incl (sel rest utxos : list utxo) :
  NoDup (map uid utxos) -> Permutation (sel ++ rest) utxos -> NoDup (map uid sel) /\ incl sel utxos.
Proof.
  intros N P. split.
  - assert (N2 : NoDup (map uid (sel ++ rest))) by (eapply Permutation_NoDup; [apply Permutation_map; symmetry; exact P | exact N]).
    rewrite map_app in N2. apply NoDup_app_iff in N2. tauto.
  - intros x Hx. eapply Permutation_in; [exact P | apply in_or_app; now left].
Qed.

Theorem lf_select_sound utxos outs lim fee minchg sel chg :
  NoDup (map uid utxos) -> Forall uwf utxos -> Forall unonneg utxos ->
  lf_select utxos outs lim fee minchg = Ok (sel, chg) ->
  sel_ok utxos (req_total fee outs) lim sel chg.
Proof.
  intros ND WF NN H. unfold lf_select in H.
  destruct (lf_core utxos (req_total fee outs) lim) as [[[sel1 amt1] avail1]|e] eqn:C1; [|discriminate].
  apply lf_core_ok in C1 as (P1 & -> & Le1 & L1).
  assert (Base : sel_ok utxos (req_total fee outs) lim sel1 (v_sub (vsum sel1) (req_total fee outs))).
  { destruct (perm_nodup_incl _ _ _ ND P1) as [N1 I1]. repeat split; auto.
    intros n -> Pn. destruct sel1 as [|x s]; [cbn; lia|]. apply lim_exceeded_le; [exact Pn | apply L1; congruence]. }
  destruct minchg as [mc|]; [|inversion H; subst; exact Base].
  destruct (v_has_neg _); [discriminate|].
  destruct (coin (v_sub (vsum sel1) (req_total fee outs)) <? mc (v_sub (vsum sel1) (req_total fee outs))) eqn:T;
    [|inversion H; subst; exact Base].
  destruct (lim_reached lim (length sel1)) eqn:LR; [discriminate|].
  destruct (lf_core (rev avail1) _ (sub_limit lim (length sel1))) as [[[add amt2] avail2]|e] eqn:C2; [|discriminate].
  inversion H; subst sel chg; clear H.
  apply lf_core_ok in C2 as (P2 & _ & _ & L2).
  assert (P : Permutation ((sel1 ++ add) ++ avail2) utxos).
  { rewrite <- app_assoc. etransitivity; [|exact P1]. apply Permutation_app_head.
    etransitivity; [exact P2 | symmetry; apply Permutation_rev]. }
  destruct (perm_nodup_incl _ _ _ ND P) as [N I].
  assert (WFa : Forall uwf add /\ Forall unonneg add).
  { split; (eapply Forall_incl; [|eassumption]); intros x Hx; apply I, in_or_app; now right. }
  assert (WF1 : Forall uwf sel1) by (eapply Forall_incl; [|exact WF]; intros x Hx; apply I, in_or_app; now left).
  unfold sel_ok. replace (vfold (vsum sel1) add) with (vsum (sel1 ++ add)) by (unfold vsum; apply vfold_app).
  repeat split; auto.
  - unfold vsum. rewrite vfold_app. apply v_le_vfold_mono; try tauto. exact (proj1 (vsum_spec sel1 WF1)).
  - intros n -> Pn. rewrite app_length, Nat2Z.inj_add.
    pose proof (lim_reached_lt _ _ Pn LR) as Lt. cbn in L2.
    destruct (n =? 0) eqn:Z0; [apply Z.eqb_eq in Z0; lia|].
    destruct add as [|x a]; [cbn; lia|].
    assert (Q : Z.of_nat (length (x :: a)) <= n - Z.of_nat (length sel1)) by (apply lim_exceeded_le; [lia | apply L2; congruence]).
    lia.
Qed.

(* completeness: InsufficientUTxOBalance is raised only when the whole pool does not cover the request
   (+ fee), or — raised by the min-change top-up — the whole pool does not cover request + fee + the
   minimum change demanded for the change of the first phase *)
Theorem lf_select_complete utxos outs lim fee minchg :
  Forall uwf utxos -> Forall unonneg utxos -> Forall wfv outs ->
  lf_select utxos outs lim fee minchg = Err EInsufficient ->
  ~ covers fee outs (map uval utxos)
  \/ exists mc sel1, minchg = Some mc /\ incl sel1 utxos
       /\ coin_sum (map uval utxos) < fee + coin_sum outs + mc (v_sub (vsum sel1) (req_total fee outs)).
Proof.
  intros WF NN WO H. unfold lf_select in H.
  destruct (req_total_spec fee outs WO) as (Wr & Cr & Mr).
  destruct (lf_core utxos (req_total fee outs) lim) as [[[sel1 amt1] avail1]|e] eqn:C1.
  - apply lf_core_ok in C1 as (P1 & -> & Le1 & L1).
    destruct minchg as [mc|]; [|discriminate].
    destruct (v_has_neg _); [discriminate|].
    destruct (coin (v_sub (vsum sel1) (req_total fee outs)) <? mc (v_sub (vsum sel1) (req_total fee outs))) eqn:T; [|discriminate].
    destruct (lim_reached lim (length sel1)); [discriminate|].
    destruct (lf_core (rev avail1) _ (sub_limit lim (length sel1))) as [[[add amt2] avail2]|e] eqn:C2; [discriminate|].
    inversion H; subst e; clear H. right. exists mc, sel1. split; [reflexivity|].
    split; [intros x Hx; eapply Permutation_in; [exact P1 | apply in_or_app; now left]|].
    unfold lf_core in C2. apply lf_loop_err in C2 as [[_ F]|[X _]]; [|discriminate].
    rewrite req_total_coin_only in F.
    set (av := rev (sort_asc (rev avail1))) in *.
    assert (Pav : Permutation av avail1) by (unfold av; etransitivity; [apply lf_order_perm | symmetry; apply Permutation_rev]).
    assert (Wall : Forall uwf (sel1 ++ avail1) /\ Forall unonneg (sel1 ++ avail1))
      by (split; eapply Forall_perm; try (symmetry; exact P1); assumption).
    destruct Wall as [Wall Nall].
    assert (Wav : Forall uwf av) by (eapply Forall_perm; [symmetry; exact Pav | eapply Forall_app_r; exact Wall]).
    assert (Nav : Forall unonneg av) by (eapply Forall_perm; [symmetry; exact Pav | eapply Forall_app_r; exact Nall]).
    destruct (vsum_spec av Wav) as (_ & Ca & Ma). destruct (nonneg_sums av Nav) as [_ Nm].
    assert (Lt : coin (vsum av) < mc (v_sub (vsum sel1) (req_total fee outs)) - coin (v_sub (vsum sel1) (req_total fee outs))).
    { destruct (Z_lt_le_dec (coin (vsum av)) (mc (v_sub (vsum sel1) (req_total fee outs)) - coin (v_sub (vsum sel1) (req_total fee outs)))) as [L|G]; [exact L|].
      exfalso. assert (X : v_le (mkValue (mc (v_sub (vsum sel1) (req_total fee outs)) - coin (v_sub (vsum sel1) (req_total fee outs))) []) (vsum av) = true).
      { apply v_le_spec. cbn [coin massets]. split; [exact G|]. intros p n. rewrite content_nil, Ma. apply Nm. }
      unfold vsum in X, F. congruence. }
    destruct (vsum_spec sel1 (Forall_app_l _ _ _ Wall)) as (W1 & C1' & _).
    destruct (v_sub_spec _ _ W1 Wr) as (Cs & _). rewrite Cs, C1', Cr, Ca in Lt.
    rewrite <- (coin_sum_perm _ _ (Permutation_map uval P1)), map_app, coin_sum_app.
    rewrite (coin_sum_perm _ _ (Permutation_map uval Pav)) in Lt. lia.
  - inversion H; subst e; clear H. left. unfold lf_core in C1. apply lf_loop_err in C1 as [[_ F]|[X _]]; [|discriminate].
    intros [Cc Cm]. set (av := rev (sort_asc utxos)) in *.
    assert (Pav : Permutation av utxos) by apply lf_order_perm.
    assert (Wav : Forall uwf av) by (eapply Forall_perm; [symmetry; exact Pav | exact WF]).
    destruct (vsum_spec av Wav) as (_ & Ca & Ma).
    assert (X : v_le (req_total fee outs) (vsum av) = true).
    { apply v_le_spec. split.
      - rewrite Cr, Ca, (coin_sum_perm _ _ (Permutation_map uval Pav)). exact Cc.
      - intros p n. rewrite Mr, Ma, (content_sum_perm _ _ p n (Permutation_map uval Pav)). apply Cm. }
    unfold vsum in X. congruence.
Qed.

(* largest-first raises nothing but InsufficientUTxOBalance / MaxInputCountExceeded (the latter only with a limit) *)
Theorem lf_select_errors utxos outs lim fee minchg e :
  Forall uwf utxos -> Forall wfv outs ->
  lf_select utxos outs lim fee minchg = Err e ->
  e = EInsufficient \/ (e = EMaxInput /\ exists n, lim = Some n /\ n <> 0).
Proof.
  intros WF WO H. unfold lf_select in H.
  destruct (req_total_spec fee outs WO) as (Wr & Cr & Mr).
  destruct (lf_core utxos (req_total fee outs) lim) as [[[sel1 amt1] avail1]|e1] eqn:C1.
  - apply lf_core_ok in C1 as (P1 & -> & Le1 & L1).
    destruct minchg as [mc|]; [|discriminate].
    assert (W1 : Forall uwf sel1) by (eapply Forall_app_l, Forall_perm; [symmetry; exact P1 | exact WF]).
    destruct (vsum_spec sel1 W1) as (Ws & Cs & Ms).
    destruct (v_sub_spec _ _ Ws Wr) as (Cd & Md & _ & Wd).
    apply v_le_spec in Le1 as [Lc Lm].
    destruct (v_has_neg (v_sub (vsum sel1) (req_total fee outs))) eqn:Neg.
    { exfalso. unfold v_has_neg in Neg. apply orb_true_iff in Neg as [Neg|Neg].
      - apply Z.ltb_lt in Neg. lia.
      - apply Z.ltb_lt in Neg. destruct (nonneg_no_neg_count _ Wd) as [X _]; [|lia].
        intros p n. rewrite Md. specialize (Lm p n). lia. }
    destruct (coin (v_sub (vsum sel1) (req_total fee outs)) <? mc (v_sub (vsum sel1) (req_total fee outs))); [|discriminate].
    destruct (lim_reached lim (length sel1)) eqn:LR.
    { inversion H; subst. right. split; [reflexivity|]. destruct lim as [n|]; [|discriminate]. exists n. split; [reflexivity|].
      cbn in LR. apply andb_true_iff in LR as [LR _]. apply negb_true_iff, Z.eqb_neq in LR. exact LR. }
    destruct (lf_core (rev avail1) _ (sub_limit lim (length sel1))) as [[[add amt2] avail2]|e2] eqn:C2; [discriminate|].
    inversion H; subst e2. unfold lf_core in C2. apply lf_loop_err in C2 as [[-> _]|[-> (n & Hn & _)]]; [now left | right].
    split; [reflexivity|]. destruct lim as [k|]; [|discriminate]. cbn in Hn. destruct (k =? 0) eqn:K0; [discriminate|].
    exists k. split; [reflexivity | now apply Z.eqb_neq].
  - inversion H; subst e1. unfold lf_core in C1. apply lf_loop_err in C1 as [[-> _]|[-> X]]; [now left | now right].
Qed.

(* ================= random improve ================= *)
Lemma draw_lt bi r len k : (0 < len)%nat -> draw bi r len = Ok k -> (k < len)%nat.
Proof.
  unfold draw. intros P. destruct bi.
  - intros H. inversion H; subst. pose proof (Z.mod_pos_bound r (Z.of_nat len) ltac:(lia)). lia.
  - destruct ((0 <=? r) && (r <? Z.of_nat len)) eqn:E; [|discriminate]. intros H; inversion H; subst.
    apply andb_true_iff in E as [E1 E2]. apply Z.leb_le in E1. apply Z.ltb_lt in E2. lia.
Qed.

Lemma rss_unfold bi rs amount remaining sel amt :
  rss bi rs amount remaining sel amt =
  if v_le amount amt then Ok (rs, remaining, sel, amt)
  else match remaining with
       | [] => Err EDepleted
       | u0 :: _ =>
           match rs with
           | [] => Err (stream_end bi)
           | r :: rs' =>
               match draw bi r (length remaining) with
               | Err e => Err e
               | Ok k => let u := nth k remaining u0 in
                         rss bi rs' amount (pop_at k remaining) (sel ++ [u]) (v_add amt (uval u))
               end
           end
       end.
Proof. destruct rs; reflexivity. Qed.

Lemma improve_unfold bi rs sel amt remaining ideal ub lim :
  improve bi rs sel amt remaining ideal ub lim =
  match remaining with
  | [] => ((rs, sel, amt), None)
  | u0 :: _ =>
      match find_diff ideal amt with
      | Err e => ((rs, sel, amt), Some e)
      | Ok d =>
          if d <=? 0 then ((rs, sel, amt), None)
          else if lim_reached_strict lim (length sel) then ((rs, sel, amt), Some EMaxInput)
          else
            match rs with
            | [] => ((rs, sel, amt), Some (stream_end bi))
            | r :: rs' =>
                match draw bi r (length remaining) with
                | Err e => ((rs', sel, amt), Some e)
                | Ok k =>
                    let u := nth k remaining u0 in
                    let amt2 := v_add amt (uval u) in
                    match accept ideal ub amt amt2 with
                    | Err e => ((rs', sel, amt), Some e)
                    | Ok true => improve bi rs' (sel ++ [u]) amt2 (pop_at k remaining) ideal ub lim
                    | Ok false => improve bi rs' sel amt (pop_at k remaining) ideal ub lim
                    end
                end
            end
      end
  end.
Proof. destruct rs; reflexivity. Qed.

Local Opaque v_add v_sub v_le.

Lemma rss_ok bi : forall rs amount remaining sel amt rs' rem' sel' amt',
  rss bi rs amount remaining sel amt = Ok (rs', rem', sel', amt') ->
  exists add, sel' = sel ++ add /\ Permutation (add ++ rem') remaining /\ amt' = vfold amt add
              /\ v_le amount amt' = true /\ (length rs' + length add = length rs)%nat.
Proof.
  induction rs as [|r rs IH]; intros amount remaining sel amt rs' rem' sel' amt' H; rewrite rss_unfold in H;
    destruct (v_le amount amt) eqn:E;
    try (inversion H; subst; exists []; rewrite app_nil_r; cbn; repeat split; auto; fail).
  - destruct remaining; discriminate.
  - destruct remaining as [|u0 rem0]; [discriminate|].
    destruct (draw bi r (length (u0 :: rem0))) as [k|e] eqn:D; [|discriminate]. cbv zeta in H.
    apply draw_lt in D; [|cbn; lia].
    apply IH in H as (add & -> & P & -> & Hle & Hlen).
    exists (nth k (u0 :: rem0) u0 :: add). rewrite <- app_assoc. repeat split; auto.
    + cbn [app]. etransitivity; [apply perm_skip, P | apply pop_at_perm, D].
    + cbn [length]. lia.
Qed.

Lemma rss_err bi : forall rs amount remaining sel amt e,
  rss bi rs amount remaining sel amt = Err e -> e = EDepleted \/ e = stream_end bi \/ (bi = false /\ e = ESelection).
Proof.
  induction rs as [|r rs IH]; intros amount remaining sel amt e H; rewrite rss_unfold in H;
    destruct (v_le amount amt); try discriminate; destruct remaining as [|u0 rem0];
    try (inversion H; subst; auto; fail).
  destruct (draw bi r (length (u0 :: rem0))) as [k|e'] eqn:D.
  - cbv zeta in H. eapply IH, H.
  - inversion H; subst e'. unfold draw in D. destruct bi; [discriminate|].
    destruct ((0 <=? r) && (r <? Z.of_nat (length (u0 :: rem0)))); inversion D. auto.
Qed.

Ltac improve_exit := eexists [], _; rewrite app_nil_r; cbn [app vfold fold_left length]; repeat split;
                     [reflexivity | intros; lia | lia | lia].

Lemma improve_ok bi : forall rs sel amt remaining ideal ub lim rs' sel' amt' oe,
  improve bi rs sel amt remaining ideal ub lim = ((rs', sel', amt'), oe) ->
  exists add rest, sel' = sel ++ add /\ Permutation (add ++ rest) remaining /\ amt' = vfold amt add
    /\ (forall n, lim = Some n -> Z.of_nat (length sel') <= Z.max (Z.of_nat (length sel)) n)
    /\ (length rs' <= length rs)%nat /\ (length rs - length rs' <= length remaining)%nat.
Proof.
  induction rs as [|r rs IH]; intros sel amt remaining ideal ub lim rs' sel' amt' oe H; rewrite improve_unfold in H;
    (destruct remaining as [|u0 rem0]; [inversion H; subst; improve_exit|]);
    (destruct (find_diff ideal amt) as [d|e]; [|inversion H; subst; improve_exit]);
    (destruct (d <=? 0); [inversion H; subst; improve_exit|]);
    (destruct (lim_reached_strict lim (length sel)) eqn:LR; [inversion H; subst; improve_exit|]).
  - inversion H; subst; improve_exit.
  - destruct (draw bi r (length (u0 :: rem0))) as [k|e] eqn:D;
      [|inversion H; subst; eexists [], _; rewrite app_nil_r; cbn [app vfold fold_left length]; repeat split;
        [reflexivity | intros; lia | lia | lia]].
    apply draw_lt in D; [|cbn; lia]. cbv zeta in H.
    pose proof (pop_at_perm u0 k (u0 :: rem0) D) as PP.
    pose proof (pop_at_length k (u0 :: rem0) D) as PL.
    destruct (accept ideal ub amt (v_add amt (uval (nth k (u0 :: rem0) u0)))) as [[|]|e];
      [| |inversion H; subst; eexists [], _; rewrite app_nil_r; cbn [app vfold fold_left length]; repeat split;
          [reflexivity | intros; lia | lia | lia]].
    + apply IH in H as (add & rest & -> & P & -> & L & R1 & R2).
      exists (nth k (u0 :: rem0) u0 :: add), rest. rewrite <- app_assoc. repeat split; auto.
      * cbn [app]. etransitivity; [apply perm_skip, P | exact PP].
      * intros n ->. specialize (L n eq_refl). rewrite !app_length in *. cbn [length] in *.
        cbn in LR. apply Z.leb_gt in LR. lia.
      * cbn [length]. lia.
      * cbn [length] in *. lia.
    + apply IH in H as (add & rest & -> & P & -> & L & R1 & R2).
      exists add, (nth k (u0 :: rem0) u0 :: rest). repeat split; auto.
      * etransitivity; [symmetry; apply Permutation_middle|]. etransitivity; [apply perm_skip, P | exact PP].
      * cbn [length]. lia.
      * cbn [length] in *. lia.
Qed.

Lemma phase1_ok bi : forall reqs rs remaining sel amt lim rs' rem' sel' amt',
  wfv amt -> Forall uwf remaining -> Forall unonneg remaining ->
  phase1 bi rs reqs remaining sel amt lim = Ok (rs', rem', sel', amt') ->
  exists add, sel' = sel ++ add /\ Permutation (add ++ rem') remaining /\ amt' = vfold amt add
    /\ Forall (fun r => v_le r amt' = true) reqs
    /\ (reqs <> [] -> lim_exceeded lim (length sel') = false)
    /\ (reqs = [] -> add = [])
    /\ (length rs' + length add = length rs)%nat.
Proof.
  induction reqs as [|r reqs IH]; intros rs remaining sel amt lim rs' rem' sel' amt' W WF NN H; cbn [phase1] in H.
  - inversion H; subst. exists []. rewrite app_nil_r. cbn. repeat split; auto. congruence.
  - destruct (rss bi rs r remaining sel amt) as [[[[rs1 rem1] sel1] amt1]|e] eqn:R; [|discriminate].
    destruct (lim_exceeded lim (length sel1)) eqn:L; [discriminate|].
    apply rss_ok in R as (add1 & -> & P1 & -> & Le1 & Len1).
    assert (F1 : Forall uwf (add1 ++ rem1) /\ Forall unonneg (add1 ++ rem1))
      by (split; eapply Forall_perm; try (symmetry; exact P1); assumption).
    destruct F1 as [F1 N1]. apply Forall_app in F1 as [Fa Fr]. apply Forall_app in N1 as [Na Nr].
    destruct (vfold_spec add1 amt W Fa) as (W1 & _).
    apply IH in H as (add2 & -> & P2 & -> & Fle & Hl & He & Len2); auto.
    assert (F2 : Forall uwf (add2 ++ rem') /\ Forall unonneg (add2 ++ rem'))
      by (split; eapply Forall_perm; try (symmetry; exact P2); assumption).
    destruct F2 as [F2 N2]. apply Forall_app in F2 as [Fa2 _]. apply Forall_app in N2 as [Na2 _].
    exists (add1 ++ add2). rewrite vfold_app, app_assoc. repeat split; auto.
    + rewrite <- app_assoc. etransitivity; [|exact P1]. apply Permutation_app_head. exact P2.
    + constructor; [|exact Fle]. apply v_le_vfold_mono; auto.
    + intros _. destruct reqs as [|r2 reqs]; [|apply Hl; congruence].
      rewrite (He eq_refl), app_nil_r. exact L.
    + congruence.
    + rewrite app_length. lia.
Qed.

Lemma phase1_err bi : forall reqs rs remaining sel amt lim e,
  phase1 bi rs reqs remaining sel amt lim = Err e ->
  e = EDepleted \/ e = stream_end bi \/ (bi = false /\ e = ESelection) \/ (e = EMaxInput /\ exists n, lim = Some n /\ n <> 0).
Proof.
  induction reqs as [|r reqs IH]; intros rs remaining sel amt lim e H; cbn [phase1] in H; [discriminate|].
  destruct (rss bi rs r remaining sel amt) as [[[[rs1 rem1] sel1] amt1]|e1] eqn:R.
  - destruct (lim_exceeded lim (length sel1)) eqn:L.
    + inversion H; subst. right; right; right. split; [reflexivity|]. destruct lim as [n|]; [|discriminate].
      exists n. split; [reflexivity|]. cbn in L. apply andb_true_iff in L as [L _]. apply negb_true_iff, Z.eqb_neq in L. exact L.
    + eapply IH, H.
  - inversion H; subst e1. apply rss_err in R. tauto.
Qed.

Lemma NoDup_map_filter {A B} (f : A -> B) (p : A -> bool) l : NoDup (map f l) -> NoDup (map f (filter p l)).
Proof.
  induction l as [|x l IH]; cbn; intros H; [constructor|]. inversion H as [|? ? Hn Hr]; subst.
  destruct (p x); cbn; [|now apply IH]. constructor; [|now apply IH].
  intros I. apply Hn. apply in_map_iff in I as (y & E & Hy). apply filter_In in Hy as [Hy _]. apply in_map_iff. now exists y.
Qed.

Lemma filter_length_le' {A} (p : A -> bool) l : (length (filter p l) <= length l)%nat.
Proof. induction l as [|x l IH]; cbn; [lia|]. destruct (p x); cbn; lia. Qed.

Lemma not_in_spec new u : not_in new u = true <-> forall w, In w new -> uid u <> uid w.
Proof.
  unfold not_in. rewrite negb_true_iff. split.
  - intros H w Hw E. assert (X : existsb (fun w0 => Nat.eqb (uid u) (uid w0)) new = true)
      by (apply existsb_exists; exists w; split; [exact Hw | now apply Nat.eqb_eq]). congruence.
  - intros H. destruct (existsb _ new) eqn:X; [|reflexivity]. apply existsb_exists in X as (w & Hw & E).
    apply Nat.eqb_eq in E. exfalso. exact (H w Hw E).
Qed.

Lemma phase2_step_nodup sel add rest remaining :
  NoDup (map uid (sel ++ remaining)) -> Permutation (add ++ rest) remaining ->
  NoDup (map uid ((sel ++ add) ++ filter (not_in add) remaining)).
Proof.
  intros N P. rewrite map_app in N. apply NoDup_app_iff in N as (Ns & Nr & Dsr).
  assert (Na : NoDup (map uid add)).
  { assert (X : NoDup (map uid (add ++ rest))) by (eapply Permutation_NoDup; [apply Permutation_map; symmetry; exact P | exact Nr]).
    rewrite map_app in X. apply NoDup_app_iff in X. tauto. }
  assert (Ia : incl add remaining) by (intros x Hx; eapply Permutation_in; [exact P | apply in_or_app; now left]).
  rewrite !map_app. apply NoDup_app_iff. split; [|split].
  - apply NoDup_app_iff. split; [exact Ns | split; [exact Na|]]. intros x Hs Ha. apply (Dsr x Hs).
    apply in_map_iff in Ha as (y & <- & Hy). apply in_map, Ia, Hy.
  - apply NoDup_map_filter, Nr.
  - intros x Hx Hf. apply in_map_iff in Hf as (y & <- & Hy). apply filter_In in Hy as [Hy1 Hy2].
    apply in_app_or in Hx as [Hx|Hx].
    + apply (Dsr _ Hx). now apply in_map.
    + apply in_map_iff in Hx as (w & E & Hw). rewrite not_in_spec in Hy2. exact (Hy2 w Hw (eq_sym E)).
Qed.

Lemma phase2_ok bi : forall reqs rs remaining sel amt lim rs' rem' sel' amt',
  NoDup (map uid (sel ++ remaining)) ->
  phase2 bi rs reqs remaining sel amt lim = Ok (rs', rem', sel', amt') ->
  exists add, sel' = sel ++ add /\ amt' = vfold amt add /\ NoDup (map uid (sel' ++ rem')) /\ incl (add ++ rem') remaining
    /\ (forall n, lim = Some n -> Z.of_nat (length sel') <= Z.max (Z.of_nat (length sel)) n)
    /\ (length rs' <= length rs)%nat /\ (length rs - length rs' <= length reqs * length remaining)%nat.
Proof.
  induction reqs as [|r reqs IH]; intros rs remaining sel amt lim rs' rem' sel' amt' N H; cbn [phase2] in H.
  - inversion H; subst. exists []. rewrite app_nil_r. cbn. repeat split; auto; try lia. intros x Hx; exact Hx.
  - destruct (improve bi rs sel amt remaining (v_add r r) (v_add (v_add r r) r) lim) as [[[rs1 sel1] amt1] oe] eqn:I.
    apply improve_ok in I as (add1 & rest1 & -> & P1 & -> & L1 & R1 & R2).
    rewrite skipn_app_exact in H.
    assert (G : phase2 bi rs1 reqs (filter (not_in add1) remaining) (sel ++ add1) (vfold amt add1) lim = Ok (rs', rem', sel', amt')).
    { destruct oe as [e|]; [|exact H]. destruct (is_sel_err e); [exact H | discriminate]. }
    clear H. apply IH in G as (add2 & -> & -> & N2 & I2 & L2 & R3 & R4); [|eapply phase2_step_nodup; eassumption].
    exists (add1 ++ add2). rewrite vfold_app, app_assoc. repeat split; auto.
    + intros x Hx. rewrite <- app_assoc in Hx. apply in_app_or in Hx as [Hx|Hx].
      * eapply Permutation_in; [exact P1 | apply in_or_app; now left].
      * apply I2 in Hx. apply filter_In in Hx. tauto.
    + intros n E. specialize (L1 n E). specialize (L2 n E). lia.
    + lia.
    + pose proof (filter_length_le' (not_in add1) remaining). cbn [length]. nia.
Qed.

Lemma phase2_err bi : forall reqs rs remaining sel amt lim e,
  phase2 bi rs reqs remaining sel amt lim = Err e -> is_sel_err e = false.
Proof.
  induction reqs as [|r reqs IH]; intros rs remaining sel amt lim e H; cbn [phase2] in H; [discriminate|].
  destruct (improve bi rs sel amt remaining (v_add r r) (v_add (v_add r r) r) lim) as [[[rs1 sel1] amt1] oe].
  destruct oe as [e1|]; [|eapply IH, H]. destruct (is_sel_err e1) eqn:S; [eapply IH, H|]. inversion H; subst. exact S.
Qed.

(* ----- every requested asset covered => the request is covered ----- *)
Lemma insert_desc_perm x l : Permutation (insert_desc x l) (x :: l).
Proof.
  induction l as [|h r IH]; cbn; [reflexivity|].
  destruct (single_val h <=? single_val x); [reflexivity|].
  etransitivity; [apply perm_skip, IH | apply perm_swap].
Qed.
Lemma sort_desc_perm l : Permutation (sort_desc l) l.
Proof. induction l as [|u l IH]; cbn; [reflexivity|]. etransitivity; [apply insert_desc_perm | now apply perm_skip]. Qed.

Lemma content_single p n q : content [(p, [(n, q)])] p n = q.
Proof. unfold content, mget, aget. cbn. rewrite !bytes_eqb_refl. cbn. now rewrite bytes_eqb_refl. Qed.

Lemma content_entry (m : masset) p n : content m p n <> 0 ->
  exists a, In (p, a) m /\ In (n, content m p n) a.
Proof.
  unfold content, mget, aget. destruct (dget m p) as [a|] eqn:Ga; [|cbn; congruence].
  destruct (dget a n) as [q|] eqn:Gq; [|congruence]. intros _. exists a. split; [now apply dget_In | now apply dget_In].
Qed.

Lemma split_covers req S : (forall p n, 0 <= content (massets S) p n) -> 0 <= coin S ->
  Forall (fun r => v_le r S = true) (split_by_asset req) -> v_le req S = true.
Proof.
  intros Nm Nc F. rewrite Forall_forall in F. apply v_le_spec. split.
  - destruct (coin req =? 0) eqn:E; [apply Z.eqb_eq in E; lia|].
    assert (I : In (mkValue (coin req) []) (split_by_asset req)) by (unfold split_by_asset; rewrite E; now left).
    apply F, v_le_spec in I as [I _]. exact I.
  - intros p n. destruct (Z.eq_dec (content (massets req) p n) 0) as [Z0|NZ]; [rewrite Z0; apply Nm|].
    destruct (content_entry _ p n NZ) as (a & Ia & Iq).
    set (q := content (massets req) p n) in *.
    assert (I : In (mkValue 0 [(p, [(n, q)])]) (split_by_asset req)).
    { unfold split_by_asset. apply in_or_app. right. apply in_flat_map. exists (p, a). split; [exact Ia|].
      apply in_flat_map. exists (n, q). split; [exact Iq|]. cbn. apply Z.eqb_neq in NZ. fold q in NZ. rewrite NZ. now left. }
    apply F, v_le_spec in I as [_ I]. specialize (I p n). cbn [massets] in I. now rewrite content_single in I.
Qed.

Lemma vsum_nonneg l : Forall uwf l -> Forall unonneg l -> 0 <= coin (vsum l) /\ forall p n, 0 <= content (massets (vsum l)) p n.
Proof.
  intros W N. destruct (vsum_spec l W) as (_ & C & M). destruct (nonneg_sums l N) as [Nc Nm].
  split; [lia | intros p n; rewrite M; apply Nm].
Qed.

Lemma ri_core_ok bi rs utxos req lim rs' rem sel amt :
  NoDup (map uid utxos) -> Forall uwf utxos -> Forall unonneg utxos ->
  ri_core bi rs utxos req lim = Ok (rs', rem, sel, amt) ->
  NoDup (map uid (sel ++ rem)) /\ incl (sel ++ rem) utxos /\ amt = vsum sel /\ v_le req amt = true
  /\ (forall n, lim = Some n -> 0 < n -> Z.of_nat (length sel) <= n)
  /\ (length rs' <= length rs)%nat
  /\ (length rs - length rs' <= length utxos * (length (split_by_asset req) + 1))%nat.
Proof.
  intros ND WF NN H. unfold ri_core in H.
  set (reqs := sort_desc (split_by_asset req)) in *.
  destruct (phase1 bi rs reqs utxos [] v_zero lim) as [[[[rs1 rem1] sel1] amt1]|e] eqn:P1; [|discriminate].
  apply phase1_ok in P1 as (add1 & E1 & Pm1 & -> & Fle & Hl & He & Len1); auto using wfv_zero.
  cbn [app] in E1. subst add1.
  assert (N1 : NoDup (map uid (sel1 ++ rem1))) by (eapply Permutation_NoDup; [apply Permutation_map; symmetry; exact Pm1 | exact ND]).
  apply phase2_ok in H as (add2 & -> & -> & N2 & I2 & L2 & R1 & R2); [|exact N1].
  assert (Iall : incl ((sel1 ++ add2) ++ rem) utxos).
  { intros x Hx. eapply Permutation_in; [exact Pm1|]. rewrite <- app_assoc in Hx. apply in_app_or in Hx as [Hx|Hx];
      apply in_or_app; [now left | right; apply I2, Hx]. }
  assert (Wsel : Forall uwf (sel1 ++ add2) /\ Forall unonneg (sel1 ++ add2))
    by (split; (eapply Forall_incl; [|eassumption]); intros x Hx; apply Iall, in_or_app; now left).
  destruct Wsel as [Wsel Nsel].
  split; [exact N2|]. split; [exact Iall|]. split; [unfold vsum; now rewrite vfold_app|].
  split; [|split; [|split]].
  - destruct (vsum_nonneg _ Wsel Nsel) as [Nc Nm]. rewrite <- vfold_app. fold (vsum (sel1 ++ add2)).
    apply split_covers; auto.
    assert (Fs : Forall (fun r => v_le r (vsum (sel1 ++ add2)) = true) reqs).
    { eapply Forall_impl; [|exact Fle]. intros r Hr. unfold vsum. rewrite vfold_app.
      apply Forall_app in Wsel as [W1 W2]. apply Forall_app in Nsel as [N1' N2'].
      apply v_le_vfold_mono; auto. exact (proj1 (vsum_spec sel1 W1)). }
    eapply Forall_perm; [apply sort_desc_perm | exact Fs].
  - intros n E Pn. specialize (L2 n E).
    assert (Z.of_nat (length sel1) <= n).
    { destruct reqs as [|r0 reqs0] eqn:Rq.
      - pose proof (He eq_refl) as X. subst sel1. cbn. lia.
      - subst lim. apply lim_exceeded_le; [exact Pn | apply Hl; congruence]. }
    lia.
  - lia.
  - assert (Lr : length reqs = length (split_by_asset req)) by (apply Permutation_length, sort_desc_perm).
    rewrite rev_length, Lr in R2.
    assert (Lu : (length sel1 + length rem1 = length utxos)%nat) by (rewrite <- app_length; apply Permutation_length, Pm1).
    nia.
Qed.

Lemma ri_core_err bi rs utxos req lim e :
  ri_core bi rs utxos req lim = Err e ->
  is_sel_err e = false \/ e = EDepleted \/ (bi = false /\ e = ESelection) \/ (e = EMaxInput /\ exists n, lim = Some n /\ n <> 0).
Proof.
  unfold ri_core. intros H.
  destruct (phase1 bi rs (sort_desc (split_by_asset req)) utxos [] v_zero lim) as [[[[rs1 rem1] sel1] amt1]|e1] eqn:P1.
  - left. eapply phase2_err, H.
  - inversion H; subst e1. apply phase1_err in P1 as [->|[->|[X|X]]]; auto. destruct bi; cbn; auto.
Qed.

Theorem ri_select_sound bi rs utxos outs lim fee minchg sel chg :
  NoDup (map uid utxos) -> Forall uwf utxos -> Forall unonneg utxos ->
  ri_select bi rs utxos outs lim fee minchg = Ok (sel, chg) ->
  sel_ok utxos (req_total fee outs) lim sel chg.
Proof.
  intros ND WF NN H. unfold ri_select in H.
  destruct (ri_core bi rs utxos (req_total fee outs) lim) as [[[[rs1 rem1] sel1] amt1]|e] eqn:C1; [|discriminate].
  apply ri_core_ok in C1 as (N1 & I1 & -> & Le1 & L1 & _); auto.
  assert (Ns : NoDup (map uid sel1) /\ NoDup (map uid rem1)) by (rewrite map_app in N1; apply NoDup_app_iff in N1; tauto).
  assert (Is : incl sel1 utxos) by (intros x Hx; apply I1, in_or_app; now left).
  assert (Ir : incl rem1 utxos) by (intros x Hx; apply I1, in_or_app; now right).
  assert (Base : sel_ok utxos (req_total fee outs) lim sel1 (v_sub (vsum sel1) (req_total fee outs)))
    by (repeat split; tauto || auto).
  destruct minchg as [mc|]; [|inversion H; subst; exact Base].
  destruct (v_has_neg _); [discriminate|].
  destruct (coin (v_sub (vsum sel1) (req_total fee outs)) <? mc (v_sub (vsum sel1) (req_total fee outs))) eqn:T;
    [|inversion H; subst; exact Base].
  destruct (lim_reached lim (length sel1)) eqn:LR; [discriminate|].
  destruct (ri_core bi rs1 rem1 _ (sub_limit lim (length sel1))) as [[[[rs2 rem2] add] amt2]|e] eqn:C2; [|discriminate].
  inversion H; subst sel chg; clear H.
  apply ri_core_ok in C2 as (N2 & I2 & _ & _ & L2 & _); try tauto; try (eapply Forall_incl; eassumption).
  assert (Ia : incl add rem1) by (intros x Hx; apply I2, in_or_app; now left).
  assert (WFa : Forall uwf add /\ Forall unonneg add)
    by (split; (eapply Forall_incl; [|eassumption]); intros x Hx; apply Ir, Ia, Hx).
  assert (WF1 : Forall uwf sel1) by (eapply Forall_incl; eassumption).
  unfold sel_ok. replace (vfold (vsum sel1) add) with (vsum (sel1 ++ add)) by (unfold vsum; apply vfold_app).
  split; [|split; [|split; [|split]]]; auto.
  - rewrite map_app. apply NoDup_app_iff. split; [tauto|]. split.
    + rewrite map_app in N2. apply NoDup_app_iff in N2. tauto.
    + intros x Hs Ha. rewrite map_app in N1. apply NoDup_app_iff in N1 as (_ & _ & D). apply (D x Hs).
      apply in_map_iff in Ha as (y & <- & Hy). apply in_map, Ia, Hy.
  - intros x Hx. apply in_app_or in Hx as [Hx|Hx]; [apply Is, Hx | apply Ir, Ia, Hx].
  - unfold vsum. rewrite vfold_app. apply v_le_vfold_mono; try tauto. exact (proj1 (vsum_spec sel1 WF1)).
  - intros n -> Pn. rewrite app_length, Nat2Z.inj_add.
    pose proof (lim_reached_lt _ _ Pn LR) as Lt. cbn in L2.
    destruct (n =? 0) eqn:Z0; [apply Z.eqb_eq in Z0; lia|].
    specialize (L2 _ eq_refl ltac:(lia)). lia.
Qed.

(* ================= totality / error kinds of random improve ================= *)
(* the shape of a _split_by_asset item of a non-negative request *)
Definition is_item (r : value) : Prop :=
  (exists c, 0 < c /\ r = mkValue c []) \/ (exists p n q, 0 < q /\ r = mkValue 0 [(p, [(n, q)])]).

Local Transparent v_add.
Lemma v_add_coin_items c k : v_add (mkValue c []) (mkValue k []) = mkValue (c + k) [].
Proof. reflexivity. Qed.
Lemma v_add_asset_items p n q k : 0 < q -> 0 < k ->
  v_add (mkValue 0 [(p, [(n, q)])]) (mkValue 0 [(p, [(n, k)])]) = mkValue 0 [(p, [(n, q + k)])].
Proof.
  intros Hq Hk. unfold v_add, m_add, m_norm, a_add, a_norm, mget, aget. cbn.
  rewrite !bytes_eqb_refl. cbn. rewrite !bytes_eqb_refl. cbn.
  destruct (q + k =? 0) eqn:E; [apply Z.eqb_eq in E; lia|]. cbn. rewrite E. reflexivity.
Qed.
Local Opaque v_add.

Lemma find_diff_coin c b : c <> 0 -> find_diff (mkValue c []) b = Ok (c - coin b).
Proof. intros H. unfold find_diff. cbn. apply Z.eqb_neq in H. now rewrite H. Qed.
Lemma find_diff_asset p n q b : content (massets b) p n <> 0 -> exists d, find_diff (mkValue 0 [(p, [(n, q)])]) b = Ok d.
Proof.
  intros H. unfold find_diff. cbn. unfold content, mget, aget in H.
  destruct (dget (massets b) p) as [ab|]; [|cbn in H; congruence].
  destruct (dget ab n) as [qb|]; [|congruence]. eauto.
Qed.

(* both targets of _improve can be compared with any amount that covers the item *)
Lemma item_diffable r S : is_item r -> v_le r S = true ->
  (exists d, find_diff (v_add r r) S = Ok d) /\ (exists d, find_diff (v_add (v_add r r) r) S = Ok d).
Proof.
  intros [(c & Pc & ->)|(p & n & q & Pq & ->)] H.
  - rewrite !v_add_coin_items. split; eexists; apply find_diff_coin; lia.
  - rewrite v_add_asset_items by lia. rewrite v_add_asset_items by lia.
    apply v_le_spec in H as [_ H]. specialize (H p n). cbn [massets] in H. rewrite content_single in H.
    split; apply find_diff_asset; lia.
Qed.

Lemma split_items req : wfv req -> v_nonneg req -> Forall is_item (split_by_asset req).
Proof.
  intros [Wd Fa] [Nc Nm]. apply Forall_forall. intros r Hr. unfold split_by_asset in Hr.
  apply in_app_or in Hr as [Hr|Hr].
  - destruct (coin req =? 0) eqn:E; [destruct Hr|]. destruct Hr as [<-|[]]. left. exists (coin req).
    apply Z.eqb_neq in E. split; [lia | reflexivity].
  - apply in_flat_map in Hr as ([p a] & Ia & Hr). apply in_flat_map in Hr as ([n q] & Iq & Hr). cbn in Hr.
    destruct (q =? 0) eqn:E; [destruct Hr|]. destruct Hr as [<-|[]]. right. exists p, n, q. split; [|reflexivity].
    apply Z.eqb_neq in E.
    assert (Ga : dget (massets req) p = Some a) by (apply In_dget; assumption).
    assert (Wa : wfd a) by (rewrite Forall_forall in Fa; apply (Fa _ Ia)).
    assert (Gq : dget a n = Some q) by (apply In_dget; assumption).
    specialize (Nm p n). unfold content, mget, aget in Nm. rewrite Ga, Gq in Nm. lia.
Qed.

Definition benign (bi : bool) (e : cs_err) : Prop := e = EDepleted \/ e = EMaxInput \/ (bi = false /\ e = ESelection).

Lemma draw_err bi r len e : draw bi r len = Err e -> bi = false /\ e = ESelection.
Proof.
  unfold draw. destruct bi; [discriminate|]. destruct ((0 <=? r) && (r <? Z.of_nat len)); [discriminate|].
  intros H; inversion H. auto.
Qed.

Lemma stream_end_cases bi (short : Prop) : short -> benign bi (stream_end bi) \/ (bi = true /\ stream_end bi = EStreamOut /\ short).
Proof. intros S. destruct bi; cbn; [right; auto | left; right; right; auto]. Qed.

Lemma rss_err_total bi : forall rs amount remaining sel amt e,
  rss bi rs amount remaining sel amt = Err e ->
  benign bi e \/ (bi = true /\ e = EStreamOut /\ (length rs < length remaining)%nat).
Proof.
  induction rs as [|r rs IH]; intros amount remaining sel amt e H; rewrite rss_unfold in H;
    destruct (v_le amount amt); try discriminate; destruct remaining as [|u0 rem0];
    try (inversion H; subst; left; left; reflexivity).
  - inversion H; subst. apply stream_end_cases. cbn. lia.
  - destruct (draw bi r (length (u0 :: rem0))) as [k|e'] eqn:D.
    + cbv zeta in H. assert (Lt : (k < length (u0 :: rem0))%nat) by (eapply draw_lt; [|exact D]; cbn; lia).
      apply IH in H as [H|(B & E & S)]; [now left | right]. rewrite pop_at_length in S by exact Lt. cbn [length] in *.
      repeat split; auto; lia.
    + inversion H; subst e'. apply draw_err in D. left. right. right. exact D.
Qed.

Lemma phase1_err_total bi : forall reqs rs remaining sel amt lim e,
  phase1 bi rs reqs remaining sel amt lim = Err e ->
  benign bi e \/ (bi = true /\ e = EStreamOut /\ (length rs < length remaining)%nat).
Proof.
  induction reqs as [|r reqs IH]; intros rs remaining sel amt lim e H; cbn [phase1] in H; [discriminate|].
  destruct (rss bi rs r remaining sel amt) as [[[[rs1 rem1] sel1] amt1]|e1] eqn:R.
  - destruct (lim_exceeded lim (length sel1)); [inversion H; subst; left; right; left; reflexivity|].
    apply rss_ok in R as (add1 & -> & P1 & -> & _ & Len1).
    apply IH in H as [H|(B & E & S)]; [now left | right].
    apply Permutation_length in P1. rewrite app_length in P1. repeat split; auto; lia.
  - inversion H; subst e1. eapply rss_err_total, R.
Qed.

Lemma accept_ok ideal ub amt amt2 :
  (exists d, find_diff ideal amt2 = Ok d) -> (exists d, find_diff ideal amt = Ok d) -> (exists d, find_diff ub amt2 = Ok d) ->
  exists b, accept ideal ub amt amt2 = Ok b.
Proof.
  intros (d2 & E2) (d1 & E1) (d3 & E3). unfold accept. rewrite E2, E1, E3.
  destruct (Z.abs d2 <? Z.abs d1); eauto.
Qed.

Lemma in_pop_at {A} (x : A) k l : In x (pop_at k l) -> In x l.
Proof.
  unfold pop_at. intros H. apply in_app_or in H as [H|H].
  - rewrite <- (firstn_skipn k l). apply in_or_app. now left.
  - rewrite <- (firstn_skipn (S k) l). apply in_or_app. now right.
Qed.

Lemma improve_oe bi r : is_item r -> forall rs sel amt remaining lim st oe,
  wfv amt -> Forall uwf remaining -> Forall unonneg remaining -> v_le r amt = true ->
  improve bi rs sel amt remaining (v_add r r) (v_add (v_add r r) r) lim = (st, oe) ->
  oe = None \/ exists e, oe = Some e /\ (benign bi e \/ (bi = true /\ e = EStreamOut /\ (length rs < length remaining)%nat)).
Proof.
  intros It. induction rs as [|x rs IH]; intros sel amt remaining lim st oe W WF NN Le H; rewrite improve_unfold in H;
    (destruct remaining as [|u0 rem0]; [inversion H; now left|]);
    destruct (item_diffable r amt It Le) as [(d & E) _]; rewrite E in H;
    (destruct (d <=? 0); [inversion H; now left|]);
    (destruct (lim_reached_strict lim (length sel)); [inversion H; subst; right; exists EMaxInput; split; [reflexivity | left; right; left; reflexivity]|]).
  - inversion H; subst. right. eexists. split; [reflexivity|]. apply stream_end_cases. cbn. lia.
  - destruct (draw bi x (length (u0 :: rem0))) as [k|e] eqn:D.
    2:{ inversion H; subst. apply draw_err in D. right. exists e. split; [reflexivity|]. left. right. right. exact D. }
    assert (Lt : (k < length (u0 :: rem0))%nat) by (eapply draw_lt; [|exact D]; cbn; lia). cbv zeta in H.
    set (u := nth k (u0 :: rem0) u0) in *.
    assert (Iu : In u (u0 :: rem0)) by (apply nth_In; exact Lt).
    assert (Wu : uwf u) by (rewrite Forall_forall in WF; apply WF, Iu).
    assert (Nu : unonneg u) by (rewrite Forall_forall in NN; apply NN, Iu).
    destruct (v_add_spec amt (uval u) W Wu) as (_ & _ & _ & W2).
    assert (Le2 : v_le r (v_add amt (uval u)) = true).
    { change (v_add amt (uval u)) with (vfold amt [u]). apply v_le_vfold_mono; auto. }
    destruct (item_diffable r _ It Le2) as [D2 D3]. destruct (item_diffable r amt It Le) as [D1 _].
    destruct (accept_ok _ _ _ _ D2 D1 D3) as (b & A). rewrite A in H.
    assert (WF' : Forall uwf (pop_at k (u0 :: rem0))) by (eapply Forall_incl; [|exact WF]; intros y; apply in_pop_at).
    assert (NN' : Forall unonneg (pop_at k (u0 :: rem0))) by (eapply Forall_incl; [|exact NN]; intros y; apply in_pop_at).
    assert (G : oe = None \/ exists e, oe = Some e /\ (benign bi e \/ (bi = true /\ e = EStreamOut
                  /\ (length rs < length (pop_at k (u0 :: rem0)))%nat)))
      by (destruct b; eapply IH; try exact H; auto).
    destruct G as [G|(e & Ee & [G|(B & Ev & S)])]; [now left | right; exists e; split; [exact Ee | now left] |].
    right. exists e. split; [exact Ee|]. right. rewrite pop_at_length in S by exact Lt. cbn [length] in *. repeat split; auto; lia.
Qed.

Lemma phase2_err_total bi : forall reqs rs remaining sel amt lim e,
  Forall is_item reqs -> wfv amt -> Forall uwf remaining -> Forall unonneg remaining ->
  Forall (fun r => v_le r amt = true) reqs ->
  phase2 bi rs reqs remaining sel amt lim = Err e ->
  bi = true /\ e = EStreamOut /\ (length rs < length reqs * length remaining)%nat.
Proof.
  induction reqs as [|r reqs IH]; intros rs remaining sel amt lim e It W WF NN Le H; cbn [phase2] in H; [discriminate|].
  inversion It as [|? ? Ir Its]; subst. inversion Le as [|? ? Lr Les]; subst.
  destruct (improve bi rs sel amt remaining (v_add r r) (v_add (v_add r r) r) lim) as [[[rs1 sel1] amt1] oe] eqn:I.
  pose proof (improve_oe bi r Ir _ _ _ _ _ _ _ W WF NN Lr I) as OE.
  apply improve_ok in I as (add1 & rest1 & -> & P1 & -> & _ & R1 & R2).
  rewrite skipn_app_exact in H.
  assert (Fa : Forall uwf add1 /\ Forall unonneg add1).
  { split; (eapply Forall_incl; [|eassumption]); intros y Hy; (eapply Permutation_in; [exact P1 | apply in_or_app; now left]). }
  destruct Fa as [Fa Na]. destruct (vfold_spec add1 amt W Fa) as (W1 & _).
  assert (Go : phase2 bi rs1 reqs (filter (not_in add1) remaining) (sel ++ add1) (vfold amt add1) lim = Err e ->
               bi = true /\ e = EStreamOut /\ (length rs < length (r :: reqs) * length remaining)%nat).
  { intros G. apply IH in G as (B & E & S); auto.
    - pose proof (filter_length_le' (not_in add1) remaining). cbn [length]. repeat split; auto. nia.
    - eapply Forall_incl; [|exact WF]. intros y Hy. apply filter_In in Hy. tauto.
    - eapply Forall_incl; [|exact NN]. intros y Hy. apply filter_In in Hy. tauto.
    - eapply Forall_impl; [|exact Les]. intros r' Hr'. apply v_le_vfold_mono; auto. }
  destruct OE as [->|(e1 & -> & [Bn|(B & E & S)])]; [exact (Go H) | |].
  - assert (S1 : is_sel_err e1 = true) by (destruct Bn as [->|[->|[_ ->]]]; reflexivity). rewrite S1 in H. exact (Go H).
  - subst e1. cbn in H. inversion H; subst. cbn [length]. repeat split; auto. nia.
Qed.

Lemma ri_core_err_total bi rs utxos req lim e :
  Forall uwf utxos -> Forall unonneg utxos -> wfv req -> v_nonneg req ->
  ri_core bi rs utxos req lim = Err e ->
  benign bi e \/ (bi = true /\ e = EStreamOut /\ (length rs < length utxos * (length (split_by_asset req) + 1))%nat).
Proof.
  intros WF NN Wr Nr H. unfold ri_core in H.
  set (reqs := sort_desc (split_by_asset req)) in *.
  assert (Lr : length reqs = length (split_by_asset req)) by (apply Permutation_length, sort_desc_perm).
  destruct (phase1 bi rs reqs utxos [] v_zero lim) as [[[[rs1 rem1] sel1] amt1]|e1] eqn:P1.
  - apply phase1_ok in P1 as (add1 & E1 & Pm1 & -> & Fle & _ & _ & Len1); auto using wfv_zero.
    cbn [app] in E1. subst add1.
    assert (Fall : Forall uwf (sel1 ++ rem1) /\ Forall unonneg (sel1 ++ rem1))
      by (split; eapply Forall_perm; try (symmetry; exact Pm1); assumption).
    destruct Fall as [Fall Nall]. apply Forall_app in Fall as [F1 Fr]. apply Forall_app in Nall as [N1 Nr'].
    apply phase2_err_total in H as (B & E & S); auto.
    + right. rewrite rev_length, Lr in S. apply Permutation_length in Pm1. rewrite app_length in Pm1. repeat split; auto. nia.
    + eapply Forall_perm; [apply Permutation_rev|]. eapply Forall_perm; [symmetry; apply sort_desc_perm|]. now apply split_items.
    + exact (proj1 (vsum_spec sel1 F1)).
    + eapply Forall_perm; [apply Permutation_rev | exact Fle].
  - inversion H; subst e1. apply phase1_err_total in P1 as [P1|(B & E & S)]; [now left | right]. repeat split; auto. nia.
Qed.

Lemma split_coin_len x : (length (split_by_asset (mkValue x [])) <= 1)%nat.
Proof. unfold split_by_asset. cbn. destruct (x =? 0); cbn; lia. Qed.

Theorem ri_select_errors bi rs utxos outs lim fee minchg e :
  NoDup (map uid utxos) -> Forall uwf utxos -> Forall unonneg utxos -> Forall wfv outs -> Forall v_nonneg outs -> 0 <= fee ->
  ri_select bi rs utxos outs lim fee minchg = Err e ->
  benign bi e \/ (bi = true /\ e = EStreamOut /\ (length rs < ri_draw_bound utxos (req_total fee outs))%nat).
Proof.
  intros ND WF NN WO NO Pf H. unfold ri_select in H. unfold ri_draw_bound.
  destruct (req_total_spec fee outs WO) as (Wr & Cr & Mr).
  assert (Nr : v_nonneg (req_total fee outs)).
  { assert (Q : 0 <= coin_sum outs /\ forall p n, 0 <= content_sum outs p n).
    { clear - NO. induction NO as [|o outs [Hc Hm] _ [IHc IHm]]; [split; [reflexivity | intros; reflexivity]|].
      split; [rewrite coin_sum_cons; lia | intros p n; rewrite content_sum_cons; specialize (Hm p n); specialize (IHm p n); lia]. }
    split; [rewrite Cr; lia | intros p n; rewrite Mr; apply Q]. }
  destruct (ri_core bi rs utxos (req_total fee outs) lim) as [[[[rs1 rem1] sel1] amt1]|e1] eqn:C1.
  - apply ri_core_ok in C1 as (N1 & I1 & -> & Le1 & _ & R1 & R2); auto.
    destruct minchg as [mc|]; [|discriminate].
    assert (Is : incl sel1 utxos) by (intros x Hx; apply I1, in_or_app; now left).
    assert (Ir : incl rem1 utxos) by (intros x Hx; apply I1, in_or_app; now right).
    assert (W1 : Forall uwf sel1) by (eapply Forall_incl; eassumption).
    destruct (vsum_spec sel1 W1) as (Ws & Cs & Ms).
    destruct (v_sub_spec _ _ Ws Wr) as (Cd & Md & _ & Wd).
    pose proof Le1 as Le1'. apply v_le_spec in Le1' as [Lc Lm].
    destruct (v_has_neg (v_sub (vsum sel1) (req_total fee outs))) eqn:Neg.
    { exfalso. destruct (nonneg_no_neg_count _ Wd) as [_ X]; [intros p n; rewrite Md; specialize (Lm p n); lia|].
      rewrite X in Neg; [discriminate | lia]. }
    destruct (coin (v_sub (vsum sel1) (req_total fee outs)) <? mc (v_sub (vsum sel1) (req_total fee outs))) eqn:T; [|discriminate].
    apply Z.ltb_lt in T.
    destruct (lim_reached lim (length sel1)); [inversion H; subst; left; right; left; reflexivity|].
    destruct (ri_core bi rs1 rem1 _ (sub_limit lim (length sel1))) as [[[[rs2 rem2] add] amt2]|e2] eqn:C2; [discriminate|].
    inversion H; subst e2. rewrite req_total_coin_only in C2.
    apply ri_core_err_total in C2 as [C2|(B & E & S)]; [now left | right | | | |].
    + repeat split; auto.
      assert (Lu : (length sel1 + length rem1 <= length utxos)%nat).
      { rewrite <- app_length. apply NoDup_incl_length; [|exact I1].
        clear - N1. induction (sel1 ++ rem1) as [|x l IH]; [constructor|]. cbn in N1. inversion N1; subst.
        constructor; [|now apply IH]. intros X. apply H1. now apply in_map. }
      pose proof (split_coin_len (mc (v_sub (vsum sel1) (req_total fee outs)) - coin (v_sub (vsum sel1) (req_total fee outs)))). nia.
    + eapply Forall_incl; eassumption.
    + eapply Forall_incl; eassumption.
    + apply wfv_coin.
    + split; [cbn; lia | intros p n; cbn; lia].
  - inversion H; subst e1. apply ri_core_err_total in C1 as [C1|(B & E & S)]; auto. right. repeat split; auto. nia.
Qed.

(* ================= pools as plain lists: UTxO i = (i, pool[i]) ================= *)
Lemma index_in_gen (l : list value) : forall s i v, In (i, v) (combine (seq s (length l)) l) ->
  (s <= i < s + length l)%nat /\ nth (i - s) l v_zero = v.
Proof.
  induction l as [|x l IH]; intros s i v H; cbn in H; [destruct H|]. destruct H as [H|H].
  - inversion H; subst. split; [cbn; lia | now rewrite Nat.sub_diag].
  - apply IH in H as [H1 H2]. split; [cbn; lia|]. replace (i - s)%nat with (S (i - S s)) by lia. exact H2.
Qed.
Lemma index_pool_in pool i v : In (i, v) (index_pool pool) -> (i < length pool)%nat /\ nth i pool v_zero = v.
Proof. intros H. apply index_in_gen in H as [H1 H2]. rewrite Nat.sub_0_r in H2. split; [lia | exact H2]. Qed.

Lemma index_fst_gen (l : list value) : forall s, map fst (combine (seq s (length l)) l) = seq s (length l).
Proof. induction l as [|x l IH]; intros s; cbn; [reflexivity|]. now rewrite IH. Qed.
Lemma index_snd_gen (l : list value) : forall s, map snd (combine (seq s (length l)) l) = l.
Proof. induction l as [|x l IH]; intros s; cbn; [reflexivity|]. now rewrite IH. Qed.
Lemma index_pool_nodup pool : NoDup (map uid (index_pool pool)).
Proof. unfold index_pool, uid. rewrite index_fst_gen. apply seq_NoDup. Qed.
Lemma index_pool_vals pool : map uval (index_pool pool) = pool.
Proof. apply index_snd_gen. Qed.
Lemma index_pool_forall (P : value -> Prop) pool : Forall P pool -> Forall (fun u => P (uval u)) (index_pool pool).
Proof.
  intros F. apply Forall_forall. intros [i v] H. apply in_combine_r in H. rewrite Forall_forall in F. apply F, H.
Qed.

(* the statement of the property on selected positions *)
Definition ok_idx (pool outs : list value) (lim : option Z) (fee : Z) (sel : list nat) (chg : value) : Prop :=
  NoDup sel /\ (forall i, In i sel -> (i < length pool)%nat)
  /\ covers fee outs (sel_values pool sel)
  /\ change_is fee outs (sel_values pool sel) chg
  /\ (forall n, lim = Some n -> 0 < n -> Z.of_nat (length sel) <= n).

Lemma sel_ok_idx pool outs lim fee sel chg : Forall wfv pool -> Forall wfv outs ->
  sel_ok (index_pool pool) (req_total fee outs) lim sel chg -> ok_idx pool outs lim fee (map uid sel) chg.
Proof.
  intros WP WO (N & I & Le & -> & L).
  assert (V : sel_values pool (map uid sel) = map uval sel).
  { unfold sel_values. rewrite map_map. apply map_ext_in. intros [i v] H. apply I, index_pool_in in H. tauto. }
  assert (WS : Forall uwf sel) by (eapply Forall_incl; [exact I | apply (index_pool_forall wfv), WP]).
  destruct (vsum_spec sel WS) as (Ws & Cs & Ms). destruct (req_total_spec fee outs WO) as (Wr & Cr & Mr).
  destruct (v_sub_spec _ _ Ws Wr) as (Cd & Md & _). apply v_le_spec in Le as [Lc Lm].
  unfold ok_idx. rewrite V. split; [exact N|]. split; [|split; [|split]].
  - intros i Hi. apply in_map_iff in Hi as ([j v] & <- & H). apply I, index_pool_in in H. tauto.
  - split; [lia | intros p n; specialize (Lm p n); rewrite Mr, Ms in Lm; exact Lm].
  - split; [rewrite Cd, Cs, Cr; reflexivity | intros p n; rewrite Md, Ms, Mr; reflexivity].
  - intros n E P. rewrite map_length. now apply L.
Qed.

Theorem lf_idx_sound pool outs lim fee minchg sel chg :
  Forall wfv pool -> Forall v_nonneg pool -> Forall wfv outs ->
  lf_select_idx pool outs lim fee minchg = Ok (sel, chg) -> ok_idx pool outs lim fee sel chg.
Proof.
  intros WP NP WO H. unfold lf_select_idx, ids in H.
  destruct (lf_select (index_pool pool) outs lim fee minchg) as [[s c]|e] eqn:E; [|discriminate]. inversion H; subst.
  apply sel_ok_idx; auto. eapply lf_select_sound; eauto using index_pool_nodup.
  - apply (index_pool_forall wfv), WP.
  - apply (index_pool_forall v_nonneg), NP.
Qed.

Theorem ri_idx_sound bi rs pool outs lim fee minchg sel chg :
  Forall wfv pool -> Forall v_nonneg pool -> Forall wfv outs ->
  ri_select_idx bi rs pool outs lim fee minchg = Ok (sel, chg) -> ok_idx pool outs lim fee sel chg.
Proof.
  intros WP NP WO H. unfold ri_select_idx, ids in H.
  destruct (ri_select bi rs (index_pool pool) outs lim fee minchg) as [[s c]|e] eqn:E; [|discriminate]. inversion H; subst.
  apply sel_ok_idx; auto. eapply ri_select_sound; eauto using index_pool_nodup.
  - apply (index_pool_forall wfv), WP.
  - apply (index_pool_forall v_nonneg), NP.
Qed.

Lemma ids_err {B} (r : res (list utxo * B)) e : ids r = Err e -> r = Err e.
Proof. destruct r as [[s b]|e']; cbn; [discriminate | congruence]. Qed.

Theorem lf_idx_complete pool outs lim fee minchg :
  Forall wfv pool -> Forall v_nonneg pool -> Forall wfv outs ->
  lf_select_idx pool outs lim fee minchg = Err EInsufficient ->
  ~ covers fee outs pool
  \/ exists mc chg, minchg = Some mc /\ coin_sum pool < fee + coin_sum outs + mc chg.
Proof.
  intros WP NP WO H. apply ids_err in H. apply lf_select_complete in H; auto.
  - rewrite index_pool_vals in H. destruct H as [H|(mc & sel1 & E & _ & Lt)]; [now left | right; eauto].
  - apply (index_pool_forall wfv), WP.
  - apply (index_pool_forall v_nonneg), NP.
Qed.

Theorem lf_idx_errors pool outs lim fee minchg e :
  Forall wfv pool -> Forall wfv outs ->
  lf_select_idx pool outs lim fee minchg = Err e ->
  e = EInsufficient \/ (e = EMaxInput /\ exists n, lim = Some n /\ n <> 0).
Proof.
  intros WP WO H. apply ids_err in H. eapply lf_select_errors; [| |exact H]; [apply (index_pool_forall wfv), WP | exact WO].
Qed.

(* random improve, built-in random source: with at least ri_draw_bound outcomes available the run ends with a result
   or with MaxInputCountExceeded / InputUTxODepleted — whatever the outcomes are *)
Theorem ri_idx_total rs pool outs lim fee minchg :
  Forall wfv pool -> Forall v_nonneg pool -> Forall wfv outs -> Forall v_nonneg outs -> 0 <= fee ->
  (ri_draw_bound (index_pool pool) (req_total fee outs) <= length rs)%nat ->
  (exists sel chg, ri_select_idx true rs pool outs lim fee minchg = Ok (sel, chg))
  \/ ri_select_idx true rs pool outs lim fee minchg = Err EMaxInput
  \/ ri_select_idx true rs pool outs lim fee minchg = Err EDepleted.
Proof.
  intros WP NP WO NO Pf Len. unfold ri_select_idx.
  destruct (ri_select true rs (index_pool pool) outs lim fee minchg) as [[s c]|e] eqn:E; [left; cbn; eauto | right].
  apply ri_select_errors in E; auto using index_pool_nodup.
  - cbn. destruct E as [[->|[->|[X _]]]|(_ & _ & S)]; auto; [discriminate | lia].
  - apply (index_pool_forall wfv), WP.
  - apply (index_pool_forall v_nonneg), NP.
Qed.

(* random improve, injected generator: for EVERY stream (any integers, any length) the run ends with a result or with
   a UTxOSelectionException kind *)
Theorem ri_idx_errors_injected rs pool outs lim fee minchg e :
  Forall wfv pool -> Forall v_nonneg pool -> Forall wfv outs -> Forall v_nonneg outs -> 0 <= fee ->
  ri_select_idx false rs pool outs lim fee minchg = Err e ->
  e = EMaxInput \/ e = EDepleted \/ e = ESelection.
Proof.
  intros WP NP WO NO Pf H. apply ids_err in H. apply ri_select_errors in H; auto using index_pool_nodup.
  - destruct H as [[->|[->|[_ ->]]]|(X & _)]; auto. discriminate.
  - apply (index_pool_forall wfv), WP.
  - apply (index_pool_forall v_nonneg), NP.
Qed.

Lemma index_pool_length pool : length (index_pool pool) = length pool.
Proof. unfold index_pool. etransitivity; [apply combine_length|]. rewrite seq_length. lia. Qed.

(* ================= the oracle of CoinSelOracle.v decides the statement ================= *)
From PyC Require Import ValueOracle CoinSelOracle.

Lemma nodupb_NoDup l : nodupb l = true -> NoDup l.
Proof.
  induction l as [|x l IH]; cbn; intros H; [constructor|]. apply andb_true_iff in H as [H1 H2].
  constructor; [|now apply IH]. intros I. apply negb_true_iff in H1.
  assert (X : existsb (Nat.eqb x) l = true) by (apply existsb_exists; exists x; split; [exact I | apply Nat.eqb_refl]). congruence.
Qed.

Theorem c14_ok_sound pool outs lim fee sel chg : Forall wfv pool -> Forall wfv outs ->
  c14_ok pool outs lim fee sel chg = true ->
  NoDup sel /\ (forall i, In i sel -> (i < length pool)%nat)
  /\ covers fee outs (sel_values pool sel) /\ change_is fee outs (sel_values pool sel) chg
  /\ (forall n, lim = Some n -> Z.of_nat (length sel) <= n).
Proof.
  intros WP WO H. unfold c14_ok in H. repeat (apply andb_true_iff in H as [H ?]).
  rename H into Hn, H0 into Hl, H1 into He, H2 into Hc, H3 into Hi.
  assert (WV : Forall wfv (sel_values pool sel)).
  { unfold sel_values. apply Forall_forall. intros v Hv. apply in_map_iff in Hv as (i & <- & _).
    destruct (Nat.lt_ge_cases i (length pool)) as [L|G]; [rewrite Forall_forall in WP; apply WP, nth_In, L|].
    rewrite nth_overflow by exact G. apply wfv_zero. }
  destruct (req_fold_spec _ v_zero wfv_zero WV) as (Ws & Cs & Ms). fold (sumv (sel_values pool sel)) in *.
  destruct (req_total_spec fee outs WO) as (Wr & Cr & Mr).
  destruct (v_sub_spec _ _ Ws Wr) as (Cd & Md & _).
  apply v_le_spec in Hc as [Lc Lm]. apply v_eq_spec in He as [Ec Em].
  split; [now apply nodupb_NoDup|]. split; [|split; [|split]].
  - intros i Hi'. rewrite forallb_forall in Hi. apply Hi, Nat.ltb_lt in Hi'. exact Hi'.
  - split; [cbn in Cs; lia | intros p n; specialize (Lm p n); rewrite Mr, Ms in Lm; cbn in Lm; lia].
  - split; [rewrite Ec, Cd, Cs, Cr; cbn; lia | intros p n; rewrite Em, Md, Ms, Mr; cbn; lia].
  - intros n ->. cbn in Hl. apply Z.leb_le in Hl. exact Hl.
Qed.

Theorem lf_insufficient_ok_sound c : Forall wfv (i_pool c) -> Forall wfv (i_outs c) ->
  lf_insufficient_ok c = true ->
  ~ covers (i_fee c) (i_outs c) (i_pool c)
  \/ exists m, i_mc c = Some m /\ coin_sum (i_pool c) < i_fee c + coin_sum (i_outs c) + m.
Proof.
  intros WP WO H. unfold lf_insufficient_ok in H.
  destruct (req_fold_spec _ v_zero wfv_zero WP) as (Ws & Cs & Ms). fold (sumv (i_pool c)) in *.
  destruct (req_total_spec (i_fee c) (i_outs c) WO) as (Wr & Cr & Mr).
  apply orb_true_iff in H as [H|H].
  - left. intros [Cc Cm]. apply negb_true_iff in H.
    assert (X : v_le (req_total (i_fee c) (i_outs c)) (sumv (i_pool c)) = true).
    { apply v_le_spec. split; [rewrite Cr, Cs; cbn; lia | intros p n; rewrite Mr, Ms; cbn; specialize (Cm p n); lia]. }
    congruence.
  - right. apply andb_true_iff in H as [_ H]. destruct (i_mc c) as [m|]; [|discriminate]. exists m. split; [reflexivity|].
    apply Z.ltb_lt in H. rewrite Cs, Cr in H. cbn in H. lia.
Qed.

(* ================= non-vacuity and the former defect witnesses (now inside the theorems) ================= *)
Local Transparent v_add v_sub v_le.
Definition ada (k : Z) : value := mkValue (k * 1000000) [].
Definition tokA : bytes * bytes := (hx "01010101010101010101010101010101010101010101010101010101", hx "61").
Definition with_tok (k q : Z) : value := mkValue (k * 1000000) [(fst tokA, [(snd tokA, q)])].

Lemma content_single_any p n q p' n' :
  content [(p, [(n, q)])] p' n' = if bytes_eqb p p' then if bytes_eqb n n' then q else 0 else 0.
Proof. unfold content, mget, aget. cbn. destruct (bytes_eqb p p'); cbn; [destruct (bytes_eqb n n')|]; reflexivity. Qed.
Lemma wfv_ada k : wfv (ada k).
Proof. split; constructor. Qed.
Lemma wfv_tok k q : wfv (with_tok k q).
Proof. split; repeat constructor; cbn; intuition. Qed.
Lemma v_nonneg_ada k : 0 <= k -> v_nonneg (ada k).
Proof. intros H. split; [cbn; lia | intros p n; cbn; lia]. Qed.
Lemma v_nonneg_tok k q : 0 <= k -> 0 <= q -> v_nonneg (with_tok k q).
Proof.
  intros Hk Hq. split; [cbn; lia|]. intros p n. unfold with_tok. cbn [massets]. rewrite content_single_any.
  destruct (bytes_eqb (fst tokA) p); [destruct (bytes_eqb (snd tokA) n)|]; lia.
Qed.

(* hypotheses of lf_idx_sound / ri_idx_sound are satisfiable with a non-trivial run (token request, min-change top-up) *)
Example lf_example :
  let pool := [ada 5; with_tok 2 3; ada 1; ada 1] in
  let outs := [with_tok 1 2; ada 3] in
  Forall wfv pool /\ Forall v_nonneg pool /\ Forall wfv outs /\
  lf_select_idx pool outs (Some 3) 300000 (Some (fun _ => 3000000))
  = Ok ([0; 1; 3]%nat, mkValue 3700000 [(fst tokA, [(snd tokA, 1)])]).
Proof.
  cbv zeta. split; [|split; [|split]]; [| | |vm_compute; reflexivity].
  - repeat (constructor; [first [apply wfv_ada | apply wfv_tok]|]). constructor.
  - repeat (constructor; [first [apply v_nonneg_ada | apply v_nonneg_tok]; lia|]). constructor.
  - repeat (constructor; [first [apply wfv_ada | apply wfv_tok]|]). constructor.
Qed.

Example ri_example :
  let pool := [ada 5; with_tok 2 3; ada 1; ada 1] in
  ri_select_idx false [2; 0; 0; 1; 0; 0; 0] pool [with_tok 1 2; ada 3] (Some 3) 300000 (Some (fun _ => 3000000))
  = Ok ([2; 0; 1]%nat, mkValue 3700000 [(fst tokA, [(snd tokA, 1)])])
  /\ ri_select_idx true [7; -3; 12; 5; 1; 0; 0; 0; 0; 0; 0; 0; 0; 0; 0; 0; 0; 0; 0; 0] pool [with_tok 1 2; ada 3] (Some 3) 300000
       (Some (fun _ => 3000000))
     = Ok ([3; 0; 1]%nat, mkValue 3700000 [(fst tokA, [(snd tokA, 1)])])
  /\ (ri_draw_bound (index_pool pool) (req_total 300000 [with_tok 1 2; ada 3]) <= 20)%nat.
Proof. cbv zeta. split; [vm_compute; reflexivity | split; [vm_compute; reflexivity | vm_compute; lia]]. Qed.

(* largest-first insufficient: both disjuncts of lf_idx_complete occur *)
Example lf_insufficient_examples :
  lf_select_idx [ada 5; ada 1] [ada 6] None 1 None = Err EInsufficient
  /\ lf_select_idx [ada 5; ada 1] [mkValue 5500000 []] None 0 (Some (fun _ => 978370)) = Err EInsufficient.
Proof. vm_compute. split; reflexivity. Qed.

(* former defect witnesses (pinned tree): now the limit holds, out-of-range indices are selection errors *)
Example former_limit_plus_one_witness :
  ri_select_idx false [0; 0; 0; 0] [ada 5; ada 5; ada 5; ada 1; mkValue 1200000 []] [ada 9] (Some 2) 0 None
  = Ok ([0; 1]%nat, ada 1).
Proof. vm_compute. reflexivity. Qed.
Example former_topup_limit_witness :
  lf_select_idx [ada 5; ada 1; ada 1] [mkValue 4500000 []] (Some 1) 0 (Some (fun _ => 978370)) = Err EMaxInput
  /\ ri_select_idx false [0; 0; 0; 0; 0; 0; 0] [ada 5; ada 1; ada 1] [mkValue 4500000 []] (Some 1) 0 (Some (fun _ => 978370)) = Err EMaxInput.
Proof. vm_compute. split; reflexivity. Qed.
Example former_index_witnesses :
  ri_select_idx false [5] [ada 5; ada 5; ada 5; ada 1; mkValue 1200000 []] [ada 9] (Some 2) 0 None = Err ESelection
  /\ ri_select_idx false [0; -1; -1; -1] [ada 3; ada 1; ada 1] [ada 3] None 0 None = Ok ([0]%nat, ada 0).
Proof. vm_compute. split; reflexivity. Qed.
