(* CodecSites.v — decidable analyses of a class table (run on the regenerated SchemaGen.schema):
   value equality as Python's == sees it, and the list of "unsound sites": places where the table does
   not satisfy the premises under which CodecProofs.roundtrip applies to every constructible object. *)
From Coq Require Import NArith ZArith Ascii String List Bool.
From PyC Require Import Base Cbor Value Codec.
Import ListNotations.
Open Scope string_scope.
Open Scope list_scope.

Infix "+++" := String.append (at level 60, right associativity).

(* ---------- equality of value trees (OrderedSet(use_tag=False) == list, as in Python) ---------- *)
Section ListEq.
  Context {A : Type} (e : A -> A -> bool).
  Fixpoint list_eqb (a b : list A) : bool :=
    match a, b with
    | [], [] => true
    | x :: a', y :: b' => e x y && list_eqb a' b'
    | _, _ => false
    end.
End ListEq.

Fixpoint pv_eqb (a b : pv) {struct a} : bool :=
  let leq := (fix leq (x y : list pv) {struct x} : bool :=
                match x, y with
                | [], [] => true
                | h :: x', g :: y' => pv_eqb h g && leq x' y'
                | _, _ => false
                end) in
  let peq := (fix peq (x y : list (pv * pv)) {struct x} : bool :=
                match x, y with
                | [], [] => true
                | h :: x', g :: y' => pv_eqb (fst h) (fst g) && pv_eqb (snd h) (snd g) && peq x' y'
                | _, _ => false
                end) in
  match a, b with
  | VInt x, VInt y => Z.eqb x y
  | VBytes x, VBytes y => bytes_eqb x y
  | VStr x, VStr y => bytes_eqb x y
  | VBool x, VBool y => Bool.eqb x y
  | VNone, VNone => true
  | VFrac x1 x2, VFrac y1 y2 => Z.eqb x1 y1 && Z.eqb x2 y2
  | VList x, VList y => leq x y
  | VSet tx x, VSet ty y => leq x y                      (* OrderedSet.__eq__ compares the elements only *)
  | VSet _ x, VList y => leq x y
  | VList x, VSet _ y => leq x y
  | VMapT x, VMapT y => peq x y
  | VObj c x, VObj d y => String.eqb c d && leq x y
  | VDict c x, VDict d y =>                              (* dict equality: insertion order is irrelevant *)
      let meq := (fix meq (x0 : list (pv * pv)) {struct x0} : bool :=
                    match x0 with
                    | [] => true
                    | h :: x' => existsb (fun g => pv_eqb (fst h) (fst g) && pv_eqb (snd h) (snd g)) y && meq x'
                    end) in
      String.eqb c d && Nat.eqb (length x) (length y) && meq x
  | VCB c x, VCB d y => bytes_eqb x y                    (* ConstrainedBytes.__eq__: payload only *)
  | VEnum c x, VEnum d y => String.eqb c d && Z.eqb x y
  | VOpq c x, VOpq d y => cbor_eqb x y                  (* opaque leaves: by primitive (a dispatcher may return a subclass) *)
  | VAny x, VAny y => cbor_eqb x y
  (* Value.__eq__ accepts an int: a field typed Union[int, Value] restores the bare-integer form to an int that compares
     equal to the original Value (and __post_init__ of the owning class turns it back into a Value) *)
  | VInt x, VOpq c p | VOpq c p, VInt x =>
      String.eqb c "Value" && match as_int_opt p with Some y => Z.eqb x y | None => false end
  | _, _ => false
  end.

(* ---------- head classes of the primitives a type can produce / a restorer rejects ---------- *)
Inductive head := HInt | HBytes | HText | HBool | HNull | HList (code : option Z) | HMap | HTag (t : N) | HAnyTag | HAnything.

Definition head_eqb (a b : head) : bool :=
  match a, b with
  | HInt, HInt | HBytes, HBytes | HText, HText | HBool, HBool | HNull, HNull | HMap, HMap => true
  | HList x, HList y => match x, y with Some p, Some q => Z.eqb p q | _, _ => true end   (* unknown code may coincide *)
  | HTag x, HTag y => N.eqb x y
  | HAnyTag, HTag _ | HTag _, HAnyTag | HAnyTag, HAnyTag => true
  | HAnything, _ | _, HAnything => true
  | _, _ => false
  end.

Definition opaque_heads (shape : string) (code : option Z) : list head :=
  if String.eqb shape "bytes" then [HBytes; HText]
  else if String.eqb shape "array" then [HList code]
  else if String.eqb shape "list" then [HList code]
  else if String.eqb shape "map" then [HMap]
  else if String.eqb shape "tag259" then [HTag 259]
  else if String.eqb shape "tag" then [HAnyTag]
  else if String.eqb shape "value" then [HList None; HInt]
  else if String.eqb shape "output" then [HList None; HMap]
  else if String.eqb shape "auxdata" then [HTag 259; HList None; HMap]
  else [HAnything].

(* heads of the primitives of the values of a type (what to_prim can emit) *)
Fixpoint heads (S : schema) (t : ty) : list head :=
  match t with
  | TAny => [HAnything]
  | TInt => [HInt] | TBytes => [HBytes] | TStr => [HText] | TBool => [HBool] | TNone => [HNull]
  | TFrac => [HTag 30]
  | TCls c =>
      match lookup S c with
      | Some (KArray _) => [HList None]
      | Some (KCoded code _) => [HList (Some code)]
      | Some (KMap _) | Some (KDict _ _) => [HMap]
      | Some (KBytes _ _) => [HBytes]
      | Some (KEnum _) => [HInt]
      | Some (KOpaque shape code) => opaque_heads shape code
      | None => [HAnything]
      end
  | TList _ => [HList None]
  | TDictT _ _ => [HMap]
  | TSet _ _ => [HList None; HTag 258]
  | TUnion ts => flat_map (heads S) ts
  | TTuple _ => [HList None]
  | TUnknown _ => []
  end.

(* heads on which the restorer of a type does NOT raise DeserializeException (accepts, or raises another
   error that escapes the union): an earlier alternative with such a head in common with a later
   alternative's output shadows it *)
Fixpoint catches (S : schema) (t : ty) : list head :=
  match t with
  | TSet _ _ => [HAnything]                 (* OrderedSet.from_primitive raises ValueError, never Deserialize *)
  | TCls c =>
      match lookup S c with
      | Some (KEnum _) => [HInt]
      | Some (KBytes _ _) => [HBytes; HText]
      | Some (KDict _ _) => [HMap]
      | _ => heads S t
      end
  | TUnion ts => flat_map (catches S) ts
  | _ => heads S t
  end.

Fixpoint union_sites (S : schema) (where_ : string) (ts : list ty) : list string :=
  match ts with
  | [] => []
  | t :: r =>
      (if existsb (fun w => existsb (fun hw => existsb (fun hc => head_eqb hc hw) (catches S t)) (heads S w)) r
       then [where_ +++ ": union alternative shadows a later one"] else [])
      ++ union_sites S where_ r
  end.

Fixpoint ty_sites (S : schema) (where_ : string) (t : ty) {struct t} : list string :=
  match t with
  | TUnknown r => [where_ +++ ": unrestorable annotation " +++ r]
  | TList u | TSet _ u => ty_sites S where_ u
  | TDictT a b => ty_sites S where_ a ++ ty_sites S where_ b
  | TUnion ts => union_sites S where_ ts ++ flat_map (ty_sites S where_) ts
  | TTuple ts => flat_map (ty_sites S where_) ts
  | _ => []
  end.

Fixpoint trailing_optionals_ok (fs : list field) (seen_opt : bool) : bool :=
  match fs with
  | [] => true
  | f :: r => if fopt f then trailing_optionals_ok r true
              else if seen_opt then false else trailing_optionals_ok r false
  end.

Definition keys_distinctb (fs : list field) : bool :=
  dedup_ok (map (fun f => match fkey f with Some k => k | None => CS 23 end) fs)
  && forallb (fun f => match fkey f with Some _ => true | None => false end) fs.

Definition class_sites (S : schema) (c : string) (d : class_def) : list string :=
  let fsites fs := flat_map (fun f => ty_sites S (c +++ "." +++ fname f) (fty f)) fs in
  match d with
  | KArray fs =>
      fsites fs ++ (if trailing_optionals_ok fs false then [] else [c +++ ": optional array field before a required one"])
      ++ (if existsb (fun f => match fconst f with Some _ => true | None => false end) fs
          then [c +++ ": array class with an init=False field and the generic restorer"] else [])
      ++ (if existsb (fun f => fopt f && match fdef f with Some 0%Z => false | _ => true end) fs
          then [c +++ ": optional field without None default"] else [])
  | KCoded _ fs =>
      fsites fs ++ (if trailing_optionals_ok fs false then [] else [c +++ ": optional array field before a required one"])
  | KMap fs =>
      fsites fs ++ (if keys_distinctb fs then [] else [c +++ ": duplicate or missing map keys"])
      ++ (if existsb (fun f => fopt f && match fdef f with Some 0%Z => false | _ => true end) fs
          then [c +++ ": optional field without None default"] else [])
  | KDict kt vt => ty_sites S (c +++ ".KEY") kt ++ ty_sites S (c +++ ".VALUE") vt
  | _ => []
  end.

Definition unsound_sites (S : schema) : list string := flat_map (fun cd => class_sites S (fst cd) (snd cd)) S.

Definition opaque_classes (S : schema) : list string :=
  flat_map (fun cd => match snd cd with KOpaque _ _ => [fst cd] | _ => [] end) S.

Fixpoint lookup_union (name : string) (tabs : list (string * list string)) : option (list string) :=
  match tabs with [] => None | (k, v) :: r => if String.eqb k name then Some v else lookup_union name r end.
