(* Bip32Toy.v — NON-VACUITY of the C16 theorems: a concrete instance of [prims] that satisfies every
   premise used in props/C16.v — the group (Z/ell, +) with base point 1 (isomorphic to the prime-order
   subgroup of Ed25519) and simple multiplicative "hashes" — plus concrete runs of the model on it
   (root, CIP-1852 path, public/private agreement, signature) and the documented witness that beyond
   kL' >= 2^255 the code's public key is NOT the specification's kL'·B. *)
From Coq Require Import NArith ZArith Ascii String List Bool Lia Eqdep_dec.
From Coq Require Import Init.Byte.
From PyC Require Import Base Bip32Spec Bip32Impl Bip32Proofs.
Import ListNotations.
Open Scope N_scope.
Unset Lia Cache.

Definition Zl : Type := { n : N | (n <? ell) = true }.

Lemma Zl_eq (a b : Zl) : proj1_sig a = proj1_sig b -> a = b.
Proof.
  destruct a as [a pa], b as [b pb]. cbn. intros ->. f_equal.
  apply UIP_dec. apply bool_dec.
Qed.

Lemma ell_pos : ell <> 0. Proof. discriminate. Qed.
Lemma mod_lt n : (n mod ell <? ell) = true.
Proof. apply N.ltb_lt. apply N.mod_upper_bound. exact ell_pos. Qed.

Definition mk (n : N) : Zl := exist _ (n mod ell) (mod_lt n).
Definition zadd (a b : Zl) : Zl := mk (proj1_sig a + proj1_sig b).
Definition zsmul (k : N) (a : Zl) : Zl := mk (k * proj1_sig a).
Definition zenc (a : Zl) : bytes := le 32 (proj1_sig a).
Definition zdec (b : bytes) : option Zl :=
  if (length b =? 32)%nat && (unle b <? ell) then Some (mk (unle b)) else None.

Definition toy_hash (n : nat) (d : bytes) : bytes :=
  le n ((unle d + N.of_nat (length d) + 1) * (2^521 - 1) + 2^300 / (unle d + 3)).

Definition toy : prims :=
  {| pbkdf2 := fun p s => toy_hash 96 (p ++ x00 :: s);
     hmac512 := fun k d => toy_hash 64 (k ++ x01 :: d);
     sha512 := fun d => toy_hash 64 d;
     G := Zl; gadd := zadd; gzero := mk 0; smulB := mk; smul := zsmul;
     enc_pt := zenc; dec_pt := zdec;
     pt_add := fun a b => match zdec a, zdec b with
                          | Some x, Some y => Some (zenc (zadd x y))
                          | _, _ => None end |}.

Lemma proj_lt (a : Zl) : proj1_sig a < ell.
Proof. destruct a as [a pa]. cbn. now apply N.ltb_lt. Qed.

(* ---- the premises of the C16 theorems hold for [toy] ---- *)
Lemma toy_pbkdf2_len : forall p s : bytes, length (pbkdf2 toy p s) = 96%nat.
Proof. intros. apply le_length. Qed.
Lemma toy_enc_len : forall g : G toy, length (enc_pt toy g) = 32%nat.
Proof. intros. apply le_length. Qed.
Lemma toy_dec_enc : forall g : G toy, dec_pt toy (enc_pt toy g) = Some g.
Proof.
  intros g. change (dec_pt toy (enc_pt toy g)) with (zdec (zenc g)). unfold zdec, zenc. rewrite le_length. cbn [Nat.eqb andb].
  pose proof (proj_lt g) as H. pose proof ell_bounds as (_ & E).
  rewrite unle_le_small by (rewrite pow256_32; lia).
  replace (proj1_sig g <? ell) with true by (symmetry; now apply N.ltb_lt).
  f_equal. apply Zl_eq. unfold mk. cbn [proj1_sig]. now apply N.mod_small.
Qed.
Ltac zl := apply Zl_eq; unfold zadd, zsmul, mk; cbn [proj1_sig].
Lemma toy_smulB_add : forall a b : N, smulB toy (a + b) = gadd toy (smulB toy a) (smulB toy b).
Proof. intros a b. change (mk (a + b) = zadd (mk a) (mk b)). zl. apply N.add_mod. exact ell_pos. Qed.
Lemma toy_smulB_0 : smulB toy 0 = gzero toy. Proof. reflexivity. Qed.
Lemma toy_smulB_ell : smulB toy ell = gzero toy.
Proof. change (mk ell = mk 0). zl. rewrite N.mod_same by exact ell_pos. symmetry. apply N.mod_0_l. exact ell_pos. Qed.
Lemma toy_gadd_zero_l : forall g : G toy, gadd toy (gzero toy) g = g.
Proof.
  intros g. change (zadd (mk 0) g = g). zl. rewrite N.mod_0_l by exact ell_pos.
  rewrite N.add_0_l. apply N.mod_small. apply proj_lt.
Qed.
Lemma toy_gadd_comm : forall a b : G toy, gadd toy a b = gadd toy b a.
Proof. intros a b. change (zadd a b = zadd b a). zl. now rewrite N.add_comm. Qed.
Lemma toy_smul_0 : forall g : G toy, smul toy 0 g = gzero toy.
Proof. intros g. change (zsmul 0 g = mk 0). zl. now rewrite N.mul_0_l. Qed.
Lemma toy_smul_succ : forall (n : N) (g : G toy), smul toy (N.succ n) g = gadd toy g (smul toy n g).
Proof.
  intros n g. change (zsmul (N.succ n) g = zadd g (zsmul n g)). zl.
  rewrite N.add_mod_idemp_r by exact ell_pos. f_equal. lia.
Qed.
Lemma toy_pt_add_enc : forall a b : G toy,
  pt_add toy (enc_pt toy a) (enc_pt toy b) = Some (enc_pt toy (gadd toy a b)).
Proof.
  intros a b. change (pt_add toy (enc_pt toy a) (enc_pt toy b))
    with (match dec_pt toy (enc_pt toy a), dec_pt toy (enc_pt toy b) with
          | Some x, Some y => Some (zenc (zadd x y)) | _, _ => None end).
  now rewrite !toy_dec_enc.
Qed.

(* ---- concrete runs (vm_compute) ---- *)
Definition entropy0 : bytes := repeat x00 16.
Definition root0 : result wallet := from_entropy toy entropy0 [].
Definition cip1852 : list (N * bool) := [(1852, true); (1815, true); (0, true); (0, false); (0, false)].

Definition is_ok {A} (r : result A) : bool := match r with Ok _ => true | Err _ => false end.
Definition get (r : result wallet) : wallet :=
  match r with Ok w => w | Err _ => {| w_root_xprv := []; w_root_pub := []; w_root_cc := []; w_xprv := None;
                                       w_pub := []; w_cc := []; w_path := [] |} end.

(* C16_root / C16_entropy_to_keys are not vacuous: the root exists (its public key is not the identity) *)
Example toy_root_ok : is_identity toy (smulB toy (x_kL (spec_root toy [] entropy0))) = false /\ is_ok root0 = true.
Proof. split; vm_compute; reflexivity. Qed.

Lemma toy_root_exists : exists w, from_entropy toy (repeat x00 16) [] = Ok w.
Proof.
  destruct (from_entropy toy (repeat x00 16) []) as [w|e] eqn:E; [eauto|].
  assert (H : is_ok (from_entropy toy (repeat x00 16) []) = true) by (vm_compute; reflexivity).
  rewrite E in H. discriminate.
Qed.

(* C16_path / C16_child / C16_all_depths: the standard CIP-1852 path derives, as a string and step by step *)
Example toy_path_ok :
  render_path cip1852 = list_ascii_of_string "m/1852'/1815'/0'/0/0"
  /\ is_ok (derive_from_path toy (get root0) (render_path cip1852) true) = true
  /\ (match spec_path_priv toy (spec_root toy [] entropy0) [2^31 + 1852; 2^31 + 1815; 2^31; 0; 0] with
      | Some x => w_pub (get (derive_from_path toy (get root0) (render_path cip1852) true)) = enc_pt toy (smulB toy (x_kL x))
      | None => False end).
Proof. vm_compute. split; [reflexivity|split; reflexivity]. Qed.

(* C16_pub_priv / C16_pub_sound / C16_pub_exists: both routes succeed on a soft child of the account key *)
Definition acct : wallet := get (derive_from_path toy (get root0) (list_ascii_of_string "m/1852'/1815'/0'") true).
Example toy_pub_priv_ok :
  is_ok (derive toy acct 7 false false) = true /\ is_ok (derive toy acct 7 true false) = true
  /\ w_pub (get (derive toy acct 7 false false)) = w_pub (get (derive toy acct 7 true false))
  /\ w_pub (get (derive toy acct 7 false false)) <> enc_pt toy (gzero toy).
Proof. vm_compute. split; [reflexivity|split; [reflexivity|split; [reflexivity|discriminate]]]. Qed.

(* C16_sign: the derived key signs and the signature verifies *)
Definition leaf : wallet := get (derive_from_path toy (get root0) (render_path cip1852) true).
Definition msg0 : bytes := [x68; x69].
Example toy_sign_ok :
  match esk_from_hdwallet leaf with
  | Ok payload => match esk_sign toy payload msg0 with
                  | Ok sig => ed_verify toy (w_pub leaf) msg0 sig = true /\ length sig = 64%nat
                  | Err _ => False end
  | Err _ => False end.
Proof. vm_compute. split; reflexivity. Qed.

(* wf_priv and the side conditions of C16_child are satisfiable: the root wallet itself *)
Example toy_wf_root :
  let x := spec_root toy [] entropy0 in
  wf_priv toy (root_wallet toy x) x /\ 0 < x_kL x /\ x_kL x + 2^227 <= 2^255 /\ kL_bound 0 x.
Proof.
  cbv zeta. destruct (from_entropy_spec toy toy_pbkdf2_len entropy0 [] eq_refl) as (_ & H1 & H2 & _).
  split; [exact H1|]. unfold kL_bound in *. split; [|split]; [lia| |exact H2].
  change (2^255) with (2^254 + 2^253 + 2^253). change (2^227) with (2^227) in *. lia.
Qed.

(* ---- documented witness for the side condition: with 2^255 <= kL' < 2^256 the code's public key is
        (kL' mod 2^255)·B, not the specification's kL'·B ---- *)
Definition big_x : xprv := {| x_kL := 2^255 + 2^254; x_kR := 5; x_c := repeat x07 32 |}.
Definition big_w : wallet :=
  {| w_root_xprv := [x01]; w_root_pub := [x01]; w_root_cc := [];
     w_xprv := Some (ser256 (x_kL big_x) ++ ser256 (x_kR big_x));
     w_pub := enc_pt toy (smulB toy (x_kL big_x)); w_cc := x_c big_x; w_path := m_path |}.

Lemma child_beyond_2_255_refuted :
  exists (P : prims) (w : wallet) (x x' : xprv) (w' : wallet),
    wf_priv P w x /\ x_kL x < 2^256
    /\ spec_ckd_priv P x 0 = Some x' /\ derive P w 0 true false = Ok w'
    /\ w_xprv w' = Some (ser256 (x_kL x') ++ ser256 (x_kR x'))       (* the stored key IS the specified one *)
    /\ w_pub w' <> enc_pt P (smulB P (x_kL x')).                      (* but its public key is not kL'·B *)
Proof.
  exists toy, big_w, big_x.
  destruct (spec_ckd_priv toy big_x 0) as [x'|] eqn:E; [|vm_compute in E; discriminate].
  exists x', (get (derive toy big_w 0 true false)).
  assert (Ex : Some x' = spec_ckd_priv toy big_x 0) by (symmetry; exact E).
  vm_compute in Ex. apply Some_inj in Ex. subst x'.
  split; [unfold wf_priv, roots_ok; split; [reflexivity|split; [reflexivity|split; [reflexivity|split; [reflexivity|reflexivity]]]]|].
  split; [reflexivity|]. split; [reflexivity|].
  split; [vm_compute; reflexivity|]. split; [vm_compute; reflexivity|].
  vm_compute. discriminate.
Qed.
