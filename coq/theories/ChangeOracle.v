(* ChangeOracle.v — C08: decision procedures evaluated on the IMPLEMENTATION's outputs, and the glue
   comparing the model of Change.v with the implementation case by case. *)
From Coq Require Import NArith ZArith Ascii String List Bool Lia.
From PyC Require Import Base Cbor Dict Value ValueOracle Change.
Import ListNotations.
Open Scope Z_scope.

(* ---------- raw equality of results ---------- *)
Definition err_eqb (a b : c_err) : bool :=
  match a, b with
  | EInsufficient, EInsufficient | EInvalidTx, EInvalidTx | EInvalidData, EInvalidData | EOther, EOther => true
  | _, _ => false
  end.
Definition res_eqb {A} (eqb : A -> A -> bool) (a b : res A) : bool :=
  match a, b with
  | Ok x, Ok y => eqb x y
  | Err e, Err f => err_eqb e f
  | _, _ => false
  end.
Fixpoint list_eqb {A} (eqb : A -> A -> bool) (a b : list A) : bool :=
  match a, b with
  | [], [] => true
  | x :: a', y :: b' => eqb x y && list_eqb eqb a' b'
  | _, _ => false
  end.
Definition value_same (a b : value) : bool := (coin a =? coin b) && masset_same (massets a) (massets b).
Definition opt_eqb {A} (eqb : A -> A -> bool) (a b : option A) : bool :=
  match a, b with Some x, Some y => eqb x y | None, None => true | _, _ => false end.
Definition datum_eqb (a b : datum_opt) : bool :=
  match a, b with
  | DHash x, DHash y | DInline x, DInline y => bytes_eqb x y
  | _, _ => false
  end.
Definition txout_same (a b : txout) : bool :=
  bytes_eqb (o_addr a) (o_addr b) && value_same (o_val a) (o_val b)
  && opt_eqb datum_eqb (o_datum a) (o_datum b) && opt_eqb bytes_eqb (o_script a) (o_script b).

(* ---------- sums ---------- *)
Definition vsum (l : list value) : value := fold_left v_add l (mkValue 0 []).
Definition msum_m (l : list masset) : masset := fold_left m_add l [].

(* ---------- failure classes of the oracle (0 = property holds on this case) ---------- *)
Definition OKc : N := 0%N.
Definition NEGATIVE : N := 1%N.        (* negative ADA or non-positive stored quantity *)
Definition UNDERFUNDED : N := 2%N.     (* change output below its own minimum ADA *)
Definition OVERSIZE : N := 3%N.        (* value larger than max_val_size (not the known +4 shape) *)
Definition UNBALANCED : N := 4%N.      (* tokens / ADA lost or duplicated *)
Definition PLUS4 : N := 5%N.           (* known shape: LAST change output, coin >= 2^32, excess <= 4 bytes *)
Definition NOTREFUSED : N := 6%N.      (* serialization accepted a negative quantity *)
Definition FORMULA : N := 7%N.         (* min-ADA utility differs from the ledger formula *)
Definition MALFORMED : N := 8%N.       (* output bytes do not decode / are not canonical *)
Definition REJECTED : N := 9%N.        (* the min-ADA answer put into the (zero-ADA) output is rejected by the ledger *)
Definition first_fail (l : list N) : N := match filter (fun x => negb (x =? 0)%N) l with [] => 0%N | x :: _ => x end.

Definition two32 : Z := 4294967296.

(* size class of one change output; `last` tells whether it is the last change output *)
Definition size_class (c : cfg) (last : bool) (v : value) : N :=
  if vsize v <=? max_val_size c then OKc else OVERSIZE.      (* the former PLUS4 shape is fixed: no exception any more *)
Fixpoint size_classes (c : cfg) (l : list value) : list N :=
  match l with
  | [] => []
  | [v] => [size_class c true v]
  | v :: r => size_class c false v :: size_classes c r
  end.

Definition amount_class (v : value) : N := if (0 <=? coin v) && all_posb (massets v) then OKc else NEGATIVE.
Definition funded_class (c : cfg) (addr : bytes) (v : value) : N :=
  if min_ada (cpb c) (out_size (plain addr v)) <=? coin v then OKc else UNDERFUNDED.

(* ---------- slice level: the list of change outputs returned by _calc_change ---------- *)
Definition calc_oracle (c : cfg) (i : cc_in) (impl : res (list value)) : N :=
  match impl with
  | Err _ => OKc                           (* a refusal never violates C08 (agreement with the model is `corr`) *)
  | Ok outs =>
      first_fail
        (map amount_class outs
         ++ (if cc_respect i then map (funded_class c (cc_addr i)) outs else [])
         ++ [if v_eq (vsum outs) (v_sub (provided_of i) (requested_of i)) then OKc else UNBALANCED]
         ++ size_classes c outs)
  end.

(* the packer alone: a split of the bundle, every part fits when given its minimum ADA *)
Definition pack_oracle (c : cfg) (addr : bytes) (change : value) (impl : res (list masset)) : N :=
  match impl with
  | Err _ => OKc
  | Ok arr =>
      first_fail
        ([if m_eq (msum_m arr) (massets change) then OKc else UNBALANCED]
         ++ map (fun ma => if all_posb ma then OKc else NEGATIVE) arr
         ++ map (fun ma => if too_big c addr (coin change) (mkValue 0 ma) then OVERSIZE else OKc) arr)
  end.

(* ---------- decoding an emitted output ---------- *)
Record dout := mkD { d_addr : bytes; d_val : value; d_extra : list (cbor * cbor) }.
Definition extras_ok (l : list (cbor * cbor)) : bool :=
  match l with
  | [] => true
  | [(CU 2, _)] | [(CU 3, _)] | [(CU 2, _); (CU 3, _)] => true
  | _ => false
  end.
Definition dec_output (bs : bytes) : option dout :=
  match decode bs with
  | Some x =>
      if bytes_eqb (enc x) bs then
        match x with
        | CA [CB a; v] => option_map (fun v' => mkD a v' []) (dec_value_canonical v)
        | CA [CB a; v; CB h] => option_map (fun v' => mkD a v' [(CU 2, CA [CU 0; CB h])]) (dec_value_canonical v)
        | CM ((CU 0, CB a) :: (CU 1, v) :: extra) =>
            if extras_ok extra then option_map (fun v' => mkD a v' extra) (dec_value_canonical v) else None
        | _ => None
        end
      else None
  | None => None
  end.
(* the output re-serialized in map form and measured *)
Definition d_map_size (d : dout) : N :=
  lenN (enc (CM ((CU 0, CB (d_addr d)) :: (CU 1, value_prim (d_val d)) :: d_extra d))).

(* ---------- the min-ADA utility ---------- *)
(* own : the output's own to_cbor() (legacy or map form). Decided on the DECODED bytes, by the ledger rule, which
   knows coins_per_utxo_byte only (whatever other protocol parameters the chain context reports):
   - an output that carries ADA: the answer is cpb * (160 + |map form|) exactly;
   - an output without ADA ("how much does this bundle need?", the way the builder asks for every token change):
     (a) the answer, put into the output, is accepted by the ledger (checked when the answer needs at most 5
         bytes, cf. ChangeProofs.min_lovelace_sufficient and its _needs_premise counterexample), and
     (b) it is the formula for the output holding the documented 1 ADA stand-in. *)
Definition minada_oracle (c : cfg) (own : bytes) (impl : Z) (unchanged : bool) : N :=
  match dec_output own with
  | None => MALFORMED
  | Some d =>
      let d' := mkD (d_addr d) (subst_coin (d_val d)) (d_extra d) in
      let filled := mkD (d_addr d) (mkValue impl (massets (d_val d))) (d_extra d) in
      if negb unchanged then FORMULA
      else if (coin (d_val d) =? 0) && (0 <=? impl) && (impl <? two32)
              && negb (min_ada (cpb c) (d_map_size filled) <=? impl) then REJECTED
      else if impl =? min_ada (cpb c) (d_map_size d') then OKc else FORMULA
  end.
Definition minada_corr (c : cfg) (o : txout) (map_cbor : bytes) (impl : Z) : bool :=
  (min_lovelace c o =? impl)
  && bytes_eqb (out_cbor_map (mkOut (o_addr o) (subst_coin (o_val o)) (o_datum o) (o_script o))) map_cbor.

(* ---------- serialization refuses negative quantities ---------- *)
Definition negative_anywhereb (v : value) : bool :=
  (coin v <? 0) || existsb (fun pa => existsb (fun nq => snd nq <? 0) (snd pa)) (massets v).
(* level 0: output.to_cbor(); 1: UTxO; 2: body.outputs; 3: body.collateral_return; 4: Transaction(body) *)
Definition ser_model (level : N) (vs : list value) : bool :=
  if (level <=? 1)%N then existsb output_to_cbor_refused vs
  else if (level =? 3)%N then body_to_cbor_refused (mkBody [] (hd_error vs) [])
  else body_to_cbor_refused (mkBody vs None []).
Definition ser_oracle (vs : list value) (impl_refused : bool) : N :=
  if existsb negative_anywhereb vs && negb impl_refused then NOTREFUSED else OKc.

(* ---------- _add_change_and_fee ---------- *)
Definition add_oracle (c : cfg) (a : ac_in) (impl : res (list txout)) : N :=
  match impl with
  | Err _ => OKc
  | Ok outs =>
      let n := length (ac_outputs a) in
      let changes := map o_val (skipn n outs) in
      let provided := provided_of (ac_cc a 0) in
      first_fail
        (map (fun o => amount_class (o_val o)) outs
         ++ map (funded_class c (ac_addr a)) changes
         ++ [if m_eq (massets (vsum (map o_val outs))) (massets provided) then OKc else UNBALANCED]
         ++ size_classes c changes)
  end.

(* ---------- end to end: the body returned by build() ---------- *)
(* ins : amounts of the inputs of the body; outs : CBOR of every output of the body; nreq : number of
   outputs the caller requested (the builder's own outputs follow them) *)
Definition build_oracle (c : cfg) (fee : Z) (ins : list value) (mint : masset) (nreq : nat) (outs : list bytes) : N :=
  let ds := map dec_output outs in
  if existsb (fun d => match d with None => true | Some _ => false end) ds then MALFORMED
  else
    let ds := flat_map (fun d => match d with Some x => [x] | None => [] end) ds in
    let changes := skipn nreq ds in
    let total_in := vsum ins in
    let total_out := vsum (map d_val ds) in
    first_fail
      (map (fun d => amount_class (d_val d)) ds
       ++ map (fun d => if min_ada (cpb c) (d_map_size d) <=? coin (d_val d) then OKc else UNDERFUNDED) changes
       ++ [if m_eq (massets total_out) (m_add (massets total_in) mint) && (coin total_out + fee =? coin total_in)
           then OKc else UNBALANCED]
       ++ size_classes c (map d_val changes)).

(* ---------- cases ---------- *)
Inductive ccase :=
| KPack (c : cfg) (addr : bytes) (change : value) (impl : res (list masset))
| KOvf (c : cfg) (addr : bytes) (mc : Z) (out : value) (cur : asset) (pid name : bytes) (q : Z) (impl : bool)
| KCalc (c : cfg) (i : cc_in) (impl : res (list value))
| KMinAda (c : cfg) (o : txout) (own map_cbor : bytes) (impl : Z) (unchanged : bool)
| KAdd (c : cfg) (a : ac_in) (impl : res (list txout))
| KSer (level : N) (vs : list value) (impl_refused : bool)
| KBuild (c : cfg) (fee : Z) (ins : list value) (mint : masset) (nreq : nat) (outs : list bytes).

Definition corr (k : ccase) : bool :=
  match k with
  | KPack c addr change impl => res_eqb (list_eqb masset_same) (pack_tokens c addr change) impl
  | KOvf c addr mc out cur pid name q impl => Bool.eqb (overflow c addr mc out cur pid name q) impl
  | KCalc c i impl => res_eqb (list_eqb value_same) (calc_change c i) impl
  | KMinAda c o own map_cbor impl _ => minada_corr c o map_cbor impl
  | KAdd c a impl => res_eqb (list_eqb txout_same) (add_change c a) impl
  | KSer level vs impl => Bool.eqb (ser_model level vs) impl
  | KBuild _ _ _ _ _ _ => true                       (* no model run end to end: oracle only *)
  end.

Definition oracle (k : ccase) : N :=
  match k with
  | KPack c addr change impl => pack_oracle c addr change impl
  | KOvf _ _ _ _ _ _ _ _ _ => OKc
  | KCalc c i impl => calc_oracle c i impl
  | KMinAda c o own _ impl unchanged => minada_oracle c own impl unchanged
  | KAdd c a impl => add_oracle c a impl
  | KSer _ vs impl => ser_oracle vs impl
  | KBuild c fee ins mint nreq outs => build_oracle c fee ins mint nreq outs
  end.

Definition mismatching (cases : list (nat * ccase)) : list nat :=
  map fst (filter (fun c => negb (corr (snd c))) cases).
Definition failing (cases : list (nat * ccase)) : list nat :=
  map fst (filter (fun c => let o := oracle (snd c) in negb (o =? OKc)%N && negb (o =? PLUS4)%N) cases).
Definition known_plus4 (cases : list (nat * ccase)) : list nat :=
  map fst (filter (fun c => (oracle (snd c) =? PLUS4)%N) cases).
(* failure class per failing case, for the report *)
Definition classes (cases : list (nat * ccase)) : list nat :=
  map (fun c => N.to_nat (oracle (snd c))) (filter (fun c => negb (oracle (snd c) =? OKc)%N) cases).
