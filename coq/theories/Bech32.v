(* Bech32.v — executable model of pycardano/crypto/bech32.py (Pieter Wuille's reference code).
   MODEL ONLY (proofs: Bech32Proofs.v).

   Python str  = list of code points (N).          Python int = N (no negative value reaches this code).
   Exceptions / `return None` are modelled by option; where both can happen the result is
   option (option _):   None = an exception is raised,   Some None = the function returns None.

   The constants below are the ones the proofs are about; tools/props/c15.py re-extracts them from
   the CURRENT source into coq/gen/AddressGen.v and props/C15.v proves the two sets equal. *)
From Coq Require Import NArith Ascii String List Bool.
From PyC Require Import Base.
Import ListNotations.
Open Scope N_scope.

Definition str := list N.
Definition codes (s : string) : str := map N_of_ascii (list_ascii_of_string s).

(* ---------- constants (bech32.py:35-36, :41) ---------- *)
Definition CHARSET_string : string := "qpzry9x8gf2tvdw0s3jn54khce6mua7l".
Definition CHARSET : str := codes CHARSET_string.
Definition BECH32_CONST : N := 1.
Definition BECH32M_CONST : N := 0x2BC830A3.
Definition generator : list N := [0x3B6A57B2; 0x26508E6D; 0x1EA119FA; 0x3D4233DD; 0x2A1462B3].

Inductive encoding := BECH32 | BECH32M.

(* ---------- bech32_polymod (bech32.py:39-48) ---------- *)
(*  top = chk >> 25 ; chk = (chk & 0x1FFFFFF) << 5 ^ value ; for i in range(5): chk ^= generator[i] if (top >> i) & 1 else 0 *)
Definition polymod_step (chk value : N) : N :=
  let top := N.shiftr chk 25 in
  let chk := N.lxor (N.shiftl (N.land chk 0x1FFFFFF) 5) value in
  fold_left (fun c ig => N.lxor c (if N.testbit top (fst ig) then snd ig else 0))
            (combine [0; 1; 2; 3; 4] generator) chk.
Definition bech32_polymod (values : list N) : N := fold_left polymod_step values 1.

(* ---------- bech32_hrp_expand (bech32.py:51-53) ---------- *)
Definition hrp_expand (hrp : str) : list N :=
  map (fun x => N.shiftr x 5) hrp ++ [0] ++ map (fun x => N.land x 31) hrp.

(* ---------- bech32_verify_checksum (bech32.py:56-63): BOTH constants are accepted ---------- *)
Definition verify_checksum (hrp : str) (data : list N) : option encoding :=
  let const := bech32_polymod (hrp_expand hrp ++ data) in
  if const =? BECH32_CONST then Some BECH32
  else if const =? BECH32M_CONST then Some BECH32M
  else None.

(* ---------- bech32_create_checksum (bech32.py:66-71) ----------
   `spec` is whatever the caller passes; only `spec == Encoding.BECH32M` matters.
   encode() passes the integer 0, modelled as None. *)
Definition create_checksum (hrp : str) (data : list N) (spec : option encoding) : list N :=
  let values := hrp_expand hrp ++ data in
  let const := match spec with Some BECH32M => BECH32M_CONST | _ => BECH32_CONST end in
  let polymod := N.lxor (bech32_polymod (values ++ [0; 0; 0; 0; 0; 0])) const in
  map (fun i => N.land (N.shiftr polymod (5 * (5 - i))) 31) [0; 1; 2; 3; 4; 5].

(* ---------- bech32_encode (bech32.py:74-77); None = IndexError of CHARSET[d] ---------- *)
Fixpoint charset_get (ds : list N) : option str :=
  match ds with
  | [] => Some []
  | d :: r => match nth_error CHARSET (N.to_nat d), charset_get r with
              | Some c, Some s => Some (c :: s)
              | _, _ => None
              end
  end.
Definition bech32_encode (hrp : str) (data : list N) (spec : option encoding) : option str :=
  match charset_get (data ++ create_checksum hrp data spec) with
  | Some s => Some (hrp ++ [49] ++ s)                  (* "1" *)
  | None => None
  end.

(* ---------- string helpers ---------- *)
Definition lowerc (x : N) : N := if (65 <=? x) && (x <=? 90) then x + 32 else x.
Definition upperc (x : N) : N := if (97 <=? x) && (x <=? 122) then x - 32 else x.
Definition lower (s : str) : str := map lowerc s.      (* str.lower(), exact on code points 33..126 *)
Definition upper (s : str) : str := map upperc s.
Fixpoint str_eqb (a b : str) : bool :=
  match a, b with
  | [], [] => true
  | x :: a', y :: b' => (x =? y) && str_eqb a' b'
  | _, _ => false
  end.
(* s.rfind(c) : None = -1 *)
Fixpoint rfind (c : N) (s : str) : option nat :=
  match s with
  | [] => None
  | x :: r => match rfind c r with
              | Some p => Some (S p)
              | None => if x =? c then Some 0%nat else None
              end
  end.
Definition mem (x : N) (l : str) : bool := existsb (N.eqb x) l.
(* l.find(x); callers guard with `x in l`, the -1 of the Python function is unreachable (0 here) *)
Fixpoint find (x : N) (l : str) : N :=
  match l with
  | [] => 0
  | y :: r => if x =? y then 0 else 1 + find x r
  end.

(* ---------- bech32_decode (bech32.py:80-97); None = (None, None, None) ---------- *)
Definition MAXLEN : nat := 108.
Definition bad_char (x : N) : bool := (x <? 33) || (126 <? x).
Definition mixed_case (bech : str) : bool :=
  negb (str_eqb (lower bech) bech) && negb (str_eqb (upper bech) bech).
Definition bech32_decode_lower (bech : str) : option (str * list N * encoding) :=
  match rfind 49 bech with
  | None => None                                                      (* pos = -1 < 1 *)
  | Some pos =>
    if Nat.ltb pos 1 || Nat.ltb (length bech) (pos + 7) || Nat.ltb MAXLEN (length bech) then None else
    let dpart := skipn (S pos) bech in
    if negb (forallb (fun x => mem x CHARSET) dpart) then None else
    let hrp := firstn pos bech in
    let data := map (fun x => find x CHARSET) dpart in
    match verify_checksum hrp data with
    | None => None
    | Some spec => Some (hrp, firstn (length data - 6) data, spec)
    end
  end.
Definition bech32_decode (bech : str) : option (str * list N * encoding) :=
  if existsb bad_char bech || mixed_case bech then None
  else bech32_decode_lower (lower bech).

(* ---------- convertbits (bech32.py:100-120) ----------
   inner `while bits >= tobits` : fuel = S bits suffices when tobits >= 1; exhaustion = None (never for 8<->5) *)
Fixpoint cb_while (fuel : nat) (acc bits tobits maxv : N) (ret : list N) : option (N * list N) :=
  match fuel with
  | O => None
  | S f => if tobits <=? bits
           then let bits := bits - tobits in
                cb_while f acc bits tobits maxv (ret ++ [N.land (N.shiftr acc bits) maxv])
           else Some (bits, ret)
  end.
Fixpoint cb_loop (data : list N) (frombits tobits maxv max_acc acc bits : N) (ret : list N)
  : option (N * N * list N) :=
  match data with
  | [] => Some (acc, bits, ret)
  | value :: r =>
    if negb (N.shiftr value frombits =? 0) then None            (* value < 0 impossible in N *)
    else let acc := N.land (N.lor (N.shiftl acc frombits) value) max_acc in
         let bits := bits + frombits in
         match cb_while (S (N.to_nat bits)) acc bits tobits maxv ret with
         | None => None
         | Some (bits, ret) => cb_loop r frombits tobits maxv max_acc acc bits ret
         end
  end.
Definition convertbits (data : list N) (frombits tobits : N) (pad : bool) : option (list N) :=
  let maxv := N.shiftl 1 tobits - 1 in
  let max_acc := N.shiftl 1 (frombits + tobits - 1) - 1 in
  match cb_loop data frombits tobits maxv max_acc 0 0 [] with
  | None => None
  | Some (acc, bits, ret) =>
    if pad then
      if negb (bits =? 0) then Some (ret ++ [N.land (N.shiftl acc (tobits - bits)) maxv]) else Some ret
    else if (frombits <=? bits) || negb (N.land (N.shiftl acc (tobits - bits)) maxv =? 0) then None
    else Some ret
  end.

(* ---------- decode (bech32.py:123-129) ----------
   None       : TypeError (bech32_decode failed -> convertbits iterates over None)
   Some None  : the function returns None
   Some (Some l) : decoded byte values *)
Definition segwit_decode (addr : str) : option (option (list N)) :=
  match bech32_decode addr with
  | None => None
  | Some (_, data, _) =>
    match convertbits data 5 8 false with
    | None => Some None
    | Some decoded => if Nat.ltb (length decoded) 2 || Nat.ltb 108 (length decoded) then Some None
                      else Some (Some decoded)
    end
  end.

(* ---------- encode (bech32.py:132-137) ----------
   None = exception (convertbits gave None / CHARSET index), Some None = returns None (bech32_decode rejects
   the produced string, i.e. it is longer than 108 characters or the hrp is unusable) *)
Definition segwit_encode (hrp : str) (witprog : list N) : option (option str) :=
  match convertbits witprog 8 5 true with
  | None => None
  | Some data =>
    match bech32_encode hrp data None with
    | None => None
    | Some ret => match bech32_decode ret with
                  | None => Some None
                  | Some _ => Some (Some ret)
                  end
    end
  end.
