(* Bip32Spec.v — SPECIFICATION side of C16, written from
     * D. Khovratovich, J. Law, "BIP32-Ed25519: Hierarchical Deterministic Keys over a Non-linear
       Keyspace" (sections V.A–V.D: root key, private child, public child), and
     * CIP-3 "Wallet key generation", Icarus master key generation
   over INTEGERS (N) and an abstract group.  Nothing here is taken from pycardano.

   External primitives are NOT pycardano logic.  They are collected in the record [prims];
   every definition below lives in a [Section] with one variable [P : prims], and the laws the
   proofs need are [Hypothesis]es of the proof section (Bip32Proofs.v) — never Axioms.

   Also here (shared with the implementation model): little-endian natural numbers. *)
From Coq Require Import NArith ZArith Ascii String List Bool Lia.
From Coq Require Import Init.Byte.
From PyC Require Import Base.
Import ListNotations.
Open Scope N_scope.

(* ---------- little-endian naturals (Base.v has the big-endian ones) ---------- *)
(* le k n : the k low-order bytes of n, least significant first  (Python: n.to_bytes(k, "little") when it fits) *)
Fixpoint le (k : nat) (n : N) : bytes :=
  match k with
  | O => []
  | S k' => n2b n :: le k' (n / 256)
  end.
(* unle b : the natural number whose little-endian digits are b   (Python: int.from_bytes(b, "little")) *)
Fixpoint unle (b : bytes) : N :=
  match b with
  | [] => 0
  | x :: r => b2n x + 256 * unle r
  end.

(* ---------- the external primitives ---------- *)
Record prims : Type := {
  pbkdf2  : bytes -> bytes -> bytes;      (* pbkdf2 password salt = PBKDF2-HMAC-SHA512(password, salt, 4096 iterations, dkLen = 96) *)
  hmac512 : bytes -> bytes -> bytes;      (* hmac512 key data     = HMAC-SHA512(key, data), 64 bytes *)
  sha512  : bytes -> bytes;               (* 64 bytes *)
  G       : Type;                         (* the Ed25519 group (points of the curve) *)
  gadd    : G -> G -> G;
  gzero   : G;                            (* the identity point *)
  smulB   : N -> G;                       (* k |-> k·B, B the Ed25519 base point *)
  smul    : N -> G -> G;                  (* k, P |-> k·P   (needed by signature verification only) *)
  enc_pt  : G -> bytes;                   (* RFC 8032 point compression, 32 bytes *)
  dec_pt  : bytes -> option G;            (* decompression (signature verification only) *)
  pt_add  : bytes -> bytes -> option bytes (* libsodium crypto_core_ed25519_add on encodings; None = "not a valid point" *)
}.

(* order of the base point: 2^252 + 27742317777372353535851937790883648493 *)
Definition ell : N := 2^252 + 27742317777372353535851937790883648493.

(* extended private key at the integer level: (kL, kR), chain code *)
Record xprv : Type := { x_kL : N; x_kR : N; x_c : bytes }.

Section Spec.
Variable P : prims.
Local Notation G := (G P).

Definition is_identity (g : G) : bool := bytes_eqb (enc_pt P g) (enc_pt P (gzero P)).

(* ---------- extended keys at the integer level ---------- *)
Record xpub : Type := { p_A : G; p_c : bytes }.                  (* A = kL·B, chain code *)

Definition xprv_pub (x : xprv) : G := smulB P (x_kL x).
Definition neuter (x : xprv) : xpub := {| p_A := xprv_pub x; p_c := x_c x |}.

(* serialisations fixed by the paper: 256-bit numbers and the index are little-endian *)
Definition ser256 (k : N) : bytes := le 32 k.
Definition ser32 (i : N) : bytes := le 4 i.

(* ---------- CIP-3 Icarus master key ---------- *)
(* "clear the lowest 3 bits, clear the highest bit, clear the 3rd highest bit, set the 2nd highest bit"
   of the 256-bit little-endian scalar; CIP-3's code clears bits 253,254,255 and then sets 254. *)
Definition tweak (k : N) : N := 8 * ((k mod 2^253) / 8) + 2^254.

Definition spec_root (passphrase entropy : bytes) : xprv :=
  let s := pbkdf2 P passphrase entropy in                (* 96 bytes: kL || kR || c *)
  {| x_kL := tweak (unle (firstn 32 s));
     x_kR := unle (firstn 32 (skipn 32 s));
     x_c  := skipn 64 s |}.

(* ---------- BIP32-Ed25519 child key derivation ---------- *)
Definition hardened_threshold : N := 2^31.
Definition index_bound : N := 2^32.

(* Z and the chain-code preimage, private parent (paper V.B) *)
Definition spec_Z_priv (x : xprv) (i : N) : bytes * bytes :=
  if i <? hardened_threshold then
    (hmac512 P (x_c x) (x02 :: enc_pt P (xprv_pub x) ++ ser32 i),
     hmac512 P (x_c x) (x03 :: enc_pt P (xprv_pub x) ++ ser32 i))
  else
    (hmac512 P (x_c x) (x00 :: ser256 (x_kL x) ++ ser256 (x_kR x) ++ ser32 i),
     hmac512 P (x_c x) (x01 :: ser256 (x_kL x) ++ ser256 (x_kR x) ++ ser32 i)).

Definition zL_of (Z : bytes) : N := unle (firstn 28 Z).         (* left 28 bytes *)
Definition zR_of (Z : bytes) : N := unle (skipn 32 Z).          (* right 32 bytes *)

(* None = "the child does not exist" (index not a 32-bit number, or kL'·B is the identity,
   i.e. kL' divisible by the order of B) *)
Definition spec_ckd_priv (x : xprv) (i : N) : option xprv :=
  if index_bound <=? i then None else
  let '(Z, C) := spec_Z_priv x i in
  let kL' := 8 * zL_of Z + x_kL x in
  let kR' := (zR_of Z + x_kR x) mod 2^256 in
  if is_identity (smulB P kL') then None
  else Some {| x_kL := kL'; x_kR := kR'; x_c := skipn 32 C |}.

(* public parent (paper V.C): only non-hardened children *)
Definition spec_ckd_pub (p : xpub) (i : N) : option xpub :=
  if hardened_threshold <=? i then None else
  let Z := hmac512 P (p_c p) (x02 :: enc_pt P (p_A p) ++ ser32 i) in
  let C := hmac512 P (p_c p) (x03 :: enc_pt P (p_A p) ++ ser32 i) in
  let A' := gadd P (p_A p) (smulB P (8 * zL_of Z)) in
  if is_identity A' then None
  else Some {| p_A := A'; p_c := skipn 32 C |}.

(* derivation along a list of indices *)
Fixpoint spec_path_priv (x : xprv) (l : list N) : option xprv :=
  match l with
  | [] => Some x
  | i :: r => match spec_ckd_priv x i with Some x' => spec_path_priv x' r | None => None end
  end.
Fixpoint spec_path_pub (p : xpub) (l : list N) : option xpub :=
  match l with
  | [] => Some p
  | i :: r => match spec_ckd_pub p i with Some p' => spec_path_pub p' r | None => None end
  end.

(* ---------- Ed25519 verification equation (RFC 8032 5.1.7, cofactorless as libsodium) ---------- *)
Definition hram (Renc Aenc msg : bytes) : N := unle (sha512 P (Renc ++ Aenc ++ msg)) mod ell.

Definition ed_verify (Aenc msg sig : bytes) : bool :=
  let Renc := firstn 32 sig in
  let S := unle (skipn 32 sig) in
  match dec_pt P Aenc, dec_pt P Renc with
  | Some A, Some R =>
      (length sig =? 64)%nat && (S <? ell) &&
      bytes_eqb (enc_pt P (smulB P S)) (enc_pt P (gadd P R (smul P (hram Renc Aenc msg) A)))
  | _, _ => false
  end.

End Spec.

Arguments p_A {P}. Arguments p_c {P}.
