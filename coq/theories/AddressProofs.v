(* AddressProofs.v — proofs about the model Address.v:
   var-int (CIP-19 pointer numbers) round trip + minimality for every N; header byte table;
   binary and text round trips; single-substitution rejection at the Address level. *)
From Coq Require Import NArith ZArith Ascii String List Bool Lia PeanoNat.
From Coq Require Import ZifyBool ZifyN ZifyNat.
From PyC Require Import Base Bech32 Bech32Proofs Address.
Import ListNotations.
Open Scope N_scope.
Ltac Zify.zify_post_hook ::= Z.to_euclidean_division_equations.

(* ================================================================= var-int *)
(* CIP-19 "variable-length positive number": base-128 digits, most significant first, every byte but the
   last has bit 7 set.  Specification side (independent of the code's loops): *)
Definition varint_shape (bs : list N) : Prop :=
  exists init last, bs = init ++ [last] /\ Forall (fun b => 128 <= b < 256) init /\ last < 128.
Definition varint_value (bs : list N) : N := fold_left (fun acc b => acc * 128 + b mod 128) bs 0.
Definition varint_minimal (bs : list N) : Prop := (1 < length bs)%nat -> hd 0 bs <> 128.   (* no leading 0x80 group *)

Definition val_from (c : N) (bs : list N) : N := fold_left (fun acc b => acc * 128 + b mod 128) bs c.
Definition value_lsb (hi : list N) : N := fold_right (fun b acc => b mod 128 + 128 * acc) 0 hi.

Lemma land_7F n : N.land n 0x7F = n mod 128.
Proof. change 0x7F with (N.ones 7). now rewrite N.land_ones. Qed.
Lemma lor_shift_small a c k : c < 2 ^ k -> N.lor (N.shiftl a k) c = a * 2 ^ k + c.
Proof.
  intros Hc. rewrite <- lxor_shiftl_add by assumption. symmetry. apply N.lxor_lor.
  apply N.bits_inj; intro n. rewrite N.land_spec, N.bits_0.
  destruct (N.lt_ge_cases n k) as [Hn|Hn].
  - now rewrite N.shiftl_spec_low.
  - rewrite (testbit_high c k n) by assumption. apply andb_false_r.
Qed.
Lemma lor_80 x : x < 128 -> N.lor 0x80 x = 128 + x.
Proof. intros H. change 0x80 with (N.shiftl 1 7). rewrite (lor_shift_small 1 x 7) by assumption. reflexivity. Qed.

Lemma enc_while_S f n out : enc_while (S f) n out =
  if 0 <? n then enc_while f (N.shiftr n 7) (out ++ [N.lor 0x80 (N.land n 0x7F)]) else Some out.
Proof. reflexivity. Qed.

Lemma enc_while_spec fuel : forall n out, n < 2 ^ N.of_nat fuel ->
  exists hi, enc_while (S fuel) n out = Some (out ++ hi)
    /\ Forall (fun b => 128 <= b < 256) hi /\ value_lsb hi = n /\ (hi <> [] -> last hi 0 <> 128).
Proof.
  induction fuel as [|fuel IH]; intros n out Hn.
  - assert (n = 0) by (cbn in Hn; lia). subst. exists []. cbn. rewrite app_nil_r. repeat split; [constructor | congruence].
  - rewrite enc_while_S. destruct (N.ltb_spec 0 n) as [Hpos|Hz].
    + rewrite land_7F, lor_80 by (apply N.mod_upper_bound; lia). rewrite N.shiftr_div_pow2.
      assert (Hq : n / 2 ^ 7 < 2 ^ N.of_nat fuel).
      { apply N.div_lt_upper_bound; [easy|]. rewrite Nnat.Nat2N.inj_succ, N.pow_succ_r' in Hn.
        change (2 ^ 7) with 128. lia. }
      destruct (IH (n / 2 ^ 7) (out ++ [128 + n mod 128]) Hq) as (hi & E & Hf & Hv & Hl).
      exists ((128 + n mod 128) :: hi).
      rewrite E, <- app_assoc. cbn [app]. repeat split.
      * constructor; [|assumption]. pose proof (N.mod_upper_bound n 128). lia.
      * cbn [value_lsb fold_right]. fold (value_lsb hi). rewrite Hv. change (2 ^ 7) with 128.
        pose proof (N.mod_upper_bound n 128). lia.
      * intros _. destruct hi as [|h hi']; [|].
        -- cbn [last]. cbn in Hv. change (2 ^ 7) with 128 in *. lia.
        -- change (last ((128 + n mod 128) :: h :: hi') 0) with (last (h :: hi') 0). apply Hl. discriminate.
    + assert (n = 0) by lia. subst. exists []. rewrite app_nil_r. repeat split; [constructor | congruence].
Qed.

Lemma value_lsb_rev hi c : val_from c (rev hi) = c * 128 ^ N.of_nat (length hi) + value_lsb hi.
Proof.
  revert c. induction hi as [|b hi IH]; intros c; cbn [rev length value_lsb fold_right].
  - cbn. lia.
  - unfold val_from in *. rewrite fold_left_app. cbn [fold_left]. rewrite IH. fold (value_lsb hi).
    rewrite Nnat.Nat2N.inj_succ, N.pow_succ_r'. lia.
Qed.

Theorem encode_int_spec n :
  exists bs, encode_int n = Some bs /\ varint_shape bs /\ varint_value bs = n /\ varint_minimal bs.
Proof.
  unfold encode_int.
  assert (Hq : N.shiftr n 7 < 2 ^ N.of_nat (N.to_nat (N.size n))).
  { rewrite N2Nat.id, N.shiftr_div_pow2. eapply N.le_lt_trans; [|apply N.size_gt].
    apply N.div_le_upper_bound; [easy|]. change (2 ^ 7) with 128. lia. }
  destruct (enc_while_spec _ _ [N.land n 0x7F] Hq) as (hi & E & Hf & Hv & Hl). rewrite E.
  eexists. split; [reflexivity|]. rewrite rev_app_distr. cbn [rev app]. rewrite land_7F.
  repeat split.
  - exists (rev hi), (n mod 128). repeat split; [|now apply N.mod_upper_bound].
    apply Forall_rev. exact Hf.
  - unfold varint_value. rewrite fold_left_app. cbn [fold_left]. fold (val_from 0 (rev hi)).
    rewrite value_lsb_rev, Hv, N.shiftr_div_pow2. change (2 ^ 7) with 128.
    rewrite N.mod_mod by lia. pose proof (N.mod_upper_bound n 128). lia.
  - intros Hlen. rewrite app_length, rev_length in Hlen. cbn in Hlen.
    destruct hi as [|h hi'] using rev_ind; [cbn in Hlen; lia|].
    rewrite rev_app_distr. cbn [rev app hd]. specialize (Hl ltac:(now destruct hi')).
    now rewrite last_last in Hl.
Qed.

(* the decoder loop consumes exactly one number per terminated group *)
Definition all256 : list N := map N.of_nat (seq 0 256).
Lemma in_all256 a : a < 256 -> In a all256.
Proof. intros H. unfold all256. apply in_map_iff. exists (N.to_nat a). split; [lia|]. apply in_seq. lia. Qed.
Lemma land_80_fin : forallb (fun b => Bool.eqb (N.land b 0x80 =? 0) (b <? 128)) all256 = true.
Proof. vm_compute. reflexivity. Qed.
Lemma land_80 b : b < 256 -> (N.land b 0x80 =? 0) = (b <? 128).
Proof.
  intros H. pose proof land_80_fin as F. rewrite forallb_forall in F. specialize (F b (in_all256 b H)).
  now apply Bool.eqb_prop in F.
Qed.

Lemma ptr_loop_group init : forall last rest ints c,
  Forall (fun b => 128 <= b < 256) init -> last < 128 ->
  ptr_loop (init ++ last :: rest) ints (c * 128) = ptr_loop rest (ints ++ [val_from c (init ++ [last])]) 0.
Proof.
  induction init as [|b init IH]; intros last rest ints c Hi Hl; cbn [app ptr_loop].
  - rewrite land_80 by lia. replace (last <? 128) with true by (symmetry; apply N.ltb_lt; lia).
    rewrite land_7F. change (c * 128) with (c * 2 ^ 7). rewrite <- N.shiftl_mul_pow2, lor_shift_small.
    2:{ change (2 ^ 7) with 128. apply N.mod_upper_bound. lia. }
    reflexivity.
  - inversion Hi as [|? ? Hb Hi']; subst. rewrite land_80 by lia.
    replace (b <? 128) with false by (symmetry; apply N.ltb_ge; lia).
    rewrite land_7F. change (c * 128) with (c * 2 ^ 7). rewrite <- N.shiftl_mul_pow2, lor_shift_small.
    2:{ change (2 ^ 7) with 128. apply N.mod_upper_bound. lia. }
    rewrite N.shiftl_mul_pow2. change (2 ^ 7) with 128. rewrite IH by assumption. reflexivity.
Qed.

Theorem ptr_loop_encode n : forall bs rest ints, encode_int n = Some bs ->
  ptr_loop (bs ++ rest) ints 0 = ptr_loop rest (ints ++ [n]) 0.
Proof.
  intros bs rest ints E. destruct (encode_int_spec n) as (bs' & E' & (init & last & -> & Hi & Hl) & Hv & _).
  rewrite E in E'. injection E' as ->. rewrite <- app_assoc. cbn [app].
  change 0 with (0 * 128) at 1. rewrite ptr_loop_group by assumption. now rewrite <- Hv.
Qed.

Lemma encode_int_bytes n bs : encode_int n = Some bs -> Forall (fun b => b < 256) bs.
Proof.
  intros E. destruct (encode_int_spec n) as (bs' & E' & (init & last & -> & Hi & Hl) & _).
  rewrite E in E'. injection E' as ->. apply Forall_app. split.
  - eapply Forall_impl; [|exact Hi]. cbn. lia.
  - constructor; [lia | constructor].
Qed.

Lemma map_b2n_n2b l : Forall (fun b => b < 256) l -> map b2n (map n2b l) = l.
Proof.
  induction 1 as [|x l Hx _ IH]; cbn [map]; [reflexivity|]. rewrite IH, b2n_n2b, N.mod_small by assumption. reflexivity.
Qed.
Lemma map_n2b_b2n (b : bytes) : map n2b (map b2n b) = b.
Proof. induction b as [|x b IH]; cbn [map]; [reflexivity|]. now rewrite IH, n2b_b2n. Qed.
Lemma map_b2n_bounded (b : bytes) : bounded 8 (map b2n b).
Proof. apply Forall_forall. intros v Hv. apply in_map_iff in Hv as (x & <- & _). apply b2n_lt. Qed.

Theorem pointer_roundtrip s x c :
  exists pb, pointer_encode s x c = Some pb /\ pointer_decode pb = Ok (SPtr s x c).
Proof.
  unfold pointer_encode.
  destruct (encode_int_spec s) as (a & Ea & _). destruct (encode_int_spec x) as (b & Eb & _).
  destruct (encode_int_spec c) as (d & Ed & _). rewrite Ea, Eb, Ed. eexists. split; [reflexivity|].
  unfold pointer_decode. rewrite map_b2n_n2b.
  2:{ repeat (apply Forall_app; split); eapply encode_int_bytes; eassumption. }
  rewrite (ptr_loop_encode s a _ _ Ea), (ptr_loop_encode x b _ _ Eb).
  rewrite <- (app_nil_r d), (ptr_loop_encode c d _ _ Ed). reflexivity.
Qed.

(* ================================================================= header byte, CIP-19 table *)
(* Specification side: the CIP-19 header nibble from the credential kinds *)
Definition is_script (c : cred) : N := match c with VKH _ => 0 | SH _ => 1 end.
Definition cip19_nibble (p : option cred) (s : option staking) : option N :=
  match p, s with
  | Some pc, Some (SCred sc) => Some (2 * is_script sc + is_script pc)        (* base     0b00xy *)
  | Some pc, Some (SPtr _ _ _) => Some (4 + is_script pc)                    (* pointer  0b010y *)
  | Some pc, None => Some (6 + is_script pc)                                 (* enterprise 0b011y *)
  | None, Some (SCred sc) => Some (14 + is_script sc)                        (* reward   0b111x *)
  | None, _ => None
  end.
Definition cip5_hrp (p : option cred) (n : network) : str :=
  codes (match p with None => "stake" | Some _ => "addr" end) ++ codes (match n with MAINNET => "" | TESTNET => "_test" end).

Lemma header_of_spec t n : header_of t n = 16 * type_value t + net_value n /\ header_of t n < 256.
Proof. destruct t, n; split; reflexivity. Qed.

Lemma infer_type_cip19 p s t : infer_type p s = Ok t ->
  cip19_nibble p s = Some (type_value t) /\ (forall n, hrp_of t n = cip5_hrp p n) /\ t <> BYRON.
Proof.
  destruct p as [[?|?]|], s as [[[?|?]|? ? ?]|]; cbn; intros H; try discriminate; injection H as <-;
    repeat split; try discriminate; intros []; reflexivity.
Qed.

Lemma header_decode t n :
  type_of_value (N.shiftr (N.land (b2n (n2b (header_of t n))) 0xF0) 4) = Ok t
  /\ network_of_value (N.land (b2n (n2b (header_of t n))) 0x0F) = Ok n.
Proof. destruct t, n; split; reflexivity. Qed.

(* ================================================================= well-formed addresses *)
Definition cred_wf (c : cred) : Prop := length (cred_bytes c) = HASH_SIZE.
Definition wf_addr (a : address) : Prop :=
  (exists t, infer_type (pay a) (stk a) = Ok t)
  /\ match pay a with Some c => cred_wf c | None => True end
  /\ match stk a with Some (SCred c) => cred_wf c | _ => True end.

Definition stake_bytes_spec (s : option staking) (pb : bytes) : Prop :=
  match s with
  | None => pb = []
  | Some (SCred c) => pb = cred_bytes c
  | Some (SPtr a b c) => exists x y z, encode_int a = Some x /\ encode_int b = Some y /\ encode_int c = Some z
                                       /\ pb = map n2b (x ++ y ++ z)
  end.

(* binary form = header byte (CIP-19 nibble * 16 + network) ++ payment credential ++ staking part *)
Theorem addr_bytes_spec a : wf_addr a ->
  exists nib sb, cip19_nibble (pay a) (stk a) = Some nib
    /\ addr_bytes a = Ok (n2b (16 * nib + net_value (net a))
                          :: match pay a with Some c => cred_bytes c | None => [] end ++ sb)
    /\ stake_bytes_spec (stk a) sb.
Proof.
  intros [[t Ht] _]. destruct (infer_type_cip19 _ _ _ Ht) as (Hn & _ & _).
  unfold addr_bytes. rewrite Ht. cbn [bind]. rewrite (proj1 (header_of_spec t (net a))).
  exists (type_value t). destruct (stk a) as [[c|s x c]|].
  - eexists. split; [assumption | split; reflexivity].
  - destruct (pointer_roundtrip s x c) as (pb & E & _). rewrite E. exists pb. split; [assumption | split; [reflexivity|]].
    unfold pointer_encode in E. cbn [stake_bytes_spec].
    destruct (encode_int s) as [a1|], (encode_int x) as [a2|], (encode_int c) as [a3|]; try discriminate.
    injection E as <-. now exists a1, a2, a3.
  - eexists. split; [assumption | split; reflexivity].
Qed.

Lemma firstn_app_exact {A} (a b : list A) n : length a = n -> firstn n (a ++ b) = a.
Proof. intros <-. rewrite firstn_app, Nat.sub_diag, firstn_all. cbn. apply app_nil_r. Qed.
Lemma skipn_app_exact {A} (a b : list A) n : length a = n -> skipn n (a ++ b) = b.
Proof. intros <-. rewrite skipn_app, Nat.sub_diag, skipn_all. reflexivity. Qed.

(* decode (encode a) = a, credential kinds included (VKH / SH / SPtr are distinct constructors) *)
Theorem from_bytes_addr_bytes a : wf_addr a -> exists b, addr_bytes a = Ok b /\ from_bytes b = Ok a.
Proof.
  intros [[t Ht] [Hp Hs]]. unfold addr_bytes. rewrite Ht. cbn [bind].
  destruct a as [p s n]. cbn [pay stk net] in *.
  destruct p as [[pb|pb]|], s as [[[sb|sb]|s1 s2 s3]|]; cbn in Ht; try discriminate; injection Ht as <-;
    unfold cred_wf in *; cbn [cred_bytes] in *;
    try (destruct (pointer_roundtrip s1 s2 s3) as (ptr & Eptr & Dptr); rewrite Eptr);
    (eexists; split; [reflexivity|]); unfold from_bytes;
    match goal with |- context [header_of ?t ?n] => destruct (header_decode t n) as [-> ->] end; cbn [bind];
    rewrite ?firstn_app_exact, ?skipn_app_exact, ?app_nil_r by assumption;
    unfold mk_vkh, mk_sh; cbn [app]; rewrite ?Hp, ?Hs, ?Dptr, ?Nat.eqb_refl; reflexivity.
Qed.

(* ================================================================= text form *)
Lemma hrp_of_valid t n : hrp_valid (hrp_of t n).
Proof. destruct t, n; (split; [discriminate | repeat constructor]). Qed.

Lemma charset_get_length ds : forall s, charset_get ds = Some s -> length s = length ds.
Proof.
  induction ds as [|d ds IH]; intros s H; cbn [charset_get] in H.
  - now injection H as <-.
  - destruct (nth_error CHARSET (N.to_nat d)); [|discriminate]. destruct (charset_get ds) as [s'|]; [|discriminate].
    injection H as <-. cbn. now rewrite (IH s').
Qed.
Lemma bech32_encode_length hrp d spec s : bech32_encode hrp d spec = Some s ->
  length s = (length hrp + 7 + length d)%nat.
Proof.
  unfold bech32_encode. destruct (charset_get _) as [cs|] eqn:E; [|discriminate]. intros H. injection H as <-.
  apply charset_get_length in E. rewrite app_length in E. rewrite create_checksum_length in E.
  rewrite !app_length. cbn [length]. lia.
Qed.
Lemma bech32_encode_total hrp d spec : data_ok d -> exists s, bech32_encode hrp d spec = Some s.
Proof.
  intros Hd. unfold bech32_encode.
  assert (Hall : data_ok (d ++ create_checksum hrp d spec)).
  { apply Forall_app. split; [assumption | apply create_checksum_lt]. }
  destruct (charset_get_ok _ Hall) as (chars & E & _). rewrite E. eexists. reflexivity.
Qed.

Lemma addr_bytes_length a b : wf_addr a -> addr_bytes a = Ok b -> (29 <= length b)%nat.
Proof.
  intros [[t Ht] [Hp Hs]]. unfold addr_bytes. rewrite Ht. cbn [bind].
  destruct a as [p s n]. cbn [pay stk net] in *.
  destruct p as [pc|].
  - unfold cred_wf in Hp. destruct s as [[c|s1 s2 s3]|]; [| destruct (pointer_encode s1 s2 s3) |];
      intros H; try discriminate; injection H as <-; cbn [length]; rewrite app_length, Hp; unfold HASH_SIZE; lia.
  - destruct s as [[c|s1 s2 s3]|]; try (destruct pc; discriminate); cbn in Ht; try discriminate.
    unfold cred_wf in Hs. intros H. injection H as <-. cbn [length app]. rewrite Hs. unfold HASH_SIZE. lia.
Qed.

(* text form: Bech32 (constant 1) of the binary form under the CIP-5 prefix; within the 108-character
   limit of the decoder it decodes back to the same address; beyond it Address.encode() returns None *)
Theorem addr_text_spec a : wf_addr a ->
  exists b d5, addr_bytes a = Ok b /\ convertbits (map b2n b) 8 5 true = Some d5
    /\ length d5 = ((8 * length b + 4) / 5)%nat
    /\ let hrp := cip5_hrp (pay a) (net a) in
       if (length hrp + 7 + length d5 <=? MAXLEN)%nat
       then exists s, bech32_encode hrp d5 None = Some s /\ addr_text a = Ok (Some s) /\ from_text s = Ok a
       else addr_text a = Ok None.
Proof.
  intros Hwf. destruct (from_bytes_addr_bytes a Hwf) as (b & Eb & Db).
  pose proof (addr_bytes_length a b Hwf Eb) as Hlen29.
  destruct (convertbits_roundtrip (map b2n b) (map_b2n_bounded b)) as (d5 & Ed & Hd & Rd).
  pose proof (convertbits_pad_length _ _ (map_b2n_bounded b) Ed) as Hl5. rewrite map_length in Hl5.
  exists b, d5. repeat split; try assumption.
  destruct Hwf as [[t Ht] _]. destruct (infer_type_cip19 _ _ _ Ht) as (_ & Hhrp & _).
  cbv zeta. rewrite <- Hhrp.
  assert (Hdok : data_ok d5) by exact Hd.
  unfold addr_text. rewrite Ht, Eb. cbn [bind]. unfold segwit_encode. rewrite Ed.
  destruct (Nat.leb_spec (length (hrp_of t (net a)) + 7 + length d5) MAXLEN) as [Hle|Hgt].
  - destruct (decode_encode (hrp_of t (net a)) d5 None (hrp_of_valid _ _) Hdok Hle) as (s & Es & Ds).
    exists s. rewrite Es, Ds. repeat split.
    unfold from_text, segwit_decode. rewrite Ds, Rd. rewrite map_length.
    replace (Nat.ltb (length b) 2) with false by (symmetry; apply Nat.ltb_ge; lia).
    replace (Nat.ltb 108 (length b)) with false by (symmetry; apply Nat.ltb_ge; unfold MAXLEN in *; lia).
    cbn [orb]. now rewrite map_n2b_b2n.
  - destruct (bech32_encode_total (hrp_of t (net a)) d5 None Hdok) as (s & Es). rewrite Es.
    destruct (bech32_decode s) as [r|] eqn:Ds; [|reflexivity].
    apply decode_Some_facts in Ds. apply bech32_encode_length in Es. lia.
Qed.

(* ================================================================= corrupted text is rejected *)
Theorem from_text_single_subst s a p i c :
  from_text s = Ok a -> rfind 49 s = Some p -> (p < i < length s)%nat -> c <> 49 -> c <> nth i s 0 ->
  from_text (subst i c s) = Err EType
  \/ (lowerc c = lowerc (nth i s 0) /\ from_text (subst i c s) = Ok a).
Proof.
  intros H Hp Hi Hc Hne. unfold from_text, segwit_decode in *.
  destruct (bech32_decode s) as [r|] eqn:D; [|discriminate].
  destruct (single_subst s r p i c D Hp Hi Hc Hne) as [-> | [Hl ->]]; [now left | right]. now split.
Qed.

(* ... at every position; the only exclusions are the substitutions that move the separator *)
Theorem from_text_single_subst_any s a p i c :
  from_text s = Ok a -> rfind 49 s = Some p -> (i < length s)%nat -> c <> nth i s 0 ->
  ((p < i)%nat -> c <> 49) -> (i = p -> ~ In 49 (firstn p s)) ->
  from_text (subst i c s) = Err EType
  \/ (lowerc c = lowerc (nth i s 0) /\ from_text (subst i c s) = Ok a).
Proof.
  intros H Hp Hi Hne Hc Hsep. unfold from_text, segwit_decode in *.
  destruct (bech32_decode s) as [r|] eqn:D; [|discriminate].
  destruct (single_subst_any s r p i c D Hp Hi Hne Hc Hsep) as [-> | [Hl ->]]; [now left | right]. now split.
Qed.

(* the decoder never accepts more than 108 characters *)
Lemma from_text_length s a : from_text s = Ok a -> (length s <= MAXLEN)%nat.
Proof.
  unfold from_text, segwit_decode. destruct (bech32_decode s) as [r|] eqn:D; [|discriminate].
  intros _. now apply decode_Some_facts in D.
Qed.

(* ================================================================= the 108-character limit *)
Definition zeros28 : bytes := repeat Byte.x00 28.
(* faithful model: Address.encode() RETURNS None for a well-formed testnet pointer address whose three
   pointer numbers are 2^63, 2^63, 2^56 (text form would have 109 characters) *)
Lemma addr_text_over_limit_witness :
  let a := mkAddr (Some (VKH zeros28)) (Some (SPtr (2 ^ 63) (2 ^ 63) (2 ^ 56))) TESTNET in
  wf_addr a /\ addr_text a = Ok None.
Proof. split; [repeat split; eexists; reflexivity | vm_compute; reflexivity]. Qed.

(* non-vacuity of the premises used above *)
Example wf_addr_example : wf_addr (mkAddr (Some (SH zeros28)) (Some (SPtr 0 127 128)) MAINNET).
Proof. repeat split. eexists. reflexivity. Qed.
Example from_text_example :
  exists a, from_text (codes "addr1v8xrqjtlfluk9axpmjj5enh0uw0cduwhz7txsqyl36m3ukgqdsn8w") = Ok a /\ wf_addr a.
Proof. eexists. split; [vm_compute; reflexivity | repeat split; eexists; reflexivity]. Qed.

(* ================================================================= packaging for props/C15.v *)
Theorem varint_full n :
  exists bs, encode_int n = Some bs /\ varint_shape bs /\ varint_value bs = n /\ varint_minimal bs
    /\ forall rest ints, ptr_loop (bs ++ rest) ints 0 = ptr_loop rest (ints ++ [n]) 0.
Proof.
  destruct (encode_int_spec n) as (bs & E & Hs & Hv & Hm). exists bs. repeat split; try assumption.
  intros rest ints. now apply ptr_loop_encode.
Qed.

Theorem from_text_addr_text a s : wf_addr a -> addr_text a = Ok (Some s) ->
  from_text s = Ok a /\ (length s <= MAXLEN)%nat.
Proof.
  intros Hwf E. destruct (addr_text_spec a Hwf) as (b & d5 & _ & _ & _ & H). cbv zeta in H.
  destruct (Nat.leb _ MAXLEN).
  - destruct H as (s' & _ & E' & D). rewrite E in E'. injection E' as <-. split; [assumption|].
    now apply from_text_length in D.
  - rewrite E in H. discriminate.
Qed.

(* ---------- length of a pointer number; the text form always exists below 2^63 ---------- *)
Lemma val_from_lower l : forall c, c * 128 ^ N.of_nat (length l) <= val_from c l.
Proof.
  induction l as [|b l IH]; intros c; cbn [length val_from fold_left].
  - cbn. lia.
  - fold (val_from (c * 128 + b mod 128) l). specialize (IH (c * 128 + b mod 128)).
    rewrite Nnat.Nat2N.inj_succ, N.pow_succ_r'. nia.
Qed.

Lemma encode_int_length n bs k : encode_int n = Some bs -> (1 <= k)%nat -> n < 128 ^ N.of_nat k -> (length bs <= k)%nat.
Proof.
  intros E Hk Hn. destruct (encode_int_spec n) as (bs' & E' & (init & last & -> & Hi & Hl) & Hv & Hm).
  rewrite E in E'. injection E' as ->.
  destruct init as [|b0 init]; [cbn; lia|].
  unfold varint_minimal in Hm. cbn [app length hd] in Hm. rewrite app_length in Hm. cbn [length] in Hm.
  specialize (Hm ltac:(lia)). apply Forall_cons_iff in Hi as [Hb0 _].
  unfold varint_value in Hv. cbn [app fold_left] in Hv. fold (val_from (0 * 128 + b0 mod 128) (init ++ [last])) in Hv.
  pose proof (val_from_lower (init ++ [last]) (0 * 128 + b0 mod 128)) as Hlow. rewrite Hv in Hlow.
  assert (H1 : 1 <= 0 * 128 + b0 mod 128) by lia.
  assert (Hp : 128 ^ N.of_nat (length (init ++ [last])) < 128 ^ N.of_nat k) by nia.
  apply N.pow_lt_mono_r_iff in Hp; [|lia]. cbn [app length]. lia.
Qed.

Definition ptr_small (a : address) : Prop :=
  match stk a with Some (SPtr s x c) => s < 2 ^ 63 /\ x < 2 ^ 63 /\ c < 2 ^ 63 | _ => True end.

Lemma addr_bytes_upper a b : wf_addr a -> ptr_small a -> addr_bytes a = Ok b ->
  (length b <= 57)%nat /\ (pay a = None -> length b = 29%nat).
Proof.
  intros [[t Ht] [Hp Hs]] Hsm. unfold addr_bytes. rewrite Ht. cbn [bind].
  destruct a as [p s n]. cbn [pay stk net] in *. unfold ptr_small in Hsm. cbn [stk] in Hsm. unfold cred_wf, HASH_SIZE in *.
  destruct p as [pc|].
  - destruct s as [[c|s1 s2 s3]|].
    + intros H. injection H as <-. cbn [length]. rewrite app_length, Hp, Hs. split; [lia | discriminate].
    + unfold pointer_encode.
      destruct (encode_int s1) as [e1|] eqn:E1; [|discriminate]. destruct (encode_int s2) as [e2|] eqn:E2; [|discriminate].
      destruct (encode_int s3) as [e3|] eqn:E3; [|discriminate]. intros H. injection H as <-.
      destruct Hsm as (B1 & B2 & B3). change (2 ^ 63) with (128 ^ N.of_nat 9) in *.
      pose proof (encode_int_length _ _ 9 E1 ltac:(lia) B1). pose proof (encode_int_length _ _ 9 E2 ltac:(lia) B2).
      pose proof (encode_int_length _ _ 9 E3 ltac:(lia) B3).
      cbn [length]. rewrite app_length, map_length, !app_length, Hp. split; [lia | discriminate].
    + intros H. injection H as <-. cbn [length]. rewrite app_length, Hp. cbn [length]. split; [lia | discriminate].
  - destruct s as [[c|s1 s2 s3]|]; cbn in Ht; try discriminate.
    intros H. injection H as <-. cbn [length app]. rewrite Hs. split; [lia | reflexivity].
Qed.

Lemma cip5_hrp_length p n : (length (cip5_hrp p n) <= match p with Some _ => 9 | None => 10 end)%nat.
Proof. destruct p, n; cbn; lia. Qed.

(* every well-formed address whose pointer numbers are below 2^63 has a text form, and it decodes back *)
Theorem addr_text_total a : wf_addr a -> ptr_small a ->
  exists s, addr_text a = Ok (Some s) /\ from_text s = Ok a /\ (length s <= MAXLEN)%nat.
Proof.
  intros Hwf Hsm. destruct (addr_text_spec a Hwf) as (b & d5 & Eb & _ & Hl & H). cbv zeta in H.
  destruct (addr_bytes_upper a b Hwf Hsm Eb) as [Hu Hn].
  pose proof (cip5_hrp_length (pay a) (net a)) as Hh.
  assert (Hle : (length (cip5_hrp (pay a) (net a)) + 7 + length d5 <= MAXLEN)%nat).
  { rewrite Hl. unfold MAXLEN. destruct (pay a) as [pc|].
    - assert ((8 * length b + 4) / 5 <= 92)%nat by (apply Nat.div_le_upper_bound; lia). lia.
    - rewrite (Hn eq_refl). change ((8 * 29 + 4) / 5)%nat with 47%nat. lia. }
  apply Nat.leb_le in Hle. rewrite Hle in H. destruct H as (s & _ & E & D).
  exists s. repeat split; try assumption. now apply from_text_length in D.
Qed.

(* ... but NOT every well-formed address with pointer numbers up to 2^63 (the property's own range) *)
Lemma addr_text_over_limit_refuted :
  exists a, wf_addr a /\ net a = TESTNET
    /\ match stk a with Some (SPtr s x c) => s <= 2 ^ 63 /\ x <= 2 ^ 63 /\ c <= 2 ^ 63 | _ => False end
    /\ addr_text a = Ok None.
Proof.
  exists (mkAddr (Some (VKH zeros28)) (Some (SPtr (2 ^ 63) (2 ^ 63) (2 ^ 56))) TESTNET).
  split; [repeat split; eexists; reflexivity|]. split; [reflexivity|].
  split; [cbn [stk]; repeat split; vm_compute; discriminate | vm_compute; reflexivity].
Qed.

Example addr_text_total_nonvacuous :
  let a := mkAddr (Some (VKH zeros28)) (Some (SPtr (2 ^ 63 - 1) (2 ^ 63 - 1) (2 ^ 63 - 1))) TESTNET in
  wf_addr a /\ ptr_small a.
Proof. split; [repeat split; eexists; reflexivity | cbn; repeat split; reflexivity]. Qed.
