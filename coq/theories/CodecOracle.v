(* CodecOracle.v — glue for the C01/C02/C03 cases files. *)
From Coq Require Import NArith ZArith Ascii String List Bool.
From PyC Require Import Base Cbor Value Codec CodecSites.
Import ListNotations.

Definition prim_of (bs : bytes) : cbor := match decode bs with Some p => p | None => CS 23 end.

Definition res_bytes_eqb (r : res bytes) (bs : bytes) : bool :=
  match r with Ok b => bytes_eqb b bs | _ => false end.

(* model of encode: value tree -> bytes *)
Definition c01_enc_ok (S : schema) (v : pv) (bs : bytes) : bool := res_bytes_eqb (to_cbor S v) bs.

(* model of decode + re-encode: bytes -> object -> bytes *)
Definition c01_rt_ok (S : schema) (c : string) (bs : bytes) : bool :=
  match from_cbor S c bs with
  | Ok v' => res_bytes_eqb (to_cbor S v') bs
  | _ => false
  end.

Definition err_class {A} (r : res A) : N :=
  match r with Ok _ => 0 | EDeser => 1 | EOther _ => 2 | EFuel => 3 end%N.

(* bytes -> object: the restored tree is the original tree (as Python's == sees it) and re-encodes to the bytes *)
Definition c01_rt_exact (S : schema) (c : string) (v : pv) (bs : bytes) : bool :=
  match from_cbor S c bs with
  | Ok v' => pv_eqb v' v && res_bytes_eqb (to_cbor S v') bs
  | _ => false
  end.

(* ---------- C03: decode a whole transaction, re-encode its body, compare with the received slice ---------- *)
Definition body_of (v : pv) : option pv := match v with VObj _ (b :: _) => Some b | _ => None end.
Definition c03_model_ok (S : schema) (tx : bytes) (body : bytes) : bool :=
  match from_cbor S "Transaction" tx with
  | Ok v => match body_of v with
            | Some b => res_bytes_eqb (to_cbor S b) body
            | None => false
            end
  | _ => false
  end.
(* the slice really is the first element of the outer array (checked with the proved decoder) *)
Definition c03_slice_ok (tx : bytes) (body : bytes) : bool :=
  match decode3 tx with
  | Some (CA (pb :: _)) => bytes_eqb (enc pb) body
  | _ => false
  end.
