(* CollateralProofs.v — C13: what the model of _set_collateral_return (Collateral.v) guarantees, for ALL
   candidate lists, values and parameters, measured against the ledger rule collateral_ok. *)
From Coq Require Import NArith ZArith Ascii String List Bool Lia.
From Coq Require Import ZifyBool ZifyN ZifyNat.
From PyC Require Import Base Cbor Dict Value ValueProofs Collateral.
Import ListNotations.
Open Scope Z_scope.

(* ====================================================================== *)
(* identities                                                             *)
(* ====================================================================== *)
Definition cid (c : cand) : bytes * N := (c_txid c, c_ix c).

Lemma id_eqb_spec a b : id_eqb a b = true <-> cid a = cid b.
Proof.
  unfold id_eqb, cid. rewrite andb_true_iff, bytes_eqb_eq, N.eqb_eq.
  split; [intros [-> ->]; reflexivity | intros H; inversion H; auto].
Qed.
Lemma id_eqb_refl a : id_eqb a a = true.
Proof. now apply id_eqb_spec. Qed.
Lemma id_eqb_sym a b : id_eqb a b = id_eqb b a.
Proof.
  destruct (id_eqb a b) eqn:E, (id_eqb b a) eqn:F; try reflexivity.
  - apply id_eqb_spec in E. symmetry in E. apply id_eqb_spec in E. congruence.
  - apply id_eqb_spec in F. symmetry in F. apply id_eqb_spec in F. congruence.
Qed.

Lemma existsb_id_false c l : existsb (id_eqb c) l = false <-> ~ In (cid c) (map cid l).
Proof.
  induction l as [|h r IH]; cbn; [intuition|].
  rewrite orb_false_iff, IH. split.
  - intros [H1 H2] [E|I]; [|contradiction]. symmetry in E. apply id_eqb_spec in E. congruence.
  - intros H. split; [|intros I; apply H; now right].
    destruct (id_eqb c h) eqn:E; [|reflexivity]. apply id_eqb_spec in E. exfalso. apply H. now left.
Qed.
Lemma existsb_id_true c l : existsb (id_eqb c) l = true <-> In (cid c) (map cid l).
Proof.
  destruct (existsb (id_eqb c) l) eqn:E.
  - split; [intros _|reflexivity]. destruct (in_dec (fun x y : bytes * N => ltac:(decide equality; [apply N.eq_dec | apply bytes_eq_dec])) (cid c) (map cid l)) as [I|I]; [exact I|].
    apply existsb_id_false in I. congruence.
  - apply existsb_id_false in E. split; [discriminate | contradiction].
Qed.

Lemma nodup_ids_spec l : nodup_ids l = true <-> NoDup (map cid l).
Proof.
  induction l as [|c r IH]; cbn.
  - split; [constructor | reflexivity].
  - rewrite andb_true_iff, negb_true_iff, existsb_id_false, IH. split.
    + intros [H1 H2]. now constructor.
    + intros H. inversion H; subst. auto.
Qed.

Lemma NoDup_app_snoc {A} (l : list A) x : NoDup l -> ~ In x l -> NoDup (l ++ [x]).
Proof.
  induction 1 as [|y l Ny ND IH]; cbn; intros N.
  - constructor; [intros []|constructor].
  - constructor.
    + intros I. apply in_app_iff in I as [I|[E|[]]]; [contradiction | subst; apply N; now left].
    + apply IH. intros I. apply N. now right.
Qed.

(* de-duplication: result is duplicate-free, a sub-list, avoids `seen`, and keeps every identity *)
Lemma dedup_spec l : forall seen,
  (forall x, In x (dedup_ids l seen) -> In x l /\ ~ In (cid x) (map cid seen))
  /\ NoDup (map cid (dedup_ids l seen))
  /\ (forall x, In x l -> In (cid x) (map cid seen) \/ In (cid x) (map cid (dedup_ids l seen))).
Proof.
  induction l as [|c r IH]; intros seen; cbn.
  - split; [intros x []|]. split; [constructor | intros x []].
  - destruct (existsb (id_eqb c) seen) eqn:E.
    + destruct (IH seen) as (A & B & D). split; [|split].
      * intros x I. destruct (A x I). auto.
      * exact B.
      * intros x [<-|I]; [left; now apply existsb_id_true | now apply D].
    + destruct (IH (c :: seen)) as (A & B & D). apply existsb_id_false in E. split; [|split].
      * intros x [<-|I]; [split; [now left | exact E]|].
        destruct (A x I) as [I1 N1]. split; [now right|]. intros X. apply N1. cbn. now right.
      * cbn. constructor; [|exact B]. intros I. apply in_map_iff in I as (y & Ey & Iy).
        destruct (A y Iy) as [_ N1]. apply N1. cbn. left. now rewrite Ey.
      * intros x [<-|I]; [right; cbn; now left|]. destruct (D x I) as [[X|X]|X]; cbn; auto.
Qed.

Lemma dedup_nodup_id l : NoDup (map cid l) -> forall seen, (forall x, In x l -> ~ In (cid x) (map cid seen)) -> dedup_ids l seen = l.
Proof.
  induction l as [|c r IH]; intros ND seen H; cbn; [reflexivity|].
  cbn in ND. inversion ND as [|? ? N1 N2]; subst.
  assert (E : existsb (id_eqb c) seen = false) by (apply existsb_id_false, H; now left).
  rewrite E. f_equal. apply IH; [exact N2|].
  intros x I [X|X]; [|apply (H x); [now right | exact X]].
  apply N1. rewrite X. now apply in_map.
Qed.

(* ====================================================================== *)
(* sums                                                                   *)
(* ====================================================================== *)
Definition coins (l : list cand) : Z := Zsum (map (fun c => coin (c_val c)) l).
Definition contents (l : list cand) (p n : bytes) : Z := Zsum (map (fun c => content (massets (c_val c)) p n) l).
Definition wfc (l : list cand) : Prop := Forall (fun c => wfv (c_val c)) l.
Definition nonneg (l : list cand) : Prop := Forall (fun c => forall p n, 0 <= content (massets (c_val c)) p n) l.

Lemma coins_cons c l : coins (c :: l) = coin (c_val c) + coins l.
Proof. reflexivity. Qed.
Lemma contents_cons c l p n : contents (c :: l) p n = content (massets (c_val c)) p n + contents l p n.
Proof. reflexivity. Qed.
Lemma coins_nil : coins [] = 0. Proof. reflexivity. Qed.
Lemma contents_nil p n : contents [] p n = 0. Proof. reflexivity. Qed.

Lemma wfv_vint z : wfv (vint z).
Proof. split; [apply wfd_nil | constructor]. Qed.
Lemma content_vint z p n : content (massets (vint z)) p n = 0.
Proof. reflexivity. Qed.

Lemma fold_vadd_spec l : forall acc, wfv acc -> wfc l ->
  let r := fold_left (fun a c => v_add a (c_val c)) l acc in
  coin r = coin acc + coins l
  /\ (forall p n, content (massets r) p n = content (massets acc) p n + contents l p n)
  /\ wfv r.
Proof.
  induction l as [|c l IH]; intros acc Wa Wl; cbn [fold_left].
  - split; [rewrite coins_nil; lia|]. split; [intros; rewrite contents_nil; lia | exact Wa].
  - inversion Wl as [|? ? Wc Wr]; subst.
    destruct (v_add_spec acc (c_val c) Wa Wc) as (C1 & M1 & _ & W1).
    destruct (IH (v_add acc (c_val c)) W1 Wr) as (C2 & M2 & W2).
    split; [|split].
    + rewrite C2, C1, coins_cons. lia.
    + intros p n. rewrite M2, M1, contents_cons. lia.
    + exact W2.
Qed.

Lemma coin_fold_vadd l : forall acc, coin (fold_left (fun a c => v_add a (c_val c)) l acc) = coin acc + coins l.
Proof.
  induction l as [|c l IH]; intros acc; cbn [fold_left]; [rewrite coins_nil; lia|].
  rewrite IH, coins_cons. cbn [v_add coin]. lia.
Qed.

Lemma vsum_spec l : wfc l ->
  coin (vsum l) = coins l /\ (forall p n, content (massets (vsum l)) p n = contents l p n) /\ wfv (vsum l).
Proof.
  intros W. destruct (fold_vadd_spec l (vint 0) (wfv_vint 0) W) as (A & B & D). split; [|split].
  - exact A.
  - intros p n. unfold vsum. rewrite (B p n). now rewrite content_vint.
  - exact D.
Qed.
Lemma coin_vsum l : coin (vsum l) = coins l.
Proof. unfold vsum. rewrite coin_fold_vadd. reflexivity. Qed.

Lemma vsum_snoc l c : vsum (l ++ [c]) = v_add (vsum l) (c_val c).
Proof. unfold vsum. now rewrite fold_left_app. Qed.

Lemma coins_app a b : coins (a ++ b) = coins a + coins b.
Proof. induction a as [|c a IH]; [reflexivity|]. cbn [app]. rewrite !coins_cons, IH. lia. Qed.

Lemma contents_nonneg l p n : nonneg l -> 0 <= contents l p n.
Proof.
  induction 1 as [|c l H _ IH]; [rewrite contents_nil; lia|]. rewrite contents_cons. specialize (H p n). lia.
Qed.

Lemma wfc_incl a b : (forall x, In x a -> In x b) -> wfc b -> wfc a.
Proof. unfold wfc. rewrite !Forall_forall. auto. Qed.
Lemma nonneg_incl a b : (forall x, In x a -> In x b) -> nonneg b -> nonneg a.
Proof. unfold nonneg. rewrite !Forall_forall. auto. Qed.

(* no positive asset counted  ->  no positive content anywhere *)
Lemma Zsum_nonneg l : Forall (fun x => 0 <= x) l -> 0 <= Zsum l.
Proof. induction 1 as [|x l H _ IH]; [cbn; lia|]. change (Zsum (x :: l)) with (x + Zsum l). lia. Qed.
Lemma Zsum_nonneg_zero l : Forall (fun x => 0 <= x) l -> Zsum l <= 0 -> Forall (fun x => x = 0) l.
Proof.
  induction 1 as [|x l H Hl IH]; intros S; constructor; change (Zsum (x :: l)) with (x + Zsum l) in S;
    pose proof (Zsum_nonneg l Hl).
  - lia.
  - apply IH. lia.
Qed.

Lemma positive_assets_none m : positive_assets m <= 0 -> forall p n, content m p n <= 0.
Proof.
  unfold positive_assets, m_count. intros H p n.
  apply Zsum_nonneg_zero in H; [|apply Forall_forall; intros x I; apply in_map_iff in I as (kv & <- & _); lia].
  unfold content, mget. destruct (dget m p) as [a|] eqn:G; [|cbn; lia].
  apply dget_In in G. rewrite Forall_forall in H.
  specialize (H _ (in_map _ _ _ G)). cbn in H.
  unfold aget. destruct (dget a n) as [q|] eqn:Q; [|lia].
  apply dget_In in Q.
  destruct (0 <? q) eqn:Pq; [|lia].
  assert (I : In (n, q) (filter (fun nq : bytes * Z => 0 <? snd nq) a)) by (apply filter_In; split; [exact Q | exact Pq]).
  destruct (filter (fun nq : bytes * Z => 0 <? snd nq) a); [contradiction | cbn in H; lia].
Qed.

(* ====================================================================== *)
(* arithmetic of the collateral amount                                    *)
(* ====================================================================== *)
(* the ceiling: 100 * amount covers percent * (max_tx_fee + fee_buffer), and not a lovelace more than needed *)
Lemma amount_ceiling P :
  p_percent P * (p_max_fee P + p_fee_buffer P) <= 100 * collateral_amount P
  /\ 100 * collateral_amount P < p_percent P * (p_max_fee P + p_fee_buffer P) + 100.
Proof.
  unfold collateral_amount.
  set (x := - (p_max_fee P + p_fee_buffer P) * p_percent P).
  pose proof (Z.div_mod x 100 ltac:(lia)) as E. pose proof (Z.mod_pos_bound x 100 ltac:(lia)) as B.
  assert (X : x = - (p_percent P * (p_max_fee P + p_fee_buffer P))) by (unfold x; ring).
  lia.
Qed.

Lemma amount_adequate P fee : 0 <= p_percent P -> fee <= p_max_fee P + p_fee_buffer P ->
  p_percent P * fee <= 100 * collateral_amount P.
Proof.
  intros Hp Hf. destruct (amount_ceiling P) as [A _].
  pose proof (Z.mul_le_mono_nonneg_l _ _ _ Hp Hf). lia.
Qed.

(* ====================================================================== *)
(* the selection loop                                                      *)
(* ====================================================================== *)
Section Loop.
  Variable minl : value -> Z.
  Variable P : cparams.

  Definition good (c : cand) : Prop := script_name (c_type c) = false /\ 2000000 < coin (c_val c).

  (* invariant of the state (self.collaterals, tmp_val) *)
  Record inv (pool : list cand) (st : list cand * value) : Prop := {
    inv_total : snd st = vsum (fst st);
    inv_nodup : NoDup (map cid (fst st));
    inv_good : Forall good (fst st);
    inv_pool : forall x, In x (fst st) -> In x pool;
    inv_len : Z.of_nat (length (fst st)) <= Z.max 0 (p_max_inputs P)
  }.

  Lemma eligible_spec colls c : eligible colls c = true <-> ~ In (cid c) (map cid colls) /\ good c.
  Proof.
    unfold eligible, good. rewrite !andb_true_iff, !negb_true_iff, existsb_id_false, Z.ltb_lt. tauto.
  Qed.

  Lemma add_loop_inv pool cands : forall st, (forall x, In x cands -> In x pool) -> inv pool st -> inv pool (add_loop minl P cands st).
  Proof.
    induction cands as [|c rest IH]; intros st Hp I; cbn; [exact I|].
    destruct (need_more minl P (snd st) && (Z.of_nat (length (fst st)) <? p_max_inputs P)) eqn:Cn; [|exact I].
    apply IH; [intros x Hx; apply Hp; now right|].
    destruct (eligible (fst st) c) eqn:El; [|exact I].
    apply eligible_spec in El as [Nin G]. apply andb_true_iff in Cn as [_ Ln]. apply Z.ltb_lt in Ln.
    destruct I as [T ND Gd Pl Len]. constructor; cbn [fst snd].
    - rewrite vsum_snoc, T. reflexivity.
    - rewrite map_app. cbn. apply NoDup_app_snoc; assumption.
    - apply Forall_app. split; [exact Gd | constructor; [exact G | constructor]].
    - intros x Hx. apply in_app_iff in Hx as [Hx|[<-|[]]]; [now apply Pl | apply Hp; now left].
    - rewrite app_length. cbn. lia.
  Qed.
End Loop.

(* ---------- the sort only permutes ---------- *)
Lemma cinsert_in x l y : In y (cinsert x l) <-> y = x \/ In y l.
Proof.
  induction l as [|h r IH]; cbn; [intuition|].
  destruct (key_leb x h); cbn; [intuition|]. rewrite IH. intuition.
Qed.
Lemma csort_in l y : In y (csort l) <-> In y l.
Proof.
  induction l as [|h r IH]; cbn; [reflexivity|]. rewrite cinsert_in, IH. intuition.
Qed.
Lemma pop_order_in l y : In y (pop_order l) <-> In y l.
Proof. unfold pop_order. rewrite <- in_rev. apply csort_in. Qed.

Section Auto.
  Variable minl : value -> Z.
  Variable P : cparams.

  Lemma inv_init pool : inv P pool ([], vint 0).
  Proof.
    constructor; cbn; [reflexivity | constructor | constructor | intros x [] | lia].
  Qed.

  Lemma auto_select_inv inputs pot at_addr :
    inv P (inputs ++ pot ++ at_addr) (auto_select minl P inputs pot at_addr).
  Proof.
    unfold auto_select.
    set (pool := inputs ++ pot ++ at_addr).
    assert (I1 : inv P pool (add_loop minl P (pop_order inputs) ([], vint 0))).
    { apply add_loop_inv; [|apply inv_init]. intros x Hx. apply (proj1 (pop_order_in _ _)) in Hx. unfold pool. apply in_app_iff. left. exact Hx. }
    set (s1 := add_loop minl P (pop_order inputs) ([], vint 0)) in *.
    assert (I2 : inv P pool (if coin (snd s1) <? collateral_amount P then add_loop minl P (pop_order pot) s1 else s1)).
    { destruct (coin (snd s1) <? collateral_amount P); [|exact I1].
      apply add_loop_inv; [|exact I1]. intros x Hx. apply (proj1 (pop_order_in _ _)) in Hx. unfold pool. rewrite !in_app_iff. auto. }
    set (s2 := if coin (snd s1) <? collateral_amount P then add_loop minl P (pop_order pot) s1 else s1) in *.
    destruct (coin (snd s2) <? collateral_amount P); [|exact I2].
    apply add_loop_inv; [|exact I2]. intros x Hx. apply (proj1 (pop_order_in _ _)) in Hx. unfold pool. rewrite !in_app_iff. auto.
  Qed.

  (* what the automatic selection guarantees, whatever happens afterwards *)
  Theorem auto_select_sound inputs pot at_addr :
    let st := auto_select minl P inputs pot at_addr in
    NoDup (map cid (fst st))
    /\ Forall (fun c => script_name (c_type c) = false /\ 2000000 < coin (c_val c)
                        /\ In c (inputs ++ pot ++ at_addr)) (fst st)
    /\ Z.of_nat (length (fst st)) <= Z.max 0 (p_max_inputs P)
    /\ snd st = vsum (fst st)
    /\ dedup_ids (fst st) [] = fst st.
  Proof.
    intros st. destruct (auto_select_inv inputs pot at_addr) as [T ND Gd Pl Len]. fold st in T, ND, Gd, Pl, Len.
    split; [exact ND|]. split; [|split; [exact Len|split; [exact T|]]].
    - rewrite Forall_forall in *. intros c Hc. destruct (Gd c Hc). auto.
    - apply dedup_nodup_id; [exact ND | intros x _ []].
  Qed.

  (* ---------- what `finish` does, exhaustively ---------- *)
  Definition no_script (colls : list cand) : Prop := Forall (fun c => script_name (c_type c) = false) colls.

  Lemma existsb_script_false colls : existsb (fun c => script_name (c_type c)) colls = false <-> no_script colls.
  Proof.
    unfold no_script. induction colls as [|c r IH]; cbn.
    - split; [constructor | reflexivity].
    - rewrite orb_false_iff, IH. split; [intros [A B]; now constructor | intros H; inversion H; auto].
  Qed.

  Theorem finish_cases colls :
    let amount := collateral_amount P in
    let r := v_sub (vsum colls) (vint amount) in
    match finish minl P colls with
    | OErrCount => p_max_inputs P < Z.of_nat (length colls)
    | OErrScript => Z.of_nat (length colls) <= p_max_inputs P /\ ~ no_script colls
    | OErrAmount => Z.of_nat (length colls) <= p_max_inputs P /\ no_script colls /\ coins colls < amount
    | ONoop => Z.of_nat (length colls) <= p_max_inputs P /\ no_script colls /\ amount <= coins colls
               /\ should_add_return (p_threshold P) r = false
    | OErrMinLovelace => Z.of_nat (length colls) <= p_max_inputs P /\ no_script colls /\ amount <= coins colls
               /\ should_add_return (p_threshold P) r = true /\ coin r < minl r
    | OSet r' t => Z.of_nat (length colls) <= p_max_inputs P /\ no_script colls /\ amount <= coins colls
               /\ should_add_return (p_threshold P) r = true /\ minl r <= coin r /\ r' = r /\ t = amount
    end.
  Proof.
    intros amount r. unfold finish. fold amount. fold r.
    destruct (p_max_inputs P <? Z.of_nat (length colls)) eqn:E1; [lia|].
    destruct (existsb (fun c => script_name (c_type c)) colls) eqn:E2.
    { split; [lia|]. intros N. apply existsb_script_false in N. congruence. }
    apply existsb_script_false in E2. rewrite coin_vsum.
    destruct (coins colls <? amount) eqn:E3; [repeat split; try lia; exact E2|].
    destruct (should_add_return (p_threshold P) r) eqn:E4; cbn [negb].
    - destruct (coin r <? minl r) eqn:E5; repeat split; try lia; try exact E2.
    - repeat split; try lia; exact E2.
  Qed.
End Auto.

(* ====================================================================== *)
(* the fields of the body after the call, on a fresh builder               *)
(* ====================================================================== *)
Definition ret_of (addr : bytes) (o : outcome) : option (value * bytes) :=
  match o with OSet r _ => Some (r, enc (out_legacy addr r)) | _ => None end.
Definition total_of (o : outcome) : option Z := match o with OSet _ t => Some t | _ => None end.
Definition completed (o : outcome) : Prop := match o with ONoop | OSet _ _ => True | _ => False end.
Definition refused (o : outcome) : Prop := match o with ONoop | OSet _ _ => False | _ => True end.

Lemma key_locked_of_name t : script_name t = false -> (t <= 8)%N -> key_locked t = true.
Proof.
  intros S L.
  assert (H : (t = 0 \/ t = 1 \/ t = 2 \/ t = 3 \/ t = 4 \/ t = 5 \/ t = 6 \/ t = 7 \/ t = 8)%N) by lia.
  repeat (destruct H as [->|H]; [cbn in *; congruence|]). subst. reflexivity.
Qed.

Lemma coin_v_sub a b : coin (v_sub a b) = coin a - coin b.
Proof. reflexivity. Qed.

Section Main.
  Variable minl : value -> Z.
  Variable P : cparams.
  Variable cpb : Z.
  Variable addr : bytes.

  (* every collateral the method leaves behind comes from what the user supplied or from the three pools *)
  Lemma colls_incl explicit inputs pot at_addr pf ha :
    forall x, In x (fst (set_collateral_return minl P pf ha explicit inputs pot at_addr)) ->
              In x (explicit ++ inputs ++ pot ++ at_addr).
  Proof.
    intros x. unfold set_collateral_return.
    destruct (negb pf); [cbn; intros; apply in_app_iff; now left|].
    destruct (negb ha); [cbn; intros; apply in_app_iff; now left|].
    cbn [fst]. intros I. apply dedup_spec in I as [I _].
    destruct explicit as [|e r].
    - destruct (auto_select_sound minl P inputs pot at_addr) as (_ & F & _).
      rewrite Forall_forall in F. destruct (F x I) as (_ & _ & J). exact J.
    - apply in_app_iff. now left.
  Qed.

  Theorem set_collateral_return_ok explicit inputs pot at_addr colls o fee :
    set_collateral_return minl P true true explicit inputs pot at_addr = (colls, o) ->
    completed o ->
    wfc (explicit ++ inputs ++ pot ++ at_addr) ->
    nonneg (explicit ++ inputs ++ pot ++ at_addr) ->
    Forall (fun c => (c_type c <= 8)%N) (explicit ++ inputs ++ pot ++ at_addr) ->
    0 < collateral_amount P -> 0 <= p_percent P ->
    fee <= p_max_fee P + p_fee_buffer P ->
    (forall v, 0 <= coin v -> ledger_min_ada cpb (enc (out_legacy addr v)) <= minl v) ->
    collateral_ok (mkLP (p_percent P) (p_max_inputs P) cpb) fee colls (ret_of addr o) (total_of o) = true.
  Proof.
    intros Run Cp Wf Nn Ty Apos Ppos Hfee Hmin.
    pose proof (colls_incl explicit inputs pot at_addr true true) as Incl. rewrite Run in Incl. cbn [fst] in Incl.
    unfold set_collateral_return in Run. cbn [negb] in Run.
    set (base := match explicit with [] => fst (auto_select minl P inputs pot at_addr) | _ :: _ => explicit end) in Run.
    injection Run as Ec Eo.
    destruct (dedup_spec base []) as (_ & ND & _). rewrite Ec in ND.
    assert (Wc : wfc colls) by (eapply wfc_incl; [exact Incl | exact Wf]).
    assert (Nc : nonneg colls) by (eapply nonneg_incl; [exact Incl | exact Nn]).
    destruct (vsum_spec colls Wc) as (Sc & Sm & Sw).
    pose proof (finish_cases minl P colls) as FC. cbv zeta in FC. rewrite Ec in Eo. rewrite Eo in FC.
    pose proof (amount_adequate P fee Ppos Hfee) as Adq.
    set (amount := collateral_amount P) in *.
    set (r := v_sub (vsum colls) (vint amount)) in *.
    destruct (v_sub_spec (vsum colls) (vint amount) Sw (wfv_vint amount)) as (_ & Rm & _). fold r in Rm.
    assert (Kl : ok_keylocked colls = true).
    { destruct o; try contradiction; destruct FC as (_ & NS & _); unfold ok_keylocked; apply forallb_forall; intros c Hc;
        (apply key_locked_of_name;
         [unfold no_script in NS; rewrite Forall_forall in NS; now apply NS
         | rewrite Forall_forall in Ty; apply Ty, Incl, Hc]). }
    assert (Cnt : ok_count (mkLP (p_percent P) (p_max_inputs P) cpb) colls = true).
    { assert (amount <= coins colls /\ Z.of_nat (length colls) <= p_max_inputs P) as [A1 A2]
        by (destruct o; try contradiction; intuition).
      unfold ok_count. cbn [l_max_inputs]. apply andb_true_iff. split; [|lia].
      destruct colls; [rewrite coins_nil in A1; lia | cbn [length]; lia]. }
    assert (Ds : ok_distinct colls = true) by (apply nodup_ids_spec; exact ND).
    unfold collateral_ok, collateral_ok_req. rewrite Cnt, Ds, Kl. cbn [andb l_percent].
    destruct o as [|r' t| | | |]; try contradiction; cbn [ret_of total_of].
    - (* no return output *)
      destruct FC as (_ & _ & Am & Sh).
      unfold should_add_return in Sh. apply orb_false_iff in Sh as [_ Sh].
      assert (Z0 : forall p n, contents colls p n = 0).
      { intros p n. pose proof (positive_assets_none (massets r) ltac:(lia) p n) as H.
        rewrite Rm, content_vint, Sm in H. pose proof (contents_nonneg colls p n Nc). lia. }
      unfold ok_adequate, ok_total, ok_assets, ok_min_ada, forfeit. cbn [ret_coin ret_assets].
      rewrite Sc. rewrite !andb_true_r. apply andb_true_iff. split; [lia|].
      apply m_eq_spec. intros p n. rewrite Sm, Z0. reflexivity.
    - (* return output and total_collateral set *)
      destruct FC as (_ & _ & Am & _ & Ml & -> & ->).
      unfold ok_adequate, ok_total, ok_assets, ok_min_ada, forfeit. cbn [ret_coin ret_assets l_cpb].
      assert (Cr : coin r = coins colls - amount) by (unfold r; rewrite coin_v_sub, Sc; reflexivity).
      specialize (Hmin r ltac:(lia)).
      rewrite Sc, Cr. repeat (apply andb_true_iff; split); try lia.
      apply m_eq_spec. intros p n. rewrite Rm, content_vint. lia.
  Qed.
End Main.

(* ====================================================================== *)
(* refusals are justified: OErrAmount below the input limit means the      *)
(* eligible candidates of all three pools are exhausted                    *)
(* ====================================================================== *)
Section Exhaust.
  Variable minl : value -> Z.
  Variable P : cparams.

  Lemma add_loop_mono cands : forall st,
    (exists ext, fst (add_loop minl P cands st) = fst st ++ ext)
    /\ coin (snd st) <= coin (snd (add_loop minl P cands st)).
  Proof.
    induction cands as [|c rest IH]; intros st; cbn [add_loop].
    - split; [exists []; now rewrite app_nil_r | lia].
    - destruct (need_more minl P (snd st) && (Z.of_nat (length (fst st)) <? p_max_inputs P));
        [|split; [exists []; now rewrite app_nil_r | lia]].
      destruct (eligible (fst st) c) eqn:El.
      + destruct (IH (fst st ++ [c], v_add (snd st) (c_val c))) as [[ext E] M]. cbn [fst snd] in *.
        split; [exists ([c] ++ ext); now rewrite E, <- app_assoc|].
        apply eligible_spec in El as [_ [_ G]]. cbn [v_add coin] in M. lia.
      + apply IH.
  Qed.

  Lemma add_loop_exhaust cands : forall st,
    coin (snd (add_loop minl P cands st)) < collateral_amount P ->
    Z.of_nat (length (fst (add_loop minl P cands st))) < p_max_inputs P ->
    forall c, In c cands -> good c -> In (cid c) (map cid (fst (add_loop minl P cands st))).
  Proof.
    induction cands as [|c0 rest IH]; intros st Hc Hl c Hin G; [destruct Hin|].
    cbn [add_loop] in *.
    destruct (need_more minl P (snd st) && (Z.of_nat (length (fst st)) <? p_max_inputs P)) eqn:Cn.
    2:{ exfalso. apply andb_false_iff in Cn as [Cn|Cn]; [|lia].
        unfold need_more in Cn. apply orb_false_iff in Cn as [Cn _]. lia. }
    set (st1 := if eligible (fst st) c0 then (fst st ++ [c0], v_add (snd st) (c_val c0)) else st) in *.
    destruct Hin as [<-|Hin]; [|now apply IH].
    destruct (add_loop_mono rest st1) as [[ext E] _]. rewrite E, map_app. apply in_or_app. left.
    unfold st1. destruct (eligible (fst st) c0) eqn:El; cbn [fst].
    - rewrite map_app. apply in_or_app. right. now left.
    - destruct (In_dec (fun x y : bytes * N => ltac:(decide equality; [apply N.eq_dec | apply bytes_eq_dec]))
                       (cid c0) (map cid (fst st))) as [I|I]; [exact I|].
      exfalso. assert (eligible (fst st) c0 = true) by (apply eligible_spec; split; assumption). congruence.
  Qed.

  Theorem auto_select_exhaustive inputs pot at_addr :
    let st := auto_select minl P inputs pot at_addr in
    coin (snd st) < collateral_amount P ->
    Z.of_nat (length (fst st)) < p_max_inputs P ->
    forall c, In c (inputs ++ pot ++ at_addr) -> good c -> In (cid c) (map cid (fst st)).
  Proof.
    unfold auto_select.
    set (s1 := add_loop minl P (pop_order inputs) ([], vint 0)).
    set (s2 := if coin (snd s1) <? collateral_amount P then add_loop minl P (pop_order pot) s1 else s1).
    set (s3 := if coin (snd s2) <? collateral_amount P then add_loop minl P (pop_order at_addr) s2 else s2).
    intros Hc Hl c Hin G.
    assert (M23 : (exists ext, fst s3 = fst s2 ++ ext) /\ coin (snd s2) <= coin (snd s3)).
    { unfold s3. destruct (coin (snd s2) <? collateral_amount P); [apply add_loop_mono|].
      split; [exists []; now rewrite app_nil_r | lia]. }
    assert (M12 : (exists ext, fst s2 = fst s1 ++ ext) /\ coin (snd s1) <= coin (snd s2)).
    { unfold s2. destruct (coin (snd s1) <? collateral_amount P); [apply add_loop_mono|].
      split; [exists []; now rewrite app_nil_r | lia]. }
    destruct M23 as [[e3 E3] C3], M12 as [[e2 E2] C2].
    assert (L2 : Z.of_nat (length (fst s2)) < p_max_inputs P) by (rewrite E3, app_length in Hl; lia).
    assert (L1 : Z.of_nat (length (fst s1)) < p_max_inputs P) by (rewrite E2, app_length in L2; lia).
    assert (X2 : coin (snd s2) < collateral_amount P) by lia.
    assert (X1 : coin (snd s1) < collateral_amount P) by lia.
    pose proof (proj2 (Z.ltb_lt _ _) X2) as B2. pose proof (proj2 (Z.ltb_lt _ _) X1) as B1.
    assert (S2 : s2 = add_loop minl P (pop_order pot) s1) by (unfold s2; now rewrite B1).
    assert (S3 : s3 = add_loop minl P (pop_order at_addr) s2) by (unfold s3; now rewrite B2).
    apply in_app_iff in Hin as [Hin|Hin]; [|apply in_app_iff in Hin as [Hin|Hin]].
    - rewrite E3, E2, !map_app. apply in_or_app. left. apply in_or_app. left.
      apply add_loop_exhaust; [exact X1 | exact L1 | apply pop_order_in; exact Hin | exact G].
    - rewrite E3, map_app. apply in_or_app. left. rewrite S2 in X2, L2 |- *.
      apply add_loop_exhaust; [exact X2 | exact L2 | apply pop_order_in; exact Hin | exact G].
    - rewrite S3 in Hc, Hl |- *.
      apply add_loop_exhaust; [exact Hc | exact Hl | apply pop_order_in; exact Hin | exact G].
  Qed.
End Exhaust.

(* ====================================================================== *)
(* the concrete min-lovelace function covers the ledger's min ADA of the   *)
(* return output actually emitted (legacy array form)                      *)
(* ====================================================================== *)
Lemma lenN_app' {A} (a b : list A) : lenN (a ++ b) = (lenN a + lenN b)%N.
Proof. induction a as [|x a IH]; cbn [app lenN]; [lia | rewrite IH; lia]. Qed.

Lemma enc_legacy_len addr x :
  lenN (enc (CA [CB addr; x])) = (1 + lenN (enc (CB addr)) + lenN (enc x))%N.
Proof.
  cbn [enc map concat]. change (lenN [CB addr; x]) with 2%N. change (head 4 2) with [n2b 130].
  rewrite !lenN_app'. cbn [lenN]. lia.
Qed.
Lemma enc_post_alonzo_len addr x :
  lenN (enc (CM [(CU 0, CB addr); (CU 1, x)])) = (3 + lenN (enc (CB addr)) + lenN (enc x))%N.
Proof.
  cbn [enc map concat fst snd]. change (lenN [(CU 0, CB addr); (CU 1, x)]) with 2%N.
  change (head 5 2) with [n2b 162]. change (head 0 0) with [n2b 0]. change (head 0 1) with [n2b 1].
  rewrite !lenN_app'. cbn [lenN]. lia.
Qed.

Lemma value_prim_len_coin0 m :
  (lenN (enc (value_prim (mkValue 0 m))) <= lenN (enc (value_prim (mkValue 1000000 m))))%N.
Proof.
  unfold value_prim. cbn [massets coin]. destruct (is_nil (m_norm m)).
  - vm_compute. discriminate.
  - cbn [enc map concat]. rewrite !lenN_app'.
    change (lenN (enc (cint 0))) with 1%N. change (lenN (enc (cint 1000000))) with 5%N.
    change (lenN [cint 0; masset_prim m]) with 2%N. change (lenN [cint 1000000; masset_prim m]) with 2%N. lia.
Qed.

Theorem min_lovelace_ret_covers_ledger cpb addr v : 0 <= cpb ->
  ledger_min_ada cpb (enc (out_legacy addr v)) <= min_lovelace_ret cpb addr v.
Proof.
  intros Hc. unfold ledger_min_ada, min_lovelace_ret, out_legacy, out_post_alonzo.
  rewrite enc_legacy_len, enc_post_alonzo_len.
  destruct (coin v =? 0) eqn:E.
  - apply Z.eqb_eq in E. pose proof (value_prim_len_coin0 (massets v)) as L.
    replace v with (mkValue 0 (massets v)) at 1 by (destruct v; cbn in *; now subst).
    nia.
  - nia.
Qed.

(* the theorem for the function the builder really uses *)
Corollary set_collateral_return_ok_concrete P cpb addr explicit inputs pot at_addr colls o fee :
  set_collateral_return (min_lovelace_ret cpb addr) P true true explicit inputs pot at_addr = (colls, o) ->
  completed o ->
  wfc (explicit ++ inputs ++ pot ++ at_addr) ->
  nonneg (explicit ++ inputs ++ pot ++ at_addr) ->
  Forall (fun c => (c_type c <= 8)%N) (explicit ++ inputs ++ pot ++ at_addr) ->
  0 < collateral_amount P -> 0 <= p_percent P -> 0 <= cpb ->
  fee <= p_max_fee P + p_fee_buffer P ->
  collateral_ok (mkLP (p_percent P) (p_max_inputs P) cpb) fee colls (ret_of addr o) (total_of o) = true.
Proof.
  intros Run Cp Wf Nn Ty Ap Pp Cb Hf.
  eapply set_collateral_return_ok; eauto. intros v _. now apply min_lovelace_ret_covers_ledger.
Qed.

(* ====================================================================== *)
(* reading of the boolean specification                                    *)
(* ====================================================================== *)
Theorem collateral_ok_spec L fee colls ret total : wfc colls ->
  collateral_ok L fee colls ret total = true <->
  (1 <= Z.of_nat (length colls) <= l_max_inputs L
   /\ NoDup (map cid colls)
   /\ Forall (fun c => key_locked (c_type c) = true) colls
   /\ l_percent L * fee <= 100 * (coins colls - ret_coin ret)
   /\ (forall t, total = Some t -> coins colls - ret_coin ret = t)
   /\ (forall p n, contents colls p n = content (ret_assets ret) p n)
   /\ (forall v out, ret = Some (v, out) -> l_cpb L * (160 + Z.of_N (lenN out)) <= coin v)).
Proof.
  intros W. destruct (vsum_spec colls W) as (Sc & Sm & _).
  unfold collateral_ok, collateral_ok_req, ok_count, ok_distinct, ok_keylocked, ok_adequate, ok_total, ok_assets,
    ok_min_ada, forfeit, ledger_min_ada.
  rewrite !andb_true_iff, nodup_ids_spec, forallb_forall, <- Forall_forall, m_eq_spec, Sc, !Z.leb_le.
  split.
  - intros ((((((A & B) & D) & E) & F) & G) & H). repeat split; auto; try lia.
    + intros t ->. now apply Z.eqb_eq in F.
    + intros p n. rewrite <- Sm. apply G.
    + intros v out ->. now apply Z.leb_le in H.
  - intros ((A1 & A2) & B & D & E & F & G & H). repeat split; auto.
    + destruct total as [t|]; [apply Z.eqb_eq; now apply F | reflexivity].
    + intros p n. rewrite Sm. apply G.
    + destruct ret as [[v out]|]; [apply Z.leb_le; now apply (H v out) | reflexivity].
Qed.

(* Prop-level reading of what is written into the builder when a return is set *)
Theorem set_fields_exact minl P explicit inputs pot at_addr colls r t :
  set_collateral_return minl P true true explicit inputs pot at_addr = (colls, OSet r t) ->
  wfc (explicit ++ inputs ++ pot ++ at_addr) ->
  t = collateral_amount P
  /\ coins colls - coin r = t
  /\ (forall p n, content (massets r) p n = contents colls p n)
  /\ minl r <= coin r /\ 0 <= coin r.
Proof.
  intros Run Wf.
  pose proof (colls_incl minl P explicit inputs pot at_addr true true) as Incl. rewrite Run in Incl. cbn [fst] in Incl.
  assert (Wc : wfc colls) by (eapply wfc_incl; [exact Incl | exact Wf]).
  unfold set_collateral_return in Run. cbn [negb] in Run. injection Run as Ec Eo. rewrite Ec in Eo.
  pose proof (finish_cases minl P colls) as FC. cbv zeta in FC. rewrite Eo in FC.
  destruct FC as (_ & _ & Am & _ & Ml & -> & ->).
  destruct (vsum_spec colls Wc) as (Sc & Sm & Sw).
  destruct (v_sub_spec (vsum colls) (vint (collateral_amount P)) Sw (wfv_vint _)) as (_ & Rm & _).
  rewrite coin_v_sub, Sc in *. cbn [vint coin] in *.
  repeat split; try lia. intros p n. rewrite Rm, content_vint, Sm. lia.
Qed.

(* ====================================================================== *)
(* the gate: a Plutus script executed for ANY purpose, however supplied,   *)
(* makes the method go on to select collateral                             *)
(* ====================================================================== *)
(* script hashes identify scripts (the class tag is part of the hash preimage) *)
Definition hash_fun (l : list sref) : Prop :=
  forall a b, In a l -> In b l -> s_hash a = s_hash b -> s_kind a = s_kind b.

Definition sfold (l : list sref) (d : dict sref) : dict sref := fold_left (fun d s => dset d (s_hash s) s) l d.

Lemma sfold_keep l : forall d k v, dget d k = Some v ->
  exists v', dget (sfold l d) k = Some v' /\ (v' = v \/ (In v' l /\ s_hash v' = k)).
Proof.
  induction l as [|a l IH]; intros d k v G; cbn.
  - exists v. split; [exact G | now left].
  - destruct (bytes_eqb (s_hash a) k) eqn:E.
    + apply bytes_eqb_eq in E. subst k.
      destruct (IH (dset d (s_hash a) a) (s_hash a) a (dget_dset_same _ _ _)) as (v' & G' & [->|[I H]]).
      * exists a. split; [exact G'|]. right. split; [now left | reflexivity].
      * exists v'. split; [exact G'|]. right. split; [now right | exact H].
    + apply bytes_eqb_neq in E.
      destruct (IH (dset d (s_hash a) a) k v) as (v' & G' & [->|[I H]]).
      * rewrite dget_dset_other; assumption.
      * exists v. split; [exact G' | now left].
      * exists v'. split; [exact G'|]. right. split; [now right | exact H].
Qed.

Lemma sfold_in l : forall d s, In s l ->
  exists v', dget (sfold l d) (s_hash s) = Some v' /\ In v' l /\ s_hash v' = s_hash s.
Proof.
  induction l as [|a l IH]; intros d s I; [destruct I|]. cbn.
  destruct I as [->|I].
  - destruct (sfold_keep l (dset d (s_hash s) s) (s_hash s) s (dget_dset_same _ _ _)) as (v' & G & [->|[J H]]).
    + exists s. split; [exact G|]. split; [now left | reflexivity].
    + exists v'. split; [exact G|]. split; [now right | exact H].
  - destruct (IH (dset d (s_hash a) a) s I) as (v' & G & J & H).
    exists v'. split; [exact G|]. split; [now right | exact H].
Qed.

Lemma dget_in_values (d : dict sref) k v : dget d k = Some v -> In v (map snd d).
Proof.
  induction d as [|[k' v'] r IH]; cbn; [discriminate|].
  destruct (bytes_eqb k' k); [intros [= ->]; now left | intros G; right; now apply IH].
Qed.

Lemma dset_values (d : dict sref) k v x : In x (map snd (dset d k v)) -> x = v \/ In x (map snd d).
Proof.
  induction d as [|[k' v'] r IH]; cbn.
  - intros [<-|[]]. now left.
  - destruct (bytes_eqb k' k); cbn.
    + intros [<-|I]; [now left | right; now right].
    + intros [<-|I]; [right; now left|]. destruct (IH I) as [->|J]; [now left | right; now right].
Qed.

Lemma sfold_values l : forall d x, In x (map snd (sfold l d)) -> In x l \/ In x (map snd d).
Proof.
  induction l as [|a l IH]; intros d x I; cbn in I; [now right|].
  destruct (IH _ _ I) as [J|J]; [left; now right|].
  destruct (dset_values _ _ _ _ J) as [->|K]; [left; now left | now right].
Qed.

Lemma dpop_values (d : dict sref) k x : In x (map snd (dpop d k)) -> In x (map snd d).
Proof.
  induction d as [|[k' v'] r IH]; cbn; [tauto|].
  destruct (bytes_eqb k' k); cbn; [intros I; now right | intros [<-|I]; [now left | right; now apply IH]].
Qed.

Lemma pops_values l : forall (d : dict sref) x,
  In x (map snd (fold_left (fun d s => dpop d (s_hash s)) l d)) -> In x (map snd d).
Proof.
  induction l as [|a l IH]; intros d x I; cbn in I; [exact I|].
  eapply dpop_values. eapply IH. exact I.
Qed.

Lemma wit_has_of_kind ss s : In s (wit_scripts ss) -> is_plutus s = true ->
  wit_has SV1 ss || wit_has SV2 ss || wit_has SV3 ss = true.
Proof.
  intros I Pl. unfold wit_has.
  assert (H : forall k, s_kind s = k -> existsb (fun s0 => skind_eqb (s_kind s0) k) (wit_scripts ss) = true).
  { intros k E. apply existsb_exists. exists s. split; [exact I|]. rewrite E. destruct k; reflexivity. }
  unfold is_plutus in Pl. destruct (s_kind s) eqn:K; try discriminate.
  - rewrite (H SV1 eq_refl). reflexivity.
  - rewrite (H SV2 eq_refl). apply orb_true_iff. left. apply orb_true_r.
  - rewrite (H SV3 eq_refl). apply orb_true_r.
Qed.

(* COMPLETENESS of the gate: if any script the transaction executes (spend / mint / withdrawal / certificate table)
   is a Plutus script, the method does not take the early return — whether that script ends up in the witness set
   or is popped from it because a reference UTxO supplies it *)
Theorem gate_complete ss s :
  hash_fun (ss_native ss ++ purposes ss) -> In s (purposes ss) -> is_plutus s = true ->
  needs_collateral ss = true.
Proof.
  intros HF I Pl. unfold needs_collateral.
  destruct (ss_refs ss) as [|r0 rs] eqn:R; [|now rewrite andb_false_r].
  rewrite andb_true_r.
  assert (I' : In s (ss_native ss ++ purposes ss)) by (apply in_app_iff; now right).
  destruct (sfold_in (ss_native ss ++ purposes ss) [] s I') as (v' & G & J & H).
  assert (W : In v' (wit_scripts ss)).
  { unfold wit_scripts. rewrite R. cbn [fold_left]. eapply dget_in_values. exact G. }
  assert (Pv : is_plutus v' = true).
  { unfold is_plutus in *. rewrite (HF v' s J I' H). exact Pl. }
  pose proof (wit_has_of_kind ss v' W Pv) as E.
  destruct (wit_has SV1 ss), (wit_has SV2 ss), (wit_has SV3 ss); cbn in *; try reflexivity; discriminate.
Qed.

(* SOUNDNESS of the gate: the method goes on only if a reference script is in use or one of the builder's tables
   holds a Plutus script *)
Theorem gate_sound ss : needs_collateral ss = true ->
  ss_refs ss <> [] \/ exists s, In s (ss_native ss ++ purposes ss) /\ is_plutus s = true.
Proof.
  unfold needs_collateral. intros H.
  destruct (ss_refs ss) as [|r0 rs] eqn:R; [|left; discriminate]. right.
  rewrite andb_true_r in H.
  assert (E : exists k, k <> SNative /\ wit_has k ss = true).
  { destruct (wit_has SV1 ss) eqn:E1; [exists SV1; split; [discriminate|exact E1]|].
    destruct (wit_has SV2 ss) eqn:E2; [exists SV2; split; [discriminate|exact E2]|].
    destruct (wit_has SV3 ss) eqn:E3; [exists SV3; split; [discriminate|exact E3]|]. discriminate. }
  destruct E as (k & Nk & Wk). unfold wit_has in Wk. apply existsb_exists in Wk as (s & I & Ks).
  exists s. split.
  - unfold wit_scripts in I. apply pops_values in I. apply sfold_values in I as [I|[]]. exact I.
  - unfold is_plutus. destruct (s_kind s), k; cbn in *; try reflexivity; try discriminate; now elim Nk.
Qed.

(* MAIN, stated over the builder's script tables: a transaction that executes a Plutus script for some purpose and
   has a return address gets collateral that satisfies the ledger rule, or an explicit error *)
Corollary set_collateral_return_ss_ok P cpb addr ss s explicit inputs pot at_addr colls o fee :
  hash_fun (ss_native ss ++ purposes ss) -> In s (purposes ss) -> is_plutus s = true ->
  set_collateral_return_ss (min_lovelace_ret cpb addr) P ss true explicit inputs pot at_addr = (colls, o) ->
  completed o ->
  wfc (explicit ++ inputs ++ pot ++ at_addr) ->
  nonneg (explicit ++ inputs ++ pot ++ at_addr) ->
  Forall (fun c => (c_type c <= 8)%N) (explicit ++ inputs ++ pot ++ at_addr) ->
  0 < collateral_amount P -> 0 <= p_percent P -> 0 <= cpb ->
  fee <= p_max_fee P + p_fee_buffer P ->
  collateral_ok (mkLP (p_percent P) (p_max_inputs P) cpb) fee colls (ret_of addr o) (total_of o) = true.
Proof.
  intros HF I Pl Run. unfold set_collateral_return_ss in Run. rewrite (gate_complete ss s HF I Pl) in Run.
  now apply set_collateral_return_ok_concrete.
Qed.

(* ====================================================================== *)
(* non-vacuity: a concrete wallet on which every hypothesis holds          *)
(* ====================================================================== *)
Module Ex.
  Definition P := mkCP 2174277 0 150 3 1000000.
  Definition addr := hx "60" ++ repeat Byte.x11 28.
  Definition tok : masset := [(repeat Byte.xa1 28, [(hx "746f6b", 5)])].
  Definition a := mkCand (repeat Byte.x01 32) 0 6 (mkValue 2500000 []) 70.
  Definition b := mkCand (repeat Byte.x02 32) 1 0 (mkValue 10000000 tok) 200.
  Definition s := mkCand (repeat Byte.x03 32) 0 7 (mkValue 50000000 []) 72.
  Definition run := set_collateral_return (min_lovelace_ret 4310 addr) P true true [] [a; s] [b] [].

  Example amount : collateral_amount P = 3261416.
  Proof. reflexivity. Qed.

  (* the script-address candidate is skipped, the token-carrying potential input is added, the return
     carries the token *)
  Example run_value : exists r, run = ([a; b], OSet r 3261416) /\ coin r = 9238584 /\ massets r = tok.
  Proof. eexists. vm_compute. repeat split. Qed.

  Example hyps :
    wfc ([] ++ [a; s] ++ [b] ++ []) /\ nonneg ([] ++ [a; s] ++ [b] ++ [])
    /\ Forall (fun c => (c_type c <= 8)%N) ([] ++ [a; s] ++ [b] ++ [])
    /\ 0 < collateral_amount P /\ 0 <= p_percent P /\ 0 <= 4310 /\ 2174277 <= p_max_fee P + p_fee_buffer P.
  Proof.
    cbn [app]. split; [|split; [|split]].
    - repeat constructor; cbn; intuition discriminate.
    - unfold nonneg. rewrite Forall_forall. intros c [<-|[<-|[<-|[]]]] p n; cbn [c_val massets a s b];
        try (cbn; lia).
      unfold content, mget, tok. cbn [dget]. destruct (bytes_eqb _ p); [|cbn; lia].
      unfold aget. cbn [dget]. destruct (bytes_eqb _ n); lia.
    - repeat constructor; cbn; discriminate.
    - vm_compute. repeat split; discriminate.
  Qed.

  (* refusals exist: a wallet that cannot cover the amount, and explicit collateral at a script address *)
  Example refuse_amount : snd (set_collateral_return (min_lovelace_ret 4310 addr) P true true [] [a] [] []) = OErrAmount.
  Proof. reflexivity. Qed.
  Example refuse_script : snd (set_collateral_return (min_lovelace_ret 4310 addr) P true true [s] [a] [b] []) = OErrScript.
  Proof. reflexivity. Qed.
  Example refuse_count : snd (set_collateral_return (min_lovelace_ret 4310 addr) (mkCP 2174277 0 150 1 1000000) true true [a; b] [] [] []) = OErrCount.
  Proof. reflexivity. Qed.
  (* the gate.  h2: a Plutus V2 script, hn: a native script *)
  Definition h2 := mkS (repeat Byte.xb2 28) SV2.
  Definition hn := mkS (repeat Byte.x33 28) SNative.
  (* script carried by the spent UTxO itself (or given as an object): it is in _inputs_to_scripts, not in _reference_scripts *)
  Definition ss_self := mkSS [] [h2] [] [] [] [].
  (* the same script used for spending through a reference UTxO and for minting as an object: popped from the witness set *)
  Definition ss_ref := mkSS [] [h2] [h2] [] [] [h2].
  Definition ss_nat := mkSS [hn] [hn] [] [] [] [].
  Example gate_self : needs_collateral ss_self = true /\ wit_scripts ss_self = [h2]. Proof. split; reflexivity. Qed.
  Example gate_ref : needs_collateral ss_ref = true /\ wit_scripts ss_ref = []. Proof. split; reflexivity. Qed.
  Example gate_native : needs_collateral ss_nat = false. Proof. reflexivity. Qed.
  Example gate_hyps : hash_fun (ss_native ss_self ++ purposes ss_self) /\ In h2 (purposes ss_self) /\ is_plutus h2 = true.
  Proof. split; [|split; [now left | reflexivity]]. intros x y [<-|[]] [<-|[]] _. reflexivity. Qed.
  Example run_ss : set_collateral_return_ss (min_lovelace_ret 4310 addr) P ss_self true [] [a; s] [b] [] = run.
  Proof. reflexivity. Qed.

  (* a duplicated explicit collateral is counted once *)
  Example dedup_explicit : fst (set_collateral_return (min_lovelace_ret 4310 addr) P true true [b; b] [] [] []) = [b].
  Proof. reflexivity. Qed.
End Ex.
