(* Address.v — executable model of pycardano/address.py (AddressType, PointerAddress, Address) and
   pycardano/network.py (Network).  MODEL ONLY (proofs: AddressProofs.v).

   bytes = Base.bytes (list byte); Python int = N (pointer components are naturals; negative
   components are outside the model, see wf_addr).  Exceptions = Err <kind>. *)
From Coq Require Import NArith Ascii String List Bool.
From PyC Require Import Base Bech32.
Import ListNotations.
Open Scope N_scope.

(* ---------- exception kinds ---------- *)
Inductive errkind :=
| EIndex            (* IndexError: value[0] of empty bytes *)
| EValue            (* ValueError: AddressType(n) / Network(n) of a number outside the enum *)
| EAssert           (* AssertionError: ConstrainedBytes size check *)
| EDecoding         (* DecodingException: PointerAddress.decode did not find exactly 3 numbers *)
| EDeserialize      (* DeserializeException: Byron header *)
| EType             (* TypeError: bech32 decoding failed (iteration over None / bytes(None)) *)
| EInvalidAddress   (* InvalidAddressInputException: no address type for the combination of parts *)
| EFuel.            (* model artefact: loop fuel exhausted; theorems show it never happens *)
Inductive res (A : Type) := Ok (a : A) | Err (e : errkind).
Arguments Ok {A} a. Arguments Err {A} e.
Definition bind {A B} (x : res A) (f : A -> res B) : res B :=
  match x with Ok a => f a | Err e => Err e end.

(* ---------- network.py ---------- *)
Inductive network := TESTNET | MAINNET.
Definition net_value (n : network) : N := match n with TESTNET => 0 | MAINNET => 1 end.
Definition all_networks := [TESTNET; MAINNET].
Definition network_of_value (v : N) : res network :=          (* Network(v) *)
  match List.find (fun n => net_value n =? v) all_networks with Some n => Ok n | None => Err EValue end.

(* ---------- AddressType (address.py:27-63) ---------- *)
Inductive addr_type :=
| BYRON | KEY_KEY | SCRIPT_KEY | KEY_SCRIPT | SCRIPT_SCRIPT | KEY_POINTER | SCRIPT_POINTER
| KEY_NONE | SCRIPT_NONE | NONE_KEY | NONE_SCRIPT.
Definition type_value (t : addr_type) : N :=
  match t with
  | BYRON => 8 | KEY_KEY => 0 | SCRIPT_KEY => 1 | KEY_SCRIPT => 2 | SCRIPT_SCRIPT => 3
  | KEY_POINTER => 4 | SCRIPT_POINTER => 5 | KEY_NONE => 6 | SCRIPT_NONE => 7
  | NONE_KEY => 14 | NONE_SCRIPT => 15
  end.
Definition all_types :=
  [BYRON; KEY_KEY; SCRIPT_KEY; KEY_SCRIPT; SCRIPT_SCRIPT; KEY_POINTER; SCRIPT_POINTER;
   KEY_NONE; SCRIPT_NONE; NONE_KEY; NONE_SCRIPT].
Definition type_of_value (v : N) : res addr_type :=             (* AddressType(v) *)
  match List.find (fun t => type_value t =? v) all_types with Some t => Ok t | None => Err EValue end.

(* ---------- credentials ---------- *)
Definition HASH_SIZE : nat := 28.        (* VERIFICATION_KEY_HASH_SIZE = SCRIPT_HASH_SIZE (hash.py) *)
Inductive cred := VKH (b : bytes) | SH (b : bytes).          (* VerificationKeyHash | ScriptHash *)
Definition cred_bytes (c : cred) : bytes := match c with VKH b => b | SH b => b end.
Inductive staking := SCred (c : cred) | SPtr (slot tx_index cert_index : N).   (* ... | PointerAddress *)
Record address := mkAddr { pay : option cred; stk : option staking; net : network }.

(* ConstrainedBytes.__init__: assert MIN_SIZE <= len(payload) <= MAX_SIZE *)
Definition mk_vkh (b : bytes) : res cred := if Nat.eqb (length b) HASH_SIZE then Ok (VKH b) else Err EAssert.
Definition mk_sh (b : bytes) : res cred := if Nat.eqb (length b) HASH_SIZE then Ok (SH b) else Err EAssert.

(* ---------- PointerAddress.encode / _encode_int (address.py:94-124) ---------- *)
(* while n > 0: output.append(0x80 | (n & 0x7F)); n >>= 7      (output is reversed afterwards) *)
Fixpoint enc_while (fuel : nat) (n : N) (out : list N) : option (list N) :=
  match fuel with
  | O => None
  | S f => if 0 <? n then enc_while f (N.shiftr n 7) (out ++ [N.lor 0x80 (N.land n 0x7F)])
           else Some out
  end.
Definition encode_int (n : N) : option (list N) :=
  match enc_while (S (N.to_nat (N.size n))) (N.shiftr n 7) [N.land n 0x7F] with
  | Some out => Some (rev out)
  | None => None
  end.
Definition pointer_encode (slot tx cert : N) : option bytes :=
  match encode_int slot, encode_int tx, encode_int cert with
  | Some a, Some b, Some c => Some (map n2b (a ++ b ++ c))
  | _, _, _ => None
  end.

(* ---------- PointerAddress.decode (address.py:126-157) ---------- *)
Fixpoint ptr_loop (data : list N) (ints : list N) (cur : N) : list N :=
  match data with
  | [] => ints
  | i :: r => let cur := N.lor cur (N.land i 0x7F) in
              if N.land i 0x80 =? 0 then ptr_loop r (ints ++ [cur]) 0
              else ptr_loop r ints (N.shiftl cur 7)
  end.
Definition pointer_decode (data : bytes) : res staking :=
  match ptr_loop (map b2n data) [] 0 with
  | [a; b; c] => Ok (SPtr a b c)
  | _ => Err EDecoding
  end.

(* ---------- Address._infer_address_type (address.py:206-238) ---------- *)
Definition infer_type (p : option cred) (s : option staking) : res addr_type :=
  match p, s with
  | Some (VKH _), Some (SCred (VKH _)) => Ok KEY_KEY
  | Some (VKH _), Some (SCred (SH _)) => Ok KEY_SCRIPT
  | Some (VKH _), Some (SPtr _ _ _) => Ok KEY_POINTER
  | Some (VKH _), None => Ok KEY_NONE
  | Some (SH _), Some (SCred (VKH _)) => Ok SCRIPT_KEY
  | Some (SH _), Some (SCred (SH _)) => Ok SCRIPT_SCRIPT
  | Some (SH _), Some (SPtr _ _ _) => Ok SCRIPT_POINTER
  | Some (SH _), None => Ok SCRIPT_NONE
  | None, Some (SCred (VKH _)) => Ok NONE_KEY
  | None, Some (SCred (SH _)) => Ok NONE_SCRIPT
  | None, _ => Err EInvalidAddress
  end.
(* Address(payment, staking, network): the constructor raises when no type can be inferred *)
Definition construct (p : option cred) (s : option staking) (n : network) : res address :=
  bind (infer_type p s) (fun _ => Ok (mkAddr p s n)).

(* ---------- header byte, hrp (address.py:272-291) ---------- *)
(* (self.address_type.value << 4 | self.network.value).to_bytes(1, "big") *)
Definition header_of (t : addr_type) (n : network) : N := N.lor (N.shiftl (type_value t) 4) (net_value n).
Definition hrp_of (t : addr_type) (n : network) : str :=
  let prefix := match t with NONE_KEY | NONE_SCRIPT => codes "stake" | _ => codes "addr" end in
  let suffix := match n with MAINNET => codes "" | _ => codes "_test" end in
  prefix ++ suffix.

(* ---------- Address.__bytes__ / to_primitive (address.py:293-301, 339-340) ---------- *)
Definition addr_bytes (a : address) : res bytes :=
  bind (infer_type (pay a) (stk a)) (fun t =>
  let payment := match pay a with Some c => cred_bytes c | None => [] end in
  match stk a with
  | None => Ok (n2b (header_of t (net a)) :: payment ++ [])
  | Some (SPtr s x c) => match pointer_encode s x c with
                         | Some pb => Ok (n2b (header_of t (net a)) :: payment ++ pb)
                         | None => Err EFuel
                         end
  | Some (SCred c) => Ok (n2b (header_of t (net a)) :: payment ++ cred_bytes c)
  end).

(* ---------- Address.encode (address.py:303-317): Ok None = the method returns None ---------- *)
Definition addr_text (a : address) : res (option str) :=
  bind (infer_type (pay a) (stk a)) (fun t =>
  bind (addr_bytes a) (fun b =>
  match segwit_encode (hrp_of t (net a)) (map b2n b) with
  | None => Err EFuel
  | Some r => Ok r
  end)).

(* ---------- Address.from_primitive (address.py:342-395) ---------- *)
Definition from_bytes (value : bytes) : res address :=
  match value with
  | [] => Err EIndex
  | h :: payload =>
    let header := b2n h in
    bind (type_of_value (N.shiftr (N.land header 0xF0) 4)) (fun t =>
    bind (network_of_value (N.land header 0x0F)) (fun nw =>
    let fst28 := firstn HASH_SIZE payload in
    let rest := skipn HASH_SIZE payload in
    match t with
    | KEY_KEY => bind (mk_vkh fst28) (fun p => bind (mk_vkh rest) (fun s => construct (Some p) (Some (SCred s)) nw))
    | KEY_SCRIPT => bind (mk_vkh fst28) (fun p => bind (mk_sh rest) (fun s => construct (Some p) (Some (SCred s)) nw))
    | KEY_POINTER => bind (pointer_decode rest) (fun s => bind (mk_vkh fst28) (fun p => construct (Some p) (Some s) nw))
    | KEY_NONE => bind (mk_vkh payload) (fun p => construct (Some p) None nw)
    | SCRIPT_KEY => bind (mk_sh fst28) (fun p => bind (mk_vkh rest) (fun s => construct (Some p) (Some (SCred s)) nw))
    | SCRIPT_SCRIPT => bind (mk_sh fst28) (fun p => bind (mk_sh rest) (fun s => construct (Some p) (Some (SCred s)) nw))
    | SCRIPT_POINTER => bind (pointer_decode rest) (fun s => bind (mk_sh fst28) (fun p => construct (Some p) (Some s) nw))
    | SCRIPT_NONE => bind (mk_sh payload) (fun p => construct (Some p) None nw)
    | NONE_KEY => bind (mk_vkh payload) (fun s => construct None (Some (SCred s)) nw)
    | NONE_SCRIPT => bind (mk_sh payload) (fun s => construct None (Some (SCred s)) nw)
    | BYRON => Err EDeserialize
    end))
  end.

(* value = bytes(decode(value)) : TypeError when bech32 decoding fails or returns None *)
Definition from_text (value : str) : res address :=
  match segwit_decode value with
  | None => Err EType
  | Some None => Err EType
  | Some (Some l) => from_bytes (map n2b l)
  end.
