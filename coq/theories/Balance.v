(* Balance.v — C06 "built transactions conserve value".
   Part 1 (SPEC): the Conway ledger's balance rule, written from the ledger rules and independent of
     the builder: certificates with the data that matters, deposits, refunds, Balanced / balanced.
   Part 2 (MODEL): the slice of pycardano/txbuilder.py that is meant to make it hold, clause by clause:
     _get_total_key_deposit, _get_total_proposal_deposit, _calc_change, _pack_tokens_for_change,
     _add_change_and_fee (two passes, _merge_changes), the accounting of build() before UTxO selection,
     and the body that _build_tx_body returns (inputs as an ordered SET of transaction inputs).
   Model only — proofs live in BalanceProofs.v. *)
From Coq Require Import NArith ZArith Ascii String List Bool Lia.
From PyC Require Import Base Cbor Dict Value.
Import ListNotations.
Open Scope Z_scope.

(* ================================================================= SPEC *)
(* certificate kinds of the Conway CDDL (tag in the comment) with the data that enters the balance *)
Inductive cert :=
| StakeReg                      (*  0 stake_registration   : deposit = key_deposit *)
| StakeDereg                    (*  1 stake_deregistration : refund  = key_deposit *)
| StakeDeleg                    (*  2 *)
| PoolReg (operator : bytes)    (*  3 pool_registration    : pool_deposit when the pool is new *)
| PoolRetire                    (*  4 *)
| RegConway (c : Z)             (*  7 reg_cert            : deposit c *)
| UnregConway (c : Z)           (*  8 unreg_cert          : refund c *)
| VoteDeleg                     (*  9 *)
| StakeVoteDeleg                (* 10 *)
| RegDeleg (c : Z)              (* 11 stake_reg_deleg_cert      : deposit c *)
| RegVoteDeleg (c : Z)          (* 12 vote_reg_deleg_cert       : deposit c *)
| RegDelegVoteDeleg (c : Z)     (* 13 stake_vote_reg_deleg_cert : deposit c *)
| AuthHot                       (* 14 *)
| ResignCold                    (* 15 *)
| RegDRep (c : Z)               (* 16 reg_drep_cert   : deposit c *)
| UnregDRep (c : Z)             (* 17 unreg_drep_cert : refund c *)
| UpdateDRep.                   (* 18 *)

(* the part of the ledger environment / state the balance rule reads *)
Record params := mkParams {
  key_deposit : Z;
  pool_deposit : Z;
  pool_registered : bytes -> bool       (* is this pool id already registered on chain *)
}.

Definition memb (x : bytes) (s : list bytes) : bool := existsb (bytes_eqb x) s.

Definition deposit_of (pp : params) (c : cert) : Z :=
  match c with
  | StakeReg => key_deposit pp
  | RegConway d | RegDeleg d | RegVoteDeleg d | RegDelegVoteDeleg d | RegDRep d => d
  | _ => 0
  end.
Definition refund_of (pp : params) (c : cert) : Z :=
  match c with
  | StakeDereg => key_deposit pp
  | UnregConway d | UnregDRep d => d
  | _ => 0
  end.

(* certificates are processed in order; a pool registration pays pool_deposit unless the pool is
   registered already — on chain or by an earlier certificate of the same transaction *)
Fixpoint deposits_from (pp : params) (seen : list bytes) (cs : list cert) : Z :=
  match cs with
  | [] => 0
  | PoolReg op :: r =>
      if pool_registered pp op || memb op seen then deposits_from pp seen r
      else pool_deposit pp + deposits_from pp (op :: seen) r
  | c :: r => deposit_of pp c + deposits_from pp seen r
  end.
Definition deposits (pp : params) (cs : list cert) : Z := deposits_from pp [] cs.
Definition refunds (pp : params) (cs : list cert) : Z := Zsum (map (refund_of pp) cs).

Definition sum_coin (vs : list value) : Z := Zsum (map coin vs).
Definition sum_content (ms : list masset) (p n : bytes) : Z := Zsum (map (fun m => content m p n) ms).
Definition sum_tok (vs : list value) (p n : bytes) : Z := sum_content (map massets vs) p n.

(* consumed = produced, for ADA and for every asset (p, n):
   inputs + withdrawals + positive mint + refunds = outputs + fee + burn + deposits (certificates and proposals) + donation *)
Definition Balanced (pp : params) (ins : list value) (mint : masset) (wdrl : list Z) (certs : list cert)
           (props : list Z) (donation : Z) (outs : list value) (fee : Z) : Prop :=
  sum_coin ins + Zsum wdrl + refunds pp certs
    = sum_coin outs + fee + deposits pp certs + Zsum props + donation
  /\ forall p n, sum_tok ins p n + Z.max 0 (content mint p n) = sum_tok outs p n + Z.max 0 (- content mint p n).

(* decision procedure: the asset equation only has to be checked on the asset ids that occur *)
Definition asset_ids (m : masset) : list (bytes * bytes) :=
  flat_map (fun pa => map (fun nq => (fst pa, fst nq)) (snd pa)) m.
Definition balanced (pp : params) (ins : list value) (mint : masset) (wdrl : list Z) (certs : list cert)
           (props : list Z) (donation : Z) (outs : list value) (fee : Z) : bool :=
  (sum_coin ins + Zsum wdrl + refunds pp certs
     =? sum_coin outs + fee + deposits pp certs + Zsum props + donation)
  && forallb (fun pn => sum_tok ins (fst pn) (snd pn) + Z.max 0 (content mint (fst pn) (snd pn))
                        =? sum_tok outs (fst pn) (snd pn) + Z.max 0 (- content mint (fst pn) (snd pn)))
             (flat_map asset_ids (mint :: map massets (ins ++ outs))).

(* ================================================================= MODEL *)
(* ---- _get_total_key_deposit (txbuilder.py:937-979) ---- *)
Definition set_add (x : bytes) (s : list bytes) : list bytes := if memb x s then s else s ++ [x].
Record kd_acc := mkAcc { k_count : Z; k_explicit : Z; k_refund : Z; k_pools : list bytes }.
Definition kd_step (kd : Z) (initial : bool) (a : kd_acc) (c : cert) : kd_acc :=
  match c with
  | StakeReg => mkAcc (k_count a + 1) (k_explicit a) (k_refund a) (k_pools a)
  | RegDRep d | RegConway d | RegDeleg d | RegVoteDeleg d | RegDelegVoteDeleg d =>
      mkAcc (k_count a) (k_explicit a + d) (k_refund a) (k_pools a)
  | StakeDereg => mkAcc (k_count a) (k_explicit a) (k_refund a + kd) (k_pools a)
  | UnregConway d | UnregDRep d => mkAcc (k_count a) (k_explicit a) (k_refund a + d) (k_pools a)
  | PoolReg op => if initial then mkAcc (k_count a) (k_explicit a) (k_refund a) (set_add op (k_pools a)) else a
  | _ => a
  end.
Definition total_key_deposit (kd pd : Z) (initial : bool) (certs : list cert) : Z :=
  let a := fold_left (kd_step kd initial) certs (mkAcc 0 0 0 []) in
  (kd * k_count a + k_explicit a) + pd * Z.of_nat (length (k_pools a)) - k_refund a.

(* ---- _get_total_proposal_deposit (txbuilder.py:981-986) ---- *)
Definition total_proposal_deposit (props : list Z) : Z := fold_left Z.add props 0.

(* the builder fields _calc_change reads besides its arguments *)
Record bstate := mkB {
  b_mint : masset;          (* self.mint, [] when None *)
  b_wdrl : list Z;          (* self.withdrawals.values() *)
  b_certs : list cert;      (* self.certificates *)
  b_initial : bool;         (* self.initial_stake_pool_registration *)
  b_props : list Z;         (* deposits of self.proposal_procedures (an ordered set) *)
  b_donation : Z;           (* self.donation or 0 *)
  b_kd : Z; b_pd : Z        (* protocol_param.key_deposit / pool_deposit *)
}.

Inductive cc_err := ErrInvalidTx | ErrInsufficient.
Definition pos (_ _ : bytes) (q : Z) : bool := 0 <? q.

Definition requested (fee : Z) (outs : list value) : value := fold_left v_add outs (mkValue fee []).
Definition provided (st : bstate) (ins : list value) : value :=
  let p0 := fold_left v_add ins (mkValue 0 []) in
  let p1 := if is_nil (b_mint st) then p0 else mkValue (coin p0) (m_add (massets p0) (b_mint st)) in
  let c2 := fold_left Z.add (b_wdrl st) (coin p1) in
  mkValue (c2 - total_key_deposit (b_kd st) (b_pd st) (b_initial st) (b_certs st)
              - total_proposal_deposit (b_props st) - b_donation st) (massets p1).
(* change = provided - requested, non-positive entries removed *)
Definition change_of (st : bstate) (fee : Z) (ins outs : list value) : value :=
  let ch0 := v_sub (provided st ins) (requested fee outs) in
  if is_nil (massets ch0) then ch0 else mkValue (coin ch0) (m_filter pos (massets ch0)).

Section Calc.
  (* min_lovelace_post_alonzo (TransactionOutput (change address, v)) *)
  Variable minada : value -> Z.
  (* the packing decision: what _pack_tokens_for_change (address, change, max_val_size) returns;
     None = it raises InvalidTransactionException *)
  Variable pack : value -> option (list masset).

  (* the loop txbuilder.py:684-711 *)
  Fixpoint change_loop (respect : bool) (arr : list masset) (change : value) : cc_err + list value :=
    match arr with
    | [] => inr []
    | ma :: rest =>
        if (coin change <? 0) || (respect && (coin change <? minada (mkValue 0 ma))) then inl ErrInsufficient
        else
          let cv := if is_nil rest then mkValue (coin change) ma else mkValue (minada (mkValue 0 ma)) ma in
          let ch1 := v_sub change cv in
          let ch2 := mkValue (coin ch1) (m_filter pos (massets ch1)) in
          match change_loop respect rest ch2 with
          | inl e => inl e
          | inr l => inr (cv :: l)
          end
    end.

  (* _calc_change (fees, inputs, outputs, address, respect_min_utxo) -> amounts of the change outputs *)
  Definition calc_change (st : bstate) (respect : bool) (fee : Z) (ins outs : list value) : cc_err + list value :=
    if negb (v_lt (requested fee outs) (provided st ins)) then inl ErrInvalidTx
    else
      let ch := change_of st fee ins outs in
      if is_nil (massets ch) then
        if respect && (coin ch <? minada ch) then inl ErrInsufficient
        else inr [mkValue (coin ch) []]
      else match pack ch with
           | None => inl ErrInvalidTx
           | Some arr => change_loop respect arr ch
           end.

  (* ---- _add_change_and_fee (txbuilder.py:715-771), change_address given ----
     an output is (does its address equal the change address, amount) *)
  Definition output := (bool * value)%type.
  Fixpoint find_idx (i : nat) (cur : option nat) (outs : list output) : option nat :=
    match outs with
    | [] => cur
    | (same, v) :: r =>
        let cur' := if same then (match cur with
                                  | None => Some i
                                  | Some _ => if coin v =? 0 then Some i else cur
                                  end) else cur in
        find_idx (S i) cur' r
    end.
  Fixpoint update_nth (i : nat) (f : value -> value) (outs : list output) : list output :=
    match outs, i with
    | [], _ => []
    | (s, v) :: r, O => (s, f v) :: r
    | o :: r, S k => o :: update_nth k f r
    end.
  (* _merge_changes: changes that are not merged although merge_change is set were computed without the
     minimum-ADA check and must pass it now (fix commit f703c57) *)
  Definition merge_changes (merge : bool) (idx : option nat) (changes : list value) (outs : list output)
    : cc_err + list output :=
    match idx, changes with
    | Some i, [c] => inr (update_nth i (fun v => v_add c v) outs)
    | _, _ => if merge && existsb (fun c => coin c <? minada c) changes then inl ErrInsufficient
              else inr (outs ++ map (fun c => (true, c)) changes)
    end.

  (* one pass: _calc_change at the given fee, then _merge_changes *)
  Definition acf_pass (st : bstate) (merge : bool) (idx : option nat) (fee : Z) (ins : list value) (outs : list output)
    : cc_err + list output :=
    match calc_change st (negb merge) fee ins (map snd outs) with
    | inl e => inl e
    | inr chs => merge_changes merge idx chs outs
    end.

  (* with the two fee estimates given *)
  Definition acf_with (st : bstate) (merge : bool) (ins : list value) (outs : list output) (fee1 fee2 : Z)
    : cc_err + (list output * Z) :=
    let idx := if merge then find_idx 0 None outs else None in
    match acf_pass st merge idx fee1 ins outs with
    | inl e => inl e
    | inr _ =>
        match acf_pass st merge idx fee2 ins outs with
        | inl e => inl e
        | inr outs2 => inr (outs2, fee2)
        end
    end.

  (* est outs fee = what _estimate_fee () returns when the builder holds these outputs and this fee
     (everything else is constant while _add_change_and_fee runs) *)
  Definition add_change_and_fee (est : list output -> Z -> Z) (st : bstate) (merge : bool) (ins : list value)
             (outs : list output) (fee0 : Z) : cc_err + (list output * Z) :=
    let idx := if merge then find_idx 0 None outs else None in
    let fee1 := est outs fee0 in
    match acf_pass st merge idx fee1 ins outs with
    | inl e => inl e
    | inr outs1 =>
        let fee2 := est outs1 fee1 in
        match acf_pass st merge idx fee2 ins outs with
        | inl e => inl e
        | inr outs2 => inr (outs2, fee2)
        end
    end.
End Calc.

(* ---- build (): the accounting before UTxO selection (txbuilder.py:1314-1403) ---- *)
Record utxo := mkU { u_txid : bytes; u_ix : N; u_addr : bytes; u_val : value }.
Definition txin_eqb (a b : bytes * N) : bool := bytes_eqb (fst a) (fst b) && (snd a =? snd b)%N.
Definition u_in (u : utxo) : bytes * N := (u_txid u, u_ix u).
(* UTxO.__eq__ : dataclass equality of input and output (amounts compare by content) *)
Definition utxo_eqb (a b : utxo) : bool :=
  txin_eqb (u_in a) (u_in b) && bytes_eqb (u_addr a) (u_addr b) && v_eq (u_val a) (u_val b).
(* `if i in selected_utxos: continue` *)
Definition dedup_utxos (l : list utxo) : list utxo :=
  fold_left (fun acc u => if existsb (utxo_eqb u) acc then acc else acc ++ [u]) l [].

Definition mint_pos_items (mint : masset) : list value :=
  flat_map (fun pa => flat_map (fun nq => if 0 <? snd nq then [mkValue 0 [(fst pa, [(fst nq, snd nq)])]] else []) (snd pa)) mint.
Definition mint_neg_items (mint : masset) : list value :=
  flat_map (fun pa => flat_map (fun nq => if snd nq <? 0 then [mkValue 0 [(fst pa, [(fst nq, - snd nq)])]] else []) (snd pa)) mint.

Definition selected_amount (st : bstate) (explicit : list utxo) : value :=
  let s0 := fold_left v_add (map u_val (dedup_utxos explicit)) (mkValue 0 []) in
  let s1 := fold_left v_add (mint_pos_items (b_mint st)) s0 in
  let c2 := fold_left Z.add (b_wdrl st) (coin s1) in
  mkValue (c2 - total_key_deposit (b_kd st) (b_pd st) (b_initial st) (b_certs st)
              - total_proposal_deposit (b_props st) - b_donation st) (massets s1).
Definition requested_amount (st : bstate) (outs : list value) (fee0 : Z) : value :=
  let r0 := fold_left v_add outs (mkValue 0 []) in
  let r1 := fold_left v_add (mint_neg_items (b_mint st)) r0 in
  v_add r1 (mkValue fee0 []).
Definition in_bundle (m : masset) (p n : bytes) (_ : Z) : bool :=
  match dget m p with Some a => dmem a n | None => false end.
Definition trimmed (sel req : value) : value := mkValue (coin sel) (m_filter (in_bundle (massets req)) (massets sel)).

(* unfulfilled_amount; top_up = has a change address and cannot merge; minada is evaluated for the change address *)
Definition unfulfilled (minada : value -> Z) (top_up : bool) (sel req : value) : value :=
  let tr := trimmed sel req in
  let u0 := v_sub req tr in
  let c := if top_up then (if coin u0 <? 0 then Z.max 0 (coin u0 + minada (v_sub sel tr)) else coin u0)
           else Z.max 0 (coin u0) in
  mkValue c (m_filter pos (massets u0)).
Definition needs_selection (u : value) : bool := v_lt (mkValue 0 []) u.

(* ---- _build_tx_body: inputs = OrderedSet of the transaction inputs of self.inputs ---- *)
Definition dedup_txins (l : list (bytes * N)) : list (bytes * N) :=
  fold_left (fun acc i => if existsb (txin_eqb i) acc then acc else acc ++ [i]) l [].
Fixpoint resolve (m : list utxo) (i : bytes * N) : option value :=
  match m with
  | [] => None
  | u :: r => if txin_eqb (u_in u) i then Some (u_val u) else resolve r i
  end.

(* ================================================================= concrete size functions *)
(* serialized post-alonzo output {0: address, 1: amount}: 1 (map head) + 1 + |bytes address| + 1 + |amount| *)
Definition out_size (addr : bytes) (v : value) : N := 3 + lenN (enc (CB addr)) + lenN (value_cbor v).
(* utils.min_lovelace_post_alonzo for an output without datum / script *)
Definition minada_c (cpb : Z) (addr : bytes) (v : value) : Z :=
  let v' := if coin v =? 0 then mkValue 1000000 (massets v) else v in
  (160 + Z.of_N (out_size addr v')) * cpb.
(* len (amount with coin := max (its min ADA, maxc)).to_cbor () > max_val_size — the test of
   _adding_asset_make_output_overflow and of the final re-check in _pack_tokens_for_change; maxc is the whole
   change ADA, the most the output can receive (fix commit c8b4af1; before it the coin was the min ADA, i.e. maxc = 0) *)
Definition ovf_c (cpb : Z) (addr : bytes) (mvs : Z) (maxc : Z) (v : value) : bool :=
  mvs <? Z.of_N (lenN (value_cbor (mkValue (Z.max (minada_c cpb addr v) maxc) (massets v)))).

(* ---- _pack_tokens_for_change (txbuilder.py:811-876) over an arbitrary size test ---- *)
Section Pack.
  Variable ovf : value -> bool.
  (* Value (0, MultiAsset () += MultiAsset ({p: a})) *)
  Definition single (p : bytes) (a : asset) : value := mkValue 0 (m_add [] [(p, a)]).

  (* inner loop over the assets of policy p.  arr = bundles emitted so far, out = output.amount,
     temp = temp_assets, old = old_amount *)
  Fixpoint pack_assets (p : bytes) (assets : asset) (arr : list masset) (out : value) (temp : asset) (old : value)
    : list masset * value * asset * value :=
    match assets with
    | [] => (arr, out, temp, old)
    | (n, q) :: r =>
        if ovf (v_add (mkValue 0 [(p, a_add temp [(n, q)])]) out) then
          let out1 := if is_nil temp then out else v_add out (single p temp) in
          pack_assets p r (arr ++ [massets out1]) (mkValue 0 []) (a_add [] [(n, q)]) (mkValue 0 [])
        else pack_assets p r arr out (a_add temp [(n, q)]) old
    end.

  (* outer loop.  The final re-check raises InvalidTransactionException when it fires
     (fix commit "token change is never silently dropped when packing change outputs";
     the earlier code restored old_amount and left the loop, dropping the pending and all remaining policies) *)
  Fixpoint pack_policies (pols : masset) (arr : list masset) (out : value) : option (list masset) :=
    match pols with
    | [] => Some (arr ++ [massets out])
    | (p, assets) :: r =>
        match pack_assets p assets arr out [] out with
        | (arr1, out1, temp, old) =>
            let out2 := v_add out1 (single p temp) in
            if ovf out2 then None
            else pack_policies r arr1 out2
        end
    end.
  Definition pack_model (change : value) : option (list masset) :=
    pack_policies (massets change) [] (mkValue (coin change) []).

  (* the code before that fix, kept to state what was wrong with it (C06_pack_break_refuted) *)
  Fixpoint pack_policies_old (pols : masset) (arr : list masset) (out : value) : list masset :=
    match pols with
    | [] => arr ++ [massets out]
    | (p, assets) :: r =>
        match pack_assets p assets arr out [] out with
        | (arr1, out1, temp, old) =>
            let out2 := v_add out1 (single p temp) in
            if ovf out2 then arr1 ++ [massets old]
            else pack_policies_old r arr1 out2
        end
    end.
  Definition pack_model_old (change : value) : list masset :=
    pack_policies_old (massets change) [] (mkValue (coin change) []).
End Pack.

Definition pack_c (cpb : Z) (addr : bytes) (mvs : Z) (change : value) : option (list masset) :=
  pack_model (ovf_c cpb addr mvs (coin change)) change.

(* ================================================================= notions used by the theorems *)
Definition covers (arr : list masset) (m : masset) : Prop := forall p n, sum_content arr p n = content m p n.

(* the ledger environment the builder assumes: its own protocol parameters, and
   initial_stake_pool_registration = "none of the pools registered here is known to the chain" *)
Definition ledger_params (st : bstate) : params := mkParams (b_kd st) (b_pd st) (fun _ => negb (b_initial st)).


(* build () after selection: self.inputs = ins; _add_change_and_fee; _build_tx_body *)
Definition build_tail (minada : value -> Z) (pack : value -> option (list masset)) (est : list output -> Z -> Z)
           (st : bstate) (merge : bool) (ins : list utxo) (outs : list output) (fee0 : Z)
  : cc_err + (list (bytes * N) * list output * Z) :=
  match add_change_and_fee minada pack est st merge (map u_val ins) outs fee0 with
  | inl e => inl e
  | inr (outs', fee') => inr (dedup_txins (map u_in ins), outs', fee')
  end.

Fixpoint resolve_all (m : list utxo) (l : list (bytes * N)) : option (list value) :=
  match l with
  | [] => Some []
  | i :: r => match resolve m i, resolve_all m r with
              | Some v, Some vs => Some (v :: vs)
              | _, _ => None
              end
  end.

Definition ada_only (vs : list value) : Prop := Forall (fun v => massets v = []) vs.

(* a UTxO set is consistent when a transaction input determines the whole UTxO (true of any chain) *)
Definition consistent (l : list utxo) : Prop :=
  forall a b, In a l -> In b l -> u_in a = u_in b -> utxo_eqb b a = true.
