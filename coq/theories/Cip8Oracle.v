(* Cip8Oracle.v — glue for the C19 cases files: the abstract primitives of Cip8.v instantiated by
   finite tables (computed by the harness with an independent pure-Python RFC 8032 Ed25519 and
   hashlib.blake2b), explicit detection of table misses, the comparison of the model's outcome
   with the implementation's outcome, and the property's decision procedure applied to the
   implementation's own outputs. *)
From Coq Require Import NArith ZArith Ascii String List Bool.
From Coq Require Import Init.Byte.
From PyC Require Import Base Cbor Cip8.
Import ListNotations.
Open Scope N_scope.

(* ---------------- tables *)
Definition tblV := list (bytes * bytes * bytes * bool).       (* (vk, msg, sig) -> ed_verify *)
Fixpoint lookV (t : tblV) (vk m s : bytes) : option bool :=
  match t with
  | [] => None
  | (vk', m', s', b) :: r =>
      if bytes_eqb vk vk' && bytes_eqb s s' && bytes_eqb m m' then Some b else lookV r vk m s
  end.
Definition ev_of (t : tblV) : bytes -> bytes -> bytes -> bool :=
  fun vk m s => match lookV t vk m s with Some b => b | None => false end.

Definition tblF := list (bytes * bytes).                      (* unary functions: H28, ed_pub *)
Fixpoint lookF (t : tblF) (x : bytes) : option bytes :=
  match t with
  | [] => None
  | (x', y) :: r => if bytes_eqb x x' then Some y else lookF r x
  end.
Definition fn_of (t : tblF) : bytes -> bytes := fun x => match lookF t x with Some y => y | None => [] end.

Definition tblS := list (bytes * bytes * bytes).              (* (key, msg) -> signature *)
Fixpoint lookS (t : tblS) (k m : bytes) : option bytes :=
  match t with
  | [] => None
  | (k', m', s) :: r => if bytes_eqb k k' && bytes_eqb m m' then Some s else lookS r k m
  end.
Definition sg_of (t : tblS) : bytes -> bytes -> bytes := fun k m => match lookS t k m with Some s => s | None => [] end.

Definition tblB := list (bytes * option bytes).               (* bech32 text -> address bytes / failure *)
Fixpoint lookB (t : tblB) (x : bytes) : option (option bytes) :=
  match t with
  | [] => None
  | (x', y) :: r => if bytes_eqb x x' then Some y else lookB r x
  end.
Definition bech_of (t : tblB) : bytes -> option bytes := fun x => match lookB t x with Some y => y | None => None end.

(* ---------------- bit flips (the harness locates the regions; the flip itself is done here) *)
Fixpoint flip_nat (bs : bytes) (off : nat) (bit : N) : bytes :=
  match bs, off with
  | [], _ => []
  | b :: r, O => n2b (N.lxor (b2n b) (N.shiftl 1 bit)) :: r
  | b :: r, S o => b :: flip_nat r o bit
  end.
Definition flip (bs : bytes) (off bit : N) : bytes := flip_nat bs (N.to_nat off) bit.

(* base[0..off) ++ mid ++ base[off+n..) : long inputs written relative to a base definition *)
Definition splice (base : bytes) (off n : N) (mid : bytes) : bytes :=
  firstn (N.to_nat off) base ++ mid ++ skipn (N.to_nat (off + n)) base.

(* ---------------- implementation outcomes *)
Inductive iout :=
| IOk (v : bool) (msg : bytes) (hdr : N) (pay : option bytes) (stk : stake)
| IExc (name : string)
| IOther.

Definition err_name (e : err) : string :=
  match e with
  | EKeyError => "KeyError" | EAttributeError => "AttributeError" | ETypeError => "TypeError"
  | EValueError => "ValueError" | EIndexError => "IndexError" | EAssertionError => "AssertionError"
  | ECoseException => "CoseException" | ECoseIllegalAlgorithm => "CoseIllegalAlgorithm"
  | ECoseIllegalKeyOps => "CoseIllegalKeyOps" | ECoseIllegalKeyType => "CoseIllegalKeyType"
  | ECoseInvalidKey => "CoseInvalidKey" | ECoseUnsupportedCurve => "CoseUnsupportedCurve"
  | EDeserializeException => "DeserializeException" | EDecodingException => "DecodingException"
  | EUnicodeDecodeError => "UnicodeDecodeError" | EBadSignatureError => "BadSignatureError"
  | EUnmodelled => "?"
  end.

Definition optb_eqb (a b : option bytes) : bool :=
  match a, b with Some x, Some y => bytes_eqb x y | None, None => true | _, _ => false end.
Definition stake_eqb (a b : stake) : bool :=
  match a, b with
  | SNone, SNone => true
  | SHash x, SHash y => bytes_eqb x y
  | SPtr a1 a2 a3, SPtr b1 b2 b3 => (a1 =? b1) && (a2 =? b2) && (a3 =? b3)
  | _, _ => false
  end.
Definition addr_eqb (a : addr) (h : N) (p : option bytes) (s : stake) : bool :=
  (a_hdr a =? h) && optb_eqb (a_pay a) p && stake_eqb (a_stk a) s.

Definition out_match (r : res vresult) (o : iout) : bool :=
  match r, o with
  | Ok v, IOk b m h p s => Bool.eqb (verified v) b && bytes_eqb (message v) m && addr_eqb (address v) h p s
  | Err EUnmodelled, IExc _ => true
  | Err e, IExc n => String.eqb (err_name e) n
  | _, _ => false
  end.

(* ---------------- verify cases *)
Inductive vclass :=
| VOrig (k : skey) (net : network) (m : bytes) (tp : tblF)     (* verify(sign(m, k)) *)
| VTamper                                                       (* payload / protected / signature / key / address altered *)
| VNeutral.                                                     (* nothing the property speaks about: correspondence only *)

Record vcase := mkV { vc_sm : bytes; vc_key : option bytes; vc_tv : tblV; vc_th : tblF; vc_tb : tblB;
                      vc_class : vclass; vc_out : iout }.

Definition model_out (c : vcase) : res vresult :=
  cip8_verify (ev_of (vc_tv c)) (fn_of (vc_th c)) (bech_of (vc_tb c)) (vc_sm c) (vc_key c).

(* every question the model asks must be answered by a table entry *)
Definition tables_ok (c : vcase) : bool :=
  match cip8_pre (vc_sm c) (vc_key c) with
  | Err _ => true
  | Ok p =>
      match sig_query p with
      | Err _ => true
      | Ok (vk, m, s) =>
          match lookV (vc_tv c) vk m s with
          | None => false
          | Some _ =>
              match sig_step (ev_of (vc_tv c)) p with
              | Err _ => true
              | Ok _ =>
                  match lookF (vc_th c) (k_x (p_key p)) with None => false | Some _ => true end
                  && match lookup hkey_eqb addr_key (c_phdr (p_cose p)) with
                     | Some (CT t) => match lookB (vc_tb c) t with None => false | Some _ => true end
                     | _ => true
                     end
              end
          end
      end
  end.

Definition c19_corr (c : vcase) : bool := tables_ok c && out_match (model_out c) (vc_out c).
Definition c19_miss (c : vcase) : bool := negb (tables_ok c).

Definition is_success (o : iout) : bool :=
  match o with IOk true _ _ _ _ => true | IOk false _ _ _ _ => false | IExc _ => false | IOther => true end.

(* the property, decided on the implementation's output *)
Definition c19_oracle (c : vcase) : bool :=
  match vc_class c with
  | VOrig k net m tp =>
      match lookF tp (sk_payload k), lookF (vc_th c) (vk_of (fn_of tp) k) with
      | (Some _ | None), Some _ =>
          if sk_ext k || match lookF tp (sk_payload k) with Some _ => true | None => false end then
            let a := addr_of_key (fn_of tp) (fn_of (vc_th c)) k net in
            match vc_out c with
            | IOk true m' h p s => bytes_eqb m' m && addr_eqb a h p s
            | _ => false
            end
          else false
      | _, None => false
      end
  | VTamper => negb (is_success (vc_out c))
  | VNeutral => true
  end.

(* (model differs from implementation, property fails on the implementation's output, table miss),
   the model being evaluated once per case *)
Definition c19_flags (c : vcase) : bool * bool * bool :=
  let t := tables_ok c in
  (negb (t && out_match (model_out c) (vc_out c)), negb (c19_oracle c), negb t).

(* ---------------- sign cases *)
Record scase := mkS { sc_key : skey; sc_net : network; sc_attach : bool; sc_msg : bytes;
                      sc_tp : tblF; sc_ts : tblS; sc_tx : tblS; sc_th : tblF;
                      sc_sig : bytes; sc_ckey : option bytes }.

Definition sign_tables_ok (c : scase) : bool :=
  let k := sc_key c in
  (sk_ext k || match lookF (sc_tp c) (sk_payload k) with Some _ => true | None => false end)
  && (let vk := vk_of (fn_of (sc_tp c)) k in
      match lookF (sc_th c) vk with
      | None => false
      | Some _ =>
          let tbs := sig_structure (sign_prot (fn_of (sc_tp c)) (fn_of (sc_th c)) k (sc_attach c) (sc_net c)) (sc_msg c) in
          if sk_ext k then match lookS (sc_tx c) (firstn 64 (sk_payload k)) tbs with Some _ => true | None => false end
          else match lookS (sc_ts c) (sk_payload k) tbs with Some _ => true | None => false end
      end).

Definition c19_sign_corr (c : scase) : bool :=
  sign_tables_ok c &&
  let '(s, ck) := cip8_sign (fn_of (sc_tp c)) (sg_of (sc_ts c)) (sg_of (sc_tx c)) (fn_of (sc_th c))
                            (sc_msg c) (sc_key c) (sc_attach c) (sc_net c) in
  bytes_eqb s (sc_sig c) && optb_eqb ck (sc_ckey c).
