(* BalanceProofs.v — C06: proofs about Balance.v (ledger balance spec versus the builder slice). *)
From Coq Require Import NArith ZArith Ascii String List Bool Lia Permutation.
From PyC Require Import Base Cbor Dict Value ValueProofs ValueCanon Balance.
Import ListNotations.
Open Scope Z_scope.

(* ================================================================= generic sums *)
Lemma Zsum_app a b : Zsum (a ++ b) = Zsum a + Zsum b.
Proof.
  induction a as [|x a IH]; [reflexivity|].
  change (Zsum (x :: (a ++ b)) = Zsum (x :: a) + Zsum b). change (x + Zsum (a ++ b) = x + Zsum a + Zsum b). lia.
Qed.
Lemma Zsum_cons x l : Zsum (x :: l) = x + Zsum l.
Proof. reflexivity. Qed.
Lemma fold_add_Zsum l : forall a, fold_left Z.add l a = a + Zsum l.
Proof.
  induction l as [|x l IH]; intros a; cbn [fold_left]; [change (Zsum []) with 0; lia | rewrite IH, Zsum_cons; lia].
Qed.
Lemma sum_coin_app a b : sum_coin (a ++ b) = sum_coin a + sum_coin b.
Proof. unfold sum_coin. now rewrite map_app, Zsum_app. Qed.
Lemma sum_content_app a b p n : sum_content (a ++ b) p n = sum_content a p n + sum_content b p n.
Proof. unfold sum_content. now rewrite map_app, Zsum_app. Qed.
Lemma sum_tok_app a b p n : sum_tok (a ++ b) p n = sum_tok a p n + sum_tok b p n.
Proof. unfold sum_tok. now rewrite map_app, sum_content_app. Qed.
Lemma sum_coin_cons v l : sum_coin (v :: l) = coin v + sum_coin l.
Proof. reflexivity. Qed.
Lemma sum_tok_cons v l p n : sum_tok (v :: l) p n = content (massets v) p n + sum_tok l p n.
Proof. reflexivity. Qed.
Lemma sum_content_cons m l p n : sum_content (m :: l) p n = content m p n + sum_content l p n.
Proof. reflexivity. Qed.

(* ================================================================= the decision procedure decides the spec *)
Lemma content_notin_ids m p n : ~ In (p, n) (asset_ids m) -> content m p n = 0.
Proof.
  intros H. unfold content, aget, mget.
  destruct (dget m p) as [a|] eqn:E; [|reflexivity].
  destruct (dget a n) as [q|] eqn:E2; [|reflexivity].
  exfalso. apply H. unfold asset_ids. apply in_flat_map.
  exists (p, a). split; [now apply dget_In|]. cbn.
  apply in_map_iff. exists (n, q). split; [reflexivity | now apply dget_In].
Qed.

Lemma sum_content_notin ms p n : (forall m, In m ms -> ~ In (p, n) (asset_ids m)) -> sum_content ms p n = 0.
Proof.
  induction ms as [|m ms IH]; intros H; [reflexivity|].
  rewrite sum_content_cons, content_notin_ids, IH; [reflexivity| |].
  - intros m' Hm. apply H. now right.
  - apply H. now left.
Qed.

Lemma pair_eq_dec (a b : bytes * bytes) : {a = b} + {a <> b}.
Proof. decide equality; apply bytes_eq_dec. Qed.

Theorem balanced_iff pp ins mint wdrl certs props don outs fee :
  balanced pp ins mint wdrl certs props don outs fee = true
  <-> Balanced pp ins mint wdrl certs props don outs fee.
Proof.
  unfold balanced, Balanced. rewrite andb_true_iff, Z.eqb_eq, forallb_forall. split.
  - intros [Hc Ht]. split; [exact Hc|]. intros p n.
    set (ids := flat_map asset_ids (mint :: map massets (ins ++ outs))) in *.
    destruct (in_dec pair_eq_dec (p, n) ids) as [I|I].
    + apply Ht in I. cbn in I. now apply Z.eqb_eq in I.
    + assert (N : forall m, In m (mint :: map massets (ins ++ outs)) -> ~ In (p, n) (asset_ids m)).
      { intros m Hm X. apply I. unfold ids. apply in_flat_map. now exists m. }
      assert (Hm : content mint p n = 0) by (apply content_notin_ids, N; now left).
      assert (Hi : sum_tok ins p n = 0).
      { apply sum_content_notin. intros m Hm'. apply N. right. rewrite map_app. apply in_or_app. now left. }
      assert (Ho : sum_tok outs p n = 0).
      { apply sum_content_notin. intros m Hm'. apply N. right. rewrite map_app. apply in_or_app. now right. }
      rewrite Hm, Hi, Ho. reflexivity.
  - intros [Hc Ht]. split; [exact Hc|]. intros [p n] _. cbn. apply Z.eqb_eq, Ht.
Qed.

(* ================================================================= deposits *)
Lemma deposits_from_ext pp cs : forall s1 s2, (forall x, memb x s1 = memb x s2) ->
  deposits_from pp s1 cs = deposits_from pp s2 cs.
Proof.
  induction cs as [|c cs IH]; intros s1 s2 H; [reflexivity|].
  destruct c as [ | | |operator| |d|d| | |d|d|d| | |d|d| ]; cbn [deposits_from]; try (now rewrite (IH s1 s2 H)).
  rewrite (H operator). destruct (pool_registered pp operator || memb operator s2); [now apply IH|].
  f_equal. apply IH. intros x. unfold memb in *. cbn [existsb]. now rewrite H.
Qed.

Lemma memb_app x s y : memb x (s ++ [y]) = memb x s || bytes_eqb x y.
Proof. unfold memb. rewrite existsb_app. cbn. now rewrite orb_false_r. Qed.

Definition kd_val (kd pd : Z) (a : kd_acc) : Z :=
  (kd * k_count a + k_explicit a) + pd * Z.of_nat (length (k_pools a)) - k_refund a.

Lemma kd_fold kd pd initial certs : forall a,
  let pp := mkParams kd pd (fun _ => negb initial) in
  kd_val kd pd (fold_left (kd_step kd initial) certs a)
  = kd_val kd pd a + deposits_from pp (k_pools a) certs - refunds pp certs.
Proof.
  induction certs as [|c certs IH]; intros a pp; [unfold kd_val, refunds; cbn; lia|].
  cbn [fold_left]. rewrite IH. fold pp. unfold refunds. cbn [map]. rewrite Zsum_cons.
  destruct c as [ | | |operator| |d|d| | |d|d|d| | |d|d| ]; cbn [kd_step deposits_from deposit_of refund_of k_count k_explicit k_refund k_pools key_deposit pool_deposit pp];
    unfold kd_val; cbn [k_count k_explicit k_refund k_pools]; try lia.
  (* PoolReg *)
  unfold pp. cbn [pool_registered]. destruct initial; cbn [negb orb].
  - unfold set_add. destruct (memb operator (k_pools a)) eqn:M; cbn [k_count k_explicit k_refund k_pools]; [lia|].
    rewrite app_length. cbn [length].
    rewrite (deposits_from_ext (mkParams kd pd (fun _ => false)) certs (k_pools a ++ [operator]) (operator :: k_pools a)).
    + rewrite Nat2Z.inj_add. cbn [Z.of_nat length]. lia.
    + intros x. rewrite memb_app. unfold memb. cbn [existsb]. apply orb_comm.
  - lia.
Qed.

(* _get_total_key_deposit = deposits - refunds of the ledger, for EVERY certificate list, when the
   builder's flag says what the chain says about the pools (initial = none of them is registered yet) *)
Theorem key_deposit_spec kd pd initial certs :
  let pp := mkParams kd pd (fun _ => negb initial) in
  total_key_deposit kd pd initial certs = deposits pp certs - refunds pp certs.
Proof.
  intros pp. unfold total_key_deposit. change (kd_val kd pd (fold_left (kd_step kd initial) certs (mkAcc 0 0 0 [])) = deposits pp certs - refunds pp certs).
  rewrite kd_fold. unfold kd_val, deposits. cbn. lia.
Qed.

Lemma proposal_deposit_spec props : total_proposal_deposit props = Zsum props.
Proof. unfold total_proposal_deposit. rewrite fold_add_Zsum. lia. Qed.

(* ================================================================= folds of v_add *)
Lemma wfv_zero c : wfv (mkValue c []).
Proof. split; constructor. Qed.

Lemma fold_v_add_spec l : forall acc, wfv acc -> Forall wfv l ->
  coin (fold_left v_add l acc) = coin acc + sum_coin l
  /\ (forall p n, content (massets (fold_left v_add l acc)) p n = content (massets acc) p n + sum_tok l p n)
  /\ wfv (fold_left v_add l acc).
Proof.
  induction l as [|v l IH]; intros acc Wa Wl; cbn [fold_left].
  - repeat split; [unfold sum_coin; cbn; lia | intros; unfold sum_tok, sum_content; cbn; lia | exact Wa].
  - inversion Wl as [|? ? Wv Wl']; subst.
    destruct (v_add_spec acc v Wa Wv) as (C & M & _ & W).
    destruct (IH (v_add acc v) W Wl') as (C' & M' & W').
    repeat split; [rewrite C', C, sum_coin_cons; lia | intros p n; rewrite M', M, sum_tok_cons; lia | exact W'].
Qed.

(* ================================================================= _calc_change *)
Definition covers (arr : list masset) (m : masset) : Prop := forall p n, sum_content arr p n = content m p n.

Section CalcProofs.
  Variable minada : value -> Z.
  Variable pack : value -> option (list masset).

  Lemma wfv_requested fee outs : Forall wfv outs ->
    coin (requested fee outs) = fee + sum_coin outs
    /\ (forall p n, content (massets (requested fee outs)) p n = sum_tok outs p n)
    /\ wfv (requested fee outs).
  Proof.
    intros W. unfold requested. destruct (fold_v_add_spec outs (mkValue fee []) (wfv_zero fee) W) as (C & M & Wr).
    repeat split; [exact C | intros p n; rewrite M; reflexivity | exact Wr].
  Qed.

  Lemma wfv_provided st ins : Forall wfv ins -> wfm (b_mint st) ->
    coin (provided st ins) = sum_coin ins + Zsum (b_wdrl st)
                             - total_key_deposit (b_kd st) (b_pd st) (b_initial st) (b_certs st)
                             - total_proposal_deposit (b_props st) - b_donation st
    /\ (forall p n, content (massets (provided st ins)) p n = sum_tok ins p n + content (b_mint st) p n)
    /\ wfv (provided st ins).
  Proof.
    intros W Wm. unfold provided.
    destruct (fold_v_add_spec ins (mkValue 0 []) (wfv_zero 0) W) as (C & M & Wr).
    set (p0 := fold_left v_add ins (mkValue 0 [])) in *.
    destruct (is_nil (b_mint st)) eqn:E.
    - destruct (b_mint st); [|discriminate]. cbn [coin massets].
      repeat split; [rewrite fold_add_Zsum, C; cbn; lia | intros p n; rewrite M; cbn; lia | exact Wr].
    - cbn [coin massets]. repeat split.
      + rewrite fold_add_Zsum, C. cbn. lia.
      + intros p n. rewrite m_add_content by (exact Wr || exact Wm). rewrite M. cbn. lia.
      + apply m_add_wfm. exact Wr.
  Qed.

  Lemma filter_pos_content m p n : wfm m -> 0 <= content m p n -> content (m_filter pos m) p n = content m p n.
  Proof.
    intros W H. rewrite m_filter_content by exact W. unfold pos.
    destruct (0 <? content m p n) eqn:E; [reflexivity|].
    apply Z.ltb_ge in E. assert (Z0 : content m p n = 0) by lia.
    destruct (dget (mget m p) n); [lia | reflexivity].
  Qed.

  (* content and coin of the change value, when the refusal test passed *)
  Lemma change_of_spec st fee ins outs : Forall wfv ins -> Forall wfv outs -> wfm (b_mint st) ->
    v_lt (requested fee outs) (provided st ins) = true ->
    coin (change_of st fee ins outs) = coin (provided st ins) - coin (requested fee outs)
    /\ (forall p n, content (massets (change_of st fee ins outs)) p n
                    = content (massets (provided st ins)) p n - content (massets (requested fee outs)) p n)
    /\ wfv (change_of st fee ins outs).
  Proof.
    intros Wi Wo Wm L. apply v_lt_spec in L as [[Lc Lm] _].
    destruct (wfv_requested fee outs Wo) as (_ & _ & Wr).
    destruct (wfv_provided st ins Wi Wm) as (_ & _ & Wp).
    destruct (v_sub_spec _ _ Wp Wr) as (C & M & _ & Ws).
    unfold change_of. destruct (is_nil (massets (v_sub (provided st ins) (requested fee outs)))).
    - repeat split; assumption.
    - cbn [coin massets]. repeat split; [exact C | | apply m_filter_wfm; exact Ws].
      intros p n. rewrite filter_pos_content; [apply M | exact Ws |]. rewrite M. specialize (Lm p n). lia.
  Qed.

  (* the loop hands out exactly the coin it was given and exactly the bundles of the packing *)
  Lemma change_loop_sum respect : forall arr change chs, arr <> [] ->
    change_loop minada respect arr change = inr chs ->
    sum_coin chs = coin change /\ map massets chs = arr.
  Proof.
    induction arr as [|ma rest IH]; intros change chs NE H; [contradiction|].
    cbn [change_loop] in H.
    destruct ((coin change <? 0) || (respect && (coin change <? minada (mkValue 0 ma)))); [discriminate|].
    destruct rest as [|ma2 rest].
    - cbn in H. inversion H; subst. cbn. split; [unfold sum_coin; cbn; lia | reflexivity].
    - cbn [is_nil] in H.
      match type of H with context [change_loop minada respect (ma2 :: rest) ?c] =>
        destruct (change_loop minada respect (ma2 :: rest) c) as [e|l] eqn:E; [discriminate|];
        apply IH in E; [|discriminate] end.
      inversion H; subst. destruct E as [Ec Em]. split.
      + rewrite sum_coin_cons, Ec. cbn. lia.
      + cbn. now rewrite Em.
  Qed.

  (* calc_change_sum: whenever _calc_change returns change outputs,
       - their ADA adds up to provided - requested exactly;
       - their tokens are exactly the bundles of the packing; hence they add up to provided - requested
         for every asset IF AND ONLY IF the packing covers the change bundle *)
  Theorem calc_change_sum st respect fee ins outs chs :
    Forall wfv ins -> Forall wfv outs -> wfm (b_mint st) ->
    pack (change_of st fee ins outs) <> Some [] ->
    calc_change minada pack st respect fee ins outs = inr chs ->
    sum_coin chs = coin (provided st ins) - coin (requested fee outs)
    /\ ((forall p n, sum_tok chs p n = content (massets (provided st ins)) p n - content (massets (requested fee outs)) p n)
        <-> (forall arr, is_nil (massets (change_of st fee ins outs)) = false ->
                         pack (change_of st fee ins outs) = Some arr ->
                         covers arr (massets (change_of st fee ins outs)))).
  Proof.
    intros Wi Wo Wm NE H. unfold calc_change in H.
    destruct (v_lt (requested fee outs) (provided st ins)) eqn:L; [|discriminate]. cbn [negb] in H.
    destruct (change_of_spec st fee ins outs Wi Wo Wm L) as (C & M & W).
    set (ch := change_of st fee ins outs) in *.
    destruct (is_nil (massets ch)) eqn:E.
    - destruct (respect && (coin ch <? minada ch)); [discriminate|]. inversion H; subst.
      split; [unfold sum_coin; cbn; lia|]. split; [intros _ arr X; discriminate|]. intros _ p n.
      rewrite <- M. destruct (massets ch); [|discriminate]. reflexivity.
    - destruct (pack ch) as [arr|] eqn:P; [|discriminate].
      apply change_loop_sum in H as [Hc Hm]; [|intros ->; now apply NE]. split; [lia|].
      unfold covers. unfold sum_tok. rewrite Hm. split.
      + intros X arr' _ Ha p n. inversion Ha; subst arr'. rewrite X. symmetry. apply M.
      + intros X p n. rewrite (X arr eq_refl eq_refl). apply M.
  Qed.
End CalcProofs.
