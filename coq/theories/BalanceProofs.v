(* BalanceProofs.v — C06: proofs about Balance.v (ledger balance spec versus the builder slice). *)
From Coq Require Import NArith ZArith Ascii String List Bool Lia Permutation.
From PyC Require Import Base Cbor Dict Value ValueProofs ValueCanon Balance.
Import ListNotations.
Open Scope Z_scope.

(* ================================================================= generic sums *)
Lemma Zsum_app a b : Zsum (a ++ b) = Zsum a + Zsum b.
Proof.
  induction a as [|x a IH]; [reflexivity|].
  change (Zsum (x :: (a ++ b)) = Zsum (x :: a) + Zsum b). change (x + Zsum (a ++ b) = x + Zsum a + Zsum b). lia.
Qed.
Lemma Zsum_cons x l : Zsum (x :: l) = x + Zsum l.
Proof. reflexivity. Qed.
Lemma fold_add_Zsum l : forall a, fold_left Z.add l a = a + Zsum l.
Proof.
  induction l as [|x l IH]; intros a; cbn [fold_left]; [change (Zsum []) with 0; lia | rewrite IH, Zsum_cons; lia].
Qed.
Lemma sum_coin_app a b : sum_coin (a ++ b) = sum_coin a + sum_coin b.
Proof. unfold sum_coin. now rewrite map_app, Zsum_app. Qed.
Lemma sum_content_app a b p n : sum_content (a ++ b) p n = sum_content a p n + sum_content b p n.
Proof. unfold sum_content. now rewrite map_app, Zsum_app. Qed.
Lemma sum_tok_app a b p n : sum_tok (a ++ b) p n = sum_tok a p n + sum_tok b p n.
Proof. unfold sum_tok. now rewrite map_app, sum_content_app. Qed.
Lemma sum_coin_cons v l : sum_coin (v :: l) = coin v + sum_coin l.
Proof. reflexivity. Qed.
Lemma sum_coin_single v : sum_coin [v] = coin v.
Proof. unfold sum_coin. cbn [map]. rewrite Zsum_cons. change (Zsum []) with 0. lia. Qed.
Lemma sum_tok_cons v l p n : sum_tok (v :: l) p n = content (massets v) p n + sum_tok l p n.
Proof. reflexivity. Qed.
Lemma sum_content_nil p n : sum_content [] p n = 0.
Proof. reflexivity. Qed.
Lemma sum_content_cons m l p n : sum_content (m :: l) p n = content m p n + sum_content l p n.
Proof. reflexivity. Qed.

(* ================================================================= the decision procedure decides the spec *)
Lemma content_notin_ids m p n : ~ In (p, n) (asset_ids m) -> content m p n = 0.
Proof.
  intros H. unfold content, aget, mget.
  destruct (dget m p) as [a|] eqn:E; [|reflexivity].
  destruct (dget a n) as [q|] eqn:E2; [|reflexivity].
  exfalso. apply H. unfold asset_ids. apply in_flat_map.
  exists (p, a). split; [now apply dget_In|]. cbn.
  apply in_map_iff. exists (n, q). split; [reflexivity | now apply dget_In].
Qed.

Lemma sum_content_notin ms p n : (forall m, In m ms -> ~ In (p, n) (asset_ids m)) -> sum_content ms p n = 0.
Proof.
  induction ms as [|m ms IH]; intros H; [reflexivity|].
  rewrite sum_content_cons, content_notin_ids, IH; [reflexivity| |].
  - intros m' Hm. apply H. now right.
  - apply H. now left.
Qed.

Lemma pair_eq_dec (a b : bytes * bytes) : {a = b} + {a <> b}.
Proof. decide equality; apply bytes_eq_dec. Qed.

Theorem balanced_iff pp ins mint wdrl certs props don outs fee :
  balanced pp ins mint wdrl certs props don outs fee = true
  <-> Balanced pp ins mint wdrl certs props don outs fee.
Proof.
  unfold balanced, Balanced. rewrite andb_true_iff, Z.eqb_eq, forallb_forall. split.
  - intros [Hc Ht]. split; [exact Hc|]. intros p n.
    set (ids := flat_map asset_ids (mint :: map massets (ins ++ outs))) in *.
    destruct (in_dec pair_eq_dec (p, n) ids) as [I|I].
    + apply Ht in I. cbn in I. now apply Z.eqb_eq in I.
    + assert (N : forall m, In m (mint :: map massets (ins ++ outs)) -> ~ In (p, n) (asset_ids m)).
      { intros m Hm X. apply I. unfold ids. apply in_flat_map. now exists m. }
      assert (Hm : content mint p n = 0) by (apply content_notin_ids, N; now left).
      assert (Hi : sum_tok ins p n = 0).
      { apply sum_content_notin. intros m Hm'. apply N. right. rewrite map_app. apply in_or_app. now left. }
      assert (Ho : sum_tok outs p n = 0).
      { apply sum_content_notin. intros m Hm'. apply N. right. rewrite map_app. apply in_or_app. now right. }
      rewrite Hm, Hi, Ho. reflexivity.
  - intros [Hc Ht]. split; [exact Hc|]. intros [p n] _. cbn. apply Z.eqb_eq, Ht.
Qed.

(* ================================================================= deposits *)
Lemma deposits_from_ext pp cs : forall s1 s2, (forall x, memb x s1 = memb x s2) ->
  deposits_from pp s1 cs = deposits_from pp s2 cs.
Proof.
  induction cs as [|c cs IH]; intros s1 s2 H; [reflexivity|].
  destruct c as [ | | |operator| |d|d| | |d|d|d| | |d|d| ]; cbn [deposits_from]; try (now rewrite (IH s1 s2 H)).
  rewrite (H operator). destruct (pool_registered pp operator || memb operator s2); [now apply IH|].
  f_equal. apply IH. intros x. unfold memb in *. cbn [existsb]. now rewrite H.
Qed.

Lemma memb_app x s y : memb x (s ++ [y]) = memb x s || bytes_eqb x y.
Proof. unfold memb. rewrite existsb_app. cbn. now rewrite orb_false_r. Qed.

Definition kd_val (kd pd : Z) (a : kd_acc) : Z :=
  (kd * k_count a + k_explicit a) + pd * Z.of_nat (length (k_pools a)) - k_refund a.

Lemma kd_fold kd pd initial certs : forall a,
  let pp := mkParams kd pd (fun _ => negb initial) in
  kd_val kd pd (fold_left (kd_step kd initial) certs a)
  = kd_val kd pd a + deposits_from pp (k_pools a) certs - refunds pp certs.
Proof.
  induction certs as [|c certs IH]; intros a pp; [unfold kd_val, refunds; cbn; lia|].
  cbn [fold_left]. rewrite IH. fold pp. unfold refunds. cbn [map]. rewrite Zsum_cons.
  destruct c as [ | | |operator| |d|d| | |d|d|d| | |d|d| ]; cbn [kd_step deposits_from deposit_of refund_of k_count k_explicit k_refund k_pools key_deposit pool_deposit pp];
    unfold kd_val; cbn [k_count k_explicit k_refund k_pools]; try lia.
  (* PoolReg *)
  unfold pp. cbn [pool_registered]. destruct initial; cbn [negb orb].
  - unfold set_add. destruct (memb operator (k_pools a)) eqn:M; cbn [k_count k_explicit k_refund k_pools]; [lia|].
    rewrite app_length. cbn [length].
    rewrite (deposits_from_ext (mkParams kd pd (fun _ => false)) certs (k_pools a ++ [operator]) (operator :: k_pools a)).
    + rewrite Nat2Z.inj_add. cbn [Z.of_nat length]. lia.
    + intros x. rewrite memb_app. unfold memb. cbn [existsb]. apply orb_comm.
  - lia.
Qed.

(* _get_total_key_deposit = deposits - refunds of the ledger, for EVERY certificate list, when the
   builder's flag says what the chain says about the pools (initial = none of them is registered yet) *)
Theorem key_deposit_spec kd pd initial certs :
  let pp := mkParams kd pd (fun _ => negb initial) in
  total_key_deposit kd pd initial certs = deposits pp certs - refunds pp certs.
Proof.
  intros pp. pose proof (kd_fold kd pd initial certs (mkAcc 0 0 0 [])) as H. cbv zeta in H.
  unfold kd_val in H. cbn [k_count k_explicit k_refund k_pools length Z.of_nat] in H.
  unfold total_key_deposit, deposits. subst pp. lia.
Qed.

Lemma proposal_deposit_spec props : total_proposal_deposit props = Zsum props.
Proof. unfold total_proposal_deposit. rewrite fold_add_Zsum. lia. Qed.

(* ================================================================= folds of v_add *)
Lemma wfv_zero c : wfv (mkValue c []).
Proof. split; constructor. Qed.

Lemma fold_v_add_spec l : forall acc, wfv acc -> Forall wfv l ->
  coin (fold_left v_add l acc) = coin acc + sum_coin l
  /\ (forall p n, content (massets (fold_left v_add l acc)) p n = content (massets acc) p n + sum_tok l p n)
  /\ wfv (fold_left v_add l acc).
Proof.
  induction l as [|v l IH]; intros acc Wa Wl; cbn [fold_left].
  - split; [|split]; [unfold sum_coin; cbn; lia | intros; unfold sum_tok, sum_content; cbn; lia | exact Wa].
  - inversion Wl as [|? ? Wv Wl']; subst.
    destruct (v_add_spec acc v Wa Wv) as (C & M & _ & W).
    destruct (IH (v_add acc v) W Wl') as (C' & M' & W').
    split; [|split]; [rewrite C', C, sum_coin_cons; lia | intros p n; rewrite M', M, sum_tok_cons; lia | exact W'].
Qed.

(* ================================================================= _calc_change *)

  Lemma wfv_requested fee outs : Forall wfv outs ->
    coin (requested fee outs) = fee + sum_coin outs
    /\ (forall p n, content (massets (requested fee outs)) p n = sum_tok outs p n)
    /\ wfv (requested fee outs).
  Proof.
    intros W. unfold requested. destruct (fold_v_add_spec outs (mkValue fee []) (wfv_zero fee) W) as (C & M & Wr).
    split; [|split]; [exact C | intros p n; rewrite M; reflexivity | exact Wr].
  Qed.

  Lemma wfv_provided st ins : Forall wfv ins -> wfm (b_mint st) ->
    coin (provided st ins) = sum_coin ins + Zsum (b_wdrl st)
                             - total_key_deposit (b_kd st) (b_pd st) (b_initial st) (b_certs st)
                             - total_proposal_deposit (b_props st) - b_donation st
    /\ (forall p n, content (massets (provided st ins)) p n = sum_tok ins p n + content (b_mint st) p n)
    /\ wfv (provided st ins).
  Proof.
    intros W Wm. unfold provided.
    destruct (fold_v_add_spec ins (mkValue 0 []) (wfv_zero 0) W) as (C & M & Wr).
    set (p0 := fold_left v_add ins (mkValue 0 [])) in *.
    destruct (is_nil (b_mint st)) eqn:E.
    - destruct (b_mint st); [|discriminate]. cbn [coin massets].
      split; [|split]; [rewrite fold_add_Zsum, C; cbn; lia | intros p n; rewrite M; cbn; lia | exact Wr].
    - cbn [coin massets]. split; [|split].
      + rewrite fold_add_Zsum, C. cbn. lia.
      + intros p n. rewrite m_add_content by (exact Wr || exact Wm). rewrite M. cbn. lia.
      + apply m_add_wfm. exact Wr.
  Qed.

  Lemma filter_pos_content m p n : wfm m -> 0 <= content m p n -> content (m_filter pos m) p n = content m p n.
  Proof.
    intros W H. rewrite m_filter_content by exact W. unfold pos.
    destruct (0 <? content m p n) eqn:E; [reflexivity|].
    apply Z.ltb_ge in E. assert (Z0 : content m p n = 0) by lia.
    destruct (dget (mget m p) n); [lia | reflexivity].
  Qed.

  (* content and coin of the change value, when the refusal test passed *)
  Lemma change_of_spec st fee ins outs : Forall wfv ins -> Forall wfv outs -> wfm (b_mint st) ->
    v_lt (requested fee outs) (provided st ins) = true ->
    coin (change_of st fee ins outs) = coin (provided st ins) - coin (requested fee outs)
    /\ (forall p n, content (massets (change_of st fee ins outs)) p n
                    = content (massets (provided st ins)) p n - content (massets (requested fee outs)) p n)
    /\ wfv (change_of st fee ins outs).
  Proof.
    intros Wi Wo Wm L. apply v_lt_spec in L as [[Lc Lm] _].
    destruct (wfv_requested fee outs Wo) as (_ & _ & Wr).
    destruct (wfv_provided st ins Wi Wm) as (_ & _ & Wp).
    destruct (v_sub_spec _ _ Wp Wr) as (C & M & _ & Ws).
    unfold change_of. destruct (is_nil (massets (v_sub (provided st ins) (requested fee outs)))).
    - split; [|split]; assumption.
    - cbn [coin massets]. split; [|split]; [exact C | | apply m_filter_wfm; exact Ws].
      intros p n. rewrite filter_pos_content; [apply M | exact Ws |]. rewrite M. specialize (Lm p n). lia.
  Qed.

  (* the loop hands out exactly the coin it was given and exactly the bundles of the packing *)
  Lemma change_loop_sum minada respect : forall arr change chs, arr <> [] ->
    change_loop minada respect arr change = inr chs ->
    sum_coin chs = coin change /\ map massets chs = arr.
  Proof.
    induction arr as [|ma rest IH]; intros change chs NE H; [contradiction|].
    cbn [change_loop] in H.
    destruct ((coin change <? 0) || (respect && (coin change <? minada (mkValue 0 ma)))); [discriminate|].
    destruct rest as [|ma2 rest].
    - cbn in H. inversion H; subst. split; [rewrite sum_coin_single; reflexivity | reflexivity].
    - cbn [is_nil] in H.
      match type of H with context [change_loop minada respect (ma2 :: rest) ?c] =>
        destruct (change_loop minada respect (ma2 :: rest) c) as [e|l] eqn:E; [discriminate|];
        apply IH in E; [|discriminate] end.
      inversion H; subst. destruct E as [Ec Em]. split.
      + rewrite sum_coin_cons, Ec. cbn. lia.
      + cbn. now rewrite Em.
  Qed.

Section CalcProofs.
  Variable minada : value -> Z.
  Variable pack : value -> option (list masset).

  (* calc_change_sum: whenever _calc_change returns change outputs,
       - their ADA adds up to provided - requested exactly;
       - their tokens are exactly the bundles of the packing; hence they add up to provided - requested
         for every asset IF AND ONLY IF the packing covers the change bundle *)
  Theorem calc_change_sum st respect fee ins outs chs :
    Forall wfv ins -> Forall wfv outs -> wfm (b_mint st) ->
    pack (change_of st fee ins outs) <> Some [] ->
    calc_change minada pack st respect fee ins outs = inr chs ->
    sum_coin chs = coin (provided st ins) - coin (requested fee outs)
    /\ ((forall p n, sum_tok chs p n = content (massets (provided st ins)) p n - content (massets (requested fee outs)) p n)
        <-> (forall arr, is_nil (massets (change_of st fee ins outs)) = false ->
                         pack (change_of st fee ins outs) = Some arr ->
                         covers arr (massets (change_of st fee ins outs)))).
  Proof.
    intros Wi Wo Wm NE H. unfold calc_change in H.
    destruct (v_lt (requested fee outs) (provided st ins)) eqn:L; [|discriminate]. cbn [negb] in H.
    destruct (change_of_spec st fee ins outs Wi Wo Wm L) as (C & M & W).
    set (ch := change_of st fee ins outs) in *.
    destruct (is_nil (massets ch)) eqn:E.
    - destruct (respect && (coin ch <? minada ch)); [discriminate|]. inversion H; subst.
      split; [rewrite sum_coin_single; cbn [coin]; lia|]. split; [intros _ arr X; discriminate|]. intros _ p n.
      rewrite <- M. destruct (massets ch); [|discriminate]. reflexivity.
    - destruct (pack ch) as [arr|] eqn:P; [|discriminate].
      apply change_loop_sum in H as [Hc Hm]; [|intros ->; now apply NE]. split; [lia|].
      unfold covers. unfold sum_tok. rewrite Hm. split.
      + intros X arr' _ Ha p n. inversion Ha; subst arr'. rewrite X. symmetry. apply M.
      + intros X p n. rewrite (X arr eq_refl eq_refl). apply M.
  Qed.
End CalcProofs.

(* ================================================================= _pack_tokens_for_change is a partition *)
Lemma content_nil p n : content [] p n = 0.
Proof. reflexivity. Qed.
Lemma content_cons k a (m : masset) p n :
  content ((k, a) :: m) p n = if bytes_eqb k p then aget a n else content m p n.
Proof. unfold content. rewrite mget_cons. destruct (bytes_eqb k p); reflexivity. Qed.
Lemma content_cons_notin k a (m : masset) p n : ~ In k (keys m) ->
  content ((k, a) :: m) p n = (if bytes_eqb k p then aget a n else 0) + content m p n.
Proof.
  intros H. rewrite content_cons. destruct (bytes_eqb k p) eqn:E; [|lia].
  apply bytes_eqb_eq in E. subst p. unfold content. rewrite (mget_notin m k H). cbn. lia.
Qed.

Lemma wfm_nil : wfm [].
Proof. split; constructor. Qed.
Lemma wfm_single p a : wfd a -> wfm [(p, a)].
Proof.
  intros W. split.
  - unfold wfd. cbn. constructor; [intros []|constructor].
  - constructor; [exact W|constructor].
Qed.
Lemma wfv_single p a : wfv (single p a).
Proof. unfold single, wfv. cbn [massets]. apply m_add_wfm, wfm_nil. Qed.
Lemma content_single p a p' n' : wfd a ->
  content (massets (single p a)) p' n' = if bytes_eqb p p' then aget a n' else 0.
Proof.
  intros W. unfold single. cbn [massets]. rewrite m_add_content by (apply wfm_nil || now apply wfm_single).
  rewrite content_nil, content_cons, content_nil. lia.
Qed.
Lemma wfd_one n (q : Z) : wfd [(n, q)].
Proof. unfold wfd. cbn. constructor; [intros []|constructor]. Qed.
Lemma aget_one n (q : Z) n' : aget [(n, q)] n' = if bytes_eqb n n' then q else 0.
Proof. rewrite aget_cons. destruct (bytes_eqb n n'); reflexivity. Qed.

Section PackProofs.
  Variable ovf : value -> bool.

  Lemma pack_assets_inv p : forall assets arr out temp old arr' out' temp' old',
    wfd assets -> wfv out -> wfd temp -> Forall wfm arr ->
    pack_assets ovf p assets arr out temp old = (arr', out', temp', old') ->
    wfv out' /\ wfd temp' /\ Forall wfm arr' /\
    forall p' n', sum_content arr' p' n' + content (massets out') p' n' + (if bytes_eqb p p' then aget temp' n' else 0)
                = sum_content arr p' n' + content (massets out) p' n'
                  + (if bytes_eqb p p' then aget temp n' + aget assets n' else 0).
  Proof.
    induction assets as [|[n q] r IH]; intros arr out temp old arr' out' temp' old' Wa Wo Wt Warr H.
    - cbn in H. inversion H; subst. repeat split; try assumption; try apply Wo.
      intros p' n'. rewrite aget_nil. destruct (bytes_eqb p p'); lia.
    - inversion Wa as [|? ? Hn Hr]; subst. cbn [pack_assets] in H.
      destruct (ovf (v_add (mkValue 0 [(p, a_add temp [(n, q)])]) out)).
      + (* overflow: emit the current output (with the pending assets), start a fresh one *)
        set (out1 := if is_nil temp then out else v_add out (single p temp)) in *.
        assert (W1 : wfv out1).
        { unfold out1. destruct (is_nil temp); [exact Wo|]. apply (v_add_spec out (single p temp) Wo (wfv_single p temp)). }
        assert (C1 : forall p' n', content (massets out1) p' n'
                                   = content (massets out) p' n' + (if bytes_eqb p p' then aget temp n' else 0)).
        { intros p' n'. unfold out1. destruct (is_nil temp) eqn:E.
          - destruct temp; [|discriminate]. rewrite aget_nil. destruct (bytes_eqb p p'); lia.
          - destruct (v_add_spec out (single p temp) Wo (wfv_single p temp)) as (_ & M & _).
            rewrite M, content_single by exact Wt. reflexivity. }
        apply IH in H; [|exact Hr|apply wfv_zero|apply a_add_wfd; apply wfd_nil| ].
        2:{ apply Forall_app. split; [exact Warr|]. constructor; [apply W1|constructor]. }
        destruct H as (Wo' & Wt' & Warr' & S). repeat split; try assumption; try apply Wo'.
        intros p' n'. rewrite S. rewrite sum_content_app, sum_content_cons. cbn [massets].
        rewrite C1, content_nil, sum_content_nil.
        rewrite a_add_get by (apply wfd_nil || apply wfd_one). rewrite aget_nil, aget_one, aget_cons.
        destruct (bytes_eqb p p'); [|lia].
        destruct (bytes_eqb n n') eqn:E; [|lia].
        apply bytes_eqb_eq in E. subst n'. rewrite (aget_notin r n Hn). lia.
      + apply IH in H; [|exact Hr|exact Wo|apply a_add_wfd; exact Wt|exact Warr].
        destruct H as (Wo' & Wt' & Warr' & S). repeat split; try assumption; try apply Wo'.
        intros p' n'. rewrite S. rewrite a_add_get by (exact Wt || apply wfd_one). rewrite aget_one, aget_cons.
        destruct (bytes_eqb p p'); [|lia].
        destruct (bytes_eqb n n') eqn:E; [|lia].
        apply bytes_eqb_eq in E. subst n'. rewrite (aget_notin r n Hn). lia.
  Qed.

  Lemma pack_policies_cover : forall pols arr out res,
    wfm pols -> wfv out -> Forall wfm arr ->
    pack_policies ovf pols arr out = Some res ->
    res <> [] /\ Forall wfm res /\
    forall p' n', sum_content res p' n' = sum_content arr p' n' + content (massets out) p' n' + content pols p' n'.
  Proof.
    induction pols as [|[p assets] r IH]; intros arr out res Wp Wo Warr H.
    - cbn in H. inversion H; subst. split; [destruct arr; discriminate|]. split.
      + apply Forall_app. split; [exact Warr|]. constructor; [apply Wo|constructor].
      + intros p' n'. rewrite sum_content_app, sum_content_cons, sum_content_nil, content_nil. lia.
    - destruct Wp as [Wd Wf]. inversion Wd as [|? ? Hn Hr]; subst. inversion Wf as [|? ? Wa Wf']; subst. cbn in Wa.
      cbn [pack_policies] in H.
      destruct (pack_assets ovf p assets arr out [] out) as [[[arr1 out1] temp] old] eqn:E.
      apply pack_assets_inv in E; [|exact Wa|exact Wo|apply wfd_nil|exact Warr].
      destruct E as (Wo1 & Wt1 & Warr1 & S).
      destruct (ovf (v_add out1 (single p temp))); [discriminate|].
      destruct (v_add_spec out1 (single p temp) Wo1 (wfv_single p temp)) as (_ & M & _ & W2).
      apply IH in H; [|split; assumption|exact W2|exact Warr1].
      destruct H as (NE & Wres & S2). split; [exact NE|]. split; [exact Wres|].
      intros p' n'. rewrite S2, M, content_single by exact Wt1.
      rewrite (content_cons_notin p assets r p' n' Hn).
      specialize (S p' n'). rewrite aget_nil in S. destruct (bytes_eqb p p'); lia.
  Qed.

  (* Whatever the size test answers: when _pack_tokens_for_change returns, the bundles it returns add up to
     the change bundle exactly — nothing lost, nothing duplicated; there is at least one bundle. *)
  Theorem pack_model_partition change arr : wfv change ->
    pack_model ovf change = Some arr ->
    arr <> [] /\ Forall wfm arr /\ covers arr (massets change).
  Proof.
    intros W H. unfold pack_model in H.
    apply pack_policies_cover in H; [|exact W|apply wfv_zero|constructor].
    destruct H as (NE & Wr & S). split; [exact NE|]. split; [exact Wr|].
    intros p n. rewrite S. cbn [massets]. rewrite content_nil, sum_content_nil. lia.
  Qed.
End PackProofs.

(* ================================================================= _merge_changes *)
Lemma find_idx_bound : forall (outs : list output) i cur k,
  (forall c, cur = Some c -> (c < i)%nat) -> find_idx i cur outs = Some k -> (k < i + length outs)%nat.
Proof.
  induction outs as [|[s v] r IH]; intros i cur k Hc H; cbn [find_idx] in H.
  - subst cur. specialize (Hc k eq_refl). cbn. lia.
  - apply IH in H; [cbn [length]; lia|].
    intros c Ec. destruct s; [|specialize (Hc c Ec); lia].
    destruct cur as [c0|]; [|inversion Ec; lia].
    destruct (coin v =? 0); [inversion Ec; lia | specialize (Hc c Ec); lia].
Qed.

Lemma update_nth_add c : forall (outs : list output) i, wfv c -> Forall wfv (map snd outs) -> (i < length outs)%nat ->
  sum_coin (map snd (update_nth i (fun v => v_add c v) outs)) = sum_coin (map snd outs) + coin c
  /\ forall p n, sum_tok (map snd (update_nth i (fun v => v_add c v) outs)) p n
                 = sum_tok (map snd outs) p n + content (massets c) p n.
Proof.
  induction outs as [|[s v] r IH]; intros i Wc Wo Hi; [cbn in Hi; lia|].
  cbn [map snd] in Wo. inversion Wo as [|? ? Wv Wr]; subst.
  destruct i as [|k]; cbn [update_nth map snd].
  - destruct (v_add_spec c v Wc Wv) as (C & M & _).
    split; [rewrite !sum_coin_cons, C; lia | intros p n; rewrite !sum_tok_cons, M; lia].
  - cbn [length] in Hi. destruct (IH k Wc Wr ltac:(lia)) as [C M].
    split; [rewrite !sum_coin_cons, C; lia | intros p n; rewrite !sum_tok_cons, M; lia].
Qed.

Lemma map_snd_true (chs : list value) : map snd (map (fun c : value => (true, c)) chs) = chs.
Proof. induction chs as [|c r IH]; cbn; [reflexivity | now rewrite IH]. Qed.

Lemma merge_changes_sum minada merge idx chs (outs outs' : list output) :
  (forall i, idx = Some i -> (i < length outs)%nat) -> Forall wfv chs -> Forall wfv (map snd outs) ->
  merge_changes minada merge idx chs outs = inr outs' ->
  sum_coin (map snd outs') = sum_coin (map snd outs) + sum_coin chs
  /\ forall p n, sum_tok (map snd outs') p n = sum_tok (map snd outs) p n + sum_tok chs p n.
Proof.
  intros Hi Wc Wo H. unfold merge_changes in H.
  assert (App : forall o, (if merge && existsb (fun c => coin c <? minada c) chs then inl ErrInsufficient
                           else inr (outs ++ map (fun c => (true, c)) chs)) = inr o ->
                sum_coin (map snd o) = sum_coin (map snd outs) + sum_coin chs
                /\ forall p n, sum_tok (map snd o) p n = sum_tok (map snd outs) p n + sum_tok chs p n).
  { intros o X. destruct (merge && existsb (fun c => coin c <? minada c) chs); [discriminate|]. inversion X; subst.
    rewrite map_app, map_snd_true. split; [apply sum_coin_app | intros; apply sum_tok_app]. }
  destruct idx as [i|]; [|now apply App].
  destruct chs as [|c [|c2 r]]; try (now apply App).
  inversion H; subst. inversion Wc as [|? ? Wc1 _]; subst.
  destruct (update_nth_add c outs i Wc1 Wo (Hi i eq_refl)) as [C M].
  split; [rewrite C, sum_coin_single; reflexivity|].
  intros p n. rewrite M. unfold sum_tok at 3, sum_content. cbn [map]. rewrite Zsum_cons. change (Zsum []) with 0. lia.
Qed.

(* ================================================================= the body conserves value *)


(* what the implementation's packing must satisfy at the change value it is applied to *)
Definition pack_ok (pack : value -> option (list masset)) (v : value) : Prop :=
  forall arr, pack v = Some arr -> arr <> [] /\ Forall wfm arr /\ covers arr (massets v).

Section BodyProofs.
  Variable minada : value -> Z.
  Variable pack : value -> option (list masset).

  Lemma calc_change_wf st respect fee ins outs chs :
    Forall wfv ins -> Forall wfv outs -> wfm (b_mint st) ->
    pack_ok pack (change_of st fee ins outs) ->
    calc_change minada pack st respect fee ins outs = inr chs -> Forall wfv chs.
  Proof.
    intros Wi Wo Wm P H. unfold calc_change in H.
    destruct (v_lt (requested fee outs) (provided st ins)); [|discriminate]. cbn [negb] in H.
    set (ch := change_of st fee ins outs) in *.
    destruct (is_nil (massets ch)).
    - destruct (respect && (coin ch <? minada ch)); [discriminate|]. inversion H; subst.
      constructor; [apply wfv_zero|constructor].
    - destruct (pack ch) as [arr|] eqn:E; [|discriminate].
      destruct (P arr E) as (NE & Wa & _).
      apply (change_loop_sum minada respect arr ch chs NE) in H as [_ Hm].
      rewrite <- Hm in Wa. clear -Wa. induction chs as [|c r IH]; [constructor|].
      cbn in Wa. inversion Wa; subst. constructor; [assumption | now apply IH].
  Qed.

  (* one pass: outputs + change at fee f are balanced *)
  Lemma pass_balanced st merge idx fee ins (outs outs' : list output) :
    Forall wfv ins -> Forall wfv (map snd outs) -> wfm (b_mint st) ->
    (forall i, idx = Some i -> (i < length outs)%nat) ->
    pack_ok pack (change_of st fee ins (map snd outs)) ->
    acf_pass minada pack st merge idx fee ins outs = inr outs' ->
    Balanced (ledger_params st) ins (b_mint st) (b_wdrl st) (b_certs st) (b_props st) (b_donation st)
             (map snd outs') fee.
  Proof.
    intros Wi Wo Wm Hi P H. unfold acf_pass in H.
    destruct (calc_change minada pack st (negb merge) fee ins (map snd outs)) as [e|chs] eqn:E; [discriminate|].
    pose proof (calc_change_wf st (negb merge) fee ins (map snd outs) chs Wi Wo Wm P E) as Wc.
    assert (NE : pack (change_of st fee ins (map snd outs)) <> Some []).
    { intros X. destruct (P [] X) as (N & _). now apply N. }
    destruct (calc_change_sum minada pack st (negb merge) fee ins (map snd outs) chs Wi Wo Wm NE E) as [C T].
    assert (T' : forall p n, sum_tok chs p n = content (massets (provided st ins)) p n
                                               - content (massets (requested fee (map snd outs))) p n).
    { apply T. intros arr _ E'. apply (P arr E'). }
    destruct (merge_changes_sum minada merge idx chs outs outs' Hi Wc Wo H) as [MC MT].
    destruct (wfv_requested fee (map snd outs) Wo) as (Rc & Rm & _).
    destruct (wfv_provided st ins Wi Wm) as (Pc & Pm & _).
    pose proof (key_deposit_spec (b_kd st) (b_pd st) (b_initial st) (b_certs st)) as KD. cbv zeta in KD.
    fold (ledger_params st) in KD.
    split.
    - rewrite MC, C, Pc, Rc, KD, proposal_deposit_spec. lia.
    - intros p n. rewrite MT, T', Pm, Rm. lia.
  Qed.

  Lemma find_idx_valid (outs : list output) i : find_idx 0 None outs = Some i -> (i < length outs)%nat.
  Proof. intros H. apply find_idx_bound in H; [lia | intros c X; discriminate]. Qed.

  (* _add_change_and_fee with the two fee estimates given *)
  Theorem acf_with_balanced st merge ins (outs : list output) fee1 fee2 outs' fee' :
    Forall wfv ins -> Forall wfv (map snd outs) -> wfm (b_mint st) ->
    pack_ok pack (change_of st fee2 ins (map snd outs)) ->
    acf_with minada pack st merge ins outs fee1 fee2 = inr (outs', fee') ->
    Balanced (ledger_params st) ins (b_mint st) (b_wdrl st) (b_certs st) (b_props st) (b_donation st)
             (map snd outs') fee'.
  Proof.
    intros Wi Wo Wm P H. unfold acf_with in H.
    destruct (acf_pass minada pack st merge (if merge then find_idx 0 None outs else None) fee1 ins outs); [discriminate|].
    destruct (acf_pass minada pack st merge (if merge then find_idx 0 None outs else None) fee2 ins outs) as [e|o2] eqn:E2;
      [discriminate|].
    inversion H; subst. eapply pass_balanced; try eassumption.
    intros i Hi. destruct merge; [now apply find_idx_valid | discriminate].
  Qed.

  Lemma acf_est st merge ins (outs : list output) fee0 est r :
    add_change_and_fee minada pack est st merge ins outs fee0 = inr r ->
    exists fee1 fee2, acf_with minada pack st merge ins outs fee1 fee2 = inr r.
  Proof.
    unfold add_change_and_fee, acf_with. intros H.
    destruct (acf_pass minada pack st merge (if merge then find_idx 0 None outs else None) (est outs fee0) ins outs)
      as [e|o1] eqn:E1; [discriminate|].
    exists (est outs fee0), (est o1 (est outs fee0)).
    rewrite E1. exact H.
  Qed.

  (* for ANY fee estimator: what _add_change_and_fee leaves in the builder is balanced *)
  Theorem acf_balanced est st merge ins (outs : list output) fee0 outs' fee' :
    Forall wfv ins -> Forall wfv (map snd outs) -> wfm (b_mint st) ->
    (forall fee, pack_ok pack (change_of st fee ins (map snd outs))) ->
    add_change_and_fee minada pack est st merge ins outs fee0 = inr (outs', fee') ->
    Balanced (ledger_params st) ins (b_mint st) (b_wdrl st) (b_certs st) (b_props st) (b_donation st)
             (map snd outs') fee'.
  Proof.
    intros Wi Wo Wm P H. apply acf_est in H as (f1 & f2 & H).
    eapply acf_with_balanced; try eassumption. apply P.
  Qed.
End BodyProofs.

(* ---- the returned body: inputs are an ordered SET of transaction inputs, resolved through the UTxO map ---- *)
Lemma txin_eqb_eq a b : txin_eqb a b = true <-> a = b.
Proof.
  destruct a as [t i], b as [t' i']. unfold txin_eqb. cbn. rewrite andb_true_iff, bytes_eqb_eq, N.eqb_eq.
  split; [intros [-> ->]; reflexivity | intros H; inversion H; auto].
Qed.

Lemma dedup_txins_nodup l : NoDup l -> dedup_txins l = l.
Proof.
  unfold dedup_txins. intros H.
  assert (G : forall acc, NoDup (acc ++ l) ->
              fold_left (fun acc i => if existsb (txin_eqb i) acc then acc else acc ++ [i]) l acc = acc ++ l).
  { clear H. induction l as [|x l IH]; intros acc N; cbn [fold_left]; [now rewrite app_nil_r|].
    destruct (existsb (txin_eqb x) acc) eqn:E.
    - apply existsb_exists in E as (y & Hy & Ey). apply txin_eqb_eq in Ey. subst y.
      exfalso. apply NoDup_remove_2 in N. apply N. apply in_or_app. now left.
    - rewrite IH; rewrite <- app_assoc; [reflexivity | exact N]. }
  apply (G []). exact H.
Qed.



Lemma resolve_all_map m ins : (forall u, In u ins -> resolve m (u_in u) = Some (u_val u)) ->
  resolve_all m (map u_in ins) = Some (map u_val ins).
Proof.
  induction ins as [|u r IH]; intros H; [reflexivity|]. cbn [map resolve_all].
  rewrite (H u (or_introl eq_refl)), IH; [reflexivity|]. intros u' Hu. apply H. now right.
Qed.

(* C06_balanced: the body returned by build (), with its inputs resolved through the chain's UTxO map,
   satisfies the ledger balance equation — for every builder state, every selection result `ins` whose
   transaction inputs are pairwise distinct and known to the chain with the amounts the builder saw,
   every fee estimator, every min-ADA function, every packing that is a partition *)
Theorem build_tail_balanced minada pack est st merge ins outs fee0 umap bins outs' fee' :
  Forall wfv (map u_val ins) -> Forall wfv (map snd outs) -> wfm (b_mint st) ->
  NoDup (map u_in ins) ->
  (forall u, In u ins -> resolve umap (u_in u) = Some (u_val u)) ->
  (forall fee, pack_ok pack (change_of st fee (map u_val ins) (map snd outs))) ->
  build_tail minada pack est st merge ins outs fee0 = inr (bins, outs', fee') ->
  exists vals, resolve_all umap bins = Some vals
    /\ balanced (ledger_params st) vals (b_mint st) (b_wdrl st) (b_certs st) (b_props st) (b_donation st)
                (map snd outs') fee' = true.
Proof.
  intros Wi Wo Wm ND R P H. unfold build_tail in H.
  destruct (add_change_and_fee minada pack est st merge (map u_val ins) outs fee0) as [e|[o f]] eqn:E; [discriminate|].
  inversion H; subst. exists (map u_val ins). split.
  - rewrite dedup_txins_nodup by exact ND. now apply resolve_all_map.
  - apply balanced_iff. eapply acf_balanced; eassumption.
Qed.

(* with the modelled packing the partition premise is a theorem *)
Corollary build_tail_balanced_pack ovf minada est st merge ins outs fee0 umap bins outs' fee' :
  Forall wfv (map u_val ins) -> Forall wfv (map snd outs) -> wfm (b_mint st) ->
  NoDup (map u_in ins) ->
  (forall u, In u ins -> resolve umap (u_in u) = Some (u_val u)) ->
  build_tail minada (pack_model ovf) est st merge ins outs fee0 = inr (bins, outs', fee') ->
  exists vals, resolve_all umap bins = Some vals
    /\ balanced (ledger_params st) vals (b_mint st) (b_wdrl st) (b_certs st) (b_props st) (b_donation st)
                (map snd outs') fee' = true.
Proof.
  intros Wi Wo Wm ND R H. eapply build_tail_balanced; try eassumption.
  intros fee arr E. apply (pack_model_partition ovf _ arr); [|exact E].
  (* the change value is well-formed *)
  unfold change_of.
  destruct (wfv_requested fee (map snd outs) Wo) as (_ & _ & Wr).
  destruct (wfv_provided st (map u_val ins) Wi Wm) as (_ & _ & Wp).
  destruct (v_sub_spec _ _ Wp Wr) as (_ & _ & _ & Ws).
  destruct (is_nil (massets (v_sub (provided st (map u_val ins)) (requested fee (map snd outs))))); [exact Ws|].
  apply m_filter_wfm. exact Ws.
Qed.

(* ================================================================= liveness for ADA-only wallets (partial) *)

Lemma fold_ada_only l : forall c, ada_only l -> fold_left v_add l (mkValue c []) = mkValue (c + sum_coin l) [].
Proof.
  induction l as [|v l IH]; intros c H; cbn [fold_left].
  - unfold sum_coin. cbn. f_equal. lia.
  - inversion H as [|? ? Hv Hl]; subst. destruct v as [cv mv]. cbn in Hv. subst mv.
    change (v_add (mkValue c []) (mkValue cv [])) with (mkValue (c + cv) []).
    rewrite IH by exact Hl. rewrite sum_coin_cons. cbn [coin]. f_equal. lia.
Qed.

Lemma v_lt_ada a b : v_lt (mkValue a []) (mkValue b []) = (a <? b).
Proof.
  unfold v_lt, v_le, v_eq. cbn.
  destruct (a <=? b) eqn:E1, (a =? b) eqn:E2, (a <? b) eqn:E3; cbn; try reflexivity;
    rewrite ?Z.leb_le, ?Z.leb_gt, ?Z.eqb_eq, ?Z.eqb_neq, ?Z.ltb_lt, ?Z.ltb_ge in *; lia.
Qed.

Section Live.
  Variable minada : value -> Z.
  Variable pack : value -> option (list masset).

  Lemma calc_change_ada st respect fee ins outs minc :
    ada_only ins -> ada_only outs -> b_mint st = [] ->
    (forall c, minada (mkValue c []) <= minc) -> 0 < minc ->
    coin (provided st ins) >= fee + sum_coin outs + minc ->
    calc_change minada pack st respect fee ins outs = inr [mkValue (coin (provided st ins) - (fee + sum_coin outs)) []].
  Proof.
    intros Ai Ao Hm Hmin Hpos Hc.
    assert (R : requested fee outs = mkValue (fee + sum_coin outs) []) by (apply fold_ada_only; exact Ao).
    assert (P : exists c, provided st ins = mkValue c []).
    { unfold provided. rewrite Hm. cbn [is_nil]. rewrite (fold_ada_only ins 0 Ai). cbn [coin massets]. eauto. }
    destruct P as [c P]. rewrite P in Hc. cbn [coin] in Hc.
    unfold calc_change, change_of. rewrite R, P, v_lt_ada.
    assert (L : (fee + sum_coin outs <? c) = true) by (apply Z.ltb_lt; lia). rewrite L. cbn [negb].
    change (v_sub (mkValue c []) (mkValue (fee + sum_coin outs) [])) with (mkValue (c - (fee + sum_coin outs)) []).
    cbn [massets is_nil coin].
    assert (M : (c - (fee + sum_coin outs) <? minada (mkValue (c - (fee + sum_coin outs)) [])) = false).
    { apply Z.ltb_ge. specialize (Hmin (c - (fee + sum_coin outs))). lia. }
    rewrite M, andb_false_r. reflexivity.
  Qed.

  Lemma acf_pass_ada st merge idx fee ins (outs : list output) minc :
    ada_only ins -> ada_only (map snd outs) -> b_mint st = [] ->
    (forall c, minada (mkValue c []) <= minc) -> 0 < minc ->
    coin (provided st ins) >= fee + sum_coin (map snd outs) + minc ->
    exists o, acf_pass minada pack st merge idx fee ins outs = inr o.
  Proof.
    intros Ai Ao Hm Hmin Hpos Hc. unfold acf_pass.
    rewrite (calc_change_ada st (negb merge) fee ins (map snd outs) minc Ai Ao Hm Hmin Hpos Hc).
    unfold merge_changes. destruct idx; [eauto|].
    cbn [existsb coin].
    assert (M : (coin (provided st ins) - (fee + sum_coin (map snd outs))
                 <? minada (mkValue (coin (provided st ins) - (fee + sum_coin (map snd outs))) [])) = false).
    { apply Z.ltb_ge. specialize (Hmin (coin (provided st ins) - (fee + sum_coin (map snd outs)))). lia. }
    rewrite M. cbn [orb]. rewrite andb_false_r. eauto.
  Qed.

  (* C06_live_partial: an ADA-only transaction whose provided funds exceed outputs + the largest fee the
     estimator can return + the largest min-ADA of an ADA-only change output is not refused by
     _add_change_and_fee, for any fee estimator bounded by maxfee.
     Partial: the UTxO selection phase of build () is not part of this statement (see C14). *)
  Theorem acf_live est st merge ins (outs : list output) fee0 maxfee minc :
    ada_only ins -> ada_only (map snd outs) -> b_mint st = [] ->
    (forall o f, est o f <= maxfee) ->
    (forall c, minada (mkValue c []) <= minc) -> 0 < minc ->
    coin (provided st ins) >= sum_coin (map snd outs) + maxfee + minc ->
    exists outs' fee', add_change_and_fee minada pack est st merge ins outs fee0 = inr (outs', fee').
  Proof.
    intros Ai Ao Hm He Hmin Hpos Hc. unfold add_change_and_fee.
    set (idx := if merge then find_idx 0 None outs else None).
    destruct (acf_pass_ada st merge idx (est outs fee0) ins outs minc Ai Ao Hm Hmin Hpos) as [o1 E1].
    { specialize (He outs fee0). lia. }
    rewrite E1.
    destruct (acf_pass_ada st merge idx (est o1 (est outs fee0)) ins outs minc Ai Ao Hm Hmin Hpos) as [o2 E2].
    { specialize (He o1 (est outs fee0)). lia. }
    rewrite E2. eauto.
  Qed.
End Live.

(* ================================================================= explicit inputs: duplicates are counted once *)

Lemma NoDup_app_one {A} (l : list A) x : NoDup l -> ~ In x l -> NoDup (l ++ [x]).
Proof.
  induction l as [|y l IH]; intros N H; cbn; [constructor; [intros []|constructor]|].
  inversion N as [|? ? Hy Hl]; subst. constructor.
  - intros X. apply in_app_or in X as [X|[X|[]]]; [contradiction | subst; apply H; now left].
  - apply IH; [exact Hl | intros X; apply H; now right].
Qed.

Lemma dedup_utxos_spec l : forall acc,
  let r := fold_left (fun acc u => if existsb (utxo_eqb u) acc then acc else acc ++ [u]) l acc in
  (forall u, In u r -> In u acc \/ In u l) /\
  (consistent (acc ++ l) -> NoDup (map u_in acc) -> NoDup (map u_in r)).
Proof.
  induction l as [|x l IH]; intros acc; cbn [fold_left].
  - split; [intros u H; now left | intros _ N; exact N].
  - destruct (existsb (utxo_eqb x) acc) eqn:E.
    + destruct (IH acc) as [I1 I2]. split.
      * intros u H. destruct (I1 u H); [now left | right; now right].
      * intros C N. apply I2; [|exact N]. intros a b Ha Hb. apply C.
        -- apply in_app_or in Ha as [Ha|Ha]; apply in_or_app; [now left | right; now right].
        -- apply in_app_or in Hb as [Hb|Hb]; apply in_or_app; [now left | right; now right].
    + destruct (IH (acc ++ [x])) as [I1 I2]. split.
      * intros u H. destruct (I1 u H) as [H1|H1]; [|right; now right].
        apply in_app_or in H1 as [H1|[H1|[]]]; [now left | right; now left].
      * intros C N. apply I2.
        -- rewrite <- app_assoc. exact C.
        -- rewrite map_app. cbn [map]. apply NoDup_app_one; [exact N|].
           intros Hin. apply in_map_iff in Hin as (y & Ey & Hy).
           assert (X : utxo_eqb x y = true).
           { apply C; [apply in_or_app; now left | apply in_or_app; right; now left | exact Ey]. }
           assert (F : existsb (utxo_eqb x) acc = true) by (apply existsb_exists; exists y; split; assumption).
           congruence.
Qed.

Theorem dedup_utxos_nodup l : consistent l -> NoDup (map u_in (dedup_utxos l)).
Proof. intros C. apply (dedup_utxos_spec l []); [exact C | constructor]. Qed.

(* ================================================================= the code before fix d736adf dropped tokens *)
(* max_val_size = 80 < size of a single asset with a 32-byte name: the final re-check fired, the loop was left and
   the pending asset and every remaining policy vanished from the change (build () returned an unbalanced body) *)
Definition wit_addr : bytes := hx "6011111111111111111111111111111111111111111111111111111111".
Definition wit_pa : bytes := hx "aaaaaaaaaaaaaaaaaaaaaaaaaaaaaaaaaaaaaaaaaaaaaaaaaaaaaaaa".
Definition wit_pb : bytes := hx "bbbbbbbbbbbbbbbbbbbbbbbbbbbbbbbbbbbbbbbbbbbbbbbbbbbbbbbb".
Definition wit_n1 : bytes := hx "6161616161616161616161616161616161616161616161616161616161616161".
Definition wit_n2 : bytes := hx "6262626262626262626262626262626262626262626262626262626262626262".
Definition wit_change : value :=
  mkValue 46829703 [(wit_pa, [(wit_n1, 5); (wit_n2, 9223372036854775808)]); (wit_pb, [(wit_n1, 18446744073709551615)])].

Lemma wit_change_wfv : wfv wit_change.
Proof.
  split; cbn.
  - repeat constructor; cbn; intuition discriminate.
  - repeat constructor; cbn; intuition discriminate.
Qed.

Theorem pack_break_refuted :
  exists cpb addr mvs change, wfv change /\ ~ covers (pack_model_old (ovf_c cpb addr mvs 0) change) (massets change).
Proof.
  exists 4310, wit_addr, 80, wit_change. split; [exact wit_change_wfv|].
  intros H. specialize (H wit_pb wit_n1). vm_compute in H. discriminate.
Qed.
(* the current code refuses the same input *)
Example pack_break_now_refused : pack_c 4310 wit_addr 80 wit_change = None.
Proof. vm_compute. reflexivity. Qed.

(* ================================================================= non-vacuity *)
(* a concrete scenario: two UTxOs (one with tokens), mint +5 / burn -1, a withdrawal, a registration, a
   deregistration, a pool registration, a proposal, a donation, one requested output, max_val_size 120 *)
Definition ex_st : bstate :=
  mkB [(wit_pa, [(hx "61", 5); (hx "62", -1)])] [777] [StakeReg; UnregConway 2000000; PoolReg wit_pb; RegDRep 500000000]
      true [1000000] 1234567 2000000 500000000.
Definition ex_ins : list utxo :=
  [mkU wit_n1 0 wit_addr (mkValue 1600000000 []);
   mkU wit_n1 1 wit_addr (mkValue 5000000 [(wit_pa, [(hx "62", 3); (wit_n2, 7)]); (wit_pb, [(wit_n1, 1000000)])])].
Definition ex_outs : list output := [(false, mkValue 3000000 [(wit_pb, [(wit_n1, 10)])])].
Definition ex_est (o : list output) (f : Z) : Z := 170000 + 3000 * Z.of_nat (length o).

Example build_tail_example :
  exists bins outs' fee',
    build_tail (minada_c 4310 wit_addr) (pack_c 4310 wit_addr 120) ex_est ex_st false ex_ins ex_outs 0
      = inr (bins, outs', fee')
    /\ length outs' = 3%nat /\ fee' = 179000
    /\ Forall wfv (map u_val ex_ins) /\ Forall wfv (map snd ex_outs) /\ wfm (b_mint ex_st) /\ NoDup (map u_in ex_ins).
Proof.
  eexists _, _, _. split; [vm_compute; reflexivity|].
  split; [reflexivity|]. split; [reflexivity|].
  repeat split; repeat constructor; cbn; intuition discriminate.
Qed.

Example calc_change_example :
  exists chs, calc_change (minada_c 4310 wit_addr) (pack_c 4310 wit_addr 120) ex_st true 179000 (map u_val ex_ins) (map snd ex_outs)
              = inr chs /\ length chs = 2%nat.
Proof. eexists. split; [vm_compute; reflexivity | reflexivity]. Qed.

Example key_deposit_example :
  total_key_deposit 2000000 500000000 true (b_certs ex_st) = 1000000000
  /\ deposits (ledger_params ex_st) (b_certs ex_st) = 1002000000 /\ refunds (ledger_params ex_st) (b_certs ex_st) = 2000000.
Proof. vm_compute. repeat split. Qed.

Example live_example :
  let ins := [mkValue 10000000 []] in let outs := [(false, mkValue 3000000 [])] in
  ada_only ins /\ ada_only (map snd outs) /\ coin (provided (mkB [] [] [] false [] 0 2000000 500000000) ins) >= 3000000 + 2000000 + 1500000.
Proof. cbn. repeat split; repeat constructor; discriminate. Qed.

(* ================================================================= when does the packing raise? *)
Definition veq (a b : value) : Prop := coin a = coin b /\ forall p n, content (massets a) p n = content (massets b) p n.

Section NoRaise.
  Variable ovf : value -> bool.
  (* the size test looks at the content only (true of the real one: sizes of canonical serializations) *)
  Hypothesis ovf_ext : forall a b, wfv a -> wfv b -> veq a b -> ovf a = ovf b.
  (* one asset (of those that occur) alone in a fresh output fits *)
  Variable ok : bytes -> bytes -> Z -> Prop.
  Hypothesis ovf_single : forall p n q, ok p n q -> ovf (v_add (mkValue 0 []) (single p (a_add [] [(n, q)]))) = false.

  Lemma attempt_veq p temp out : wfv out -> wfd temp ->
    wfv (v_add (mkValue 0 [(p, temp)]) out) /\ wfv (v_add out (single p temp))
    /\ veq (v_add (mkValue 0 [(p, temp)]) out) (v_add out (single p temp)).
  Proof.
    intros Wo Wt.
    assert (W1 : wfv (mkValue 0 [(p, temp)])) by (apply wfm_single; exact Wt).
    destruct (v_add_spec _ _ W1 Wo) as (C1 & M1 & _ & Wa).
    destruct (v_add_spec _ _ Wo (wfv_single p temp)) as (C2 & M2 & _ & Wb).
    split; [exact Wa|]. split; [exact Wb|]. split.
    - rewrite C1, C2. cbn. lia.
    - intros p' n'. rewrite M1, M2, content_single by exact Wt. cbn [massets]. rewrite content_cons, content_nil. lia.
  Qed.

  Lemma pack_assets_last p : forall assets arr out temp old arr1 out1 temp1 old1,
    assets <> [] -> Forall (fun nq => ok p (fst nq) (snd nq)) assets -> wfv out -> wfd temp ->
    pack_assets ovf p assets arr out temp old = (arr1, out1, temp1, old1) ->
    ovf (v_add out1 (single p temp1)) = false.
  Proof.
    induction assets as [|[n q] r IH]; intros arr out temp old arr1 out1 temp1 old1 NE Ok Wo Wt H; [contradiction|].
    inversion Ok as [|? ? Ok1 Okr]; subst. cbn [fst snd] in Ok1. cbn [pack_assets] in H.
    destruct (ovf (v_add (mkValue 0 [(p, a_add temp [(n, q)])]) out)) eqn:E.
    - destruct r as [|x r'].
      + cbn [pack_assets] in H. inversion H; subst. apply ovf_single. exact Ok1.
      + eapply IH in H; [exact H|discriminate|exact Okr|apply wfv_zero|apply a_add_wfd, wfd_nil].
    - destruct r as [|x r'].
      + cbn [pack_assets] in H. inversion H; subst.
        destruct (attempt_veq p (a_add temp [(n, q)]) out1 Wo (a_add_wfd _ _ Wt)) as (Wa & Wb & V).
        rewrite <- (ovf_ext _ _ Wa Wb V). exact E.
      + eapply IH in H; [exact H|discriminate|exact Okr|exact Wo|apply a_add_wfd; exact Wt].
  Qed.

  Lemma pack_policies_no_raise : forall pols arr out,
    wfm pols -> Forall (fun kv => snd kv <> [] /\ Forall (fun nq => ok (fst kv) (fst nq) (snd nq)) (snd kv)) pols -> wfv out -> Forall wfm arr ->
    exists res, pack_policies ovf pols arr out = Some res.
  Proof.
    induction pols as [|[p assets] r IH]; intros arr out Wp NEs Wo Warr; [cbn; eauto|].
    destruct Wp as [Wd Wf]. inversion Wd as [|? ? Hn Hr]; subst. inversion Wf as [|? ? Wa Wf']; subst. cbn in Wa.
    inversion NEs as [|? ? [NE Ok] NEr]; subst. cbn [fst snd] in NE, Ok.
    cbn [pack_policies].
    destruct (pack_assets ovf p assets arr out [] out) as [[[arr1 out1] temp] old] eqn:E.
    pose proof (pack_assets_last p assets arr out [] out arr1 out1 temp old NE Ok Wo (@wfd_nil Z) E) as L.
    rewrite L.
    apply (pack_assets_inv ovf) in E; [|exact Wa|exact Wo|apply wfd_nil|exact Warr].
    destruct E as (Wo1 & Wt1 & Warr1 & _).
    apply IH; [split; assumption|exact NEr| |exact Warr1].
    apply (v_add_spec out1 (single p temp) Wo1 (wfv_single p temp)).
  Qed.

  (* the packing returns (does not raise) whenever one asset fits into a fresh output *)
  Theorem pack_model_no_raise change : wfv change ->
    Forall (fun kv => snd kv <> [] /\ Forall (fun nq => ok (fst kv) (fst nq) (snd nq)) (snd kv)) (massets change) ->
    exists arr, pack_model ovf change = Some arr.
  Proof.
    intros W NE. unfold pack_model. apply pack_policies_no_raise; [exact W|exact NE|apply wfv_zero|constructor].
  Qed.
End NoRaise.

(* the real size test depends on the content only *)
Lemma ovf_c_ext cpb addr mvs maxc a b : wfv a -> wfv b -> veq a b -> ovf_c cpb addr mvs maxc a = ovf_c cpb addr mvs maxc b.
Proof.
  intros Wa Wb [C M]. unfold ovf_c.
  assert (MA : minada_c cpb addr a = minada_c cpb addr b).
  { unfold minada_c, out_size. rewrite C. destruct (coin b =? 0).
    - rewrite (value_cbor_canonical (mkValue 1000000 (massets a)) (mkValue 1000000 (massets b))); auto.
    - rewrite (value_cbor_canonical a b); auto. }
  rewrite MA. rewrite (value_cbor_canonical (mkValue (Z.max (minada_c cpb addr b) maxc) (massets a)) (mkValue (Z.max (minada_c cpb addr b) maxc) (massets b))); auto.
Qed.

Lemma width_le9 n : (width n <= 9)%N.
Proof. unfold width. destruct (n <? 24)%N, (n <? 256)%N, (n <? 65536)%N, (n <? 4294967296)%N; lia. Qed.
Lemma width_small n : (n < 24)%N -> width n = 1%N.
Proof. intros H. unfold width. apply N.ltb_lt in H. now rewrite H. Qed.
Lemma width_byte n : (n < 256)%N -> (width n <= 2)%N.
Proof. intros H. unfold width. destruct (n <? 24)%N; [lia|]. apply N.ltb_lt in H. rewrite H. lia. Qed.

Lemma enc_cint_len z : 0 <= z < two64z -> (lenN (enc (cint z)) <= 9)%N.
Proof.
  intros [H0 H1]. unfold cint. apply Z.leb_le in H0. rewrite H0. apply Z.ltb_lt in H1. rewrite H1.
  cbn [enc]. rewrite head_length. apply width_le9.
Qed.
Lemma enc_CB_len b : (lenN b < 256)%N -> (lenN (enc (CB b)) <= 2 + lenN b)%N.
Proof. intros H. cbn [enc]. rewrite lenN_app, head_length. pose proof (width_byte _ H). lia. Qed.

Lemma a_norm_one n q : a_norm [(n, q)] = if q =? 0 then [] else [(n, q)].
Proof. unfold a_norm. cbn. destruct (q =? 0); reflexivity. Qed.

(* the value the packing tests when one asset sits alone in a fresh output *)
Lemma single_fresh p n q :
  v_add (mkValue 0 []) (single p (a_add [] [(n, q)])) = if q =? 0 then mkValue 0 [] else mkValue 0 [(p, [(n, q)])].
Proof.
  unfold single, v_add, m_add, a_add. cbn [fold_left fst snd massets coin dset mget dget aget].
  change (0 + q) with q. rewrite a_norm_one.
  destruct (q =? 0) eqn:E.
  - cbn. reflexivity.
  - cbn [fold_left fst snd dset aget dget]. change (0 + q) with q. rewrite a_norm_one, E.
    unfold m_norm. cbn [map fst snd filter is_nil negb]. rewrite a_norm_one, E. cbn [is_nil negb filter].
    cbn [fold_left fst snd dset mget dget]. unfold a_add. cbn [fold_left fst snd dset aget dget]. change (0 + q) with q.
    rewrite a_norm_one, E. cbn [map fst snd filter is_nil negb]. rewrite a_norm_one, E. cbn. reflexivity.
Qed.

Lemma value_cbor_single_len c p n q : 0 <= c < two64z -> 0 < q < two64z -> (lenN p <= 28)%N -> (lenN n <= 32)%N ->
  (lenN (value_cbor (mkValue c [(p, [(n, q)])])) <= 85)%N.
Proof.
  intros Hc Hq Hp Hn. unfold value_cbor, value_prim. cbn [massets coin].
  assert (Q : (q =? 0) = false) by (apply Z.eqb_neq; lia).
  unfold m_norm. cbn [map fst snd filter]. rewrite a_norm_one, Q. cbn [is_nil negb filter].
  unfold masset_prim, m_norm. cbn [map fst snd filter]. rewrite a_norm_one, Q. cbn [is_nil negb filter map fst snd].
  unfold asset_prim. rewrite a_norm_one, Q. cbn [map fst snd]. unfold ksort. cbn [fold_right kinsert].
  cbn [enc map concat fst snd lenN]. rewrite !app_nil_r. rewrite !lenN_app, !head_length.
  pose proof (enc_cint_len c Hc). pose proof (enc_cint_len q ltac:(lia)).
  change (width (1 + (1 + 0))) with 1%N. change (width (1 + 0)) with 1%N.
  pose proof (width_byte (lenN p) ltac:(lia)). pose proof (width_byte (lenN n) ltac:(lia)). lia.
Qed.

(* with the real size test: for max_val_size >= 100 the packing never raises (an asset id is at most 28 + 32 bytes and a
   quantity below 2^64, so one asset alone needs at most 85 bytes) *)
Theorem pack_c_no_raise cpb addr mvs change :
  100 <= mvs -> 0 <= cpb <= 2 ^ 50 -> (lenN addr < 256)%N -> wfv change -> 0 <= coin change < two64z ->
  Forall (fun kv => snd kv <> [] /\
                    Forall (fun nq => (lenN (fst kv) <= 28)%N /\ (lenN (fst nq) <= 32)%N /\ 0 < snd nq < two64z) (snd kv))
         (massets change) ->
  exists arr, pack_c cpb addr mvs change = Some arr.
Proof.
  intros Hm Hc Ha W Hcoin F. unfold pack_c.
  apply (pack_model_no_raise (ovf_c cpb addr mvs (coin change)) (ovf_c_ext cpb addr mvs (coin change))
           (fun p n q => (lenN p <= 28)%N /\ (lenN n <= 32)%N /\ 0 < q < two64z)); [|exact W|exact F].
  intros p n q (Hp & Hn & Hq). rewrite single_fresh.
  assert (Q : (q =? 0) = false) by (apply Z.eqb_neq; lia). rewrite Q.
  unfold ovf_c. cbn [massets]. apply Z.ltb_ge.
  assert (B : 0 <= minada_c cpb addr (mkValue 0 [(p, [(n, q)])]) < two64z).
  { unfold minada_c, out_size. cbn [coin massets Z.eqb].
    pose proof (value_cbor_single_len 1000000 p n q ltac:(unfold two64z; lia) Hq Hp Hn) as L.
    pose proof (enc_CB_len addr Ha) as LA.
    set (S := Z.of_N (3 + lenN (enc (CB addr)) + lenN (value_cbor (mkValue 1000000 [(p, [(n, q)])])))).
    assert (HS : 0 <= S <= 345) by (unfold S; unfold bytes in *; lia). clearbody S.
    assert (P50 : 2 ^ 50 = 1125899906842624) by reflexivity. rewrite P50 in Hc.
    assert (L0 : 0 <= (160 + S) * cpb) by (apply Z.mul_nonneg_nonneg; lia).
    assert (L1 : (160 + S) * cpb <= 505 * 1125899906842624) by (apply Z.mul_le_mono_nonneg; lia).
    unfold two64z. lia. }
  assert (B' : 0 <= Z.max (minada_c cpb addr (mkValue 0 [(p, [(n, q)])])) (coin change) < two64z) by lia.
  pose proof (value_cbor_single_len _ p n q B' Hq Hp Hn) as L. unfold bytes in *. lia.
Qed.

Example pack_no_raise_example :
  (exists arr, pack_c 4310 wit_addr 100 wit_change = Some arr /\ length arr = 3%nat)
  /\ 0 <= coin wit_change < two64z
  /\ Forall (fun kv => snd kv <> [] /\
                       Forall (fun nq => (lenN (fst kv) <= 28)%N /\ (lenN (fst nq) <= 32)%N /\ 0 < snd nq < two64z) (snd kv))
            (massets wit_change).
Proof.
  split; [eexists; split; [vm_compute; reflexivity | reflexivity]|]. split; [cbn; unfold two64z; lia|].
  repeat constructor; cbn; try discriminate; try (intros X; discriminate).
Qed.
