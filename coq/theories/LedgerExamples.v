(* LedgerExamples.v — C02 non-vacuity: a concrete transaction content using every part of the reference model
   satisfies the premise tx_wf, and the model evaluated on today's tables yields the reference bytes. *)
From Coq Require Import NArith ZArith String List Bool Lia.
From PyC Require Import Base Cbor Value Codec CodecProofs Ledger LedgerModel LedgerTables LedgerProofs.
From PyC Require Plutus.
Import ListNotations.
Open Scope N_scope.
Definition h28 := hx "00112233445566778899aabbccddeeff00112233445566778899aabb".
Definition h32 := hx "00112233445566778899aabbccddeeff00112233445566778899aabbccddeeff".
Definition an := mkAnchor (hx "6162") h32.
Definition o1 := mkOutput h28 5 [(h28, [(hx "61", 3%Z); (hx "", 7%Z)])] (Some (DInline (Plutus.Constr 0 [Plutus.I 5%Z])))
  (Some (SNative (NAll [NSig h28; NOfK 1 [NInvalidBefore 4]]))) true.
Definition o2 := mkOutput h28 5 [] (Some (DHash h32)) None false.
Definition pl := mkPool h28 h32 1 2 (1,2) h28 [h28]
  [RAddr (Some 3) None (Some (hx "00000000000000000000000000000001")); RName None (hx "61"); RMulti (hx "62")] (Some (hx "63", h32)).
Definition ppu1 : ppu :=
  [Some (PInt 44); None; None; None; None; None; None; None; None; Some (PRat (1,2)); None; None; None; None; None;
   Some (PPrices (1,2) (3,4)); Some (PUnits 1 2); None; None; None; None; Some (PThresholds [(1,2);(1,2);(1,2);(1,2);(1,2)]);
   None; None; None; None; None; None; None; None].
Definition bd := mkBody [(h32, 1)] [o1; o2] 170000 (Some 5)
  (Some [CertReg (CKey h28); CertPoolReg pl; CertVoteDeleg (CScript h28) DAbstain; CertRegDRep (CKey h28) 5 (Some an);
         CertResignCold (CKey h28) None])
  (Some [(h28, 5)]) (Some h32) (Some 1) (Some [(h28, [(hx "61", (-3)%Z)])]) (Some h32) (Some [(h32, 0)]) (Some [h28]) (Some 1)
  (Some o2) (Some 9) (Some [(h32, 2)]) (Some [(VDRepKey h28, [((h32, 0), (1, Some an))])])
  (Some [mkProposal 5 h28 (GParamChange None ppu1 (Some h28)) an;
         mkProposal 5 h28 (GUpdateCommittee (Some (h32, 0)) [CKey h28] [(CScript h28, 5)] (2,3)) an;
         mkProposal 5 h28 (GNewConstitution None an None) an; mkProposal 5 h28 GInfo an;
         mkProposal 1 h28 (GHardFork None 9 0) an; mkProposal 1 h28 (GTreasury [(h28, 1)] None) an])
  (Some 3) (Some 4).
Definition ws := mkWits (Some [(h32, (h32 ++ h32)%list)]) (Some [NSig h28]) (Some [(h32, h32, h32, hx "a0")]) (Some [hx "4401"])
  (Some [Plutus.I 3%Z]) (Some (true, [mkRedeemer 0 1 (Plutus.List []) 3 4; mkRedeemer 3 0 (Plutus.I 1%Z) 3 4])) None (Some [hx "01"]).
Definition tx1 := mkTx true bd ws true
  (Some (AuxAlonzo (Some [(1, MMap [(MInt 1%Z, MText (hx "61"))])]) (Some []) None (Some [hx "01"]) None)).

#[local] Hint Unfold tx_wf body_wf wits_wf aux_wf input_wf output_wfP cert_wf pool_wf relay_wf frac_wf gov_action_wf proposal_wf
  ogaid_wf votes_wf vote_wf redeemer_wf metadata_wf script_wf asset_wf bundle_wf ppu_wfP ppval_wf onat_wf
  tx1 bd ws o1 o2 pl an ppu1 : wfdb.
Ltac wf_auto :=
  repeat (repeat autounfold with wfdb; cbn;
    match goal with
    | |- _ /\ _ => split
    | |- Forall _ [] => constructor
    | |- Forall _ (_ :: _) => constructor
    | |- True => exact I
    | |- forall _, Some _ = Some _ -> _ => let x := fresh in let H := fresh in intros x H; inversion H; subst; clear H
    | |- forall _, None = Some _ -> _ => let x := fresh in let H := fresh in intros x H; discriminate H
    | |- u64 _ => unfold u64, two64; cbn; lia
    | |- in64 _ => unfold in64, two64z; cbn; lia
    | |- (_ < _)%N => lia
    | |- _ = true => reflexivity
    | |- _ <> _ => discriminate
    end).
Example tx1_wf : tx_wf tx1.
Proof. wf_auto. Qed.
(* premises of the parts are met by the parts of the same transaction *)
Example bd_wf : body_wf bd. Proof. exact (proj1 tx1_wf). Qed.
Example ws_wf : wits_wf ws. Proof. exact (proj1 (proj2 tx1_wf)). Qed.

