(* Bip32Proofs.v — refinement of the byte-level model (Bip32Impl.v) to the integer-level
   specification (Bip32Spec.v), for all keys, indices and depths.  Laws about the external
   primitives are Section hypotheses; each theorem is, after the section is closed, quantified over
   exactly the hypotheses its proof uses. *)
From Coq Require Import NArith ZArith Ascii String List Bool Lia.
From Coq Require Import Init.Byte.
From Coq Require Import ZifyBool ZifyN ZifyNat.
From PyC Require Import Base Bip32Spec Bip32Impl.
Import ListNotations.
Open Scope N_scope.
(* several checks compile concurrently in this tree; a shared .lia.cache has been seen to go stale *)
Unset Lia Cache.

(* ================= little-endian lemmas ================= *)
Lemma le_length k : forall n, length (le k n) = k.
Proof. induction k as [|k IH]; intros n; cbn; [easy|]. now rewrite IH. Qed.

Lemma unle_bound b : unle b < 256 ^ N.of_nat (length b).
Proof.
  induction b as [|x b IH]; [cbn; lia|].
  cbn [unle length]. rewrite Nnat.Nat2N.inj_succ, N.pow_succ_r'.
  pose proof (b2n_lt x). lia.
Qed.

Lemma unle_app a : forall b, unle (a ++ b) = unle a + 256 ^ N.of_nat (length a) * unle b.
Proof.
  induction a as [|x a IH]; intros b.
  - cbn [app unle length]. change (256 ^ N.of_nat 0) with 1. lia.
  - cbn [app unle length]. rewrite IH, Nnat.Nat2N.inj_succ, N.pow_succ_r'. lia.
Qed.

Lemma unle_le k : forall n, unle (le k n) = n mod 256 ^ N.of_nat k.
Proof.
  induction k as [|k IH]; intros n.
  - cbn. now rewrite N.mod_1_r.
  - cbn [le unle]. rewrite IH, b2n_n2b, Nnat.Nat2N.inj_succ, N.pow_succ_r'.
    assert (H : 256 ^ N.of_nat k <> 0) by (apply N.pow_nonzero; lia).
    rewrite (N.mul_comm 256), N.mod_mul_r by lia. lia.
Qed.

Lemma unle_le_small k n : n < 256 ^ N.of_nat k -> unle (le k n) = n.
Proof. intros H. rewrite unle_le. now apply N.mod_small. Qed.

Lemma le_unle b : le (length b) (unle b) = b.
Proof.
  induction b as [|x b IH]; [easy|].
  cbn [length le unle]. f_equal.
  - rewrite <- (n2b_b2n x) at 2. unfold n2b.
    replace ((b2n x + 256 * unle b) mod 256) with (b2n x mod 256); [reflexivity|].
    rewrite (N.mul_comm 256 (unle b)), N.mod_add by lia. reflexivity.
  - replace ((b2n x + 256 * unle b) / 256) with (unle b); [exact IH|].
    rewrite (N.mul_comm 256 (unle b)), N.div_add by lia.
    rewrite (N.div_small (b2n x)) by apply b2n_lt. reflexivity.
Qed.

Lemma le_inj_unle a b : length a = length b -> unle a = unle b -> a = b.
Proof. intros HL HU. rewrite <- (le_unle a), <- (le_unle b), HL, HU. reflexivity. Qed.

Lemma pow256_32 : 256 ^ N.of_nat 32 = 2 ^ 256. Proof. reflexivity. Qed.
Lemma pow256_28 : 256 ^ N.of_nat 28 = 2 ^ 224. Proof. reflexivity. Qed.

Lemma unle_ser256 k : k < 2^256 -> unle (ser256 k) = k.
Proof. intros H. apply unle_le_small. now rewrite pow256_32. Qed.

Lemma zL_bound Z : zL_of Z < 2 ^ 224.
Proof.
  unfold zL_of. pose proof (unle_bound (firstn 28 Z)) as H.
  assert (L : (length (firstn 28 Z) <= 28)%nat) by apply firstn_le_length.
  assert (256 ^ N.of_nat (length (firstn 28 Z)) <= 256 ^ N.of_nat 28) by (apply N.pow_le_mono_r; lia).
  rewrite pow256_28 in *. lia.
Qed.

Lemma firstn_app_exact {A} (a b : list A) n : length a = n -> firstn n (a ++ b) = a.
Proof. intros <-. rewrite firstn_app, Nat.sub_diag, firstn_all. cbn. now rewrite app_nil_r. Qed.
Lemma skipn_app_exact {A} (a b : list A) n : length a = n -> skipn n (a ++ b) = b.
Proof. intros <-. rewrite skipn_app, Nat.sub_diag, skipn_all. reflexivity. Qed.

(* ================= bit tweaking ================= *)
Lemma band248 x : b2n (band 248 x) = 8 * (b2n x / 8).
Proof. destruct x; vm_compute; reflexivity. Qed.
Lemma bor64_band31 x : b2n (bor 64 (band 31 x)) = b2n x mod 32 + 64.
Proof. destruct x; vm_compute; reflexivity. Qed.

Lemma tweak_arith b0 M b31 :
  b0 < 256 -> M < 256 ^ 30 -> b31 < 256 ->
  8 * (b0 / 8) + 256 * (M + 256 ^ 30 * (b31 mod 32 + 64)) = tweak (b0 + 256 * (M + 256 ^ 30 * b31)).
Proof.
  intros H0 HM H31. unfold tweak.
  set (lo := b0 + 256 * M + 2 ^ 248 * (b31 mod 32)).
  assert (E : b0 + 256 * (M + 256 ^ 30 * b31) = lo + 2 ^ 253 * (b31 / 32)).
  { unfold lo. change (256 ^ 30) with (2 ^ 240).
    pose proof (N.div_mod b31 32). change (2 ^ 253) with (2 ^ 248 * 32). change (2^248) with (256 * 2^240). lia. }
  assert (Hlo : lo < 2 ^ 253).
  { unfold lo. change (256 ^ 30) with (2 ^ 240) in HM.
    pose proof (N.mod_upper_bound b31 32). change (2 ^ 253) with (2 ^ 248 * 32). change (2^248) with (256 * 2^240) in *. lia. }
  rewrite E.
  assert (Em : (lo + 2 ^ 253 * (b31 / 32)) mod 2 ^ 253 = lo).
  { symmetry. apply N.mod_unique with (q := b31 / 32); [exact Hlo | lia]. }
  rewrite Em.
  assert (Ed : lo / 8 = b0 / 8 + 32 * M + 2 ^ 245 * (b31 mod 32)).
  { unfold lo. symmetry. apply N.div_unique with (r := b0 mod 8).
    - apply N.mod_upper_bound; lia.
    - pose proof (N.div_mod b0 8). change (2 ^ 248) with (8 * 2 ^ 245). lia. }
  rewrite Ed. change (256 ^ 30) with (2 ^ 240). change (2 ^ 254) with (2 ^ 248 * 64).
  change (2 ^ 248) with (256 * 2 ^ 240). change (2 ^ 245) with (32 * 2 ^ 240). lia.
Qed.

Lemma tweak_range k : 2 ^ 254 <= tweak k < 2 ^ 254 + 2 ^ 253 /\ tweak k mod 8 = 0.
Proof.
  unfold tweak. pose proof (N.mod_upper_bound k (2 ^ 253)) as H.
  assert (H1 : 8 * (k mod 2 ^ 253 / 8) <= k mod 2 ^ 253) by (apply N.mul_div_le; lia).
  split; [lia|].
  change (2 ^ 254) with (8 * 2 ^ 251). rewrite <- N.mul_add_distr_l.
  rewrite N.mul_comm. apply N.mod_mul. lia.
Qed.

(* a list of length >= 32 splits as b0 :: mid(30) ++ b31 :: rest *)
Lemma split32 (s : bytes) : (32 <= length s)%nat ->
  exists b0 mid b31 rest, s = b0 :: mid ++ b31 :: rest /\ length mid = 30%nat.
Proof.
  intros H. destruct s as [|b0 s]; [cbn in H; lia|].
  cbn in H. exists b0, (firstn 30 s).
  destruct (skipn 30 s) as [|b31 rest] eqn:E.
  - assert (length (skipn 30 s) = 0%nat) by now rewrite E. rewrite skipn_length in *. lia.
  - exists b31, rest. split.
    + rewrite <- E, firstn_skipn. reflexivity.
    + rewrite firstn_length. lia.
Qed.

Lemma tweak_bits_shape b0 mid b31 rest : length mid = 30%nat ->
  tweak_bits (b0 :: mid ++ b31 :: rest) = Ok (band 248 b0 :: mid ++ bor 64 (band 31 b31) :: rest).
Proof.
  intros L. unfold tweak_bits.
  assert (U0 : upd 0 (band 248) (b0 :: mid ++ b31 :: rest) = Some (band 248 b0 :: mid ++ b31 :: rest)) by reflexivity.
  rewrite U0.
  assert (U : forall f x y, upd 31 f (x :: mid ++ y :: rest) = Some (x :: mid ++ f y :: rest)).
  { intros f x y. unfold upd.
    change (nth_error (x :: mid ++ y :: rest) 31) with (nth_error (mid ++ y :: rest) 30).
    rewrite nth_error_app2 by lia. rewrite L. cbn [Nat.sub nth_error].
    change (firstn 31 (x :: mid ++ y :: rest)) with (x :: firstn 30 (mid ++ y :: rest)).
    change (skipn 32 (x :: mid ++ y :: rest)) with (skipn 31 (mid ++ y :: rest)).
    rewrite firstn_app_exact by exact L.
    replace 31%nat with (length (mid ++ [y])) by (rewrite app_length; cbn; lia).
    replace (mid ++ y :: rest) with ((mid ++ [y]) ++ rest) by (now rewrite <- app_assoc).
    rewrite skipn_app_exact by reflexivity. reflexivity. }
  rewrite U, U. reflexivity.
Qed.

Lemma unle_shape b0 mid b31 : length mid = 30%nat ->
  unle (b0 :: mid ++ [b31]) = b2n b0 + 256 * (unle mid + 256 ^ 30 * b2n b31).
Proof.
  intros L. cbn [unle]. rewrite unle_app, L. cbn [unle]. change (N.of_nat 30) with 30. lia.
Qed.

(* the byte-level tweak of a seed of at least 32 bytes = the integer-level tweak of its first 32 bytes;
   the remaining bytes are untouched *)
Lemma tweak_bits_spec (s : bytes) : (32 <= length s)%nat ->
  exists t, tweak_bits s = Ok t /\ firstn 32 t = le 32 (tweak (unle (firstn 32 s)))
            /\ skipn 32 t = skipn 32 s /\ length t = length s.
Proof.
  intros H. destruct (split32 s H) as (b0 & mid & b31 & rest & -> & L).
  eexists. split; [apply tweak_bits_shape; exact L|].
  assert (F : forall x y, firstn 32 (x :: mid ++ y :: rest) = x :: mid ++ [y]).
  { intros x y. replace (x :: mid ++ y :: rest) with ((x :: mid ++ [y]) ++ rest) by (cbn; now rewrite <- app_assoc).
    apply firstn_app_exact. cbn. rewrite app_length. cbn. lia. }
  assert (S : forall x y, skipn 32 (x :: mid ++ y :: rest) = rest).
  { intros x y. replace (x :: mid ++ y :: rest) with ((x :: mid ++ [y]) ++ rest) by (cbn; now rewrite <- app_assoc).
    apply skipn_app_exact. cbn. rewrite app_length. cbn. lia. }
  rewrite !F, !S. repeat split.
  - apply le_inj_unle.
    + rewrite le_length. cbn. rewrite app_length. cbn. lia.
    + rewrite !unle_shape by exact L. rewrite band248, bor64_band31.
      rewrite unle_le_small.
      * apply tweak_arith; try apply b2n_lt.
        pose proof (unle_bound mid) as B. rewrite L in B. exact B.
      * rewrite pow256_32. pose proof (tweak_range (b2n b0 + 256 * (unle mid + 256 ^ 30 * b2n b31))). lia.
  - cbn. rewrite !app_length. reflexivity.
Qed.

(* ================= refinement ================= *)
Section Refinement.
Variable P : prims.
Local Notation enc := (enc_pt P).
Local Notation sB := (smulB P).

(* wallets that carry a private key, related to an integer-level extended private key *)
Definition roots_ok (w : wallet) : Prop := is_empty (w_root_xprv w) && is_empty (w_root_pub w) = false.
Definition wf_priv (w : wallet) (x : xprv) : Prop :=
  w_xprv w = Some (ser256 (x_kL x) ++ ser256 (x_kR x)) /\ w_pub w = enc (sB (x_kL x)) /\ w_cc w = x_c x
  /\ x_kR x < 2^256 /\ roots_ok w.
Definition wf_pub (w : wallet) (p : xpub P) : Prop :=
  w_pub w = enc (p_A p) /\ w_cc w = p_c p /\ roots_ok w.
(* kL after d derivation steps below an Icarus root *)
Definition kL_bound (d : N) (x : xprv) : Prop := 2^254 <= x_kL x < 2^254 + 2^253 + d * 2^227.
Definition max_depth : N := 2^26.

(* the wallet the code must return for the integer-level child x' *)
Definition priv_child (w : wallet) (x' : xprv) (index : Z) : wallet :=
  {| w_root_xprv := w_root_xprv w; w_root_pub := w_root_pub w; w_root_cc := w_root_cc w;
     w_xprv := Some (ser256 (x_kL x') ++ ser256 (x_kR x')); w_pub := enc (sB (x_kL x')); w_cc := x_c x';
     w_path := child_path (w_path w) index |}.
Definition pub_child (w : wallet) (p' : xpub P) (index : Z) : wallet :=
  {| w_root_xprv := w_root_xprv w; w_root_pub := w_root_pub w; w_root_cc := w_root_cc w;
     w_xprv := None; w_pub := enc (p_A p'); w_cc := p_c p';
     w_path := child_path (w_path w) index |}.
Definition root_wallet (x : xprv) : wallet :=
  {| w_root_xprv := ser256 (x_kL x) ++ ser256 (x_kR x); w_root_pub := enc (sB (x_kL x)); w_root_cc := x_c x;
     w_xprv := Some (ser256 (x_kL x) ++ ser256 (x_kR x)); w_pub := enc (sB (x_kL x)); w_cc := x_c x;
     w_path := m_path |}.

Lemma ser256_length k : length (ser256 k) = 32%nat.
Proof. apply le_length. Qed.

Lemma noclamp_small k : 0 < k < 2^255 ->
  noclamp P (le 32 k) = if is_identity P (sB k) then Err ERuntime else Ok (enc (sB k)).
Proof.
  intros H. unfold noclamp, is_identity. rewrite le_length. cbn [Nat.eqb negb].
  rewrite unle_le_small by (rewrite pow256_32; lia).
  rewrite N.mod_small by lia.
  replace (k =? 0) with false by (symmetry; apply N.eqb_neq; lia).
  rewrite orb_false_r. reflexivity.
Qed.

Lemma to_bytes_le_32 n : n < 2^256 -> to_bytes_le 32 n = Some (le 32 n).
Proof.
  intros H. unfold to_bytes_le. rewrite pow256_32.
  replace (n <? 2^256) with true by (symmetry; apply N.ltb_lt; exact H). reflexivity.
Qed.

Lemma in_range_N index : in_index_range index = true -> Z.to_N index < 2^32 /\ Z.of_N (Z.to_N index) = index.
Proof. unfold in_index_range. intros H. split; lia. Qed.

(* ---- private child: the code's bytes are the specification's integers, for every index ---- *)
Lemma derive_private_refines w x xb index :
  wf_priv w x -> w_xprv w = Some xb ->
  0 < x_kL x -> x_kL x + 2^227 <= 2^255 ->
  in_index_range index = true ->
  derive_private P w xb index =
    match spec_ckd_priv P x (Z.to_N index) with
    | Some x' => Ok (priv_child w x' index)
    | None => Err ERuntime
    end.
Proof.
  intros (Hx & Hp & Hc & HR & Hroot) Hxb Hpos Hb Hr.
  assert (Exb : xb = ser256 (x_kL x) ++ ser256 (x_kR x)) by congruence. subst xb. clear Hxb.
  destruct (in_range_N _ Hr) as (Hi & _).
  unfold derive_private, spec_ckd_priv, spec_Z_priv, index_bound, hardened_threshold.
  rewrite Hr. cbn [negb].
  replace (2^32 <=? Z.to_N index) with false by (symmetry; apply N.leb_gt; exact Hi).
  rewrite (firstn_app_exact _ _ 32 (ser256_length _)), (skipn_app_exact _ _ 32 (ser256_length _)).
  rewrite Hp, Hc. unfold xprv_pub.
  assert (HkL : x_kL x < 2^256) by lia.
  rewrite (unle_ser256 _ HkL), (unle_ser256 _ HR).
  set (i := Z.to_N index) in *.
  assert (Fin : forall Z c,
    match to_bytes_le 32 (unle (firstn 28 Z) * 8 + x_kL x) with
    | Some kL => match to_bytes_le 32 ((unle (skipn 32 Z) + x_kR x) mod 2^256) with
                 | Some kR => bind (noclamp P kL) (fun A =>
                     Ok {| w_root_xprv := w_root_xprv w; w_root_pub := w_root_pub w; w_root_cc := w_root_cc w;
                           w_xprv := Some (kL ++ kR); w_pub := A; w_cc := c; w_path := child_path (w_path w) index |})
                 | None => Err EOverflow end
    | None => Err EOverflow end
    = if is_identity P (sB (8 * zL_of Z + x_kL x)) then Err ERuntime
      else Ok (priv_child w {| x_kL := 8 * zL_of Z + x_kL x; x_kR := (zR_of Z + x_kR x) mod 2^256; x_c := c |} index)).
  { intros Z c. pose proof (zL_bound Z) as B. unfold zL_of, zR_of in *.
    rewrite (N.mul_comm (unle (firstn 28 Z)) 8).
    rewrite to_bytes_le_32 by lia.
    rewrite to_bytes_le_32 by (apply N.mod_upper_bound; lia).
    rewrite noclamp_small by lia.
    destruct (is_identity P (sB (8 * unle (firstn 28 Z) + x_kL x))); reflexivity. }
  destruct (i <? 2^31).
  - cbn [app]. rewrite Fin.
    destruct (is_identity P _); reflexivity.
  - cbn [app]. rewrite <- !app_assoc. rewrite Fin.
    destruct (is_identity P _); reflexivity.
Qed.


(* the private step for ANY 256-bit kL, also outside the side condition of derive_private_refines:
   kL' >= 2^256 makes to_bytes raise OverflowError; for 2^255 <= kL' < 2^256 the code stores kL' but
   libsodium's noclamp multiplies by kL' mod 2^255 (see noclamp) *)
Lemma derive_private_general w x xb index :
  wf_priv w x -> w_xprv w = Some xb -> x_kL x < 2^256 -> in_index_range index = true ->
  derive_private P w xb index =
    let ZC := spec_Z_priv P x (Z.to_N index) in
    let kL' := 8 * zL_of (fst ZC) + x_kL x in
    let kR' := (zR_of (fst ZC) + x_kR x) mod 2^256 in
    if 2^256 <=? kL' then Err EOverflow else
    bind (noclamp P (le 32 kL')) (fun A =>
      Ok {| w_root_xprv := w_root_xprv w; w_root_pub := w_root_pub w; w_root_cc := w_root_cc w;
            w_xprv := Some (le 32 kL' ++ le 32 kR'); w_pub := A; w_cc := skipn 32 (snd ZC);
            w_path := child_path (w_path w) index |}).
Proof.
  intros (Hx & Hp & Hc & HR & Hroot) Hxb HkL Hr.
  assert (Exb : xb = ser256 (x_kL x) ++ ser256 (x_kR x)) by congruence. subst xb. clear Hxb.
  unfold derive_private, spec_Z_priv, hardened_threshold.
  rewrite Hr. cbn [negb].
  rewrite (firstn_app_exact _ _ 32 (ser256_length _)), (skipn_app_exact _ _ 32 (ser256_length _)).
  rewrite Hp, Hc. unfold xprv_pub.
  rewrite (unle_ser256 _ HkL), (unle_ser256 _ HR).
  set (i := Z.to_N index) in *.
  assert (Fin : forall Z c,
    match to_bytes_le 32 (unle (firstn 28 Z) * 8 + x_kL x) with
    | Some kL => match to_bytes_le 32 ((unle (skipn 32 Z) + x_kR x) mod 2^256) with
                 | Some kR => bind (noclamp P kL) (fun A =>
                     Ok {| w_root_xprv := w_root_xprv w; w_root_pub := w_root_pub w; w_root_cc := w_root_cc w;
                           w_xprv := Some (kL ++ kR); w_pub := A; w_cc := c; w_path := child_path (w_path w) index |})
                 | None => Err EOverflow end
    | None => Err EOverflow end
    = if 2^256 <=? 8 * zL_of Z + x_kL x then Err EOverflow else
      bind (noclamp P (le 32 (8 * zL_of Z + x_kL x))) (fun A =>
        Ok {| w_root_xprv := w_root_xprv w; w_root_pub := w_root_pub w; w_root_cc := w_root_cc w;
              w_xprv := Some (le 32 (8 * zL_of Z + x_kL x) ++ le 32 ((zR_of Z + x_kR x) mod 2^256)); w_pub := A; w_cc := c;
              w_path := child_path (w_path w) index |})).
  { intros Z c. unfold zL_of, zR_of.
    rewrite (N.mul_comm (unle (firstn 28 Z)) 8).
    rewrite (to_bytes_le_32 ((unle (skipn 32 Z) + x_kR x) mod 2^256)) by (apply N.mod_upper_bound; lia).
    destruct (2^256 <=? 8 * unle (firstn 28 Z) + x_kL x) eqn:E.
    - unfold to_bytes_le. rewrite pow256_32.
      replace (8 * unle (firstn 28 Z) + x_kL x <? 2^256) with false by lia. reflexivity.
    - rewrite to_bytes_le_32 by lia. reflexivity. }
  cbv zeta.
  destruct (i <? 2^31).
  - cbn [app fst snd]. rewrite Fin. reflexivity.
  - cbn [app fst snd]. rewrite <- !app_assoc. rewrite Fin. reflexivity.
Qed.

Definition eff_index (index : Z) (hardened : bool) : Z := if hardened then (index + 2^31)%Z else index.

(* derive(index, private=True, hardened) on a wallet holding x: exactly the specification's child *)
Lemma derive_private_spec w x index hardened :
  wf_priv w x -> 0 < x_kL x -> x_kL x + 2^227 <= 2^255 ->
  derive P w index true hardened =
    if in_index_range (eff_index index hardened) then
      match spec_ckd_priv P x (Z.to_N (eff_index index hardened)) with
      | Some x' => Ok (priv_child w x' (eff_index index hardened))
      | None => Err ERuntime
      end
    else Err EAssert.
Proof.
  intros Hwf Hpos Hb. pose proof Hwf as (Hx & _ & _ & _ & Hroot).
  unfold derive. rewrite Hroot, Hx. fold (eff_index index hardened).
  destruct (in_index_range (eff_index index hardened)) eqn:Hr.
  - now apply derive_private_refines.
  - unfold derive_private. rewrite Hr. reflexivity.
Qed.

Lemma spec_ckd_priv_inv x i x' : spec_ckd_priv P x i = Some x' ->
  i < 2^32 /\ exists zL, zL < 2^224 /\ x_kL x' = 8 * zL + x_kL x /\ x_kR x' < 2^256
  /\ is_identity P (sB (x_kL x')) = false.
Proof.
  unfold spec_ckd_priv, index_bound. destruct (2^32 <=? i) eqn:E; [discriminate|].
  destruct (spec_Z_priv P x i) as [Z C].
  destruct (is_identity P _) eqn:Ei; [discriminate|]. intros H. injection H as <-.
  split; [apply N.leb_gt in E; exact E|].
  exists (zL_of Z). cbn [x_kL x_kR]. repeat split; [apply zL_bound | | exact Ei].
  apply N.mod_upper_bound. lia.
Qed.

Lemma priv_child_wf w x x' index : wf_priv w x -> x_kR x' < 2^256 -> wf_priv (priv_child w x' index) x'.
Proof. intros (_ & _ & _ & _ & Hroot) HR. unfold wf_priv, priv_child, roots_ok in *. cbn. auto. Qed.

(* ---- every depth ---- *)
Fixpoint impl_path_priv (w : wallet) (l : list N) : result wallet :=
  match l with
  | [] => Ok w
  | i :: r => bind (derive P w (Z.of_N i) true false) (fun w' => impl_path_priv w' r)
  end.

Lemma depth_room d x : kL_bound d x -> d < max_depth -> 0 < x_kL x /\ x_kL x + 2^227 <= 2^255.
Proof.
  unfold kL_bound, max_depth. intros [H1 H2] Hd.
  assert (d * 2^227 <= (2^26 - 1) * 2^227) by (apply N.mul_le_mono_r; lia).
  change ((2^26 - 1) * 2^227) with (2^253 - 2^227) in *.
  change (2^255) with (2^254 + 2^253 + 2^253). split; lia.
Qed.

Lemma derive_all_depths : forall l w x d,
  wf_priv w x -> kL_bound d x -> d + lenN l <= max_depth ->
  match spec_path_priv P x l with
  | Some x' => exists w', impl_path_priv w l = Ok w' /\ wf_priv w' x' /\ kL_bound (d + lenN l) x'
                          /\ w_root_xprv w' = w_root_xprv w /\ w_root_pub w' = w_root_pub w /\ w_root_cc w' = w_root_cc w
  | None => exists e, impl_path_priv w l = Err e
  end.
Proof.
  induction l as [|i l IH]; intros w x d Hwf Hk Hd.
  - cbn [spec_path_priv impl_path_priv lenN]. exists w. rewrite N.add_0_r. auto 10.
  - cbn [spec_path_priv impl_path_priv]. cbn [lenN] in Hd.
    destruct (depth_room d x Hk) as (Hpos & Hb); [lia|].
    rewrite (derive_private_spec w x (Z.of_N i) false Hwf Hpos Hb). unfold eff_index.
    destruct (in_index_range (Z.of_N i)) eqn:Hr.
    + rewrite N2Z.id.
      destruct (spec_ckd_priv P x i) as [x'|] eqn:Ec.
      * destruct (spec_ckd_priv_inv _ _ _ Ec) as (_ & zL & HzL & HkL & HkR & _).
        cbn [bind].
        assert (Hwf' : wf_priv (priv_child w x' (Z.of_N i)) x') by (eapply priv_child_wf; eauto).
        assert (Hk' : kL_bound (d + 1) x').
        { unfold kL_bound in *. rewrite HkL. change (2^227) with (8 * 2^224). lia. }
        specialize (IH (priv_child w x' (Z.of_N i)) x' (d + 1) Hwf' Hk').
        replace (d + 1 + lenN l) with (d + (1 + lenN l)) in IH by lia.
        specialize (IH Hd). cbn [lenN].
        destruct (spec_path_priv P x' l) as [x''|]; [|exact IH].
        destruct IH as (w' & H1 & H2 & H3 & H4 & H5 & H6). exists w'. auto 10.
      * cbn [bind]. eauto.
    + cbn [bind].
      assert (Hi : spec_ckd_priv P x i = None).
      { unfold spec_ckd_priv, index_bound. unfold in_index_range in Hr.
        replace (2^32 <=? i) with true by (symmetry; apply N.leb_le; lia). reflexivity. }
      rewrite Hi. eauto.
Qed.

(* ---- the root ---- *)
Hypothesis pbkdf2_len : forall p s, length (pbkdf2 P p s) = 96%nat.

Lemma firstn_plus {A} n m : forall (l : list A), firstn (n + m) l = firstn n l ++ firstn m (skipn n l).
Proof.
  induction n as [|n IH]; intros l; [reflexivity|].
  destruct l as [|x l]; cbn [Nat.add firstn skipn app]; [now rewrite firstn_nil | now rewrite IH].
Qed.
Lemma skipn_plus {A} n m : forall (l : list A), skipn (n + m) l = skipn m (skipn n l).
Proof.
  induction n as [|n IH]; intros l; [reflexivity|].
  destruct l as [|x l]; cbn [Nat.add skipn]; [now rewrite skipn_nil | now rewrite IH].
Qed.

Lemma root_wallet_wf x : x_kR x < 2^256 -> wf_priv (root_wallet x) x.
Proof. intros H. unfold wf_priv, root_wallet, roots_ok. cbn. auto. Qed.

Lemma seed_wallet_spec pass entropy :
  let x := spec_root P pass entropy in
  from_seed P (generate_seed P pass entropy)
    = (if is_identity P (sB (x_kL x)) then Err ERuntime else Ok (root_wallet x))
  /\ wf_priv (root_wallet x) x /\ kL_bound 0 x /\ x_kL x mod 8 = 0.
Proof.
  intros x. unfold generate_seed, from_seed.
  set (s := pbkdf2 P pass entropy) in *. pose proof (pbkdf2_len pass entropy) as L. fold s in L.
  destruct (tweak_bits_spec s) as (t & Ht & F32 & S32 & Lt); [lia|].
  assert (HkL : x_kL x = tweak (unle (firstn 32 s))) by reflexivity.
  assert (HkR : x_kR x = unle (firstn 32 (skipn 32 s))) by reflexivity.
  assert (Hc : x_c x = skipn 64 s) by reflexivity.
  pose proof (tweak_range (unle (firstn 32 s))) as (Hrng & Hm8). rewrite <- HkL in Hrng, Hm8.
  assert (L32 : length (firstn 32 (skipn 32 s)) = 32%nat) by (rewrite firstn_length, skipn_length; lia).
  assert (HR : x_kR x < 2^256).
  { rewrite HkR. pose proof (unle_bound (firstn 32 (skipn 32 s))) as B. rewrite L32, pow256_32 in B. exact B. }
  repeat split; try assumption; try (unfold kL_bound; lia); try (apply root_wallet_wf; exact HR).
  rewrite Ht. cbn [bind]. rewrite F32, <- HkL.
  rewrite noclamp_small by lia.
  destruct (is_identity P (sB (x_kL x))); [reflexivity|]. cbn [bind]. f_equal.
  assert (F64 : firstn 64 t = ser256 (x_kL x) ++ ser256 (x_kR x)).
  { change 64%nat with (32 + 32)%nat. rewrite firstn_plus, F32, S32, <- HkL. f_equal.
    pose proof (le_unle (firstn 32 (skipn 32 s))) as Q. rewrite L32 in Q.
    unfold ser256. rewrite HkR. exact (eq_sym Q). }
  assert (S64 : skipn 64 t = x_c x).
  { change 64%nat with (32 + 32)%nat. rewrite skipn_plus, S32, <- skipn_plus. exact (eq_sym Hc). }
  unfold root_wallet. rewrite F64, S64. reflexivity.
Qed.


Lemma from_entropy_spec entropy pass : is_entropy_len entropy = true ->
  let x := spec_root P pass entropy in
  from_entropy P entropy pass = (if is_identity P (sB (x_kL x)) then Err ERuntime else Ok (root_wallet x))
  /\ wf_priv (root_wallet x) x /\ kL_bound 0 x /\ x_kL x mod 8 = 0.
Proof.
  intros H x. unfold from_entropy. rewrite H. cbn [negb]. apply seed_wallet_spec.
Qed.

Lemma from_entropy_refuses entropy pass : is_entropy_len entropy = false -> from_entropy P entropy pass = Err EValue.
Proof. intros H. unfold from_entropy. now rewrite H. Qed.

(* from any entropy and passphrase, along any list of (raw) indices: the wallet the code returns
   carries exactly the specification's keys *)
Lemma wallet_follows_spec entropy pass l :
  is_entropy_len entropy = true -> lenN l <= max_depth ->
  let r := spec_root P pass entropy in
  is_identity P (sB (x_kL r)) = false ->
  match spec_path_priv P r l with
  | Some x => exists w, bind (from_entropy P entropy pass) (fun w0 => impl_path_priv w0 l) = Ok w
                /\ w_xprv w = Some (ser256 (x_kL x) ++ ser256 (x_kR x))
                /\ w_pub w = enc (sB (x_kL x)) /\ w_cc w = x_c x
                /\ w_root_xprv w = ser256 (x_kL r) ++ ser256 (x_kR r)
                /\ w_root_pub w = enc (sB (x_kL r)) /\ w_root_cc w = x_c r
                /\ x_kL x < 2^255
  | None => exists e, bind (from_entropy P entropy pass) (fun w0 => impl_path_priv w0 l) = Err e
  end.
Proof.
  intros He Hl r Hid.
  destruct (from_entropy_spec entropy pass He) as (Hf & Hwf & Hk & _). fold r in Hf, Hwf, Hk.
  rewrite Hid in Hf. rewrite Hf. cbn [bind].
  pose proof (derive_all_depths l (root_wallet r) r 0 Hwf Hk) as H.
  rewrite N.add_0_l in H. specialize (H Hl).
  destruct (spec_path_priv P r l) as [x|]; [|exact H].
  destruct H as (w & H1 & (H2 & H3 & H4 & _) & H5 & H6 & H7 & H8). exists w.
  repeat split; try assumption.
  unfold kL_bound, max_depth in *. change (2^255) with (2^254 + 2^253 + 2^26 * 2^227).
  assert (lenN l * 2^227 <= 2^26 * 2^227) by (apply N.mul_le_mono_r; exact Hl). lia.
Qed.

(* ---- public derivation ---- *)
Hypothesis enc_len : forall g, length (enc g) = 32%nat.
Hypothesis smulB_add : forall a b, sB (a + b) = gadd P (sB a) (sB b).
Hypothesis pt_add_enc : forall a b, pt_add P (enc a) (enc b) = Some (enc (gadd P a b)).

Lemma wf_priv_pub w x : wf_priv w x -> wf_pub w (neuter P x).
Proof using . intros (_ & Hp & Hc & _ & Hr). unfold wf_pub, neuter, xprv_pub. cbn. auto. Qed.

Definition pub_Z (p : xpub P) (i : N) : bytes := hmac512 P (p_c p) (x02 :: enc (p_A p) ++ ser32 i).
Definition pub_C (p : xpub P) (i : N) : bytes := hmac512 P (p_c p) (x03 :: enc (p_A p) ++ ser32 i).

Lemma derive_public_spec w p index hardened :
  wf_pub w p ->
  derive P w index false hardened =
    let iz := eff_index index hardened in
    let i := Z.to_N iz in
    if in_index_range iz then
      if i <? 2^31 then
        let zL := zL_of (pub_Z p i) in
        if (zL =? 0) || is_identity P (sB (8 * zL)) then Err ERuntime
        else Ok (pub_child w {| p_A := gadd P (p_A p) (sB (8 * zL)); p_c := skipn 32 (pub_C p i) |} iz)
      else Err EValue
    else Err EAssert.
Proof using enc_len pt_add_enc.
  clear smulB_add pbkdf2_len.
  intros (Hp & Hc & Hroot). unfold derive. rewrite Hroot. fold (eff_index index hardened).
  cbv zeta. unfold derive_public. set (iz := eff_index index hardened).
  destruct (in_index_range iz); [|reflexivity]. cbn [negb].
  destruct (Z.to_N iz <? 2^31); [|reflexivity]. cbn [negb].
  rewrite Hp, Hc. cbn [app]. fold (ser32 (Z.to_N iz)). fold (pub_Z p (Z.to_N iz)). fold (pub_C p (Z.to_N iz)).
  fold (zL_of (pub_Z p (Z.to_N iz))).
  pose proof (zL_bound (pub_Z p (Z.to_N iz))) as B. set (zL := zL_of (pub_Z p (Z.to_N iz))) in *.
  rewrite to_bytes_le_32 by lia.
  destruct (zL =? 0) eqn:Ez.
  - apply N.eqb_eq in Ez. rewrite Ez. cbn [orb].
    unfold noclamp. rewrite le_length. cbn [Nat.eqb negb].
    rewrite unle_le_small by (rewrite pow256_32; lia).
    change (8 * 0 =? 0) with true. rewrite orb_true_r. reflexivity.
  - apply N.eqb_neq in Ez. cbn [orb]. rewrite noclamp_small by lia.
    destruct (is_identity P (sB (8 * zL))); [reflexivity|]. cbn [bind].
    unfold ed_add. rewrite !enc_len. cbn [Nat.eqb andb negb]. rewrite pt_add_enc. reflexivity.
Qed.

(* hardened public derivation is refused, for every wallet and every index *)
Lemma derive_public_hardened w index hardened :
  (2^31 <= eff_index index hardened)%Z ->
  derive P w index false hardened =
    Err (if is_empty (w_root_xprv w) && is_empty (w_root_pub w) then EValue
         else if (eff_index index hardened <? 2^32)%Z then EValue else EAssert).
Proof using .
  intros H. unfold derive. fold (eff_index index hardened).
  destruct (is_empty (w_root_xprv w) && is_empty (w_root_pub w)); [reflexivity|].
  unfold derive_public, in_index_range.
  destruct (eff_index index hardened <? 2^32)%Z eqn:E.
  - replace (0 <=? eff_index index hardened)%Z with true by lia. cbn [andb negb].
    replace (Z.to_N (eff_index index hardened) <? 2^31) with false by lia. reflexivity.
  - rewrite andb_false_r. reflexivity.
Qed.

(* what the code returns for a public step is the specification's public child *)
Lemma derive_public_sound w p index hardened w' :
  wf_pub w p -> derive P w index false hardened = Ok w' -> w_pub w' <> enc (gzero P) ->
  exists p', spec_ckd_pub P p (Z.to_N (eff_index index hardened)) = Some p'
             /\ w' = pub_child w p' (eff_index index hardened) /\ wf_pub w' p' /\ w_xprv w' = None.
Proof using enc_len pt_add_enc.
  clear smulB_add pbkdf2_len.
  intros Hwf Hd Hne. rewrite (derive_public_spec w p index hardened Hwf) in Hd. cbv zeta in Hd.
  set (iz := eff_index index hardened) in *. set (i := Z.to_N iz) in *.
  destruct (in_index_range iz); [|discriminate].
  destruct (i <? 2^31) eqn:Ei; [|discriminate].
  destruct ((zL_of (pub_Z p i) =? 0) || is_identity P (sB (8 * zL_of (pub_Z p i)))); [discriminate|].
  injection Hd as <-. eexists. split; [|split; [reflexivity|split]].
  - unfold spec_ckd_pub, hardened_threshold. apply N.ltb_lt in Ei.
    replace (2^31 <=? i) with false by (symmetry; apply N.leb_gt; exact Ei).
    fold (pub_Z p i). fold (pub_C p i).
    replace (is_identity P (gadd P (p_A p) (sB (8 * zL_of (pub_Z p i))))) with false; [reflexivity|].
    symmetry. apply bytes_eqb_neq. exact Hne.
  - destruct Hwf as (_ & _ & Hr). unfold wf_pub, pub_child, roots_ok in *. cbn. auto.
  - reflexivity.
Qed.

Lemma derive_public_complete w p i p' :
  wf_pub w p -> spec_ckd_pub P p i = Some p' ->
  zL_of (pub_Z p i) <> 0 -> is_identity P (sB (8 * zL_of (pub_Z p i))) = false ->
  derive P w (Z.of_N i) false false = Ok (pub_child w p' (Z.of_N i)).
Proof using enc_len pt_add_enc.
  clear smulB_add pbkdf2_len.
  intros Hwf Hs Hz Hi. rewrite (derive_public_spec w p (Z.of_N i) false Hwf). cbv zeta. unfold eff_index.
  rewrite N2Z.id. unfold spec_ckd_pub, hardened_threshold in Hs.
  destruct (2^31 <=? i) eqn:E; [discriminate|]. apply N.leb_gt in E.
  replace (in_index_range (Z.of_N i)) with true by (unfold in_index_range; lia).
  replace (i <? 2^31) with true by lia.
  fold (pub_Z p i) in Hs. fold (pub_C p i) in Hs.
  destruct (is_identity P (gadd P _ _)); [discriminate|]. injection Hs as <-.
  rewrite Hi. replace (zL_of (pub_Z p i) =? 0) with false by lia. reflexivity.
Qed.

Lemma Ok_inj {A} (a b : A) : Ok a = Ok b -> a = b.
Proof. congruence. Qed.
Lemma Some_inj {A} (a b : A) : Some a = Some b -> a = b.
Proof. congruence. Qed.

Lemma spec_ckd_priv_soft x i x' : spec_ckd_priv P x i = Some x' -> i < 2^31 ->
  x_kL x' = 8 * zL_of (pub_Z (neuter P x) i) + x_kL x /\ x_c x' = skipn 32 (pub_C (neuter P x) i).
Proof.
  unfold spec_ckd_priv, spec_Z_priv, index_bound, hardened_threshold. intros H Hi.
  destruct (2^32 <=? i); [discriminate|].
  replace (i <? 2^31) with true in H by (symmetry; apply N.ltb_lt; exact Hi).
  destruct (is_identity P _); [discriminate|]. apply Some_inj in H. subst x'.
  unfold pub_Z, pub_C, neuter, xprv_pub. cbn [x_kL x_c p_A p_c]. split; reflexivity.
Qed.

(* public-only derivation of a non-hardened child agrees with private derivation *)
Lemma pub_priv_agree w x index hardened wp ws :
  wf_priv w x -> 0 < x_kL x -> x_kL x + 2^227 <= 2^255 ->
  derive P w index false hardened = Ok wp ->
  derive P w index true hardened = Ok ws ->
  w_pub wp = w_pub ws /\ w_cc wp = w_cc ws /\ w_xprv wp = None
  /\ (eff_index index hardened < 2^31)%Z.
Proof using enc_len pt_add_enc smulB_add.
  clear pbkdf2_len.
  intros Hwf Hpos Hb Hp Hs.
  rewrite (derive_public_spec w _ index hardened (wf_priv_pub w x Hwf)) in Hp. cbv zeta in Hp.
  rewrite (derive_private_spec w x index hardened Hwf Hpos Hb) in Hs.
  destruct (in_index_range (eff_index index hardened)) eqn:Hr; [|discriminate Hp].
  destruct (Z.to_N (eff_index index hardened) <? 2^31) eqn:Ei; [|discriminate Hp].
  apply N.ltb_lt in Ei.
  destruct (spec_ckd_priv P x (Z.to_N (eff_index index hardened))) as [x'|] eqn:Ec; [|discriminate Hs].
  destruct (spec_ckd_priv_soft _ _ _ Ec Ei) as (HkL & Hc).
  apply Ok_inj in Hs. subst ws.
  destruct (_ || _) in Hp; [discriminate Hp|]. apply Ok_inj in Hp. subst wp.
  unfold pub_child, priv_child. cbn [w_pub w_cc w_xprv p_A p_c].
  rewrite HkL, Hc, (N.add_comm _ (x_kL x)), smulB_add.
  repeat split. unfold in_index_range in Hr. lia.
Qed.

(* if the private step succeeds, the public step succeeds too unless ZL = 0 or (8 ZL)·B is the identity *)
Lemma pub_succeeds_when_priv w x index hardened :
  wf_priv w x -> (0 <= eff_index index hardened < 2^31)%Z ->
  let i := Z.to_N (eff_index index hardened) in
  zL_of (pub_Z (neuter P x) i) <> 0 -> is_identity P (sB (8 * zL_of (pub_Z (neuter P x) i))) = false ->
  exists wp, derive P w index false hardened = Ok wp.
Proof using enc_len pt_add_enc.
  clear smulB_add pbkdf2_len.
  intros Hwf Hr i Hz Hi.
  rewrite (derive_public_spec w _ index hardened (wf_priv_pub w x Hwf)). cbv zeta. fold i.
  replace (in_index_range (eff_index index hardened)) with true by (unfold in_index_range; lia).
  replace (i <? 2^31) with true by (subst i; lia).
  rewrite Hi. replace (zL_of (pub_Z (neuter P x) i) =? 0) with false by lia. cbn [orb]. eauto.
Qed.

End Refinement.

(* ================= path strings ================= *)
Definition dval (l : str) (a : N) : N := fold_left (fun a c => 10 * a + digit_val c) l a.
Definition all_digits (l : str) : Prop := Forall (fun c => is_digit c = true) l.

Lemma digit_char_ok d : d < 10 -> is_digit (digit_char d) = true /\ digit_val (digit_char d) = d.
Proof.
  intros H. unfold is_digit, digit_val, digit_char.
  rewrite N_ascii_embedding by lia. cbv zeta. split; [|lia].
  apply andb_true_iff. split; apply N.leb_le; lia.
Qed.

Lemma render_fuel_spec : forall f n acc, (0 < f)%nat -> n < 10 ^ N.of_nat f ->
  exists ds, render_dec_fuel f n acc = ds ++ acc /\ ds <> [] /\ all_digits ds
             /\ forall a, dval ds a = a * 10 ^ N.of_nat (length ds) + n.
Proof.
  induction f as [|f IH]; intros n acc Hf Hn; [lia|].
  cbn [render_dec_fuel].
  assert (Hd : n mod 10 < 10) by (apply N.mod_upper_bound; lia).
  destruct (digit_char_ok _ Hd) as (D1 & D2).
  destruct (n <? 10) eqn:E.
  - apply N.ltb_lt in E. exists [digit_char (n mod 10)]. repeat split.
    + discriminate.
    + constructor; [exact D1|constructor].
    + intros a. unfold dval. cbn [fold_left length]. change (N.of_nat 1) with 1. rewrite N.pow_1_r.
      rewrite D2, N.mod_small by exact E. lia.
  - apply N.ltb_ge in E.
    assert (Hf' : (0 < f)%nat).
    { destruct f; [|lia]. cbn in Hn. lia. }
    assert (Hn' : n / 10 < 10 ^ N.of_nat f).
    { rewrite Nnat.Nat2N.inj_succ, N.pow_succ_r' in Hn. apply N.div_lt_upper_bound; lia. }
    destruct (IH (n / 10) (digit_char (n mod 10) :: acc) Hf' Hn') as (ds & H1 & H2 & H3 & H4).
    exists (ds ++ [digit_char (n mod 10)]). repeat split.
    + rewrite H1, <- app_assoc. reflexivity.
    + destruct ds; discriminate.
    + apply Forall_app. split; [exact H3|]. constructor; [exact D1|constructor].
    + intros a. unfold dval in *. rewrite fold_left_app, H4. cbn [fold_left]. rewrite D2.
      rewrite app_length. cbn [length]. rewrite Nat.add_1_r, Nnat.Nat2N.inj_succ, N.pow_succ_r'.
      pose proof (N.div_mod n 10). lia.
Qed.

Lemma render_dec_spec n :
  render_dec n <> [] /\ all_digits (render_dec n) /\ dval (render_dec n) 0 = n.
Proof.
  unfold render_dec.
  assert (Hn : n < 10 ^ N.of_nat (S (N.to_nat (N.log2 n)))).
  { rewrite Nnat.Nat2N.inj_succ, Nnat.N2Nat.id.
    destruct (N.eq_dec n 0) as [->|Hz]; [cbn; lia|].
    assert (n < 2 ^ N.succ (N.log2 n)) by (apply N.log2_spec; lia).
    assert (2 ^ N.succ (N.log2 n) <= 10 ^ N.succ (N.log2 n)) by (apply N.pow_le_mono_l; lia).
    lia. }
  destruct (render_fuel_spec _ n [] (Nat.lt_0_succ _) Hn) as (ds & H1 & H2 & H3 & H4).
  rewrite H1, app_nil_r. repeat split; try assumption. rewrite H4. lia.
Qed.

Lemma digits_us_digits : forall ds acc flag, all_digits ds -> (ds <> [] \/ flag = true) ->
  digits_us ds acc flag = Some (dval ds acc).
Proof.
  induction ds as [|c ds IH]; intros acc flag Hd Hne.
  - destruct Hne as [H| ->]; [congruence|reflexivity].
  - inversion Hd as [|? ? Hc Hds]; subst. cbn [digits_us]. rewrite Hc.
    rewrite IH by auto. reflexivity.
Qed.

Lemma digit_not c x : is_digit c = true -> is_digit x = false -> Ascii.eqb c x = false.
Proof.
  intros H1 H2. destruct (Ascii.eqb c x) eqn:E; [|reflexivity].
  apply Ascii.eqb_eq in E. subst. congruence.
Qed.

Lemma lstrip_sp_digit c r : is_digit c = true -> lstrip_sp (c :: r) = c :: r.
Proof.
  intros H. cbn [lstrip_sp]. unfold is_space. unfold is_digit in H.
  replace (N_of_ascii c =? 32) with false by lia. reflexivity.
Qed.

Lemma strip_sp_digits ds : all_digits ds -> strip_sp ds = ds.
Proof.
  intros H. unfold strip_sp.
  assert (L : forall l, all_digits l -> lstrip_sp l = l).
  { intros [|c r] Hl; [reflexivity|]. inversion Hl; subst. now apply lstrip_sp_digit. }
  rewrite (L ds H). rewrite L; [apply rev_involutive|].
  apply Forall_rev. exact H.
Qed.

Lemma py_int_digits ds : ds <> [] -> all_digits ds -> py_int ds = Some (Z.of_N (dval ds 0)).
Proof.
  intros Hne Hd. unfold py_int. rewrite strip_sp_digits by exact Hd.
  destruct ds as [|c r]; [congruence|].
  inversion Hd as [|? ? Hc Hr]; subst.
  rewrite (digit_not c "-"%char Hc eq_refl), (digit_not c "+"%char Hc eq_refl).
  rewrite digits_us_digits by auto. reflexivity.
Qed.

Lemma py_int_render n : py_int (render_dec n) = Some (Z.of_N n).
Proof.
  destruct (render_dec_spec n) as (H1 & H2 & H3).
  rewrite py_int_digits by assumption. now rewrite H3.
Qed.

Lemma ends_with_quote_digits ds : all_digits ds -> ends_with_quote ds = false.
Proof.
  intros H. unfold ends_with_quote. apply Forall_rev in H.
  destruct (rev ds) as [|c r]; [reflexivity|]. inversion H; subst.
  now apply digit_not.
Qed.

Lemma ends_with_quote_app ds : ends_with_quote (ds ++ ["'"%char]) = true.
Proof. unfold ends_with_quote. rewrite rev_app_distr. reflexivity. Qed.

Definition no_slash (s : str) : Prop := Forall (fun c => Ascii.eqb c slash = false) s.

Lemma split_noslash : forall a cur rest, no_slash a ->
  split_slash (a ++ rest) cur = split_slash rest (rev a ++ cur).
Proof.
  induction a as [|c a IH]; intros cur rest H; [reflexivity|].
  inversion H as [|? ? Hc Ha]; subst. cbn [app split_slash]. rewrite Hc, IH by exact Ha.
  cbn [rev]. now rewrite <- app_assoc.
Qed.

Lemma split_join : forall comps, comps <> [] -> Forall no_slash comps ->
  split_slash (join_slash comps) [] = comps.
Proof.
  induction comps as [|a comps IH]; intros Hne H; [congruence|].
  inversion H as [|? ? Ha Hr]; subst.
  destruct comps as [|b comps].
  - cbn [join_slash]. rewrite <- (app_nil_r a) at 1. rewrite split_noslash by exact Ha.
    cbn [split_slash]. now rewrite app_nil_r, rev_involutive.
  - change (join_slash (a :: b :: comps)) with (a ++ slash :: join_slash (b :: comps)).
    rewrite split_noslash by exact Ha. cbn [split_slash].
    rewrite Ascii.eqb_refl, app_nil_r, rev_involutive. f_equal.
    apply IH; [discriminate|exact Hr].
Qed.

Lemma render_step_shape s :
  exists c r, render_step s = c :: r /\ is_digit c = true /\ no_slash (render_step s).
Proof.
  destruct s as [n h]. unfold render_step. cbn [fst snd].
  destruct (render_dec_spec n) as (H1 & H2 & _).
  destruct (render_dec n) as [|c r] eqn:E; [congruence|].
  inversion H2 as [|? ? Hc Hr]; subst.
  exists c, (r ++ (if h then ["'"%char] else [])). repeat split; [exact Hc|].
  change (c :: r ++ (if h then ["'"%char] else [])) with ((c :: r) ++ (if h then ["'"%char] else [])).
  apply Forall_app. split.
  - eapply Forall_impl; [|exact H2]. intros a Ha. now apply digit_not.
  - destruct h; repeat constructor.
Qed.

Lemma lstrip_m_slash_digit c r : is_digit c = true -> lstrip_m_slash (c :: r) = c :: r.
Proof.
  intros H. cbn [lstrip_m_slash].
  rewrite (digit_not c "m"%char H eq_refl), (digit_not c slash H eq_refl). reflexivity.
Qed.

Section PathString.
Variable P : prims.

Definition step_fun (private : bool) (acc : result wallet) (s : N * bool) : result wallet :=
  bind acc (fun w => derive P w (Z.of_N (fst s)) private (snd s)).

Lemma derive_component_render private acc s :
  derive_component P private acc (render_step s) = step_fun private acc s.
Proof.
  destruct s as [n h]. unfold derive_component, step_fun, render_step. cbn [fst snd].
  destruct acc as [w|e]; [|reflexivity]. cbn [bind].
  destruct (render_dec_spec n) as (H1 & H2 & _).
  destruct h.
  - rewrite ends_with_quote_app. unfold drop_last. rewrite removelast_last, py_int_render. reflexivity.
  - rewrite app_nil_r, ends_with_quote_digits by exact H2. rewrite py_int_render. reflexivity.
Qed.

Lemma fold_components private : forall steps acc,
  fold_left (derive_component P private) (map render_step steps) acc = fold_left (step_fun private) steps acc.
Proof.
  induction steps as [|s steps IH]; intros acc; [reflexivity|].
  cbn [map fold_left]. rewrite derive_component_render. apply IH.
Qed.

Lemma dfp_unfold w rest private :
  derive_from_path P w ("m"%char :: slash :: rest) private
  = fold_left (derive_component P private) (split_slash (lstrip_m_slash rest) []) (Ok w).
Proof. reflexivity. Qed.

(* path-string derivation = step-by-step derivation, for every non-empty list of steps,
   every index (also >= 2^31 and >= 2^32, where both sides fail alike), both modes *)
Lemma derive_from_path_render w steps private : steps <> [] ->
  derive_from_path P w (render_path steps) private = fold_left (step_fun private) steps (Ok w).
Proof.
  intros Hne. unfold render_path. rewrite dfp_unfold.
  assert (Hj : exists c r, join_slash (map render_step steps) = c :: r /\ is_digit c = true).
  { destruct steps as [|s steps]; [congruence|].
    destruct (render_step_shape s) as (c & r & E & Hc & _).
    cbn [map]. destruct (map render_step steps) as [|b l].
    - exists c, r. cbn [join_slash]. auto.
    - exists c, (r ++ slash :: join_slash (b :: l)).
      change (join_slash (render_step s :: b :: l)) with (render_step s ++ slash :: join_slash (b :: l)).
      rewrite E. auto. }
  destruct Hj as (c & r & Ej & Hc). rewrite Ej, lstrip_m_slash_digit by exact Hc. rewrite <- Ej.
  rewrite split_join.
  - apply fold_components.
  - destruct steps; [congruence|discriminate].
  - apply Forall_forall. intros x Hx. apply in_map_iff in Hx as (s & <- & _).
    destruct (render_step_shape s) as (_ & _ & _ & _ & H). exact H.
Qed.

End PathString.

(* ================= signatures of derived keys ================= *)
Lemma ell_bounds : 0 < ell /\ ell < 2^253.
Proof. split; reflexivity. Qed.

Section Signatures.
Variable P : prims.
Local Notation enc := (enc_pt P).
Local Notation sB := (smulB P).

Hypothesis enc_len : forall g, length (enc g) = 32%nat.
Hypothesis dec_enc : forall g, dec_pt P (enc g) = Some g.
Hypothesis smulB_add : forall a b, sB (a + b) = gadd P (sB a) (sB b).
Hypothesis smulB_0 : sB 0 = gzero P.
Hypothesis smulB_ell : sB ell = gzero P.
Hypothesis gadd_zero_l : forall g, gadd P (gzero P) g = g.
Hypothesis gadd_comm : forall a b, gadd P a b = gadd P b a.
Hypothesis smul_0 : forall g, smul P 0 g = gzero P.
Hypothesis smul_succ : forall n g, smul P (N.succ n) g = gadd P g (smul P n g).

Lemma sB_mul_ell q : sB (ell * q) = gzero P.
Proof.
  induction q as [|q IH] using N.peano_ind.
  - rewrite N.mul_0_r. exact smulB_0.
  - rewrite N.mul_succ_r, smulB_add, IH, smulB_ell. apply gadd_zero_l.
Qed.

Lemma sB_mod a : sB (a mod ell) = sB a.
Proof.
  rewrite (N.div_mod a ell) at 2 by (pose proof ell_bounds; lia).
  rewrite smulB_add, sB_mul_ell, gadd_zero_l. reflexivity.
Qed.

Lemma sB_mul a b : sB (a * b) = smul P a (sB b).
Proof.
  induction a as [|a IH] using N.peano_ind.
  - rewrite N.mul_0_l, smul_0. exact smulB_0.
  - rewrite N.mul_succ_l, smulB_add, IH, smul_succ. apply gadd_comm.
Qed.

Lemma noclamp_ok n q : noclamp P n = Ok q ->
  length n = 32%nat /\ q = enc (sB (unle n mod 2^255)) /\ unle n <> 0.
Proof.
  unfold noclamp. destruct (length n =? 32)%nat eqn:L; [|discriminate]. cbn [negb].
  destruct (bytes_eqb _ _ || (unle n =? 0)) eqn:E; [discriminate|].
  intros H. apply Ok_inj in H. apply orb_false_iff in E as (_ & E).
  apply Nat.eqb_eq in L. apply N.eqb_neq in E. auto.
Qed.

(* a signature made with an extended private key whose kL is below 2^255 (every key derived from an
   Icarus root within 2^26 levels) satisfies the Ed25519 verification equation under kL·B *)
Lemma sign_verifies priv msg sig :
  unle (firstn 32 priv) < 2^255 ->
  bip32_sign P priv msg = Ok sig ->
  ed_verify P (enc (sB (unle (firstn 32 priv)))) msg sig = true.
Proof.
  intros HkL. unfold bip32_sign.
  set (kL := unle (firstn 32 priv)) in *.
  destruct (noclamp P (firstn 32 priv)) as [A|] eqn:EA; [|discriminate]. cbn [bind].
  destruct (noclamp_ok _ _ EA) as (_ & HA & _). fold kL in HA. rewrite N.mod_small in HA by exact HkL.
  set (r := unle (sha512 P (skipn 32 priv ++ msg)) mod ell).
  assert (Hr : r < ell) by (apply N.mod_upper_bound; pose proof ell_bounds; lia).
  destruct (noclamp P (le 32 r)) as [R|] eqn:ER; [|discriminate]. cbn [bind].
  destruct (noclamp_ok _ _ ER) as (_ & HR & _).
  pose proof ell_bounds as (E0 & E1).
  rewrite unle_le_small in HR by (rewrite pow256_32; lia).
  rewrite N.mod_small in HR by lia.
  subst A R. clear EA ER.
  set (R := enc (sB r)). set (A := enc (sB kL)).
  set (h := unle (sha512 P (R ++ A ++ msg)) mod ell).
  set (S := ((h mod ell * (kL mod ell)) mod ell + r) mod ell).
  assert (HS : S < ell) by (apply N.mod_upper_bound; lia).
  intros H. apply Ok_inj in H. subst sig.
  unfold ed_verify.
  assert (LR : length R = 32%nat) by apply enc_len.
  rewrite (firstn_app_exact _ _ 32 LR), (skipn_app_exact _ _ 32 LR).
  rewrite unle_le_small by (rewrite pow256_32; lia).
  unfold A at 1, R at 1. rewrite !dec_enc.
  rewrite app_length, LR, le_length. cbn [Nat.add Nat.eqb andb].
  replace (S <? ell) with true by (symmetry; apply N.ltb_lt; exact HS). cbn [andb].
  unfold hram. fold h.
  replace (sB S) with (gadd P (sB r) (smul P h (sB kL))); [apply bytes_eqb_refl|].
  unfold S. rewrite sB_mod, smulB_add, sB_mod, sB_mul, sB_mod.
  replace (h mod ell) with h by (unfold h; rewrite N.mod_mod by lia; reflexivity). apply gadd_comm.
Qed.

(* ExtendedSigningKey.from_hdwallet(w).sign(m) verifies under from_hdwallet(w).to_verification_key()
   (= the wallet's derived public key), for every wallet that holds the private key x with kL < 2^255 *)
Lemma derived_key_signature w x payload msg sig :
  wf_priv P w x -> x_kL x < 2^255 ->
  esk_from_hdwallet w = Ok payload -> esk_sign P payload msg = Ok sig ->
  payload = ser256 (x_kL x) ++ ser256 (x_kR x) ++ enc (sB (x_kL x)) ++ x_c x
  /\ evk_to_non_extended (esk_to_vk payload) = w_pub w
  /\ ed_verify P (w_pub w) msg sig = true.
Proof.
  intros (Hx & Hp & Hc & HR & _) HkL Hpay Hsig.
  unfold esk_from_hdwallet in Hpay. rewrite Hx, Hp, Hc in Hpay. apply Ok_inj in Hpay.
  assert (L64 : length (ser256 (x_kL x) ++ ser256 (x_kR x)) = 64%nat)
    by (rewrite app_length, !ser256_length; reflexivity).
  assert (F : firstn 64 payload = ser256 (x_kL x) ++ ser256 (x_kR x)) by (subst payload; apply firstn_app_exact, L64).
  assert (S64 : skipn 64 payload = enc (sB (x_kL x)) ++ x_c x) by (subst payload; apply skipn_app_exact, L64).
  split; [subst payload; now rewrite <- app_assoc|].
  unfold evk_to_non_extended, esk_to_vk. rewrite S64, Hp.
  split; [apply firstn_app_exact, enc_len|].
  unfold esk_sign in Hsig. rewrite F in Hsig.
  pose proof (sign_verifies (ser256 (x_kL x) ++ ser256 (x_kR x)) msg sig) as V.
  rewrite (firstn_app_exact _ _ 32 (ser256_length _)) in V.
  rewrite unle_ser256 in V by lia. apply V; assumption.
Qed.

Lemma public_only_wallet_has_no_signing_key w : w_xprv w = None ->
  esk_from_hdwallet w = Err EInvalidKeyType /\ forall i h, derive P w i true h = Err EValue.
Proof.
  intros H. unfold esk_from_hdwallet, derive. rewrite H. split; [reflexivity|].
  intros i h. destruct (is_empty _ && is_empty _); reflexivity.
Qed.

End Signatures.
