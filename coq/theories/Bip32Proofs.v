(* Bip32Proofs.v — refinement of the byte-level model (Bip32Impl.v) to the integer-level
   specification (Bip32Spec.v), for all keys, indices and depths.  Laws about the external
   primitives are Section hypotheses; each theorem is, after the section is closed, quantified over
   exactly the hypotheses its proof uses. *)
From Coq Require Import NArith ZArith Ascii String List Bool Lia.
From Coq Require Import Init.Byte.
From Coq Require Import ZifyBool ZifyN ZifyNat.
From PyC Require Import Base Bip32Spec Bip32Impl.
Import ListNotations.
Open Scope N_scope.

(* ================= little-endian lemmas ================= *)
Lemma le_length k : forall n, length (le k n) = k.
Proof. induction k as [|k IH]; intros n; cbn; [easy|]. now rewrite IH. Qed.

Lemma unle_bound b : unle b < 256 ^ N.of_nat (length b).
Proof.
  induction b as [|x b IH]; [cbn; lia|].
  cbn [unle length]. rewrite Nnat.Nat2N.inj_succ, N.pow_succ_r'.
  pose proof (b2n_lt x). lia.
Qed.

Lemma unle_app a : forall b, unle (a ++ b) = unle a + 256 ^ N.of_nat (length a) * unle b.
Proof.
  induction a as [|x a IH]; intros b.
  - cbn [app unle length]. change (256 ^ N.of_nat 0) with 1. lia.
  - cbn [app unle length]. rewrite IH, Nnat.Nat2N.inj_succ, N.pow_succ_r'. lia.
Qed.

Lemma unle_le k : forall n, unle (le k n) = n mod 256 ^ N.of_nat k.
Proof.
  induction k as [|k IH]; intros n.
  - cbn. now rewrite N.mod_1_r.
  - cbn [le unle]. rewrite IH, b2n_n2b, Nnat.Nat2N.inj_succ, N.pow_succ_r'.
    assert (H : 256 ^ N.of_nat k <> 0) by (apply N.pow_nonzero; lia).
    rewrite (N.mul_comm 256), N.mod_mul_r by lia. lia.
Qed.

Lemma unle_le_small k n : n < 256 ^ N.of_nat k -> unle (le k n) = n.
Proof. intros H. rewrite unle_le. now apply N.mod_small. Qed.

Lemma le_unle b : le (length b) (unle b) = b.
Proof.
  induction b as [|x b IH]; [easy|].
  cbn [length le unle]. f_equal.
  - rewrite <- (n2b_b2n x) at 2. unfold n2b.
    replace ((b2n x + 256 * unle b) mod 256) with (b2n x mod 256); [reflexivity|].
    rewrite N.add_comm, N.mul_comm, N.mod_add by lia. reflexivity.
  - replace ((b2n x + 256 * unle b) / 256) with (unle b); [exact IH|].
    rewrite N.add_comm, N.mul_comm, N.div_add_l by lia.
    rewrite (N.div_small (b2n x)) by apply b2n_lt. now rewrite N.add_0_r.
Qed.

Lemma le_inj_unle a b : length a = length b -> unle a = unle b -> a = b.
Proof. intros HL HU. rewrite <- (le_unle a), <- (le_unle b), HL, HU. reflexivity. Qed.

Lemma pow256_32 : 256 ^ N.of_nat 32 = 2 ^ 256. Proof. reflexivity. Qed.
Lemma pow256_28 : 256 ^ N.of_nat 28 = 2 ^ 224. Proof. reflexivity. Qed.

Lemma unle_ser256 k : k < 2^256 -> unle (ser256 k) = k.
Proof. intros H. apply unle_le_small. now rewrite pow256_32. Qed.

Lemma zL_bound Z : zL_of Z < 2 ^ 224.
Proof.
  unfold zL_of. pose proof (unle_bound (firstn 28 Z)) as H.
  assert (L : (length (firstn 28 Z) <= 28)%nat) by apply firstn_le_length.
  assert (256 ^ N.of_nat (length (firstn 28 Z)) <= 256 ^ N.of_nat 28) by (apply N.pow_le_mono_r; lia).
  rewrite pow256_28 in *. lia.
Qed.

Lemma firstn_app_exact {A} (a b : list A) n : length a = n -> firstn n (a ++ b) = a.
Proof. intros <-. rewrite firstn_app, Nat.sub_diag, firstn_all. cbn. now rewrite app_nil_r. Qed.
Lemma skipn_app_exact {A} (a b : list A) n : length a = n -> skipn n (a ++ b) = b.
Proof. intros <-. rewrite skipn_app, Nat.sub_diag, skipn_all. reflexivity. Qed.

(* ================= bit tweaking ================= *)
Lemma band248 x : b2n (band 248 x) = 8 * (b2n x / 8).
Proof. destruct x; vm_compute; reflexivity. Qed.
Lemma bor64_band31 x : b2n (bor 64 (band 31 x)) = b2n x mod 32 + 64.
Proof. destruct x; vm_compute; reflexivity. Qed.

Lemma tweak_arith b0 M b31 :
  b0 < 256 -> M < 256 ^ 30 -> b31 < 256 ->
  8 * (b0 / 8) + 256 * (M + 256 ^ 30 * (b31 mod 32 + 64)) = tweak (b0 + 256 * (M + 256 ^ 30 * b31)).
Proof.
  intros H0 HM H31. unfold tweak.
  set (lo := b0 + 256 * M + 2 ^ 248 * (b31 mod 32)).
  assert (E : b0 + 256 * (M + 256 ^ 30 * b31) = lo + 2 ^ 253 * (b31 / 32)).
  { unfold lo. change (256 ^ 30) with (2 ^ 240).
    pose proof (N.div_mod b31 32). change (2 ^ 253) with (2 ^ 248 * 32). change (2^248) with (256 * 2^240). lia. }
  assert (Hlo : lo < 2 ^ 253).
  { unfold lo. change (256 ^ 30) with (2 ^ 240) in HM.
    pose proof (N.mod_upper_bound b31 32). change (2 ^ 253) with (2 ^ 248 * 32). change (2^248) with (256 * 2^240) in *. lia. }
  rewrite E.
  assert (Em : (lo + 2 ^ 253 * (b31 / 32)) mod 2 ^ 253 = lo).
  { rewrite N.add_comm, N.mul_comm, N.mod_add by lia. now apply N.mod_small. }
  rewrite Em.
  assert (Ed : lo / 8 = b0 / 8 + 32 * M + 2 ^ 245 * (b31 mod 32)).
  { unfold lo. symmetry. apply N.div_unique with (r := b0 mod 8).
    - apply N.mod_upper_bound; lia.
    - pose proof (N.div_mod b0 8). change (2 ^ 248) with (8 * 2 ^ 245). lia. }
  rewrite Ed. change (256 ^ 30) with (2 ^ 240). change (2 ^ 254) with (2 ^ 248 * 64).
  change (2 ^ 248) with (256 * 2 ^ 240). change (2 ^ 245) with (32 * 2 ^ 240). lia.
Qed.

Lemma tweak_range k : 2 ^ 254 <= tweak k < 2 ^ 254 + 2 ^ 253 /\ tweak k mod 8 = 0.
Proof.
  unfold tweak. pose proof (N.mod_upper_bound k (2 ^ 253)) as H.
  assert (H1 : 8 * (k mod 2 ^ 253 / 8) <= k mod 2 ^ 253) by (apply N.mul_div_le; lia).
  split; [lia|].
  change (2 ^ 254) with (8 * 2 ^ 251). rewrite <- N.mul_add_distr_l.
  rewrite N.mul_comm. apply N.mod_mul. lia.
Qed.

(* a list of length >= 32 splits as b0 :: mid(30) ++ b31 :: rest *)
Lemma split32 (s : bytes) : (32 <= length s)%nat ->
  exists b0 mid b31 rest, s = b0 :: mid ++ b31 :: rest /\ length mid = 30%nat.
Proof.
  intros H. destruct s as [|b0 s]; [cbn in H; lia|].
  cbn in H. exists b0, (firstn 30 s).
  destruct (skipn 30 s) as [|b31 rest] eqn:E.
  - assert (length (skipn 30 s) = 0%nat) by now rewrite E. rewrite skipn_length in *. lia.
  - exists b31, rest. split.
    + rewrite <- E, firstn_skipn. reflexivity.
    + rewrite firstn_length. lia.
Qed.

Lemma tweak_bits_shape b0 mid b31 rest : length mid = 30%nat ->
  tweak_bits (b0 :: mid ++ b31 :: rest) = Ok (band 248 b0 :: mid ++ bor 64 (band 31 b31) :: rest).
Proof.
  intros L. unfold tweak_bits.
  assert (U0 : upd 0 (band 248) (b0 :: mid ++ b31 :: rest) = Some (band 248 b0 :: mid ++ b31 :: rest)) by reflexivity.
  rewrite U0.
  assert (U : forall f x y, upd 31 f (x :: mid ++ y :: rest) = Some (x :: mid ++ f y :: rest)).
  { intros f x y. unfold upd.
    change (nth_error (x :: mid ++ y :: rest) 31) with (nth_error (mid ++ y :: rest) 30).
    rewrite nth_error_app2 by lia. rewrite L. cbn [Nat.sub nth_error].
    change (firstn 31 (x :: mid ++ y :: rest)) with (x :: firstn 30 (mid ++ y :: rest)).
    change (skipn 32 (x :: mid ++ y :: rest)) with (skipn 31 (mid ++ y :: rest)).
    rewrite firstn_app_exact by exact L.
    replace 31%nat with (length (mid ++ [y])) by (rewrite app_length; cbn; lia).
    replace (mid ++ y :: rest) with ((mid ++ [y]) ++ rest) by (now rewrite <- app_assoc).
    rewrite skipn_app_exact by reflexivity. reflexivity. }
  rewrite U, U. reflexivity.
Qed.

Lemma unle_shape b0 mid b31 : length mid = 30%nat ->
  unle (b0 :: mid ++ [b31]) = b2n b0 + 256 * (unle mid + 256 ^ 30 * b2n b31).
Proof.
  intros L. cbn [unle]. rewrite unle_app, L. cbn [unle]. change (N.of_nat 30) with 30. lia.
Qed.

(* the byte-level tweak of a seed of at least 32 bytes = the integer-level tweak of its first 32 bytes;
   the remaining bytes are untouched *)
Lemma tweak_bits_spec (s : bytes) : (32 <= length s)%nat ->
  exists t, tweak_bits s = Ok t /\ firstn 32 t = le 32 (tweak (unle (firstn 32 s)))
            /\ skipn 32 t = skipn 32 s /\ length t = length s.
Proof.
  intros H. destruct (split32 s H) as (b0 & mid & b31 & rest & -> & L).
  eexists. split; [apply tweak_bits_shape; exact L|].
  assert (F : forall x y, firstn 32 (x :: mid ++ y :: rest) = x :: mid ++ [y]).
  { intros x y. replace (x :: mid ++ y :: rest) with ((x :: mid ++ [y]) ++ rest) by (cbn; now rewrite <- app_assoc).
    apply firstn_app_exact. cbn. rewrite app_length. cbn. lia. }
  assert (S : forall x y, skipn 32 (x :: mid ++ y :: rest) = rest).
  { intros x y. replace (x :: mid ++ y :: rest) with ((x :: mid ++ [y]) ++ rest) by (cbn; now rewrite <- app_assoc).
    apply skipn_app_exact. cbn. rewrite app_length. cbn. lia. }
  rewrite !F, !S. repeat split.
  - apply le_inj_unle.
    + rewrite le_length. cbn. rewrite app_length. cbn. lia.
    + rewrite !unle_shape by exact L. rewrite band248, bor64_band31.
      rewrite unle_le_small.
      * apply tweak_arith; try apply b2n_lt.
        pose proof (unle_bound mid) as B. rewrite L in B. exact B.
      * rewrite pow256_32. pose proof (tweak_range (b2n b0 + 256 * (unle mid + 256 ^ 30 * b2n b31))). lia.
  - cbn. rewrite !app_length. reflexivity.
Qed.
