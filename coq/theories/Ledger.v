(* Ledger.v — C02 SPECIFICATION (no model, no proofs).
   Conway-era transaction CONTENT and the reference encoder `ref_*`, transcribed rule by rule from the
   ledger's CDDL (cardano-ledger eras/conway/impl/cddl-files/conway.cddl; the rule is quoted next to each
   clause).  Nothing here looks at pycardano: no class tables, no field names.

   Where the CDDL leaves a choice, the content carries the choice as data (`w_tagged`: sets as
   #6.258([..]) or as bare arrays; `o_map`: legacy array or post-Alonzo map output; `rd_map`:
   redeemers as list or as map), so that "content expressible in the reference model" includes the wire
   options.  Map keys that the CDDL does not order are emitted in RFC 7049 canonical order
   (length first, then bytewise) — `ksort`, proven a function of the key set in ValueCanon (C04).
   Integers are `CU`/`CN` heads: shortest form is built into `Cbor.head`; every array and map below is
   definite (`CA`, `CM`); the only indefinite items are inside Plutus data (`Plutus.plutus_ref`, C18). *)
From Coq Require Import NArith ZArith String List Bool.
From PyC Require Import Base Cbor Value.
From PyC Require Plutus.
Import ListNotations.
Open Scope N_scope.

(* ---------------------------------------------------------------- helpers of the transcription *)
Definition nil : cbor := CS 22.                                  (* nil = null *)
Definition rbool (b : bool) : cbor := CS (if b then 21 else 20). (* bool *)
Definition opt {A} (f : A -> cbor) (o : option A) : cbor := match o with Some a => f a | None => nil end.  (* x / nil *)
(* #6.30([numerator, denominator]) — unit_interval / nonnegative_interval *)
Definition rational (q : N * N) : cbor := CTag 30 (CA [CU (fst q); CU (snd q)]).
(* set<a> = #6.258([* a]) / [* a]     nonempty_set<a> = #6.258([+ a]) / [+ a] *)
Definition rset (tagged : bool) (xs : list cbor) : cbor := if tagged then CTag 258 (CA xs) else CA xs.
(* { ? k : v } entries of a CDDL struct-map: present fields only, in the order of the rule *)
Definition entries (l : list (N * option cbor)) : list (cbor * cbor) :=
  flat_map (fun kv => match snd kv with Some v => [(CU (fst kv), v)] | None => [] end) l.
Definition int (z : Z) : cbor := if (0 <=? z)%Z then CU (Z.to_N z) else CN (Z.to_N (-1 - z)).   (* int, 64-bit range *)

(* ---------------------------------------------------------------- credentials, anchors, dreps *)
(* credential = [0, addr_keyhash // 1, script_hash] *)
Inductive cred := CKey (h : bytes) | CScript (h : bytes).
Definition ref_cred (c : cred) : cbor :=
  match c with CKey h => CA [CU 0; CB h] | CScript h => CA [CU 1; CB h] end.
(* drep = [0, addr_keyhash // 1, script_hash // 2 // 3] *)
Inductive drep := DKey (h : bytes) | DScript (h : bytes) | DAbstain | DNoConfidence.
Definition ref_drep (d : drep) : cbor :=
  match d with
  | DKey h => CA [CU 0; CB h] | DScript h => CA [CU 1; CB h]
  | DAbstain => CA [CU 2] | DNoConfidence => CA [CU 3]
  end.
(* anchor = [anchor_url : url, anchor_data_hash : hash32] *)
Record anchor := mkAnchor { an_url : bytes; an_hash : bytes }.
Definition ref_anchor (a : anchor) : cbor := CA [CT (an_url a); CB (an_hash a)].

(* ---------------------------------------------------------------- pool parameters *)
(* relay = [single_host_addr // single_host_name // multi_host_name]
   single_host_addr = (0, port / nil, ipv4 / nil, ipv6 / nil)
   single_host_name = (1, port / nil, dns_name)       multi_host_name = (2, dns_name) *)
Inductive relay :=
| RAddr (port : option N) (ipv4 ipv6 : option bytes)
| RName (port : option N) (dns : bytes)
| RMulti (dns : bytes).
Definition ref_relay (r : relay) : cbor :=
  match r with
  | RAddr p v4 v6 => CA [CU 0; opt CU p; opt CB v4; opt CB v6]
  | RName p d => CA [CU 1; opt CU p; CT d]
  | RMulti d => CA [CU 2; CT d]
  end.
(* pool_params = (operator : pool_keyhash, vrf_keyhash, pledge : coin, cost : coin, margin : unit_interval,
                  reward_account, pool_owners : set<addr_keyhash>, relays : [* relay], pool_metadata / nil)
   pool_metadata = [url, pool_metadata_hash] *)
Record pool := mkPool {
  p_operator : bytes; p_vrf : bytes; p_pledge : N; p_cost : N; p_margin : N * N; p_reward : bytes;
  p_owners : list bytes; p_relays : list relay; p_meta : option (bytes * bytes) }.
Definition ref_pool_params (tagged : bool) (p : pool) : list cbor :=
  [CB (p_operator p); CB (p_vrf p); CU (p_pledge p); CU (p_cost p); rational (p_margin p); CB (p_reward p);
   rset tagged (map CB (p_owners p)); CA (map ref_relay (p_relays p));
   opt (fun m => CA [CT (fst m); CB (snd m)]) (p_meta p)].

(* ---------------------------------------------------------------- certificates *)
Inductive cert :=
| CertReg (c : cred)                                     (* stake_registration = (0, stake_credential) *)
| CertDereg (c : cred)                                   (* stake_deregistration = (1, stake_credential) *)
| CertDeleg (c : cred) (pool : bytes)                    (* stake_delegation = (2, stake_credential, pool_keyhash) *)
| CertPoolReg (p : pool)                                 (* pool_registration = (3, pool_params) *)
| CertPoolRetire (pool : bytes) (epoch : N)              (* pool_retirement = (4, pool_keyhash, epoch_no) *)
| CertRegC (c : cred) (coin : N)                         (* reg_cert = (7, stake_credential, coin) *)
| CertDeregC (c : cred) (coin : N)                       (* unreg_cert = (8, stake_credential, coin) *)
| CertVoteDeleg (c : cred) (d : drep)                    (* vote_deleg_cert = (9, stake_credential, drep) *)
| CertStakeVoteDeleg (c : cred) (pool : bytes) (d : drep)      (* (10, stake_credential, pool_keyhash, drep) *)
| CertStakeRegDeleg (c : cred) (pool : bytes) (coin : N)       (* (11, stake_credential, pool_keyhash, coin) *)
| CertVoteRegDeleg (c : cred) (d : drep) (coin : N)            (* (12, stake_credential, drep, coin) *)
| CertStakeVoteRegDeleg (c : cred) (pool : bytes) (d : drep) (coin : N)  (* (13, stake_credential, pool_keyhash, drep, coin) *)
| CertAuthHot (cold hot : cred)                          (* auth_committee_hot_cert = (14, cold, hot) *)
| CertResignCold (cold : cred) (a : option anchor)       (* resign_committee_cold_cert = (15, cold, anchor / nil) *)
| CertRegDRep (c : cred) (coin : N) (a : option anchor)  (* reg_drep_cert = (16, drep_credential, coin, anchor / nil) *)
| CertUnregDRep (c : cred) (coin : N)                    (* unreg_drep_cert = (17, drep_credential, coin) *)
| CertUpdateDRep (c : cred) (a : option anchor).         (* update_drep_cert = (18, drep_credential, anchor / nil) *)
Definition ref_cert (tagged : bool) (c : cert) : cbor :=
  match c with
  | CertReg c => CA [CU 0; ref_cred c]
  | CertDereg c => CA [CU 1; ref_cred c]
  | CertDeleg c p => CA [CU 2; ref_cred c; CB p]
  | CertPoolReg p => CA (CU 3 :: ref_pool_params tagged p)
  | CertPoolRetire p e => CA [CU 4; CB p; CU e]
  | CertRegC c n => CA [CU 7; ref_cred c; CU n]
  | CertDeregC c n => CA [CU 8; ref_cred c; CU n]
  | CertVoteDeleg c d => CA [CU 9; ref_cred c; ref_drep d]
  | CertStakeVoteDeleg c p d => CA [CU 10; ref_cred c; CB p; ref_drep d]
  | CertStakeRegDeleg c p n => CA [CU 11; ref_cred c; CB p; CU n]
  | CertVoteRegDeleg c d n => CA [CU 12; ref_cred c; ref_drep d; CU n]
  | CertStakeVoteRegDeleg c p d n => CA [CU 13; ref_cred c; CB p; ref_drep d; CU n]
  | CertAuthHot a b => CA [CU 14; ref_cred a; ref_cred b]
  | CertResignCold a an => CA [CU 15; ref_cred a; opt ref_anchor an]
  | CertRegDRep c n an => CA [CU 16; ref_cred c; CU n; opt ref_anchor an]
  | CertUnregDRep c n => CA [CU 17; ref_cred c; CU n]
  | CertUpdateDRep c an => CA [CU 18; ref_cred c; opt ref_anchor an]
  end.

(* ---------------------------------------------------------------- scripts and data *)
(* native_script = [0, addr_keyhash // 1, [* native_script] // 2, [* native_script] // 3, n, [* native_script]
                    // 4, slot_no (invalid_before) // 5, slot_no (invalid_hereafter)] *)
Inductive nscript :=
| NSig (h : bytes) | NAll (l : list nscript) | NAny (l : list nscript) | NOfK (n : N) (l : list nscript)
| NInvalidBefore (slot : N) | NInvalidHereafter (slot : N).
Fixpoint ref_nscript (s : nscript) : cbor :=
  match s with
  | NSig h => CA [CU 0; CB h]
  | NAll l => CA [CU 1; CA (map ref_nscript l)]
  | NAny l => CA [CU 2; CA (map ref_nscript l)]
  | NOfK n l => CA [CU 3; CU n; CA (map ref_nscript l)]
  | NInvalidBefore s => CA [CU 4; CU s]
  | NInvalidHereafter s => CA [CU 5; CU s]
  end.
Fixpoint ns_depth (s : nscript) : nat :=
  match s with
  | NAll l | NAny l | NOfK _ l => Datatypes.S (fold_right (fun x m => Nat.max (ns_depth x) m) O l)
  | _ => O
  end.
(* script = [0, native_script // 1, plutus_v1_script // 2, plutus_v2_script // 3, plutus_v3_script] *)
Inductive script := SNative (s : nscript) | SPlutus (version : N) (b : bytes).     (* version 1, 2, 3 *)
Definition ref_script (s : script) : cbor :=
  match s with SNative n => CA [CU 0; ref_nscript n] | SPlutus v b => CA [CU v; CB b] end.
(* datum_option = [0, hash32 // 1, data]      data = #6.24(bytes .cbor plutus_data) *)
Inductive datum_option := DHash (h : bytes) | DInline (d : Plutus.data).
Definition ref_datum_option (d : datum_option) : cbor :=
  match d with
  | DHash h => CA [CU 0; CB h]
  | DInline d => CA [CU 1; CTag 24 (CB (enc (Plutus.plutus_ref d)))]
  end.
(* script_ref = #6.24(bytes .cbor script) *)
Definition ref_script_ref (s : script) : cbor := CTag 24 (CB (enc (ref_script s))).

(* ---------------------------------------------------------------- values and outputs *)
(* value = coin / [coin, multiasset<positive_coin>]      multiasset<a> = {+ policy_id => {+ asset_name => a}}
   mint  = multiasset<nonZeroInt64> *)
Definition bundle := list (bytes * list (bytes * Z)).
Definition ref_multiasset (m : bundle) : cbor :=
  CM (ksort (map (fun pa => (CB (fst pa), CM (ksort (map (fun nq => (CB (fst nq), int (snd nq))) (snd pa))))) m)).
Definition ref_value (coin : N) (m : bundle) : cbor :=
  match m with [] => CU coin | _ => CA [CU coin; ref_multiasset m] end.
(* transaction_output = [address, amount : value, ? datum_hash : hash32]
                      / {0 : address, 1 : value, ? 2 : datum_option, ? 3 : script_ref} *)
Record output := mkOutput {
  o_addr : bytes; o_coin : N; o_assets : bundle; o_datum : option datum_option; o_script : option script;
  o_map : bool }.
Definition ref_output (o : output) : cbor :=
  if o_map o
  then CM (entries [(0, Some (CB (o_addr o))); (1, Some (ref_value (o_coin o) (o_assets o)));
                    (2, option_map ref_datum_option (o_datum o)); (3, option_map ref_script_ref (o_script o))])
  else CA ([CB (o_addr o); ref_value (o_coin o) (o_assets o)]
           ++ match o_datum o with Some (DHash h) => [CB h] | _ => [] end).
(* the legacy form can carry a datum hash only *)
Definition output_wf (o : output) : bool :=
  o_map o || (match o_datum o with Some (DInline _) => false | _ => true end
              && match o_script o with None => true | Some _ => false end).
(* transaction_input = [transaction_id : hash32, index : uint .size 2] *)
Definition input := (bytes * N)%type.
Definition ref_input (i : input) : cbor := CA [CB (fst i); CU (snd i)].

(* ---------------------------------------------------------------- governance *)
(* gov_action_id = [transaction_id, gov_action_index : uint .size 2] *)
Definition gaid := (bytes * N)%type.
Definition ref_gaid (g : gaid) : cbor := CA [CB (fst g); CU (snd g)].
(* voter = [0, addr_keyhash // 1, script_hash // 2, addr_keyhash // 3, script_hash // 4, addr_keyhash]
   (constitutional committee hot key / script, DRep key / script, stake pool operator) *)
Inductive voter := VCommitteeKey (h : bytes) | VCommitteeScript (h : bytes) | VDRepKey (h : bytes)
                 | VDRepScript (h : bytes) | VPool (h : bytes).
Definition ref_voter (v : voter) : cbor :=
  match v with
  | VCommitteeKey h => CA [CU 0; CB h] | VCommitteeScript h => CA [CU 1; CB h]
  | VDRepKey h => CA [CU 2; CB h] | VDRepScript h => CA [CU 3; CB h] | VPool h => CA [CU 4; CB h]
  end.
(* voting_procedure = [vote, anchor / nil]     vote = 0 .. 2 (no, yes, abstain) *)
Definition ref_voting_procedure (vp : N * option anchor) : cbor := CA [CU (fst vp); opt ref_anchor (snd vp)].
(* voting_procedures = {+ voter => {+ gov_action_id => voting_procedure}} *)
Definition votes := list (voter * list (gaid * (N * option anchor))).
Definition ref_voting_procedures (v : votes) : cbor :=
  CM (ksort (map (fun e => (ref_voter (fst e),
                            CM (ksort (map (fun gv => (ref_gaid (fst gv), ref_voting_procedure (snd gv))) (snd e))))) v)).

(* protocol_param_update = { ? 0 : coin, ? 1 : coin, ? 2 : uint .size 4, ... } — one slot per key of the rule, in
   the order of the rule; a slot holds a value of the kind the rule prescribes for its key *)
Inductive ppval :=
| PInt (n : N)                              (* coin / uint / epoch_interval *)
| PRat (q : N * N)                          (* unit_interval / nonnegative_interval *)
| PPrices (mem step : N * N)                (* ex_unit_prices = [mem_price, step_price] *)
| PUnits (mem steps : N)                    (* ex_units = [mem, steps] *)
| PThresholds (l : list (N * N)).           (* pool_voting_thresholds (5) / drep_voting_thresholds (10) *)
Definition ref_ppval (v : ppval) : cbor :=
  match v with
  | PInt n => CU n | PRat q => rational q
  | PPrices m s => CA [rational m; rational s]
  | PUnits m s => CA [CU m; CU s]
  | PThresholds l => CA (map rational l)
  end.
Definition ppu_keys : list N :=
  [0; 1; 2; 3; 4; 5; 6; 7; 8; 9; 10; 11; 16; 17; 18; 19; 20; 21; 22; 23; 24; 25; 26; 27; 28; 29; 30; 31; 32; 33].
(* kind of the value under each key: 0 integer, 1 rational, 2 prices, 3 units, 4 five thresholds, 5 ten thresholds,
   6 cost models (not part of the reference model: the slot must be empty) *)
Definition ppu_kind (k : N) : N :=
  if (k =? 9) || (k =? 10) || (k =? 11) || (k =? 33) then 1
  else if k =? 18 then 6 else if k =? 19 then 2 else if (k =? 20) || (k =? 21) then 3
  else if k =? 25 then 4 else if k =? 26 then 5 else 0.
Definition ppval_kind_ok (k : N) (v : ppval) : bool :=
  match v with
  | PInt _ => ppu_kind k =? 0 | PRat _ => ppu_kind k =? 1 | PPrices _ _ => ppu_kind k =? 2 | PUnits _ _ => ppu_kind k =? 3
  | PThresholds l => ((ppu_kind k =? 4) && (length l =? 5)%nat) || ((ppu_kind k =? 5) && (length l =? 10)%nat)
  end.
Definition ppu := list (option ppval).      (* aligned with ppu_keys *)
Fixpoint ppu_wf_at (ks : list N) (u : ppu) : bool :=
  match ks, u with
  | [], [] => true
  | k :: kr, o :: ur => match o with Some v => ppval_kind_ok k v | None => true end && ppu_wf_at kr ur
  | _, _ => false
  end.
Definition ppu_wf (u : ppu) : bool := ppu_wf_at ppu_keys u.
Definition ref_ppu (u : ppu) : cbor := CM (entries (combine ppu_keys (map (option_map ref_ppval) u))).

(* gov_action =
     [parameter_change_action // hard_fork_initiation_action // treasury_withdrawals_action // no_confidence
      // update_committee // new_constitution // info_action]
   parameter_change_action = (0, gov_action_id / nil, protocol_param_update, policy_hash / nil)
   hard_fork_initiation_action = (1, gov_action_id / nil, protocol_version)     protocol_version = [major, minor]
   treasury_withdrawals_action = (2, {* reward_account => coin}, policy_hash / nil)
   no_confidence = (3, gov_action_id / nil)
   update_committee = (4, gov_action_id / nil, set<committee_cold_credential>, {* committee_cold_credential => epoch_no}, unit_interval)
   new_constitution = (5, gov_action_id / nil, constitution)      constitution = [anchor, script_hash / nil]
   info_action = 6 *)
Inductive gov_action :=
| GParamChange (prev : option gaid) (u : ppu) (policy : option bytes)
| GHardFork (prev : option gaid) (major minor : N)
| GTreasury (wd : list (bytes * N)) (policy : option bytes)
| GNoConfidence (prev : option gaid)
| GUpdateCommittee (prev : option gaid) (remove : list cred) (add : list (cred * N)) (quorum : N * N)
| GNewConstitution (prev : option gaid) (a : anchor) (script : option bytes)
| GInfo.
Definition ref_gov_action (tagged : bool) (g : gov_action) : cbor :=
  match g with
  | GParamChange p u h => CA [CU 0; opt ref_gaid p; ref_ppu u; opt CB h]
  | GHardFork p ma mi => CA [CU 1; opt ref_gaid p; CA [CU ma; CU mi]]
  | GTreasury wd h => CA [CU 2; CM (ksort (map (fun e => (CB (fst e), CU (snd e))) wd)); opt CB h]
  | GNoConfidence p => CA [CU 3; opt ref_gaid p]
  | GUpdateCommittee p rm add q =>
      CA [CU 4; opt ref_gaid p; rset tagged (map ref_cred rm);
          CM (ksort (map (fun e => (ref_cred (fst e), CU (snd e))) add)); rational q]
  | GNewConstitution p a s => CA [CU 5; opt ref_gaid p; CA [ref_anchor a; opt CB s]]
  | GInfo => CA [CU 6]
  end.
(* proposal_procedure = [deposit : coin, reward_account, gov_action, anchor] *)
Record proposal := mkProposal { pr_deposit : N; pr_reward : bytes; pr_action : gov_action; pr_anchor : anchor }.
Definition ref_proposal (tagged : bool) (p : proposal) : cbor :=
  CA [CU (pr_deposit p); CB (pr_reward p); ref_gov_action tagged (pr_action p); ref_anchor (pr_anchor p)].

(* ---------------------------------------------------------------- transaction body *)
(* transaction_body =
  { 0 : set<transaction_input>, 1 : [* transaction_output], 2 : coin, ? 3 : slot_no, ? 4 : certificates,
    ? 5 : withdrawals, ? 7 : auxiliary_data_hash, ? 8 : slot_no, ? 9 : mint, ? 11 : script_data_hash,
    ? 13 : nonempty_set<transaction_input>, ? 14 : required_signers, ? 15 : network_id,
    ? 16 : transaction_output, ? 17 : coin, ? 18 : nonempty_set<transaction_input>, ? 19 : voting_procedures,
    ? 20 : proposal_procedures, ? 21 : coin, ? 22 : positive_coin }
  certificates = nonempty_oset<certificate> (emitted as a bare array)      withdrawals = {+ reward_account => coin}
  required_signers = nonempty_set<addr_keyhash>      network_id = 0 / 1
  proposal_procedures = nonempty_oset<proposal_procedure> *)
Record body := mkBody {
  b_inputs : list input; b_outputs : list output; b_fee : N; b_ttl : option N;
  b_certs : option (list cert); b_withdrawals : option (list (bytes * N));
  b_aux_hash : option bytes; b_validity_start : option N; b_mint : option bundle;
  b_script_data_hash : option bytes; b_collateral : option (list input); b_required_signers : option (list bytes);
  b_network_id : option N; b_collateral_return : option output; b_total_collateral : option N;
  b_reference_inputs : option (list input); b_votes : option votes; b_proposals : option (list proposal);
  b_treasury : option N; b_donation : option N }.
Definition ref_body (tagged : bool) (b : body) : cbor :=
  CM (entries [
    (0, Some (rset tagged (map ref_input (b_inputs b))));
    (1, Some (CA (map ref_output (b_outputs b))));
    (2, Some (CU (b_fee b)));
    (3, option_map CU (b_ttl b));
    (4, option_map (fun l => CA (map (ref_cert tagged) l)) (b_certs b));
    (5, option_map (fun l => CM (ksort (map (fun e => (CB (fst e), CU (snd e))) l))) (b_withdrawals b));
    (7, option_map CB (b_aux_hash b));
    (8, option_map CU (b_validity_start b));
    (9, option_map ref_multiasset (b_mint b));
    (11, option_map CB (b_script_data_hash b));
    (13, option_map (fun l => rset tagged (map ref_input l)) (b_collateral b));
    (14, option_map (fun l => rset tagged (map CB l)) (b_required_signers b));
    (15, option_map CU (b_network_id b));
    (16, option_map ref_output (b_collateral_return b));
    (17, option_map CU (b_total_collateral b));
    (18, option_map (fun l => rset tagged (map ref_input l)) (b_reference_inputs b));
    (19, option_map ref_voting_procedures (b_votes b));
    (20, option_map (fun l => rset tagged (map (ref_proposal tagged) l)) (b_proposals b));
    (21, option_map CU (b_treasury b));
    (22, option_map CU (b_donation b))]).

(* ---------------------------------------------------------------- witness set *)
(* vkeywitness = [vkey, signature]
   bootstrap_witness = [public_key : vkey, signature, chain_code : bytes .size 32, attributes : bytes]
   redeemers = [+ [tag : redeemer_tag, index : uint .size 4, data : plutus_data, ex_units : ex_units]]
             / {+ [tag : redeemer_tag, index : uint .size 4] => [data : plutus_data, ex_units : ex_units]}
   redeemer_tag = 0 spend / 1 mint / 2 cert / 3 reward / 4 voting / 5 proposing      ex_units = [mem, steps] *)
Record redeemer := mkRedeemer { r_tag : N; r_index : N; r_data : Plutus.data; r_mem : N; r_steps : N }.
Definition ref_redeemers (as_map : bool) (l : list redeemer) : cbor :=
  if as_map
  then CM (ksort (map (fun r => (CA [CU (r_tag r); CU (r_index r)],
                                 CA [Plutus.plutus_ref (r_data r); CA [CU (r_mem r); CU (r_steps r)]])) l))
  else CA (map (fun r => CA [CU (r_tag r); CU (r_index r); Plutus.plutus_ref (r_data r);
                            CA [CU (r_mem r); CU (r_steps r)]]) l).
(* transaction_witness_set =
  { ? 0 : nonempty_set<vkeywitness>, ? 1 : nonempty_set<native_script>, ? 2 : nonempty_set<bootstrap_witness>,
    ? 3 : nonempty_set<plutus_v1_script>, ? 4 : nonempty_set<plutus_data>, ? 5 : redeemers,
    ? 6 : nonempty_set<plutus_v2_script>, ? 7 : nonempty_set<plutus_v3_script> }
  bootstrap witnesses and Plutus data are emitted as bare arrays *)
Record witness_set := mkWits {
  w_vkeys : option (list (bytes * bytes)); w_native : option (list nscript);
  w_bootstrap : option (list (bytes * bytes * bytes * bytes));
  w_v1 : option (list bytes); w_data : option (list Plutus.data);
  w_redeemers : option (bool * list redeemer);           (* as_map, redeemers *)
  w_v2 : option (list bytes); w_v3 : option (list bytes) }.
Definition ref_witness_set (tagged : bool) (w : witness_set) : cbor :=
  CM (entries [
    (0, option_map (fun l => rset tagged (map (fun vs => CA [CB (fst vs); CB (snd vs)]) l)) (w_vkeys w));
    (1, option_map (fun l => rset tagged (map ref_nscript l)) (w_native w));
    (2, option_map (fun l => CA (map (fun bw => match bw with (k, s, c, a) => CA [CB k; CB s; CB c; CB a] end) l)) (w_bootstrap w));
    (3, option_map (fun l => rset tagged (map CB l)) (w_v1 w));
    (4, option_map (fun l => CA (map Plutus.plutus_ref l)) (w_data w));
    (5, option_map (fun r => ref_redeemers (fst r) (snd r)) (w_redeemers w));
    (6, option_map (fun l => rset tagged (map CB l)) (w_v2 w));
    (7, option_map (fun l => rset tagged (map CB l)) (w_v3 w))]).

(* ---------------------------------------------------------------- auxiliary data *)
(* transaction_metadatum = {* transaction_metadatum => transaction_metadatum} / [* transaction_metadatum]
                         / int / bytes .size (0 .. 64) / text .size (0 .. 64)
   metadata = {* transaction_metadatum_label => transaction_metadatum} *)
Inductive metadatum :=
| MInt (z : Z) | MBytes (b : bytes) | MText (b : bytes) | MList (l : list metadatum)
| MMap (kvs : list (metadatum * metadatum)).
Fixpoint ref_metadatum (m : metadatum) : cbor :=
  match m with
  | MInt z => int z | MBytes b => CB b | MText b => CT b
  | MList l => CA (map ref_metadatum l)
  | MMap kvs => CM (map (fun kv => (ref_metadatum (fst kv), ref_metadatum (snd kv))) kvs)
  end.
Definition metadata := list (N * metadatum).
Definition ref_metadata (m : metadata) : cbor := CM (ksort (map (fun e => (CU (fst e), ref_metadatum (snd e))) m)).
(* auxiliary_data = metadata
                  / [transaction_metadata : metadata, auxiliary_scripts : [* native_script]]
                  / #6.259({ ? 0 : metadata, ? 1 : [* native_script], ? 2 : [* plutus_v1_script],
                             ? 3 : [* plutus_v2_script], ? 4 : [* plutus_v3_script] }) *)
Inductive aux_data :=
| AuxShelley (m : metadata)
| AuxShelleyMA (m : metadata) (scripts : list nscript)
| AuxAlonzo (m : option metadata) (native : option (list nscript)) (v1 v2 v3 : option (list bytes)).
Definition ref_aux (a : aux_data) : cbor :=
  match a with
  | AuxShelley m => ref_metadata m
  | AuxShelleyMA m s => CA [ref_metadata m; CA (map ref_nscript s)]
  | AuxAlonzo m n v1 v2 v3 =>
      CTag 259 (CM (entries [(0, option_map ref_metadata m); (1, option_map (fun l => CA (map ref_nscript l)) n);
                             (2, option_map (fun l => CA (map CB l)) v1); (3, option_map (fun l => CA (map CB l)) v2);
                             (4, option_map (fun l => CA (map CB l)) v3)]))
  end.

(* ---------------------------------------------------------------- transaction *)
(* transaction = [transaction_body, transaction_witness_set, bool, auxiliary_data / nil] *)
Record tx := mkTx { t_tagged : bool; t_body : body; t_wits : witness_set; t_valid : bool; t_aux : option aux_data }.
Definition ref_tx (t : tx) : cbor :=
  CA [ref_body (t_tagged t) (t_body t); ref_witness_set (t_tagged t) (t_wits t); rbool (t_valid t); opt ref_aux (t_aux t)].
Definition ref_tx_bytes (t : tx) : bytes := enc (ref_tx t).
