(* CollateralHistory.v — C13 over a HISTORY of builds on one builder.

   The builder keeps two fields, _collateral_return and _total_collateral, which _build_tx_body copies into the body.
   _set_collateral_return, as repaired (known_findings.json: C13-stale-return-of-earlier-build), clears both first and sets
   them only in its last branch:   fields_after.   As written before, it only ever SET them:   fields_kept.
   With fields_after the body of the k-th build depends on the k-th call alone, so the single-call theorem
   (CollateralProofs.set_collateral_return_ok_concrete) is the theorem about every build of every history.  With fields_kept
   it is false: fields_kept_refuted is the history that was found on the implementation. *)
From Coq Require Import NArith ZArith String List Bool Lia.
From PyC Require Import Base Cbor Dict Value ValueProofs Collateral CollateralProofs.
Import ListNotations.
Open Scope Z_scope.

Definition fields := (option (value * bytes) * option Z)%type.

Definition fields_after (addr : bytes) (o : outcome) : fields := (ret_of addr o, total_of o).
Definition fields_kept (pre : fields) (addr : bytes) (o : outcome) : fields :=
  match o with OSet _ _ => fields_after addr o | _ => pre end.

(* one build() as far as collateral goes: the lists the method sees at that moment (explicit = builder.collaterals, which an
   earlier build may have filled), the parameters in force, the return address *)
Record ccall := mkCC {
  cc_P : cparams; cc_cpb : Z; cc_addr : bytes;
  cc_explicit : list cand; cc_inputs : list cand; cc_pot : list cand; cc_at : list cand }.

Definition cc_all (c : ccall) : list cand := cc_explicit c ++ cc_inputs c ++ cc_pot c ++ cc_at c.
Definition cc_run (c : ccall) : list cand * outcome :=
  set_collateral_return (min_lovelace_ret (cc_cpb c) (cc_addr c)) (cc_P c) true true
    (cc_explicit c) (cc_inputs c) (cc_pot c) (cc_at c).
Definition cc_ok (c : ccall) : Prop :=
  wfc (cc_all c) /\ nonneg (cc_all c) /\ Forall (fun x => (c_type x <= 8)%N) (cc_all c)
  /\ 0 < collateral_amount (cc_P c) /\ 0 <= p_percent (cc_P c) /\ 0 <= cc_cpb c.

(* the builder fields after a history (the repaired method) *)
Fixpoint fields_of_history (pre : fields) (h : list ccall) : fields :=
  match h with
  | [] => pre
  | c :: r => fields_of_history (fields_after (cc_addr c) (snd (cc_run c))) r
  end.

Lemma fields_last pre h c : fields_of_history pre (h ++ [c]) = fields_after (cc_addr c) (snd (cc_run c)).
Proof. revert pre. induction h as [|a h IH]; intros pre; cbn [app fields_of_history]; [reflexivity | apply IH]. Qed.

(* every build of every history: whatever the earlier builds (and refused attempts) left behind, the collateral inputs, the
   return and the total that go into the body of a build that completes satisfy the ledger rule for every admissible fee *)
Theorem history_collateral_ok pre h c fee :
  cc_ok c -> completed (snd (cc_run c)) ->
  fee <= p_max_fee (cc_P c) + p_fee_buffer (cc_P c) ->
  let f := fields_of_history pre (h ++ [c]) in
  collateral_ok (mkLP (p_percent (cc_P c)) (p_max_inputs (cc_P c)) (cc_cpb c)) fee (fst (cc_run c)) (fst f) (snd f) = true.
Proof.
  intros [Wf [Nn [Ty [Ap [Pp Cb]]]]] Cp Hf. cbn zeta. rewrite fields_last. cbn [fields_after fst snd].
  eapply set_collateral_return_ok_concrete; eauto.
  unfold cc_run. destruct (set_collateral_return _ _ _ _ _ _ _ _); reflexivity.
Qed.

(* the method as it was written: the second build of this history ships the return of the first *)
Module Stale.
  Definition P := mkCP 2174277 0 150 3 1000000.
  Definition addr := hx "60"%string ++ repeat Byte.x11 28.
  Definition tok : masset := [(repeat Byte.x5a 28, [(hx "746f6b"%string, 7)])].
  Definition x := mkCand (repeat Byte.x02 32) 0 6 (mkValue 10000000 tok) 120.     (* first collateral: 10 ADA + 7 tokens *)
  Definition y := mkCand (repeat Byte.x03 32) 0 6 (mkValue 4000000 []) 70.        (* then: 4 ADA, no return needed *)
  Definition first := mkCC P 4310 addr [x] [] [] [].
  Definition second := mkCC P 4310 addr [y] [] [] [].
  Definition after_first := fields_kept (None, None) addr (snd (cc_run first)).
  Definition after_second := fields_kept after_first addr (snd (cc_run second)).
End Stale.

Theorem fields_kept_refuted :
  cc_ok Stale.second /\ completed (snd (cc_run Stale.second)) /\ fst (cc_run Stale.second) = [Stale.y]
  /\ (exists r b, fst Stale.after_second = Some (r, b) /\ coin r = 6738584 /\ massets r = Stale.tok)
  /\ snd Stale.after_second = Some 3261416
  /\ collateral_ok (mkLP 150 3 4310) 2174277 [Stale.y] (fst Stale.after_second) (snd Stale.after_second) = false
  /\ collateral_ok (mkLP 150 3 4310) 2174277 [Stale.y]
       (fst (fields_after Stale.addr (snd (cc_run Stale.second)))) (snd (fields_after Stale.addr (snd (cc_run Stale.second)))) = true.
Proof.
  split; [|split; [|split; [|split; [|split; [|split]]]]].
  - unfold cc_ok, cc_all. cbn [Stale.second cc_explicit cc_inputs cc_pot cc_at cc_P cc_cpb app].
    split; [|split; [|split; [|split; [|split]]]].
    + repeat constructor; cbn; intuition discriminate.
    + unfold nonneg. rewrite Forall_forall. intros c [<-|[]] p n. cbn. lia.
    + repeat constructor; cbn; discriminate.
    + vm_compute. reflexivity.
    + vm_compute. discriminate.
    + lia.
  - vm_compute. exact I.
  - vm_compute. reflexivity.
  - eexists. eexists. vm_compute. repeat split.
  - vm_compute. reflexivity.
  - vm_compute. reflexivity.
  - vm_compute. reflexivity.
Qed.
