(* CoinSel.v — executable model of pycardano/coinselection.py
     LargestFirstSelector.select                       (coinselection.py:78-135)
     RandomImproveMultiAsset.select                    (coinselection.py:271-346)
       _get_next_random / _random_select_subset        (coinselection.py:159-185)
       _split_by_asset / _get_single_asset_val         (coinselection.py:187-214)
       _find_diff_by_former / _improve                 (coinselection.py:216-269)
   clause by clause (tree after the fix commits d6548f3, eaa488b, 6b99030, 797f298).

   What is data here and code there:
   * a UTxO is (identity, amount); the identity stands for its TransactionInput (UTxO.__eq__ compares
     input and output; pools hold pairwise different inputs, so `u in list` is identity membership);
   * `fee` is the number `max_tx_fee(context) if include_max_fee else 0`;
   * `minchg : option (value -> Z)` is None when respect_min_utxo is false, otherwise the function
     change |-> min_lovelace_post_alonzo(TransactionOutput(_FAKE_ADDR, change), context);
   * the random choices are an explicit stream `rs : list Z`.  Two modes:
       builtin = false : RandomImproveMultiAsset(random_generator=iter(rs)) — the stream holds the raw
                         indices a caller-supplied generator yields (any Python int; out-of-range ones and
                         exhaustion are the real UTxOSelectionException);
       builtin = true  : RandomImproveMultiAsset() — random.randint(0, len-1); an outcome is modelled as
                         r mod len for an arbitrary integer r (every outcome of randint is produced by some r
                         and nothing else is); running out of stream is the modelling artefact EStreamOut.
   Loops: every loop iteration either pops the work list (largest-first) or consumes one stream element
   (random-improve), so all functions are structurally recursive — no fuel.
   Model only — proofs live in CoinSelProofs.v. *)
From Coq Require Import NArith ZArith Ascii String List Bool Lia.
From PyC Require Import Base Dict Value.
Import ListNotations.
Open Scope Z_scope.

(* ---------- vocabulary ---------- *)
Definition utxo := (nat * value)%type.
Definition uid (u : utxo) : nat := fst u.
Definition uval (u : utxo) : value := snd u.

Inductive cs_err :=
| EInsufficient      (* InsufficientUTxOBalanceException *)
| EMaxInput          (* MaxInputCountExceededException *)
| EDepleted          (* InputUTxODepletedException *)
| ESelection         (* bare UTxOSelectionException: generator depleted / index out of range *)
| EIndexError        (* IndexError   — not a selection error *)
| EKeyError          (* KeyError     — not a selection error *)
| EInvalidData       (* InvalidDataException from TransactionOutput.validate on a negative change *)
| EStreamOut.        (* modelling artefact, builtin mode only: the finite stream of outcomes ran out *)

(* `except UTxOSelectionException` catches exactly these *)
Definition is_sel_err (e : cs_err) : bool :=
  match e with EInsufficient | EMaxInput | EDepleted | ESelection => true | _ => false end.

Inductive res (A : Type) := Ok (a : A) | Err (e : cs_err).
Arguments Ok {A} a.
Arguments Err {A} e.

Definition v_zero : value := mkValue 0 [].                         (* Value() *)
(* selected_amount after `selected_amount += u.output.amount` for every u of l in order *)
Definition vfold (acc : value) (l : list utxo) : value := fold_left (fun a u => v_add a (uval u)) l acc.
Definition vsum (l : list utxo) : value := vfold v_zero l.
(* total_requested = Value(max_fee); for o in outputs: total_requested += o.amount *)
Definition req_total (fee : Z) (outs : list value) : value := fold_left v_add outs (mkValue fee []).

(* `max_input_count and len(selected) > max_input_count` (0 is falsy!) *)
Definition lim_exceeded (lim : option Z) (len : nat) : bool :=
  match lim with Some n => negb (n =? 0) && (n <? Z.of_nat len) | None => false end.
(* `max_input_count is not None and len(selected) >= max_input_count` (in _improve) *)
Definition lim_reached_strict (lim : option Z) (len : nat) : bool :=
  match lim with Some n => n <=? Z.of_nat len | None => false end.
(* `max_input_count and len(selected) >= max_input_count` (guard of the min-change top-up) *)
Definition lim_reached (lim : option Z) (len : nat) : bool :=
  match lim with Some n => negb (n =? 0) && (n <=? Z.of_nat len) | None => false end.
(* `max_input_count - len(selected) if max_input_count else None` *)
Definition sub_limit (lim : option Z) (len : nat) : option Z :=
  match lim with Some n => if n =? 0 then None else Some (n - Z.of_nat len) | None => None end.

(* TransactionOutput.validate: coin < 0 or multi_asset.count(lambda p, n, v: v < 0) > 0 *)
Definition v_has_neg (v : value) : bool :=
  (coin v <? 0) || (0 <? m_count (fun _ _ q => q <? 0) (massets v)).

(* ---------- largest first ---------- *)
(* sorted(utxos, key=lovelace): stable ascending; modelled by stable insertion from the right *)
Fixpoint insert_asc (u : utxo) (l : list utxo) : list utxo :=
  match l with
  | [] => [u]
  | h :: r => if coin (uval u) <=? coin (uval h) then u :: l else h :: insert_asc u r
  end.
Definition sort_asc (l : list utxo) : list utxo := fold_right insert_asc [] l.

(* the while loop; `avail` is the Python list `available` REVERSED (pop() takes the head here) *)
Fixpoint lf_loop (avail : list utxo) (req : value) (lim : option Z) (sel : list utxo) (amt : value)
  : res (list utxo * value * list utxo) :=
  if v_le req amt then Ok (sel, amt, avail)
  else match avail with
       | [] => Err EInsufficient
       | u :: rest =>
           let sel' := sel ++ [u] in
           let amt' := v_add amt (uval u) in
           if lim_exceeded lim (length sel') then Err EMaxInput
           else lf_loop rest req lim sel' amt'
       end.

(* sort + while loop of select for an already summed request: (selected, selected_amount, available reversed) *)
Definition lf_core (utxos : list utxo) (req : value) (lim : option Z) : res (list utxo * value * list utxo) :=
  lf_loop (rev (sort_asc utxos)) req lim [] v_zero.

Definition lf_select (utxos : list utxo) (outs : list value) (lim : option Z) (fee : Z) (minchg : option (value -> Z))
  : res (list utxo * value) :=
  let req := req_total fee outs in
  match lf_core utxos req lim with
  | Err e => Err e
  | Ok (sel, amt, avail) =>
      match minchg with
      | None => Ok (sel, v_sub amt req)
      | Some mc =>
          let change := v_sub amt req in
          if v_has_neg change then Err EInvalidData             (* raised inside min_lovelace_post_alonzo *)
          else
            let m := mc change in
            if coin change <? m then
              if lim_reached lim (length sel) then Err EMaxInput
              else
                (* self.select(available, [Value(m - change.coin)], ctx, limit - len, False, False) *)
                match lf_core (rev avail) (req_total 0 [mkValue (m - coin change) []]) (sub_limit lim (length sel)) with
                | Err e => Err e
                | Ok (add, _, _) => Ok (sel ++ add, v_sub (vfold amt add) req)
                end
            else Ok (sel, v_sub amt req)
      end
  end.

(* ---------- random improve ---------- *)
Definition pop_at {A} (k : nat) (l : list A) : list A := firstn k l ++ skipn (S k) l.

(* _get_next_random on a NON-EMPTY list of length len, for the stream element r: the index drawn *)
Definition draw (builtin : bool) (r : Z) (len : nat) : res nat :=
  if builtin then Ok (Z.to_nat (r mod Z.of_nat len))
  else if (0 <=? r) && (r <? Z.of_nat len) then Ok (Z.to_nat r)
  else Err ESelection.                                            (* `not 0 <= i < len(utxos)` *)
Definition stream_end (builtin : bool) : cs_err := if builtin then EStreamOut else ESelection.

(* _random_select_subset: returns (stream, remaining, selected, selected_amount) *)
Fixpoint rss (bi : bool) (rs : list Z) (amount : value) (remaining sel : list utxo) (amt : value)
  : res (list Z * list utxo * list utxo * value) :=
  if v_le amount amt then Ok (rs, remaining, sel, amt)
  else match remaining with
       | [] => Err EDepleted
       | u0 :: _ =>
           match rs with
           | [] => Err (stream_end bi)
           | r :: rs' =>
               match draw bi r (length remaining) with
               | Err e => Err e
               | Ok k =>
                   let u := nth k remaining u0 in
                   rss bi rs' amount (pop_at k remaining) (sel ++ [u]) (v_add amt (uval u))
               end
           end
       end.

(* _split_by_asset *)
Definition split_by_asset (v : value) : list value :=
  (if coin v =? 0 then [] else [mkValue (coin v) []]) ++
  flat_map (fun pa : bytes * asset =>
              flat_map (fun nq : bytes * Z =>
                          if snd nq =? 0 then [] else [mkValue 0 [(fst pa, [(fst nq, snd nq)])]])
                       (snd pa))
           (massets v).

(* _get_single_asset_val (the last branch is an IndexError in Python; unreachable on split_by_asset items) *)
Definition single_val (v : value) : Z :=
  if coin v =? 0 then
    match massets v with
    | (_, (_, q) :: _) :: _ => q
    | _ => 0
    end
  else coin v.

(* sorted(assets, key=_get_single_asset_val, reverse=True): stable descending *)
Fixpoint insert_desc (x : value) (l : list value) : list value :=
  match l with
  | [] => [x]
  | h :: r => if single_val h <=? single_val x then x :: l else h :: insert_desc x r
  end.
Definition sort_desc (l : list value) : list value := fold_right insert_desc [] l.

(* _find_diff_by_former *)
Definition find_diff (a b : value) : res Z :=
  if coin a =? 0 then
    match massets a with
    | [] => Err EIndexError
    | (p, an) :: _ =>
        match an with
        | [] => Err EIndexError
        | (n, q) :: _ =>
            match dget (massets b) p with
            | None => Err EKeyError
            | Some ab => match dget ab n with
                         | None => Err EKeyError
                         | Some qb => Ok (q - qb)
                         end
            end
        end
    end
  else Ok (coin a - coin b).

(* the acceptance test of _improve, evaluated left to right with short-circuit `and` *)
Definition accept (ideal ub amt amt2 : value) : res bool :=
  match find_diff ideal amt2 with
  | Err e => Err e
  | Ok d2 =>
      match find_diff ideal amt with
      | Err e => Err e
      | Ok d1 =>
          if Z.abs d2 <? Z.abs d1 then
            match find_diff ub amt2 with
            | Err e => Err e
            | Ok d3 => Ok (0 <=? d3)
            end
          else Ok false
      end
  end.

(* _improve.  State (stream, selected, selected_amount); the in-place updates of selected and
   selected_amount survive an exception, so the state is returned next to the optional exception. *)
Definition istate := (list Z * list utxo * value)%type.
Fixpoint improve (bi : bool) (rs : list Z) (sel : list utxo) (amt : value)
         (remaining : list utxo) (ideal ub : value) (lim : option Z) : istate * option cs_err :=
  match remaining with
  | [] => ((rs, sel, amt), None)
  | u0 :: _ =>
      match find_diff ideal amt with
      | Err e => ((rs, sel, amt), Some e)
      | Ok d =>
          if d <=? 0 then ((rs, sel, amt), None)
          else if lim_reached_strict lim (length sel) then ((rs, sel, amt), Some EMaxInput)
          else
            match rs with
            | [] => ((rs, sel, amt), Some (stream_end bi))
            | r :: rs' =>
                match draw bi r (length remaining) with
                | Err e => ((rs', sel, amt), Some e)
                | Ok k =>
                    let u := nth k remaining u0 in
                    let amt2 := v_add amt (uval u) in
                    match accept ideal ub amt amt2 with
                    | Err e => ((rs', sel, amt), Some e)
                    | Ok true => improve bi rs' (sel ++ [u]) amt2 (pop_at k remaining) ideal ub lim
                    | Ok false => improve bi rs' sel amt (pop_at k remaining) ideal ub lim
                    end
                end
            end
      end
  end.

(* Phase 1 (select, "random select" loop): returns (stream, remaining, selected, selected_amount) *)
Fixpoint phase1 (bi : bool) (rs : list Z) (reqs : list value) (remaining sel : list utxo) (amt : value)
         (lim : option Z) : res (list Z * list utxo * list utxo * value) :=
  match reqs with
  | [] => Ok (rs, remaining, sel, amt)
  | r :: reqs' =>
      match rss bi rs r remaining sel amt with
      | Err e => Err e
      | Ok (rs', rem', sel', amt') =>
          if lim_exceeded lim (length sel') then Err EMaxInput
          else phase1 bi rs' reqs' rem' sel' amt' lim
      end
  end.

(* `utxo not in new_selected` *)
Definition not_in (new : list utxo) (u : utxo) : bool := negb (existsb (fun w => Nat.eqb (uid u) (uid w)) new).

(* Phase 2 ("improve" loop) over reversed(request_sorted) *)
Fixpoint phase2 (bi : bool) (rs : list Z) (reqs_rev : list value) (remaining sel : list utxo) (amt : value)
         (lim : option Z) : res (list Z * list utxo * list utxo * value) :=
  match reqs_rev with
  | [] => Ok (rs, remaining, sel, amt)
  | r :: rest =>
      let ideal := v_add r r in
      let ub := v_add ideal r in
      let before := length sel in
      match improve bi rs sel amt remaining ideal ub lim with
      | ((rs', sel', amt'), oe) =>
          let go := phase2 bi rs' rest (filter (not_in (skipn before sel')) remaining) sel' amt' lim in
          match oe with
          | None => go
          | Some e => if is_sel_err e then go else Err e       (* except UTxOSelectionException: pass *)
          end
      end
  end.

(* both phases for an already summed request: (stream, remaining, selected, selected_amount) *)
Definition ri_core (bi : bool) (rs : list Z) (utxos : list utxo) (req : value) (lim : option Z)
  : res (list Z * list utxo * list utxo * value) :=
  let reqs := sort_desc (split_by_asset req) in
  match phase1 bi rs reqs utxos [] v_zero lim with
  | Err e => Err e
  | Ok (rs1, rem1, sel1, amt1) => phase2 bi rs1 (rev reqs) rem1 sel1 amt1 lim
  end.

Definition ri_select (bi : bool) (rs : list Z) (utxos : list utxo) (outs : list value) (lim : option Z) (fee : Z)
           (minchg : option (value -> Z)) : res (list utxo * value) :=
  let req := req_total fee outs in
  match ri_core bi rs utxos req lim with
  | Err e => Err e
  | Ok (rs1, rem, sel, amt) =>
      match minchg with
      | None => Ok (sel, v_sub amt req)
      | Some mc =>
          let change := v_sub amt req in
          if v_has_neg change then Err EInvalidData
          else
            let m := mc change in
            if coin change <? m then
              if lim_reached lim (length sel) then Err EMaxInput
              else
                match ri_core bi rs1 rem (req_total 0 [mkValue (m - coin change) []]) (sub_limit lim (length sel)) with
                | Err e => Err e
                | Ok (_, _, add, _) => Ok (sel ++ add, v_sub (vfold amt add) req)
                end
            else Ok (sel, v_sub amt req)
      end
  end.

(* number of random outcomes that always suffices (CoinSelProofs.ri_total) *)
Definition ri_draw_bound (utxos : list utxo) (req : value) : nat :=
  length utxos * (length (split_by_asset req) + 3).

(* ---------- pools given as plain lists of amounts: UTxO i is (i, pool[i]) ---------- *)
Definition index_pool (pool : list value) : list utxo := combine (seq 0 (length pool)) pool.
Definition ids {B} (r : res (list utxo * B)) : res (list nat * B) :=
  match r with Ok (sel, b) => Ok (map uid sel, b) | Err e => Err e end.
Definition lf_select_idx pool outs lim fee minchg := ids (lf_select (index_pool pool) outs lim fee minchg).
Definition ri_select_idx bi rs pool outs lim fee minchg := ids (ri_select bi rs (index_pool pool) outs lim fee minchg).

(* ---------- specification vocabulary (plain integer sums; used by the statements in props/C14.v) ---------- *)
Definition coin_sum (l : list value) : Z := Zsum (map coin l).
Definition content_sum (l : list value) (p n : bytes) : Z := Zsum (map (fun v => content (massets v) p n) l).
Definition sel_values (pool : list value) (sel : list nat) : list value := map (fun i => nth i pool v_zero) sel.
(* requested (+ fee) is covered by the selected amounts, in ADA and in every asset *)
Definition covers (fee : Z) (outs selected : list value) : Prop :=
  fee + coin_sum outs <= coin_sum selected
  /\ forall p n, content_sum outs p n <= content_sum selected p n.
(* change = selected - requested (- fee), in ADA and in every asset *)
Definition change_is (fee : Z) (outs selected : list value) (chg : value) : Prop :=
  coin chg = coin_sum selected - (fee + coin_sum outs)
  /\ forall p n, content (massets chg) p n = content_sum selected p n - content_sum outs p n.
Definition v_nonneg (v : value) : Prop := 0 <= coin v /\ forall p n, 0 <= content (massets v) p n.
