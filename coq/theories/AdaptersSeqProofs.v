(* AdaptersSeqProofs.v — proofs about the adapter state machine of AdaptersSeq.v: every answer of `utxos(a)` is the
   service's answer for a ledger state that was current at an event of the run less than c_memo_ttl before the
   query (or is current now). *)
From Coq Require Import NArith String List Bool Lia.
From PyC Require Import AdaptersSeq.
Import ListNotations.
Open Scope N_scope.

Section Proofs.
  Variables W A : Type.
  Variable fetch : W -> string -> A.
  Variable cacheable : A -> bool.

  Notation st := (st W A).
  Notation entry := (entry A).
  Notation event := (event W A).
  Notation op := (op W).
  Notation query := (query W A fetch cacheable).
  Notation poll := (poll W A).
  Notation tip := (tip W A).
  Notation step := (step W A fetch cacheable).
  Notation run := (run W A fetch cacheable).
  Notation fresh := (fresh W A fetch).

  (* a point of the run: clock, tip slot, ledger state *)
  Definition point := (N * N * W)%type.
  Definition p_time (p : point) : N := fst (fst p).
  Definition p_slot (p : point) : N := snd (fst p).
  Definition p_w (p : point) : W := snd p.
  Definition pt (s : st) : point := (s_now _ _ s, s_slot _ _ s, s_w _ _ s).
  Definition evpt (e : event) : point := (ev_time e, ev_slot e, ev_w e).

  Record Inv (s : st) (P : list point) : Prop := mkInv {
    inv_bound : forall p, In p P ->
      p_time p <= s_now _ _ s /\ p_slot p <= s_slot _ _ s /\ (p_slot p = s_slot _ _ s -> p_w p = s_w _ _ s);
    inv_same : forall p q, In p P -> In q P -> p_slot p = p_slot q -> p_w p = p_w q;
    inv_memo : forall tm sl, s_memo _ _ s = Some (tm, sl) -> exists p, In p P /\ p_time p = tm /\ p_slot p = sl;
    inv_cache : forall en, In en (s_cache _ _ s) ->
      exists p, In p P /\ e_val _ en = fetch (p_w p) (e_addr _ en) /\ e_slot _ en <= p_slot p /\
                (e_slot _ en = p_slot p \/ forall tm, s_memo _ _ s = Some (tm, e_slot _ en) -> tm <= p_time p) }.

  Lemma inv_init now sl w : Inv (init now sl w) [].
  Proof. constructor; cbn; intros; try contradiction; discriminate. Qed.

  Lemma inv_extend s P : Inv s P -> Inv s (P ++ [pt s]).
  Proof.
    intros [Hb Hs Hm Hc]. constructor.
    - intros p Hin. apply in_app_or in Hin as [Hin|[<-|[]]]; [now apply Hb|]. cbn. repeat split; try lia.
    - intros p q Hp Hq E. apply in_app_or in Hp as [Hp|[<-|[]]]; apply in_app_or in Hq as [Hq|[<-|[]]].
      + now apply Hs.
      + destruct (Hb _ Hp) as (_ & _ & H). apply H. exact E.
      + destruct (Hb _ Hq) as (_ & _ & H). symmetry. apply H. symmetry. exact E.
      + reflexivity.
    - intros tm sl E. destruct (Hm _ _ E) as (p & Hin & H). exists p. split; [apply in_or_app; now left | exact H].
    - intros en Hin. destruct (Hc _ Hin) as (p & Hp & H). exists p. split; [apply in_or_app; now left | exact H].
  Qed.

  (* ---------- the cache only hands out what was stored, and only forgets ---------- *)
  Lemma remove_key_in s a (l : list entry) x : In x (remove_key A s a l) -> In x l.
  Proof. unfold remove_key. intros H. now apply filter_In in H. Qed.

  Lemma cache_get_spec now s a (l : list entry) v l' : cache_get A now s a l = Some (v, l') ->
    (exists en, In en l /\ e_slot _ en = s /\ e_addr _ en = a /\ e_val _ en = v) /\ (forall x, In x l' -> In x l).
  Proof.
    unfold cache_get, find_entry. destruct (find (key_eqb A s a) l) as [e|] eqn:Ef; [|discriminate].
    destruct (live A now e); [|discriminate]. intros E. inversion E; subst. clear E.
    apply find_some in Ef as [Hin Hk]. unfold key_eqb in Hk. apply andb_true_iff in Hk as [K1 K2].
    apply N.eqb_eq in K1. apply String.eqb_eq in K2. split.
    - exists e. auto.
    - intros x Hx. apply in_app_or in Hx as [Hx|[<-|[]]]; [now apply remove_key_in in Hx | assumption].
  Qed.

  Lemma in_skipn {X} n (l : list X) x : In x (skipn n l) -> In x l.
  Proof. intros H. rewrite <- (firstn_skipn n l). apply in_or_app. now right. Qed.

  Lemma cache_set_spec now ttl max s a v (l : list entry) x :
    In x (cache_set A now ttl max s a v l) -> In x l \/ x = mkEntry A s a (now + ttl) v.
  Proof.
    unfold cache_set. intros H. apply in_app_or in H as [H|[<-|[]]]; [left | now right].
    apply in_skipn, remove_key_in, filter_In in H. tauto.
  Qed.

  (* ---------- `last_block_slot` ---------- *)
  Lemma tip_inv c s P sl s1 : Inv s P -> In (pt s) P -> tip c s = (sl, s1) ->
    Inv s1 P /\ pt s1 = pt s /\ s_cache _ _ s1 = s_cache _ _ s /\
    exists pm, In pm P /\ p_slot pm = sl /\ s_memo _ _ s1 = Some (p_time pm, sl) /\
               (pm = pt s \/ s_now _ _ s < p_time pm + c_memo_ttl c).
  Proof.
    intros HI Hcur. unfold tip.
    assert (Refresh : (s_slot _ _ s, with_memo W A s (Some (s_now _ _ s, s_slot _ _ s))) = (sl, s1) ->
      Inv s1 P /\ pt s1 = pt s /\ s_cache _ _ s1 = s_cache _ _ s /\
      exists pm, In pm P /\ p_slot pm = sl /\ s_memo _ _ s1 = Some (p_time pm, sl) /\
                 (pm = pt s \/ s_now _ _ s < p_time pm + c_memo_ttl c)).
    { intros E. injection E as <- <-. destruct HI as [Hb Hs Hm Hc].
      split; [|split; [reflexivity|split; [reflexivity|]]].
      - constructor; cbn.
        + exact Hb.
        + exact Hs.
        + intros tm sl E. inversion E; subst. exists (pt s). split; [exact Hcur|]. split; reflexivity.
        + intros en Hin. destruct (Hc _ Hin) as (p & Hp & Hv & Hle & Hd). exists p.
          split; [exact Hp|]. split; [exact Hv|]. split; [exact Hle|].
          destruct (N.eq_dec (e_slot _ en) (p_slot p)) as [Heq|Hne]; [now left|]. right. intros tm E. inversion E; subst.
          destruct (Hb _ Hp) as (_ & Hsl & _). lia.
      - exists (pt s). split; [exact Hcur|]. split; [reflexivity|]. split; [reflexivity|]. now left. }
    destruct (s_memo _ _ s) as [[tm sl0]|] eqn:Em; [|exact Refresh].
    destruct (N.ltb (s_now _ _ s) (tm + c_memo_ttl c)) eqn:El; [|exact Refresh].
    intros E. injection E as <- <-. clear Refresh. apply N.ltb_lt in El.
    split; [exact HI|]. split; [reflexivity|]. split; [reflexivity|].
    destruct (inv_memo _ _ HI _ _ Em) as (p & Hp & Ht & Hsl). subst tm sl0.
    exists p. split; [exact Hp|]. split; [reflexivity|]. split; [exact Em|]. now right.
  Qed.

  (* ---------- `utxos(address)` ---------- *)
  Lemma query_inv c a s P r s' : Inv s P -> In (pt s) P -> query c a s = (r, s') ->
    Inv s' P /\ pt s' = pt s /\
    exists p, In p P /\ r = fetch (p_w p) a /\ (p = pt s \/ s_now _ _ s < p_time p + c_memo_ttl c).
  Proof.
    intros HI Hcur. unfold AdaptersSeq.query. destruct (c_cached c).
    2:{ intros E. injection E as <- <-. split; [exact HI|]. split; [reflexivity|].
        exists (pt s). split; [exact Hcur|]. split; [reflexivity|]. now left. }
    destruct (tip c s) as [sl s1] eqn:Et.
    destruct (tip_inv _ _ _ _ _ HI Hcur Et) as (HI1 & Hpt & Hcache & pm & Hpm & Hpsl & Hmemo & Hwin).
    assert (Hnow : s_now _ _ s1 = s_now _ _ s) by (unfold pt in Hpt; congruence).
    assert (Hw : s_w _ _ s1 = s_w _ _ s) by (unfold pt in Hpt; congruence).
    assert (Hslot : s_slot _ _ s1 = s_slot _ _ s) by (unfold pt in Hpt; congruence).
    assert (Hcur1 : In (pt s1) P) by (rewrite Hpt; exact Hcur).
    destruct (cache_get A (s_now _ _ s1) sl a (s_cache _ _ s1)) as [[v l']|] eqn:Eg.
    - (* hit *)
      intros E. injection E as <- <-.
      apply cache_get_spec in Eg as ((en & Hen & Ks & Ka & Kv) & Hsub).
      split; [|split].
      + destruct HI1 as [Hb Hs Hm Hc]. constructor; cbn; try assumption.
        intros x Hx. apply Hc. now apply Hsub.
      + exact Hpt.
      + destruct (inv_cache _ _ HI1 _ Hen) as (p & Hp & Hv & Hle & Hd). rewrite Ks, Ka, Kv in *.
        destruct Hd as [Heq|Hlate].
        * (* stored when the tip was the memoised slot: same ledger state as at the memo's point *)
          exists pm. split; [exact Hpm|]. split; [|exact Hwin].
          rewrite Hv. f_equal. apply (inv_same _ _ HI1); try assumption. congruence.
        * specialize (Hlate _ Hmemo). destruct Hwin as [->|Hlt].
          -- (* memo read just now: the entry is from the current slot *)
             exists (pt s). split; [exact Hcur|]. split; [|now left]. rewrite Hv. f_equal.
             destruct (inv_bound _ _ HI1 _ Hp) as (Hb1 & Hb2 & Hb3).
             change (p_w (pt s)) with (s_w _ _ s). rewrite <- Hw. apply Hb3.
             change (p_slot (pt s)) with (s_slot _ _ s) in Hpsl. lia.
          -- exists p. split; [exact Hp|]. split; [exact Hv|]. right. lia.
    - (* miss: ask the service *)
      intros E. injection E as <- <-.
      assert (Hans : exists p, In p P /\ fetch (s_w _ _ s1) a = fetch (p_w p) a /\
                               (p = pt s \/ s_now _ _ s < p_time p + c_memo_ttl c)).
      { exists (pt s). split; [exact Hcur|]. split; [now rewrite Hw | now left]. }
      destruct (cacheable (fetch (s_w _ _ s1) a)); [|split; [exact HI1 | split; [exact Hpt | exact Hans]]].
      split; [|split; [exact Hpt | exact Hans]].
      destruct HI1 as [Hb Hs Hm Hc]. constructor; cbn; try assumption.
      intros x Hx. apply cache_set_spec in Hx as [Hx| ->]; [now apply Hc|]. cbn.
      exists (pt s1). split; [exact Hcur1|]. split; [reflexivity|]. split.
      + destruct (Hb _ Hpm) as (_ & Hle & _). change (p_slot (pt s1)) with (s_slot _ _ s1). lia.
      + right. intros tm E. rewrite Hmemo in E. injection E as <-.
        destruct (Hb _ Hpm) as (Hle & _ & _). change (p_time (pt s1)) with (s_now _ _ s1). lia.
  Qed.

  (* ---------- `_is_chain_tip_updated()` ---------- *)
  Lemma with_fetch_inv s P f : Inv s P -> Inv (with_fetch W A s f) P.
  Proof. intros [Hb Hs Hm Hc]. constructor; cbn; assumption. Qed.

  Lemma poll_inv c s P b s' : Inv s P -> In (pt s) P -> poll c s = (b, s') -> Inv s' P /\ pt s' = pt s.
  Proof.
    intros HI Hcur. unfold AdaptersSeq.poll. destruct (c_poll c).
    - intros E. inversion E; subst. now split.
    - destruct (match s_fetch _ _ s with Some f => negb (N.ltb (s_now _ _ s - f) (c_interval c)) | None => true end).
      2:{ intros E. inversion E; subst. now split. }
      destruct (tip c (with_fetch W A s (Some (s_now _ _ s)))) as [sl s1] eqn:Et.
      apply tip_inv with (P := P) in Et as (HI1 & Hpt & _); [|now apply with_fetch_inv | exact Hcur].
      destruct (N.ltb (s_known _ _ s1) sl); intros E; inversion E; subst; (split; [|exact Hpt]); [|exact HI1].
      destruct HI1 as [Hb Hs Hm Hc]. constructor; cbn; assumption.
    - intros E. inversion E; subst.
      destruct (match s_fetch _ _ s with Some f => negb (N.ltb (s_now _ _ s - f) (c_interval c)) | None => true end);
        [split; [now apply with_fetch_inv | reflexivity] | now split].
  Qed.

  Lemma in_last {X} (l : list X) x : In x (l ++ [x]).
  Proof. apply in_or_app. right. now left. Qed.

  (* ---------- one operation ---------- *)
  Lemma step_inv c o s P ob s' : Inv s P ->
    match o with OBlock sl _ => s_slot _ _ s < sl | _ => True end ->
    step c o s = (ob, s') ->
    Inv s' (P ++ [pt s']) /\
    forall a r, ob = OAnswer a r ->
      exists p, In p (P ++ [pt s']) /\ r = fetch (p_w p) a /\ (p = pt s' \/ s_now _ _ s' < p_time p + c_memo_ttl c).
  Proof.
    intros HI Hinc. destruct o as [dt|sl w|a| |]; cbn [AdaptersSeq.step].
    - (* the clock advances *)
      intros E. inversion E; subst. clear E. split; [|discriminate].
      set (s' := mkSt W A _ _ _ _ _ _ _). apply inv_extend. destruct HI as [Hb Hs Hm Hc]. constructor; cbn; try assumption.
      intros p Hp. destruct (Hb _ Hp) as (H1 & H2 & H3). repeat split; try assumption. lia.
    - (* a block arrives *)
      intros E. inversion E; subst. clear E. split; [|discriminate].
      set (s' := mkSt W A _ _ _ _ _ _ _). apply inv_extend. destruct HI as [Hb Hs Hm Hc]. constructor; cbn; try assumption.
      intros p Hp. destruct (Hb _ Hp) as (H1 & H2 & H3). repeat split; try assumption; lia.
    - destruct (query c a s) as [v s1] eqn:Eq. intros E. inversion E; subst. clear E.
      apply inv_extend in HI.
      destruct (query_inv _ _ _ _ _ _ HI (in_last _ _) Eq) as (HI1 & Hpt & p & Hp & Hr & Hw).
      rewrite Hpt. split; [exact HI1|]. intros a' r E. inversion E; subst. exists p. repeat split; try assumption.
      unfold pt in Hpt. replace (s_now _ _ s') with (s_now _ _ s) by congruence. exact Hw.
    - destruct (tip c s) as [sl s1] eqn:Et. intros E. inversion E; subst. clear E. split; [|discriminate].
      apply inv_extend in HI.
      destruct (tip_inv _ _ _ _ _ HI (in_last _ _) Et) as (HI1 & Hpt & _).
      now rewrite Hpt.
    - destruct (poll c s) as [b s1] eqn:Ep. intros E. inversion E; subst. clear E. split; [|discriminate].
      apply inv_extend in HI.
      destruct (poll_inv _ _ _ _ _ HI (in_last _ _) Ep) as (HI1 & Hpt).
      now rewrite Hpt.
  Qed.

  Lemma run_fresh_gen c : forall ops s evs0, Inv s (map evpt evs0) -> increasing (s_slot _ _ s) ops ->
    forall pre e post a r, run c ops s = pre ++ e :: post -> ev_obs e = OAnswer a r -> fresh c (evs0 ++ pre) e a r.
  Proof.
    induction ops as [|o ops IH]; intros s evs0 HI Hinc pre e post a r Erun Eobs.
    - destruct pre; discriminate.
    - cbn [AdaptersSeq.run] in Erun. destruct (step c o s) as [ob s'] eqn:Es.
      assert (Hstep : match o with OBlock sl _ => s_slot _ _ s < sl | _ => True end).
      { destruct o; cbn in Hinc; tauto. }
      assert (Hinc' : increasing (s_slot _ _ s') ops).
      { destruct o as [dt|sl w|a0| |]; cbn in Hinc, Es.
        - inversion Es; subst; exact Hinc.
        - inversion Es; subst; cbn; tauto.
        - destruct (query c a0 s) as [v s1] eqn:Eq. inversion Es; subst.
          destruct (AdaptersSeq.c_cached c) eqn:Ec.
          + unfold AdaptersSeq.query in Eq. rewrite Ec in Eq.
            destruct (tip c s) as [sl s2] eqn:Et.
            assert (s_slot _ _ s2 = s_slot _ _ s).
            { unfold AdaptersSeq.tip in Et. destruct (s_memo _ _ s) as [[tm sl0]|]; [destruct (N.ltb _ _)|]; inversion Et; subst; reflexivity. }
            destruct (cache_get _ _ _ _ _) as [[v' l']|]; inversion Eq; subst; cbn; [congruence|].
            destruct (cacheable _); cbn; congruence.
          + unfold AdaptersSeq.query in Eq. rewrite Ec in Eq. inversion Eq; subst. exact Hinc.
        - destruct (tip c s) as [sl s2] eqn:Et. inversion Es; subst.
          unfold AdaptersSeq.tip in Et. destruct (s_memo _ _ s) as [[tm sl0]|]; [destruct (N.ltb _ _)|]; inversion Et; subst; exact Hinc.
        - destruct (poll c s) as [b s2] eqn:Ep. inversion Es; subst.
          assert (s_slot _ _ s' = s_slot _ _ s); [|congruence].
          unfold AdaptersSeq.poll in Ep. destruct (c_poll c).
          + inversion Ep; subst; reflexivity.
          + destruct (match s_fetch _ _ s with Some f => _ | None => true end); [|inversion Ep; subst; reflexivity].
            destruct (tip c _) as [sl s3] eqn:Et.
            assert (s_slot _ _ s3 = s_slot _ _ s).
            { unfold AdaptersSeq.tip in Et. cbn in Et. destruct (s_memo _ _ s) as [[tm sl0]|]; [destruct (N.ltb _ _)|]; inversion Et; subst; reflexivity. }
            destruct (N.ltb _ _); inversion Ep; subst; cbn; congruence.
          + inversion Ep; subst. destruct (match s_fetch _ _ s with Some f => _ | None => true end); reflexivity. }
      destruct (step_inv _ _ _ _ _ _ HI Hstep Es) as (HI' & Hans).
      destruct pre as [|e1 pre'].
      + cbn in Erun. inversion Erun; subst e post. clear Erun. cbn in Eobs. subst ob.
        destruct (Hans _ _ eq_refl) as (p & Hp & Hr & Hw). rewrite app_nil_r.
        apply in_app_or in Hp as [Hp|[<-|[]]].
        * destruct Hw as [->|Hlt]; [left; exact Hr|].
          apply in_map_iff in Hp as (e' & <- & He'). right. exists e'. repeat split; assumption.
        * left. exact Hr.
      + cbn in Erun. inversion Erun; subst e1. clear Erun.
        replace (evs0 ++ mkEv (s_now _ _ s') (s_slot _ _ s') (s_w _ _ s') ob :: pre')
          with ((evs0 ++ [mkEv (s_now _ _ s') (s_slot _ _ s') (s_w _ _ s') ob]) ++ pre') by (now rewrite <- app_assoc).
        eapply IH; try eassumption. rewrite map_app. exact HI'.
  Qed.

  (* MAIN *)
  Theorem run_fresh c ops now sl w : increasing sl ops ->
    forall pre e post a r, run c ops (init now sl w) = pre ++ e :: post -> ev_obs e = OAnswer a r -> fresh c pre e a r.
  Proof.
    intros Hinc pre e post a r Erun Eobs.
    apply (run_fresh_gen c ops (init now sl w) [] (inv_init now sl w) Hinc pre e post a r Erun Eobs).
  Qed.

  (* the world part of an event does not depend on the adapter: it is the clock / tip / ledger after the operation *)
  Fixpoint timeline (ops : list op) (p : point) : list point :=
    match ops with
    | [] => []
    | o :: r => let p' := match o with
                          | OTick dt => (p_time p + dt, p_slot p, p_w p)
                          | OBlock sl w => (p_time p, sl, w)
                          | _ => p
                          end in p' :: timeline r p'
    end.

  Lemma step_pt c o s ob s' : step c o s = (ob, s') ->
    pt s' = match o with
            | OTick dt => (s_now _ _ s + dt, s_slot _ _ s, s_w _ _ s)
            | OBlock sl w => (s_now _ _ s, sl, w)
            | _ => pt s
            end.
  Proof.
    destruct o as [dt|sl w|a| |]; cbn [AdaptersSeq.step]; intros E.
    - inversion E; subst; reflexivity.
    - inversion E; subst; reflexivity.
    - destruct (query c a s) as [v s1] eqn:Eq. inversion E; subst.
      unfold AdaptersSeq.query in Eq. destruct (c_cached c); [|inversion Eq; subst; reflexivity].
      destruct (tip c s) as [sl s2] eqn:Et.
      assert (pt s2 = pt s).
      { unfold AdaptersSeq.tip in Et. destruct (s_memo _ _ s) as [[tm sl0]|]; [destruct (N.ltb _ _)|]; inversion Et; subst; reflexivity. }
      destruct (cache_get _ _ _ _ _) as [[v' l']|]; inversion Eq; subst; [exact H|]. destruct (cacheable _); exact H.
    - destruct (tip c s) as [sl s2] eqn:Et. inversion E; subst.
      unfold AdaptersSeq.tip in Et. destruct (s_memo _ _ s) as [[tm sl0]|]; [destruct (N.ltb _ _)|]; inversion Et; subst; reflexivity.
    - destruct (poll c s) as [b s2] eqn:Ep. inversion E; subst.
      unfold AdaptersSeq.poll in Ep. destruct (c_poll c).
      + inversion Ep; subst; reflexivity.
      + destruct (match s_fetch _ _ s with Some f => _ | None => true end); [|inversion Ep; subst; reflexivity].
        destruct (tip c _) as [sl s3] eqn:Et.
        assert (pt s3 = pt s).
        { unfold AdaptersSeq.tip in Et. cbn in Et. destruct (s_memo _ _ s) as [[tm sl0]|]; [destruct (N.ltb _ _)|]; inversion Et; subst; reflexivity. }
        destruct (N.ltb _ _); inversion Ep; subst; exact H.
      + inversion Ep; subst. destruct (match s_fetch _ _ s with Some f => _ | None => true end); reflexivity.
  Qed.

  Lemma run_timeline c : forall ops s, map evpt (run c ops s) = timeline ops (pt s).
  Proof.
    induction ops as [|o ops IH]; intros s; [reflexivity|].
    cbn [AdaptersSeq.run timeline]. destruct (step c o s) as [ob s'] eqn:Es. cbn [map].
    pose proof (step_pt _ _ _ _ _ Es) as Hp. rewrite IH.
    change (evpt (mkEv (s_now _ _ s') (s_slot _ _ s') (s_w _ _ s') ob)) with (pt s').
    rewrite Hp. destruct o; reflexivity.
  Qed.

  Lemma timeline_mono : forall ops (q x : point), In x (timeline ops q) -> p_time q <= p_time x.
  Proof.
    induction ops as [|o ops IH]; intros q x Hx; [contradiction|]. cbn [timeline] in Hx.
    destruct Hx as [<-|Hx]; [destruct o; cbn; lia|].
    specialize (IH _ _ Hx). destruct o; cbn in *; lia.
  Qed.

  Lemma timeline_sorted : forall ops (q : point) l1 x l2, timeline ops q = l1 ++ x :: l2 ->
    forall y, In y l1 -> p_time y <= p_time x.
  Proof.
    induction ops as [|o ops IH]; intros q l1 x l2 E y Hy; [destruct l1; discriminate|].
    cbn [timeline] in E. destruct l1 as [|y0 l1]; [contradiction|]. cbn in E. injection E as E0 E.
    destruct Hy as [<-|Hy].
    - rewrite <- E0. eapply timeline_mono. rewrite E. apply in_or_app. right. now left.
    - eapply IH; eassumption.
  Qed.

  (* no memo (Kupo over a backend that reads the tip live) or no cache (Blockfrost): the CURRENT answer *)
  Corollary run_current c ops now sl w : increasing sl ops -> (c_memo_ttl c = 0 \/ c_cached c = false) ->
    forall pre e post a r, run c ops (init now sl w) = pre ++ e :: post -> ev_obs e = OAnswer a r ->
    r = fetch (ev_w e) a.
  Proof.
    intros Hinc [Hz|Hu] pre e post a r Erun Eobs.
    - destruct (run_fresh c ops now sl w Hinc pre e post a r Erun Eobs) as [H|(e' & Hin & Hlt & Hr)]; [exact H|].
      exfalso. rewrite Hz, N.add_0_r in Hlt.
      (* e' is an earlier event: its time is not later *)
      assert (Hle : ev_time e' <= ev_time e).
      { pose proof (run_timeline c ops (init now sl w)) as Ht. rewrite Erun, map_app in Ht. cbn [map] in Ht.
        symmetry in Ht. apply (timeline_sorted _ _ _ _ _ Ht (evpt e')). now apply in_map. }
      lia.
    - (* uncached: query never looks at the cache *)
      clear Hinc. revert pre Erun. generalize (@init W A now sl w). induction ops as [|o ops IH]; intros s pre Erun; [destruct pre; discriminate|].
      cbn [AdaptersSeq.run] in Erun. destruct (step c o s) as [ob s'] eqn:Es.
      destruct pre as [|e1 pre'].
      + cbn in Erun. inversion Erun; subst e post. cbn in Eobs. subst ob.
        destruct o; cbn in Es; try (inversion Es; fail).
        * destruct (query c a0 s) as [v s1] eqn:Eq. inversion Es; subst. unfold AdaptersSeq.query in Eq. rewrite Hu in Eq.
          inversion Eq; subst. reflexivity.
        * destruct (tip c s). inversion Es.
        * destruct (poll c s). inversion Es.
      + cbn in Erun. inversion Erun. eapply IH. eassumption.
  Qed.

  (* ---------- the decision procedure on observed answers (independent of the cache model) ----------
     `obs_ok w a r` decides "r is a faithful report of ledger state w for address a" *)
  Variable R : Type.
  Variable obs_ok : W -> string -> R -> bool.

  Fixpoint oracle_go (ttl : N) (pre : list point) (l : list (op * point * option R)) : bool :=
    match l with
    | [] => true
    | (o, p, io) :: r =>
        match o with
        | OQuery a => match io with
                      | Some res => obs_ok (p_w p) a res ||
                                    existsb (fun p' => N.ltb (p_time p) (p_time p' + ttl) && obs_ok (p_w p') a res) pre
                      | None => false
                      end
        | _ => true
        end && oracle_go ttl (pre ++ [p]) r
    end.

  Definition seq_oracle (ttl : N) (now sl : N) (w : W) (ops : list op) (impl : list (option R)) : bool :=
    Nat.eqb (length impl) (length ops) &&
    oracle_go ttl [] (combine (combine ops (timeline ops (now, sl, w))) impl).

  Lemma oracle_go_sound ttl : forall l pre, oracle_go ttl pre l = true ->
    forall l1 a p io l2, l = l1 ++ (OQuery a, p, io) :: l2 ->
    exists res, io = Some res /\
      (obs_ok (p_w p) a res = true \/
       exists p', In p' (pre ++ map (fun x => snd (fst x)) l1) /\ p_time p < p_time p' + ttl /\ obs_ok (p_w p') a res = true).
  Proof.
    induction l as [|[[o q] jo] l IH]; intros pre Ho l1 a p io l2 E; [destruct l1; discriminate|].
    cbn [oracle_go] in Ho. apply andb_true_iff in Ho as [H1 H2].
    destruct l1 as [|x l1]; cbn in E; inversion E; subst.
    - destruct io as [res|]; [|discriminate]. exists res. split; [reflexivity|].
      apply orb_true_iff in H1 as [H1|H1]; [now left|]. right.
      apply existsb_exists in H1 as (p' & Hin & Hp'). apply andb_true_iff in Hp' as [Hlt Hok]. apply N.ltb_lt in Hlt.
      exists p'. cbn. rewrite app_nil_r. auto.
    - destruct (IH _ H2 _ _ _ _ _ eq_refl) as (res & Eio & Hres). exists res. split; [exact Eio|].
      destruct Hres as [Hres|(p' & Hin & Hp')]; [now left|]. right. exists p'. split; [|exact Hp'].
      cbn [map fst snd]. rewrite <- app_assoc in Hin. exact Hin.
  Qed.
End Proofs.
