(* LedgerProofs.v — C02: the model of pycardano's serialization (LedgerModel.v, generic interpreter over the
   class tables) produces exactly the reference encoding of Ledger.v, for EVERY content.
   The proofs are stated for any class tables `S` / enum tables `E` that agree with the recorded ones
   (LedgerTables.v) on the classes the model walks; props/C02.v instantiates them with today's
   regenerated tables. *)
From Coq Require Import NArith ZArith Ascii String List Bool Lia.
From PyC Require Import Base Cbor Value ValueProofs Codec CodecProofs Ledger LedgerModel LedgerTables.
From PyC Require Plutus.
Import ListNotations.
Open Scope string_scope.
Open Scope list_scope.

Definition agree (S : schema) : Prop := Forall (fun c => lookup S c = lookup expected c) names.
Definition enums_agree (E : enums) : Prop :=
  Forall (fun em => Forall (fun mz => enum_val E (fst em) (fst mz) = Ok (snd mz)) (snd em)) expected_enums.

Lemma agree_lookup S : agree S -> forall c, existsb (String.eqb c) names = true -> lookup S c = lookup expected c.
Proof.
  intros H c Hc. apply existsb_exists in Hc as (x & Hin & Heq). apply String.eqb_eq in Heq. subst x.
  unfold agree in H. rewrite Forall_forall in H. now apply H.
Qed.

Definition enum_expected (e m : string) : option Z :=
  match assoc e expected_enums with Some ms => assoc m ms | None => None end.
Lemma assoc_In {A} k (l : list (string * A)) v : assoc k l = Some v -> In (k, v) l.
Proof.
  induction l as [|[k' v'] l IH]; cbn; [discriminate|]. destruct (String.eqb k' k) eqn:Ek.
  - intros H. inversion H; subst. apply String.eqb_eq in Ek. subst. now left.
  - intros H. right. auto.
Qed.
Lemma enum_lookup E : enums_agree E -> forall e m z, enum_expected e m = Some z -> enum_val E e m = Ok z.
Proof.
  intros H e m z. unfold enum_expected. destruct (assoc e expected_enums) as [ms|] eqn:A; [|discriminate]. intros B.
  apply assoc_In in A. apply assoc_In in B. unfold enums_agree in H. rewrite Forall_forall in H.
  specialize (H _ A). cbn in H. rewrite Forall_forall in H. exact (H _ B).
Qed.

(* ---------------------------------------------------------------- numbers *)
Arguments cint : simpl never.
Definition u64 (n : N) : Prop := (n < two64)%N.
Lemma cint_N n : u64 n -> cint (Z.of_N n) = CU n.
Proof.
  unfold u64, two64, cint, two64z. intros H.
  destruct (0 <=? Z.of_N n)%Z eqn:A; [|lia]. destruct (Z.of_N n <? 18446744073709551616)%Z eqn:B; [|lia].
  now rewrite N2Z.id.
Qed.
Lemma cint_int z : in64 z -> cint z = Ledger.int z.
Proof.
  unfold in64, cint, Ledger.int. intros H.
  destruct (0 <=? z)%Z.
  - destruct (z <? two64z)%Z eqn:B; [reflexivity|lia].
  - destruct (- two64z <=? z)%Z eqn:B; [reflexivity|lia].
Qed.

(* ---------------------------------------------------------------- leaves (any positive fuel) *)
Arguments to_prim : simpl never.
Arguments obj : simpl never.
Arguments dict : simpl never.
Lemma tp_int S n z : to_prim S (Datatypes.S n) (VInt z) = Ok (cint z). Proof. reflexivity. Qed.
Lemma tp_bytes S n b : to_prim S (Datatypes.S n) (VBytes b) = Ok (CB b). Proof. reflexivity. Qed.
Lemma tp_str S n b : to_prim S (Datatypes.S n) (VStr b) = Ok (CT b). Proof. reflexivity. Qed.
Lemma tp_bool S n b : to_prim S (Datatypes.S n) (VBool b) = Ok (cbool b). Proof. reflexivity. Qed.
Lemma tp_none S n : to_prim S (Datatypes.S n) VNone = Ok cnone. Proof. reflexivity. Qed.
Lemma tp_frac S n a b : to_prim S (Datatypes.S n) (VFrac a b) = Ok (CTag 30 (CA [cint a; cint b])). Proof. reflexivity. Qed.
Lemma tp_cb S n c b : to_prim S (Datatypes.S n) (VCB c b) = Ok (CB b). Proof. reflexivity. Qed.
Lemma tp_enum S n c z : to_prim S (Datatypes.S n) (VEnum c z) = Ok (cint z). Proof. reflexivity. Qed.
Lemma tp_any S n p : to_prim S (Datatypes.S n) (VAny p) = Ok p. Proof. reflexivity. Qed.
Lemma tp_zN S n x : to_prim S (Datatypes.S n) (zN x) = Ok (cint (Z.of_N x)). Proof. reflexivity. Qed.
Lemma tp_fracq S n q : to_prim S (Datatypes.S n) (frac q) = Ok (CTag 30 (CA [cint (Z.of_N (fst q)); cint (Z.of_N (snd q))])).
Proof. reflexivity. Qed.
Lemma oN_some x : oN (Some x) = zN x. Proof. reflexivity. Qed.
Lemma oN_none : oN None = VNone. Proof. reflexivity. Qed.
Lemma oany_some p : oany (Some p) = VAny p. Proof. reflexivity. Qed.
Lemma oany_none : oany None = VNone. Proof. reflexivity. Qed.
Lemma ocb_some c b : ocb c (Some b) = VCB c b. Proof. reflexivity. Qed.
Lemma ocb_none c : ocb c None = VNone. Proof. reflexivity. Qed.
#[global] Hint Rewrite oN_some oN_none oany_some oany_none ocb_some ocb_none
  tp_int tp_bytes tp_str tp_bool tp_none tp_frac tp_cb tp_enum tp_any tp_zN tp_fracq : leaf.

(* ---------------------------------------------------------------- lists of children *)
Lemma mapM_map {A B} (f : A -> res B) (g : A -> B) l : (forall x, In x l -> f x = Ok (g x)) -> mapM f l = Ok (map g l).
Proof.
  induction l as [|x l IH]; cbn; intros H; [reflexivity|].
  rewrite (H x (or_introl eq_refl)). cbn. rewrite IH; [reflexivity|]. intros y Hy. apply H. now right.
Qed.
Lemma mapM_leaf {A} S n (f : A -> pv) (g : A -> cbor) l :
  (forall x, In x l -> to_prim S n (f x) = Ok (g x)) -> mapM (to_prim S n) (map f l) = Ok (map g l).
Proof.
  induction l as [|x l IH]; cbn; intros H; [reflexivity|].
  rewrite (H x (or_introl eq_refl)). cbn. rewrite IH; [reflexivity|]. intros y Hy. apply H. now right.
Qed.
Lemma mapM_any S n ps : mapM (to_prim S (Datatypes.S n)) (map VAny ps) = Ok ps.
Proof. rewrite (mapM_leaf S _ VAny (fun p => p)); [now rewrite map_id|reflexivity]. Qed.
Lemma to_prim_list S n l : to_prim S (Datatypes.S n) (VList l) = (do ps <- mapM (to_prim S n) l; Ok (CA ps)).
Proof. reflexivity. Qed.
Lemma to_prim_set S n t l :
  to_prim S (Datatypes.S n) (VSet t l) = (do ps <- mapM (to_prim S n) l; Ok (if t then CTag 258 (CA ps) else CA ps)).
Proof. reflexivity. Qed.
Lemma list_any S n ps : to_prim S (Datatypes.S (Datatypes.S n)) (VList (map VAny ps)) = Ok (CA ps).
Proof. rewrite to_prim_list. now rewrite mapM_any. Qed.
Lemma set_any S n t ps : to_prim S (Datatypes.S (Datatypes.S n)) (VSet t (map VAny ps)) = Ok (rset t ps).
Proof. rewrite to_prim_set. now rewrite mapM_any. Qed.
Lemma set_cb S n t c l : to_prim S (Datatypes.S (Datatypes.S n)) (VSet t (map (VCB c) l)) = Ok (rset t (map CB l)).
Proof. rewrite to_prim_set. rewrite (mapM_leaf S _ (VCB c) CB); [reflexivity|reflexivity]. Qed.
Lemma set_bytes S n t l : to_prim S (Datatypes.S (Datatypes.S n)) (VSet t (map VBytes l)) = Ok (rset t (map CB l)).
Proof. rewrite to_prim_set. rewrite (mapM_leaf S _ VBytes CB); [reflexivity|reflexivity]. Qed.
Lemma list_bytes S n l : to_prim S (Datatypes.S (Datatypes.S n)) (VList (map VBytes l)) = Ok (CA (map CB l)).
Proof. rewrite to_prim_list. rewrite (mapM_leaf S _ VBytes CB); [reflexivity|reflexivity]. Qed.

Lemma mapM_cb S n c l : mapM (to_prim S (Datatypes.S n)) (map (VCB c) l) = Ok (map CB l).
Proof. apply mapM_leaf. reflexivity. Qed.
Lemma mapM_bytes S n l : mapM (to_prim S (Datatypes.S n)) (map VBytes l) = Ok (map CB l).
Proof. apply mapM_leaf. reflexivity. Qed.
#[global] Hint Rewrite to_prim_list to_prim_set mapM_any mapM_cb mapM_bytes : leaf.

(* a dict class: entries are sorted into canonical order *)
Lemma to_prim_dict S n c l :
  to_prim S (Datatypes.S n) (VDict c l) =
    match lookup S c with
    | Some (KDict _ _) =>
        do ps <- mapM (fun kv => do k <- to_prim S n (fst kv); do x <- to_prim S n (snd kv); Ok (k, x)) l; Ok (CM (ksort ps))
    | _ => EOther "not a dict class"
    end.
Proof. reflexivity. Qed.
Lemma dict_ok S c kt vt kvs : lookup S c = Some (KDict kt vt) -> dict S c kvs = Ok (CM (ksort kvs)).
Proof.
  intros H. unfold dict, fuel. rewrite to_prim_dict, H.
  rewrite (mapM_map _ (fun kv => (match fst kv with VAny p => p | _ => cnone end, match snd kv with VAny p => p | _ => cnone end))).
  - cbn [bind]. rewrite map_map. cbn [fst snd]. f_equal. f_equal. f_equal. induction kvs as [|[k v] r IH]; cbn; congruence.
  - intros [k v] Hin. apply in_map_iff in Hin as ([a b] & E & _). inversion E; subst. reflexivity.
Qed.

(* ---------------------------------------------------------------- keyed dataclasses with optional fields *)
Section MapRel.
  Variable S : schema.
  Variable n : nat.
  (* a field value and the primitive it contributes (None: omitted) *)
  Definition fv_rel (f : field) (v : pv) (o : option cbor) : Prop :=
    match o with
    | Some p => to_prim S n v = Ok p /\ (v = VNone -> fopt f = false)
    | None => v = VNone /\ fopt f = true
    end.
  Fixpoint fields_rel (fs : list field) (vs : list pv) (os : list (option cbor)) : Prop :=
    match fs, vs, os with
    | [], [], [] => True
    | f :: fr, v :: vr, o :: orr => fv_rel f v o /\ fields_rel fr vr orr
    | _, _, _ => False
    end.
  Fixpoint map_out (fs : list field) (os : list (option cbor)) : list (cbor * cbor) :=
    match fs, os with
    | f :: fr, o :: orr =>
        match o, fkey f with Some p, Some k => (k, p) :: map_out fr orr | _, _ => map_out fr orr end
    | _, _ => []
    end.
  Lemma enc_map_rel : forall fs vs os, fields_rel fs vs os -> forallb (fun f => match fkey f with Some _ => true | None => false end) fs = true ->
    enc_map (to_prim S n) fs vs = Ok (map_out fs os).
  Proof.
    induction fs as [|f fr IH]; intros [|v vr] [|o orr]; cbn [fields_rel]; try tauto; intros H K.
    destruct H as [Hf Hr]. cbn [forallb] in K. apply andb_true_iff in K as [Kf Kr].
      destruct (fkey f) as [k|] eqn:Ek; [|discriminate].
      cbn [enc_map map_out]. rewrite Ek. destruct o as [p|]; cbn [fv_rel] in Hf.
    - destruct Hf as [Hp Hn]. rewrite Hp. cbn [bind]. rewrite (IH vr orr Hr Kr). cbn [bind].
        destruct v; try reflexivity. rewrite (Hn eq_refl). reflexivity.
    - destruct Hf as [-> Ho]. rewrite Ho. exact (IH vr orr Hr Kr).
  Qed.
End MapRel.

Lemma to_prim_obj S n c vs :
  to_prim S (Datatypes.S n) (VObj c vs) =
    match lookup S c with
    | Some (KArray fs) => do ps <- enc_arr (to_prim S n) fs vs; Ok (CA ps)
    | Some (KCoded code fs) => do ps <- enc_arr (to_prim S n) fs vs; Ok (CA (cint code :: ps))
    | Some (KMap fs) => do ps <- enc_map (to_prim S n) fs vs; Ok (CM ps)
    | _ => EOther "not a dataclass"
    end.
Proof. reflexivity. Qed.
(* NB: never let the conversion test meet `to_prim S <literal>` on both sides: it unfolds the fixpoint 64 levels deep *)
Lemma obj_unfold S c vs :
  obj S c vs = match lookup S c with
               | Some (KArray fs) => do ps <- enc_arr (to_prim S 63) fs vs; Ok (CA ps)
               | Some (KCoded code fs) => do ps <- enc_arr (to_prim S 63) fs vs; Ok (CA (cint code :: ps))
               | Some (KMap fs) => do ps <- enc_map (to_prim S 63) fs vs; Ok (CM ps)
               | _ => EOther "not a dataclass"
               end.
Proof. exact (to_prim_obj S 63 c vs). Qed.
Lemma obj_map S c fs vs os : lookup S c = Some (KMap fs) ->
  fields_rel S 63 fs vs os -> forallb (fun f => match fkey f with Some _ => true | None => false end) fs = true ->
  obj S c vs = Ok (CM (map_out fs os)).
Proof. intros H R K. rewrite obj_unfold, H. now rewrite (enc_map_rel S 63 fs vs os R K). Qed.

Lemma map_out_entries : forall fs ks os, map fkey fs = map (fun k => Some (CU k)) ks -> map_out fs os = entries (combine ks os).
Proof.
  induction fs as [|f fr IH]; intros [|k kr] os H; cbn [map] in H; try discriminate; [destruct os; reflexivity|].
  inversion H as [[Hk Hr]]. destruct os as [|o orr]; [reflexivity|]. cbn [map_out combine entries flat_map snd fst].
  rewrite Hk. destruct o; cbn [app]; now rewrite (IH kr orr Hr).
Qed.
Lemma keys_all_some : forall fs ks, map fkey fs = map (fun k => Some (CU k)) ks ->
  forallb (fun f => match fkey f with Some _ => true | None => false end) fs = true.
Proof.
  induction fs as [|f fr IH]; intros [|k kr] H; cbn [map] in H; try discriminate; [reflexivity|].
  inversion H as [[Hk Hr]]. cbn [forallb]. rewrite Hk. exact (IH kr Hr).
Qed.
Lemma obj_map_entries S c fs vs os ks : lookup S c = Some (KMap fs) -> fields_rel S 63 fs vs os ->
  map fkey fs = map (fun k => Some (CU k)) ks -> obj S c vs = Ok (CM (entries (combine ks os))).
Proof. intros H R K. rewrite (obj_map S c fs vs os H R (keys_all_some fs ks K)). now rewrite (map_out_entries fs ks os K). Qed.

(* leaves as field values *)
Lemma rel_some S n f v p : to_prim S n v = Ok p -> v <> VNone -> fv_rel S n f v (Some p).
Proof. intros H N. split; [exact H|]. intros E. contradiction. Qed.
Lemma rel_oany S n f o : fopt f = true -> fv_rel S (Datatypes.S n) f (oany o) o.
Proof. intros H. destruct o; cbn [oany fv_rel]; [split; [reflexivity|discriminate]|now split]. Qed.
Lemma rel_oN S n f o : fopt f = true -> (forall x, o = Some x -> u64 x) -> fv_rel S (Datatypes.S n) f (oN o) (option_map CU o).
Proof.
  intros H B. destruct o as [x|]; cbn [oN option_map fv_rel]; [|now split]. split; [|discriminate].
  unfold zN. rewrite tp_int. now rewrite cint_N by (apply B; reflexivity).
Qed.
Lemma rel_ocb S n f c o : fopt f = true -> fv_rel S (Datatypes.S n) f (ocb c o) (option_map CB o).
Proof. intros H. destruct o; cbn [ocb option_map fv_rel]; [split; [reflexivity|discriminate]|now split]. Qed.

(* ================================================================ the classes *)
Section Classes.
  Variable S : schema.
  Variable E : enums.
  Hypothesis HS : agree S.
  Hypothesis HE : enums_agree E.

  Ltac look c :=
    rewrite (agree_lookup S HS c eq_refl);
    let d := eval vm_compute in (lookup expected c) in change (lookup expected c) with d.
  (* a dataclass whose field values are leaves: unfold, look the table up, compute *)
  Ltac kint := repeat match goal with |- context [cint ?z] =>
                 lazymatch z with Z.of_N _ => fail | _ => is_ground z; let r := eval vm_compute in (cint z) in change (cint z) with r end end.
  Ltac ev1 := cbn [enc_arr enc_map fconst fopt fkey bind mapM oN zN oany ocb frac option_map fst snd]; autorewrite with leaf.
  Ltac ev := ev1; ev1; ev1; cbn [bind]; kint; unfold rset.
  Ltac cls c := rewrite (obj_unfold S c); look c; ev.
  (* a keyed dataclass: keys ks of the CDDL rule, contributed primitives os; leaves the field-by-field relation *)
  Ltac mapcls c ks os :=
    let L := fresh "L" in
    pose proof (agree_lookup S HS c eq_refl) as L;
    let d := eval vm_compute in (lookup expected c) in change (lookup expected c) with d in L;
    match type of L with _ = Some (KMap ?fs) =>
      rewrite (obj_map_entries S c fs _ os ks L);
      [ | cbn [fields_rel]; repeat match goal with |- fv_rel _ _ _ _ _ /\ _ => split end; try exact I;
          try first [ apply rel_oany; reflexivity | apply rel_ocb; reflexivity
                    | split; [apply tp_any | intros ?; discriminate] ]
        | reflexivity ] end;
    clear L.
  Ltac enum e m := rewrite (enum_lookup E HE e m _ eq_refl); cbn [bind].
  Ltac ints := repeat match goal with
                      | H : u64 ?n |- context [cint (Z.of_N ?n)] => rewrite (cint_N n H)
                      end.
  Lemma cred_ok c : m_cred S "StakeCredential" c = Ok (ref_cred c).
  Proof. destruct c; unfold m_cred; cls "StakeCredential"; reflexivity. Qed.
  Lemma dcred_ok c : m_cred S "DRepCredential" c = Ok (ref_cred c).
  Proof. destruct c; unfold m_cred; cls "DRepCredential"; reflexivity. Qed.
  Lemma ccred_ok c : m_cred S "CommitteeColdCredential" c = Ok (ref_cred c).
  Proof. destruct c; unfold m_cred; cls "CommitteeColdCredential"; reflexivity. Qed.
  Lemma drep_ok d : m_drep E d = Ok (ref_drep d).
  Proof.
    destruct d; unfold m_drep;
      [enum "DRepKind" "VERIFICATION_KEY_HASH" | enum "DRepKind" "SCRIPT_HASH" | enum "DRepKind" "ALWAYS_ABSTAIN"
       | enum "DRepKind" "ALWAYS_NO_CONFIDENCE"]; reflexivity.
  Qed.
  Lemma anchor_ok a : m_anchor S a = Ok (ref_anchor a).
  Proof. unfold m_anchor. cls "Anchor". reflexivity. Qed.
  Lemma oanchor_ok a : m_oanchor S a = Ok (oany (option_map ref_anchor a)).
  Proof. unfold m_oanchor. destruct a; cbn [omap option_map]; [rewrite anchor_ok|]; reflexivity. Qed.

  Definition relay_wf (r : relay) : Prop :=
    match r with RAddr (Some p) _ _ | RName (Some p) _ => u64 p | _ => True end.
  Lemma relay_ok r : relay_wf r -> m_relay S r = Ok (ref_relay r).
  Proof.
    destruct r as [[p|] [a|] [b|] | [p|] d | d]; cbn [relay_wf]; intros W; unfold m_relay;
      [cls "SingleHostAddr!super" .. | cls "SingleHostName" | cls "SingleHostName" | cls "MultiHostName"];
      unfold zN; ints; reflexivity.
  Qed.

  Definition frac_wf (q : N * N) : Prop := u64 (fst q) /\ u64 (snd q).
  Lemma frac_ok n q : frac_wf q -> to_prim S (Datatypes.S n) (frac q) = Ok (rational q).
  Proof. intros [A B]. unfold frac, rational. rewrite tp_frac. now rewrite ?cint_N by assumption. Qed.

  Definition pool_wf (p : pool) : Prop :=
    u64 (p_pledge p) /\ u64 (p_cost p) /\ frac_wf (p_margin p) /\ Forall relay_wf (p_relays p).
  Lemma pool_ok t p : pool_wf p -> m_pool S t p = Ok (CA (ref_pool_params t p)).
  Proof.
    intros (A & B & [C D] & R). unfold m_pool.
    rewrite (mapM_map _ ref_relay) by (intros x Hx; apply relay_ok; rewrite Forall_forall in R; auto). cbn [bind].
    destruct (p_meta p) as [[u h]|] eqn:M; cbn [omap bind].
    - rewrite (obj_unfold S "PoolMetadata"). look "PoolMetadata". ev.
      rewrite (obj_unfold S "PoolParams"). look "PoolParams". ev.
      unfold zN, ref_pool_params, rational, rset. rewrite M. ints.
      rewrite ?cint_N by assumption. reflexivity.
    - rewrite (obj_unfold S "PoolParams"). look "PoolParams". ev.
      unfold zN, ref_pool_params, rational, rset. rewrite M. ints.
      rewrite ?cint_N by assumption. reflexivity.
  Qed.

  Definition cert_wf (c : cert) : Prop :=
    match c with
    | CertPoolReg p => pool_wf p
    | CertPoolRetire _ e => u64 e
    | CertRegC _ n | CertDeregC _ n | CertStakeRegDeleg _ _ n | CertVoteRegDeleg _ _ n | CertStakeVoteRegDeleg _ _ _ n
    | CertRegDRep _ n _ | CertUnregDRep _ n => u64 n
    | _ => True
    end.
  Lemma cert_ok t c : cert_wf c -> m_cert S E t c = Ok (ref_cert t c).
  Proof.
    destruct c; cbn [cert_wf]; intros W; unfold m_cert;
      rewrite ?cred_ok, ?dcred_ok, ?drep_ok, ?oanchor_ok; cbn [bind].
    - cls "StakeRegistration". reflexivity.
    - cls "StakeDeregistration". reflexivity.
    - cls "StakeDelegation". reflexivity.
    - rewrite (pool_ok t p W). cbn [bind]. look "PoolRegistration!super". reflexivity.
    - cls "PoolRetirement". unfold zN. ints. reflexivity.
    - cls "StakeRegistrationConway". unfold zN. ints. reflexivity.
    - cls "StakeDeregistrationConway". unfold zN. ints. reflexivity.
    - cls "VoteDelegation". reflexivity.
    - cls "StakeAndVoteDelegation". reflexivity.
    - cls "StakeRegistrationAndDelegation". unfold zN. ints. reflexivity.
    - cls "StakeRegistrationAndVoteDelegation". unfold zN. ints. reflexivity.
    - cls "StakeRegistrationAndDelegationAndVoteDelegation". unfold zN. ints. reflexivity.
    - cls "AuthCommitteeHotCertificate". reflexivity.
    - destruct a; cls "ResignCommitteeColdCertificate"; reflexivity.
    - destruct a; cls "RegDRepCert"; unfold zN; ints; reflexivity.
    - cls "UnregDRepCertificate". unfold zN. ints. reflexivity.
    - destruct a; cls "UpdateDRepCertificate"; reflexivity.
  Qed.

  (* native scripts: structural induction, any depth *)
  Fixpoint ns_wf (s : nscript) : Prop :=
    match s with
    | NAll l | NAny l => (fix all (l : list nscript) : Prop := match l with [] => True | x :: r => ns_wf x /\ all r end) l
    | NOfK n l => u64 n /\ (fix all (l : list nscript) : Prop := match l with [] => True | x :: r => ns_wf x /\ all r end) l
    | NInvalidBefore t | NInvalidHereafter t => u64 t
    | NSig _ => True
    end.
  Lemma nscript_ok : forall s, ns_wf s -> m_nscript S s = Ok (ref_nscript s).
  Proof.
    fix IH 1. intros s.
    assert (L : forall l, (fix all (l : list nscript) : Prop := match l with [] => True | x :: r => ns_wf x /\ all r end) l ->
                          mapM (m_nscript S) l = Ok (map ref_nscript l)).
    { induction l as [|x r IHr]; cbn; [reflexivity|]. intros [Wx Wr]. rewrite (IH x Wx). cbn [bind]. rewrite (IHr Wr). reflexivity. }
    destruct s as [h|l|l|n l|t|t]; cbn [ns_wf]; intros W; cbn [m_nscript ref_nscript].
    - cls "ScriptPubkey". reflexivity.
    - rewrite (L l W). cbn [bind]. rewrite (obj_unfold S "ScriptAll"). look "ScriptAll". ev. reflexivity.
    - rewrite (L l W). cbn [bind]. rewrite (obj_unfold S "ScriptAny"). look "ScriptAny". ev. reflexivity.
    - destruct W as [Wn W]. rewrite (L l W). cbn [bind]. rewrite (obj_unfold S "ScriptNofK"). look "ScriptNofK". ev.
      unfold zN. ints. reflexivity.
    - cls "InvalidBefore". unfold zN. ints. reflexivity.
    - cls "InvalidHereAfter". unfold zN. ints. reflexivity.
  Qed.

  Definition script_wf (s : script) : Prop := match s with SNative n => ns_wf n | SPlutus v _ => u64 v end.
  Lemma script_ok s : script_wf s -> m_script S s = Ok (ref_script s).
  Proof.
    destruct s as [n|v b]; cbn [script_wf]; intros W; unfold m_script.
    - rewrite (nscript_ok n W). cbn [bind]. cls "_Script". reflexivity.
    - cls "_Script". unfold zN. ints. reflexivity.
  Qed.
  Lemma script_ref_ok s : script_wf s -> m_script_ref S s = Ok (ref_script_ref s).
  Proof. intros W. unfold m_script_ref. rewrite (script_ok s W). reflexivity. Qed.
  Lemma datum_option_ok d : m_datum_option d = Ok (ref_datum_option d).
  Proof. destruct d; reflexivity. Qed.

  (* values: the C04 model on a bundle without zero quantities or empty policies is the CDDL form *)
  Definition asset_wf (a : list (bytes * Z)) : Prop := a <> [] /\ Forall (fun nq => snd nq <> 0%Z /\ in64 (snd nq)) a.
  Definition bundle_wf (m : bundle) : Prop := Forall (fun pa => asset_wf (snd pa)) m.
  Lemma filter_all {A} (f : A -> bool) l : Forall (fun x => f x = true) l -> filter f l = l.
  Proof. induction 1 as [|x l Hx Hl IH]; cbn; [reflexivity|]. now rewrite Hx, IH. Qed.
  Lemma a_norm_wf a : asset_wf a -> a_norm a = a.
  Proof.
    intros [_ H]. unfold a_norm. apply filter_all. eapply Forall_impl; [|exact H]. cbn. intros [n q] [Hq _]. cbn in *.
    destruct (q =? 0)%Z eqn:Q; [apply Z.eqb_eq in Q; contradiction|reflexivity].
  Qed.
  Lemma asset_prim_wf a : asset_wf a ->
    asset_prim a = CM (ksort (map (fun nq => (CB (fst nq), Ledger.int (snd nq))) a)).
  Proof.
    intros W. unfold asset_prim. rewrite (a_norm_wf a W). f_equal. f_equal. destruct W as [_ W].
    induction W as [|[n q] l [_ Hq] Hl IH]; cbn; [reflexivity|]. now rewrite (cint_int q Hq), IH.
  Qed.
  Lemma m_norm_wf m : bundle_wf m -> m_norm m = m.
  Proof.
    intros W. unfold m_norm.
    assert (M : map (fun kv : bytes * asset => (fst kv, a_norm (snd kv))) m = m).
    { induction W as [|[p a] l Ha Hl IH]; cbn [map fst snd]; [reflexivity|]. cbn [snd] in Ha. now rewrite (a_norm_wf a Ha), IH. }
    rewrite M. apply filter_all. eapply Forall_impl; [|exact W]. cbn. intros [p a] [Hne _]. cbn in *. destruct a; [contradiction|reflexivity].
  Qed.
  Lemma masset_prim_wf m : bundle_wf m -> masset_prim (zbundle m) = ref_multiasset m.
  Proof.
    intros W. unfold masset_prim, zbundle, ref_multiasset. rewrite (m_norm_wf m W). f_equal. f_equal.
    induction W as [|[p a] l Ha Hl IH]; cbn [map fst snd]; [reflexivity|]. cbn [snd] in Ha. now rewrite (asset_prim_wf a Ha), IH.
  Qed.
  Lemma value_ok coin m : u64 coin -> bundle_wf m -> m_value coin m = ref_value coin m.
  Proof.
    intros C W. unfold m_value, value_prim, ref_value. cbn [massets Value.coin]. unfold zbundle. rewrite (m_norm_wf m W), (cint_N coin C).
    destruct m; cbn [is_nil]; [reflexivity|]. f_equal. f_equal. f_equal. exact (masset_prim_wf _ W).
  Qed.

  Definition output_wfP (o : output) : Prop :=
    output_wf o = true /\ u64 (o_coin o) /\ bundle_wf (o_assets o)
    /\ match o_script o with Some s => script_wf s | None => True end.
  Lemma output_ok o : output_wfP o -> m_output S o = Ok (ref_output o).
  Proof.
    intros (W & C & B & Sc). unfold m_output, ref_output, output_wf in *. rewrite (value_ok _ _ C B).
    destruct (o_map o) eqn:M; cbn [orb] in *.
    - rewrite !orb_true_r.
      assert (D : omap m_datum_option (o_datum o) = Ok (option_map ref_datum_option (o_datum o)))
        by (destruct (o_datum o); cbn; [rewrite datum_option_ok|]; reflexivity).
      assert (R : omap (m_script_ref S) (o_script o) = Ok (option_map ref_script_ref (o_script o)))
        by (destruct (o_script o); cbn; [rewrite (script_ref_ok _ Sc)|]; reflexivity).
      rewrite D, R. cbn [bind].
      mapcls "_TransactionOutputPostAlonzo" [0; 1; 2; 3]%N
        [Some (CB (o_addr o)); Some (ref_value (o_coin o) (o_assets o)); option_map ref_datum_option (o_datum o);
         option_map ref_script_ref (o_script o)].
      reflexivity.
    - destruct (o_datum o) as [[h|d]|]; cbn in W; try discriminate; destruct (o_script o); try discriminate; cbn [orb];
        cls "_TransactionOutputLegacy"; reflexivity.
  Qed.

  Definition input_wf (i : input) : Prop := u64 (snd i).
  Lemma input_ok i : input_wf i -> m_input S i = Ok (ref_input i).
  Proof. unfold input_wf. intros W. unfold m_input. cls "TransactionInput". unfold zN. ints. reflexivity. Qed.
  Lemma gaid_ok g : u64 (snd g) -> m_gaid S g = Ok (ref_gaid g).
  Proof. intros W. unfold m_gaid. cls "GovActionId". unfold zN. ints. reflexivity. Qed.
  Definition ogaid_wf (g : option gaid) : Prop := match g with Some x => u64 (snd x) | None => True end.
  Lemma ogaid_ok g : ogaid_wf g -> m_ogaid S g = Ok (oany (option_map ref_gaid g)).
  Proof. unfold m_ogaid. destruct g; cbn; intros W; [rewrite (gaid_ok _ W)|]; reflexivity. Qed.
  Lemma voter_ok v : m_voter v = Ok (ref_voter v).
  Proof. destruct v; reflexivity. Qed.
  Definition vote_wf (vp : N * option anchor) : Prop := (fst vp < 3)%N.
  Lemma voting_procedure_ok vp : vote_wf vp -> m_voting_procedure S E vp = Ok (ref_voting_procedure vp).
  Proof.
    destruct vp as [n a]. unfold vote_wf. cbn [fst]. intros W. unfold m_voting_procedure, ref_voting_procedure. cbn [fst snd].
    assert (C : (n = 0 \/ n = 1 \/ n = 2)%N) by lia.
    destruct C as [-> | [-> | ->]]; cbn [vote_name N.eqb Pos.eqb];
      [enum "Vote" "NO" | enum "Vote" "YES" | enum "Vote" "ABSTAIN"];
      (destruct a; cbn [omap bind option_map opt]; [rewrite anchor_ok|]; reflexivity).
  Qed.
  Definition votes_wf (v : votes) : Prop :=
    Forall (fun e => Forall (fun gv => u64 (snd (fst gv)) /\ vote_wf (snd gv)) (snd e)) v.
  Lemma votes_ok v : votes_wf v -> m_votes S E v = Ok (ref_voting_procedures v).
  Proof.
    intros W. unfold m_votes, ref_voting_procedures.
    rewrite (mapM_map _ (fun e => (ref_voter (fst e),
        CM (ksort (map (fun gv => (ref_gaid (fst gv), ref_voting_procedure (snd gv))) (snd e)))))).
    - cbn [bind]. eapply dict_ok. look "VotingProcedures". reflexivity.
    - intros [vt l] Hin. unfold votes_wf in W. rewrite Forall_forall in W. specialize (W _ Hin). cbn [fst snd] in *.
      rewrite voter_ok. cbn [bind].
      rewrite (mapM_map _ (fun gv => (ref_gaid (fst gv), ref_voting_procedure (snd gv)))).
      + cbn [bind]. erewrite dict_ok; [reflexivity|]. look "GovActionIdToVotingProcedure". reflexivity.
      + intros [g vp] Hg. rewrite Forall_forall in W. destruct (W _ Hg) as [A B]. cbn [fst snd] in *.
        rewrite (gaid_ok g A). cbn [bind]. rewrite (voting_procedure_ok vp B). reflexivity.
  Qed.


  (* protocol parameter update: 30 optional slots *)
  Definition ppval_wf (v : ppval) : Prop :=
    match v with
    | PInt n => u64 n | PRat q => frac_wf q | PPrices a b => frac_wf a /\ frac_wf b
    | PUnits a b => u64 a /\ u64 b | PThresholds l => Forall frac_wf l
    end.
  Lemma kind4 k : ppu_kind k = 4%N -> k = 25%N.
  Proof.
    unfold ppu_kind. destruct (k =? 25)%N eqn:K; [intros _; now apply N.eqb_eq|].
    repeat match goal with |- context [if ?c then _ else _] => destruct c end; discriminate.
  Qed.
  Lemma kind5 k : ppu_kind k = 5%N -> k <> 25%N.
  Proof. intros H ->. vm_compute in H. discriminate. Qed.
  Lemma thresholds_ok c (l : list (N * N)) : Forall frac_wf l ->
    (exists fs, lookup S c = Some (KArray fs) /\ length fs = length l /\
                Forall (fun f => fconst f = None /\ fopt f = false) fs) ->
    obj S c (map frac l) = Ok (CA (map rational l)).
  Proof.
    intros W (fs & L & Len & F). rewrite obj_unfold, L.
    assert (X : forall fs l, length fs = length l -> Forall (fun f => fconst f = None /\ fopt f = false) fs -> Forall frac_wf l ->
                enc_arr (to_prim S 63) fs (map frac l) = Ok (map rational l)).
    { clear. induction fs as [|f fr IH]; intros [|q l] Len F W; try discriminate; [reflexivity|].
      inversion F as [|? ? [Fc Fo] Fr]; subst. inversion W as [|? ? Wq Wl]; subst.
      cbn [enc_arr map]. rewrite Fc, Fo. change (frac q) with (VFrac (Z.of_N (fst q)) (Z.of_N (snd q))) at 1.
      cbn iota. rewrite (frac_ok 62 q Wq). cbn [bind]. rewrite (IH l (eq_add_S _ _ Len) Fr Wl). reflexivity. }
    rewrite (X fs l Len F W). reflexivity.
  Qed.
  Lemma ppval_ok k v : ppval_kind_ok k v = true -> ppval_wf v ->
    exists v', m_ppval S k v = Ok v' /\ to_prim S 63 v' = Ok (ref_ppval v) /\ v' <> VNone.
  Proof.
    intros K W. destruct v as [n|q|a b|a b|l]; cbn [ppval_wf] in W; cbn [m_ppval ref_ppval].
    - eexists; split; [reflexivity|]. split; [|discriminate]. rewrite tp_zN. now rewrite cint_N.
    - eexists; split; [reflexivity|]. split; [|discriminate]. now apply frac_ok.
    - destruct W as [[A1 A2] [B1 B2]]. cls "ExUnitPrices". unfold rational.
      rewrite ?cint_N by assumption. eexists; split; [reflexivity|]. split; [apply tp_any|discriminate].
    - destruct W as [A B]. cls "ExecutionUnits". rewrite ?cint_N by assumption.
      eexists; split; [reflexivity|]. split; [apply tp_any|discriminate].
    - cbn [ppval_kind_ok] in K. apply orb_true_iff in K as [K|K]; apply andb_true_iff in K as [K1 K2];
        apply N.eqb_eq in K1; apply Nat.eqb_eq in K2.
      + rewrite (kind4 k K1). cbn [N.eqb Pos.eqb].
        rewrite (thresholds_ok "PoolVotingThresholds" l W).
        * eexists; split; [reflexivity|]. split; [apply tp_any|discriminate].
        * look "PoolVotingThresholds". eexists; split; [reflexivity|]. split; [exact (eq_sym K2)|]. repeat constructor.
      + destruct (k =? 25)%N eqn:K25; [apply N.eqb_eq in K25; exfalso; exact (kind5 k K1 K25)|].
        rewrite (thresholds_ok "DRepVotingThresholds" l W).
        * eexists; split; [reflexivity|]. split; [apply tp_any|discriminate].
        * look "DRepVotingThresholds". eexists; split; [reflexivity|]. split; [exact (eq_sym K2)|]. repeat constructor.
  Qed.
  Definition ppu_wfP (u : ppu) : Prop := ppu_wf u = true /\ Forall (fun o => match o with Some v => ppval_wf v | None => True end) u.
  Lemma ppu_vals_ok : forall ks u fs, length fs = length ks -> forallb fopt fs = true ->
    ppu_wf_at ks u = true -> Forall (fun o => match o with Some v => ppval_wf v | None => True end) u ->
    exists vs, m_ppu_vals S ks u = Ok vs /\ fields_rel S 63 fs vs (map (option_map ref_ppval) u).
  Proof.
    induction ks as [|k kr IH]; intros [|o ur] [|f fr] L O W B; cbn [length ppu_wf_at] in L, W; try discriminate.
    - eexists; split; [reflexivity|exact I].
    - apply andb_true_iff in W as [Wo Wr]. cbn [forallb] in O. apply andb_true_iff in O as [Of Or].
      inversion B as [|? ? Bo Br]; subst.
      destruct (IH ur fr (eq_add_S _ _ L) Or Wr Br) as (vs & Evs & Rvs). cbn [m_ppu_vals].
      destruct o as [v|].
      + destruct (ppval_ok k v Wo Bo) as (v' & Ev & Pv & Nv).
        rewrite Ev. cbn [bind]. rewrite Evs. cbn [bind]. eexists; split; [reflexivity|].
        cbn [fields_rel map option_map]. split; [|exact Rvs]. split; [exact Pv|]. intros X. contradiction.
      + cbn [bind]. rewrite Evs. cbn [bind]. eexists; split; [reflexivity|].
        cbn [fields_rel map option_map]. split; [|exact Rvs]. split; [reflexivity|exact Of].
  Qed.
  Lemma ppu_ok u : ppu_wfP u -> m_ppu S u = Ok (ref_ppu u).
  Proof.
    intros [W B]. unfold m_ppu, ref_ppu.
    pose proof (agree_lookup S HS "ProtocolParamUpdate" eq_refl) as L.
    let d := eval vm_compute in (lookup expected "ProtocolParamUpdate") in change (lookup expected "ProtocolParamUpdate") with d in L.
    match type of L with _ = Some (KMap ?fs) =>
      destruct (ppu_vals_ok ppu_keys u fs eq_refl eq_refl W B) as (vs & Evs & Rvs);
      rewrite Evs; cbn [bind]; rewrite (obj_map_entries S "ProtocolParamUpdate" fs vs _ ppu_keys L Rvs eq_refl) end.
    reflexivity.
  Qed.

  Definition gov_action_wf (g : gov_action) : Prop :=
    match g with
    | GParamChange p u _ => ogaid_wf p /\ ppu_wfP u
    | GHardFork p ma mi => ogaid_wf p /\ u64 ma /\ u64 mi
    | GTreasury wd _ => Forall (fun e => u64 (snd e)) wd
    | GNoConfidence p => ogaid_wf p
    | GUpdateCommittee p _ add q => ogaid_wf p /\ Forall (fun e => u64 (snd e)) add /\ frac_wf q
    | GNewConstitution p _ _ => ogaid_wf p
    | GInfo => True
    end.
  Lemma map_cintN {A} (f : A -> cbor) (g : A -> N) l : Forall (fun e => u64 (g e)) l ->
    map (fun e => (f e, cint (Z.of_N (g e)))) l = map (fun e => (f e, CU (g e))) l.
  Proof. induction 1 as [|e l He Hl IH]; cbn [map]; [reflexivity|]. now rewrite (cint_N _ He), IH. Qed.
  Lemma gov_action_ok t g : gov_action_wf g -> m_gov_action S t g = Ok (ref_gov_action t g).
  Proof.
    destruct g as [p u h|p ma mi|wd h|p|p rm add q|p an sc|]; cbn [gov_action_wf]; intros W; unfold m_gov_action, ref_gov_action.
    - destruct W as [Wp Wu]. rewrite (ogaid_ok p Wp), (ppu_ok u Wu). cbn [bind].
      destruct p, h; cls "ParameterChangeAction"; reflexivity.
    - destruct W as (Wp & A & B). rewrite (ogaid_ok p Wp). cbn [bind].
      destruct p; cls "HardForkInitiationAction"; ints; reflexivity.
    - erewrite dict_ok by (look "TreasuryWithdrawal"; reflexivity). cbn [bind].
      rewrite (map_cintN (fun e => CB (fst e)) snd wd W).
      destruct h; cls "TreasuryWithdrawalsAction"; reflexivity.
    - rewrite (ogaid_ok p W). cbn [bind]. destruct p; cls "NoConfidence"; reflexivity.
    - destruct W as (Wp & Wa & [Q1 Q2]). rewrite (ogaid_ok p Wp). cbn [bind].
      rewrite (mapM_map _ ref_cred) by (intros; apply ccred_ok). cbn [bind].
      rewrite (mapM_map _ (fun e => (ref_cred (fst e), cint (Z.of_N (snd e))))) by (intros [c n] _; cbn [fst snd]; now rewrite ccred_ok).
      cbn [bind]. erewrite dict_ok by (look "CommitteeColdCredentialEpochMap"; reflexivity). cbn [bind].
      rewrite (map_cintN (fun e => ref_cred (fst e)) snd add Wa).
      destruct p; cls "UpdateCommittee"; unfold rational; rewrite ?cint_N by assumption; reflexivity.
    - rewrite (ogaid_ok p W), anchor_ok. cbn [bind]. destruct p, sc; cls "NewConstitution"; reflexivity.
    - cls "InfoAction". reflexivity.
  Qed.
  Definition proposal_wf (p : proposal) : Prop := u64 (pr_deposit p) /\ gov_action_wf (pr_action p).
  Lemma proposal_ok t p : proposal_wf p -> m_proposal S t p = Ok (ref_proposal t p).
  Proof.
    intros [D G]. unfold m_proposal, ref_proposal. rewrite (gov_action_ok t _ G), anchor_ok. cbn [bind].
    cls "ProposalProcedure". ints. reflexivity.
  Qed.

  (* ---------------------------------------------------------------- body *)
  Lemma omap_ok {A B} (f : A -> res B) (g : A -> B) o : (forall x, o = Some x -> f x = Ok (g x)) -> omap f o = Ok (option_map g o).
  Proof. destruct o as [x|]; cbn [omap option_map]; intros H; [rewrite (H x eq_refl)|]; reflexivity. Qed.
  Lemma set_of_ok {A} t (f : A -> res cbor) (g : A -> cbor) l : (forall x, In x l -> f x = Ok (g x)) ->
    set_of t f l = Ok (VSet t (map VAny (map g l))).
  Proof. intros H. unfold set_of. now rewrite (mapM_map f g l H). Qed.
  Definition osetv (t : bool) (o : option (list cbor)) : pv := match o with Some ps => VSet t (map VAny ps) | None => VNone end.
  Lemma oset_of_ok {A} t (f : A -> res cbor) (g : A -> cbor) o : (forall l x, o = Some l -> In x l -> f x = Ok (g x)) ->
    oset_of t f o = Ok (osetv t (option_map (map g) o)).
  Proof. destruct o as [l|]; cbn [oset_of option_map osetv]; intros H; [apply set_of_ok; eauto|reflexivity]. Qed.
  Lemma rel_osetv n f t o : fopt f = true -> fv_rel S (Datatypes.S (Datatypes.S n)) f (osetv t o) (option_map (rset t) o).
  Proof. intros H. destruct o; cbn [osetv option_map fv_rel]; [split; [apply set_any|discriminate]|now split]. Qed.
  Definition olistv (o : option (list cbor)) : pv := match o with Some ps => VList (map VAny ps) | None => VNone end.
  Lemma rel_olistv n f o : fopt f = true -> fv_rel S (Datatypes.S (Datatypes.S n)) f (olistv o) (option_map CA o).
  Proof. intros H. destruct o; cbn [olistv option_map fv_rel]; [split; [apply list_any|discriminate]|now split]. Qed.
  Lemma option_map_map {A B C} (f : A -> B) (g : B -> C) o : option_map g (option_map f o) = option_map (fun x => g (f x)) o.
  Proof. destruct o; reflexivity. Qed.

  Definition onat_wf (o : option N) : Prop := forall x, o = Some x -> u64 x.
  Definition body_wf (b : body) : Prop :=
    Forall input_wf (b_inputs b) /\ Forall output_wfP (b_outputs b) /\ u64 (b_fee b) /\ onat_wf (b_ttl b)
    /\ (forall l, b_certs b = Some l -> Forall cert_wf l)
    /\ (forall l, b_withdrawals b = Some l -> Forall (fun e => u64 (snd e)) l)
    /\ onat_wf (b_validity_start b) /\ (forall m, b_mint b = Some m -> bundle_wf m)
    /\ (forall l, b_collateral b = Some l -> Forall input_wf l)
    /\ (forall n, b_network_id b = Some n -> (n < 2)%N)
    /\ (forall o, b_collateral_return b = Some o -> output_wfP o) /\ onat_wf (b_total_collateral b)
    /\ (forall l, b_reference_inputs b = Some l -> Forall input_wf l)
    /\ (forall v, b_votes b = Some v -> votes_wf v)
    /\ (forall l, b_proposals b = Some l -> Forall proposal_wf l)
    /\ onat_wf (b_treasury b) /\ onat_wf (b_donation b).

  Lemma body_ok t b : body_wf b -> m_body S E t b = Ok (ref_body t b).
  Proof.
    intros (Wi & Wo & Wf & Wttl & Wc & Ww & Wvs & Wm & Wcol & Wn & Wcr & Wtc & Wri & Wv & Wp & Wtr & Wd).
    unfold m_body.
    rewrite (set_of_ok t (m_input S) ref_input) by (intros x Hx; apply input_ok; rewrite Forall_forall in Wi; auto). cbn [bind].
    rewrite (mapM_map (m_output S) ref_output) by (intros x Hx; apply output_ok; rewrite Forall_forall in Wo; auto). cbn [bind].
    rewrite (omap_ok _ (map (ref_cert t)))
      by (intros l Hl; apply mapM_map; intros x Hx; apply cert_ok; specialize (Wc l Hl); rewrite Forall_forall in Wc; auto).
    cbn [bind].
    rewrite (omap_ok _ (fun l => CM (ksort (map (fun e => (CB (fst e), CU (snd e))) l))))
      by (intros l Hl; erewrite dict_ok by (look "Withdrawals"; reflexivity);
          now rewrite (map_cintN (fun e => CB (fst e)) snd l (Ww l Hl))).
    cbn [bind].
    rewrite (oset_of_ok t (m_input S) ref_input)
      by (intros l x Hl Hx; apply input_ok; specialize (Wcol l Hl); rewrite Forall_forall in Wcol; auto).
    cbn [bind].
    rewrite (omap_ok _ Z.of_N)
      by (intros n Hn; specialize (Wn n Hn); assert (C : (n = 0 \/ n = 1)%N) by lia;
          destruct C as [-> | ->]; cbn [network_name N.eqb Pos.eqb]; [enum "Network" "TESTNET"|enum "Network" "MAINNET"]; reflexivity).
    cbn [bind].
    rewrite (omap_ok (m_output S) ref_output) by (intros o Ho; apply output_ok; auto). cbn [bind].
    rewrite (oset_of_ok t (m_input S) ref_input)
      by (intros l x Hl Hx; apply input_ok; specialize (Wri l Hl); rewrite Forall_forall in Wri; auto).
    cbn [bind].
    rewrite (omap_ok (m_votes S E) ref_voting_procedures) by (intros v Hv; apply votes_ok; auto). cbn [bind].
    rewrite (oset_of_ok t (m_proposal S t) (ref_proposal t))
      by (intros l x Hl Hx; apply proposal_ok; specialize (Wp l Hl); rewrite Forall_forall in Wp; auto).
    cbn [bind].
    mapcls "TransactionBody" [0; 1; 2; 3; 4; 5; 6; 7; 8; 9; 11; 13; 14; 15; 16; 17; 18; 19; 20; 21; 22]%N
      [Some (rset t (map ref_input (b_inputs b))); Some (CA (map ref_output (b_outputs b))); Some (CU (b_fee b));
       option_map CU (b_ttl b); option_map (fun l => CA (map (ref_cert t) l)) (b_certs b);
       option_map (fun l => CM (ksort (map (fun e => (CB (fst e), CU (snd e))) l))) (b_withdrawals b);
       None; option_map CB (b_aux_hash b); option_map CU (b_validity_start b); option_map ref_multiasset (b_mint b);
       option_map CB (b_script_data_hash b); option_map (fun l => rset t (map ref_input l)) (b_collateral b);
       option_map (fun l => rset t (map CB l)) (b_required_signers b); option_map CU (b_network_id b);
       option_map ref_output (b_collateral_return b); option_map CU (b_total_collateral b);
       option_map (fun l => rset t (map ref_input l)) (b_reference_inputs b);
       option_map ref_voting_procedures (b_votes b);
       option_map (fun l => rset t (map (ref_proposal t) l)) (b_proposals b);
       option_map CU (b_treasury b); option_map CU (b_donation b)].
    - reflexivity.
    - split; [apply set_any|discriminate].
    - split; [apply list_any|discriminate].
    - split; [|discriminate]. rewrite tp_zN. now rewrite cint_N.
    - apply rel_oN; [reflexivity|exact Wttl].
    - destruct (b_certs b); cbn [option_map fv_rel]; [split; [apply list_any|discriminate]|now split].
    - now split.
    - apply rel_oN; [reflexivity|exact Wvs].
    - destruct (b_mint b) as [m|] eqn:Em; cbn [option_map oany fv_rel]; [|now split].
      split; [|discriminate]. rewrite tp_any. now rewrite (masset_prim_wf m (Wm m eq_refl)).
    - rewrite <- (option_map_map (map ref_input) (rset t)). apply rel_osetv. reflexivity.
    - destruct (b_required_signers b); cbn [option_map fv_rel]; [split; [apply set_cb|discriminate]|now split].
    - destruct (b_network_id b) as [n|] eqn:En; cbn [option_map fv_rel]; [|now split].
      split; [|discriminate]. rewrite tp_enum. rewrite cint_N; [reflexivity|]. specialize (Wn n eq_refl). unfold u64, two64. lia.
    - apply rel_oN; [reflexivity|exact Wtc].
    - rewrite <- (option_map_map (map ref_input) (rset t)). apply rel_osetv. reflexivity.
    - rewrite <- (option_map_map (map (ref_proposal t)) (rset t)). apply rel_osetv. reflexivity.
    - apply rel_oN; [reflexivity|exact Wtr].
    - apply rel_oN; [reflexivity|exact Wd].
  Qed.

  (* ---------------------------------------------------------------- witness set *)
  Definition redeemer_wf (r : redeemer) : Prop := (r_tag r < 6)%N /\ u64 (r_index r) /\ u64 (r_mem r) /\ u64 (r_steps r).
  Lemma tag_ok n : (n < 6)%N -> enum_val E "RedeemerTag" (tag_name n) = Ok (Z.of_N n).
  Proof.
    intros H. assert (C : (n = 0 \/ n = 1 \/ n = 2 \/ n = 3 \/ n = 4 \/ n = 5)%N) by lia.
    destruct C as [-> | [-> | [-> | [-> | [-> | ->]]]]]; cbn [tag_name N.eqb Pos.eqb];
      [enum "RedeemerTag" "SPEND" | enum "RedeemerTag" "MINT" | enum "RedeemerTag" "CERTIFICATE"
       | enum "RedeemerTag" "WITHDRAWAL" | enum "RedeemerTag" "VOTING" | enum "RedeemerTag" "PROPOSING"]; reflexivity.
  Qed.
  Lemma redeemers_ok m l : Forall redeemer_wf l -> m_redeemers S E m l = Ok (ref_redeemers m l).
  Proof.
    intros W. unfold m_redeemers, ref_redeemers. destruct m.
    - rewrite (mapM_map _ (fun r => (CA [CU (r_tag r); CU (r_index r)],
                                    CA [Plutus.plutus_ref (r_data r); CA [CU (r_mem r); CU (r_steps r)]]))).
      + cbn [bind]. eapply dict_ok. look "RedeemerMap". reflexivity.
      + intros r Hr. rewrite Forall_forall in W. destruct (W r Hr) as (T & I & M & St). rewrite (tag_ok _ T). cbn [bind].
        cls "RedeemerKey". cls "ExecutionUnits". cls "RedeemerValue". ints.
        rewrite (cint_N (r_tag r)) by (unfold u64, two64; lia). reflexivity.
    - rewrite (mapM_map _ (fun r => CA [CU (r_tag r); CU (r_index r); Plutus.plutus_ref (r_data r); CA [CU (r_mem r); CU (r_steps r)]])).
      + reflexivity.
      + intros r Hr. rewrite Forall_forall in W. destruct (W r Hr) as (T & I & M & St). rewrite (tag_ok _ T). cbn [bind].
        cls "ExecutionUnits". cls "Redeemer". ints. rewrite (cint_N (r_tag r)) by (unfold u64, two64; lia). reflexivity.
  Qed.
  Definition wits_wf (w : witness_set) : Prop :=
    (forall l, w_native w = Some l -> Forall ns_wf l) /\ (forall r, w_redeemers w = Some r -> Forall redeemer_wf (snd r)).
  Lemma rel_bytes_set n f t o : fopt f = true ->
    fv_rel S (Datatypes.S (Datatypes.S n)) f (bytes_set t o) (option_map (fun l => rset t (map CB l)) o).
  Proof. intros H. destruct o; cbn [bytes_set option_map fv_rel]; [split; [apply set_bytes|discriminate]|now split]. Qed.
  Lemma wits_ok t w : wits_wf w -> m_wits S E t w = Ok (ref_witness_set t w).
  Proof.
    intros [Wn Wr]. unfold m_wits.
    rewrite (oset_of_ok t _ (fun vs => CA [CB (fst vs); CB (snd vs)])) by (intros l [k s] _ _; cls "VerificationKeyWitness"; reflexivity).
    cbn [bind].
    rewrite (oset_of_ok t (m_nscript S) ref_nscript)
      by (intros l x Hl Hx; apply nscript_ok; specialize (Wn l Hl); rewrite Forall_forall in Wn; auto).
    cbn [bind].
    rewrite (omap_ok _ (fun r => ref_redeemers (fst r) (snd r))) by (intros r Hr; apply redeemers_ok; auto). cbn [bind].
    mapcls "TransactionWitnessSet" [0; 1; 2; 3; 4; 5; 6; 7]%N
      [option_map (fun l => rset t (map (fun vs => CA [CB (fst vs); CB (snd vs)]) l)) (w_vkeys w);
       option_map (fun l => rset t (map ref_nscript l)) (w_native w);
       option_map (fun l => CA (map (fun bw => match bw with (k, s, c, a) => CA [CB k; CB s; CB c; CB a] end) l)) (w_bootstrap w);
       option_map (fun l => rset t (map CB l)) (w_v1 w);
       option_map (fun l => CA (map Plutus.plutus_ref l)) (w_data w);
       option_map (fun r => ref_redeemers (fst r) (snd r)) (w_redeemers w);
       option_map (fun l => rset t (map CB l)) (w_v2 w); option_map (fun l => rset t (map CB l)) (w_v3 w)].
    - reflexivity.
    - rewrite <- (option_map_map (map (fun vs : bytes * bytes => CA [CB (fst vs); CB (snd vs)])) (rset t)). apply rel_osetv. reflexivity.
    - rewrite <- (option_map_map (map ref_nscript) (rset t)). apply rel_osetv. reflexivity.
    - destruct (w_bootstrap w) as [l|]; cbn [option_map fv_rel]; [|now split]. split; [|discriminate].
      rewrite to_prim_list.
      rewrite (mapM_leaf S 62 _ (fun bw => match bw with (k, s, c, a) => CA [CB k; CB s; CB c; CB a] end)); [reflexivity|].
      intros [[[k s] c] a] _. rewrite to_prim_list. cbn [mapM]. autorewrite with leaf. reflexivity.
    - apply rel_bytes_set. reflexivity.
    - destruct (w_data w) as [l|]; cbn [option_map fv_rel]; [|now split]. split; [|discriminate].
      rewrite to_prim_list. rewrite (mapM_leaf S 62 _ Plutus.plutus_ref); [reflexivity|]. intros d _. apply tp_any.
    - apply rel_bytes_set. reflexivity.
    - apply rel_bytes_set. reflexivity.
  Qed.

  (* ---------------------------------------------------------------- auxiliary data *)
  Fixpoint md_wf (m : metadatum) : Prop :=
    match m with
    | MInt z => in64 z
    | MList l => (fix all (l : list metadatum) : Prop := match l with [] => True | x :: r => md_wf x /\ all r end) l
    | MMap kvs => (fix all (l : list (metadatum * metadatum)) : Prop :=
                     match l with [] => True | kv :: r => (md_wf (fst kv) /\ md_wf (snd kv)) /\ all r end) kvs
    | _ => True
    end.
  Lemma metadatum_ok : forall m, md_wf m -> m_metadatum m = ref_metadatum m.
  Proof.
    fix IH 1. intros [z|b|b|l|kvs]; cbn [md_wf m_metadatum ref_metadatum]; intros W.
    - now apply cint_int.
    - reflexivity.
    - reflexivity.
    - f_equal. induction l as [|x r IHr]; cbn [map]; [reflexivity|]. destruct W as [Wx Wr]. now rewrite (IH x Wx), (IHr Wr).
    - f_equal. induction kvs as [|[k v] r IHr]; cbn [map fst snd]; [reflexivity|]. destruct W as [[Wk Wv] Wr]. cbn [fst snd] in *.
      now rewrite (IH k Wk), (IH v Wv), (IHr Wr).
  Qed.
  Definition metadata_wf (m : metadata) : Prop := Forall (fun e => u64 (fst e) /\ md_wf (snd e)) m.
  Lemma metadata_ok m : metadata_wf m -> m_metadata S m = Ok (ref_metadata m).
  Proof.
    intros W. unfold m_metadata, ref_metadata. erewrite dict_ok by (look "Metadata"; reflexivity). do 3 f_equal.
    induction W as [|[k v] l [Wk Wv] Wl IH]; cbn [map fst snd]; [reflexivity|]. cbn [fst snd] in *.
    now rewrite (cint_N k Wk), (metadatum_ok v Wv), IH.
  Qed.
  Definition aux_wf (a : aux_data) : Prop :=
    match a with
    | AuxShelley m => metadata_wf m
    | AuxShelleyMA m s => metadata_wf m /\ Forall ns_wf s
    | AuxAlonzo m n _ _ _ => (forall x, m = Some x -> metadata_wf x) /\ (forall l, n = Some l -> Forall ns_wf l)
    end.
  Lemma rel_blist n f o : fopt f = true ->
    fv_rel S (Datatypes.S (Datatypes.S n)) f (blist o) (option_map (fun l => CA (map CB l)) o).
  Proof. intros H. destruct o; cbn [blist option_map fv_rel]; [split; [apply list_bytes|discriminate]|now split]. Qed.
  Lemma aux_ok a : aux_wf a -> m_aux S a = Ok (ref_aux a).
  Proof.
    destruct a as [m|m s|m n v1 v2 v3]; cbn [aux_wf]; intros W; unfold m_aux, ref_aux.
    - now apply metadata_ok.
    - destruct W as [Wm Ws]. rewrite (metadata_ok m Wm). cbn [bind].
      rewrite (mapM_map (m_nscript S) ref_nscript) by (intros x Hx; apply nscript_ok; rewrite Forall_forall in Ws; auto). cbn [bind].
      cls "ShelleyMarryMetadata". reflexivity.
    - destruct W as [Wm Wn].
      rewrite (omap_ok (m_metadata S) ref_metadata) by (intros x Hx; apply metadata_ok; auto). cbn [bind].
      rewrite (omap_ok _ (map ref_nscript))
        by (intros l Hl; apply mapM_map; intros x Hx; apply nscript_ok; specialize (Wn l Hl); rewrite Forall_forall in Wn; auto).
      cbn [bind].
      mapcls "AlonzoMetadata!super" [0; 1; 2; 3; 4]%N
        [option_map ref_metadata m; option_map (fun l => CA (map ref_nscript l)) n; option_map (fun l => CA (map CB l)) v1;
         option_map (fun l => CA (map CB l)) v2; option_map (fun l => CA (map CB l)) v3].
      + reflexivity.
      + destruct n; cbn [option_map fv_rel]; [split; [apply list_any|discriminate]|now split].
      + apply rel_blist. reflexivity.
      + apply rel_blist. reflexivity.
      + apply rel_blist. reflexivity.
  Qed.

  (* ---------------------------------------------------------------- transaction *)
  Definition tx_wf (t : tx) : Prop :=
    body_wf (t_body t) /\ wits_wf (t_wits t) /\ match t_aux t with Some a => aux_wf a | None => True end.
  Theorem tx_ok t : tx_wf t -> m_tx S E t = Ok (ref_tx t).
  Proof.
    intros (Wb & Ww & Wa). unfold m_tx, ref_tx. rewrite (body_ok _ _ Wb), (wits_ok _ _ Ww). cbn [bind].
    rewrite (omap_ok (m_aux S) ref_aux) by (intros a Ha; rewrite Ha in Wa; now apply aux_ok). cbn [bind].
    destruct (t_aux t), (t_valid t); cls "Transaction"; reflexivity.
  Qed.
  Corollary tx_bytes_ok t : tx_wf t -> m_tx_bytes S E t = Ok (ref_tx_bytes t).
  Proof. intros W. unfold m_tx_bytes. now rewrite (tx_ok t W). Qed.
End Classes.
