(* InputsOracle.v — C09: decision procedure evaluated on the IMPLEMENTATION's outputs, and the glue that
   replays a recorded run of the real TransactionBuilder in the model Inputs.v.

   A case is a history of registration calls and build() calls.  UTxOs are written as indices into the
   case's table.  For every build() the driver reports: the builder's own lists just before the call,
   what every selector call received and returned (selectors wrapped from outside), the outcome
   (body inputs in order + builder.inputs afterwards, or the exception kind), and the result of the
   byte/field snapshot comparison of all caller objects. *)
From Coq Require Import NArith Ascii String List Bool Lia Permutation Sorted.
From PyC Require Import Base Inputs InputsProofs KeyedSet InputsKeyed.
Import ListNotations.
Open Scope N_scope.

(* ---------- raw cases ---------- *)
Inductive rop := RIn (u : nat) | RSIn (u : nat) | RPot (u : nat) | RExc (u : nat) | RSetExc (l : list nat) | RAddr (a : N).
Inductive rres := RSelOk (l : list nat) | RSelFail | RSelCrash.
(* exception kinds: 0 TransactionBuilderException, 1 UTxOSelectionException (exactly that class),
   2 the non-selection exception raised by a selector, 3 anything else (raised after the write-back) *)
Inductive rout := ROk (after : list nat) (body : list ref) | RErr (kind : N) (after : list nat).
Record rbuild := mkRB {
  rb_exp : list nat; rb_pot : list nat; rb_exc : list nat; rb_addrs : list N;
  rb_nsel : nat;
  rb_calls : list (list nat * rres);
  rb_out : rout;
  rb_snap : bool }.
(* RCtx c : from here on the chain context answers c (address id -> UTxO indices) *)
Inductive ritem := ROp (o : rop) | RBuild (b : rbuild) | RCtx (c : list (N * list nat)).
(* rc_keys: per row of the table, the key under which OrderedSet files the row's reference (64 bits of a digest of
   str(TransactionInput), computed by the implementation) *)
Record rcase := mkRC { rc_utxos : list utxo; rc_ctx : list (N * list nat); rc_items : list ritem; rc_keys : list N }.

(* an index outside the table (an object the driver does not know) resolves to a UTxO equal to nothing else *)
Definition res (tbl : list utxo) (i : nat) : utxo :=
  match nth_error tbl i with Some u => u | None => mkU [] (N.of_nat i) 4294967296 end.
Definition resl (tbl : list utxo) (l : list nat) : list utxo := map (res tbl) l.

Definition res_op (tbl : list utxo) (o : rop) : bop :=
  match o with
  | RIn u => AddInput (res tbl u)
  | RSIn u => AddScriptInput (res tbl u)
  | RPot u => AddPotential (res tbl u)
  | RExc u => AddExcluded (res tbl u)
  | RSetExc l => SetExcluded (resl tbl l)
  | RAddr a => AddAddress a
  end.
Definition res_res (tbl : list utxo) (r : rres) : sel_result :=
  match r with RSelOk l => SelOk (resl tbl l) | RSelFail => SelFail | RSelCrash => SelCrash end.
Definition res_ctx (tbl : list utxo) (c : list (N * list nat)) : ctx := map (fun p => (fst p, resl tbl (snd p))) c.

(* ---------- list equality ---------- *)
Fixpoint list_eqb {A} (eqb : A -> A -> bool) (a b : list A) : bool :=
  match a, b with
  | [], [] => true
  | x :: a', y :: b' => eqb x y && list_eqb eqb a' b'
  | _, _ => false
  end.
Definition lu_eqb := list_eqb utxo_eqb.
Definition lr_eqb := list_eqb ref_eqb.
Definition ln_eqb := list_eqb N.eqb.

(* ---------- selectors rebuilt from the recorded calls ---------- *)
Definition table_sel (call : list utxo * sel_result) : selector :=
  fun pool => if lu_eqb pool (fst call) then snd call else SelCrash.
Definition uncalled : selector := fun _ => SelCrash.
Definition sels_of (nsel : nat) (calls : list (list utxo * sel_result)) : list selector :=
  map table_sel calls ++ repeat uncalled (nsel - length calls).

(* the recorded calls have the shape of a fallback chain: every call but the last failed with a
   selection exception; when the last one failed too, every configured selector was called *)
Fixpoint calls_shape (nsel : nat) (calls : list (list nat * rres)) : bool :=
  match calls with
  | [] => true
  | [(_, r)] => match r with RSelFail => Nat.eqb nsel 1 | _ => Nat.leb 1 nsel end
  | (_, r) :: rest => match r with RSelFail => calls_shape (nsel - 1) rest | _ => false end
  end.

(* run-time check of the theorems' hypothesis on selectors: the result is a sub-multiset of the pool *)
Fixpoint remove1 (u : utxo) (l : list utxo) : option (list utxo) :=
  match l with
  | [] => None
  | x :: r => if utxo_eqb u x then Some r else option_map (cons x) (remove1 u r)
  end.
Fixpoint submultib (r pool : list utxo) : bool :=
  match r with
  | [] => true
  | u :: r' => match remove1 u pool with Some p' => submultib r' p' | None => false end
  end.
Definition call_sound (call : list utxo * sel_result) : bool :=
  match snd call with SelOk r => submultib r (fst call) | _ => true end.

(* ---------- correspondence: model = implementation ---------- *)
Definition state_same (tbl : list utxo) (st : bstate) (b : rbuild) : bool :=
  lu_eqb (explicit st) (resl tbl (rb_exp b)) && lu_eqb (potential st) (resl tbl (rb_pot b))
  && lu_eqb (excluded st) (resl tbl (rb_exc b)) && ln_eqb (addrs st) (rb_addrs b).

Definition model_build (c : ctx) (tbl : list utxo) (st : bstate) (b : rbuild) : bres :=
  let calls := map (fun p => (resl tbl (fst p), res_res tbl (snd p))) (rb_calls b) in
  build c (sels_of (rb_nsel b) calls) (negb (Nat.eqb (length calls) 0)) st.

Definition out_same (tbl : list utxo) (st : bstate) (m : bres) (o : rout) : bool :=
  match m, o with
  | BOk sel, ROk after body => lu_eqb sel (resl tbl after) && lr_eqb (body_inputs sel) body
  | BOk sel, RErr k after => (k =? 3) && lu_eqb sel (resl tbl after)
  | BErr EConflict, RErr k after => (k =? 0) && lu_eqb (explicit st) (resl tbl after)
  | BErr ESelection, RErr k after => (k =? 1) && lu_eqb (explicit st) (resl tbl after)
  | BErr ECrash, RErr k after => (k =? 2) && lu_eqb (explicit st) (resl tbl after)
  | _, _ => false
  end.

Definition corr_build (c : ctx) (tbl : list utxo) (st : bstate) (b : rbuild) : bool :=
  state_same tbl st b
  && calls_shape (rb_nsel b) (rb_calls b)
  && forallb (fun p => call_sound (resl tbl (fst p), res_res tbl (snd p))) (rb_calls b)
  && out_same tbl st (model_build c tbl st b) (rb_out b).

Fixpoint corr_items (c : ctx) (tbl : list utxo) (st : bstate) (its : list ritem) : bool :=
  match its with
  | [] => true
  | ROp o :: r => corr_items c tbl (bstep st (res_op tbl o)) r
  | RBuild b :: r =>
      corr_build c tbl st b && corr_items c tbl (state_after st (model_build c tbl st b)) r
  | RCtx c' :: r => corr_items (res_ctx tbl c') tbl st r
  end.

Definition c09_corr (k : rcase) : bool :=
  corr_items (res_ctx (rc_utxos k) (rc_ctx k)) (rc_utxos k) empty_state (rc_items k).

(* ---------- the property, decided on the implementation's outputs ---------- *)
Fixpoint nodup_refb (l : list ref) : bool :=
  match l with [] => true | r :: t => negb (memr r t) && nodup_refb t end.
Fixpoint nodup_utxob (l : list utxo) : bool :=
  match l with [] => true | u :: t => negb (mem u t) && nodup_utxob t end.
Fixpoint ascendingb (l : list ref) : bool :=
  match l with
  | a :: ((b :: _) as t) => ref_ltb a b && ascendingb t
  | _ => true
  end.
Definition ref_coherentb (l : list utxo) : bool :=
  forallb (fun u => forallb (fun v => implb (ref_eqb (ref_of u) (ref_of v)) (utxo_eqb u v)) l) l.

Definition oracle_build (c : ctx) (tbl : list utxo) (b : rbuild) : bool :=
  let st := mkB (resl tbl (rb_exp b)) (resl tbl (rb_pot b)) (resl tbl (rb_exc b)) (rb_addrs b) in
  let perm := permitted c st in
  rb_snap b &&                                                          (* caller's objects unmodified (monitor) *)
  match rb_out b with
  | ROk after body =>
      let sel := resl tbl after in
      negb (conflict st)                                                (* a conflict must be refused *)
      && nodup_refb body && nodup_utxob sel                             (* distinct, each at most once *)
      && forallb (fun r => existsb (fun u => ref_eqb (ref_of u) r) perm) body   (* only permitted UTxOs *)
      && forallb (fun u => mem u perm) sel
      && forallb (fun r => existsb (fun u => ref_eqb (ref_of u) r) sel) body    (* body = the builder's inputs *)
      && forallb (fun u => memr (ref_of u) body) (explicit st)          (* every explicit input present *)
      && forallb (fun u => negb (mem u sel)) (excluded st)              (* no excluded UTxO used *)
      && (negb (ref_coherentb (perm ++ excluded st))
          || forallb (fun u => negb (memr (ref_of u) body)) (excluded st))
      && ascendingb body                                                (* canonical order, strictly *)
  | RErr k _ => implb (conflict st) (k =? 0)                            (* refusal is the builder exception *)
  end.

(* every build is judged against the context in force when it ran *)
Fixpoint oracle_items (c : ctx) (tbl : list utxo) (its : list ritem) : bool :=
  match its with
  | [] => true
  | ROp _ :: r => oracle_items c tbl r
  | RBuild b :: r => oracle_build c tbl b && oracle_items c tbl r
  | RCtx c' :: r => oracle_items (res_ctx tbl c') tbl r
  end.
(* the hypothesis of InputsKeyed.body_inputs_keyed_table, on the implementation's keys: distinct references of the case are
   filed under distinct keys, equal references under one key *)
Definition key_table (k : rcase) : list (ref * N) := combine (map ref_of (rc_utxos k)) (rc_keys k).
Definition keys_ok (k : rcase) : bool :=
  Nat.eqb (length (rc_utxos k)) (length (rc_keys k)) && keys_injectiveb (key_table k).
Definition c09_oracle (k : rcase) : bool :=
  let tbl := rc_utxos k in
  keys_ok k && oracle_items (res_ctx tbl (rc_ctx k)) tbl (rc_items k).

(* ---------- the run-time checks mean what the theorems assume ---------- *)
Lemma remove1_perm u l : forall l', remove1 u l = Some l' -> Permutation l (u :: l').
Proof.
  induction l as [|x r IH]; intros l'; cbn [remove1]; [discriminate|].
  destruct (utxo_eqb u x) eqn:E.
  - intros H. inversion H; subst. apply utxo_eqb_eq in E. subst. apply Permutation_refl.
  - destruct (remove1 u r) as [p|] eqn:R; cbn [option_map]; [|discriminate].
    intros H. inversion H; subst. eapply Permutation_trans; [apply perm_skip, IH; reflexivity | apply perm_swap].
Qed.

Lemma submultib_sound r : forall pool, submultib r pool = true -> exists rest, Permutation pool (r ++ rest).
Proof.
  induction r as [|u r IH]; intros pool; cbn [submultib].
  - intros _. exists pool. apply Permutation_refl.
  - destruct (remove1 u pool) as [p|] eqn:R; [|discriminate]. intros H.
    destruct (IH _ H) as [rest P]. exists rest. cbn [app].
    eapply Permutation_trans; [apply remove1_perm; exact R | now apply perm_skip].
Qed.

Lemma table_sel_sound call : call_sound call = true -> sel_sound (table_sel call).
Proof.
  intros H pool r. unfold table_sel. destruct (lu_eqb pool (fst call)) eqn:E; [|discriminate].
  intros S. unfold call_sound in H. rewrite S in H.
  assert (P : pool = fst call).
  { clear -E. revert E. generalize (fst call). induction pool as [|x p IH]; intros [|y q]; cbn; try discriminate; auto.
    intros H. apply andb_true_iff in H as [H1 H2]. apply utxo_eqb_eq in H1. subst. f_equal. now apply IH. }
  subst. now apply submultib_sound.
Qed.

Lemma uncalled_sound : sel_sound uncalled.
Proof. intros pool r. unfold uncalled. discriminate. Qed.

Lemma sels_of_sound nsel calls : forallb call_sound calls = true -> Forall sel_sound (sels_of nsel calls).
Proof.
  intros H. unfold sels_of. apply Forall_app. split.
  - rewrite forallb_forall in H. apply Forall_forall. intros s Hs. apply in_map_iff in Hs.
    destruct Hs as [call [<- Hc]]. apply table_sel_sound. now apply H.
  - apply Forall_forall. intros s Hs. apply repeat_spec in Hs. subst. apply uncalled_sound.
Qed.

Lemma ascendingb_sound l : ascendingb l = true -> StronglySorted ref_lt l.
Proof.
  intros H. apply Sorted_StronglySorted.
  - intros a b c' H1 H2. apply ref_ltb_spec. apply ref_ltb_spec in H1, H2. eapply ref_ltb_trans; eauto.
  - induction l as [|a [|b t] IH]; [constructor | repeat constructor|].
    cbn [ascendingb] in H. apply andb_true_iff in H as [H1 H2]. constructor; [now apply IH|].
    constructor. now apply ref_ltb_spec.
Qed.
