(* Cip8.v — model of pycardano/cip/cip8.py (sign, verify) together with the parts of the `cose`
   package (0.9.dev8) and of cbor2 that decide what verify reports:

     CoseMessage.decode / CoseBase.from_cose_obj / _parse_header      -> cose_decode, load_hdr, parse_hdr
     CoseBase.phdr_encoded (re-serialisation of the PARSED header)    -> reenc_hdr
     Sign1Message._sig_structure (RFC 8152 4.4)                       -> sig_structure
     CoseKey.decode / OKPKey.from_dict / CoseKey.verify               -> cosekey_decode, key_check
     SignCommon.verify_signature / EdDSA.verify, the >32-byte branch  -> sig_step
     Address.from_primitive, PointerAddress.decode                    -> parse_addr
     cip8.verify (clause by clause)                                   -> cip8_pre, cip8_post, cip8_verify
     cip8.sign                                                        -> cip8_sign

   Ed25519, BLAKE2b-224 and Bech32 are Section variables.  Model only; proofs are in Cip8Proofs.v.

   Outside the model (the model answers `Err EUnmodelled`, which the theorems treat as "no success"):
   CBOR items that Cbor.v's AST cannot represent (floats, simple values other than false/true/null/
   undefined, indefinite text strings and maps other than a top-level indefinite header map), tags,
   nested maps inside header values, non-ASCII text keys (Python's str.upper), header attributes
   -1/-2 (embedded COSE keys), COSE keys whose labels are not integers or whose kty is not OKP. *)
From Coq Require Import NArith ZArith Ascii String List Bool Lia.
From Coq Require Import Init.Byte.
From PyC Require Import Base Cbor.
Import ListNotations.
Open Scope N_scope.

(* ------------------------------------------------------------------ results *)
Inductive err :=
| EKeyError | EAttributeError | ETypeError | EValueError | EIndexError | EAssertionError
| ECoseException | ECoseIllegalAlgorithm | ECoseIllegalKeyOps | ECoseIllegalKeyType
| ECoseInvalidKey | ECoseUnsupportedCurve
| EDeserializeException | EDecodingException | EUnicodeDecodeError | EBadSignatureError
| EUnmodelled.

Inductive res (A : Type) := Ok (a : A) | Err (e : err).
Arguments Ok {A} a.
Arguments Err {A} e.

Definition bind {A B} (r : res A) (f : A -> res B) : res B :=
  match r with Ok a => f a | Err e => Err e end.

(* ------------------------------------------------------------------ text helpers *)
Definition sb (s : string) : bytes := map (fun a => n2b (N_of_ascii a)) (list_ascii_of_string s).

(* Python's strict UTF-8 decoder as a DFA.  State (k, lo, hi): k continuation bytes are still
   expected and the next one must lie in [lo, hi]. *)
Definition utf8_step (st : option (N * N * N)) (b : byte) : option (N * N * N) :=
  match st with
  | None => None
  | Some (k, lo, hi) =>
      let n := b2n b in
      if k =? 0 then
        if n <? 128 then Some (0, 128, 191)
        else if (194 <=? n) && (n <=? 223) then Some (1, 128, 191)
        else if n =? 224 then Some (2, 160, 191)
        else if n =? 237 then Some (2, 128, 159)
        else if (225 <=? n) && (n <=? 239) then Some (2, 128, 191)
        else if n =? 240 then Some (3, 144, 191)
        else if (241 <=? n) && (n <=? 243) then Some (3, 128, 191)
        else if n =? 244 then Some (3, 128, 143)
        else None
      else if (lo <=? n) && (n <=? hi) then Some (k - 1, 128, 191) else None
  end.
Definition utf8_valid (bs : bytes) : bool :=
  match fold_left utf8_step bs (Some (0, 128, 191)) with
  | Some (0, _, _) => true
  | _ => false
  end.

Definition is_ascii (bs : bytes) : bool := forallb (fun b => b2n b <? 128) bs.
Definition upper_b (b : byte) : byte :=
  let n := b2n b in if (97 <=? n) && (n <=? 122) then n2b (n - 32) else b.
Definition upper (bs : bytes) : bytes := map upper_b bs.

(* ------------------------------------------------------------------ integers in CBOR *)
Definition int_of (c : cbor) : option Z :=
  match c with
  | CU n => Some (Z.of_N n)
  | CN n => Some (- 1 - Z.of_N n)%Z
  | _ => None
  end.
Definition cbor_of_int (z : Z) : cbor :=
  if (0 <=? z)%Z then CU (Z.to_N z) else CN (Z.to_N (- 1 - z)).
Definition zmem (z : Z) (l : list Z) : bool := existsb (Z.eqb z) l.

(* ------------------------------------------------------------------ registries of cose 0.9.dev8 *)
Definition hdr_ids : list Z :=
  [0; 1; 2; 3; 4; 5; 6; 7; 9; 10; 32; 33; 34; 35; -1; -2; -3; -20; -21; -22; -23; -24; -25; -26]%Z.
Definition nm (s : string) (z : Z) : string * Z := (s, z).
Definition hdr_names : list (string * Z) :=
  [nm "RESERVED" (0); nm "ALG" (1); nm "CRITICAL" (2); nm "CONTENT_TYPE" (3); nm "KID" (4); nm "IV" (5);
   nm "PARTIAL_IV" (6); nm "COUNTER_SIGN" (7); nm "COUNTER_SIGN0" (9); nm "KID_CONTEXT" (10);
   nm "X5_BAG" (32); nm "X5_CHAIN" (33); nm "X5_T" (34); nm "X5_U" (35);
   nm "EPHEMERAL_KEY" (-1); nm "STATIC_KEY" (-2); nm "STATIC_KEY_ID" (-3); nm "SALT" (-20);
   nm "PARTY_U_ID" (-21); nm "PARTY_U_NONCE" (-22); nm "PARTY_U_OTHER" (-23);
   nm "PARTY_V_ID" (-24); nm "PARTY_V_NONCE" (-25); nm "PARTY_V_OTHER" (-26)].
Definition alg_ids : list Z :=
  [-65535; -259; -258; -257; -45; -44; -43; -42; -41; -40; -39; -38; -37; -36; -35; -34; -33; -32;
   -31; -30; -29; -28; -27; -26; -25; -18; -17; -16; -15; -14; -13; -12; -11; -10; -8; -7; -6; -5;
   -4; -3; 1; 2; 3; 4; 5; 6; 7; 10; 11; 12; 13; 14; 15; 25; 26; 30; 31; 32; 33]%Z.
Definition EDDSA : Z := (-8)%Z.

Fixpoint name_id (tbl : list (string * Z)) (u : bytes) : option Z :=
  match tbl with
  | [] => None
  | (s, z) :: r => if bytes_eqb (sb s) u then Some z else name_id r u
  end.

(* ------------------------------------------------------------------ what cbor2.loads returns *)
(* norm x: the Python value cbor2 builds for the item x, written again as the item cbor2.dumps
   emits for that value (definite lengths).  NBad: cbor2 raises CBORDecodeValueError (a ValueError).
   NUnm: outside the model. *)
Inductive nres := NOk (c : cbor) | NBad | NUnm.

Fixpoint seq_n (rs : list nres) : nres :=          (* any NUnm wins, then any NBad *)
  match rs with
  | [] => NOk (CA [])
  | r :: rest =>
      match r, seq_n rest with
      | NUnm, _ | _, NUnm => NUnm
      | NBad, _ | _, NBad => NBad
      | NOk c, NOk (CA cs) => NOk (CA (c :: cs))
      | NOk _, NOk _ => NUnm
      end
  end.

Fixpoint norm (x : cbor) : nres :=
  match x with
  | CU _ | CN _ | CB _ => NOk x
  | CBi cs => NOk (CB (concat cs))
  | CT b => if utf8_valid b then NOk x else NBad
  | CA xs => seq_n (map norm xs)
  | CS v => NOk x
  | CAi _ | CM _ | CTag _ _ => NUnm
  end.

Definition norm_pair (kv : cbor * cbor) : nres :=    (* result packed as CA [k; v] *)
  seq_n [norm (fst kv); norm (snd kv)].
Fixpoint norm_pairs (kvs : list (cbor * cbor)) : option (option (list (cbor * cbor))) :=
  (* None = unmodelled, Some None = ValueError, Some (Some l) *)
  match kvs with
  | [] => Some (Some [])
  | kv :: r =>
      match norm_pair kv, norm_pairs r with
      | NUnm, _ | _, None => None
      | NBad, _ | _, Some None => Some None
      | NOk (CA [k; v]), Some (Some l) => Some (Some ((k, v) :: l))
      | NOk _, _ => None
      end
  end.

(* ------------------------------------------------------------------ header buckets *)
Inductive hkey := HA (id : Z) | HR (c : cbor).      (* registered attribute class / raw key *)
Definition hdr := list (hkey * cbor).

(* equality of raw keys as Python dict keys, on the modelled key subset (int, str, bytes) *)
Definition rawkey_eqb (a b : cbor) : bool :=
  match a, b with
  | CU x, CU y | CN x, CN y => x =? y
  | CT x, CT y | CB x, CB y => bytes_eqb x y
  | _, _ => false
  end.
Definition hkey_eqb (a b : hkey) : bool :=
  match a, b with
  | HA x, HA y => (x =? y)%Z
  | HR x, HR y => rawkey_eqb x y
  | _, _ => false
  end.
Definition key_modelled (k : cbor) : bool :=
  match k with CU _ | CN _ | CT _ | CB _ => true | _ => false end.

(* d[k] = v on an insertion-ordered dict *)
Fixpoint upd {K V} (eqb : K -> K -> bool) (k : K) (v : V) (l : list (K * V)) : list (K * V) :=
  match l with
  | [] => [(k, v)]
  | (k', v') :: r => if eqb k k' then (k', v) :: r else (k', v') :: upd eqb k v r
  end.
Fixpoint lookup {K V} (eqb : K -> K -> bool) (k : K) (l : list (K * V)) : option V :=
  match l with
  | [] => None
  | (k', v) :: r => if eqb k k' then Some v else lookup eqb k r
  end.
Definition dict_of {K V} (eqb : K -> K -> bool) (kvs : list (K * V)) : list (K * V) :=
  fold_left (fun acc kv => upd eqb (fst kv) (snd kv) acc) kvs [].

(* CoseHeaderAttribute.from_id(k, allow_unknown_attributes=True) *)
Definition hdr_key (k : cbor) : option hkey :=
  match k with
  | CU _ | CN _ =>
      match int_of k with
      | Some z => Some (if zmem z hdr_ids then HA z else HR k)
      | None => None
      end
  | CT b =>
      if is_ascii b then
        match name_id hdr_names (upper b) with Some z => Some (HA z) | None => Some (HR k) end
      else None
  | CB _ => Some (HR k)
  | _ => None
  end.

(* attr.value_parser(v) *)
Inductive vres := VOk (c : cbor) | VValueError | VErr (e : err).
Definition is_intc (c : cbor) : bool := match c with CU _ | CN _ => true | _ => false end.
Definition has_simple (c : cbor) : bool :=
  match c with CS _ => true | CA xs => existsb (fun y => match y with CS _ => true | _ => false end) xs | _ => false end.

Definition hdr_value (id : Z) (v : cbor) : vres :=
  if (id =? 1)%Z then                                         (* Algorithm: CoseAlgorithm.from_id *)
    match v with
    | CU _ | CN _ =>
        match int_of v with
        | Some z => if zmem z alg_ids then VOk v else VErr ECoseException
        | None => VErr EUnmodelled
        end
    | CT b => if is_ascii b && bytes_eqb (upper b) (sb "EDDSA") then VOk (cbor_of_int EDDSA) else VErr EUnmodelled
    | CB _ => VErr ECoseException
    | _ => VErr EUnmodelled
    end
  else if (id =? 2)%Z then                                    (* Critical: crit_is_array *)
    if has_simple v then VErr EUnmodelled else
    match v with
    | CA (y :: r) => if forallb is_intc (y :: r) then VOk v else VValueError
    | _ => VValueError
    end
  else if (id =? 3)%Z then                                    (* ContentType *)
    match v with
    | CU _ | CT _ => VOk v
    | CS _ => VErr EUnmodelled
    | _ => VValueError
    end
  else if zmem id [4; 5; 6; 9; 10]%Z then                     (* is_bstr *)
    match v with CB _ => VOk v | _ => VValueError end
  else if zmem id [-1; -2]%Z then VErr EUnmodelled            (* CoseKey.from_dict *)
  else VOk v.

Inductive hres := HOk (h : hdr) | HEmpty | HErr (e : err).   (* HEmpty: ValueError/EOFError caught -> {} *)

Fixpoint parse_hdr (kvs : list (cbor * cbor)) (acc : hdr) : hres :=
  match kvs with
  | [] => HOk acc
  | (k, v) :: r =>
      match hdr_key k with
      | None => HErr EUnmodelled
      | Some (HA id) =>
          match hdr_value id v with
          | VOk v' => parse_hdr r (upd hkey_eqb (HA id) v' acc)
          | VValueError => HEmpty
          | VErr e => HErr e
          end
      | Some (HR c) => parse_hdr r (upd hkey_eqb (HR c) v acc)
      end
  end.

(* cls._parse_header(<dict built by cbor2 from these pairs>) *)
Definition parse_map (kvs : list (cbor * cbor)) : hres :=
  match norm_pairs kvs with
  | None => HErr EUnmodelled
  | Some None => HEmpty
  | Some (Some l) =>
      if forallb (fun kv => key_modelled (fst kv)) l
      then parse_hdr (dict_of rawkey_eqb l) []
      else HErr EUnmodelled
  end.

Definition fuel (bs : bytes) : nat := (length bs + 16)%nat.

Fixpoint pair_up (xs : list cbor) : option (list (cbor * cbor)) :=
  match xs with
  | [] => Some []
  | k :: v :: r => match pair_up r with Some l => Some ((k, v) :: l) | None => None end
  | _ => None
  end.

(* try: _parse_header(cbor2.loads(protected bstr)) except (ValueError, EOFError): {} *)
Definition load_hdr (pb : bytes) : hres :=
  match pb with
  | [] => HEmpty
  | h :: r =>
      if b2n h =? 191 then                                    (* 0xbf: indefinite-length map *)
        match dec_break (dec (fuel pb)) (fuel pb) r with
        | Some (xs, _) => match pair_up xs with Some kvs => parse_map kvs | None => HErr EUnmodelled end
        | None => HErr EUnmodelled
        end
      else
        match dec (fuel pb) pb with
        | None => HErr EUnmodelled
        | Some (x, _) =>                                      (* trailing bytes are ignored by cbor2.loads *)
            match x with
            | CM kvs => parse_map kvs
            | CAi _ | CTag _ _ => HErr EUnmodelled
            | _ => match norm x with
                   | NOk _ => HErr EAttributeError            (* hdr.items() *)
                   | NBad => HEmpty
                   | NUnm => HErr EUnmodelled
                   end
            end
        end
  end.

(* CoseBase.phdr_encoded: cbor2.dumps of the PARSED header, attribute classes written as their ids *)
Definition hkey_cbor (k : hkey) : cbor := match k with HA z => cbor_of_int z | HR c => c end.
Definition hdr_map (h : hdr) : list (cbor * cbor) := map (fun kv => (hkey_cbor (fst kv), snd kv)) h.
Definition reenc_hdr (h : hdr) : bytes :=
  match h with [] => [] | _ => enc (CM (hdr_map h)) end.

(* ------------------------------------------------------------------ CoseMessage.decode *)
Record cose := { c_prot : bytes;        (* protected header bstr content AS RECEIVED *)
                 c_phdr : hdr; c_uhdr : hdr;
                 c_payload : bytes;
                 c_sig : cbor }.         (* Sign1Message.from_cose_obj does not check its type *)

Definition norm_item (idx : nat) (x : cbor) : nres :=
  match idx, x with
  | 1%nat, CM kvs => match norm_pairs kvs with
                     | None => NUnm | Some None => NBad | Some (Some l) => NOk (CM l) end
  | _, _ => norm x
  end.
Fixpoint norm_items (idx : nat) (xs : list cbor) : option (option (list cbor)) :=
  match xs with
  | [] => Some (Some [])
  | x :: r =>
      match norm_item idx x, norm_items (S idx) r with
      | NUnm, _ | _, None => None
      | NBad, _ | _, Some None => Some None
      | NOk c, Some (Some l) => Some (Some (c :: l))
      end
  end.

Definition cose_decode (sm : bytes) : res cose :=
  match dec (fuel sm) sm with
  | None => Err EUnmodelled
  | Some (x, _) =>
      match x with
      | CA items =>
          match norm_items 0 items with
          | None => Err EUnmodelled
          | Some None => Err EValueError                       (* "Decode accepts only bytes as input." *)
          | Some (Some its) =>
              match its with
              | [] => Err EIndexError
              | p :: r1 =>
                  match p with
                  | CB prot =>
                      match load_hdr prot with
                      | HErr e => Err e
                      | hp =>
                          let ph := match hp with HOk h => h | _ => [] end in
                          match r1 with
                          | [] => Err EIndexError
                          | u :: r2 =>
                              match (match u with
                                     | CM kvs => if forallb (fun kv => key_modelled (fst kv)) kvs
                                                 then parse_hdr (dict_of rawkey_eqb kvs) []
                                                 else HErr EUnmodelled
                                     | _ => HErr EAttributeError
                                     end) with
                              | HErr e => Err e
                              | hu =>
                                  let uh := match hu with HOk h => h | _ => [] end in
                                  match r2 with
                                  | [] => Err EIndexError
                                  | CB payload :: r3 =>
                                      match r3 with
                                      | [] => Err EIndexError
                                      | sg :: _ => Ok {| c_prot := prot; c_phdr := ph; c_uhdr := uh;
                                                         c_payload := payload; c_sig := sg |}
                                      end
                                  | _ :: _ => Err ETypeError
                                  end
                              end
                          end
                      end
                  | CS _ => Err EUnmodelled
                  | _ => Err ETypeError                        (* cbor2.loads(<not bytes>) *)
                  end
              end
          end
      | CAi _ | CM _ | CTag _ _ => Err EUnmodelled
      | _ => match norm x with
             | NOk _ => Err ETypeError                         (* "Bytes cannot be decoded as COSE message" *)
             | NBad => Err EValueError
             | NUnm => Err EUnmodelled
             end
      end
  end.

(* RFC 8152 4.4: Sig_structure = ["Signature1", body_protected, external_aad = h'', payload] *)
Definition sig_structure (prot payload : bytes) : bytes :=
  enc (CA [CT (sb "Signature1"); CB prot; CB []; CB payload]).

(* ------------------------------------------------------------------ COSE_Key (OKP) *)
Record ckey := { k_x : bytes; k_alg : option Z; k_ops : list Z; k_crv : Z }.

Definition zkey_eqb (a b : cbor) : bool :=
  match int_of a, int_of b with Some x, Some y => (x =? y)%Z | _, _ => false end.
Definition kget (z : Z) (d : list (cbor * cbor)) : option cbor := lookup zkey_eqb (cbor_of_int z) d.

Fixpoint ints_of (xs : list cbor) : option (list Z) :=
  match xs with
  | [] => Some []
  | x :: r => match int_of x, ints_of r with Some z, Some l => Some (z :: l) | _, _ => None end
  end.

(* the optional parameters, in dict order: first failing value parser decides *)
Fixpoint okp_params (d : list (cbor * cbor)) : res unit :=
  match d with
  | [] => Ok tt
  | (k, v) :: r =>
      match int_of k with
      | None => Err EUnmodelled
      | Some z =>
          if (z =? 3)%Z then
            match int_of v with
            | Some a => if zmem a alg_ids then okp_params r else Err ECoseException
            | None => Err EUnmodelled
            end
          else if (z =? 4)%Z then
            match v with
            | CA xs => match ints_of xs with
                       | Some l => if forallb (fun o => (1 <=? o)%Z && (o <=? 10)%Z) l then okp_params r
                                   else Err ECoseException
                       | None => Err EUnmodelled
                       end
            | _ => Err EUnmodelled
            end
          else okp_params r
      end
  end.

(* CoseKey.decode(bytes) followed by cose_key[OKPKpX] *)
Definition cosekey_decode (kb : bytes) : res ckey :=
  match dec (fuel kb) kb with
  | Some (CM kvs, _) =>
      match norm_pairs kvs with
      | Some (Some l) =>
          if negb (forallb (fun kv => is_intc (fst kv)) l) then Err EUnmodelled else
          let d := dict_of zkey_eqb l in
          match kget 1 d with
          | None => Err ECoseIllegalKeyType
          | Some (CU 1) =>
              bind (okp_params d) (fun _ =>
              let x := match kget (-2) d with Some c => c | None => CB [] end in
              let dd := match kget (-4) d with Some c => c | None => CB [] end in
              match x, dd with
              | CB xb, CB db =>
                  if (lenN xb =? 0) && (lenN db =? 0) then Err ECoseInvalidKey else
                  match kget (-1) d with
                  | None => Err ECoseInvalidKey
                  | Some cv =>
                      match int_of cv with
                      | None => Err EUnmodelled
                      | Some crv =>
                          if negb ((0 <=? crv)%Z && (crv <=? 8)%Z) then Err ECoseException
                          else if negb ((4 <=? crv)%Z && (crv <=? 7)%Z) then Err ECoseUnsupportedCurve
                          else if lenN xb =? 0 then Err EKeyError
                          else Ok {| k_x := xb;
                                     k_alg := match kget 3 d with Some a => int_of a | None => None end;
                                     k_ops := match kget 4 d with
                                              | Some (CA xs) => match ints_of xs with Some l => l | None => [] end
                                              | _ => [] end;
                                     k_crv := crv |}
                      end
                  end
              | _, _ => Err EUnmodelled
              end)
          | Some (CU 2) | Some (CU 3) | Some (CU 4) => Err EUnmodelled   (* EC2 / RSA / symmetric keys *)
          | Some (CU _) | Some (CN _) | Some (CB _) => Err EKeyError     (* _key_types[...] *)
          | Some _ => Err EUnmodelled
          end
      | _ => Err EUnmodelled
      end
  | _ => Err EUnmodelled
  end.

(* CoseKey.from_dict({KpKty: OKP, OKPKpCurve: Ed25519, KpKeyOps: [SignOp, VerifyOp], OKPKpX: vk}) *)
Definition key_of_kid (vk : bytes) : res ckey :=
  if lenN vk =? 0 then Err ECoseInvalidKey
  else Ok {| k_x := vk; k_alg := None; k_ops := [1; 2]%Z; k_crv := 6%Z |}.

(* ------------------------------------------------------------------ addresses *)
Inductive stake := SNone | SHash (h : bytes) | SPtr (slot tx cert : N).
Record addr := { a_hdr : N; a_pay : option bytes; a_stk : stake }.

(* PointerAddress.decode *)
Definition ptr_step (st : N * list N) (b : byte) : N * list N :=
  let '(cur, acc) := st in
  let cur' := N.lor cur (N.land (b2n b) 127) in
  if N.land (b2n b) 128 =? 0 then (0, acc ++ [cur']) else (N.shiftl cur' 7, acc).
Definition ptr_decode (bs : bytes) : res stake :=
  match snd (fold_left ptr_step bs (0, [])) with
  | [a; b; c] => Ok (SPtr a b c)
  | _ => Err EDecodingException
  end.
Definition hash28 (bs : bytes) : res bytes :=         (* ConstrainedBytes.__init__ size assertion *)
  if lenN bs =? 28 then Ok bs else Err EAssertionError.

(* Address.from_primitive(bytes) *)
Definition parse_addr (bs : bytes) : res addr :=
  match bs with
  | [] => Err EIndexError
  | h :: payload =>
      let t := b2n h / 16 in
      let net := b2n h mod 16 in
      if negb ((t <=? 8) || (t =? 14) || (t =? 15)) then Err EValueError        (* AddressType(...) *)
      else if negb (net <=? 1) then Err EValueError                             (* Network(...) *)
      else
        let p1 := firstn 28 payload in
        let p2 := skipn 28 payload in
        if (t =? 0) || (t =? 1) || (t =? 2) || (t =? 3) then
          bind (hash28 p1) (fun a => bind (hash28 p2) (fun b =>
            Ok {| a_hdr := b2n h; a_pay := Some a; a_stk := SHash b |}))
        else if (t =? 4) || (t =? 5) then
          bind (ptr_decode p2) (fun s => bind (hash28 p1) (fun a =>
            Ok {| a_hdr := b2n h; a_pay := Some a; a_stk := s |}))
        else if (t =? 6) || (t =? 7) then
          bind (hash28 payload) (fun a => Ok {| a_hdr := b2n h; a_pay := Some a; a_stk := SNone |})
        else if (t =? 14) || (t =? 15) then
          bind (hash28 payload) (fun a => Ok {| a_hdr := b2n h; a_pay := None; a_stk := SHash a |})
        else Err EDeserializeException                                           (* BYRON *)
  end.

(* the credential verify compares with the key hash *)
Definition credential (a : addr) : option bytes :=
  match a_pay a with
  | Some p => Some p
  | None => match a_stk a with SHash s => Some s | _ => None end
  end.

(* ------------------------------------------------------------------ keys handed to sign *)
Inductive kkind := KPay | KStake.
Record skey := { sk_kind : kkind; sk_ext : bool; sk_payload : bytes }.
Inductive network := Testnet | Mainnet.
Definition net_id (n : network) : N := match n with Testnet => 0 | Mainnet => 1 end.

Record vresult := { verified : bool; message : bytes; address : addr }.

Definition addr_key : hkey := HR (CT (sb "address")).

Section Crypto.
  Variable ed_verify : bytes -> bytes -> bytes -> bool.       (* public key, message, signature *)
  Variable ed_pub : bytes -> bytes.                           (* 32-byte seed -> public key (libsodium) *)
  Variable ed_sign : bytes -> bytes -> bytes.                 (* seed, message -> signature (RFC 8032) *)
  Variable xed_sign : bytes -> bytes -> bytes.                (* 64-byte extended key kL||kR, message *)
  Variable H28 : bytes -> bytes.                              (* BLAKE2b-224 *)
  Variable bech32_dec : bytes -> option bytes.                (* Address text form -> address bytes *)

  (* ---------------- verify, up to the signature check *)
  Record pre := { p_cose : cose; p_key : ckey; p_tbs : bytes }.

  Definition get_alg (c : cose) : res (option cbor) :=
    match lookup hkey_eqb (HA 1) (c_phdr c), lookup hkey_eqb (HA 1) (c_uhdr c) with
    | Some _, Some _ => Err ECoseException
    | Some a, None => Ok (Some a)
    | None, u => Ok u
    end.

  (* the verification key: from the protected header's KID, or from the attached COSE key (key = Some kb) *)
  Definition acquire_key (c : cose) (key : option bytes) : res ckey :=
    match key with
    | None =>
        match lookup hkey_eqb (HA 4) (c_phdr c) with
        | Some (CB vk) => key_of_kid vk
        | Some _ => Err EUnmodelled
        | None => Err EKeyError                                (* decoded_message.phdr[KID] *)
        end
    | Some kb => cosekey_decode kb
    end.

  (* everything before an Ed25519 verification is attempted.  NOTE the bytes that get verified: the
     Sig_structure over the RE-SERIALISED parsed header (cose's phdr_encoded), not over c_prot. *)
  Definition cip8_pre (sm : bytes) (key : option bytes) : res pre :=
    bind (cose_decode sm) (fun c =>
    bind (acquire_key c key) (fun k =>
    Ok {| p_cose := c; p_key := k; p_tbs := sig_structure (reenc_hdr (c_phdr c)) (c_payload c) |})).

  (* the Ed25519 question verify asks, if it gets that far: (public key, message, signature) *)
  Definition long_key (p : pre) : bool := 32 <? lenN (k_x (p_key p)).

  (* CoseKey.verify(OKPKey, alg, [VerifyOp]) *)
  Definition alg_check (ka az : option Z) : res unit :=
    match ka with
    | Some k => match az with
                | None => Err EAttributeError                  (* algorithm.identifier on None *)
                | Some a => if (k =? a)%Z then Ok tt else Err ECoseIllegalAlgorithm
                end
    | None => Ok tt
    end.
  Definition ops_check (ops : list Z) : res unit :=
    if (lenN ops =? 0) || zmem 2%Z ops then Ok tt else Err ECoseIllegalKeyOps.

  (* ... then alg.verify *)
  Definition short_checks (p : pre) : res bytes :=            (* returns the signature bytes to check *)
    bind (get_alg (p_cose p)) (fun alg =>
    let az := match alg with Some a => int_of a | None => None end in
    bind (alg_check (k_alg (p_key p)) az) (fun _ =>
    bind (ops_check (k_ops (p_key p))) (fun _ =>
    match az with
    | None => Err EAttributeError                              (* None.verify *)
    | Some a =>
        if negb (a =? EDDSA)%Z then Err EAttributeError        (* no other registered algorithm has .verify for OKP *)
        else
          let crv := k_crv (p_key p) in
          if (crv =? 6)%Z then
            if negb (lenN (k_x (p_key p)) =? 32) then Err EValueError
            else match c_sig (p_cose p) with
                 | CB s => Ok s
                 | _ => Err ETypeError
                 end
          else if (crv =? 7)%Z then Err EValueError            (* Ed448 key must be 57 bytes *)
          else Err ECoseException
    end))).

  Definition long_checks (p : pre) : res bytes :=
    match c_sig (p_cose p) with
    | CB s => if lenN s =? 64 then Ok s else Err EValueError
    | CA xs => if lenN xs =? 64 then Err ETypeError else Err EValueError
    | CT _ => Err EUnmodelled
    | _ => Err ETypeError
    end.

  Definition sig_query (p : pre) : res (bytes * bytes * bytes) :=
    if long_key p
    then bind (long_checks p) (fun s => Ok (firstn 32 (k_x (p_key p)), p_tbs p, s))
    else bind (short_checks p) (fun s => Ok (k_x (p_key p), p_tbs p, s)).

  Definition sig_step (p : pre) : res bool :=
    bind (sig_query p) (fun q =>
      let '(vk, m, s) := q in
      let ok := ed_verify vk m s in
      if long_key p then (if ok then Ok true else Err EBadSignatureError) else Ok ok).

  (* ---------------- the rest of verify *)
  (* Address.from_primitive accepts the raw bytes or the Bech32 text *)
  Definition addr_value_bytes (av : cbor) : res bytes :=
    match av with
    | CB ab => Ok ab
    | CT t => match bech32_dec t with Some ab => Ok ab | None => Err EUnmodelled end
    | _ => Err EDeserializeException
    end.

  Definition cip8_post (p : pre) (sv : bool) : res vresult :=
    let c := p_cose p in
    if negb (utf8_valid (c_payload c)) then Err EUnicodeDecodeError else
    match lookup hkey_eqb addr_key (c_phdr c) with
    | None => Err EKeyError
    | Some av =>
        bind (bind (addr_value_bytes av) parse_addr) (fun a =>
        let kh := H28 (k_x (p_key p)) in
        let addresses_match :=
          match a_pay a with
          | Some pp => bytes_eqb pp kh
          | None => match a_stk a with SHash s => bytes_eqb s kh | _ => false end
          end in
        let header_intact := bytes_eqb (reenc_hdr (c_phdr c)) (c_prot c) in
        Ok {| verified := sv && addresses_match && header_intact;
              message := c_payload c; address := a |})
    end.

  Definition cip8_verify (sm : bytes) (key : option bytes) : res vresult :=
    bind (cip8_pre sm key) (fun p => bind (sig_step p) (fun sv => cip8_post p sv)).

  (* ---------------- sign *)
  Definition vk_of (k : skey) : bytes :=
    if sk_ext k then firstn 32 (skipn 64 (sk_payload k)) else ed_pub (sk_payload k).
  Definition key_sign (k : skey) (m : bytes) : bytes :=
    if sk_ext k then xed_sign (firstn 64 (sk_payload k)) m else ed_sign (sk_payload k) m.

  Definition addr_bytes_of_key (k : skey) (net : network) : bytes :=
    n2b ((match sk_kind k with KStake => 14 | KPay => 6 end) * 16 + net_id net) :: H28 (vk_of k).
  Definition addr_of_key (k : skey) (net : network) : addr :=
    match sk_kind k with
    | KPay => {| a_hdr := 96 + net_id net; a_pay := Some (H28 (vk_of k)); a_stk := SNone |}
    | KStake => {| a_hdr := 224 + net_id net; a_pay := None; a_stk := SHash (H28 (vk_of k)) |}
    end.

  Definition sign_phdr (k : skey) (attach : bool) (net : network) : list (cbor * cbor) :=
    [(CU 1, CN 7); (CT (sb "address"), CB (addr_bytes_of_key k net))]
    ++ (if attach then [] else [(CU 4, CB (vk_of k))]).
  Definition sign_prot (k : skey) (attach : bool) (net : network) : bytes := enc (CM (sign_phdr k attach net)).
  Definition sign_uhdr : cbor := CM [(CT (sb "hashed"), CS 20)].
  Definition sign_sig (m : bytes) (k : skey) (attach : bool) (net : network) : bytes :=
    key_sign k (sig_structure (sign_prot k attach net) m).
  Definition cose_key_bytes (vk : bytes) : bytes :=
    enc (CM [(CU 1, CU 1); (CU 3, CN 7); (CN 0, CU 6); (CN 1, CB vk)]).

  (* returns the bytes of the hex string (the tag byte d2 already removed) and, when attach, the COSE key *)
  Definition cip8_sign (m : bytes) (k : skey) (attach : bool) (net : network) : bytes * option bytes :=
    (enc (CA [CB (sign_prot k attach net); sign_uhdr; CB m; CB (sign_sig m k attach net)]),
     if attach then Some (cose_key_bytes (vk_of k)) else None).
End Crypto.
