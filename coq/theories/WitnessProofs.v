(* WitnessProofs.v — proofs for C10 (model and specification in Witness.v). *)
From Coq Require Import NArith ZArith String List Bool Lia.
From Coq Require Import Init.Byte.
From Coq Require Import ZifyBool ZifyN ZifyNat.
From PyC Require Import Base Witness.
Import ListNotations.
Open Scope N_scope.
Ltac Zify.zify_post_hook ::= Z.to_euclidean_division_equations.

(* ================================================================== membership *)
Lemma memb_In h l : memb h l = true <-> In h l.
Proof.
  unfold memb. rewrite existsb_exists. split.
  - intros (x & Hx & E). apply bytes_eqb_eq in E. now subst.
  - intros H. exists h. split; [exact H | apply bytes_eqb_refl].
Qed.
Lemma memb_false h l : memb h l = false <-> ~ In h l.
Proof.
  split; intros H.
  - intros HI. apply memb_In in HI. congruence.
  - destruct (memb h l) eqn:E; [apply memb_In in E; contradiction | reflexivity].
Qed.

Lemma dedup_In h l : In h (dedup l) <-> In h l.
Proof.
  induction l as [|x l IH]; cbn; [tauto|].
  destruct (memb x l) eqn:E.
  - rewrite IH. split; [auto|]. intros [->|H]; [now apply memb_In | exact H].
  - cbn. rewrite IH. tauto.
Qed.
Lemma dedup_NoDup l : NoDup (dedup l).
Proof.
  induction l as [|x l IH]; cbn; [constructor|].
  destruct (memb x l) eqn:E; [exact IH|].
  constructor; [|exact IH]. rewrite dedup_In. now apply memb_false.
Qed.

Lemma subsetb_spec a b : subsetb a b = true <-> (forall x, In x a -> In x b).
Proof.
  unfold subsetb. rewrite forallb_forall. split; intros H x Hx.
  - now apply memb_In, H.
  - now apply memb_In, H.
Qed.
Lemma set_eqb_spec a b : set_eqb a b = true <-> (forall x, In x a <-> In x b).
Proof.
  unfold set_eqb. rewrite andb_true_iff, !subsetb_spec. firstorder.
Qed.

(* ================================================================== native scripts *)
Section NsInd.
  Variable P : nscript -> Prop.
  Hypothesis Hk : forall h, P (NsPubkey h).
  Hypothesis Hall : forall l, Forall P l -> P (NsAll l).
  Hypothesis Hany : forall l, Forall P l -> P (NsAny l).
  Hypothesis Hnk : forall n l, Forall P l -> P (NsNofK n l).
  Hypothesis Hb : forall s, P (NsInvalidBefore s).
  Hypothesis Ha : forall s, P (NsInvalidHereafter s).
  Fixpoint nscript_ind' (s : nscript) : P s :=
    let go := fix go (l : list nscript) : Forall P l :=
      match l with [] => Forall_nil _ | y :: r => Forall_cons _ (nscript_ind' y) (go r) end in
    match s with
    | NsPubkey h => Hk h
    | NsAll l => Hall l (go l)
    | NsAny l => Hany l (go l)
    | NsNofK n l => Hnk n l (go l)
    | NsInvalidBefore s => Hb s
    | NsInvalidHereafter s => Ha s
    end.
End NsInd.

(* the builder's scan reaches exactly the key leaves the specification names *)
Lemma ns_dfs_leaves s : ns_dfs s = Ledger.ns_leaves s.
Proof.
  induction s as [k|l IH|l IH|n l IH|t|t] using nscript_ind'; cbn [Ledger.ns_leaves ns_dfs]; try reflexivity;
    induction IH as [|x r Hx _ IHr]; cbn; try reflexivity; now rewrite Hx, IHr.
Qed.

(* ================================================================== certificates, voters *)
Lemma cert_keys_complete x h : In h (Ledger.cert_keys x) -> In h (certificate_keys x).
Proof. destruct x; cbn; tauto. Qed.

Lemma cert_keys_sound x h :
  In h (certificate_keys x) ->
  In h (Ledger.cert_keys x) \/ In h (match x with StakeRegistration c => cred_keys c | _ => [] end).
Proof. destruct x; cbn; tauto. Qed.

Lemma vote_keys_eq v : vote_keys v = Ledger.voter_keys v.
Proof. now destruct v. Qed.

(* ================================================================== required key hashes *)
Lemma flat_map_incl {A} (f g : A -> list bytes) l h :
  (forall x, In h (f x) -> In h (g x)) -> In h (flat_map f l) -> In h (flat_map g l).
Proof. rewrite !in_flat_map. intros H (x & Hx & Hh). eauto. Qed.

Lemma native_scan_eq b :
  native_scripts_vkey_hashes b = flat_map Ledger.ns_leaves (all_scripts b).
Proof.
  unfold native_scripts_vkey_hashes. induction (all_scripts b) as [|s l IH]; cbn; [reflexivity|].
  now rewrite ns_dfs_leaves, IH.
Qed.

Lemma hash_in_spec SH l s : hash_in SH l s = true <-> In (SH s) (map SH l).
Proof. unfold hash_in. apply memb_In. Qed.

(* the scripts the builder ships are among all_scripts *)
Lemma witness_scripts_incl SH b s : In s (witness_scripts SH b) -> In s (all_scripts b).
Proof. unfold witness_scripts, scripts. rewrite !filter_In. tauto. Qed.

(* a script of all_scripts is shipped, or a reference UTxO / the spent UTxO supplies a script of that hash *)
Lemma all_scripts_split SH b s : In s (all_scripts b) ->
  In s (witness_scripts SH b) \/ In (SH s) (map SH (b_reference_scripts b ++ b_input_scripts b)).
Proof.
  intros H. unfold witness_scripts, scripts. rewrite !filter_In, map_app, in_app_iff, <- !hash_in_spec.
  destruct (hash_in SH (b_reference_scripts b) s), (hash_in SH (b_input_scripts b) s); cbn; tauto.
Qed.

(* Completeness: what the ledger requires, the builder requires.  The native scripts that reach the transaction
   through a reference UTxO (or the spent UTxO) are covered because the collector walks all_scripts, not scripts. *)
Theorem required_complete SH b kh : refs_registered SH b ->
  In kh (Ledger.required_key_hashes SH (tx_of SH b)) -> In kh (builder_required b).
Proof.
  intros REG.
  unfold Ledger.required_key_hashes, builder_required; cbn [tx_of d_inputs d_collateral d_required_signers
    d_native_scripts d_ref_scripts d_mint d_certs d_withdrawals d_voters].
  rewrite native_scan_eq.
  unfold input_vkey_hashes, required_signer_vkey_hashes, certificate_vkey_hashes, withdrawal_vkey_hashes, vote_vkey_hashes.
  rewrite !flat_map_app, !in_app_iff.
  intros [H|[H|[H|[H|[H|[H|[H|H]]]]]]]; try tauto.
  - right. right. left. apply in_flat_map in H as (s & Hs & Hk). apply in_flat_map. exists s. split; [|exact Hk].
    now apply (witness_scripts_incl SH).
  - right. right. left. apply in_flat_map in H as (s & Hs & Hk). apply in_flat_map. exists s. split; [|exact Hk].
    unfold Ledger.ref_scripts_needed in Hs. apply filter_In in Hs as [Hs Hn]. apply memb_In in Hn.
    apply REG; [exact Hs | exact Hn].
  - do 3 right. left. revert H. apply flat_map_incl. intros x. apply cert_keys_complete.
Qed.

Theorem required_sound SH b kh : refs_used SH b ->
  In kh (builder_required b) ->
  In kh (Ledger.required_key_hashes SH (tx_of SH b)) \/ In kh (legacy_registration_keys b).
Proof.
  intros USED.
  unfold Ledger.required_key_hashes, builder_required, legacy_registration_keys; cbn [tx_of d_inputs d_collateral d_required_signers
    d_native_scripts d_ref_scripts d_mint d_certs d_withdrawals d_voters].
  rewrite native_scan_eq.
  unfold input_vkey_hashes, required_signer_vkey_hashes, certificate_vkey_hashes, withdrawal_vkey_hashes, vote_vkey_hashes.
  rewrite !flat_map_app, !in_app_iff.
  intros [[H|H]|[H|[H|[H|[H|H]]]]]; try tauto.
  - apply in_flat_map in H as (s & Hs & Hk). left. do 3 right.
    destruct (all_scripts_split SH b s Hs) as [W|R].
    + left. apply in_flat_map. eauto.
    + right. left. destruct (USED s Hs R) as [U1 U2]. apply in_flat_map. exists s. split; [|exact Hk].
      unfold Ledger.ref_scripts_needed. apply filter_In. split; [exact U1 | now apply memb_In].
  - apply in_flat_map in H as (x & Hx & Hh). apply cert_keys_sound in Hh as [Hh|Hh].
    + left. do 5 right. left. apply in_flat_map. eauto.
    + right. apply in_flat_map. eauto.
Qed.

Theorem required_complete_all : forall SH b kh,
  (refs_registered SH b -> In kh (Ledger.required_key_hashes SH (tx_of SH b)) -> In kh (builder_required b))
  /\ (refs_used SH b -> In kh (builder_required b) ->
        In kh (Ledger.required_key_hashes SH (tx_of SH b)) \/ In kh (legacy_registration_keys b)).
Proof. intros SH b kh. split; [apply required_complete | apply required_sound]. Qed.

(* the two conditions are decidable *)
Lemma list_eqb_eq {A} (f : A -> A -> bool) l :
  Forall (fun x => forall y, f x y = true -> x = y) l -> forall l', list_eqb f l l' = true -> l = l'.
Proof.
  induction 1 as [|x r Hx _ IH]; intros [|y r']; cbn; try discriminate; [reflexivity|].
  rewrite andb_true_iff. intros [E1 E2]. f_equal; auto.
Qed.
Lemma ns_eqb_eq a : forall b, ns_eqb a b = true -> a = b.
Proof.
  induction a as [k|l IH|l IH|n l IH|t|t] using nscript_ind'; intros [k'|l'|l'|n' l'|t'|t']; cbn; try discriminate.
  - intros E. apply bytes_eqb_eq in E. now subst.
  - intros E. f_equal. now apply (list_eqb_eq ns_eqb).
  - intros E. f_equal. now apply (list_eqb_eq ns_eqb).
  - rewrite andb_true_iff, N.eqb_eq. intros [-> E]. f_equal. now apply (list_eqb_eq ns_eqb).
  - rewrite N.eqb_eq. now intros ->.
  - rewrite N.eqb_eq. now intros ->.
Qed.
Lemma ns_memb_In s l : ns_memb s l = true -> In s l.
Proof.
  unfold ns_memb. rewrite existsb_exists. intros (y & Hy & E). apply ns_eqb_eq in E. now subst.
Qed.
Lemma refs_registeredb_sound SH b : refs_registeredb SH b = true -> refs_registered SH b.
Proof.
  unfold refs_registeredb, refs_registered. rewrite forallb_forall. intros H s Hs Hn.
  specialize (H s Hs). apply memb_In in Hn. rewrite Hn in H. cbn in H. now apply ns_memb_In.
Qed.
Lemma refs_usedb_sound SH b : refs_usedb SH b = true -> refs_used SH b.
Proof.
  unfold refs_usedb, refs_used. rewrite forallb_forall. intros H s Hs Hr.
  specialize (H s Hs). apply hash_in_spec in Hr. rewrite Hr in H. cbn in H.
  apply andb_true_iff in H as [H1 H2]. split; [now apply ns_memb_In | now apply memb_In].
Qed.

(* non-vacuity *)
Definition kA : bytes := hx "aa". Definition kB : bytes := hx "bb". Definition kC : bytes := hx "cc".

(* every source at once: the ledger set is non-empty and contained in the builder's *)
(* a native script that reaches the transaction through a reference UTxO (add_minting_script(<UTxO>)) under policy f1,
   next to an unrelated script (key 77) that another reference UTxO happens to carry *)
Definition ns_ref_example : nscript := NsAll [NsPubkey (hx "10"); NsInvalidHereafter 500].
Definition SH_example (s : nscript) : bytes :=
  if ns_eqb s ns_ref_example then hx "f1" else if ns_eqb s (NsPubkey (hx "77")) then hx "f2" else hx "f3".
Definition b_example : bdesc :=
  mkB [KeyH kA; ScriptH kC] [KeyH kB] [kC]
      [NsNofK 1 [NsPubkey (hx "01"); NsAll [NsPubkey (hx "02")]]] [NsAny [NsPubkey (hx "03")]; ns_ref_example]
      [ns_ref_example] [] [ns_ref_example; NsPubkey (hx "77")] [hx "f1"]
      [PoolRegistration (hx "04") [hx "05"; hx "06"]; UnregDRepCertificate (KeyH (hx "07")); StakeRegistration (KeyH (hx "08"));
       AuthCommitteeHotCertificate (KeyH (hx "09")) (KeyH (hx "0a"))]
      [KeyH (hx "0b"); ScriptH (hx "0c")] [VoterDRep (KeyH (hx "0d")); VoterPool (hx "0e"); VoterCommitteeHot (ScriptH (hx "0f"))] None [] [].
Example required_complete_nonvacuous :
  refs_registeredb SH_example b_example = true /\ refs_usedb SH_example b_example = true
  /\ map tohex (Ledger.required_key_hashes SH_example (tx_of SH_example b_example))
  = ["aa"; "bb"; "cc"; "01"; "02"; "03"; "10"; "04"; "05"; "06"; "07"; "09"; "0b"; "0d"; "0e"]%string
  /\ forallb (fun h => memb h (builder_required b_example)) (Ledger.required_key_hashes SH_example (tx_of SH_example b_example)) = true.
Proof. vm_compute. auto. Qed.

(* without reference scripts both side conditions hold *)
Lemma refs_conditions_trivial SH b :
  b_reference_scripts b = [] -> b_input_scripts b = [] -> b_refin_scripts b = [] ->
  refs_registered SH b /\ refs_used SH b.
Proof.
  intros E1 E2 E3. unfold refs_registered, refs_used. rewrite E1, E2, E3. cbn. split; intros s; tauto.
Qed.

(* the region the reference-script extension is about: the script is in all_scripts but not in scripts *)
Definition b_ref_only : bdesc :=
  mkB [KeyH kA] [] [] [] [ns_ref_example] [ns_ref_example] [] [ns_ref_example] [hx "f1"] [] [] [] None [] [].
Lemma reference_script_keys_required :
  exists SH b kh, refs_registered SH b /\ refs_used SH b /\ witness_scripts SH b = [] /\
    In kh (Ledger.required_key_hashes SH (tx_of SH b)) /\ In kh (builder_required b)
    /\ ~ In kh (flat_map ns_dfs (scripts SH b)).
Proof.
  exists SH_example, b_ref_only, (hx "10").
  split; [apply refs_registeredb_sound; vm_compute; reflexivity|].
  split; [apply refs_usedb_sound; vm_compute; reflexivity|].
  split; [vm_compute; reflexivity|].
  split; [apply memb_In; vm_compute; reflexivity|].
  split; [apply memb_In; vm_compute; reflexivity|].
  apply memb_false. vm_compute. reflexivity.
Qed.

(* legacy registration: asked for by the builder, not needed by the ledger *)
Lemma legacy_registration_overincluded :
  exists b kh, forall SH, refs_registered SH b /\ refs_used SH b /\
    In kh (builder_required b) /\ ~ In kh (Ledger.required_key_hashes SH (tx_of SH b)).
Proof.
  exists (mkB [] [] [] [] [] [] [] [] [] [StakeRegistration (KeyH kA)] [] [] None [] []), kA. intros SH.
  split; [intros s []|]. split; [intros s []|].
  split; cbn; tauto.
Qed.

(* ================================================================== placeholder witnesses *)
Lemma pair_eqb_eq x y : pair_eqb x y = true <-> x = y.
Proof.
  destruct x as [a b], y as [a' b']. unfold pair_eqb; cbn. rewrite andb_true_iff, !bytes_eqb_eq.
  split; [intros [-> ->]; reflexivity | intros E; inversion E; auto].
Qed.
Lemma mem_pair_In x l : mem_pair x l = true <-> In x l.
Proof.
  unfold mem_pair. rewrite existsb_exists. split.
  - intros (y & Hy & E). apply pair_eqb_eq in E. now subst.
  - intros H. exists x. split; [exact H | now apply pair_eqb_eq].
Qed.

Lemma oset_pairs_id l : forall seen, NoDup l -> (forall x, In x l -> ~ In x seen) -> oset_pairs seen l = l.
Proof.
  induction l as [|x l IH]; intros seen ND Hs; cbn; [reflexivity|].
  inversion ND as [|? ? Hx ND']; subst.
  destruct (mem_pair x seen) eqn:E.
  - apply mem_pair_In in E. exfalso. apply (Hs x); cbn; auto.
  - f_equal. apply IH; [exact ND'|]. intros y Hy [->|Hin]; [contradiction|]. apply (Hs y); cbn; auto.
Qed.

Fixpoint nodup_pairsb (l : list (bytes * bytes)) : bool :=
  match l with [] => true | x :: r => negb (mem_pair x r) && nodup_pairsb r end.
Lemma nodup_pairsb_sound l : nodup_pairsb l = true -> NoDup l.
Proof.
  induction l as [|x l IH]; cbn; [constructor|]. rewrite andb_true_iff, negb_true_iff. intros [E1 E2].
  constructor; [|auto]. intros HI. apply mem_pair_In in HI. congruence.
Qed.

Lemma fake_256_nodup : NoDup (map fake_wit (seq 0 256)).
Proof. apply nodup_pairsb_sound. vm_compute. reflexivity. Qed.

Lemma In_firstn {A} (l : list A) : forall n x, In x (firstn n l) -> In x l.
Proof. induction l as [|y l IH]; intros [|n] x; cbn; try tauto. intros [->|H]; eauto. Qed.
Lemma NoDup_firstn {A} (l : list A) : forall n, NoDup l -> NoDup (firstn n l).
Proof.
  induction l as [|x l IH]; intros [|n] ND; cbn; try constructor.
  - inversion ND; subst. intros HI. apply In_firstn in HI. contradiction.
  - inversion ND; subst. auto.
Qed.

Lemma seq_prefix : forall n m s, (n <= m)%nat -> seq s n = firstn n (seq s m).
Proof.
  induction n as [|n IH]; intros m s H; [reflexivity|].
  destruct m as [|m]; [lia|]. cbn. f_equal. apply IH. lia.
Qed.

Lemma band_length a b : length (band a b) = Nat.min (length a) (length b).
Proof. unfold band. now rewrite map_length, combine_length. Qed.

Lemma fake_wit_sizes i : length (fst (fake_wit i)) = 32%nat /\ length (snd (fake_wit i)) = 64%nat.
Proof.
  unfold fake_wit; cbn [fst snd]. rewrite !band_length, app_length, !be_length.
  split; reflexivity.
Qed.

Theorem fake_witnesses_spec n : n <= 256 ->
  let fw := fake_vkey_witnesses n in
  lenN fw = n /\ Forall (fun w => length (fst w) = 32%nat /\ length (snd w) = 64%nat) fw /\ NoDup fw.
Proof.
  intros Hn fw. unfold fake_vkey_witnesses in fw.
  assert (ND : NoDup (map fake_wit (seq 0 (N.to_nat n)))).
  { rewrite (seq_prefix (N.to_nat n) 256) by lia. rewrite <- firstn_map. apply NoDup_firstn, fake_256_nodup. }
  assert (E : fw = map fake_wit (seq 0 (N.to_nat n))).
  { apply oset_pairs_id; [exact ND | intros x _ []]. }
  rewrite E. repeat split.
  - rewrite lenN_length, map_length, seq_length. lia.
  - apply Forall_forall. intros w Hw. apply in_map_iff in Hw as (i & <- & _). apply fake_wit_sizes.
  - exact ND.
Qed.

(* number of placeholder witnesses = number of distinct required key hashes *)
Theorem fake_count b : b_witness_override b = None ->
  let n := lenN (dedup (builder_required b)) in
  n <= 256 ->
  let fw := fake_vkey_witnesses (witness_count b) in
  lenN fw = n /\ Forall (fun w => length (fst w) = 32%nat /\ length (snd w) = 64%nat) fw /\ NoDup fw.
Proof.
  intros E n Hn. unfold witness_count. rewrite E. now apply fake_witnesses_spec.
Qed.

Example fake_count_nonvacuous :
  b_witness_override b_example = None /\ lenN (dedup (builder_required b_example)) = 16
  /\ lenN (fake_vkey_witnesses (witness_count b_example)) = 16.
Proof. vm_compute. auto. Qed.

(* the placeholder KEYS alone are not pairwise distinct (0 and 2 both give the all-zero key); only the
   (key, signature) pairs are, and only up to 256 of them — harmless for the fee, which depends on count and sizes *)
Lemma fake_vkeys_not_distinct : fst (fake_wit 0) = fst (fake_wit 2).
Proof. vm_compute. reflexivity. Qed.
Lemma fake_count_257_refuted : lenN (fake_vkey_witnesses 257) = 256.
Proof. vm_compute. reflexivity. Qed.

(* ================================================================== build_and_sign's witnesses *)
Lemma key_eqb_wf a b : wf_key a -> wf_key b -> key_eqb a b = true -> a = b.
Proof.
  unfold key_eqb. rewrite andb_true_iff, bytes_eqb_eq, N.eqb_eq.
  destruct a as [s m|p m], b as [s' m'|p' m']; cbn; intros Wa Wb [E1 E2]; subst; try reflexivity; lia.
Qed.
Lemma key_eqb_refl a : key_eqb a a = true.
Proof. unfold key_eqb. now rewrite bytes_eqb_refl, N.eqb_refl. Qed.

Lemma dedup_keys_In l : forall seen k, In k (dedup_keys seen l) -> In k l.
Proof.
  induction l as [|x l IH]; intros seen k; cbn; [tauto|].
  destruct (existsb (key_eqb x) seen); [eauto|]. intros [->|H]; eauto.
Qed.
Lemma dedup_keys_cover l : forall seen k, In k l ->
  (exists k', In k' seen /\ key_eqb k k' = true) \/ (exists k', In k' (dedup_keys seen l) /\ key_eqb k k' = true).
Proof.
  induction l as [|x l IH]; intros seen k; cbn; [tauto|]. intros [->|H].
  - destruct (existsb (key_eqb k) seen) eqn:E.
    + left. apply existsb_exists in E as (k' & H1 & H2). eauto.
    + right. exists k. split; [now left | apply key_eqb_refl].
  - destruct (existsb (key_eqb x) seen) eqn:E.
    + apply IH; exact H.
    + destruct (IH (x :: seen) k H) as [(k' & [<-|Hs] & Hk)|(k' & Hd & Hk)].
      * right. exists x. split; [now left | exact Hk].
      * left. eauto.
      * right. exists k'. split; [now right | exact Hk].
Qed.

Lemma wit_eqb_eq a b : wit_eqb a b = true <-> a = b.
Proof.
  destruct a as [v s m], b as [v' s' m']. unfold wit_eqb; cbn.
  rewrite !andb_true_iff, !bytes_eqb_eq, N.eqb_eq. split; [intros [[-> ->] ->]; reflexivity | intros E; inversion E; auto].
Qed.
Lemma oset_wits_In l : forall seen w, In w (oset_wits seen l) -> In w l.
Proof.
  induction l as [|x l IH]; intros seen w; cbn; [tauto|].
  destruct (existsb (wit_eqb x) seen); [eauto|]. intros [->|H]; eauto.
Qed.
Lemma oset_wits_cover l : forall seen w, In w l -> In w seen \/ In w (oset_wits seen l).
Proof.
  induction l as [|x l IH]; intros seen w; cbn; [tauto|]. intros [->|H].
  - destruct (existsb (wit_eqb w) seen) eqn:E.
    + left. apply existsb_exists in E as (w' & H1 & H2). apply wit_eqb_eq in H2. now subst.
    + right. now left.
  - destruct (existsb (wit_eqb x) seen) eqn:E; [apply IH; exact H|].
    destruct (IH (x :: seen) w H) as [[<-|Hs]|Hd]; cbn; auto.
Qed.
Lemma oset_wits_NoDup {B} (f : wit -> B) l : forall seen, NoDup (map f l) -> NoDup (map f (oset_wits seen l)).
Proof.
  induction l as [|x l IH]; intros seen ND; cbn; [constructor|].
  inversion ND as [|? ? Hx ND']; subst.
  destruct (existsb (wit_eqb x) seen); [auto|]. cbn. constructor; [|auto].
  intros HI. apply Hx. apply in_map_iff in HI as (w & E & Hw). apply in_map_iff. exists w. split; [exact E|].
  eapply oset_wits_In; eauto.
Qed.

Section SignProofs.
  Variable SH : nscript -> bytes.
  Variable H28 : bytes -> bytes.
  Variable H32 : bytes -> bytes.
  Variable ord_pub : bytes -> bytes.
  Variable ord_sign : bytes -> bytes -> bytes.
  Variable ext_sign : bytes -> bytes -> bytes -> bytes.

  Notation vk32 := (vk32 ord_pub).
  Notation key_hash := (key_hash H28 ord_pub).
  Notation sign_with := (sign_with ord_sign ext_sign).
  Notation wit_of := (wit_of ord_pub ord_sign ext_sign).
  Notation sign_loop := (sign_loop H28 ord_pub ord_sign ext_sign).
  Notation sign_witnesses := (sign_witnesses H28 ord_pub ord_sign ext_sign).
  Notation after_auto := (after_auto SH H28 ord_pub).
  Notation after_build := (after_build SH H28 ord_pub).
  Notation fee_witness_count := (fee_witness_count SH H28 ord_pub).
  Notation build_and_sign_witnesses := (build_and_sign_witnesses SH H28 H32 ord_pub ord_sign ext_sign).

  Definition wit_hash (w : wit) : bytes := H28 (w_vk w).

  Lemma wit_of_vk k m : w_vk (wit_of k m) = vk32 k. Proof. reflexivity. Qed.
  Lemma wit_of_sig k m : w_sig (wit_of k m) = sign_with k m. Proof. reflexivity. Qed.

  Lemma sign_loop_In req force m ks : forall signed w, In w (sign_loop req force m signed ks) ->
    exists k, In k ks /\ w = wit_of k m /\ (force = true \/ In (key_hash k) req) /\ ~ In (key_hash k) signed.
  Proof.
    induction ks as [|k ks IH]; intros signed w; cbn [Witness.sign_loop]; [intros []|].
    destruct (negb (memb (key_hash k) signed) && (force || memb (key_hash k) req)) eqn:E.
    - apply andb_true_iff in E as [E1 E2]. apply negb_true_iff, memb_false in E1.
      apply orb_true_iff in E2. rewrite memb_In in E2.
      intros [<-|H].
      + exists k. repeat split; auto. now left.
      + destruct (IH _ _ H) as (k' & Hk & Hw & Hr & Hs). exists k'. repeat split; auto; [now right|].
        intros Hin. apply Hs. now right.
    - intros H. destruct (IH _ _ H) as (k' & Hk & Hw & Hr & Hs). exists k'. repeat split; auto. now right.
  Qed.

  Lemma sign_loop_cover req force m ks : forall signed k, In k ks ->
    (force = true \/ In (key_hash k) req) ->
    In (key_hash k) signed \/ exists w, In w (sign_loop req force m signed ks) /\ wit_hash w = key_hash k.
  Proof.
    induction ks as [|k0 ks IH]; intros signed k; cbn [Witness.sign_loop]; [intros []|].
    intros [->|Hk] Hr.
    - destruct (memb (key_hash k) signed) eqn:E1; [left; now apply memb_In|]. right.
      assert (E2 : force || memb (key_hash k) req = true).
      { apply orb_true_iff. rewrite memb_In. exact Hr. }
      rewrite E2. cbn. exists (wit_of k m). split; [now left | reflexivity].
    - destruct (negb (memb (key_hash k0) signed) && (force || memb (key_hash k0) req)) eqn:E.
      + destruct (IH (key_hash k0 :: signed) k Hk Hr) as [[E0|Hs]|(w & Hw & Hh)].
        * right. exists (wit_of k0 m). split; [now left | exact E0].
        * now left.
        * right. exists w. split; [now right | exact Hh].
      + destruct (IH signed k Hk Hr) as [Hs|(w & Hw & Hh)]; [now left | right; eauto].
  Qed.

  Lemma sign_loop_NoDup req force m ks : forall signed, NoDup (map wit_hash (sign_loop req force m signed ks)).
  Proof.
    induction ks as [|k ks IH]; intros signed; cbn [Witness.sign_loop]; [constructor|].
    destruct (negb (memb (key_hash k) signed) && (force || memb (key_hash k) req)); [|apply IH].
    cbn [map]. constructor; [|apply IH].
    intros HI. apply in_map_iff in HI as (w & Hh & Hw).
    destruct (sign_loop_In _ _ _ _ _ _ Hw) as (k' & _ & -> & _ & Hs). apply Hs. left. exact (eq_sym Hh).
  Qed.

  Lemma NoDup_wit_bytes l : NoDup (map wit_hash l) -> NoDup (map wit_bytes l).
  Proof.
    intros ND. apply (NoDup_map_inv (fun p => H28 (fst p))). rewrite map_map. exact ND.
  Qed.

  Theorem witnesses_spec : forall required force keys m,
    let ws := sign_witnesses required force keys m in
    (forall w, In w ws -> exists k, In k keys /\ w_vk w = vk32 k /\ w_sig w = sign_with k m
                                    /\ (force = true \/ In (key_hash k) required))
    /\ (Forall wf_key keys -> forall k, In k keys -> (force = true \/ In (key_hash k) required) ->
          exists w, In w ws /\ H28 (w_vk w) = key_hash k)
    /\ (force = false -> forall w, In w ws -> In (H28 (w_vk w)) required)
    /\ NoDup (map (fun w => H28 (w_vk w)) ws)
    /\ NoDup (map wit_bytes ws).
  Proof.
    intros required force keys m ws. unfold Witness.sign_witnesses in ws.
    assert (S1 : forall w, In w ws -> exists k, In k keys /\ w = wit_of k m /\ (force = true \/ In (key_hash k) required)).
    { intros w Hw. apply oset_wits_In in Hw. apply sign_loop_In in Hw as (k & Hk & -> & Hr & _).
      exists k. split; [eapply dedup_keys_In; eauto | auto]. }
    assert (ND : NoDup (map wit_hash ws)) by (apply oset_wits_NoDup, sign_loop_NoDup).
    repeat split.
    - intros w Hw. destruct (S1 w Hw) as (k & Hk & -> & Hr). exists k. auto.
    - intros WF k Hk Hr.
      destruct (dedup_keys_cover keys [] k Hk) as [(k' & [] & _)|(k' & Hd & He)].
      assert (k = k').
      { rewrite Forall_forall in WF. apply key_eqb_wf; auto. apply WF. eapply dedup_keys_In; eauto. }
      subst k'.
      destruct (sign_loop_cover required force m _ [] k Hd Hr) as [[]|(w & Hw & Hh)].
      exists w. split; [|exact Hh].
      destruct (oset_wits_cover _ [] w Hw) as [[]|H]. exact H.
    - intros Ef w Hw. destruct (S1 w Hw) as (k & _ & -> & [Hr|Hr]); [congruence | exact Hr].
    - exact ND.
    - now apply NoDup_wit_bytes.
  Qed.

  (* the auto_required_signers step touches required_signers only *)
  Lemma after_auto_cases auto keys b :
    after_auto auto keys b = b \/ exists rs, after_auto auto keys b = set_required_signers b rs.
  Proof.
    unfold Witness.after_auto.
    destruct (nilb (b_required_signers b)); [|now left].
    destruct auto as [[|]|]; [| now left |].
    - destruct (has_scripts SH b).
      + destruct keys; [now left | right; eauto].
      + destruct (is_smart b); [right; eauto | now left].
    - destruct (is_smart b); [right; eauto | now left].
  Qed.
  Lemma refs_registered_after auto keys b : refs_registered SH b -> refs_registered SH (after_auto auto keys b).
  Proof.
    intros H. destruct (after_auto_cases auto keys b) as [->|(rs & ->)]; [exact H|]. exact H.
  Qed.
  Lemma refs_used_after auto keys b : refs_used SH b -> refs_used SH (after_auto auto keys b).
  Proof.
    intros H. destruct (after_auto_cases auto keys b) as [->|(rs & ->)]; [exact H|]. exact H.
  Qed.

  (* build(): coin selection extends inputs, _set_collateral_return extends collateral, the automatic step in between
     may set required_signers; nothing else changes *)
  Definition same_but (b b' : bdesc) (ins cols : list cred) : Prop :=
    b_inputs b' = b_inputs b ++ ins /\ b_collateral b' = b_collateral b ++ cols
    /\ b_native_scripts b' = b_native_scripts b /\ b_attached b' = b_attached b
    /\ b_reference_scripts b' = b_reference_scripts b /\ b_input_scripts b' = b_input_scripts b
    /\ b_refin_scripts b' = b_refin_scripts b /\ b_mint b' = b_mint b /\ b_certs b' = b_certs b
    /\ b_withdrawals b' = b_withdrawals b /\ b_voters b' = b_voters b
    /\ b_witness_override b' = b_witness_override b.
  Lemma after_build_fields auto keys sel b :
    same_but b (after_build auto keys sel b) (sel_inputs sel) (sel_collateral sel).
  Proof.
    unfold Witness.after_build.
    destruct (after_auto_cases auto keys (add_inputs (sel_inputs sel) b)) as [->|(rs & ->)];
      unfold same_but; cbn; repeat split; reflexivity.
  Qed.
  Lemma after_build_no_selection auto keys b :
    after_build auto keys no_selection b = after_auto auto keys b.
  Proof.
    unfold Witness.after_build, no_selection; cbn [sel_inputs sel_collateral].
    assert (E : add_inputs [] b = b) by (destruct b; unfold add_inputs; cbn; now rewrite app_nil_r).
    rewrite E. destruct (after_auto auto keys b); unfold add_collateral; cbn. now rewrite app_nil_r.
  Qed.

  (* every key-locked UTxO build() adds — as input or as collateral — has its key in the required set afterwards *)
  Lemma selected_keys_required auto keys sel b kh :
    In (KeyH kh) (sel_inputs sel ++ sel_collateral sel) -> In kh (builder_required (after_build auto keys sel b)).
  Proof.
    intros H. clear H32 ord_sign ext_sign. destruct (after_build_fields auto keys sel b) as (Ei & Ec & _).
    unfold builder_required, input_vkey_hashes. rewrite Ei, Ec. apply in_or_app. left.
    apply in_flat_map. exists (KeyH kh). split; [|now left].
    rewrite !in_app_iff in *. tauto.
  Qed.

  Definition is_key (c : cred) : bool := match c with KeyH _ => true | ScriptH _ => false end.
  Lemma scripts_needed_after auto keys sel b h :
    In h (Ledger.scripts_needed (tx_of SH (after_build auto keys sel b)))
    <-> In h (Ledger.scripts_needed (tx_of SH b)) \/ In h (flat_map cred_scripts (sel_inputs sel)).
  Proof.
    destruct (after_build_fields auto keys sel b) as (Ei & Ec & E1 & E2 & E3 & E4 & E5 & E6 & E7 & E8 & E9 & E10).
    unfold Ledger.scripts_needed; cbn [tx_of d_inputs d_mint d_certs d_withdrawals d_voters].
    rewrite Ei, E6, E7, E8, E9, flat_map_app, !in_app_iff. clear H32 ord_sign ext_sign. tauto.
  Qed.
  Lemma all_scripts_after auto keys sel b : all_scripts (after_build auto keys sel b) = all_scripts b.
  Proof.
    destruct (after_build_fields auto keys sel b) as (Ei & Ec & E1 & E2 & _). unfold all_scripts. now rewrite E1, E2.
  Qed.
  (* the side conditions on reference scripts carry over from the prepared builder: refs_used always, refs_registered
     when coin selection added key-locked UTxOs only (what selectors pick from a key address) *)
  Lemma refs_used_after_build auto keys sel b :
    refs_used SH b -> refs_used SH (after_build auto keys sel b).
  Proof.
    intros U s Hs Hr. rewrite all_scripts_after in Hs.
    destruct (after_build_fields auto keys sel b) as (Ei & Ec & E1 & E2 & E3 & E4 & E5 & _).
    rewrite E3, E4 in Hr. rewrite E4, E5. destruct (U s Hs Hr) as [U1 U2]. split; [exact U1|].
    apply scripts_needed_after. now left.
  Qed.
  Lemma refs_registered_after_build auto keys sel b :
    forallb is_key (sel_inputs sel) = true ->
    refs_registered SH b -> refs_registered SH (after_build auto keys sel b).
  Proof.
    intros K R s Hs Hn. rewrite all_scripts_after.
    destruct (after_build_fields auto keys sel b) as (Ei & Ec & E1 & E2 & E3 & E4 & E5 & _).
    rewrite E4, E5 in Hs. apply R; [exact Hs|].
    apply scripts_needed_after in Hn as [Hn|Hn]; [exact Hn|]. exfalso.
    apply in_flat_map in Hn as (c & Hc & Hh). rewrite forallb_forall in K. specialize (K c Hc).
    destruct c; [destruct Hh | discriminate].
  Qed.

  (* the same, for build_and_sign on a builder, against the LEDGER's requirement for the emitted transaction *)
  Theorem build_and_sign_spec : forall b auto force keys sel body,
    Forall wf_key keys ->
    let b' := after_build auto keys sel b in
    let txid := H32 body in
    let ws := build_and_sign_witnesses b auto force keys sel body in
    (forall w, In w ws -> exists k, In k keys /\ w_vk w = vk32 k /\ w_sig w = sign_with k txid
                                    /\ (force = true \/ In (key_hash k) (builder_required b')))
    /\ (refs_registered SH b' ->
        forall kh, In kh (Ledger.required_key_hashes SH (tx_of SH b')) -> (exists k, In k keys /\ key_hash k = kh) ->
          exists w, In w ws /\ H28 (w_vk w) = kh)
    /\ (force = true -> forall k, In k keys -> exists w, In w ws /\ H28 (w_vk w) = key_hash k)
    /\ (refs_used SH b' -> force = false -> forall w, In w ws ->
          In (H28 (w_vk w)) (Ledger.required_key_hashes SH (tx_of SH b')) \/ In (H28 (w_vk w)) (legacy_registration_keys b'))
    /\ NoDup (map (fun w => H28 (w_vk w)) ws)
    /\ NoDup (map wit_bytes ws).
  Proof.
    intros b auto force keys sel body WF b' txid ws.
    destruct (witnesses_spec (builder_required b') force keys txid) as (S1 & S2 & S3 & S4 & S5).
    fold ws in S1, S2, S3, S4, S5. repeat split; auto.
    - intros REG kh Hl (k & Hk & <-). apply S2; auto. right. now apply (required_complete SH).
    - intros USED Ef w Hw. apply (required_sound SH); [exact USED | now apply S3].
  Qed.

  (* ---------- the placeholder witnesses of the final fee estimate ---------- *)
  Lemma NoDup_incl_lenN (l l' : list bytes) : NoDup l -> incl l l' -> lenN l <= lenN l'.
  Proof. intros ND I. rewrite !lenN_length. pose proof (NoDup_incl_length ND I). lia. Qed.
  Lemma dedup_lenN_eq (l l' : list bytes) : (forall x, In x l <-> In x l') -> lenN (dedup l) = lenN (dedup l').
  Proof.
    intros E. apply N.le_antisymm; apply NoDup_incl_lenN; try apply dedup_NoDup;
      intros x Hx; apply (proj2 (dedup_In x _)); apply (proj1 (dedup_In x _)) in Hx; first [exact (proj1 (E x) Hx) | exact (proj2 (E x) Hx)].
  Qed.

  (* as many placeholders as the transaction build() emits has distinct ledger-required key hashes: the keys of the
     UTxOs taken by coin selection and of the collateral picked at the end are counted *)
  Theorem fee_placeholders : forall b auto keys sel,
    let b' := after_build auto keys sel b in
    b_witness_override b = None ->
    let n := lenN (dedup (builder_required b')) in
    n <= 256 ->
    let fw := fake_vkey_witnesses (fee_witness_count b auto keys sel) in
    lenN fw = n /\ Forall (fun w => length (fst w) = 32%nat /\ length (snd w) = 64%nat) fw /\ NoDup fw
    /\ (forall kh, In (KeyH kh) (sel_inputs sel ++ sel_collateral sel) -> In kh (builder_required b'))
    /\ (refs_registered SH b' -> refs_used SH b' -> legacy_registration_keys b' = [] ->
          n = lenN (dedup (Ledger.required_key_hashes SH (tx_of SH b')))).
  Proof.
    intros b auto keys sel b' Eo n Hn fw. clear H32 ord_sign ext_sign.
    assert (Eo' : b_witness_override b' = None).
    { destruct (after_build_fields auto keys sel b) as (_ & _ & _ & _ & _ & _ & _ & _ & _ & _ & _ & E). unfold b'. now rewrite E. }
    destruct (fake_count b' Eo' Hn) as (F1 & F2 & F3).
    repeat split; auto.
    - intros kh. apply selected_keys_required.
    - intros REG USED LEG. apply dedup_lenN_eq. intros kh. split.
      + intros H. destruct (required_sound SH b' kh USED H) as [H'|H']; [exact H'|]. rewrite LEG in H'. destruct H'.
      + now apply required_complete.
  Qed.
End SignProofs.


(* a Plutus spend whose collateral the builder picks from the wallet of another key (nothing else is key-locked):
   the count taken before _set_collateral_return — the builder after coin selection and the automatic required
   signers — is one short of what the emitted transaction needs; the count build() uses for the last fee is right *)
Definition b_plutus_example : bdesc :=
  mkB [ScriptH (hx "e1")] [] [] [] [] [] [] [] [] [] [] [] None [hx "e1"] [].
Definition sel_example : selection := mkSel [] [KeyH kB].
Lemma stale_count_refuted :
  let SH := fun _ : nscript => kC in let H28 := fun b : bytes => firstn 1 b in let ord_pub := fun s : bytes => s in
  picks_collateral b_plutus_example = true
  /\ witness_count (after_auto SH H28 ord_pub None [] (add_inputs (sel_inputs sel_example) b_plutus_example)) = 0
  /\ fee_witness_count SH H28 ord_pub b_plutus_example None [] sel_example = 1
  /\ Ledger.required_key_hashes SH (tx_of SH (after_build SH H28 ord_pub None [] sel_example b_plutus_example)) = [kB].
Proof. vm_compute. auto. Qed.
Example fee_placeholders_nonvacuous :
  let SH := fun _ : nscript => kC in let H28 := fun b : bytes => firstn 1 b in let ord_pub := fun s : bytes => s in
  let b' := after_build SH H28 ord_pub None [] sel_example b_plutus_example in
  b_witness_override b_plutus_example = None /\ lenN (dedup (builder_required b')) <= 256
  /\ refs_registered SH b' /\ refs_used SH b' /\ legacy_registration_keys b' = [].
Proof.
  cbv zeta. split; [reflexivity|]. split; [vm_compute; discriminate|].
  split; [apply refs_registeredb_sound; vm_compute; reflexivity|].
  split; [apply refs_usedb_sound; vm_compute; reflexivity | reflexivity].
Qed.

(* ================================================================== extended-key signing verifies *)
Lemma L_lt_two255 : L < two255. Proof. reflexivity. Qed.
Lemma two255_lt_256_32 : two255 < 256 ^ 32. Proof. reflexivity. Qed.
Lemma L_pos : 0 < L. Proof. reflexivity. Qed.

Lemma le_length k n : length (le k n) = k.
Proof. unfold le. now rewrite rev_length, be_length. Qed.
Lemma unle_le k n : n < 256 ^ N.of_nat k -> unle (le k n) = n.
Proof. intros H. unfold unle, le. rewrite rev_involutive. now apply unbe_be. Qed.
Lemma unle_le32 n : n < L -> unle (le 32 n) = n.
Proof.
  intros H. apply unle_le. change (N.of_nat 32) with 32.
  pose proof L_lt_two255. pose proof two255_lt_256_32. lia.
Qed.

Lemma firstn_app_exact {A} (a b : list A) n : length a = n -> firstn n (a ++ b) = a.
Proof. intros <-. rewrite firstn_app, Nat.sub_diag, firstn_all. cbn. now rewrite app_nil_r. Qed.
Lemma skipn_app_exact {A} (a b : list A) n : length a = n -> skipn n (a ++ b) = b.
Proof. intros <-. rewrite skipn_app, Nat.sub_diag, skipn_all. reflexivity. Qed.

Section EdProofs.
  Variable G : Type.
  Variable zero : G.
  Variable add : G -> G -> G.
  Variable neg : G -> G.
  Variable smulB : N -> G.
  Variable enc_pt : G -> bytes.
  Variable dec_pt : bytes -> option G.
  Variable H512 : bytes -> N.
  (* commutative group *)
  Hypothesis add_assoc : forall a b c, add a (add b c) = add (add a b) c.
  Hypothesis add_comm : forall a b, add a b = add b a.
  Hypothesis add_zero_l : forall a, add zero a = a.
  Hypothesis add_neg_l : forall a, add (neg a) a = zero.
  (* n |-> n·B is a homomorphism from (N,+), and L·B = 0 *)
  Hypothesis smulB_add : forall a b, smulB (a + b) = add (smulB a) (smulB b).
  Hypothesis smulB_L : smulB L = zero.
  (* point compression: 32 bytes, decompression inverts it *)
  Hypothesis enc_pt_length : forall P, length (enc_pt P) = 32%nat.
  Hypothesis dec_enc_pt : forall P, dec_pt (enc_pt P) = Some P.

  Notation smul := (smul G zero add).
  Notation base_noclamp := (base_noclamp G smulB enc_pt).
  Notation ext_sign_model := (ext_sign_model G smulB enc_pt H512).
  Notation ed_verify := (ed_verify G zero add smulB dec_pt H512).

  Lemma idem_zero a : a = add a a -> a = zero.
  Proof.
    intros E. assert (H : add (neg a) a = add (neg a) (add a a)) by (now rewrite <- E).
    rewrite add_assoc, !add_neg_l, add_zero_l in H. symmetry. exact H.
  Qed.
  Lemma smulB_0 : smulB 0 = zero.
  Proof. apply idem_zero. rewrite <- smulB_add. reflexivity. Qed.
  Lemma smulB_mulL q : smulB (q * L) = zero.
  Proof.
    induction q as [|q IH] using N.peano_ind.
    - apply smulB_0.
    - rewrite N.mul_succ_l, smulB_add, IH, smulB_L. apply add_zero_l.
  Qed.
  Lemma smulB_mod x : smulB (x mod L) = smulB x.
  Proof.
    rewrite (N.div_mod x L) at 2 by (pose proof L_pos; lia).
    rewrite smulB_add, (N.mul_comm L), smulB_mulL, add_zero_l. reflexivity.
  Qed.
  Lemma smul_smulB h k : smul h (smulB k) = smulB (h * k).
  Proof.
    unfold Witness.smul. induction h as [|h IH] using N.peano_ind.
    - cbn. symmetry. apply smulB_0.
    - rewrite N.iter_succ, IH, <- smulB_add. f_equal. lia.
  Qed.

  (* S·B = R + h·A for the signature BIP32ED25519PrivateKey.sign computes, A = kL·B *)
  Theorem ext_sign_verifies kL kR m : unle kL < two255 ->
    base_noclamp kL = enc_pt (smulB (unle kL))
    /\ ed_verify (base_noclamp kL) m (ext_sign_model kL kR m).
  Proof.
    intros Hk. pose proof L_pos as Lp. pose proof L_lt_two255 as L2.
    assert (EA : base_noclamp kL = enc_pt (smulB (unle kL))).
    { unfold Witness.base_noclamp. now rewrite N.mod_small. }
    split; [exact EA|].
    unfold Witness.ext_sign_model, Witness.ed_verify.
    set (A := base_noclamp kL).
    set (r0 := H512 (kR ++ m) mod L).
    assert (Hr0 : r0 < L) by (apply N.mod_lt; lia).
    change (sc_reduce (H512 (kR ++ m))) with (le 32 r0).
    set (R := base_noclamp (le 32 r0)).
    assert (ER : R = enc_pt (smulB r0)).
    { unfold R, Witness.base_noclamp. rewrite unle_le32 by exact Hr0.
      rewrite N.mod_small by lia. reflexivity. }
    set (h0 := H512 (R ++ A ++ m) mod L).
    assert (Hh0 : h0 < L) by (apply N.mod_lt; lia).
    change (sc_reduce (H512 (R ++ A ++ m))) with (le 32 h0).
    assert (LR : length R = 32%nat) by (rewrite ER; apply enc_pt_length).
    unfold sc_add, sc_mul. rewrite !unle_le32; try exact Hr0; try exact Hh0; try (apply N.mod_lt; lia).
    set (S := (h0 * unle kL mod L + r0) mod L).
    assert (HS : S < L) by (apply N.mod_lt; lia).
    split.
    - rewrite app_length, LR, le_length. reflexivity.
    - exists (smulB (unle kL)), (smulB r0).
      rewrite (firstn_app_exact _ _ 32 LR), (skipn_app_exact _ _ 32 LR).
      split; [unfold A; rewrite EA; apply dec_enc_pt|].
      split; [rewrite ER; apply dec_enc_pt|].
      cbv zeta. fold h0. rewrite unle_le32 by exact HS. split; [exact HS|].
      unfold S. rewrite smulB_mod, smulB_add, smulB_mod, <- smul_smulB. apply add_comm.
  Qed.

  (* ---------- every witness of the model of build_and_sign verifies ---------- *)
  Variable SH : nscript -> bytes.
  Variable H28 : bytes -> bytes.
  Variable H32 : bytes -> bytes.
  Variable ord_pub : bytes -> bytes.
  Variable ord_sign : bytes -> bytes -> bytes.
  (* NaCl's signing for ordinary keys is assumed correct, not derived *)
  Hypothesis ord_pub_length : forall seed, length (ord_pub seed) = 32%nat.
  Hypothesis ord_sign_verifies : forall seed m, length seed = 32%nat -> ed_verify (ord_pub seed) m (ord_sign seed m).

  (* an extended signing key as ExtendedSigningKey.from_hdwallet lays it out: kL kR A cc with A = kL·B, kL < 2^255 *)
  Definition wf_skey (k : skey) : Prop :=
    match k with
    | SkOrd s _ => length s = 32%nat
    | SkExt p _ => length p = 128%nat /\ unle (firstn 32 p) < two255
                   /\ firstn 32 (skipn 64 p) = base_noclamp (firstn 32 p)
    end.
  Lemma wf_skey_wf_key k : wf_skey k -> wf_key k.
  Proof. destruct k; cbn; tauto. Qed.

  Theorem witnesses_valid : forall b auto force keys sel body,
    Forall wf_skey keys ->
    forall w, In w (build_and_sign_witnesses SH H28 H32 ord_pub ord_sign ext_sign_model b auto force keys sel body) ->
      length (w_vk w) = 32%nat /\ ed_verify (w_vk w) (H32 body) (w_sig w).
  Proof.
    intros b auto force keys sel body WF w Hw.
    assert (WF' : Forall wf_key keys).
    { apply Forall_forall. intros k Hk. apply wf_skey_wf_key. rewrite Forall_forall in WF. auto. }
    destruct (build_and_sign_spec SH H28 H32 ord_pub ord_sign ext_sign_model b auto force keys sel body WF') as (S1 & _).
    destruct (S1 w Hw) as (k & Hk & Ev & Es & _). rewrite Ev, Es.
    rewrite Forall_forall in WF. specialize (WF k Hk). destruct k as [s mt|p mt]; cbn in *.
    - split; [apply ord_pub_length | now apply ord_sign_verifies].
    - destruct WF as (Lp & Hlt & EA). rewrite EA. split.
      + unfold Witness.base_noclamp. apply enc_pt_length.
      + now apply ext_sign_verifies.
  Qed.
End EdProofs.

(* ================================================================== non-vacuity of the hypotheses *)
(* the group hypotheses are consistent (trivial group), and the premise on kL is satisfiable *)
Example ed_hypotheses_satisfiable :
  let enc := fun _ : unit => le 32 0 in
  forall kR m,
    unle (le 32 5) < two255 /\
    ed_verify unit tt (fun _ _ => tt) (fun _ => tt) (fun _ => Some tt) (fun _ => 0)
      (base_noclamp unit (fun _ => tt) enc (le 32 5)) m
      (ext_sign_model unit (fun _ => tt) enc (fun _ => 0) (le 32 5) kR m).
Proof.
  intros enc kR m. split; [vm_compute; reflexivity|].
  apply (ext_sign_verifies unit tt (fun _ _ => tt) (fun _ => tt) (fun _ => tt) enc (fun _ => Some tt) (fun _ => 0)); auto.
  - intros []. reflexivity.
  - intros []. reflexivity.
  - vm_compute. reflexivity.
Qed.

(* a scenario for witnesses_spec with concrete (toy) primitives: one required key, one unrelated, one duplicate *)
Example witnesses_nonvacuous :
  let H28 := fun b : bytes => firstn 1 b in
  let ord_pub := fun s : bytes => s in
  let ord_sign := fun s m : bytes => s ++ m in
  let ext := fun kL kR m : bytes => kL ++ kR ++ m in
  let keys := [SkOrd (hx "aa01") 1; SkOrd (hx "bb02") 1; SkOrd (hx "aa01") 1; SkOrd (hx "aa01") 2] in
  map wit_bytes (sign_witnesses H28 ord_pub ord_sign ext [hx "aa"] false keys (hx "ff"))
  = [(hx "aa01", hx "aa01ff")].
Proof. vm_compute. reflexivity. Qed.

(* build_and_sign_spec / witnesses_valid: all premises hold together for concrete well-formed keys (trivial group,
   zero signatures): one ordinary and one extended key, both required *)
Example witnesses_valid_nonvacuous :
  let enc := fun _ : unit => le 32 0 in
  let ord_pub := fun _ : bytes => le 32 0 in
  let ord_sign := fun _ _ : bytes => le 64 0 in
  let H28 := fun b : bytes => firstn 28 b in
  let H32 := fun b : bytes => firstn 32 b in
  let keys := [SkOrd (le 32 7) 1; SkExt (le 128 0) 11] in
  let SH := fun _ : nscript => hx "f1" in
  let b := mkB [KeyH (firstn 28 (le 32 0))] [] [] [] [] [] [] [] [] [] [] [] None [] [] in
  Forall (wf_skey unit (fun _ => tt) enc) keys
  /\ Forall wf_key keys
  /\ length (build_and_sign_witnesses SH H28 H32 ord_pub ord_sign (ext_sign_model unit (fun _ => tt) enc (fun _ => 0))
               b None false keys no_selection (le 40 9)) = 1%nat
  /\ forall w, In w (build_and_sign_witnesses SH H28 H32 ord_pub ord_sign (ext_sign_model unit (fun _ => tt) enc (fun _ => 0))
                       b None false keys no_selection (le 40 9)) ->
       length (w_vk w) = 32%nat
       /\ ed_verify unit tt (fun _ _ => tt) (fun _ => tt) (fun _ => Some tt) (fun _ => 0) (w_vk w) (H32 (le 40 9)) (w_sig w).
Proof.
  intros enc ord_pub ord_sign H28 H32 keys SH b.
  assert (W : Forall (wf_skey unit (fun _ => tt) enc) keys).
  { constructor; [vm_compute; reflexivity|]. constructor; [|constructor].
    split; [vm_compute; reflexivity|]. split; vm_compute; reflexivity. }
  split; [exact W|]. split; [constructor; [vm_compute; reflexivity|]; constructor; [vm_compute; reflexivity|constructor]|]. split; [vm_compute; reflexivity|].
  apply (witnesses_valid unit tt (fun _ _ => tt) (fun _ => tt) (fun _ => tt) enc (fun _ => Some tt) (fun _ => 0)); auto.
  all: try (intros []; reflexivity).
  all: try (vm_compute; reflexivity).
  intros seed m _. split; [vm_compute; reflexivity|]. exists tt, tt. repeat split; vm_compute; reflexivity.
Qed.
