(* WitnessProofs.v — proofs for C10 (model and specification in Witness.v). *)
From Coq Require Import NArith ZArith String List Bool Lia.
From Coq Require Import Init.Byte.
From Coq Require Import ZifyBool ZifyN ZifyNat.
From PyC Require Import Base Witness.
Import ListNotations.
Open Scope N_scope.
Ltac Zify.zify_post_hook ::= Z.to_euclidean_division_equations.

(* ================================================================== membership *)
Lemma memb_In h l : memb h l = true <-> In h l.
Proof.
  unfold memb. rewrite existsb_exists. split.
  - intros (x & Hx & E). apply bytes_eqb_eq in E. now subst.
  - intros H. exists h. split; [exact H | apply bytes_eqb_refl].
Qed.
Lemma memb_false h l : memb h l = false <-> ~ In h l.
Proof.
  split; intros H.
  - intros HI. apply memb_In in HI. congruence.
  - destruct (memb h l) eqn:E; [apply memb_In in E; contradiction | reflexivity].
Qed.

Lemma dedup_In h l : In h (dedup l) <-> In h l.
Proof.
  induction l as [|x l IH]; cbn; [tauto|].
  destruct (memb x l) eqn:E.
  - rewrite IH. split; [auto|]. intros [->|H]; [now apply memb_In | exact H].
  - cbn. rewrite IH. tauto.
Qed.
Lemma dedup_NoDup l : NoDup (dedup l).
Proof.
  induction l as [|x l IH]; cbn; [constructor|].
  destruct (memb x l) eqn:E; [exact IH|].
  constructor; [|exact IH]. rewrite dedup_In. now apply memb_false.
Qed.

Lemma subsetb_spec a b : subsetb a b = true <-> (forall x, In x a -> In x b).
Proof.
  unfold subsetb. rewrite forallb_forall. split; intros H x Hx.
  - now apply memb_In, H.
  - now apply memb_In, H.
Qed.
Lemma set_eqb_spec a b : set_eqb a b = true <-> (forall x, In x a <-> In x b).
Proof.
  unfold set_eqb. rewrite andb_true_iff, !subsetb_spec. firstorder.
Qed.

(* ================================================================== native scripts *)
Section NsInd.
  Variable P : nscript -> Prop.
  Hypothesis Hk : forall h, P (NsPubkey h).
  Hypothesis Hall : forall l, Forall P l -> P (NsAll l).
  Hypothesis Hany : forall l, Forall P l -> P (NsAny l).
  Hypothesis Hnk : forall n l, Forall P l -> P (NsNofK n l).
  Hypothesis Hb : forall s, P (NsInvalidBefore s).
  Hypothesis Ha : forall s, P (NsInvalidHereafter s).
  Fixpoint nscript_ind' (s : nscript) : P s :=
    let go := fix go (l : list nscript) : Forall P l :=
      match l with [] => Forall_nil _ | y :: r => Forall_cons _ (nscript_ind' y) (go r) end in
    match s with
    | NsPubkey h => Hk h
    | NsAll l => Hall l (go l)
    | NsAny l => Hany l (go l)
    | NsNofK n l => Hnk n l (go l)
    | NsInvalidBefore s => Hb s
    | NsInvalidHereafter s => Ha s
    end.
End NsInd.

(* the builder's scan reaches exactly the key leaves the specification names *)
Lemma ns_dfs_leaves s : ns_dfs s = Ledger.ns_leaves s.
Proof.
  induction s as [k|l IH|l IH|n l IH|t|t] using nscript_ind'; cbn [Ledger.ns_leaves ns_dfs]; try reflexivity;
    induction IH as [|x r Hx _ IHr]; cbn; try reflexivity; now rewrite Hx, IHr.
Qed.

(* ================================================================== certificates, voters *)
Lemma cert_keys_complete x h : In h (Ledger.cert_keys x) -> In h (certificate_keys x).
Proof. destruct x; cbn; tauto. Qed.

Lemma cert_keys_sound x h :
  In h (certificate_keys x) ->
  In h (Ledger.cert_keys x) \/ In h (match x with StakeRegistration c => cred_keys c | _ => [] end).
Proof. destruct x; cbn; tauto. Qed.

Lemma vote_keys_eq v : vote_keys v = Ledger.voter_keys v.
Proof. now destruct v. Qed.

(* ================================================================== required key hashes *)
Lemma flat_map_incl {A} (f g : A -> list bytes) l h :
  (forall x, In h (f x) -> In h (g x)) -> In h (flat_map f l) -> In h (flat_map g l).
Proof. rewrite !in_flat_map. intros H (x & Hx & Hh). eauto. Qed.

Lemma native_scan_eq b :
  native_scripts_vkey_hashes b = flat_map Ledger.ns_leaves (b_native_scripts b ++ b_attached b).
Proof.
  unfold native_scripts_vkey_hashes. induction (b_native_scripts b ++ b_attached b) as [|s l IH]; cbn; [reflexivity|].
  now rewrite ns_dfs_leaves, IH.
Qed.

Theorem required_complete b kh :
  In kh (Ledger.required_key_hashes (tx_of b)) -> In kh (builder_required b).
Proof.
  unfold Ledger.required_key_hashes, builder_required, tx_of; cbn [d_inputs d_collateral d_required_signers
    d_native_scripts d_certs d_withdrawals d_voters].
  rewrite native_scan_eq.
  unfold input_vkey_hashes, required_signer_vkey_hashes, certificate_vkey_hashes, withdrawal_vkey_hashes, vote_vkey_hashes.
  rewrite flat_map_app, !in_app_iff.
  intros [H|[H|[H|[H|[H|[H|H]]]]]]; auto.
  - tauto.
  - tauto.
  - tauto.
  - do 3 right. left. revert H. apply flat_map_incl. intros x. apply cert_keys_complete.
  - tauto.
  - do 5 right. revert H. apply flat_map_incl. intros x. now rewrite vote_keys_eq.
Qed.

Theorem required_sound b kh :
  In kh (builder_required b) ->
  In kh (Ledger.required_key_hashes (tx_of b)) \/ In kh (legacy_registration_keys b).
Proof.
  unfold Ledger.required_key_hashes, builder_required, tx_of, legacy_registration_keys; cbn [d_inputs d_collateral d_required_signers
    d_native_scripts d_certs d_withdrawals d_voters].
  rewrite native_scan_eq.
  unfold input_vkey_hashes, required_signer_vkey_hashes, certificate_vkey_hashes, withdrawal_vkey_hashes, vote_vkey_hashes.
  rewrite flat_map_app, !in_app_iff.
  intros [[H|H]|[H|[H|[H|[H|H]]]]]; auto.
  - tauto.
  - tauto.
  - tauto.
  - apply in_flat_map in H as (x & Hx & Hh). apply cert_keys_sound in Hh as [Hh|Hh].
    + left. do 4 right. left. apply in_flat_map. eauto.
    + right. apply in_flat_map. eauto.
  - tauto.
  - left. do 6 right. revert H. apply flat_map_incl. intros x. now rewrite vote_keys_eq.
Qed.

Theorem required_complete_all : forall b kh,
  (In kh (Ledger.required_key_hashes (tx_of b)) -> In kh (builder_required b))
  /\ (In kh (builder_required b) -> In kh (Ledger.required_key_hashes (tx_of b)) \/ In kh (legacy_registration_keys b)).
Proof. intros b kh. split; [apply required_complete | apply required_sound]. Qed.

(* non-vacuity *)
Definition kA : bytes := hx "aa". Definition kB : bytes := hx "bb". Definition kC : bytes := hx "cc".

(* every source at once: the ledger set is non-empty and contained in the builder's *)
Definition b_example : bdesc :=
  mkB [KeyH kA; ScriptH kC] [KeyH kB] [kC]
      [NsNofK 1 [NsPubkey (hx "01"); NsAll [NsPubkey (hx "02")]]] [NsAny [NsPubkey (hx "03")]]
      [PoolRegistration (hx "04") [hx "05"; hx "06"]; UnregDRepCertificate (KeyH (hx "07")); StakeRegistration (KeyH (hx "08"));
       AuthCommitteeHotCertificate (KeyH (hx "09")) (KeyH (hx "0a"))]
      [KeyH (hx "0b"); ScriptH (hx "0c")] [VoterDRep (KeyH (hx "0d")); VoterPool (hx "0e"); VoterCommitteeHot (ScriptH (hx "0f"))] None.
Example required_complete_nonvacuous :
  map tohex (Ledger.required_key_hashes (tx_of b_example))
  = ["aa"; "bb"; "cc"; "01"; "02"; "03"; "04"; "05"; "06"; "07"; "09"; "0b"; "0d"; "0e"]%string
  /\ forallb (fun h => memb h (builder_required b_example)) (Ledger.required_key_hashes (tx_of b_example)) = true.
Proof. vm_compute. auto. Qed.

(* legacy registration: asked for by the builder, not needed by the ledger *)
Lemma legacy_registration_overincluded :
  exists b kh, In kh (builder_required b) /\ ~ In kh (Ledger.required_key_hashes (tx_of b)).
Proof.
  exists (mkB [] [] [] [] [] [StakeRegistration (KeyH kA)] [] [] None), kA.
  split; cbn; tauto.
Qed.
