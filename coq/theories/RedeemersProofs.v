(* RedeemersProofs.v — proofs for C11.
   Part A: sorting, rank and index lemmas over an arbitrary strict total order.
   Part B: the code's sort keys coincide with the ledger's orders.
   Part C: invariants of the add_* calls.
   Part D: the four theorems. *)
From Coq Require Import NArith ZArith Ascii String List Bool Lia Permutation Sorted.
From Coq Require Import Init.Byte.
From Coq Require Import ZifyBool ZifyN ZifyNat.
From PyC Require Import Base Cbor Redeemers.
Import ListNotations.
Ltac Zify.zify_post_hook ::= Z.to_euclidean_division_equations.

(* ====================== Part A: sorting ====================== *)
Lemma filter_all_false {A} (p : A -> bool) l : (forall y, In y l -> p y = false) -> filter p l = [].
Proof.
  induction l as [|h r IH]; cbn; intros H; [reflexivity|].
  rewrite (H h) by now left. apply IH. intros y Hy. apply H. now right.
Qed.
Section SortFacts.
  Context {A : Type} (ltb : A -> A -> bool).
  Hypothesis irrefl : forall x, ltb x x = false.
  Hypothesis trans : forall x y z, ltb x y = true -> ltb y z = true -> ltb x z = true.
  Hypothesis total : forall x y, x <> y -> ltb x y = true \/ ltb y x = true.
  Definition lt (x y : A) : Prop := ltb x y = true.

  Lemma asym x y : ltb x y = true -> ltb y x = false.
  Proof.
    intros H. destruct (ltb y x) eqn:E; [|reflexivity].
    pose proof (trans _ _ _ H E) as T. now rewrite irrefl in T.
  Qed.

  Lemma insert_perm x l : Permutation (insert ltb x l) (x :: l).
  Proof.
    induction l as [|h r IH]; cbn; [reflexivity|].
    destruct (ltb h x); [|reflexivity]. rewrite IH. apply perm_swap.
  Qed.
  Lemma isort_perm l : Permutation (isort ltb l) l.
  Proof. induction l as [|x l IH]; cbn; [reflexivity|]. rewrite insert_perm. now constructor. Qed.

  Lemma insert_sorted x l : ~ In x l -> StronglySorted lt l -> StronglySorted lt (insert ltb x l).
  Proof.
    induction l as [|h r IH]; cbn; intros Hn S.
    - constructor; constructor.
    - inversion S as [|? ? Sr Fh]; subst.
      destruct (ltb h x) eqn:E.
      + constructor; [apply IH; auto|].
        rewrite Forall_forall in *. intros y Hy.
        apply (Permutation_in _ (insert_perm x r)) in Hy. destruct Hy as [<-|Hy]; [exact E | now apply Fh].
      + assert (T : ltb x h = true).
        { destruct (total x h) as [T|T]; [intros ->; apply Hn; now left | exact T | congruence]. }
        constructor; [exact S|]. constructor; [exact T|].
        rewrite Forall_forall in *. intros y Hy. eapply trans; [exact T | now apply Fh].
  Qed.

  Lemma isort_sorted l : NoDup l -> StronglySorted lt (isort ltb l).
  Proof.
    induction l as [|x l IH]; cbn; intros H; [constructor|].
    inversion H as [|? ? Hn Hr]; subst. apply insert_sorted; [|now apply IH].
    intros X. apply Hn. eapply Permutation_in; [apply isort_perm | exact X].
  Qed.

  (* a strictly sorted list is a fixed point of the sort *)
  Lemma isort_sorted_id l : StronglySorted lt l -> isort ltb l = l.
  Proof.
    induction l as [|h r IH]; intros S; [reflexivity|].
    change (isort ltb (h :: r)) with (insert ltb h (isort ltb r)).
    inversion S as [|? ? Sr Fh]; subst. rewrite (IH Sr).
    destruct r as [|h2 r']; [reflexivity|]. cbn.
    inversion Fh as [|? ? L _]; subst. now rewrite (asym _ _ L).
  Qed.

  (* in a strictly sorted list the position of an element is the number of smaller elements *)
  Lemma sorted_nth_rank l : StronglySorted lt l -> forall i x, nth_error l i = Some x -> rank ltb x l = i.
  Proof.
    unfold rank. induction l as [|h r IH]; intros S i x H; [destruct i; discriminate|].
    inversion S as [|? ? Sr Fh]; subst. rewrite Forall_forall in Fh.
    destruct i as [|i]; cbn in H.
    - inversion H; subst. cbn. rewrite irrefl.
      rewrite (filter_all_false _ r) by (intros y Hy; apply asym; now apply Fh). reflexivity.
    - cbn. assert (Hx : In x r) by (eapply nth_error_In; eauto).
      rewrite (Fh _ Hx). cbn. f_equal. now apply IH.
  Qed.

  Lemma rank_perm x l l' : Permutation l l' -> rank ltb x l = rank ltb x l'.
  Proof.
    unfold rank. intros P. induction P; cbn; auto.
    - destruct (ltb x0 x); cbn; congruence.
    - destruct (ltb y x), (ltb x0 x); cbn; reflexivity.
    - congruence.
  Qed.

  (* the ledger pointer: position in the sorted set = number of smaller members *)
  Lemma isort_nth_rank l : NoDup l -> forall i x, nth_error (isort ltb l) i = Some x -> rank ltb x l = i.
  Proof.
    intros N i x H. rewrite (rank_perm x l (isort ltb l)) by (symmetry; apply isort_perm).
    eapply sorted_nth_rank; eauto. now apply isort_sorted.
  Qed.
End SortFacts.

Lemma isort_cons {A} (ltb : A -> A -> bool) x l : isort ltb (x :: l) = insert ltb x (isort ltb l).
Proof. reflexivity. Qed.
Lemma insert_ext {A} (l1 l2 : A -> A -> bool) x l :
  (forall y, In y l -> l1 y x = l2 y x) -> insert l1 x l = insert l2 x l.
Proof.
  induction l as [|h r IH]; cbn; intros H; [reflexivity|].
  rewrite (H h) by now left. destruct (l2 h x); [|reflexivity]. f_equal. apply IH. intros y Hy. apply H. now right.
Qed.
Lemma insert_in {A} (ltb : A -> A -> bool) x l y : In y (insert ltb x l) -> y = x \/ In y l.
Proof.
  induction l as [|h r IH]; cbn; [intuition|].
  destruct (ltb h x); cbn; intuition.
Qed.
Lemma isort_in {A} (ltb : A -> A -> bool) l y : In y (isort ltb l) -> In y l.
Proof.
  induction l as [|x l IH]; [auto|]. rewrite isort_cons. intros H. apply insert_in in H. destruct H as [->|H]; [now left | right; auto].
Qed.
(* two orders that agree on the members of a list sort it identically *)
Lemma isort_ext {A} (l1 l2 : A -> A -> bool) l :
  (forall x y, In x l -> In y l -> l1 x y = l2 x y) -> isort l1 l = isort l2 l.
Proof.
  induction l as [|x l IH]; intros H; [reflexivity|]. rewrite !isort_cons.
  rewrite IH by (intros; apply H; now right).
  apply insert_ext. intros y Hy. apply H; [right; eapply isort_in; eauto | now left].
Qed.
Lemma insert_map {A B} (f : A -> B) (la : A -> A -> bool) (lb : B -> B -> bool) x l :
  (forall a b, la a b = lb (f a) (f b)) -> map f (insert la x l) = insert lb (f x) (map f l).
Proof.
  intros H. induction l as [|h r IH]; cbn; [reflexivity|].
  rewrite <- H. destruct (la h x); cbn; [now rewrite IH | reflexivity].
Qed.
Lemma isort_map {A B} (f : A -> B) (la : A -> A -> bool) (lb : B -> B -> bool) l :
  (forall a b, la a b = lb (f a) (f b)) -> map f (isort la l) = isort lb (map f l).
Proof.
  intros H. induction l as [|x l IH]; [reflexivity|]. cbn [map]. rewrite !isort_cons.
  rewrite (insert_map f la lb) by exact H. now rewrite IH.
Qed.

Lemma index_of_nth {A} (eqb : A -> A -> bool) x l i :
  index_of eqb x l = Some i -> exists y, nth_error l i = Some y /\ eqb y x = true.
Proof.
  revert i. induction l as [|h r IH]; cbn; intros i H; [discriminate|].
  destruct (eqb h x) eqn:E.
  - inversion H; subst. exists h. auto.
  - destruct (index_of eqb x r) as [j|]; cbn in H; [|discriminate]. inversion H; subst.
    destruct (IH j eq_refl) as [y [Hy Ey]]. exists y. auto.
Qed.
Lemma index_of_some {A} (eqb : A -> A -> bool) x l :
  (exists y, In y l /\ eqb y x = true) -> exists i, index_of eqb x l = Some i.
Proof.
  induction l as [|h r IH]; cbn; intros [y [Hy E]]; [contradiction|].
  destruct (eqb h x) eqn:E'; [eauto|].
  destruct Hy as [->|Hy]; [congruence|]. destruct IH as [i Hi]; [eauto|]. rewrite Hi. cbn. eauto.
Qed.

(* ====================== Part B: the orders ====================== *)
Open Scope N_scope.

(* ----- bytes order facts ----- *)
Lemma bytes_ltb_app_same h : forall a b, bytes_ltb (h ++ a) (h ++ b) = bytes_ltb a b.
Proof. induction h as [|x h IH]; intros a b; cbn; [reflexivity|]. now rewrite N.ltb_irrefl, IH. Qed.

Lemma lenN_len {A} (a b : list A) : length a = length b -> lenN a = lenN b.
Proof. intros H. now rewrite !lenN_length, H. Qed.

(* to_cbor order on equal-length byte strings is the bytewise order *)
Lemma code_pol_ltb_bytes a b : length a = length b -> code_pol_ltb a b = bytes_ltb a b.
Proof.
  intros H. unfold code_pol_ltb. cbn [enc]. rewrite (lenN_len a b H). apply bytes_ltb_app_same.
Qed.

(* ----- hex strings ----- *)
Definition hc (n : N) : N := N_of_ascii (hexdig n).
Lemma hc_val n : n < 16 -> hc n = if n <? 10 then 48 + n else 87 + n.
Proof.
  intros H. unfold hc, hexdig. apply N_ascii_embedding. destruct (n <? 10) eqn:E; lia.
Qed.
Lemma hc_ltb n m : n < 16 -> m < 16 -> (hc n <? hc m) = (n <? m).
Proof.
  intros Hn Hm. rewrite !hc_val by assumption.
  destruct (n <? 10) eqn:E1, (m <? 10) eqn:E2; lia.
Qed.
Lemma hc_inj n m : n < 16 -> m < 16 -> hc n = hc m -> n = m.
Proof.
  intros Hn Hm. rewrite !hc_val by assumption.
  destruct (n <? 10) eqn:E1, (m <? 10) eqn:E2; lia.
Qed.

Lemma nib_hi x : b2n x / 16 < 16.
Proof. pose proof (b2n_lt x). lia. Qed.
Lemma nib_lo x : b2n x mod 16 < 16.
Proof. pose proof (b2n_lt x). lia. Qed.

(* Python's order on lower-case hex strings is the bytewise order of the decoded bytes *)
Lemma str_ltb_tohex a : forall b, str_ltb (tohex a) (tohex b) = bytes_ltb a b.
Proof.
  induction a as [|x a IH]; intros [|y b]; cbn [tohex str_ltb bytes_ltb]; try reflexivity.
  fold (hc (b2n x / 16)) (hc (b2n y / 16)) (hc (b2n x mod 16)) (hc (b2n y mod 16)).
  rewrite !hc_ltb by (apply nib_hi || apply nib_lo). rewrite IH.
  pose proof (b2n_lt x). pose proof (b2n_lt y).
  destruct (b2n x / 16 <? b2n y / 16) eqn:E1; [destruct (b2n x <? b2n y) eqn:F; [reflexivity | lia]|].
  destruct (b2n y / 16 <? b2n x / 16) eqn:E2.
  { destruct (b2n x <? b2n y) eqn:F; [lia|]. destruct (b2n y <? b2n x) eqn:G; [reflexivity | lia]. }
  destruct (b2n x mod 16 <? b2n y mod 16) eqn:E3; [destruct (b2n x <? b2n y) eqn:F; [reflexivity | lia]|].
  destruct (b2n y mod 16 <? b2n x mod 16) eqn:E4.
  { destruct (b2n x <? b2n y) eqn:F; [lia|]. destruct (b2n y <? b2n x) eqn:G; [reflexivity | lia]. }
  destruct (b2n x <? b2n y) eqn:F; [lia|]. destruct (b2n y <? b2n x) eqn:G; [lia | reflexivity].
Qed.

Lemma ascii_eqb_hc c d : Ascii.eqb c d = (N_of_ascii c =? N_of_ascii d).
Proof.
  destruct (Ascii.eqb_spec c d) as [->|Hn]; [now rewrite N.eqb_refl|].
  symmetry. apply N.eqb_neq. intros E. apply Hn.
  rewrite <- (ascii_N_embedding c), <- (ascii_N_embedding d). now rewrite E.
Qed.

Lemma str_eqb_tohex a : forall b, String.eqb (tohex a) (tohex b) = bytes_eqb a b.
Proof.
  induction a as [|x a IH]; intros [|y b]; cbn [tohex String.eqb bytes_eqb]; try reflexivity.
  rewrite !ascii_eqb_hc. fold (hc (b2n x / 16)) (hc (b2n y / 16)) (hc (b2n x mod 16)) (hc (b2n y mod 16)).
  rewrite IH. unfold byte_eqb.
  pose proof (nib_hi x). pose proof (nib_hi y). pose proof (nib_lo x). pose proof (nib_lo y).
  destruct (hc (b2n x / 16) =? hc (b2n y / 16)) eqn:E1.
  - apply N.eqb_eq, hc_inj in E1; try assumption.
    destruct (hc (b2n x mod 16) =? hc (b2n y mod 16)) eqn:E2.
    + apply N.eqb_eq, hc_inj in E2; try assumption.
      replace (b2n x =? b2n y) with true by (symmetry; apply N.eqb_eq; lia). reflexivity.
    + replace (b2n x =? b2n y) with false; [reflexivity|].
      symmetry. apply N.eqb_neq. intros E. rewrite E in E2. now rewrite N.eqb_refl in E2.
  - replace (b2n x =? b2n y) with false; [reflexivity|].
    symmetry. apply N.eqb_neq. intros E. rewrite E in E1. now rewrite N.eqb_refl in E1.
Qed.

(* the builder's sort key (str(tx id), index) orders inputs as the ledger does *)
Lemma code_in_ltb_txin a b : code_in_ltb a b = txin_ltb (u_in a) (u_in b).
Proof. unfold code_in_ltb, txin_ltb. now rewrite str_ltb_tohex, str_eqb_tohex. Qed.

(* ----- txin order is a strict total order ----- *)
Lemma txin_eqb_eq a b : txin_eqb a b = true <-> a = b.
Proof.
  unfold txin_eqb. destruct a as [i n], b as [j m]; cbn. rewrite andb_true_iff, bytes_eqb_eq, N.eqb_eq.
  split; [intros [-> ->]; reflexivity | intros H; inversion H; auto].
Qed.
Lemma txin_ltb_irrefl x : txin_ltb x x = false.
Proof. unfold txin_ltb. now rewrite bytes_ltb_irrefl, N.ltb_irrefl, andb_false_r. Qed.
Lemma txin_ltb_trans x y z : txin_ltb x y = true -> txin_ltb y z = true -> txin_ltb x z = true.
Proof.
  unfold txin_ltb. destruct x as [a i], y as [b j], z as [c k]; cbn.
  rewrite !orb_true_iff, !andb_true_iff, !bytes_eqb_eq, !N.ltb_lt.
  intros [H1|[-> H1]] [H2|[-> H2]]; auto.
  - left. eapply bytes_ltb_trans; eauto.
  - right. split; [reflexivity | lia].
Qed.
Lemma txin_ltb_total x y : x <> y -> txin_ltb x y = true \/ txin_ltb y x = true.
Proof.
  unfold txin_ltb. destruct x as [a i], y as [b j]; cbn. intros H.
  destruct (bytes_eq_dec a b) as [->|Hn].
  - rewrite bytes_ltb_irrefl, bytes_eqb_refl. cbn.
    assert (i <> j) by congruence. rewrite !N.ltb_lt. lia.
  - destruct (bytes_ltb_total _ _ Hn) as [T|T]; rewrite T; auto.
Qed.

(* ----- reward accounts: bytewise order = ledger order on script accounts ----- *)
Lemma acct_ltb_script a b : is_script_acct a = true -> is_script_acct b = true -> acct_ltb a b = bytes_ltb a b.
Proof.
  destruct a as [|x a], b as [|y b]; cbn [is_script_acct]; try discriminate.
  intros Ha Hb. apply N.eqb_eq in Ha, Hb. unfold acct_ltb, acct_key. rewrite Ha, Hb. cbn [N.eqb bytes_ltb].
  pose proof (b2n_lt x). pose proof (b2n_lt y).
  replace (15 =? 15) with true by reflexivity. cbn [N.ltb N.compare orb andb].
  change (0 <? 0) with false. change (0 =? 0) with true. cbn [orb andb].
  destruct (b2n x <? b2n y) eqn:E1.
  { replace (b2n x mod 16 <? b2n y mod 16) with true by lia. reflexivity. }
  destruct (b2n y <? b2n x) eqn:E2.
  { replace (b2n x mod 16 <? b2n y mod 16) with false by lia.
    replace (b2n x mod 16 =? b2n y mod 16) with false by lia. reflexivity. }
  replace (b2n x mod 16 <? b2n y mod 16) with false by lia.
  replace (b2n x mod 16 =? b2n y mod 16) with true by lia. reflexivity.
Qed.

(* ====================== Part C: invariants of the add_* calls ====================== *)
Lemma lang_eqb_eq a b : lang_eqb a b = true <-> a = b.
Proof. destruct a, b; cbn; split; intros H; try reflexivity; try discriminate. Qed.
Lemma script_eqb_eq a b : script_eqb a b = true <-> a = b.
Proof.
  destruct a as [l h], b as [l' h']; unfold script_eqb; cbn.
  rewrite andb_true_iff, lang_eqb_eq, bytes_eqb_eq. split; [intros [-> ->]; reflexivity | intros H; inversion H; auto].
Qed.
Lemma odatum_eqb_eq a b : odatum_eqb a b = true <-> a = b.
Proof.
  destruct a, b; cbn; try rewrite bytes_eqb_eq; split; intros H; try reflexivity; try discriminate; try congruence.
Qed.
Lemma oscript_eqb_eq a b : oscript_eqb a b = true <-> a = b.
Proof.
  destruct a, b; cbn; try rewrite script_eqb_eq; split; intros H; try reflexivity; try discriminate; congruence.
Qed.
Lemma utxo_eqb_eq a b : utxo_eqb a b = true <-> a = b.
Proof.
  destruct a, b; unfold utxo_eqb; cbn.
  rewrite !andb_true_iff, txin_eqb_eq, Bool.eqb_true_iff, bytes_eqb_eq, odatum_eqb_eq, oscript_eqb_eq.
  split; [intros [[[[-> ->] ->] ->] ->]; reflexivity | intros H; inversion H; auto].
Qed.

Section Assoc.
  Context {A : Type} (eqb : A -> A -> bool).
  Hypothesis eqb_eq : forall a b, eqb a b = true <-> a = b.

  Lemma mem_In x l : mem eqb x l = true <-> In x l.
  Proof.
    unfold mem. rewrite existsb_exists. split.
    - intros [h [Hh E]]. apply eqb_eq in E. now subst.
    - intros H. exists x. split; [exact H | now apply eqb_eq].
  Qed.
  Lemma set_add_In x s y : In x (set_add eqb s y) <-> In x s \/ x = y.
  Proof.
    unfold set_add. destruct (mem eqb y s) eqn:E.
    - apply mem_In in E. split; [auto | intros [H|H]; [auto | subst; auto]].
    - rewrite in_app_iff. cbn. intuition.
  Qed.
  Lemma aset_In {V} (d : list (A * V)) k v k' v' :
    In (k', v') (aset eqb d k v) -> In (k', v') d \/ (k' = k /\ v' = v).
  Proof.
    induction d as [|[k0 v0] r IH]; cbn.
    - intros [H|[]]. inversion H; auto.
    - destruct (eqb k0 k) eqn:E; cbn.
      + apply eqb_eq in E. subst. intros [H|H]; [inversion H; subst; auto | auto].
      + intros [H|H]; [auto|]. destruct (IH H); auto.
  Qed.
  Lemma aset_keep {V} (d : list (A * V)) k v k' v' :
    In (k', v') d -> In (k', v') (aset eqb d k v) \/ k' = k.
  Proof.
    induction d as [|[k0 v0] r IH]; cbn; [contradiction|].
    destruct (eqb k0 k) eqn:E; cbn.
    - apply eqb_eq in E. subst. intros [H|H]; [inversion H; subst; auto | auto].
    - intros [H|H]; [auto|]. destruct (IH H); auto.
  Qed.
  Lemma aset_has {V} (d : list (A * V)) k v : In (k, v) (aset eqb d k v).
  Proof.
    induction d as [|[k0 v0] r IH]; cbn; [auto|].
    destruct (eqb k0 k) eqn:E; cbn; [apply eqb_eq in E; subst; auto | auto].
  Qed.
  Lemma aset_keys {V} (d : list (A * V)) k v x : In x (map fst (aset eqb d k v)) <-> In x (map fst d) \/ x = k.
  Proof.
    induction d as [|[k0 v0] r IH]; cbn; [intuition|].
    destruct (eqb k0 k) eqn:E; cbn.
    - apply eqb_eq in E. subst. intuition.
    - rewrite IH. intuition.
  Qed.
  Lemma aset_nodup {V} (d : list (A * V)) k v : NoDup (map fst d) -> NoDup (map fst (aset eqb d k v)).
  Proof.
    induction d as [|[k0 v0] r IH]; cbn; intros H.
    - constructor; [intros []|constructor].
    - inversion H as [|? ? Hn Hr]; subst. destruct (eqb k0 k) eqn:E; cbn.
      + constructor; assumption.
      + constructor; [|now apply IH]. rewrite aset_keys. intros [X|X]; [contradiction|].
        subst. assert (eqb k k = true) by now apply eqb_eq. congruence.
  Qed.
End Assoc.

Lemma In_somes {A} (l : list (option A)) x : In x (somes l) <-> In (Some x) l.
Proof.
  unfold somes. rewrite in_flat_map. split.
  - intros [[y|] [H1 H2]]; cbn in H2; [destruct H2 as [->|[]]; exact H1 | contradiction].
  - intros H. exists (Some x). cbn. auto.
Qed.
Lemma scripts_on_In l s : In s (scripts_on l) <-> exists u, In u l /\ u_script u = Some s.
Proof.
  unfold scripts_on. rewrite In_somes, in_map_iff. split; intros [u [H1 H2]]; exists u; auto.
Qed.

Lemma consolidate_keeps est r est' r' : consolidate est r = Ok (est', r') ->
  r_id r' = r_id r /\ r_tag r' = r_tag r /\ r_index r' = r_index r /\ r_data r' = r_data r.
Proof.
  unfold consolidate. destruct est as [[|]|]; cbn;
    destruct (truthy (r_units r)); cbn; intros H; inversion H; subst; cbn; auto.
Qed.

Lemma candidates_ok u src cands : candidates u src = Ok cands ->
  forall s c, In (s, Some c) cands -> u_script c = Some s.
Proof.
  unfold candidates. destruct (u_script u) as [s0|] eqn:E.
  - intros H; inversion H; subst. intros s' c [X|[]]. inversion X; subst. exact E.
  - destruct src as [pool|ru|s1].
    + intros H; inversion H; subst. intros s c X. apply in_flat_map in X. destruct X as [i [_ Hi]].
      destruct (u_script i) eqn:Ei; [|contradiction]. destruct Hi as [X|[]]. inversion X; subst. exact Ei.
    + destruct (u_script ru) eqn:Er; intros H; inversion H; subst. intros s' c [X|[]]. inversion X; subst. exact Er.
    + intros H; inversion H; subst. intros s c [X|[]]. inversion X.
Qed.

(* what a successful add_script_input did *)
Lemma asi_inv st u src d r st' : add_script_input st u src d r = Ok st' ->
  exists in_rdm est s isref c,
    match r with
    | None => in_rdm = b_in_rdm st /\ est = b_est st
    | Some rd => exists rd', consolidate (b_est st) (set_tag rd TAG_SPEND) = Ok (est, rd')
                             /\ in_rdm = aset utxo_eqb (b_in_rdm st) u rd'
    end
    /\ s_hash s = u_pay u
    /\ (isref = true -> u_script c = Some s)
    /\ (forall h dd, u_dat u = OHash h -> d = Some dd -> h = d_hash dd)
    /\ st' = mkB (b_inputs st ++ [u]) in_rdm (aset utxo_eqb (b_in_scr st) u s) (b_mint st) (b_wdrl st) (b_cert st)
                 (if isref then set_add utxo_eqb (b_refin st) c else b_refin st)
                 (if isref then b_refscr st ++ [s] else b_refscr st)
                 (match d with Some dd => aset bytes_eqb (b_datums st) (d_hash dd) dd | None => b_datums st end)
                 (b_native st) (b_certs st) est.
Proof.
  unfold add_script_input.
  destruct (negb (u_saddr u)); [discriminate|].
  destruct (match u_dat u with OHash h => match d with Some dd => negb (bytes_eqb h (d_hash dd)) | None => false end | _ => false end) eqn:Edh; [discriminate|].
  destruct (match u_dat u with OInline _ => match d with Some _ => true | None => false end | _ => false end); [discriminate|].
  assert (Hd : forall h dd, u_dat u = OHash h -> d = Some dd -> h = d_hash dd).
  { intros h dd H1 H2. rewrite H1, H2 in Edh. apply negb_false_iff, bytes_eqb_eq in Edh. exact Edh. }
  destruct (match r with
            | Some rd => if negb (tag_ok rd TAG_SPEND) then Err EInvalidArg
                         else bind (consolidate (b_est st) (set_tag rd TAG_SPEND))
                                (fun er => Ok (fst er, aset utxo_eqb (b_in_rdm st) u (snd er)))
            | None => Ok (b_est st, b_in_rdm st) end) as [[est in_rdm]|e] eqn:Er; cbn [bind]; [|discriminate].
  destruct (candidates u src) as [cands|e] eqn:Ec; cbn [bind]; [|discriminate].
  destruct (find (fun c => bytes_eqb (s_hash (fst c)) (u_pay u)) cands) as [[s cu]|] eqn:Ef; [|discriminate].
  intros H. inversion H; subst; clear H.
  apply find_some in Ef. destruct Ef as [Hin Hh]. cbn in Hh. apply bytes_eqb_eq in Hh.
  exists in_rdm, est, s.
  exists (match cu with Some c => negb (utxo_eqb c u) | None => false end), (match cu with Some c => c | None => u end).
  split.
  { destruct r as [rd|].
    - destruct (negb (tag_ok rd TAG_SPEND)); [discriminate|].
      destruct (consolidate (b_est st) (set_tag rd TAG_SPEND)) as [[e1 r1]|] eqn:Ecs; cbn in Er; [|discriminate].
      inversion Er; subst. exists r1. auto.
    - inversion Er; subst. auto. }
  split; [exact Hh|]. split.
  { destruct cu as [c|]; [|discriminate]. intros _. eapply candidates_ok; eauto. }
  split; [exact Hd|].
  cbn [fst snd]. destruct cu as [c|]; [destruct (negb (utxo_eqb c u))|]; reflexivity.
Qed.

Lemma resolve_src_inv st src s refin refscr : resolve_src st src = Ok (s, refin, refscr) ->
  src_script src = Some s /\
  ((refin = b_refin st /\ refscr = b_refscr st) \/
   exists ru, u_script ru = Some s /\ refin = set_add utxo_eqb (b_refin st) ru /\ refscr = b_refscr st ++ [s]).
Proof.
  destruct src as [pool|ru|s1]; cbn; [discriminate| |].
  - destruct (u_script ru) eqn:E; intros H; inversion H; subst. split; [reflexivity|]. right. exists ru. auto.
  - intros H; inversion H; subst. auto.
Qed.

Lemma prep_rdm_inv est r t est' r' : prep_rdm est r t = Ok (est', r') ->
  (r = None /\ r' = None) \/
  exists rd rd', r = Some rd /\ r' = Some rd' /\ r_id rd' = r_id rd /\ r_tag rd' = Some t /\ r_index rd' = r_index rd.
Proof.
  unfold prep_rdm. destruct r as [rd|]; [|intros H; inversion H; auto].
  destruct (negb (tag_ok rd t)); [discriminate|].
  destruct (consolidate est (set_tag rd t)) as [[e1 r1]|] eqn:E; cbn; [|discriminate].
  intros H; inversion H; subst. right. exists rd, r1.
  apply consolidate_keeps in E. cbn in E. intuition.
Qed.

(* ---------- group 1: what every stored redeemer was attached to ---------- *)
Record inv1 (st : bstate) (A : list (N * item)) : Prop := {
  i_spend : forall u r, In (u, r) (b_in_rdm st) ->
              r_tag r = Some TAG_SPEND /\ In (r_id r, ISpend (u_in u)) A /\ In u (b_inputs st);
  i_mint : forall s r, In (s, Some r) (b_mint st) -> r_tag r = Some TAG_MINT /\ In (r_id r, IMint (s_hash s)) A;
  i_wdrl : forall s r, In (s, Some r) (b_wdrl st) -> r_tag r = Some TAG_REWARD /\ In (r_id r, IReward (s_hash s)) A;
  i_cert : forall s r, In (s, Some r) (b_cert st) ->
              r_tag r = Some TAG_CERT /\ exists c, In (r_id r, ICert c) A /\ nth_error (b_certs st) (r_index r) = Some c
}.

Lemma inv1_weaken st A B : inv1 st A -> inv1 st (A ++ B).
Proof.
  intros [H1 H2 H3 H4]. constructor; intros.
  - destruct (H1 _ _ H) as [a [b c]]. rewrite in_app_iff. auto.
  - destruct (H2 _ _ H) as [a b]. rewrite in_app_iff. auto.
  - destruct (H3 _ _ H) as [a b]. rewrite in_app_iff. auto.
  - destruct (H4 _ _ H) as [a [c [b1 b2]]]. split; [auto|]. exists c. rewrite in_app_iff. auto.
Qed.

Lemma last_nth {A} (l : list A) (d : A) : l <> [] -> nth_error l (length l - 1) = Some (last l d).
Proof.
  induction l as [|x l IH]; [congruence|]. intros _. destruct l as [|y l]; [reflexivity|].
  cbn [length]. replace (S (S (length l)) - 1)%nat with (S (length (y :: l) - 1)) by (cbn; lia).
  cbn [nth_error]. rewrite IH by congruence. reflexivity.
Qed.

Lemma bstep_inv1 st op st' A : bstep st op = Ok st' -> inv1 st A ->
  inv1 st' (A ++ att_step (b_certs st) op) /\ b_certs st' = certs_step (b_certs st) op.
Proof.
  intros Hs I. destruct op as [u|u src d r|src r|src r|src r|c|d|cu|ru|d]; cbn [bstep] in Hs.
  - (* AddInput *)
    inversion Hs; subst; clear Hs. split; [|reflexivity]. cbn [att_step]. rewrite app_nil_r.
    destruct I as [H1 H2 H3 H4]. constructor; cbn; auto.
    intros u0 r0 H. destruct (H1 _ _ H) as [a [b c]]. rewrite in_app_iff. auto.
  - (* AddScriptInput *)
    apply asi_inv in Hs. destruct Hs as [in_rdm [est [s [isref [c [Hr [Hh [Hc [Hd ->]]]]]]]]].
    split; [|reflexivity]. destruct I as [H1 H2 H3 H4].
    constructor; cbn [b_in_rdm b_inputs b_mint b_wdrl b_cert b_certs].
    + intros u0 r0 H. destruct r as [rd|].
      * destruct Hr as [rd' [Hcs ->]]. apply (aset_In utxo_eqb utxo_eqb_eq) in H. destruct H as [H|[-> ->]].
        -- destruct (H1 _ _ H) as [a [b c0]]. rewrite !in_app_iff. auto.
        -- apply consolidate_keeps in Hcs. destruct Hcs as [E1 [E2 [E3 E4]]]. cbn in *.
           rewrite E1, E2. rewrite !in_app_iff. cbn. auto.
      * destruct Hr as [-> ->]. destruct (H1 _ _ H) as [a [b c0]]. rewrite !in_app_iff. auto.
    + intros s0 r0 H. destruct (H2 _ _ H). rewrite in_app_iff. auto.
    + intros s0 r0 H. destruct (H3 _ _ H). rewrite in_app_iff. auto.
    + intros s0 r0 H. destruct (H4 _ _ H) as [a [c0 [b1 b2]]]. split; [auto|]. exists c0. rewrite in_app_iff. auto.
  - (* AddMintingScript *)
    unfold add_minting_script in Hs.
    destruct (prep_rdm (b_est st) r TAG_MINT) as [[est r']|] eqn:Ep; cbn [bind] in Hs; [|discriminate].
    destruct (resolve_src st src) as [[[s refin] refscr]|] eqn:Er; cbn [bind] in Hs; [|discriminate].
    inversion Hs; subst; clear Hs. split; [|reflexivity].
    apply resolve_src_inv in Er. destruct Er as [Es _].
    apply inv1_weaken with (B := att_step (b_certs st) (AddMintingScript src r)) in I.
    destruct I as [H1 H2 H3 H4]. constructor; cbn [b_in_rdm b_inputs b_mint b_wdrl b_cert b_certs fst snd]; auto.
    intros s0 r0 H. apply in_app_iff in H. destruct H as [H|[H|[]]]; [auto|].
    inversion H; subst. apply prep_rdm_inv in Ep. destruct Ep as [[_ X]|[rd [rd' [-> [X [E1 [E2 E3]]]]]]]; [discriminate|].
    inversion X; subst. split; [exact E2|]. rewrite in_app_iff. right. cbn [att_step]. rewrite Es, E1. now left.
  - (* AddWithdrawalScript *)
    unfold add_withdrawal_script in Hs.
    destruct (prep_rdm (b_est st) r TAG_REWARD) as [[est r']|] eqn:Ep; cbn [bind] in Hs; [|discriminate].
    destruct (resolve_src st src) as [[[s refin] refscr]|] eqn:Er; cbn [bind] in Hs; [|discriminate].
    inversion Hs; subst; clear Hs. split; [|reflexivity].
    apply resolve_src_inv in Er. destruct Er as [Es _].
    apply inv1_weaken with (B := att_step (b_certs st) (AddWithdrawalScript src r)) in I.
    destruct I as [H1 H2 H3 H4]. constructor; cbn [b_in_rdm b_inputs b_mint b_wdrl b_cert b_certs fst snd]; auto.
    intros s0 r0 H. apply in_app_iff in H. destruct H as [H|[H|[]]]; [auto|].
    inversion H; subst. apply prep_rdm_inv in Ep. destruct Ep as [[_ X]|[rd [rd' [-> [X [E1 [E2 E3]]]]]]]; [discriminate|].
    inversion X; subst. split; [exact E2|]. rewrite in_app_iff. right. cbn [att_step]. rewrite Es, E1. now left.
  - (* AddCertificateScript *)
    unfold add_certificate_script in Hs.
    destruct (match r with
              | Some rd => if negb (tag_ok rd TAG_CERT) then Err EInvalidArg
                           else match b_certs st with
                                | [] => Err EAssert
                                | _ :: _ => bind (consolidate (b_est st) (set_tag (set_index rd (length (b_certs st) - 1)) TAG_CERT))
                                              (fun er => Ok (fst er, Some (snd er)))
                                end
              | None => Ok (b_est st, None) end) as [[est r']|] eqn:Ep; cbn [bind] in Hs; [|discriminate].
    destruct (resolve_src st src) as [[[s refin] refscr]|] eqn:Er; cbn [bind] in Hs; [|discriminate].
    inversion Hs; subst; clear Hs. split; [|reflexivity].
    apply inv1_weaken with (B := att_step (b_certs st) (AddCertificateScript src r)) in I.
    destruct I as [H1 H2 H3 H4]. constructor; cbn [b_in_rdm b_inputs b_mint b_wdrl b_cert b_certs fst snd]; auto.
    intros s0 r0 H. apply in_app_iff in H. destruct H as [H|[H|[]]]; [now apply (H4 s0)|].
    inversion H; subst. destruct r as [rd|]; [|inversion Ep].
    destruct (negb (tag_ok rd TAG_CERT)); [discriminate|].
    destruct (b_certs st) as [|c0 cs] eqn:Ecs; [discriminate|].
    destruct (consolidate (b_est st) (set_tag (set_index rd (length (c0 :: cs) - 1)) TAG_CERT)) as [[e1 r1]|] eqn:Ec; cbn in Ep; [|discriminate].
    inversion Ep; subst. apply consolidate_keeps in Ec. destruct Ec as [E1 [E2 [E3 E4]]]. cbn in E1, E2, E3.
    split; [exact E2|]. exists (last (c0 :: cs) []). split.
    + rewrite in_app_iff. right. cbn [att_step]. rewrite E1. now left.
    + rewrite E3. replace (length cs - 0)%nat with (length (c0 :: cs) - 1)%nat by (cbn; lia).
      apply last_nth. congruence.
  - (* AddCert *)
    inversion Hs; subst; clear Hs. split; [|reflexivity]. cbn [att_step]. rewrite app_nil_r.
    destruct I as [H1 H2 H3 H4]. constructor; cbn; auto.
    intros s0 r0 H. destruct (H4 _ _ H) as [a [c0 [b1 b2]]]. split; [auto|]. exists c0. split; [auto|].
    rewrite nth_error_app1; [exact b2|]. apply nth_error_Some. congruence.
  - (* AddOutputDatum *)
    inversion Hs; subst; clear Hs. split; [|reflexivity]. cbn [att_step]. rewrite app_nil_r.
    destruct I as [H1 H2 H3 H4]. constructor; cbn; auto.
  - (* AddCollateral *)
    inversion Hs; subst; clear Hs. split; [|reflexivity]. cbn [att_step]. rewrite app_nil_r. exact I.
  - (* AddReferenceInput *)
    inversion Hs; subst; clear Hs. split; [|reflexivity]. cbn [att_step]. rewrite app_nil_r. exact I.
  - (* AddOutputDatumHashOnly *)
    inversion Hs; subst; clear Hs. split; [|reflexivity]. cbn [att_step]. rewrite app_nil_r. exact I.
Qed.

Lemma run_inv1 ops : forall st st' A, run_from st ops = Ok st' -> inv1 st A ->
  inv1 st' (A ++ attached (b_certs st) ops).
Proof.
  induction ops as [|op ops IH]; intros st st' A H I; cbn in H.
  - inversion H; subst. cbn. now rewrite app_nil_r.
  - destruct (bstep st op) as [st1|] eqn:E; cbn in H; [|discriminate].
    destruct (bstep_inv1 _ _ _ A E I) as [I1 Ec]. cbn [attached]. rewrite app_assoc, <- Ec. now apply IH.
Qed.

Lemma inv1_init native : inv1 (init_state native) [].
Proof. constructor; cbn; intros; contradiction. Qed.

(* ---------- build(): what happens to the stored redeemers ---------- *)
Definition same_ptr (r1 r2 : rdm) : Prop := r_id r2 = r_id r1 /\ r_tag r2 = r_tag r1 /\ r_index r2 = r_index r1.

Lemma mapM_In {A B} (f : A -> result B) l l' : mapM f l = Ok l' -> forall y, In y l' -> exists x, In x l /\ f x = Ok y.
Proof.
  revert l'. induction l as [|x l IH]; cbn; intros l' H y Hy.
  - inversion H; subst. contradiction.
  - destruct (f x) as [b|] eqn:E; cbn in H; [|discriminate].
    destruct (mapM f l) as [bs|] eqn:E2; cbn in H; [|discriminate]. inversion H; subst.
    destruct Hy as [<-|Hy]; [exists x; auto|]. destruct (IH _ eq_refl _ Hy) as [x0 [H1 H2]]. exists x0. auto.
Qed.
Lemma mapM_map {A B C} (f : A -> result B) (g : A -> C) (g' : B -> C) l l' :
  (forall x y, f x = Ok y -> g' y = g x) -> mapM f l = Ok l' -> map g' l' = map g l.
Proof.
  intros Hf. revert l'. induction l as [|x l IH]; cbn; intros l' H.
  - inversion H; subst. reflexivity.
  - destruct (f x) as [b|] eqn:E; cbn in H; [|discriminate].
    destruct (mapM f l) as [bs|] eqn:E2; cbn in H; [|discriminate]. inversion H; subst.
    cbn. rewrite (Hf _ _ E). f_equal. now apply IH.
Qed.

Lemma upd_units_same a r r' : upd_units a r = Ok r' -> same_ptr r r'.
Proof.
  unfold upd_units. destruct (lookupN (r_id r) (a_units a)); intros H; inversion H; subst. unfold same_ptr. cbn. auto.
Qed.
Lemma upd_pair_inv a sr sr' : upd_pair a sr = Ok sr' ->
  fst sr' = fst sr /\ match snd sr, snd sr' with
                      | None, None => True
                      | Some r, Some r' => same_ptr r r'
                      | _, _ => False end.
Proof.
  unfold upd_pair. destruct sr as [s [r|]]; cbn.
  - destruct (upd_units a r) as [r'|] eqn:E; cbn; intros H; inversion H; subst. cbn. split; [reflexivity|].
    now apply (upd_units_same a).
  - intros H; inversion H; subst. cbn. auto.
Qed.
Lemma upd_pairs_In a l l' : mapM (upd_pair a) l = Ok l' ->
  map fst l' = map fst l /\ forall s r2, In (s, Some r2) l' -> exists r1, In (s, Some r1) l /\ same_ptr r1 r2.
Proof.
  intros H. split.
  - eapply mapM_map; [|exact H]. intros x y Hxy. apply upd_pair_inv in Hxy. tauto.
  - intros s r2 Hy. destruct (mapM_In _ _ _ H _ Hy) as [[s1 o1] [Hx Hf]].
    apply upd_pair_inv in Hf. cbn in Hf. destruct Hf as [<- Hf]. destruct o1 as [r1|]; [|contradiction].
    exists r1. auto.
Qed.

Record frame (st st' : bstate) : Prop := {
  f_in_scr : b_in_scr st' = b_in_scr st;
  f_mintk : map fst (b_mint st') = map fst (b_mint st);
  f_wdrlk : map fst (b_wdrl st') = map fst (b_wdrl st);
  f_certk : map fst (b_cert st') = map fst (b_cert st);
  f_refin : b_refin st' = b_refin st;
  f_refscr : b_refscr st' = b_refscr st;
  f_datums : b_datums st' = b_datums st;
  f_native : b_native st' = b_native st;
  f_certs : b_certs st' = b_certs st
}.

Lemma update_units_inv st a st' : update_units st a = Ok st' ->
  frame st st' /\ b_inputs st' = b_inputs st
  /\ (forall u r2, In (u, r2) (b_in_rdm st') -> exists r1, In (u, r1) (b_in_rdm st) /\ same_ptr r1 r2)
  /\ (forall s r2, In (s, Some r2) (b_mint st') -> exists r1, In (s, Some r1) (b_mint st) /\ same_ptr r1 r2)
  /\ (forall s r2, In (s, Some r2) (b_wdrl st') -> exists r1, In (s, Some r1) (b_wdrl st) /\ same_ptr r1 r2)
  /\ (forall s r2, In (s, Some r2) (b_cert st') -> exists r1, In (s, Some r1) (b_cert st) /\ same_ptr r1 r2).
Proof.
  unfold update_units.
  assert (Id : frame st st /\ b_inputs st = b_inputs st
    /\ (forall u r2, In (u, r2) (b_in_rdm st) -> exists r1, In (u, r1) (b_in_rdm st) /\ same_ptr r1 r2)
    /\ (forall s r2, In (s, Some r2) (b_mint st) -> exists r1, In (s, Some r1) (b_mint st) /\ same_ptr r1 r2)
    /\ (forall s r2, In (s, Some r2) (b_wdrl st) -> exists r1, In (s, Some r1) (b_wdrl st) /\ same_ptr r1 r2)
    /\ (forall s r2, In (s, Some r2) (b_cert st) -> exists r1, In (s, Some r1) (b_cert st) /\ same_ptr r1 r2)).
  { split; [constructor; reflexivity|]. split; [reflexivity|].
    repeat split; intros; eexists; (split; [eassumption | unfold same_ptr; auto]). }
  destruct (b_est st) as [[|]|]; try (intros H; inversion H; subst; exact Id).
  destruct (mapM _ (b_in_rdm st)) as [in_rdm|] eqn:E1; cbn [bind]; [|discriminate].
  destruct (mapM (upd_pair a) (b_mint st)) as [mint|] eqn:E2; cbn [bind]; [|discriminate].
  destruct (mapM (upd_pair a) (b_wdrl st)) as [wdrl|] eqn:E3; cbn [bind]; [|discriminate].
  destruct (mapM (upd_pair a) (b_cert st)) as [cert|] eqn:E4; cbn [bind]; [|discriminate].
  intros H; inversion H; subst; clear H.
  apply upd_pairs_In in E2, E3, E4. destruct E2 as [K2 M2], E3 as [K3 M3], E4 as [K4 M4].
  split; [constructor; cbn; auto|]. split; [reflexivity|]. cbn.
  split; [|auto].
  intros u r2 Hy. destruct (mapM_In _ _ _ E1 _ Hy) as [[u1 r1] [Hx Hf]]. cbn in Hf.
  destruct (upd_units a r1) as [r1'|] eqn:Eu; cbn in Hf; [|discriminate]. inversion Hf; subst.
  exists r1. split; [exact Hx | now apply (upd_units_same a)].
Qed.

Lemma index_pairs_inv f sorted l l' : index_pairs f sorted l = Ok l' ->
  map fst l' = map fst l /\
  forall s r', In (s, Some r') l' ->
    exists r i, In (s, Some r) l /\ index_of bytes_eqb (f s) sorted = Some i /\ r' = set_index r i.
Proof.
  revert l'. induction l as [|[s0 o0] l IH]; cbn; intros l' H.
  - inversion H; subst. split; [reflexivity | intros ? ? []].
  - destruct (fold_right _ (Ok []) l) as [acc|] eqn:E; cbn [bind] in H; [|discriminate].
    destruct (IH _ E) as [K M]. cbn [snd fst] in H.
    destruct o0 as [r0|].
    + destruct (index_of bytes_eqb (f s0) sorted) as [i|] eqn:Ei; [|discriminate]. inversion H; subst.
      split; [cbn; now rewrite K|]. intros s r' [X|X].
      * inversion X; subst. exists r0, i. auto.
      * destruct (M _ _ X) as [r [j [H1 [H2 H3]]]]. exists r, j. auto.
    + inversion H; subst. split; [cbn; now rewrite K|]. intros s r' [X|X]; [discriminate|].
      destruct (M _ _ X) as [r [j [H1 [H2 H3]]]]. exists r, j. auto.
Qed.

Lemma set_redeemer_index_inv st a fin st' : set_redeemer_index st a fin = Ok st' ->
  frame st st' /\ b_inputs st' = fin
  /\ (forall u r', In (u, r') (b_in_rdm st') -> exists r, In (u, r) (b_in_rdm st) /\
        match index_of utxo_eqb u fin with Some i => r' = set_index r i | None => r' = r end)
  /\ (forall s r', In (s, Some r') (b_mint st') -> exists r i, In (s, Some r) (b_mint st) /\
        index_of bytes_eqb (s_hash s) (isort code_pol_ltb (a_mint a)) = Some i /\ r' = set_index r i)
  /\ (forall s r', In (s, Some r') (b_wdrl st') -> exists r i, In (s, Some r) (b_wdrl st) /\
        index_of bytes_eqb (script_account (a_net a) (s_hash s)) (isort bytes_ltb (a_wdrl a)) = Some i /\ r' = set_index r i)
  /\ b_cert st' = b_cert st.
Proof.
  unfold set_redeemer_index.
  destruct (index_pairs s_hash _ (b_mint st)) as [mint|] eqn:E1; cbn [bind]; [|discriminate].
  destruct (index_pairs _ _ (b_wdrl st)) as [wdrl|] eqn:E2; cbn [bind]; [|discriminate].
  intros H; inversion H; subst; clear H.
  apply index_pairs_inv in E1, E2. destruct E1 as [K1 M1], E2 as [K2 M2].
  split; [constructor; cbn; auto|]. split; [reflexivity|]. cbn.
  split; [|auto].
  intros u r' Hy. apply in_map_iff in Hy. destruct Hy as [[u0 r0] [Hf Hx]]. cbn in Hf.
  destruct (index_of utxo_eqb u0 fin) as [i|] eqn:Ei; inversion Hf; subst; (eexists; split; [exact Hx|]); rewrite Ei; reflexivity.
Qed.

(* ====================== Part D: the theorems ====================== *)
Lemma dedup_acc_In {A} (eqb : A -> A -> bool) (eqb_eq : forall a b, eqb a b = true <-> a = b) l :
  forall acc x, In x acc \/ In x l -> In x (dedup_acc eqb acc l).
Proof.
  induction l as [|h r IH]; cbn; intros acc x H; [tauto|].
  destruct (mem eqb h acc) eqn:E.
  - apply IH. destruct H as [H|[<-|H]]; auto. left. now apply (mem_In eqb eqb_eq).
  - apply IH. rewrite in_app_iff. cbn. intuition.
Qed.
Lemma dedup_In {A} (eqb : A -> A -> bool) (eqb_eq : forall a b, eqb a b = true <-> a = b) l x :
  In x l -> In x (dedup eqb l).
Proof. intros H. apply dedup_acc_In; auto. Qed.

Lemma In_pairs_somes {K V} (l : list (K * option V)) r : In r (somes (map snd l)) <-> exists s, In (s, Some r) l.
Proof.
  rewrite In_somes, in_map_iff. split.
  - intros [[s o] [H1 H2]]. cbn in H1. subst. eauto.
  - intros [s H]. exists (s, Some r). auto.
Qed.

Lemma build_inv st0 a t : build st0 a = Ok t ->
  exists st1 st2,
    set_redeemer_index st0 a (final_inputs st0 a) = Ok st1 /\ update_units st1 a = Ok st2 /\
    t = mkBuilt (map u_in (final_inputs st0 a)) (map u_in (b_refin st2)) (a_mint a) (a_wdrl a) (b_certs st2)
                (fst (validity st0 a)) (snd (validity st0 a)) (redeemer_list st2)
                (bucket LNative (witness_scripts st2 (a_rd a) (final_inputs st0 a)))
                (bucket LV1 (witness_scripts st2 (a_rd a) (final_inputs st0 a)))
                (bucket LV2 (witness_scripts st2 (a_rd a) (final_inputs st0 a)))
                (bucket LV3 (witness_scripts st2 (a_rd a) (final_inputs st0 a)))
                (map snd (b_datums st2)) st2.
Proof.
  unfold build.
  destruct (set_redeemer_index st0 a (final_inputs st0 a)) as [st1|] eqn:E1; cbn [bind]; [|discriminate].
  destruct (update_units st1 a) as [st2|] eqn:E2; cbn [bind]; [|discriminate].
  intros H; inversion H; subst. exists st1, st2. auto.
Qed.

(* the emitted input list is the ledger-sorted list *)
Lemma final_inputs_sorted st a :
  map u_in (final_inputs st a) = isort txin_ltb (map u_in (dedup utxo_eqb (b_inputs st) ++ a_extra a)).
Proof. unfold final_inputs. apply isort_map. apply code_in_ltb_txin. Qed.

Lemma sorted_twice (l : list txin) : NoDup (isort txin_ltb l) -> isort txin_ltb (isort txin_ltb l) = isort txin_ltb l.
Proof.
  intros N. apply (isort_sorted_id txin_ltb txin_ltb_irrefl txin_ltb_trans).
  apply (isort_sorted txin_ltb txin_ltb_trans txin_ltb_total).
  eapply Permutation_NoDup; [apply (isort_perm txin_ltb) | exact N].
Qed.

Theorem pointers native ops a t :
  run_build native ops a = Ok t ->
  NoDup (t_inputs t) ->
  Forall (fun p => length p = 28%nat) (t_mint t) ->
  forall r, In r (t_rdms t) ->
  exists tag it, r_tag r = Some tag /\ In (r_id r, it) (attached [] ops) /\
    ((forall h, it = IReward h -> forallb is_script_acct (t_wdrl t) = true) -> designates t tag (r_index r) it).
Proof.
  unfold run_build, run. destruct (run_from (init_state native) ops) as [st0|] eqn:Er; cbn [bind]; [|discriminate].
  intros Hb Nd L28 r Hr.
  pose proof (run_inv1 ops _ _ [] Er (inv1_init native)) as I. cbn [app init_state b_certs] in I.
  destruct (build_inv _ _ _ Hb) as [st1 [st2 [E1 [E2 ->]]]]. cbn [t_rdms t_inputs t_mint t_wdrl] in *.
  apply set_redeemer_index_inv in E1. destruct E1 as [F1 [Hin1 [S1 [M1 [W1 C1]]]]].
  apply update_units_inv in E2. destruct E2 as [F2 [Hin2 [S2 [M2 [W2 C2]]]]].
  destruct I as [I1 I2 I3 I4].
  unfold redeemer_list in Hr. rewrite !in_app_iff in Hr. destruct Hr as [Hr|[Hr|[Hr|Hr]]].
  - (* spend *)
    apply in_map_iff in Hr. destruct Hr as [[u r'] [<- Hr]]. cbn [snd].
    destruct (S2 _ _ Hr) as [r1 [H1 [Sa [Sb Sc]]]]. destruct (S1 _ _ H1) as [r0 [H0 Hi]].
    destruct (I1 _ _ H0) as [T [Att Uin]].
    assert (Ufin : In u (final_inputs st0 a)).
    { unfold final_inputs. eapply Permutation_in; [symmetry; apply isort_perm|].
      apply in_app_iff. left. apply (dedup_In utxo_eqb utxo_eqb_eq). exact Uin. }
    destruct (index_of_some utxo_eqb u (final_inputs st0 a)) as [i Ei].
    { exists u. split; [exact Ufin | now apply utxo_eqb_eq]. }
    rewrite Ei in Hi. subst r1. cbn in Sa, Sb, Sc.
    exists TAG_SPEND, (ISpend (u_in u)). rewrite Sa, Sb, Sc. split; [exact T|]. split; [exact Att|].
    intros _. cbn [designates t_inputs]. split; [reflexivity|].
    rewrite final_inputs_sorted in Nd |- *. rewrite sorted_twice by exact Nd. rewrite <- final_inputs_sorted.
    apply index_of_nth in Ei. destruct Ei as [y [Hy Ey]]. apply utxo_eqb_eq in Ey. subst y.
    now apply map_nth_error.
  - (* mint *)
    apply In_pairs_somes in Hr. destruct Hr as [s Hr].
    destruct (M2 _ _ Hr) as [r1 [H1 [Sa [Sb Sc]]]]. destruct (M1 _ _ H1) as [r0 [i [H0 [Ei ->]]]].
    destruct (I2 _ _ H0) as [T Att]. cbn in Sa, Sb, Sc.
    exists TAG_MINT, (IMint (s_hash s)). rewrite Sa, Sb, Sc. split; [exact T|]. split; [exact Att|].
    intros _. cbn [designates t_mint]. split; [reflexivity|].
    rewrite (isort_ext code_pol_ltb bytes_ltb) in Ei.
    + apply index_of_nth in Ei. destruct Ei as [y [Hy Ey]]. apply bytes_eqb_eq in Ey. now subst y.
    + rewrite Forall_forall in L28. intros x y Hx Hy. apply code_pol_ltb_bytes. now rewrite (L28 x), (L28 y).
  - (* reward *)
    apply In_pairs_somes in Hr. destruct Hr as [s Hr].
    destruct (W2 _ _ Hr) as [r1 [H1 [Sa [Sb Sc]]]]. destruct (W1 _ _ H1) as [r0 [i [H0 [Ei ->]]]].
    destruct (I3 _ _ H0) as [T Att]. cbn in Sa, Sb, Sc.
    exists TAG_REWARD, (IReward (s_hash s)). rewrite Sa, Sb, Sc. split; [exact T|]. split; [exact Att|].
    intros Hs. specialize (Hs _ eq_refl). rewrite forallb_forall in Hs.
    cbn [designates t_wdrl]. split; [reflexivity|]. exists (a_net a).
    rewrite (isort_ext acct_ltb bytes_ltb) by (intros x y Hx Hy; apply acct_ltb_script; auto).
    apply index_of_nth in Ei. destruct Ei as [y [Hy Ey]]. apply bytes_eqb_eq in Ey. now subst y.
  - (* certificate *)
    apply In_pairs_somes in Hr. destruct Hr as [s Hr].
    destruct (C2 _ _ Hr) as [r1 [H1 [Sa [Sb Sc]]]]. rewrite C1 in H1.
    destruct (I4 _ _ H1) as [T [c [Att Nc]]].
    exists TAG_CERT, (ICert c). rewrite Sa, Sb, Sc. split; [exact T|]. split; [exact Att|].
    intros _. cbn [designates t_certs]. split; [reflexivity|].
    rewrite (f_certs _ _ F2), (f_certs _ _ F1). exact Nc.
Qed.

(* position in the canonical list = number of smaller members: the pointer in the ledger's own terms *)
Definition ptr_count (t : built) (idx : nat) (it : item) : Prop :=
  match it with
  | ISpend i => In i (t_inputs t) /\ rank txin_ltb i (t_inputs t) = idx
  | IMint p => In p (t_mint t) /\ rank bytes_ltb p (t_mint t) = idx
  | IReward h => True
  | ICert c => True
  end.
Lemma bytes_ltb_total' x y : x <> y -> bytes_ltb x y = true \/ bytes_ltb y x = true.
Proof. apply bytes_ltb_total. Qed.
Lemma bytes_ltb_trans' x y z : bytes_ltb x y = true -> bytes_ltb y z = true -> bytes_ltb x z = true.
Proof. apply bytes_ltb_trans. Qed.
Theorem designates_count t tag idx it :
  NoDup (t_inputs t) -> NoDup (t_mint t) -> designates t tag idx it -> ptr_count t idx it.
Proof.
  intros N1 N2 D. destruct it as [i|p|h|c]; cbn in *; auto; destruct D as [_ D].
  - split.
    + eapply Permutation_in; [apply (isort_perm txin_ltb)|]. eapply nth_error_In; eauto.
    + eapply (isort_nth_rank txin_ltb txin_ltb_irrefl txin_ltb_trans txin_ltb_total); eauto.
  - split.
    + eapply Permutation_in; [apply (isort_perm bytes_ltb)|]. eapply nth_error_In; eauto.
    + eapply (isort_nth_rank bytes_ltb bytes_ltb_irrefl bytes_ltb_trans' bytes_ltb_total'); eauto.
Qed.

(* ---------- group 2: scripts ---------- *)
Record inv2 (st : bstate) (Nd : list bytes) : Prop := {
  j_ref : forall s, In s (b_refscr st) <-> In s (scripts_on (b_refin st));
  j_inscr : forall u s, In (u, s) (b_in_scr st) -> s_hash s = u_pay u;
  j_need : forall h, In h Nd -> In h (map s_hash (raw_scripts st))
}.

Lemma raw_In st s : In s (raw_scripts st) <->
  In s (b_native st) \/ In s (map snd (b_in_scr st)) \/ In s (map fst (b_mint st))
  \/ In s (map fst (b_wdrl st)) \/ In s (map fst (b_cert st)).
Proof. unfold raw_scripts. rewrite !in_app_iff. tauto. Qed.

Lemma ref_step refin refscr c s :
  (forall x, In x refscr <-> In x (scripts_on refin)) -> u_script c = Some s ->
  forall x, In x (refscr ++ [s]) <-> In x (scripts_on (set_add utxo_eqb refin c)).
Proof.
  intros H Hc x. rewrite in_app_iff, H, !scripts_on_In. cbn. split.
  - intros [[u [H1 H2]]|[<-|[]]].
    + exists u. split; [apply (set_add_In utxo_eqb utxo_eqb_eq); auto | exact H2].
    + exists c. split; [apply (set_add_In utxo_eqb utxo_eqb_eq); auto | exact Hc].
  - intros [u [H1 H2]]. apply (set_add_In utxo_eqb utxo_eqb_eq) in H1. destruct H1 as [H1| ->].
    + left. eauto.
    + right. left. congruence.
Qed.

(* the three calls that hand over a script for minting / withdrawal / certificate *)
Lemma inv2_add_tail st Nd src s refin refscr (mk : bstate) :
  inv2 st Nd -> resolve_src st src = Ok (s, refin, refscr) ->
  b_refin mk = refin -> b_refscr mk = refscr -> b_in_scr mk = b_in_scr st -> b_native mk = b_native st ->
  (forall x, In x (raw_scripts mk) <-> In x (raw_scripts st) \/ x = s) ->
  inv2 mk (Nd ++ match src_script src with Some s => [s_hash s] | None => [] end).
Proof.
  intros [J1 J2 J3] Er E1 E2 E3 E4 Hraw. apply resolve_src_inv in Er. destruct Er as [Es Hr].
  constructor.
  - rewrite E1, E2. destruct Hr as [[-> ->]|[ru [Hu [-> ->]]]]; [exact J1 | now apply ref_step].
  - rewrite E3. exact J2.
  - intros h Hh. rewrite Es in Hh. apply in_app_iff in Hh. apply in_map_iff.
    destruct Hh as [Hh|[<-|[]]].
    + apply J3, in_map_iff in Hh. destruct Hh as [x [H1 H2]]. exists x. split; [exact H1|]. apply Hraw. auto.
    + exists s. split; [reflexivity|]. apply Hraw. auto.
Qed.

Lemma bstep_inv2 st op st' Nd : bstep st op = Ok st' -> inv2 st Nd ->
  inv2 st' (Nd ++ need_step op) /\ b_native st' = b_native st.
Proof.
  intros Hs I. destruct op as [u|u src d r|src r|src r|src r|c|d|cu|ru|d]; cbn [bstep] in Hs.
  - inversion Hs; subst; clear Hs. split; [|reflexivity]. cbn [need_step]. rewrite app_nil_r.
    destruct I as [J1 J2 J3]. constructor; auto.
  - apply asi_inv in Hs. destruct Hs as [in_rdm [est [s [isref [c [Hr [Hh [Hc [Hd ->]]]]]]]]].
    split; [|reflexivity]. destruct I as [J1 J2 J3]. constructor; cbn [b_refscr b_refin b_in_scr].
    + destruct isref; [apply ref_step; auto | exact J1].
    + intros u0 s0 H. apply (aset_In utxo_eqb utxo_eqb_eq) in H. destruct H as [H|[-> ->]]; [now apply J2 | exact Hh].
    + intros h H. cbn [need_step] in H. apply in_app_iff in H. apply in_map_iff.
      destruct H as [H|[<-|[]]].
      * apply J3, in_map_iff in H. destruct H as [x [H1 H2]]. apply raw_In in H2.
        destruct H2 as [H2|[H2|H2]].
        -- exists x. split; [exact H1|]. apply raw_In. cbn. auto.
        -- apply in_map_iff in H2. destruct H2 as [[k v] [E Hk]]. cbn in E. subst v.
           destruct (aset_keep utxo_eqb utxo_eqb_eq (b_in_scr st) u s _ _ Hk) as [K| ->].
           ++ exists x. split; [exact H1|]. apply raw_In. cbn. right. left. apply in_map_iff. exists (k, x). auto.
           ++ exists s. split; [rewrite Hh, <- H1; symmetry; now apply J2|].
              apply raw_In. cbn. right. left. apply in_map_iff. exists (u, s). split; [reflexivity | apply aset_has; apply utxo_eqb_eq].
        -- exists x. split; [exact H1|]. apply raw_In. cbn. tauto.
      * exists s. split; [exact Hh|]. apply raw_In. cbn. right. left. apply in_map_iff.
        exists (u, s). split; [reflexivity | apply aset_has; apply utxo_eqb_eq].
  - unfold add_minting_script in Hs.
    destruct (prep_rdm (b_est st) r TAG_MINT) as [[est r']|] eqn:Ep; cbn [bind] in Hs; [|discriminate].
    destruct (resolve_src st src) as [[[s refin] refscr]|] eqn:Er; cbn [bind] in Hs; [|discriminate].
    inversion Hs; subst; clear Hs. split; [|reflexivity]. cbn [need_step].
    eapply inv2_add_tail; eauto. intros x. rewrite !raw_In. cbn. rewrite map_app, in_app_iff. cbn. intuition.
  - unfold add_withdrawal_script in Hs.
    destruct (prep_rdm (b_est st) r TAG_REWARD) as [[est r']|] eqn:Ep; cbn [bind] in Hs; [|discriminate].
    destruct (resolve_src st src) as [[[s refin] refscr]|] eqn:Er; cbn [bind] in Hs; [|discriminate].
    inversion Hs; subst; clear Hs. split; [|reflexivity]. cbn [need_step].
    eapply inv2_add_tail; eauto. intros x. rewrite !raw_In. cbn. rewrite map_app, in_app_iff. cbn. intuition.
  - unfold add_certificate_script in Hs.
    destruct (match r with Some _ => _ | None => _ end) as [[est r']|]; cbn [bind] in Hs; [|discriminate].
    destruct (resolve_src st src) as [[[s refin] refscr]|] eqn:Er; cbn [bind] in Hs; [|discriminate].
    inversion Hs; subst; clear Hs. split; [|reflexivity]. cbn [need_step].
    eapply inv2_add_tail; eauto. intros x. rewrite !raw_In. cbn. rewrite map_app, in_app_iff. cbn. intuition.
  - inversion Hs; subst; clear Hs. split; [|reflexivity]. cbn [need_step]. rewrite app_nil_r.
    destruct I as [J1 J2 J3]. constructor; auto.
  - inversion Hs; subst; clear Hs. split; [|reflexivity]. cbn [need_step]. rewrite app_nil_r.
    destruct I as [J1 J2 J3]. constructor; auto.
  - inversion Hs; subst; clear Hs. split; [|reflexivity]. cbn [need_step]. rewrite app_nil_r. exact I.
  - inversion Hs; subst; clear Hs. split; [|reflexivity]. cbn [need_step]. rewrite app_nil_r. exact I.
  - inversion Hs; subst; clear Hs. split; [|reflexivity]. cbn [need_step]. rewrite app_nil_r. exact I.
Qed.

Lemma run_inv2 ops : forall st st' Nd, run_from st ops = Ok st' -> inv2 st Nd ->
  inv2 st' (Nd ++ needed ops) /\ b_native st' = b_native st.
Proof.
  induction ops as [|op ops IH]; intros st st' Nd H I; cbn in H.
  - inversion H; subst. unfold needed. cbn. rewrite app_nil_r. auto.
  - destruct (bstep st op) as [st1|] eqn:E; cbn in H; [|discriminate].
    destruct (bstep_inv2 _ _ _ Nd E I) as [I1 En].
    destruct (IH _ _ _ H I1) as [I2 En2]. unfold needed in *. cbn [flat_map]. rewrite app_assoc.
    split; [exact I2 | congruence].
Qed.

(* the dict keyed by script hash *)
Lemma hset_hashes d s :
  map s_hash (hset d s) = map s_hash d ++ (if hash_in (s_hash s) d then [] else [s_hash s]).
Proof.
  induction d as [|h r IH]; cbn; [reflexivity|].
  destruct (bytes_eqb (s_hash h) (s_hash s)) eqn:E; cbn.
  - apply bytes_eqb_eq in E. rewrite E, app_nil_r. reflexivity.
  - now rewrite IH.
Qed.
Lemma hash_in_In h l : hash_in h l = true <-> In h (map s_hash l).
Proof.
  unfold hash_in. rewrite existsb_exists, in_map_iff. split; intros [s [H1 H2]]; exists s.
  - apply bytes_eqb_eq in H2. auto.
  - split; [exact H2 | now apply bytes_eqb_eq].
Qed.
Lemma fold_hset l : forall acc, NoDup (map s_hash acc) ->
  NoDup (map s_hash (fold_left hset l acc)) /\
  forall h, In h (map s_hash (fold_left hset l acc)) <-> In h (map s_hash acc) \/ In h (map s_hash l).
Proof.
  induction l as [|s l IH]; cbn; intros acc N; [split; [exact N | tauto]|].
  assert (N' : NoDup (map s_hash (hset acc s))).
  { rewrite hset_hashes. destruct (hash_in (s_hash s) acc) eqn:E; [now rewrite app_nil_r|].
    eapply Permutation_NoDup; [apply Permutation_app_comm|]. cbn. constructor; [|exact N]. intros X. apply hash_in_In in X. congruence. }
  destruct (IH _ N') as [A1 A2]. split; [exact A1|].
  intros h. rewrite A2, hset_hashes, in_app_iff.
  destruct (hash_in (s_hash s) acc) eqn:E; cbn.
  - apply hash_in_In in E. split; [intros [[H|[]]|H]; auto | intros [H|[<-|H]]; auto].
  - tauto.
Qed.

Lemma count_filter_hash (q : bytes -> bool) l h :
  count_occ bytes_eq_dec (map s_hash (filter (fun s => q (s_hash s)) l)) h =
  if q h then count_occ bytes_eq_dec (map s_hash l) h else O.
Proof.
  induction l as [|s l IH]; cbn; [now destruct (q h)|].
  destruct (q (s_hash s)) eqn:E; cbn; destruct (bytes_eq_dec (s_hash s) h) as [Heq|Hn]; rewrite IH;
    try (rewrite Heq in E; rewrite E); reflexivity.
Qed.

Lemma bucket_count ws h :
  count_occ bytes_eq_dec (map s_hash (bucket LNative ws ++ bucket LV1 ws ++ bucket LV2 ws ++ bucket LV3 ws)) h
  = count_occ bytes_eq_dec (map s_hash ws) h.
Proof.
  rewrite !map_app, !count_occ_app. induction ws as [|s ws IH]; [reflexivity|].
  unfold bucket in *. cbn [filter]. destruct (s_lang s); cbn [lang_eqb map count_occ];
    destruct (bytes_eq_dec (s_hash s) h); lia.
Qed.
Lemma bucket_lang l ws : Forall (fun s => s_lang s = l) (bucket l ws).
Proof. apply Forall_forall. intros s H. apply filter_In in H. now apply lang_eqb_eq. Qed.

Lemma mem_bytes_In h l : mem bytes_eqb h l = true <-> In h l.
Proof. apply mem_In. apply bytes_eqb_eq. Qed.

Theorem scripts_once native ops a t :
  run_build native ops a = Ok t -> a_rd a = true ->
  let st := t_state t in
  t_inputs t = map u_in (b_inputs st) /\ t_refin t = map u_in (b_refin st) /\
  Forall (fun s => s_lang s = LNative) (t_native t) /\ Forall (fun s => s_lang s = LV1) (t_v1 t) /\
  Forall (fun s => s_lang s = LV2) (t_v2 t) /\ Forall (fun s => s_lang s = LV3) (t_v3 t) /\
  forall h, In h (needed ops ++ map s_hash native) ->
    (count_occ bytes_eq_dec (map s_hash (t_native t ++ t_v1 t ++ t_v2 t ++ t_v3 t)) h
     + (if mem bytes_eqb h (map s_hash (scripts_on (b_refin st ++ b_inputs st))) then 1 else 0) = 1)%nat.
Proof.
  unfold run_build, run. destruct (run_from (init_state native) ops) as [st0|] eqn:Er; cbn [bind]; [|discriminate].
  intros Hb Hrd.
  assert (I0 : inv2 (init_state native) []).
  { constructor; cbn; [tauto | intros ? ? [] | intros ? []]. }
  destruct (run_inv2 ops _ _ [] Er I0) as [[J1 J2 J3] En]. cbn [app init_state b_native] in J3, En.
  destruct (build_inv _ _ _ Hb) as [st1 [st2 [E1 [E2 ->]]]].
  cbn [t_state t_inputs t_refin t_native t_v1 t_v2 t_v3].
  apply set_redeemer_index_inv in E1. destruct E1 as [F1 [Hin1 _]].
  apply update_units_inv in E2. destruct E2 as [F2 [Hin2 _]].
  assert (Efin : b_inputs st2 = final_inputs st0 a) by congruence.
  assert (Eraw : raw_scripts st2 = raw_scripts st0).
  { unfold raw_scripts. rewrite (f_native _ _ F2), (f_native _ _ F1), (f_in_scr _ _ F2), (f_in_scr _ _ F1),
      (f_mintk _ _ F2), (f_mintk _ _ F1), (f_wdrlk _ _ F2), (f_wdrlk _ _ F1), (f_certk _ _ F2), (f_certk _ _ F1). reflexivity. }
  assert (Eref : b_refscr st2 = b_refscr st0) by (rewrite (f_refscr _ _ F2), (f_refscr _ _ F1); reflexivity).
  assert (Erin : b_refin st2 = b_refin st0) by (rewrite (f_refin _ _ F2), (f_refin _ _ F1); reflexivity).
  split; [now rewrite Efin|]. split; [reflexivity|].
  repeat (split; [apply bucket_lang|]).
  intros h Hh. rewrite bucket_count. rewrite Hrd. unfold witness_scripts, scripts.
  rewrite (count_filter_hash (fun x => negb (hash_in x (scripts_on (final_inputs st0 a))))).
  rewrite (count_filter_hash (fun x => negb (hash_in x (b_refscr st2)))).
  unfold all_scripts. rewrite Eraw, Eref, Erin, Efin.
  destruct (fold_hset (raw_scripts st0) [] (NoDup_nil _)) as [Nd Hm].
  assert (Hin : In h (map s_hash (fold_left hset (raw_scripts st0) []))).
  { apply Hm. right. apply in_app_iff in Hh. destruct Hh as [Hh|Hh]; [now apply J3|].
    unfold raw_scripts. rewrite En, !map_app, !in_app_iff. auto. }
  rewrite (proj1 (NoDup_count_occ' bytes_eq_dec _) Nd h Hin).
  (* reference availability *)
  assert (Href : hash_in h (b_refscr st0) = hash_in h (scripts_on (b_refin st0))).
  { apply eq_true_iff_eq. rewrite !hash_in_In, !in_map_iff. split; intros [s [H1 H2]]; exists s; (split; [exact H1|]); now apply J1. }
  assert (Hmem : mem bytes_eqb h (map s_hash (scripts_on (b_refin st0 ++ final_inputs st0 a)))
                 = hash_in h (scripts_on (b_refin st0)) || hash_in h (scripts_on (final_inputs st0 a))).
  { apply eq_true_iff_eq. rewrite orb_true_iff, mem_bytes_In, !hash_in_In.
    unfold scripts_on. rewrite map_app. unfold somes. rewrite flat_map_app, map_app, in_app_iff. reflexivity. }
  rewrite Hmem, Href.
  destruct (hash_in h (scripts_on (final_inputs st0 a))), (hash_in h (scripts_on (b_refin st0))); reflexivity.
Qed.

(* ---------- group 3: datums ---------- *)
Record inv3 (st : bstate) (Sp : list (utxo * datum)) : Prop := {
  k_keys : NoDup (map fst (b_datums st));
  k_hash : forall k d, In (k, d) (b_datums st) -> d_hash d = k;
  k_sup : forall u d, In (u, d) Sp ->
            In (d_hash d) (map fst (b_datums st)) /\ (forall h, u_dat u = OHash h -> h = d_hash d)
}.

Lemma inv3_same st st' Sp : b_datums st' = b_datums st -> inv3 st Sp -> inv3 st' Sp.
Proof. intros E [K1 K2 K3]. constructor; rewrite E; auto. Qed.

Lemma inv3_set st Sp d : inv3 st Sp ->
  NoDup (map fst (aset bytes_eqb (b_datums st) (d_hash d) d))
  /\ (forall k d0, In (k, d0) (aset bytes_eqb (b_datums st) (d_hash d) d) -> d_hash d0 = k)
  /\ (forall u d0, In (u, d0) Sp -> In (d_hash d0) (map fst (aset bytes_eqb (b_datums st) (d_hash d) d))
                                    /\ (forall h, u_dat u = OHash h -> h = d_hash d0))
  /\ In (d_hash d) (map fst (aset bytes_eqb (b_datums st) (d_hash d) d)).
Proof.
  intros [K1 K2 K3]. split; [now apply aset_nodup; [apply bytes_eqb_eq|]|]. split.
  - intros k d0 H. apply (aset_In bytes_eqb bytes_eqb_eq) in H. destruct H as [H|[-> ->]]; [now apply K2 | reflexivity].
  - split.
    + intros u d0 H. destruct (K3 _ _ H) as [A B]. split; [|exact B].
      apply (aset_keys bytes_eqb bytes_eqb_eq). auto.
    + apply (aset_keys bytes_eqb bytes_eqb_eq). auto.
Qed.

Lemma bstep_inv3 st op st' Sp : bstep st op = Ok st' -> inv3 st Sp -> inv3 st' (Sp ++ sup_step op).
Proof.
  intros Hs I. destruct op as [u|u src d r|src r|src r|src r|c|d|cu|ru|d]; cbn [bstep] in Hs.
  - inversion Hs; subst; clear Hs. cbn [sup_step]. rewrite app_nil_r. now apply (inv3_same st).
  - apply asi_inv in Hs. destruct Hs as [in_rdm [est [s [isref [c [Hr [Hh [Hc [Hd ->]]]]]]]]].
    destruct d as [dd|]; cbn [sup_step]; [|rewrite app_nil_r; now apply (inv3_same st)].
    destruct (inv3_set st Sp dd I) as [A1 [A2 [A3 A4]]].
    constructor; cbn [b_datums]; auto.
    intros u0 d0 H. apply in_app_iff in H. destruct H as [H|[H|[]]]; [now apply A3|].
    inversion H; subst. split; [exact A4|]. intros h Eh. now apply (Hd h d0).
  - unfold add_minting_script in Hs.
    destruct (prep_rdm (b_est st) r TAG_MINT) as [[est r']|]; cbn [bind] in Hs; [|discriminate].
    destruct (resolve_src st src) as [[[s refin] refscr]|]; cbn [bind] in Hs; [|discriminate].
    inversion Hs; subst; clear Hs. cbn [sup_step]. rewrite app_nil_r. now apply (inv3_same st).
  - unfold add_withdrawal_script in Hs.
    destruct (prep_rdm (b_est st) r TAG_REWARD) as [[est r']|]; cbn [bind] in Hs; [|discriminate].
    destruct (resolve_src st src) as [[[s refin] refscr]|]; cbn [bind] in Hs; [|discriminate].
    inversion Hs; subst; clear Hs. cbn [sup_step]. rewrite app_nil_r. now apply (inv3_same st).
  - unfold add_certificate_script in Hs.
    destruct (match r with Some _ => _ | None => _ end) as [[est r']|]; cbn [bind] in Hs; [|discriminate].
    destruct (resolve_src st src) as [[[s refin] refscr]|]; cbn [bind] in Hs; [|discriminate].
    inversion Hs; subst; clear Hs. cbn [sup_step]. rewrite app_nil_r. now apply (inv3_same st).
  - inversion Hs; subst; clear Hs. cbn [sup_step]. rewrite app_nil_r. now apply (inv3_same st).
  - inversion Hs; subst; clear Hs. cbn [sup_step]. rewrite app_nil_r.
    destruct (inv3_set st Sp d I) as [A1 [A2 [A3 A4]]]. constructor; cbn [b_datums]; auto.
  - inversion Hs; subst; clear Hs. cbn [sup_step]. rewrite app_nil_r. exact I.
  - inversion Hs; subst; clear Hs. cbn [sup_step]. rewrite app_nil_r. exact I.
  - inversion Hs; subst; clear Hs. cbn [sup_step]. rewrite app_nil_r. exact I.
Qed.

Lemma run_inv3 ops : forall st st' Sp, run_from st ops = Ok st' -> inv3 st Sp -> inv3 st' (Sp ++ supplied ops).
Proof.
  induction ops as [|op ops IH]; intros st st' Sp H I; cbn in H.
  - inversion H; subst. unfold supplied. cbn. now rewrite app_nil_r.
  - destruct (bstep st op) as [st1|] eqn:E; cbn in H; [|discriminate].
    pose proof (bstep_inv3 _ _ _ Sp E I) as I1. unfold supplied in *. cbn [flat_map]. rewrite app_assoc. now apply (IH st1).
Qed.

Theorem datums_once native ops a t :
  run_build native ops a = Ok t ->
  forall u d, In (u, d) (supplied ops) ->
    count_occ bytes_eq_dec (map d_hash (t_datums t)) (d_hash d) = 1%nat
    /\ (forall h, u_dat u = OHash h -> h = d_hash d).
Proof.
  unfold run_build, run. destruct (run_from (init_state native) ops) as [st0|] eqn:Er; cbn [bind]; [|discriminate].
  intros Hb u d Hs.
  assert (I0 : inv3 (init_state native) []).
  { constructor; cbn; [constructor | intros ? ? [] | intros ? ? []]. }
  pose proof (run_inv3 ops _ _ [] Er I0) as [K1 K2 K3]. cbn [app] in K3.
  destruct (build_inv _ _ _ Hb) as [st1 [st2 [E1 [E2 ->]]]]. cbn [t_datums].
  apply set_redeemer_index_inv in E1. destruct E1 as [F1 _].
  apply update_units_inv in E2. destruct E2 as [F2 _].
  rewrite (f_datums _ _ F2), (f_datums _ _ F1).
  destruct (K3 _ _ Hs) as [A B]. split; [|exact B].
  assert (E : map d_hash (map snd (b_datums st0)) = map fst (b_datums st0)).
  { rewrite map_map. apply map_ext_in. intros [k d0] H. cbn. now apply K2. }
  rewrite E. now apply (proj1 (NoDup_count_occ' bytes_eq_dec _) K1).
Qed.

(* ---------- validity interval ---------- *)
Open Scope Z_scope.
Theorem validity_contains native ops a t :
  run_build native ops a = Ok t ->
  0 <= a_last a ->
  (a_vstart a = None -> (exists st, run native ops = Ok st /\ is_smart st = true) \/ a_offs a <> None ->
   match a_offs a with Some o => o <= 0 | None => True end ->
   exists s, t_vstart t = Some s /\ s <= a_last a)
  /\
  (a_ttl a = None -> (exists st, run native ops = Ok st /\ is_smart st = true) \/ a_offt a <> None ->
   match a_offt a with Some o => 0 <= o | None => True end ->
   exists e, t_ttl t = Some e /\ a_last a <= e).
Proof.
  unfold run_build. destruct (run native ops) as [st0|] eqn:Er; cbn [bind]; [|discriminate].
  intros Hb Hl. destruct (build_inv _ _ _ Hb) as [st1 [st2 [E1 [E2 ->]]]]. cbn [t_vstart t_ttl].
  unfold validity, auto_bound. cbn [fst snd]. split.
  - intros -> Hs Ho.
    assert (X : is_smart st0 || match a_offs a with Some _ => true | None => false end = true).
    { destruct Hs as [[st [Es Hs]]|Hs]; [inversion Es; subst; now rewrite Hs|].
      destruct (a_offs a); [apply orb_true_r | congruence]. }
    rewrite X. eexists. split; [reflexivity|]. destruct (a_offs a); lia.
  - intros -> Hs Ho.
    assert (X : is_smart st0 || match a_offt a with Some _ => true | None => false end = true).
    { destruct Hs as [[st [Es Hs]]|Hs]; [inversion Es; subst; now rewrite Hs|].
      destruct (a_offt a); [apply orb_true_r | congruence]. }
    rewrite X. eexists. split; [reflexivity|]. destruct (a_offt a); lia.
Qed.
Close Scope Z_scope.

(* ====================== non-vacuity and boundary examples ====================== *)
Fixpoint nodupb {A} (eqb : A -> A -> bool) (l : list A) : bool :=
  match l with [] => true | x :: r => negb (mem eqb x r) && nodupb eqb r end.
Lemma nodupb_sound {A} (eqb : A -> A -> bool) (eqb_eq : forall a b, eqb a b = true <-> a = b) l :
  nodupb eqb l = true -> NoDup l.
Proof.
  induction l as [|x r IH]; cbn; intros H; [constructor|].
  apply andb_true_iff in H. destruct H as [H1 H2]. constructor; [|now apply IH].
  intros X. apply (mem_In eqb eqb_eq) in X. rewrite X in H1. discriminate.
Qed.
Lemma forallb_Forall {A} (p : A -> bool) (P : A -> Prop) l :
  (forall x, p x = true -> P x) -> forallb p l = true -> Forall P l.
Proof. intros H F. apply Forall_forall. intros x Hx. apply H. rewrite forallb_forall in F. now apply F. Qed.

Module Ex.
  Definition b28 (b : byte) : bytes := repeat b 28.
  Definition b32 (b : byte) : bytes := repeat b 32.
  Definition s1 := mkScript LV2 (b28 xa1).       (* spends u2, carried by the reference UTxO rf *)
  Definition s2 := mkScript LV3 (b28 xb2).       (* spends u1 and mints, shipped in the witness set *)
  Definition s3 := mkScript LV1 (b28 xc3).       (* certificate script *)
  Definition s4 := mkScript LV2 (b28 xd4).       (* sits on the UTxO it locks *)
  Definition d1 := mkDatum (b32 x0d) [x01].
  Definition k1 := mkUtxo (b32 x50, 0) false (b28 x77) ONone None.
  Definition bank := mkUtxo (b32 x00, 7) false (b28 x77) ONone None.
  Definition rf := mkUtxo (b32 xee, 0) false (b28 x78) ONone (Some s1).
  Definition u1 := mkUtxo (b32 x10, 2) true (b28 xb2) (OInline [x05]) None.
  Definition u2 := mkUtxo (b32 x90, 0) true (b28 xa1) (OHash (b32 x0d)) None.
  Definition u4 := mkUtxo (b32 x10, 10) true (b28 xd4) ONone (Some s4).
  Definition rd (i : N) := mkRdm i None 0 [n2b i] None.
  Definition ops : list bop :=
    [AddInput k1; AddScriptInput u2 (SrcUtxo rf) (Some d1) (Some (rd 1)); AddCert [x0c; x00];
     AddScriptInput u1 (SrcScript s2) None (Some (rd 2)); AddCert [x0c; x01];
     AddCertificateScript (SrcScript s3) (Some (rd 3)); AddCert [x0c; x02];
     AddMintingScript (SrcScript s2) (Some (rd 4)); AddScriptInput u4 (SrcNone []) None (Some (rd 5))].
  Definition args (rdup : bool) : bargs :=
    mkArgs [b28 xb2; b28 x01] [] 0 [bank] [(1, (10, 20)); (2, (11, 21)); (3, (12, 22)); (4, (13, 23)); (5, (14, 24))] rdup
           2000%Z None None None None.
  (* a key account and a script account *)
  Definition s5 := mkScript LV2 (b28 x33).
  Definition ops_w : list bop := [AddWithdrawalScript (SrcScript s5) (Some (rd 9))].
  Definition args_w : bargs :=
    mkArgs [] [xe0 :: b28 x44; xf0 :: b28 x33] 0 [bank] [(9, (1, 1))] true 2000%Z None None None None.
End Ex.

(* the hypotheses of the four theorems are satisfiable together, with indices that are not 0,1,2,.. by construction *)
Example example_scenario :
  exists t, run_build [] Ex.ops (Ex.args true) = Ok t
    /\ NoDup (t_inputs t) /\ Forall (fun p => length p = 28%nat) (t_mint t)
    /\ map (fun r => (r_id r, r_tag r, r_index r)) (t_rdms t)
       = [(1, Some 0, 4%nat); (2, Some 0, 1%nat); (5, Some 0, 2%nat); (4, Some 1, 1%nat); (3, Some 2, 1%nat)]
    /\ map s_hash (t_v1 t ++ t_v2 t ++ t_v3 t) = [Ex.b28 xc3; Ex.b28 xb2]
    /\ t_vstart t = Some 1000%Z /\ t_ttl t = Some 12000%Z
    /\ supplied Ex.ops = [(Ex.u2, Ex.d1)].
Proof.
  eexists. split; [vm_compute; reflexivity|].
  split; [apply (nodupb_sound txin_eqb txin_eqb_eq); vm_compute; reflexivity|].
  split; [apply (forallb_Forall (fun p => Nat.eqb (length p) 28)); [intros x; apply Nat.eqb_eq | vm_compute; reflexivity]|].
  repeat split; vm_compute; reflexivity.
Qed.

(* build_witness_set() with its default remove_dup_script=False ships a script that the spent UTxO already carries *)
Example remove_dup_flag_matters :
  exists t, run_build [] Ex.ops (Ex.args false) = Ok t /\
    (length (filter (bytes_eqb (Ex.b28 xd4)) (map s_hash (t_native t ++ t_v1 t ++ t_v2 t ++ t_v3 t)))
     + (if mem bytes_eqb (Ex.b28 xd4) (map s_hash (scripts_on (b_refin (t_state t) ++ b_inputs (t_state t)))) then 1 else 0)
     = 2)%nat.
Proof. eexists. split; vm_compute; reflexivity. Qed.

(* OPEN SPEC POINT: with a key account and a script account in one transaction the builder's bytewise rank
   (key account 0xE0.. first) differs from the ledger's credential order (script hashes first) *)
Example reward_mixed_orders_differ :
  exists t r, run_build [] Ex.ops_w Ex.args_w = Ok t /\ t_rdms t = [r] /\ r_tag r = Some TAG_REWARD
    /\ attached [] Ex.ops_w = [(r_id r, IReward (Ex.b28 x33))]
    /\ r_index r = 1%nat
    /\ nth_error (isort bytes_ltb (t_wdrl t)) 1 = Some (script_account 0 (Ex.b28 x33))
    /\ nth_error (isort acct_ltb (t_wdrl t)) 0 = Some (script_account 0 (Ex.b28 x33)).
Proof. do 2 eexists. repeat split; vm_compute; reflexivity. Qed.

(* ================= calls that do not touch the slice =================
   builder.collaterals.append(u), builder.reference_inputs.add(u) by the caller and add_output(o, datum=d) with
   add_datum_to_witness=False leave every table of the slice as it is: the redeemers, their pointers, the scripts and datums
   of the witness set and (ScriptHash.v) the language views and the script integrity hash of a history are those of the
   history without these calls — in particular a script that a collateral or a read-only reference UTxO happens to carry is
   never a script of the transaction, and a datum registered for a spent input survives a later add_output of an equal datum *)
Definition inert (op : bop) : bool :=
  match op with AddCollateral _ | AddReferenceInput _ | AddOutputDatumHashOnly _ => true | _ => false end.

Lemma run_from_inert ops : forall st, run_from st ops = run_from st (filter (fun o => negb (inert o)) ops).
Proof.
  induction ops as [|op ops IH]; intros st; [reflexivity|].
  destruct op; cbn [inert negb filter run_from bstep bind]; try apply IH;
    match goal with |- bind ?x _ = bind ?x _ => destruct x; cbn [bind]; [apply IH | reflexivity] end.
Qed.

Theorem inert_calls native ops a :
  run_build native ops a = run_build native (filter (fun o => negb (inert o)) ops) a.
Proof. unfold run_build, run. now rewrite run_from_inert. Qed.
