(* C19 — CIP-8 signed messages verify iff untampered and bound to the signer.
   Statements only; the model is PyC.Cip8 (cip8.py + the cose/cbor2 code it drives), proofs are in PyC.Cip8Proofs.
   Ed25519, BLAKE2b-224 and Bech32 are universally quantified functions; what is assumed about them is
   written out in each statement. *)
From Coq Require Import NArith ZArith List Bool.
From Coq Require Import Init.Byte.
From PyC Require Import Base Cbor Cip8 Cip8Proofs.
Import ListNotations.
Open Scope N_scope.

(* verify(sign(m, k)) = verified, m, address of k — every UTF-8 message, ordinary and extended payment and stake
   keys, COSE key attached or carried as KID, both networks.  Assumed: the sign/verify law of the scheme on both
   signing paths and the output sizes of the primitives. *)
Theorem C19_complete :
  forall (ed_verify : bytes -> bytes -> bytes -> bool) (ed_pub : bytes -> bytes)
         (ed_sign xed_sign : bytes -> bytes -> bytes) (xed_pub H28 : bytes -> bytes)
         (bech32_dec : bytes -> option bytes),
  (forall s m, ed_verify (ed_pub s) m (ed_sign s m) = true) ->
  (forall x m, ed_verify (xed_pub x) m (xed_sign x m) = true) ->
  (forall b, lenN (H28 b) = 28) ->
  (forall s m, lenN (ed_sign s m) = 64) ->
  (forall x m, lenN (xed_sign x m) = 64) ->
  forall (m : bytes) (k : skey) (attach : bool) (net : network),
  wf_key ed_pub xed_pub k -> utf8_valid m = true -> lenN m < two64 ->
  let '(sm, key) := cip8_sign ed_pub ed_sign xed_sign H28 m k attach net in
  cip8_verify ed_verify H28 bech32_dec sm key =
  Ok {| verified := true; message := m; address := addr_of_key ed_pub H28 k net |}.
Proof. exact verify_sign_complete. Qed.
Print Assumptions C19_complete.

(* Whenever verify reports success on ANY received bytes (sm) and optional attached key bytes: the Ed25519 check
   succeeded on Sig_structure over exactly the received protected-header bytes and payload bytes, under the key
   that was used (first 32 bytes of it; the whole key on the ordinary branch; a 64-byte signature is enforced on
   the long-key branch); BLAKE2b-224 of that key is the credential of the reported address; the reported address
   is the "address" entry of the protected header; the returned message is the received payload.  No assumption
   on the primitives at all. *)
Theorem C19_sound :
  forall (ed_verify : bytes -> bytes -> bytes -> bool) (H28 : bytes -> bytes) (bech32_dec : bytes -> option bytes)
         (sm : bytes) (key : option bytes) (r : vresult),
  cip8_verify ed_verify H28 bech32_dec sm key = Ok r -> verified r = true ->
  exists items rest prot payload s vk c ck av ab,
    dec (fuel sm) sm = Some (CA items, rest)
    /\ bstr_of (nth 0 items (CU 0)) = Some prot
    /\ bstr_of (nth 2 items (CU 0)) = Some payload
    /\ bstr_of (nth 3 items (CU 0)) = Some s
    /\ ed_verify (firstn 32 vk) (sig_structure prot payload) s = true
    /\ (lenN vk = 32 \/ (32 < lenN vk /\ lenN s = 64))
    /\ cose_decode sm = Ok c /\ acquire_key c key = Ok ck /\ vk = k_x ck
    /\ (key = None -> lookup hkey_eqb (HA 4%Z) (c_phdr c) = Some (CB vk))
    /\ prot = reenc_hdr (c_phdr c)
    /\ lookup hkey_eqb addr_key (c_phdr c) = Some av
    /\ addr_value_bytes bech32_dec av = Ok ab /\ parse_addr ab = Ok (address r)
    /\ credential (address r) = Some (H28 vk)
    /\ message r = payload /\ utf8_valid payload = true.
Proof. exact verify_sound_raw. Qed.
Print Assumptions C19_sound.

(* Tampering.  Let (prot0, m, sg0) be what sign produced with key k.  Assume pointwise unforgeability at the
   signer's key (the only (message, signature) that verifies under vk is the signed one) and that no other key
   hashes to the signer's credential.  Then every received structure that verify reports as verified for the
   signer's credential carries exactly prot0, m and sg0 - i.e. altering the payload, the protected header
   (address, KID, algorithm, any byte of its serialisation) or the signature, or presenting another key for the
   signer's address, never yields verified = true (it yields verified = false or an error).
   Side condition: the received protected header and payload are shorter than 2^64 bytes. *)
Theorem C19_tamper :
  forall (ed_verify : bytes -> bytes -> bytes -> bool) (ed_pub : bytes -> bytes)
         (ed_sign xed_sign : bytes -> bytes -> bytes) (H28 : bytes -> bytes) (bech32_dec : bytes -> option bytes),
  (forall b, lenN (H28 b) = 28) ->
  forall (m : bytes) (k : skey) (attach : bool) (net : network),
  let vk := vk_of ed_pub k in
  let prot0 := sign_prot ed_pub H28 k attach net in
  let sg0 := sign_sig ed_pub ed_sign xed_sign H28 m k attach net in
  lenN vk = 32 -> lenN m < two64 ->
  (forall m' s', ed_verify vk m' s' = true -> m' = sig_structure prot0 m /\ s' = sg0) ->
  (forall v', H28 v' = H28 vk -> v' = vk) ->
  forall (sm' : bytes) (key' : option bytes) (r : vresult) (c' : cose),
  cip8_verify ed_verify H28 bech32_dec sm' key' = Ok r -> verified r = true ->
  credential (address r) = Some (H28 vk) ->
  cose_decode sm' = Ok c' -> lenN (c_prot c') < two64 -> lenN (c_payload c') < two64 ->
  c_prot c' = prot0 /\ c_payload c' = m /\ c_sig c' = CB sg0
  /\ message r = m /\ address r = addr_of_key ed_pub H28 k net.
Proof. exact verify_tamper. Qed.
Print Assumptions C19_tamper.
