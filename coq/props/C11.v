(* C11 — redeemers point at the items they unlock; scripts and datums are supplied; the automatic
   validity interval contains the current slot.
   Statements only; model in PyC.Redeemers, proofs in PyC.RedeemersProofs.

   Reading guide.  `run_build native ops a = Ok t`: the add_* calls `ops` on a fresh builder whose
   native_scripts field is `native`, followed by build()/build_and_sign() with arguments `a`, succeed
   and determine the parts `t` of the transaction.  `attached [] ops`, `needed ops`, `supplied ops`
   are read off the list of calls alone (which redeemer object was handed over with which input /
   policy / reward script / last certificate; which script hashes the calls require; which datums
   came with which script input).  Orders: txin_ltb = (tx id bytes, index), bytes_ltb = bytewise,
   acct_ltb = the ledger's reward-account order (network, script before key, hash). *)
From Coq Require Import NArith ZArith List Bool.
From PyC Require Import Base Redeemers RedeemersProofs.
Import ListNotations.

(* Every redeemer of the built transaction carries the tag of its purpose and, as index, the position
   of the item it was attached to in the ledger's canonical list of that purpose:
     spend  : inputs of the body sorted by (tx id bytes, index)   — any number of inputs, including
              those added by coin selection, whatever the order of the calls;
     mint   : policies of the mint field sorted bytewise;
     reward : withdrawal accounts in ledger order (clause stated when every account is a script
              account: there the builder's bytewise order and the ledger's order coincide; see
              C11_reward_mixed_undecided);
     cert   : the certificate list, position of the certificate that was last when the script was attached. *)
Theorem C11_pointers : forall native ops a t,
  run_build native ops a = Ok t ->
  NoDup (t_inputs t) ->                                        (* distinct UTxOs have distinct (tx id, index) *)
  Forall (fun p => length p = 28%nat) (t_mint t) ->            (* policy ids are script hashes *)
  forall r, In r (t_rdms t) ->
  exists tag it,
    r_tag r = Some tag /\ In (r_id r, it) (attached [] ops) /\
    ((forall h, it = IReward h -> forallb is_script_acct (t_wdrl t) = true) ->
     match it with
     | ISpend i => tag = TAG_SPEND /\ nth_error (isort txin_ltb (t_inputs t)) (r_index r) = Some i
     | IMint p => tag = TAG_MINT /\ nth_error (isort bytes_ltb (t_mint t)) (r_index r) = Some p
     | IReward h => tag = TAG_REWARD /\
                    exists net, nth_error (isort acct_ltb (t_wdrl t)) (r_index r) = Some (script_account net h)
     | ICert c => tag = TAG_CERT /\ nth_error (t_certs t) (r_index r) = Some c
     end).
Proof. exact pointers. Qed.
Print Assumptions C11_pointers.

(* ... which is the ledger's pointer in its own terms: the index is the number of smaller members *)
Theorem C11_pointer_is_rank : forall t tag idx it,
  NoDup (t_inputs t) -> NoDup (t_mint t) -> designates t tag idx it ->
  match it with
  | ISpend i => In i (t_inputs t) /\ length (filter (fun y => txin_ltb y i) (t_inputs t)) = idx
  | IMint p => In p (t_mint t) /\ length (filter (fun y => bytes_ltb y p) (t_mint t)) = idx
  | _ => True
  end.
Proof. exact designates_count. Qed.
Print Assumptions C11_pointer_is_rank.

(* the sort keys the builder uses are the ledger's orders *)
Theorem C11_sort_keys :
  (forall a b, code_in_ltb a b = txin_ltb (u_in a) (u_in b))                       (* (str(tx id), index) *)
  /\ (forall a b, length a = length b -> code_pol_ltb a b = bytes_ltb a b)          (* ScriptHash.to_cbor() *)
  /\ (forall a b, is_script_acct a = true -> is_script_acct b = true -> acct_ltb a b = bytes_ltb a b).
Proof. exact (conj code_in_ltb_txin (conj code_pol_ltb_bytes acct_ltb_script)). Qed.
Print Assumptions C11_sort_keys.

(* Every script hash the calls need (payment hash of each script input, each script handed to
   add_minting/withdrawal/certificate_script, the native_scripts field) is available exactly once:
   either once in the witness set of build_and_sign, or on a reference input / spent input, never both;
   and each witness bucket holds scripts of its language only. *)
Theorem C11_scripts : forall native ops a t,
  run_build native ops a = Ok t -> a_rd a = true ->
  let st := t_state t in
  t_inputs t = map u_in (b_inputs st) /\ t_refin t = map u_in (b_refin st) /\
  Forall (fun s => s_lang s = LNative) (t_native t) /\ Forall (fun s => s_lang s = LV1) (t_v1 t) /\
  Forall (fun s => s_lang s = LV2) (t_v2 t) /\ Forall (fun s => s_lang s = LV3) (t_v3 t) /\
  forall h, In h (needed ops ++ map s_hash native) ->
    (count_occ bytes_eq_dec (map s_hash (t_native t ++ t_v1 t ++ t_v2 t ++ t_v3 t)) h
     + (if mem bytes_eqb h (map s_hash (scripts_on (b_refin st ++ b_inputs st))) then 1 else 0) = 1)%nat.
Proof. exact scripts_once. Qed.
Print Assumptions C11_scripts.

(* Every datum supplied with a script input is in the witness set's datum list exactly once, and it is
   the datum the input's hash asks for. *)
Theorem C11_datums : forall native ops a t,
  run_build native ops a = Ok t ->
  forall u d, In (u, d) (supplied ops) ->
    count_occ bytes_eq_dec (map d_hash (t_datums t)) (d_hash d) = 1%nat
    /\ (forall h, u_dat u = OHash h -> h = d_hash d).
Proof. exact datums_once. Qed.
Print Assumptions C11_datums.

(* The automatically set bounds enclose the current slot: with scripts involved (or an explicit
   offset), no user-set bound, a start offset <= 0 and a ttl offset >= 0 (defaults -1000 / +10000). *)
Theorem C11_validity : forall native ops a t,
  run_build native ops a = Ok t ->
  (0 <= a_last a)%Z ->
  (a_vstart a = None -> (exists st, run native ops = Ok st /\ is_smart st = true) \/ a_offs a <> None ->
   match a_offs a with Some o => (o <= 0)%Z | None => True end ->
   exists s, t_vstart t = Some s /\ (s <= a_last a)%Z)
  /\
  (a_ttl a = None -> (exists st, run native ops = Ok st /\ is_smart st = true) \/ a_offt a <> None ->
   match a_offt a with Some o => (0 <= o)%Z | None => True end ->
   exists e, t_ttl t = Some e /\ (a_last a <= e)%Z).
Proof. exact validity_contains. Qed.
Print Assumptions C11_validity.

(* OPEN SPEC POINT (not a verdict): with a key reward account and a script reward account in one
   transaction the builder ranks the script account bytewise (header 0xE0 < 0xF0: index 1) while the
   ledger's derived order on credentials puts script hashes first (index 0). *)
Theorem C11_reward_mixed_undecided :
  exists t r, run_build [] Ex.ops_w Ex.args_w = Ok t /\ t_rdms t = [r] /\ r_tag r = Some TAG_REWARD
    /\ attached [] Ex.ops_w = [(r_id r, IReward (Ex.b28 Byte.x33))]
    /\ r_index r = 1%nat
    /\ nth_error (isort bytes_ltb (t_wdrl t)) 1 = Some (script_account 0 (Ex.b28 Byte.x33))
    /\ nth_error (isort acct_ltb (t_wdrl t)) 0 = Some (script_account 0 (Ex.b28 Byte.x33)).
Proof. exact reward_mixed_orders_differ. Qed.
Print Assumptions C11_reward_mixed_undecided.

(* calls that hand the builder a UTxO or a datum WITHOUT making it part of what the transaction resolves:
   builder.collaterals.append(u), builder.reference_inputs.add(u) (a read-only reference input) and
   add_output(o, datum=d) with add_datum_to_witness=False.  A history with such calls builds exactly what the history
   without them builds (redeemers and pointers, witness scripts per language, witness datums, validity interval): a script
   carried by a collateral or read-only reference UTxO never replaces a witness script, and a datum supplied for a spent
   input is not evicted by a later output carrying an equal datum.  (The read-only reference inputs themselves join body
   field 18: Redeemers.body_refin.) *)
Theorem C11_inert_calls : forall native ops a,
  run_build native ops a = run_build native (filter (fun o => negb (inert o)) ops) a.
Proof. exact inert_calls. Qed.
Print Assumptions C11_inert_calls.
